(* C15, bodies with print commands among the tags (Spec/TextTags.v): the item grammar [c15_gshape] (as [mshape] of
   Proofs/LexBodyMixMain.v, with a third kind of tag: "{" and the items of a print command), the reading of a
   body through the pieces of its stretches, the items with the positions of the print commands' items erased,
   and small facts about [c15_view0]. *)
From Soy Require Import Model.Bytes Model.Utf8 Model.Outcome Model.Num Model.Values Model.Ast Model.Token Model.RawText
  Model.ExprParser Model.Parser Model.Lexer Generated.Tables Spec.Text Spec.TextBody Spec.TextMix Spec.TextTags Spec.ExprSyntax
  Proofs.RawTextProofs Proofs.ExprParserRules Proofs.ExprParserProofs Proofs.ParserMeasure Proofs.ParserProofs Proofs.LexTokens Proofs.LexBodyText Proofs.LexBodyTop
  Proofs.LexBodyMain Proofs.LexBodyMixMain Proofs.ParseBodyText Proofs.LexPrintMain Proofs.LexParseText Proofs.PlaceholderTextProofs
  Proofs.CmdParserStripDefs.
From Coq Require Import ZifyBool ZifyNat ZifyN Lia.
Open Scope N_scope.

(* the items of a body; X n mid: the items of the print command n after its "{" *)
Inductive c15_gshape (X : node -> list tok -> Prop) : list bstr -> list (c15_tag * list bstr) -> list tok -> Prop :=
| gs_end pcs its e : pshape pcs its -> t_typ e = itemEOF -> c15_gshape X pcs [] (its ++ [e])
| gs_text pcs its c o tg pcs' rest items :
    pshape pcs its -> tagitems o tg -> c15_gshape X pcs' rest items ->
    c15_gshape X pcs ((C15Text (c, o), pcs') :: rest) (its ++ tg ++ items)
| gs_print pcs its n txt ld mid pcs' rest items :
    pshape pcs its -> t_typ ld = itemLeftDelim -> X n mid -> c15_gshape X pcs' rest items ->
    c15_gshape X pcs ((C15Print n txt, pcs') :: rest) (its ++ (ld :: mid) ++ items).

(* as the scanner sends them: types and texts of tokens_of_print n; with the positions erased: exactly the items
   of the command with all positions 0 *)
Definition c15_X1 (n : node) (mid : list tok) : Prop := map tv mid = map tv (tokens_of_print n).
Definition c15_X0 (n : node) (mid : list tok) : Prop := mid = tokens_of_print (strip_pos n).

(* the reading, through the pieces *)
Fixpoint gs_rest_out (rp : list (c15_tag * list bstr)) : c15_reading :=
  match rp with
  | [] => ([], [])
  | (tg, pcs) :: rp' =>
      let o := gs_rest_out rp' in
      match tg with
      | C15Text (_, tx) => (tx ++ norm_pieces false pcs ++ fst o, snd o)
      | C15Print n _ => ([], (strip_pos n, norm_pieces false pcs ++ fst o) :: snd o)
      end
  end.
Definition gs_out (fl : bool) (pcs : list bstr) (rp : list (c15_tag * list bstr)) : c15_reading :=
  (norm_pieces fl pcs ++ fst (gs_rest_out rp), snd (gs_rest_out rp)).

(* ---------- erasing the positions inside the print commands ---------- *)
Lemma twf_strip_tok inlen t : twf inlen t -> twf inlen (strip_tok t).
Proof.
  unfold twf, twfb, strip_tok. cbn [t_pos t_typ t_val tk]. intros H.
  apply Bool.andb_true_iff in H. destruct H as [H H2]. apply Bool.andb_true_iff in H. destruct H as [_ H1].
  rewrite H1, H2. destruct inlen; reflexivity.
Qed.

Lemma gshape_erase inlen : forall pcs rp items, c15_gshape c15_X1 pcs rp items -> items_wf inlen items ->
  exists items0, c15_gshape c15_X0 pcs rp items0 /\ map strip_tok items0 = map strip_tok items /\ items_wf inlen items0 /\
                 length items0 = length items.
Proof.
  intros pcs rp items H. induction H as [pcs its e Hps He|pcs its c o tg pcs' rest items Hps Htg Hsh IH|pcs its n txt ld mid pcs' rest items Hps Hld HX Hsh IH]; intros Hw.
  - exists (its ++ [e]). split; [apply gs_end; assumption|]. auto.
  - unfold items_wf in Hw. rewrite !Forall_app in Hw. destruct Hw as (Hw1 & Hw2 & Hw3).
    destruct (IH Hw3) as (items0 & Hsh0 & Hst & Hw0 & Hlen). exists (its ++ tg ++ items0).
    split; [apply gs_text; assumption|]. split; [rewrite !map_app, Hst; reflexivity|].
    split; [unfold items_wf; rewrite !Forall_app; auto|]. rewrite !app_length, Hlen. reflexivity.
  - unfold items_wf in Hw. rewrite !Forall_app in Hw. destruct Hw as (Hw1 & Hw2 & Hw3). inversion Hw2 as [|? ? Hwld Hwmid]; subst.
    destruct (IH Hw3) as (items0 & Hsh0 & Hst & Hw0 & Hlen).
    assert (Hmid : map strip_tok mid = tokens_of_print (strip_pos n)).
    { unfold tokens_of_print. rewrite show_print_strip. apply tv_strip. exact HX. }
    exists (its ++ (ld :: map strip_tok mid) ++ items0).
    split; [apply gs_print; [assumption|assumption|exact Hmid|assumption]|].
    split.
    { assert (Hmm : map strip_tok (map strip_tok mid) = map strip_tok mid) by (rewrite map_map; apply map_ext; intros t; reflexivity).
      rewrite !map_app. cbn [map]. rewrite ?map_app, Hst, Hmm. reflexivity. }
    split.
    { unfold items_wf. rewrite !Forall_app. split; [exact Hw1|]. split; [|exact Hw0]. constructor; [exact Hwld|].
      rewrite Forall_forall in *. intros t Ht. apply in_map_iff in Ht. destruct Ht as (t0 & <- & Ht0). apply twf_strip_tok. apply Hwmid. exact Ht0. }
    rewrite !app_length. cbn [length]. rewrite ?app_length, map_length, Hlen. reflexivity.
Qed.

(* ---------- strip_pos is idempotent on well-formed trees ---------- *)
Lemma strip_pos_idem : forall e, wf_expr e -> strip_pos (strip_pos e) = strip_pos e.
Proof.
  induction e as [e IH] using size_induction. intros Hwf.
  destruct e; cbn [wf_expr] in Hwf; try contradiction; cbn [strip_pos]; try reflexivity.
  - f_equal. rewrite map_map. apply map_ext_in. intros c Hc. apply IH; [cbn [size]; pose proof (size_in_list c args Hc); lia|exact (allP_In _ _ _ Hwf Hc)].
  - f_equal. rewrite map_map. apply map_ext_in. intros c Hc. apply IH; [cbn [size]; pose proof (size_in_list c items Hc); lia|exact (allP_In _ _ _ Hwf Hc)].
  - f_equal. rewrite map_map. apply map_ext_in. intros kv Hc. cbn [fst snd]. f_equal. destruct Hwf as [Hwa _].
    apply IH; [cbn [size]; pose proof (list_sum_In (fun kv => size (snd kv)) kv _ Hc); lia|exact (proj2 (allP_In _ _ _ Hwa Hc))].
  - f_equal. rewrite map_map. apply map_ext_in. intros a Hc. pose proof (allP_In _ _ _ Hwf Hc) as Ha. cbn beta in Ha.
    destruct a; try contradiction; cbn [strip_pos]; try reflexivity. f_equal.
    apply IH; [pose proof (size_in_list _ access Hc) as Hs; cbn [size] in Hs |- *; lia|exact Ha].
  - f_equal. apply IH; [cbn [size]; lia|exact Hwf].
  - f_equal. apply IH; [cbn [size]; lia|exact Hwf].
  - destruct Hwf as [H1 H2]. f_equal; apply IH; try assumption; cbn [size]; lia.
  - destruct Hwf as (_ & H1 & H2 & H3). f_equal; apply IH; try assumption; cbn [size]; lia.
Qed.

Lemma strip_pos_idem_print n : wf_print n -> strip_pos (strip_pos n) = strip_pos n.
Proof.
  destruct n; cbn [wf_print]; try contradiction. intros [Ha Hd]. cbn [strip_pos]. f_equal; [apply strip_pos_idem; exact Ha|].
  rewrite map_map. apply map_ext_in. intros d Hin. pose proof (allP_In _ _ _ Hd Hin) as Hdd.
  destruct d; cbn [wf_directive] in Hdd; try contradiction. cbn [strip_pos]. f_equal. rewrite map_map. apply map_ext_in.
  intros c Hc. apply strip_pos_idem. exact (allP_In _ _ _ Hdd Hc).
Qed.

(* ---------- the reading of a node list ---------- *)
Lemma view0_raw_app : forall ns r, Forall is_raw ns ->
  c15_view0 (map cps_strip (ns ++ r)) = (concat (map raw_text_of ns) ++ fst (c15_view0 (map cps_strip r)), snd (c15_view0 (map cps_strip r))).
Proof.
  induction ns as [|n ns IH]; intros r H; [cbn; destruct (c15_view0 (map cps_strip r)); reflexivity|].
  inversion H as [|? ? Hn Hns]; subst. destruct n; try contradiction. cbn [app map cps_strip c15_view0 raw_text_of concat].
  rewrite (IH r Hns). cbn [fst snd]. rewrite app_assoc. reflexivity.
Qed.

Lemma view0_raw_cons p o r :
  c15_view0 (map cps_strip (NRawText p o :: r)) = (o ++ fst (c15_view0 (map cps_strip r)), snd (c15_view0 (map cps_strip r))).
Proof. reflexivity. Qed.

Lemma view0_print_cons n r : wf_print n ->
  c15_view0 (map cps_strip (strip_pos n :: r)) = ([], (strip_pos n, fst (c15_view0 (map cps_strip r))) :: snd (c15_view0 (map cps_strip r))).
Proof.
  intros Hwf. pose proof (strip_pos_idem_print n Hwf) as Hid. destruct n; cbn [wf_print] in Hwf; try contradiction.
  cbn [map]. match goal with |- context [cps_strip (strip_pos ?x)] => change (cps_strip (strip_pos x)) with (strip_pos (strip_pos x)) end.
  rewrite Hid. reflexivity.
Qed.
