(* C11: lemmas about Model/MsgParts.v.
   Part A: soymsg.Parts inverts the printer of placeholder strings.
   Part B: ast.MsgNode.Placeholder on flat and on PO-plural messages.
   Part C: rendering with a bundle, for every walker [w] (open recursion). *)
From Coq Require Import Permutation.
From Soy Require Import Model.Bytes Model.Outcome Model.Num Model.Values Model.Ast Model.MsgId
  Model.Interp Model.MsgParts Spec.MsgCat.
Open Scope N_scope.

(* ------------------------------------------------------------------ *)
(* small facts                                                         *)
(* ------------------------------------------------------------------ *)

Lemma beq_eq x y : bstr_eqb x y = true <-> x = y.
Proof.
  revert y; induction x as [|a x IH]; destruct y as [|c y]; cbn [bstr_eqb]; try (split; [discriminate|discriminate]); [tauto|].
  rewrite Bool.andb_true_iff, N.eqb_eq, IH. split; [intros [-> ->]; reflexivity | intros [= -> ->]; auto].
Qed.
Lemma beq_refl x : bstr_eqb x x = true.
Proof. apply beq_eq; reflexivity. Qed.
Lemma beq_neq x y : bstr_eqb x y = false <-> x <> y.
Proof.
  split.
  - intros H ->. rewrite beq_refl in H; discriminate.
  - intros H. destruct (bstr_eqb x y) eqn:E; [apply beq_eq in E; contradiction | reflexivity].
Qed.

Lemma ph_char_lbrace : ph_char 123 = false. Proof. reflexivity. Qed.
Lemma ph_char_rbrace : ph_char 125 = false. Proof. reflexivity. Qed.

Lemma flush_nil k : flush [] k = k. Proof. reflexivity. Qed.
Lemma flush_cons raw k : raw <> [] -> flush raw k = PText raw :: k.
Proof. destruct raw; [congruence | reflexivity]. Qed.

(* ------------------------------------------------------------------ *)
(* Part A: Parts inverts the printer                                   *)
(* ------------------------------------------------------------------ *)

(* the scanner recognises a well-formed name followed by '}' *)
Lemma scan_name_ok n rest seen :
  forallb ph_char n = true -> (n <> [] \/ seen = true) ->
  scan_name seen (n ++ 125 :: rest) = Some n.
Proof.
  revert seen; induction n as [|c n IH]; intros seen Hall Hne.
  - cbn [app scan_name]. rewrite ph_char_rbrace. destruct Hne as [Hne | ->]; [congruence|]. reflexivity.
  - cbn [forallb] in Hall. apply Bool.andb_true_iff in Hall as [Hc Hn].
    cbn [app scan_name]. rewrite Hc. rewrite (IH true Hn (or_intror eq_refl)). reflexivity.
Qed.

(* what the scanner accepts is a well-formed name followed by '}' *)
Lemma scan_name_some seen s nm :
  scan_name seen s = Some nm ->
  forallb ph_char nm = true /\ (nm <> [] \/ seen = true) /\ exists rest, s = nm ++ 125 :: rest.
Proof.
  revert seen nm; induction s as [|c s IH]; intros seen nm; cbn [scan_name]; [discriminate|].
  destruct (ph_char c) eqn:Hc.
  - destruct (scan_name true s) as [nm'|] eqn:E; [|discriminate]. intros [= <-].
    destruct (IH _ _ E) as [Hall [_ [rest ->]]].
    split; [cbn [forallb]; rewrite Hc, Hall; reflexivity|]. split; [left; discriminate|].
    exists rest. reflexivity.
  - destruct (c =? 125) eqn:E125; cbn [andb]; [|discriminate].
    destruct seen; [|discriminate]. intros [= <-]. apply N.eqb_eq in E125. subst c.
    split; [reflexivity|]. split; [right; reflexivity|]. exists s. reflexivity.
Qed.

(* bytes of a recognised match are passed over *)
Lemma parts_go_skip pre s raw : parts_go (pre ++ s) (length pre) raw = parts_go s 0 raw.
Proof.
  induction pre as [|c pre IH]; [reflexivity|].
  cbn [app length parts_go]. exact IH.
Qed.

(* a placeholder token is split off *)
Lemma parts_go_ph n rest raw :
  name_ok n ->
  parts_go (123 :: n ++ 125 :: rest) 0 raw = flush raw (PPh n :: parts_go rest 0 []).
Proof.
  intros [Hne Hall]. cbn [parts_go]. rewrite N.eqb_refl.
  rewrite (scan_name_ok n rest false Hall (or_introl Hne)).
  f_equal. f_equal.
  replace (n ++ 125 :: rest) with ((n ++ [125]) ++ rest) by (rewrite <- app_assoc; reflexivity).
  replace (S (length n)) with (length (n ++ [125])) by (rewrite app_length; cbn [length]; lia).
  apply parts_go_skip.
Qed.

(* no '{' of [t] starts a match even when [rest] follows *)
Definition no_match_in (t rest : bstr) : Prop :=
  forall pre suf, t = pre ++ 123 :: suf -> scan_name false (suf ++ rest) = None.

Lemma parts_go_text t rest raw :
  no_match_in t rest -> parts_go (t ++ rest) 0 raw = parts_go rest 0 (raw ++ t).
Proof.
  revert raw; induction t as [|c t IH]; intros raw H.
  - cbn [app]. rewrite app_nil_r. reflexivity.
  - assert (no_match_in t rest) as H'.
    { intros pre suf E. apply (H (c :: pre) suf). rewrite E. reflexivity. }
    cbn [app parts_go].
    replace (raw ++ c :: t) with ((raw ++ [c]) ++ t) by (rewrite <- app_assoc; reflexivity).
    destruct (c =? 123) eqn:Ec.
    + apply N.eqb_eq in Ec. subst c. rewrite (H [] t eq_refl). apply IH, H'.
    + apply IH, H'.
Qed.

(* a failed attempt stays failed when the text is followed by nothing or by a '{' *)
Definition brace_start (rest : bstr) : Prop := rest = [] \/ exists r, rest = 123 :: r.

Lemma scan_name_none_app seen suf rest :
  brace_start rest -> scan_name seen suf = None -> scan_name seen (suf ++ rest) = None.
Proof.
  intros Hr. revert seen; induction suf as [|c suf IH]; intros seen H.
  - cbn [app]. destruct Hr as [-> | [r ->]]; [reflexivity|].
    cbn [scan_name]. rewrite ph_char_lbrace. reflexivity.
  - cbn [app scan_name] in *. destruct (ph_char c).
    + destruct (scan_name true suf) eqn:E; [discriminate|]. rewrite (IH true E). reflexivity.
    + destruct ((c =? 125) && seen); [discriminate | reflexivity].
Qed.

Lemma has_match_false t :
  has_match t = false -> forall pre suf, t = pre ++ 123 :: suf -> scan_name false suf = None.
Proof.
  induction t as [|c t IH]; intros H pre suf E.
  - destruct pre; discriminate.
  - cbn [has_match] in H. apply Bool.orb_false_iff in H as [H1 H2].
    destruct pre as [|c' pre]; cbn [app] in E; injection E as -> ->.
    + rewrite N.eqb_refl in H1. cbn [andb] in H1. destruct (scan_name false suf); [discriminate | reflexivity].
    + apply (IH H2 pre suf eq_refl).
Qed.

Lemma no_match_in_of t rest : has_match t = false -> brace_start rest -> no_match_in t rest.
Proof.
  intros H Hr pre suf E. apply scan_name_none_app; [exact Hr|]. apply (has_match_false t H pre suf E).
Qed.

Lemma print_parts_brace_start l :
  match l with PText _ :: _ => False | _ => True end -> brace_start (print_parts l).
Proof.
  destruct l as [|[t|n] r]; intros H; [left; reflexivity | contradiction |].
  right. cbn [print_parts flat_map print_part]. eexists. reflexivity.
Qed.

Lemma print_parts_ph n r : print_parts (PPh n :: r) = 123 :: n ++ 125 :: print_parts r.
Proof. cbn [print_parts flat_map print_part app]. rewrite <- app_assoc. reflexivity. Qed.
Lemma print_parts_text t r : print_parts (PText t :: r) = t ++ print_parts r.
Proof. reflexivity. Qed.
Lemma print_parts_app l1 l2 : print_parts (l1 ++ l2) = print_parts l1 ++ print_parts l2.
Proof. unfold print_parts. apply flat_map_app. Qed.

(* Parts inverts the printer on clean part lists *)
Theorem parts_print_clean l : parts_clean l -> parts (print_parts l) = l.
Proof.
  unfold parts. induction l as [|[t|n] r IH]; intros H.
  - reflexivity.
  - cbn [parts_clean] in H. destruct H as [Hne [Hm [Hnext Hr]]].
    rewrite print_parts_text.
    rewrite parts_go_text by (apply no_match_in_of; [exact Hm | apply print_parts_brace_start, Hnext]).
    cbn [app]. destruct r as [|[t'|n'] r'].
    + cbn [print_parts flat_map parts_go]. apply flush_cons, Hne.
    + contradiction.
    + specialize (IH Hr). rewrite print_parts_ph in *. cbn [parts_clean] in Hr. destruct Hr as [Hn' Hr'].
      rewrite parts_go_ph in * by exact Hn'. rewrite flush_cons by exact Hne.
      rewrite flush_nil in IH. rewrite IH. reflexivity.
  - cbn [parts_clean] in H. destruct H as [Hn Hr].
    rewrite print_parts_ph. rewrite parts_go_ph by exact Hn. rewrite flush_nil. f_equal. apply IH, Hr.
Qed.

(* ---- any part list: Parts yields the normal form ---- *)

Lemma print_parts_flush raw k : print_parts (flush raw k) = raw ++ print_parts k.
Proof. destruct raw; reflexivity. Qed.

Lemma print_parts_merge_go l raw : print_parts (merge_go l raw) = raw ++ print_parts l.
Proof.
  revert raw; induction l as [|[t|n] r IH]; intros raw; cbn [merge_go].
  - rewrite print_parts_flush. reflexivity.
  - rewrite IH, print_parts_text, app_assoc. reflexivity.
  - rewrite print_parts_flush. rewrite !print_parts_ph. rewrite IH. reflexivity.
Qed.

Lemma print_parts_merge l : print_parts (merge_texts l) = print_parts l.
Proof. unfold merge_texts. rewrite print_parts_merge_go. reflexivity. Qed.

(* Parts of a printed part list is its normal form, whenever the normal form's
   texts do not look like placeholders and the names are well formed *)
Theorem parts_print l : parts_clean (merge_texts l) -> parts (print_parts l) = merge_texts l.
Proof. intros H. rewrite <- print_parts_merge. apply parts_print_clean, H. Qed.

(* sufficient: no raw text contains a brace *)
Lemma no_brace_has_match t : no_brace t -> has_match t = false.
Proof.
  induction t as [|c t IH]; intros H; [reflexivity|].
  cbn [has_match]. rewrite IH by (intros x Hx; apply H; right; exact Hx).
  destruct (N.eqb_spec c 123) as [->|Hne]; [destruct (H 123 (or_introl eq_refl)); congruence | reflexivity].
Qed.

Lemma no_brace_app x y : no_brace x -> no_brace y -> no_brace (x ++ y).
Proof. intros Hx Hy c Hc. apply in_app_or in Hc as [Hc|Hc]; [apply Hx | apply Hy]; exact Hc. Qed.

Lemma merge_go_clean l raw :
  (forall t, In (PText t) l -> no_brace t) -> (forall n, In (PPh n) l -> name_ok n) -> no_brace raw ->
  parts_clean (merge_go l raw).
Proof.
  revert raw; induction l as [|[t|n] r IH]; intros raw Ht Hn Hraw; cbn [merge_go].
  - destruct raw as [|c raw]; cbn [flush parts_clean]; [exact I|].
    split; [discriminate|]. split; [apply no_brace_has_match, Hraw | auto].
  - apply IH.
    + intros t' H'. apply Ht. right. exact H'.
    + intros n' H'. apply Hn. right. exact H'.
    + apply no_brace_app; [exact Hraw | apply Ht; left; reflexivity].
  - assert (parts_clean (PPh n :: merge_go r [])) as Hc.
    { cbn [parts_clean]. split; [apply Hn; left; reflexivity|]. apply IH.
      - intros t' H'. apply Ht. right. exact H'.
      - intros n' H'. apply Hn. right. exact H'.
      - intros c Hc. destruct Hc. }
    destruct raw as [|c raw]; cbn [flush]; [exact Hc|].
    cbn [parts_clean]. split; [discriminate|]. split; [apply no_brace_has_match, Hraw|]. split; [exact I | exact Hc].
Qed.

Theorem parts_print_no_brace l :
  (forall t, In (PText t) l -> no_brace t) -> (forall n, In (PPh n) l -> name_ok n) ->
  parts (print_parts l) = merge_texts l.
Proof.
  intros Ht Hn. apply parts_print. unfold merge_texts. apply merge_go_clean; [exact Ht | exact Hn |].
  intros c Hc. destruct Hc.
Qed.

(* ---- the strings that pomsg writes and MsgId's PlaceholderString ---- *)

Lemma write_body_print body : write_body body = print_parts (body_parts body).
Proof.
  unfold write_body, body_parts, print_parts.
  induction body as [|n r IH]; [reflexivity|].
  cbn [flat_map]. rewrite flat_map_app, IH. f_equal.
  destruct n; cbn [writeph part_of_node flat_map print_part app]; try reflexivity.
  all: rewrite app_nil_r; reflexivity.
Qed.

(* a {msg} without plural, as MsgId.v names it *)
Definition npart_part (p : npart) : list part :=
  match p with NmText t => [PText t] | NmPh n => [PPh n] | NmPlural _ _ _ => [] end.
Definition nflat (p : npart) : Prop := match p with NmPlural _ _ _ => False | _ => True end.

Lemma phstring_flat l : Forall nflat l -> write_fp_list true l = print_parts (flat_map npart_part l).
Proof.
  unfold write_fp_list, print_parts. induction 1 as [|p r Hp _ IH]; [reflexivity|].
  cbn [flat_map]. rewrite flat_map_app, IH. f_equal.
  destruct p; cbn [write_fp npart_part flat_map print_part app]; [rewrite app_nil_r; reflexivity | | contradiction].
  rewrite app_nil_r. reflexivity.
Qed.

(* Parts (PlaceholderString m) = the message's own part list *)
Theorem parts_phstring l :
  Forall nflat l ->
  (forall t, In (NmText t) l -> no_brace t) -> (forall n, In (NmPh n) l -> name_ok n) ->
  parts (write_fp_list true l) = merge_texts (flat_map npart_part l).
Proof.
  intros Hf Ht Hn. rewrite phstring_flat by exact Hf. apply parts_print_no_brace.
  - intros t Hin. apply in_flat_map in Hin as [p [Hp Hin]]. destruct p; cbn [npart_part] in Hin.
    + destruct Hin as [[= <-]|[]]. apply Ht, Hp.
    + destruct Hin as [[=]|[]].
    + destruct Hin.
  - intros n Hin. apply in_flat_map in Hin as [p [Hp Hin]]. destruct p; cbn [npart_part] in Hin.
    + destruct Hin as [[=]|[]].
    + destruct Hin as [[= <-]|[]]. apply Hn, Hp.
    + destruct Hin.
Qed.

(* ---- Validate's read-back check (repair 1664d1a) compares the NAMES of the
        placeholder parts only; that is enough ---- *)

Lemma list_eqb_eq x y : list_eqb x y = true <-> x = y.
Proof.
  revert y; induction x as [|a x IH]; destruct y as [|c y]; cbn [list_eqb]; try (split; [discriminate | discriminate]); [tauto|].
  rewrite Bool.andb_true_iff, beq_eq, IH. split; [intros [-> ->]; reflexivity | intros [= -> ->]; auto].
Qed.

Definition cnt (ps : list part) : nat := length (part_names ps).

Lemma part_names_flush raw k : part_names (flush raw k) = part_names k.
Proof. destruct raw; reflexivity. Qed.
Lemma part_names_ph n k : part_names (PPh n :: k) = n :: part_names k.
Proof. reflexivity. Qed.
Lemma part_names_text t k : part_names (PText t :: k) = part_names k.
Proof. reflexivity. Qed.

Lemma scan_name_some_app seen s nm rest : scan_name seen s = Some nm -> scan_name seen (s ++ rest) = Some nm.
Proof.
  revert seen nm; induction s as [|c s IH]; intros seen nm; cbn [app scan_name]; [discriminate|].
  destruct (ph_char c).
  - destruct (scan_name true s) as [nm'|] eqn:E; [|discriminate]. intros [= <-]. rewrite (IH true nm' E). reflexivity.
  - destruct ((c =? 125) && seen); [intros H; exact H | discriminate].
Qed.

(* a string without '{' that starts [t ++ rest] lies inside [t] when [rest] is empty or starts with '{' *)
Lemma prefix_within x t rest r' :
  t ++ rest = x ++ r' -> (forall c, In c x -> c <> 123) -> brace_start rest -> exists suf, t = x ++ suf.
Proof.
  revert t; induction x as [|a x IH]; intros t E Hx Hr.
  - exists t. reflexivity.
  - destruct t as [|c t].
    + cbn [app] in E. destruct Hr as [-> | [r ->]]; [discriminate|].
      injection E as <- _. exfalso. apply (Hx 123); [left; reflexivity | reflexivity].
    + cbn [app] in E. injection E as -> E.
      destruct (IH t E (fun c Hc => Hx c (or_intror Hc)) Hr) as [suf ->]. exists suf. reflexivity.
Qed.

Lemma name_rbrace_no_lbrace nm : forallb ph_char nm = true -> forall c, In c (nm ++ [125]) -> c <> 123.
Proof.
  intros Hall c Hc ->. apply in_app_or in Hc as [Hc|Hc].
  - rewrite forallb_forall in Hall. specialize (Hall 123 Hc). rewrite ph_char_lbrace in Hall. discriminate.
  - destruct Hc as [Hc|[]]. discriminate.
Qed.

(* scanning a text run that is followed by nothing or by a '{': either no '{'
   of it starts a match, or the leftmost match lies inside the run *)
Lemma parts_go_run t rest raw :
  brace_start rest ->
  (has_match t = false /\ parts_go (t ++ rest) 0 raw = parts_go rest 0 (raw ++ t)) \/
  (exists pre nm suf, t = pre ++ 123 :: nm ++ 125 :: suf /\ name_ok nm /\
     parts_go (t ++ rest) 0 raw = flush (raw ++ pre) (PPh nm :: parts_go (suf ++ rest) 0 [])).
Proof.
  intros Hr. revert raw; induction t as [|c t IH]; intros raw.
  - left. split; [reflexivity|]. cbn [app]. rewrite app_nil_r. reflexivity.
  - cbn [app parts_go has_match]. destruct (N.eqb_spec c 123) as [->|Hne].
    + destruct (scan_name false (t ++ rest)) as [nm|] eqn:E.
      * destruct (scan_name_some _ _ _ E) as [Hall [[Hne|Hf] [r' Er]]]; [|discriminate].
        assert (t ++ rest = (nm ++ [125]) ++ r') as Er' by (rewrite Er, <- app_assoc; reflexivity).
        destruct (prefix_within _ _ _ _ Er' (name_rbrace_no_lbrace nm Hall) Hr) as [suf ->].
        right. exists [], nm, suf. split; [cbn [app]; rewrite <- !app_assoc; reflexivity|].
        split; [split; assumption|]. rewrite app_nil_r. f_equal. f_equal.
        rewrite <- app_assoc.
        replace (S (length nm)) with (length (nm ++ [125])) by (rewrite app_length; cbn [length]; lia).
        apply parts_go_skip.
      * assert (scan_name false t = None) as Et.
        { destruct (scan_name false t) as [nm|] eqn:E'; [|reflexivity].
          rewrite (scan_name_some_app _ _ _ rest E') in E. discriminate. }
        rewrite Et. cbn [andb orb].
        destruct (IH (raw ++ [123])) as [[Hm Heq] | [pre [nm [suf [-> [Hnm Heq]]]]]].
        -- left. split; [exact Hm|]. rewrite Heq, <- app_assoc. reflexivity.
        -- right. exists (123 :: pre), nm, suf. split; [reflexivity|]. split; [exact Hnm|].
           rewrite Heq, <- app_assoc. reflexivity.
    + cbn [andb orb].
      destruct (IH (raw ++ [c])) as [[Hm Heq] | [pre [nm [suf [-> [Hnm Heq]]]]]].
      * left. split; [exact Hm|]. rewrite Heq, <- app_assoc. reflexivity.
      * right. exists (c :: pre), nm, suf. split; [reflexivity|]. split; [exact Hnm|].
        rewrite Heq, <- app_assoc. reflexivity.
Qed.

(* every placeholder part that Parts finds has a well-formed name *)
Lemma parts_go_names_ok s : forall skip raw, Forall name_ok (part_names (parts_go s skip raw)).
Proof.
  induction s as [|c s IH]; intros skip raw; cbn [parts_go].
  - rewrite part_names_flush. constructor.
  - destruct skip; [|apply IH].
    destruct (c =? 123); [|apply IH].
    destruct (scan_name false s) as [nm|] eqn:E; [|apply IH].
    rewrite part_names_flush, part_names_ph. constructor; [|apply IH].
    destruct (scan_name_some _ _ _ E) as [Hall [[Hne|Hf] _]]; [split; assumption | discriminate].
Qed.

(* Parts finds at least the real placeholders *)
Lemma cnt_lower l :
  (forall n, In (PPh n) l -> name_ok n) ->
  forall t raw, (cnt l <= cnt (parts_go (t ++ print_parts l) 0 raw))%nat.
Proof.
  unfold cnt. induction l as [|[t1|n] l1 IH]; intros Hok.
  - intros t raw. cbn [part_names flat_map length]. lia.
  - intros t raw. rewrite print_parts_text, app_assoc, part_names_text.
    apply IH. intros n Hn. apply Hok. right. exact Hn.
  - assert (forall m, In (PPh m) l1 -> name_ok m) as Hok1 by (intros m Hm; apply Hok; right; exact Hm).
    assert (name_ok n) as Hn by (apply Hok; left; reflexivity).
    intros t. remember (length t) as k eqn:Hk. revert t Hk.
    induction k as [k IHk] using lt_wf_ind. intros t Hk raw.
    destruct (parts_go_run t (print_parts (PPh n :: l1)) raw) as [[_ Heq] | [pre [nm [suf [Et [_ Heq]]]]]].
    + apply print_parts_brace_start. exact I.
    + rewrite Heq, print_parts_ph, parts_go_ph by exact Hn.
      rewrite part_names_flush, !part_names_ph. cbn [length].
      specialize (IH Hok1 [] []). cbn [app] in IH. lia.
    + rewrite Heq, part_names_flush, part_names_ph. cbn [length].
      assert (length suf < k)%nat as Hlt.
      { subst k t. rewrite !app_length. cbn [length]. rewrite app_length. cbn [length]. lia. }
      specialize (IHk (length suf) Hlt suf eq_refl []).
      rewrite !part_names_ph in *. cbn [length] in *. lia.
Qed.

(* the names decide: if Parts finds exactly the body's placeholder names, it
   finds exactly the body's parts *)
Lemma names_decide_go l :
  (forall n, In (PPh n) l -> name_ok n) ->
  forall t raw,
    part_names (parts_go (t ++ print_parts l) 0 raw) = part_names l ->
    parts_go (t ++ print_parts l) 0 raw = merge_go l (raw ++ t).
Proof.
  induction l as [|[t1|n] l1 IH]; intros Hok t raw Hnames.
  - cbn [print_parts flat_map] in *.
    destruct (parts_go_run t [] raw (or_introl eq_refl)) as [[_ Heq] | [pre [nm [suf [_ [_ Heq]]]]]].
    + rewrite Heq. reflexivity.
    + rewrite Heq, part_names_flush in Hnames. discriminate.
  - rewrite print_parts_text in *. rewrite part_names_text in Hnames.
    replace (t ++ t1 ++ print_parts l1) with ((t ++ t1) ++ print_parts l1) in * by (rewrite app_assoc; reflexivity).
    cbn [merge_go]. replace ((raw ++ t) ++ t1) with (raw ++ (t ++ t1)) by (rewrite app_assoc; reflexivity).
    apply IH; [|exact Hnames].
    intros n Hn. apply Hok. right. exact Hn.
  - assert (forall m, In (PPh m) l1 -> name_ok m) as Hok1 by (intros m Hm; apply Hok; right; exact Hm).
    assert (name_ok n) as Hn by (apply Hok; left; reflexivity).
    destruct (parts_go_run t (print_parts (PPh n :: l1)) raw) as [[_ Heq] | [pre [nm [suf [_ [_ Heq]]]]]].
    + apply print_parts_brace_start. exact I.
    + rewrite Heq, print_parts_ph, parts_go_ph in * by exact Hn.
      rewrite part_names_flush, !part_names_ph in Hnames. injection Hnames as Hnames.
      cbn [merge_go]. f_equal. f_equal.
      specialize (IH Hok1 [] [] Hnames). cbn [app] in IH. exact IH.
    + exfalso. rewrite Heq, part_names_flush, !part_names_ph in Hnames.
      pose proof (cnt_lower (PPh n :: l1) Hok suf []) as Hc. unfold cnt in Hc.
      apply (f_equal (@length bstr)) in Hnames. rewrite part_names_ph in Hc. cbn [length] in Hnames, Hc. lia.
Qed.

Theorem names_decide l :
  part_names (parts (print_parts l)) = part_names l -> parts (print_parts l) = merge_texts l.
Proof.
  intros H. unfold parts, merge_texts in *.
  assert (forall n, In (PPh n) l -> name_ok n) as Hok.
  { intros n Hn. pose proof (parts_go_names_ok (print_parts l) 0 []) as Hall. rewrite H in Hall.
    rewrite Forall_forall in Hall. apply Hall. unfold part_names. apply in_flat_map. exists (PPh n). split; [exact Hn | left; reflexivity]. }
  apply (names_decide_go l Hok [] []). exact H.
Qed.

Lemma part_names_merge_go l raw : part_names (merge_go l raw) = part_names l.
Proof.
  revert raw; induction l as [|[t|n] r IH]; intros raw; cbn [merge_go].
  - rewrite part_names_flush. reflexivity.
  - rewrite IH. reflexivity.
  - rewrite part_names_flush, !part_names_ph, IH. reflexivity.
Qed.

(* what the check establishes: the msgid of the body reads back as the body *)
Theorem reads_back_sound body :
  reads_back body = true ->
  forallb flat_node body = true /\ parts (write_body body) = merge_texts (body_parts body).
Proof.
  unfold reads_back. rewrite Bool.andb_true_iff, list_eqb_eq. intros [Hf Hn]. split; [exact Hf|].
  rewrite write_body_print in *. apply names_decide, Hn.
Qed.

Theorem reads_back_iff body :
  reads_back body = true <->
  forallb flat_node body = true /\ parts (write_body body) = merge_texts (body_parts body).
Proof.
  split; [apply reads_back_sound|]. intros [Hf Hp]. unfold reads_back. rewrite Hf, Hp. cbn [andb].
  apply list_eqb_eq. unfold merge_texts. apply part_names_merge_go.
Qed.

(* the check refuses nothing that is representable: flat bodies whose normal
   form is clean pass *)
Theorem reads_back_complete body :
  forallb flat_node body = true -> parts_clean (merge_texts (body_parts body)) -> reads_back body = true.
Proof.
  intros Hf Hc. apply reads_back_iff. split; [exact Hf|].
  rewrite write_body_print. apply parts_print, Hc.
Qed.

(* a flat message: Validate = the read-back check, Msgid = the written body *)
Definition is_plural (n : node) : bool := match n with NMsgPlural _ _ _ _ _ => true | _ => false end.

Lemma flat_not_plural n : flat_node n = true -> is_plural n = false.
Proof. destruct n; cbn; congruence. Qed.

Lemma validate_loop_flat body i bodies :
  forallb flat_node body = true -> validate_loop i body bodies = Ok bodies.
Proof.
  revert i; induction body as [|n r IH]; intros i H; [reflexivity|].
  cbn [forallb] in H. apply Bool.andb_true_iff in H as [Hn Hr].
  destruct n; cbn [flat_node] in Hn; try discriminate; cbn [validate_loop]; apply IH, Hr.
Qed.

Theorem validate_flat body :
  forallb flat_node body = true ->
  (validate body = Ok tt <-> parts (write_body body) = merge_texts (body_parts body)).
Proof.
  intros Hf. unfold validate. rewrite (validate_loop_flat body 0 [body] Hf). cbn [bind forallb empty_plural_case].
  rewrite Bool.andb_true_r. destruct (reads_back body) eqn:E.
  - apply reads_back_iff in E. tauto.
  - split; [discriminate|]. intros H. assert (reads_back body = true) by (apply reads_back_iff; tauto). congruence.
Qed.

Lemma msgid_flat body : forallb flat_node body = true -> msgid body = Ok (write_body body).
Proof.
  destruct body as [|n r]; [reflexivity|]. cbn [forallb]. intros H. apply Bool.andb_true_iff in H as [Hn _].
  unfold msgid, msgidn. destruct n; cbn [flat_node] in Hn; try discriminate; reflexivity.
Qed.

(* a PO plural: one {case 1} and {default} *)
Theorem validate_plural p vn pv pc cb dflt :
  validate [NMsgPlural p vn pv [NMsgPluralCase pc 1%Z cb] dflt] = Ok tt <->
  (write_body cb <> [] /\ write_body dflt <> []) /\
  (forallb flat_node cb = true /\ parts (write_body cb) = merge_texts (body_parts cb)) /\
  (forallb flat_node dflt = true /\ parts (write_body dflt) = merge_texts (body_parts dflt)).
Proof.
  unfold validate. cbn [validate_loop bind forallb empty_plural_case]. rewrite Bool.andb_true_r.
  rewrite <- !reads_back_iff.
  destruct (write_body cb) eqn:Ec; [split; [discriminate | intros [[H _] _]; congruence]|].
  destruct (write_body dflt) eqn:Ed; [split; [discriminate | intros [[_ H] _]; congruence]|].
  destruct (reads_back cb), (reads_back dflt); cbn [andb]; split; try discriminate;
    try (intros [_ [? ?]]; discriminate); intros _; repeat split; discriminate.
Qed.

Lemma msgid_plural_case p vn pv pc cv cb dflt r :
  msgid (NMsgPlural p vn pv (NMsgPluralCase pc cv cb :: r) dflt :: []) = Ok (write_body cb) /\
  msgid_plural (NMsgPlural p vn pv (NMsgPluralCase pc cv cb :: r) dflt :: []) = Ok (write_body dflt).
Proof. split; reflexivity. Qed.

(* ------------------------------------------------------------------ *)
(* Part B: ast.MsgNode.Placeholder                                     *)
(* ------------------------------------------------------------------ *)

Lemma lookup_size_flat l :
  forallb flat_node l = true -> fold_right (fun x a => (lookup_size x + a)%nat) 0%nat l = length l.
Proof.
  induction l as [|n r IH]; [reflexivity|]. cbn [forallb fold_right length]. intros H.
  apply Bool.andb_true_iff in H as [Hn Hr]. rewrite (IH Hr).
  destruct n; cbn [flat_node] in Hn; try discriminate; reflexivity.
Qed.

(* on a queue of text and placeholders the search is a left-to-right scan *)
Lemma ph_lookup_flat fuel q name :
  forallb flat_node q = true -> (length q < fuel)%nat -> ph_lookup fuel q name = Ok (find_ph q name).
Proof.
  revert fuel; induction q as [|n r IH]; intros fuel Hf Hlen.
  - destruct fuel; reflexivity.
  - cbn [forallb] in Hf. apply Bool.andb_true_iff in Hf as [Hn Hr]. cbn [length] in Hlen.
    destruct fuel as [|f]; [lia|].
    destruct n; cbn [flat_node] in Hn; try discriminate; cbn [ph_lookup find_ph].
    + apply IH; [exact Hr | lia].
    + destruct (bstr_eqb name0 name); [reflexivity | apply IH; [exact Hr | lia]].
Qed.

Theorem placeholder_flat body name :
  forallb flat_node body = true -> placeholder body name = Ok (find_ph body name).
Proof.
  intros Hf. unfold placeholder, lookup_fuel. rewrite (lookup_size_flat body Hf).
  apply ph_lookup_flat; [exact Hf | lia].
Qed.

(* a PO plural: the Default list node is one level above the case body, so its
   placeholders are met first *)
Lemma ph_lookup_plural fuel p vn pv pc cv cb dflt name :
  forallb flat_node cb = true -> forallb flat_node dflt = true ->
  (4 + length dflt + length cb < fuel)%nat ->
  ph_lookup fuel [NMsgPlural p vn pv [NMsgPluralCase pc cv cb] dflt] name = Ok (find_ph (dflt ++ cb) name).
Proof.
  intros Hc Hd Hlen. destruct fuel as [|[|[|[|f]]]]; try lia.
  cbn [ph_lookup app].
  apply ph_lookup_flat.
  - rewrite forallb_app, Hc, Hd. reflexivity.
  - rewrite app_length. lia.
Qed.

Theorem placeholder_plural p vn pv pc cv cb dflt name :
  forallb flat_node cb = true -> forallb flat_node dflt = true ->
  placeholder [NMsgPlural p vn pv [NMsgPluralCase pc cv cb] dflt] name = Ok (find_ph (dflt ++ cb) name).
Proof.
  intros Hc Hd. unfold placeholder, lookup_fuel.
  apply ph_lookup_plural; [exact Hc | exact Hd |].
  cbn [fold_right lookup_size]. rewrite (lookup_size_flat cb Hc), (lookup_size_flat dflt Hd). lia.
Qed.

(* a name that some placeholder carries is found, at a placeholder carrying it *)
Lemma find_ph_some phs n :
  (exists p b, In (NMsgPlaceholder p n b) phs) ->
  exists p' b', find_ph phs n = Some b' /\ In (NMsgPlaceholder p' n b') phs.
Proof.
  intros [p [b Hin]]. induction phs as [|x r IH]; [destruct Hin|].
  destruct Hin as [->|Hin].
  - cbn [find_ph]. rewrite beq_refl. exists p, b. split; [reflexivity | left; reflexivity].
  - destruct (IH Hin) as [p' [b' [Hf Hi]]].
    destruct x; cbn [find_ph]; try (exists p', b'; split; [exact Hf | right; exact Hi]).
    match goal with |- exists _ _, (if bstr_eqb ?m n then Some ?c else _) = _ /\ _ => destruct (bstr_eqb m n) eqn:E end.
    + apply beq_eq in E. subst. eexists _, _. split; [reflexivity | left; reflexivity].
    + exists p', b'. split; [exact Hf | right; exact Hi].
Qed.

(* under coherence what is found is the code of any placeholder with that name *)
Lemma find_ph_same phs p n b :
  coherent phs -> In (NMsgPlaceholder p n b) phs ->
  exists p' b', find_ph phs n = Some b' /\ In (NMsgPlaceholder p' n b') phs /\ pstrip b' = pstrip b.
Proof.
  intros Hco Hin. destruct (find_ph_some phs n (ex_intro _ p (ex_intro _ b Hin))) as [p' [b' [Hf Hi]]].
  exists p', b'. split; [exact Hf|]. split; [exact Hi | apply (Hco p' p n b' b Hi Hin)].
Qed.

Lemma find_plural_head p vn pv cases dflt r :
  find_plural (NMsgPlural p vn pv cases dflt :: r) vn = Some (NMsgPlural p vn pv cases dflt).
Proof. cbn [find_plural]. rewrite beq_refl. reflexivity. Qed.

(* ------------------------------------------------------------------ *)
(* Part C: rendering with a bundle, for every walker                   *)
(* ------------------------------------------------------------------ *)

Section Render.
Variable cf : cfg.
Variable plural_index : Z -> nat.
Variable bd : bundle.
Variable w : node -> M value.

(* every name of the translation is found, at the first placeholder carrying it *)
Lemma eval_parts_items body phs tr :
  (forall name, placeholder body name = Ok (find_ph phs name)) ->
  items_named phs tr ->
  eval_parts w body (map item_part tr) = run_items w (map (resolve phs) tr).
Proof.
  intros Hlook. induction tr as [|[t|p n b] r IH]; intros Hfrom.
  - reflexivity.
  - cbn [map item_part resolve eval_parts run_items]. rewrite IH; [reflexivity|].
    intros p n b Hin. apply (Hfrom p n b). right. exact Hin.
  - cbn [map item_part resolve eval_parts]. rewrite Hlook.
    destruct (find_ph_some phs n (Hfrom p n b (or_introl eq_refl))) as [p' [b' [Hf _]]].
    rewrite Hf. cbn [run_items]. rewrite IH; [reflexivity|].
    intros p0 n0 b0 Hin. apply (Hfrom p0 n0 b0). right. exact Hin.
Qed.

Lemma items_from_named phs tr : items_from phs tr -> items_named phs tr.
Proof. intros H p n b Hin. exists p, b. apply H, Hin. Qed.

(* ... and under coherence that is the code the translation means *)
Lemma resolve_same phs tr : coherent phs -> items_from phs tr -> same_items (map (resolve phs) tr) tr.
Proof.
  intros Hco. unfold same_items. induction tr as [|[t|p n b] r IH]; intros Hfrom; cbn [map resolve]; [constructor| |].
  - constructor; [reflexivity|]. apply IH. intros p n b Hin. apply Hfrom. right. exact Hin.
  - destruct (find_ph_same phs p n b Hco (Hfrom p n b (or_introl eq_refl))) as [p' [b' [Hf [_ Hs]]]]. rewrite Hf.
    constructor; [split; [reflexivity | exact Hs]|]. apply IH. intros p0 n0 b0 Hin. apply Hfrom. right. exact Hin.
Qed.

(* ---- a message that is not in the bundle ---- *)

Theorem missing_msg mp id body :
  bundle_message bd id = None -> eval_msg plural_index bd w mp id body = msg_body w mp body.
Proof. intros H. unfold eval_msg. rewrite H. reflexivity. Qed.

Theorem missing_node mp id mn ds body :
  bundle_message bd id = None ->
  walk_body_b cf plural_index bd w (NMsg mp id mn ds body) = walk_body cf w (NMsg mp id mn ds body).
Proof. intros H. unfold walk_body_b. rewrite (missing_msg mp id body H). reflexivity. Qed.

Lemma walk_body_b_other n :
  match n with NMsg _ _ _ _ _ => False | _ => True end ->
  walk_body_b cf plural_index bd w n = walk_body cf w n.
Proof. destruct n; intros H; try reflexivity. contradiction. Qed.

(* ---- a translated message without plural ---- *)

Theorem translated_flat mp id body tr s :
  forallb flat_node body = true -> items_named body tr ->
  bundle_message bd id = Some (new_message [] [s]) ->
  parts s = map item_part tr ->
  eval_msg plural_index bd w mp id body = run_items w (map (resolve body) tr).
Proof.
  intros Hf Hfrom Hb Hs. unfold eval_msg. rewrite Hb. cbn [new_message eval_cmsg]. rewrite Hs.
  apply (eval_parts_items body body tr); [|exact Hfrom].
  intros name. apply placeholder_flat, Hf.
Qed.

(* the translator writes the items; Parts reads them back; every slot is filled by
   rendering the first placeholder of the message that carries the slot's name *)
Theorem translation_places_values mp id body tr :
  forallb flat_node body = true -> items_named body tr ->
  parts_clean (map item_part tr) ->
  bundle_message bd id = Some (new_message [] [msgstr_of tr]) ->
  eval_msg plural_index bd w mp id body = run_items w (map (resolve body) tr).
Proof.
  intros Hf Hfrom Hclean Hb. apply (translated_flat mp id body tr (msgstr_of tr)); try assumption.
  unfold msgstr_of. apply parts_print_clean, Hclean.
Qed.

(* ---- plural: the form is chosen by the bundle's plural rule ---- *)

Lemma new_message_plural vn strs :
  vn <> [] \/ length strs <> 1%nat -> new_message vn strs = CPlural vn (map parts strs).
Proof.
  intros H. unfold new_message. destruct vn as [|c vn]; [|reflexivity].
  destruct strs as [|s [|s' r]]; try reflexivity. destruct H as [H|H]; [congruence | cbn in H; congruence].
Qed.

(* msgstr[k] of a plural entry, rendered against the message [body] *)
Definition eval_form (body : list node) (strs : list bstr) (k : nat) : M unit :=
  match nth_error strs k with
  | Some s => eval_parts w body (parts s)
  | None => fail e_plural_index
  end.

Lemma eval_form_map body strs k :
  match nth_error (map parts strs) k with
  | Some ps => eval_parts w body ps
  | None => fail e_plural_index
  end = eval_form body strs k.
Proof. unfold eval_form. rewrite nth_error_map. destruct (nth_error strs k); reflexivity. Qed.

Theorem plural_selects mp id p vn pv cases dflt strs st :
  vn <> [] \/ length strs <> 1%nat ->
  bundle_message bd id = Some (new_message vn strs) ->
  eval_msg plural_index bd w mp id [NMsgPlural p vn pv cases dflt] st =
  (v <-- eval w pv ;;;
   match v with
   | VInt i => eval_form [NMsgPlural p vn pv cases dflt] strs (plural_index i)
   | _ => fail e_plural
   end) st.
Proof.
  intros Hv Hb. unfold eval_msg. rewrite Hb, (new_message_plural vn strs Hv).
  cbn [eval_cmsg]. rewrite find_plural_head. unfold mbind.
  destruct (eval w pv st) as [[v| | | | |] st']; try reflexivity.
  destruct v; try reflexivity. rewrite eval_form_map. reflexivity.
Qed.

(* a form of a PO plural written by a translator: its items are rendered where
   the translation puts them; the placeholders of both case bodies may be used *)
Theorem plural_form_places_values p vn pv pc cv cb dflt strs k tr :
  forallb flat_node cb = true -> forallb flat_node dflt = true ->
  items_named (dflt ++ cb) tr ->
  nth_error strs k = Some (msgstr_of tr) -> parts_clean (map item_part tr) ->
  eval_form [NMsgPlural p vn pv [NMsgPluralCase pc cv cb] dflt] strs k = run_items w (map (resolve (dflt ++ cb)) tr).
Proof.
  intros Hc Hd Hfrom Hk Hclean. unfold eval_form. rewrite Hk.
  unfold msgstr_of. rewrite (parts_print_clean _ Hclean).
  apply (eval_parts_items _ (dflt ++ cb) tr); [|exact Hfrom].
  intros name. apply placeholder_plural; assumption.
Qed.

(* ---- the identity translation: msgstr = msgid ---- *)

Lemma map_item_part_merge l raw : map item_part (merge_items_go l raw) = merge_go (map item_part l) raw.
Proof.
  revert raw; induction l as [|[t|p n b] r IH]; intros raw; cbn [merge_items_go map item_part merge_go].
  - destruct raw; reflexivity.
  - apply IH.
  - destruct raw; cbn [flush map item_part]; rewrite IH; reflexivity.
Qed.

Lemma body_parts_items body : body_parts body = map item_part (source_items body).
Proof.
  unfold body_parts, source_items. induction body as [|n r IH]; [reflexivity|].
  cbn [flat_map]. rewrite map_app, IH. f_equal. destruct n; reflexivity.
Qed.

Lemma merge_items_from l raw p n b : In (TPh p n b) (merge_items_go l raw) -> In (TPh p n b) l.
Proof.
  revert raw; induction l as [|[t|p' n' b'] r IH]; intros raw; cbn [merge_items_go].
  - destruct raw; intros H; [destruct H | destruct H as [H|[]]; discriminate].
  - intros H. right. apply (IH _ H).
  - destruct raw; cbn [In]; intros H.
    + destruct H as [H|H]; [left; exact H | right; apply (IH _ H)].
    + destruct H as [H|[H|H]]; [discriminate | left; exact H | right; apply (IH _ H)].
Qed.

Lemma source_items_from body p n b : In (TPh p n b) (source_items body) -> In (NMsgPlaceholder p n b) body.
Proof.
  unfold source_items. intros H. apply in_flat_map in H as [x [Hx Hin]].
  destruct x; cbn [item_of_node] in Hin; try (destruct Hin; fail).
  - destruct Hin as [Hin|[]]. discriminate.
  - destruct Hin as [Hin|[]]. injection Hin as <- <- <-. exact Hx.
Qed.

(* the source's own items, adjacent texts joined *)
Definition identity_items (body : list node) : list titem := merge_items (source_items body).

Lemma identity_items_from body : items_from body (identity_items body).
Proof. intros p n b H. apply source_items_from. apply (merge_items_from _ [] _ _ _ H). Qed.

(* with msgstr = msgid, a message that Validate accepts renders its own text
   segments and placeholders in source order *)
Theorem identity_flat mp id body :
  reads_back body = true ->
  bundle_message bd id = Some (new_message [] [write_body body]) ->
  eval_msg plural_index bd w mp id body = run_items w (map (resolve body) (identity_items body)).
Proof.
  intros Hrb Hb. destruct (reads_back_sound body Hrb) as [Hf Hp].
  apply (translated_flat mp id body (identity_items body) (write_body body) Hf (items_from_named _ _ (identity_items_from body)) Hb).
  rewrite Hp. unfold identity_items, merge_items, merge_texts. rewrite map_item_part_merge, body_parts_items. reflexivity.
Qed.

Theorem identity_form p vn pv pc cv cb dflt strs k src :
  reads_back cb = true -> reads_back dflt = true ->
  (src = cb \/ src = dflt) ->
  nth_error strs k = Some (write_body src) ->
  eval_form [NMsgPlural p vn pv [NMsgPluralCase pc cv cb] dflt] strs k =
  run_items w (map (resolve (dflt ++ cb)) (identity_items src)).
Proof.
  intros Hc Hd Hsrc Hk.
  destruct (reads_back_sound cb Hc) as [Hfc Hpc]. destruct (reads_back_sound dflt Hd) as [Hfd Hpd].
  unfold eval_form. rewrite Hk.
  assert (parts (write_body src) = map item_part (identity_items src)) as Hp.
  { unfold identity_items, merge_items. rewrite map_item_part_merge, <- body_parts_items.
    destruct Hsrc as [-> | ->]; assumption. }
  rewrite Hp. apply (eval_parts_items _ (dflt ++ cb)).
  - intros name. apply placeholder_plural; assumption.
  - intros q n b Hin. apply identity_items_from in Hin. exists q, b. apply in_or_app.
    destruct Hsrc as [-> | ->]; [right | left]; exact Hin.
Qed.

(* ---- a translation that reorders the placeholders ---- *)

Definition ph_items (tr : list titem) : list titem :=
  filter (fun i => match i with TPh _ _ _ => true | TText _ => false end) tr.

Lemma perm_items_from body tr :
  Permutation (ph_items tr) (ph_items (source_items body)) -> items_from body tr.
Proof.
  intros Hperm p n b Hin. apply source_items_from.
  assert (In (TPh p n b) (ph_items tr)) as H1 by (unfold ph_items; apply filter_In; split; [exact Hin | reflexivity]).
  apply (Permutation_in _ Hperm) in H1. unfold ph_items in H1. apply filter_In in H1 as [H1 _]. exact H1.
Qed.

Theorem reorder_catalogue mp id body tr :
  forallb flat_node body = true ->
  Permutation (ph_items tr) (ph_items (source_items body)) ->
  parts_clean (map item_part tr) ->
  bundle_message bd id = Some (new_message [] [msgstr_of tr]) ->
  eval_msg plural_index bd w mp id body = run_items w (map (resolve body) tr).
Proof.
  intros Hf Hperm Hclean Hb. apply translation_places_values; try assumption.
  apply items_from_named, perm_items_from, Hperm.
Qed.

(* ... and under coherence every slot holds the code the translation names *)
Theorem reorder_same body tr :
  coherent body -> Permutation (ph_items tr) (ph_items (source_items body)) ->
  same_items (map (resolve body) tr) tr.
Proof. intros Hco Hperm. apply resolve_same; [exact Hco | apply perm_items_from, Hperm]. Qed.

End Render.
