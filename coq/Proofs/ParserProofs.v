(* The theorems about the parser models (Model/Parser.v over Model/ExprParser.v):
     parse_file_total / parse_expr_total   every stream of well-formed items gives a tree or an
                                           error within the stated budget: never PFuel, never a
                                           run-time panic (PCrash)
     parse_linear                          at most |items| + 4 channel receives
     scanner_fully_consumed_or_drained     every scanner a parse starts is drained or fully read
   plus the witnesses about the pinned code (no drain in parse.Expr) and about the hypotheses. *)
From Soy Require Import Model.Bytes Model.Ast Model.Token Model.NumLit Model.ExprParser Model.Parser.
From Soy Require Import Generated.Tables Proofs.ParserMeasure Proofs.ExprTotal Proofs.ParserBase Proofs.ParserLeaf Proofs.ParserCmd.
From Coq Require Import ZifyBool ZifyNat ZifyN Lia.
Open Scope N_scope.

(* items of lexExpr("", "1 2 3"): integer integer integer error("unclosed tag") *)
Definition toks_1_2_3 : list tok :=
  [ {| t_typ := pit_Integer; t_pos := 1; t_val := [49] |};
    {| t_typ := pit_Integer; t_pos := 3; t_val := [50] |};
    {| t_typ := pit_Integer; t_pos := 5; t_val := [51] |};
    {| t_typ := pit_Error; t_pos := 5; t_val := [] |} ].

(* the pinned parse.Expr returns after two receives and never drains: the scanner stays blocked *)
Lemma expr_pinned_leaks :
  map scan_done (po_scans (soy_expr_pinned 5 toks_1_2_3)) = [false]
  /\ map scan_done (po_scans (soy_expr 5 toks_1_2_3)) = [true].
Proof. vm_compute. split; reflexivity. Qed.

Definition is_tree_or_error {A} (r : presult A) : Prop :=
  match r with POk _ _ | PErr _ _ _ => True | PCrash _ | PFuel => False end.
Definition recv_of {A} (r : presult A) : nat :=
  match r with POk _ p | PErr _ _ p => p_recv p | _ => 0%nat end.

(* what the theorems assume of a scanner: its items are well-formed for an input of that length *)
Definition items_wf (inlen : N) (ts : list tok) : Prop := Forall (twf inlen) ts.
Definition lexq_wf (lexq : bstr -> list tok) : Prop :=
  forall str, items_wf (N.of_nat (length str)) (lexq str).

Section File.
Variable inlen : N.
Variable lexq : bstr -> list tok.
Variable unq : bstr -> option bstr.
Hypothesis Hlexq : lexq_wf lexq.

(* the state-level statement behind the three theorems *)
Lemma parse_file_post eofchk ts fuel :
  items_wf inlen ts -> (eofchk = true -> eof_last ts) -> (length ts + 2 <= fuel)%nat ->
  match item_list inlen lexq unq parse_expr expr_fuel fuel u_eof (cst_init ts) with
  | COk _ s => cinv inlen (length ts) eofchk s /\ (p_recv (c_p s) <= length ts + 2)%nat
               /\ (eofchk = true -> (length ts <= p_recv (c_p s))%nat)
  | CErr _ _ s => cinv inlen (length ts) eofchk s /\ (p_recv (c_p s) <= length ts + 4)%nat
  | CCrash _ => False
  | CFuel => False
  end.
Proof.
  intros Hw He Hf.
  assert (Hi : cinv inlen (length ts) eofchk (cst_init ts)).
  { split; cbn [c_p c_scans cst_init]; [apply pinv_init; auto|constructor]. }
  pose proof (mu_init ts) as Hm.
  assert (Hu : until_ok u_eof) by uok.
  pose proof (item_list_ok inlen (length ts) eofchk lexq unq Hlexq fuel u_eof (cst_init ts) _ Hu Hi eq_refl) as H.
  cbn [c_p cst_init] in H. specialize (H ltac:(lia)).
  destruct (item_list _ _ _ _ _ fuel u_eof (cst_init ts)) as [n s|t c s|m|]; cbn [cpost] in H; try contradiction.
  - destruct H as (Hi' & Hk & Hq). unfold wpost in Hq. cbn [c_p cst_init] in Hq. destruct Hq as (Q1 & Q2 & Q3).
    split; [auto|]. destruct Hi' as (Hp & Hs). pose proof (pi_peek _ _ _ _ Hp).
    split; [unfold kap, lpz in *; cbn [pst_init p_recv p_peek] in *; lia|].
    intros E. destruct (pi_eof _ _ _ _ Hp E) as (E0 & E1 & E2).
    assert (Hr : p_rest (c_p s) = []).
    { cbn [In] in Q3. destruct Q3 as [Q3|[]]. unfold cur_tok, tok_at in Q3.
      destruct (p_peek (c_p s)) as [|k]; [apply E1|apply E2]; auto. }
    pose proof (pi_cnt _ _ _ _ Hp) as Hc. rewrite Hr in Hc. cbn [length] in Hc. lia.
  - destruct H as (Hi' & Hl). split; [auto|]. destruct Hi' as (Hp & Hs). pose proof (pi_peek _ _ _ _ Hp).
    unfold kap, lpz in *; cbn [pst_init p_recv p_peek] in *; lia.
Qed.

(* C05, parser half: parse.SoyFile on any stream of well-formed items *)
Theorem parse_file_total ts fuel :
  items_wf inlen ts -> (length ts + 2 <= fuel)%nat ->
  is_tree_or_error (po_result (parse_file inlen lexq unq parse_expr expr_fuel fuel ts)).
Proof.
  intros Hw Hf. pose proof (parse_file_post false ts fuel Hw ltac:(discriminate) Hf) as H.
  unfold parse_file. destruct (item_list _ _ _ _ _ fuel u_eof (cst_init ts)); cbn; auto.
Qed.

Theorem soy_file_total ts :
  items_wf inlen ts -> is_tree_or_error (po_result (soy_file inlen lexq unq ts)).
Proof. intros Hw. apply parse_file_total; auto. unfold file_fuel. lia. Qed.

(* the number of channel receives is linear in the number of items *)
Theorem parse_linear ts fuel :
  items_wf inlen ts -> (length ts + 2 <= fuel)%nat ->
  (recv_of (po_result (parse_file inlen lexq unq parse_expr expr_fuel fuel ts)) <= length ts + 4)%nat
  /\ Forall (fun r => (sc_recv r <= sc_sent r + 4)%nat) (po_scans (parse_file inlen lexq unq parse_expr expr_fuel fuel ts)).
Proof.
  intros Hw Hf. pose proof (parse_file_post false ts fuel Hw ltac:(discriminate) Hf) as H.
  unfold parse_file. destruct (item_list _ _ _ _ _ fuel u_eof (cst_init ts)) as [n s|t c s|m|]; cbn [po_result po_scans recv_of]; try contradiction.
  - destruct H as ((Hp & Hs) & Hr & _). split; [lia|]. constructor; [cbn; lia|].
    apply Forall_rev. eapply Forall_impl; [|exact Hs]. intros r (A & B); auto.
  - destruct H as ((Hp & Hs) & Hr). split; [lia|]. constructor; [cbn; lia|].
    apply Forall_rev. eapply Forall_impl; [|exact Hs]. intros r (A & B); auto.
Qed.

(* C18 for parse.SoyFile: on success the parser stops at the EOF item, the scanner's last send;
   on an error recover drains; every nested scanner is drained by its deferred call *)
Theorem scanner_fully_consumed_or_drained_file ts fuel :
  items_wf inlen ts -> eof_last ts -> (length ts + 2 <= fuel)%nat ->
  let o := parse_file inlen lexq unq parse_expr expr_fuel fuel ts in
  is_tree_or_error (po_result o)
  /\ (exists own nested, po_scans o = own :: nested /\ sc_sent own = length ts)
  /\ Forall (fun r => scan_done r = true) (po_scans o).
Proof.
  intros Hw He Hf. pose proof (parse_file_post true ts fuel Hw (fun _ => He) Hf) as H.
  cbv zeta. unfold parse_file.
  destruct (item_list _ _ _ _ _ fuel u_eof (cst_init ts)) as [n s|t c s|m|]; cbn [po_result po_scans is_tree_or_error]; try contradiction.
  - destruct H as ((Hp & Hs) & Hr & Hall). specialize (Hall eq_refl).
    split; [exact I|]. split; [eexists; eexists; split; [reflexivity|reflexivity]|].
    constructor.
    + unfold scan_done, own_scan. cbn [sc_drained sc_sent sc_recv]. lia.
    + apply Forall_rev. eapply Forall_impl; [|exact Hs]. intros r (A & B). unfold scan_done. rewrite A. reflexivity.
  - destruct H as ((Hp & Hs) & Hr).
    split; [exact I|]. split; [eexists; eexists; split; [reflexivity|reflexivity]|].
    constructor; [reflexivity|].
    apply Forall_rev. eapply Forall_impl; [|exact Hs]. intros r (A & B). unfold scan_done. rewrite A. reflexivity.
Qed.
End File.

(* ---------- parse.Expr (and the per-line parse.Expr of soy.ParseGlobals) ---------- *)
Lemma parse_expr_entry_post drain inlen ts fuel :
  items_wf inlen ts -> (length ts < fuel)%nat ->
  let o := parse_expr_entry parse_expr drain inlen fuel ts in
  is_tree_or_error (po_result o) /\ (recv_of (po_result o) <= length ts + 4)%nat
  /\ (exists own, po_scans o = [own] /\ sc_sent own = length ts
                  /\ (drain = true -> sc_drained own = true)).
Proof.
  intros Hw Hf. cbv zeta.
  assert (Hi : pinv inlen 0 false (pst_init ts)) by (apply pinv_init; [auto|lia|discriminate]).
  pose proof (mu_init ts) as Hm.
  pose proof (parse_expr_ok inlen 0 false fuel 0 (pst_init ts) _ Hi eq_refl ltac:(lia)) as H.
  unfold parse_expr_entry.
  destruct (parse_expr fuel 0 (pst_init ts)) as [n p|t c p|m|]; cbn [ppost] in H; try contradiction.
  - destruct H as (A & B & C). pose proof (pi_peek _ _ _ _ A).
    cbn [po_result po_scans is_tree_or_error recv_of]. split; [exact I|].
    split; [unfold kap, lpz in *; cbn [pst_init p_recv p_peek] in *; lia|].
    eexists; split; [reflexivity|]. split; [reflexivity|]. intros E; subst; reflexivity.
  - destruct H as (A & B & C). pose proof (pi_peek _ _ _ _ A).
    pose proof (twf_pos _ _ C) as Hpos.
    destruct (N.leb_spec (t_pos t) inlen); [|lia].
    cbn [po_result po_scans is_tree_or_error recv_of]. split; [exact I|].
    split; [unfold kap, lpz in *; cbn [pst_init p_recv p_peek] in *; lia|].
    eexists; split; [reflexivity|]. split; [reflexivity|]. intros E; reflexivity.
Qed.

(* C05, parser half: parse.Expr *)
Theorem parse_expr_total inlen ts :
  items_wf inlen ts -> is_tree_or_error (po_result (soy_expr inlen ts)).
Proof.
  intros Hw. unfold soy_expr. apply (parse_expr_entry_post true inlen ts (expr_fuel ts) Hw). unfold expr_fuel; lia.
Qed.

Theorem parse_expr_linear inlen ts :
  items_wf inlen ts -> (recv_of (po_result (soy_expr inlen ts)) <= length ts + 4)%nat.
Proof.
  intros Hw. unfold soy_expr. apply (parse_expr_entry_post true inlen ts (expr_fuel ts) Hw). unfold expr_fuel; lia.
Qed.

(* C18 for parse.Expr after the repair (and so for every line of soy.ParseGlobals): drained on
   every return *)
Theorem scanner_fully_consumed_or_drained_expr inlen ts :
  items_wf inlen ts ->
  is_tree_or_error (po_result (soy_expr inlen ts))
  /\ (exists own, po_scans (soy_expr inlen ts) = [own] /\ sc_sent own = length ts)
  /\ Forall (fun r => scan_done r = true) (po_scans (soy_expr inlen ts)).
Proof.
  intros Hw. unfold soy_expr.
  destruct (parse_expr_entry_post true inlen ts (expr_fuel ts) Hw ltac:(unfold expr_fuel; lia)) as (A & B & (own & E1 & E2 & E3)).
  split; [auto|]. split; [eauto|]. rewrite E1. constructor; [|constructor].
  unfold scan_done. rewrite (E3 eq_refl). reflexivity.
Qed.

(* ---------- the hypotheses are needed, and satisfiable ---------- *)
(* an item the scanner never produces -- a $ident item with an empty text -- makes the Go code
   slice out of range in parseLet: a run-time panic, which recover re-panics *)
Definition toks_bad_let : list tok :=
  [ {| t_typ := pit_LeftDelim; t_pos := 1; t_val := [123] |};
    {| t_typ := pit_Let; t_pos := 4; t_val := [108; 101; 116] |};
    {| t_typ := pit_DollarIdent; t_pos := 5; t_val := [] |};
    {| t_typ := pit_Colon; t_pos := 6; t_val := [58] |};
    {| t_typ := pit_Integer; t_pos := 7; t_val := [49] |};
    {| t_typ := pit_RightDelimEnd; t_pos := 9; t_val := [47; 125] |};
    {| t_typ := pit_EOF; t_pos := 9; t_val := [] |} ].
Lemma ill_formed_item_crashes :
  exists m, po_result (soy_file 9 (fun _ => []) (fun _ => None) toks_bad_let) = PCrash m.
Proof. eexists. vm_compute. reflexivity. Qed.
