(* Proofs about the command-level parser model (Model/Parser.v). *)
From Soy Require Import Model.Bytes Model.Ast Model.Token Model.ExprParser Model.Parser.
From Soy Require Import Generated.Tables.
Open Scope N_scope.

(* items of lexExpr("", "1 2 3"): integer integer integer error("unclosed tag") *)
Definition toks_1_2_3 : list tok :=
  [ {| t_typ := pit_Integer; t_pos := 1; t_val := [49] |};
    {| t_typ := pit_Integer; t_pos := 3; t_val := [50] |};
    {| t_typ := pit_Integer; t_pos := 5; t_val := [51] |};
    {| t_typ := pit_Error; t_pos := 5; t_val := [] |} ].

(* the pinned parse.Expr returns after two receives and never drains: the scanner stays blocked *)
Lemma expr_pinned_leaks :
  map scan_done (po_scans (soy_expr_pinned 5 toks_1_2_3)) = [false]
  /\ map scan_done (po_scans (soy_expr 5 toks_1_2_3)) = [true].
Proof. vm_compute. split; reflexivity. Qed.
