(* C17 at command level, part 2: one big-step rule per procedure of Model/Parser.v that the
   round trip of template bodies goes through (itemList, textOrTag, beginTag, parsePrint,
   parseLet, parseIf, parseFor, {log}, {debugger}), proved from the model.  A rule says: on
   ANY parser state that delivers the given items, outside a {msg}, the procedure returns
   the given tree and leaves the given items, for every large enough fuel. *)
From Soy Require Import Model.Bytes Model.Outcome Model.Ast Model.Token Model.RawText Model.ExprParser Model.Parser Generated.Tables
  Spec.ExprSyntax Spec.CmdSyntax Proofs.ExprParserRules Proofs.CmdRoundtripBase.
From Coq Require Import Lia.
Open Scope N_scope.

(* decide comparisons of closed item codes, membership in closed lists *)
Ltac dec_closed :=
  repeat match goal with
         | |- context [N.eqb ?a ?b] =>
             let v := eval vm_compute in (N.eqb a b) in
             match v with true => change (N.eqb a b) with true | false => change (N.eqb a b) with false end
         | |- context [one_of ?a ?l] =>
             let v := eval vm_compute in (one_of a l) in
             match v with true => change (one_of a l) with true | false => change (one_of a l) with false end
         | |- context [assoc ?a parser_special_chars] =>
             let v := eval vm_compute in (assoc a parser_special_chars) in
             match v with None => change (assoc a parser_special_chars) with (@None bstr) end
         end;
  cbn [orb andb negb].

Lemma cbind_assoc_l {A B C} (x : cres A) (f : A -> cst -> cres B) (k : B -> cst -> cres C) :
  cbind (cbind x f) k = cbind x (fun a s => cbind (f a s) k).
Proof. destruct x; reflexivity. Qed.

Section Rules.
Variable inlen : N.
Variable lexq : bstr -> list tok.
Variable unq : bstr -> option bstr.
Variable efuel : list tok -> nat.

Notation PE g := (lift_expr inlen parse_expr g).
Notation IL g := (item_list inlen lexq unq parse_expr efuel g).
Notation LOOP g k := (item_list_loop inlen lexq unq parse_expr efuel (PE g) (IL g) g k).
Notation BT g := (begin_tag inlen lexq unq parse_expr efuel (PE g) (IL g) g).

(* a body: returns n having consumed "{" and the until item u; backing up re-delivers u *)
Definition cokb {A} (r : nat -> nat -> cres A) (s : cst) (a : A) (u : tok) (rest : list tok) : Prop :=
  exists p', stream p' = rest /\ inv p' /\ stream (p_backup p') = u :: rest /\ inv (p_backup p') /\
    exists f0, forall f lf, (f0 <= f)%nat -> (f0 <= lf)%nat -> r f lf = COk a (set_p s p').
Definition CRunB {A} (r : nat -> nat -> cst -> cres A) (ts : list tok) (a : A) (u : tok) (rest : list tok) : Prop :=
  forall s, cstream s = ts -> cinv s -> c_inmsg s = false -> cokb (fun f lf => r f lf s) s a u rest.

Definition Body (until : list N) (ts : list tok) (n : node) (u : tok) (rest : list tok) : Prop :=
  CRunB (fun g _ s => IL g until s) ts n u rest.
Definition Loop (until : list N) (pos : option N) (acc : list node) (ts : list tok) (n : node) (u : tok) (rest : list tok) : Prop :=
  CRunB (fun g k s => LOOP g k until pos acc s) ts n u rest.
Definition Tag (ts : list tok) (n : node) (rest : list tok) : Prop :=
  CRun (fun g _ s => BT g s) ts (Some n) rest.

Lemma IL_S g until s : IL (S g) until s = LOOP g (S g) until None [] s.
Proof. reflexivity. Qed.

Lemma loop_S g k until pos acc s : LOOP g (S k) until pos acc s =
  cbind (c_next s) (fun token s1 =>
    let pos1 := match pos with Some p => p | None => t_pos token end in
    cbind (text_or_tag inlen lexq unq parse_expr efuel (PE g) (IL g) g token until s1) (fun r s2 =>
      if snd r then COk (NList pos1 acc) s2
      else LOOP g k until (Some pos1) (match fst r with Some n => acc ++ [n] | None => acc end) s2)).
Proof. reflexivity. Qed.

Lemma Body_of_Loop until ts n u rest : Loop until None [] ts n u rest -> Body until ts n u rest.
Proof.
  intros H s Hs Hi Hm. destruct (H s Hs Hi Hm) as (p' & H1 & H2 & H3 & H4 & f0 & HF).
  exists p'. repeat (split; [assumption|]). exists (S f0). intros f lf Hf _. destruct f as [|f]; [lia|].
  rewrite IL_S. apply HF; lia.
Qed.

Definition pos_or (pos : option N) (t : tok) : N := match pos with Some p => p | None => t_pos t end.

(* ---- itemList stops at "{" followed by an until item ---- *)
Lemma Loop_halt until pos acc t u rest :
  t_typ t = pit_LeftDelim -> one_of pit_LeftDelim until = false -> one_of (t_typ u) until = true ->
  Loop until pos acc (t :: u :: rest) (NList (pos_or pos t) acc) u rest.
Proof.
  intros Ht Hu1 Hu2 s Hs Hi Hm.
  cnext0 s Hs Hi p1 Hn1 Hs1 Hi1 Hsb1 Hib1.
  cnextp s p1 Hs1 Hi1 p2 Hn2 Hs2 Hi2 Hsb2 Hib2.
  exists p2. repeat (split; [assumption|]). exists 1%nat. intros g k Hg Hk.
  destruct g as [|g]; [lia|]. destruct k as [|k]; [lia|].
  rewrite loop_S, Hn1. cbn [cbind]. unfold text_or_tag. cbn [skip_comments]. unfold tis. rewrite Ht. dec_closed.
  cbn [cbind]. rewrite ?Ht, Hu1. rewrite Hn2. cbn [cbind]. rewrite Hu2. rewrite ?Ht. dec_closed. cbn [snd]. reflexivity.
Qed.

(* ---- raw text ---- *)
Lemma Loop_text until pos acc t nx l tv n u rest :
  t_typ t = pit_Text -> one_of pit_Text until = false ->
  t_typ nx <> pit_Text -> t_typ nx <> pit_Comment ->
  rawtext_run (t_val t) false false = Ok tv -> tv <> [] ->
  Loop until (Some (pos_or pos t)) (acc ++ [NRawText (t_pos t) tv]) (nx :: l) n u rest ->
  Loop until pos acc (t :: nx :: l) n u rest.
Proof.
  intros Ht Hu Hx1 Hx2 Hr Hne HL s Hs Hi Hm.
  cnext0 s Hs Hi p1 Hn1 Hs1 Hi1 Hsb1 Hib1.
  cnextp s p1 Hs1 Hi1 p2 Hn2 Hs2 Hi2 Hsb2 Hib2.
  cnextp s (p_backup p2) Hsb2 Hib2 p3 Hn3 Hs3 Hi3 Hsb3 Hib3.
  destruct (HL (set_p s (p_backup p3)) Hsb3 Hib3 Hm) as (p' & H1 & H2 & H3 & H4 & f0 & HF).
  exists p'. repeat (split; [assumption|]). exists (S f0). intros g k Hg Hk.
  destruct g as [|g]; [lia|]. destruct k as [|k]; [lia|].
  rewrite loop_S, Hn1. cbn [cbind]. unfold text_or_tag. cbn [skip_comments].
  rewrite (tis_ne t pit_Comment) by (rewrite Ht; vm_compute; discriminate). cbn [cbind].
  rewrite Ht, Hu. rewrite Hn2. cbn [cbind].
  rewrite (tis_ne t pit_LeftDelim) by (rewrite Ht; vm_compute; discriminate). cbn [andb].
  rewrite (tis_eq t pit_Text Ht).
  change (c_backup (set_p s p2)) with (set_p s (p_backup p2)).
  cbn [text_run]. rewrite Hn3. cbn [cbind]. rewrite (tis_ne nx pit_Text Hx1). cbn [cbind fst snd].
  rewrite (tis_ne nx pit_Comment Hx2). rewrite Hr.
  destruct tv as [|c tv]; [contradiction Hne; reflexivity|]. cbn [cbind snd fst].
  change (c_backup (set_p s p3)) with (set_p s (p_backup p3)).
  apply HF; lia.
Qed.

(* ---- a command ---- *)
Lemma Loop_tag until pos acc t k l c l2 n u rest :
  t_typ t = pit_LeftDelim -> one_of pit_LeftDelim until = false -> one_of (t_typ k) until = false ->
  Tag (k :: l) c l2 ->
  Loop until (Some (pos_or pos t)) (acc ++ [c]) l2 n u rest ->
  Loop until pos acc (t :: k :: l) n u rest.
Proof.
  intros Ht Hu1 Hu2 HT HL s Hs Hi Hm.
  cnext0 s Hs Hi p1 Hn1 Hs1 Hi1 Hsb1 Hib1.
  cnextp s p1 Hs1 Hi1 p2 Hn2 Hs2 Hi2 Hsb2 Hib2.
  destruct (HT (set_p s (p_backup p2)) Hsb2 Hib2 Hm) as (p3 & Hs3 & Hi3 & f1 & HF1).
  change (set_p (set_p s (p_backup p2)) p3) with (set_p s p3) in HF1.
  destruct (HL (set_p s p3) Hs3 Hi3 Hm) as (p' & H1 & H2 & H3 & H4 & f0 & HF).
  exists p'. repeat (split; [assumption|]). exists (S (max f0 f1)). intros g k' Hg Hk.
  destruct g as [|g]; [lia|]. destruct k' as [|k']; [lia|].
  rewrite loop_S, Hn1. cbn [cbind]. unfold text_or_tag. cbn [skip_comments]. unfold tis at 1 2. rewrite Ht. dec_closed.
  cbn [cbind]. rewrite ?Ht, Hu1. rewrite Hn2. cbn [cbind]. rewrite Hu2. unfold tis. rewrite ?Ht. dec_closed.
  change (c_backup (set_p s p2)) with (set_p s (p_backup p2)).
  rewrite (HF1 (S g) (S g)) by lia. cbn [cbind fst snd].
  apply HF; lia.
Qed.

(* ================= commands ================= *)
(* {debugger} *)
Lemma Tag_debugger k rd l : t_typ k = pit_Debugger -> t_typ rd = pit_RightDelim ->
  Tag (k :: rd :: l) (NDebugger (t_pos k)) l.
Proof.
  intros Hk Hrd s Hs Hi Hm.
  cnext0 s Hs Hi p1 Hn1 Hs1 Hi1 Hsb1 Hib1.
  cexpectp inlen pit_RightDelim x_debugger s p1 Hs1 Hi1 Hrd p2 He2 Hs2 Hi2.
  exists p2. repeat (split; [assumption|]). exists 0%nat. intros g _ _ _.
  unfold begin_tag. rewrite Hn1. cbn [cbind]. rewrite !(tis_typ k _ _ Hk). dec_closed.
  rewrite He2. reflexivity.
Qed.

(* {log}...{/log} *)
Lemma Tag_log k rd l body u rd2 l2 : t_typ k = pit_Log -> t_typ rd = pit_RightDelim -> t_typ rd2 = pit_RightDelim ->
  Body u_log l body u (rd2 :: l2) ->
  Tag (k :: rd :: l) (NLog (t_pos k) body) l2.
Proof.
  intros Hk Hrd Hrd2 HB s Hs Hi Hm.
  cnext0 s Hs Hi p1 Hn1 Hs1 Hi1 Hsb1 Hib1.
  cexpectp inlen pit_RightDelim x_log s p1 Hs1 Hi1 Hrd p2 He2 Hs2 Hi2.
  destruct (HB (set_p s p2) Hs2 Hi2 Hm) as (p3 & Hs3 & Hi3 & _ & _ & f0 & HF).
  change (set_p (set_p s p2) p3) with (set_p s p3) in HF.
  cexpectp inlen pit_RightDelim x_log s p3 Hs3 Hi3 Hrd2 p4 He4 Hs4 Hi4.
  exists p4. repeat (split; [assumption|]). exists f0. intros g lf Hg _.
  unfold begin_tag. rewrite Hn1. cbn [cbind]. rewrite !(tis_typ k _ _ Hk). dec_closed.
  rewrite He2. cbn [cbind]. rewrite (HF g g) by lia. cbn [cbind]. rewrite He4. reflexivity.
Qed.

(* {let $x: e /} *)
Lemma Tag_let_value k d colon l c name e rde l2 :
  t_typ k = pit_Let -> t_typ d = pit_DollarIdent -> t_val d = c :: name -> t_typ colon = pit_Colon ->
  t_typ rde = pit_RightDelimEnd ->
  Parses 0 l e (rde :: l2) ->
  Tag (k :: d :: colon :: l) (NLetValue (t_pos k) name e) l2.
Proof.
  intros Hk Hd Hv Hc Hrde HP s Hs Hi Hm.
  cnext0 s Hs Hi p1 Hn1 Hs1 Hi1 Hsb1 Hib1.
  cexpectp inlen pit_DollarIdent x_let s p1 Hs1 Hi1 Hd p2 He2 Hs2 Hi2.
  cpeekp s p2 Hs2 Hi2 p3 Hp3 Hs3 Hi3.
  cnextp s p3 Hs3 Hi3 p4 Hn4 Hs4 Hi4 Hsb4 Hib4.
  cexprp inlen s p4 HP Hs4 Hi4 p5 Hs5 Hi5 f0 HF.
  cexpectp inlen pit_RightDelimEnd x_let s p5 Hs5 Hi5 Hrde p6 He6 Hs6 Hi6.
  exists p6. repeat (split; [assumption|]). exists f0. intros g lf Hg _.
  unfold begin_tag. rewrite Hn1. cbn [cbind]. rewrite !(tis_typ k _ _ Hk). dec_closed.
  unfold parse_let. rewrite He2. cbn [cbind]. rewrite Hp3. cbn [cbind]. rewrite (tis_eq colon pit_Colon Hc).
  rewrite Hn4. cbn [cbind]. rewrite (HF g Hg). cbn [cbind]. unfold tail1. rewrite Hv. cbn [cbind].
  rewrite He6. reflexivity.
Qed.

(* {let $x}...{/let}   (String() does not print the kind attribute) *)
Lemma Tag_let_content k d rd l c name body u rd2 l2 :
  t_typ k = pit_Let -> t_typ d = pit_DollarIdent -> t_val d = c :: name -> t_typ rd = pit_RightDelim ->
  t_typ rd2 = pit_RightDelim ->
  Body u_let l body u (rd2 :: l2) ->
  Tag (k :: d :: rd :: l) (NLetContent (t_pos k) name body) l2.
Proof.
  intros Hk Hd Hv Hrd Hrd2 HB s Hs Hi Hm.
  cnext0 s Hs Hi p1 Hn1 Hs1 Hi1 Hsb1 Hib1.
  cexpectp inlen pit_DollarIdent x_let s p1 Hs1 Hi1 Hd p2 He2 Hs2 Hi2.
  cpeekp s p2 Hs2 Hi2 p3 Hp3 Hs3 Hi3.
  cnextp s p3 Hs3 Hi3 p4 Hn4 Hs4 Hi4 Hsb4 Hib4.
  cnextp s (p_backup p4) Hsb4 Hib4 p5 Hn5 Hs5 Hi5 Hsb5 Hib5.
  destruct (HB (set_p s p5) Hs5 Hi5 Hm) as (p6 & Hs6 & Hi6 & _ & _ & f0 & HF).
  change (set_p (set_p s p5) p6) with (set_p s p6) in HF.
  cexpectp inlen pit_RightDelim x_let s p6 Hs6 Hi6 Hrd2 p7 He7 Hs7 Hi7.
  exists p7. repeat (split; [assumption|]). exists (S f0). intros g lf Hg _.
  destruct g as [|g]; [lia|].
  unfold begin_tag. rewrite Hn1. cbn [cbind]. rewrite !(tis_typ k _ _ Hk). dec_closed.
  unfold parse_let. rewrite He2. cbn [cbind]. rewrite Hp3. cbn [cbind].
  rewrite (tis_ne rd pit_Colon) by (rewrite Hrd; vm_compute; discriminate).
  cbn [attrs_loop]. rewrite Hn4. cbn [cbind].
  rewrite (tis_ne rd pit_Ident) by (rewrite Hrd; vm_compute; discriminate).
  rewrite (tis_eq rd pit_RightDelim Hrd). cbn [orb cbind].
  change (c_backup (set_p s p4)) with (set_p s (p_backup p4)).
  rewrite Hn5. cbn [cbind]. rewrite (tis_eq rd pit_RightDelim Hrd).
  rewrite (HF (S g) (S g)) by lia. cbn [cbind]. unfold tail1. rewrite Hv. cbn [cbind].
  rewrite He7. reflexivity.
Qed.

(* ---- {if} ---- *)
Definition IfLoop (pos : N) (conds : list node) (is_else : bool) (ts : list tok) (n : node) (rest : list tok) : Prop :=
  CRun (fun g k s => if_loop inlen (PE g) (IL g) k pos conds is_else s) ts n rest.

Lemma if_loop_S pe w f pos conds is_else s : if_loop inlen pe w (S f) pos conds is_else s =
  cbind (if is_else then COk None s else cbind (pe 0 s) (fun c s0 => COk (Some c) s0)) (fun cond s1 =>
  cbind (c_expect inlen pit_RightDelim x_if s1) (fun _ s2 =>
  cbind (w u_if s2) (fun body s3 =>
    let conds1 := conds ++ [NIfCond pos cond body] in
    cbind (c_next (c_backup s3)) (fun nx s4 =>
      if tis nx pit_Elseif then if_loop inlen pe w f pos conds1 is_else s4
      else if tis nx pit_Else then if_loop inlen pe w f pos conds1 true s4
      else if tis nx pit_IfEnd then
        cbind (c_expect inlen pit_RightDelim x_if s4) (fun _ s5 => COk (NIf pos conds1) s5)
      else if_loop inlen pe w f pos conds1 is_else s4)))).
Proof. reflexivity. Qed.

(* what follows a condition's body: the until item u decides *)
Definition IfCont (pos : N) (conds1 : list node) (is_else : bool) (u : tok) (l2 : list tok) (n : node) (rest : list tok) : Prop :=
  (t_typ u = pit_Elseif /\ IfLoop pos conds1 is_else l2 n rest) \/
  (t_typ u = pit_Else /\ IfLoop pos conds1 true l2 n rest) \/
  (t_typ u = pit_IfEnd /\ exists rd2, t_typ rd2 = pit_RightDelim /\ l2 = rd2 :: rest /\ n = NIf pos conds1).

Lemma if_cont pos conds1 is_else u l2 n rest s p3 :
  IfCont pos conds1 is_else u l2 n rest -> c_inmsg s = false ->
  stream p3 = l2 -> inv p3 -> stream (p_backup p3) = u :: l2 -> inv (p_backup p3) ->
  exists p', stream p' = rest /\ inv p' /\ exists f0, forall g k, (f0 <= g)%nat -> (f0 <= k)%nat ->
    cbind (c_next (c_backup (set_p s p3))) (fun nx s4 =>
      if tis nx pit_Elseif then if_loop inlen (PE g) (IL g) k pos conds1 is_else s4
      else if tis nx pit_Else then if_loop inlen (PE g) (IL g) k pos conds1 true s4
      else if tis nx pit_IfEnd then
        cbind (c_expect inlen pit_RightDelim x_if s4) (fun _ s5 => COk (NIf pos conds1) s5)
      else if_loop inlen (PE g) (IL g) k pos conds1 is_else s4) = COk n (set_p s p').
Proof.
  intros HC Hm Hs3 Hi3 Hsb3 Hib3.
  change (c_backup (set_p s p3)) with (set_p s (p_backup p3)).
  cnextp s (p_backup p3) Hsb3 Hib3 p4 Hn4 Hs4 Hi4 Hsb4 Hib4.
  destruct HC as [[Hu HL]|[[Hu HL]|[Hu (rd2 & Hrd2 & -> & ->)]]].
  - destruct (HL (set_p s p4) Hs4 Hi4 Hm) as (p' & H1 & H2 & f0 & HF).
    exists p'. repeat (split; [assumption|]). exists f0. intros g k Hg Hk.
    rewrite Hn4. cbn [cbind]. rewrite (tis_eq u pit_Elseif Hu). apply HF; lia.
  - destruct (HL (set_p s p4) Hs4 Hi4 Hm) as (p' & H1 & H2 & f0 & HF).
    exists p'. repeat (split; [assumption|]). exists f0. intros g k Hg Hk.
    rewrite Hn4. cbn [cbind]. rewrite (tis_ne u pit_Elseif) by (rewrite Hu; vm_compute; discriminate).
    rewrite (tis_eq u pit_Else Hu). apply HF; lia.
  - cexpectp inlen pit_RightDelim x_if s p4 Hs4 Hi4 Hrd2 p5 He5 Hs5 Hi5.
    exists p5. repeat (split; [assumption|]). exists 0%nat. intros g k Hg Hk.
    rewrite Hn4. cbn [cbind]. rewrite (tis_ne u pit_Elseif) by (rewrite Hu; vm_compute; discriminate).
    rewrite (tis_ne u pit_Else) by (rewrite Hu; vm_compute; discriminate).
    rewrite (tis_eq u pit_IfEnd Hu). rewrite He5. reflexivity.
Qed.

Lemma IfLoop_cond pos conds ts c rd l1 x u l2 n rest :
  Parses 0 ts c (rd :: l1) -> t_typ rd = pit_RightDelim ->
  Body u_if l1 x u l2 ->
  IfCont pos (conds ++ [NIfCond pos (Some c) x]) false u l2 n rest ->
  IfLoop pos conds false ts n rest.
Proof.
  intros HP Hrd HB HC s Hs Hi Hm.
  destruct (lift_expr_spec inlen _ _ _ s HP Hs Hi) as (p1 & Hs1 & Hi1 & f1 & HF1).
  cexpectp inlen pit_RightDelim x_if s p1 Hs1 Hi1 Hrd p2 He2 Hs2 Hi2.
  destruct (HB (set_p s p2) Hs2 Hi2 Hm) as (p3 & Hs3 & Hi3 & Hsb3 & Hib3 & f2 & HF2).
  change (set_p (set_p s p2) p3) with (set_p s p3) in HF2.
  destruct (if_cont _ _ _ _ _ _ _ s p3 HC Hm Hs3 Hi3 Hsb3 Hib3) as (p' & H1 & H2 & f3 & HF3).
  exists p'. repeat (split; [assumption|]). exists (S (max f1 (max f2 f3))). intros g k Hg Hk.
  destruct k as [|k]; [lia|]. rewrite if_loop_S. rewrite (HF1 g) by lia. cbn [cbind].
  rewrite He2. cbn [cbind]. rewrite (HF2 g g) by lia. cbn [cbind]. apply HF3; lia.
Qed.

Lemma IfLoop_else pos conds rd l1 x u l2 n rest :
  t_typ rd = pit_RightDelim ->
  Body u_if l1 x u l2 ->
  IfCont pos (conds ++ [NIfCond pos None x]) true u l2 n rest ->
  IfLoop pos conds true (rd :: l1) n rest.
Proof.
  intros Hrd HB HC s Hs Hi Hm.
  destruct (cexpect_spec inlen pit_RightDelim x_if s _ _ Hs Hi Hrd) as (p2 & He2 & Hs2 & Hi2).
  destruct (HB (set_p s p2) Hs2 Hi2 Hm) as (p3 & Hs3 & Hi3 & Hsb3 & Hib3 & f2 & HF2).
  change (set_p (set_p s p2) p3) with (set_p s p3) in HF2.
  destruct (if_cont _ _ _ _ _ _ _ s p3 HC Hm Hs3 Hi3 Hsb3 Hib3) as (p' & H1 & H2 & f3 & HF3).
  exists p'. repeat (split; [assumption|]). exists (S (max f2 f3)). intros g k Hg Hk.
  destruct k as [|k]; [lia|]. rewrite if_loop_S. cbn [cbind].
  rewrite He2. cbn [cbind]. rewrite (HF2 g g) by lia. cbn [cbind]. apply HF3; lia.
Qed.

Lemma Tag_if k l n rest : t_typ k = pit_If -> IfLoop (t_pos k) [] false l n rest -> Tag (k :: l) n rest.
Proof.
  intros Hk HL s Hs Hi Hm.
  cnext0 s Hs Hi p1 Hn1 Hs1 Hi1 Hsb1 Hib1.
  destruct (HL (set_p s p1) Hs1 Hi1 Hm) as (p' & H1 & H2 & f0 & HF).
  change (set_p (set_p s p1) p') with (set_p s p') in HF.
  exists p'. repeat (split; [assumption|]). exists f0. intros g lf Hg _.
  unfold begin_tag. rewrite Hn1. cbn [cbind]. rewrite !(tis_typ k _ _ Hk). dec_closed.
  unfold notmsg. change (c_inmsg (set_p s p1)) with (c_inmsg s). rewrite Hm.
  rewrite (HF g g) by lia. reflexivity.
Qed.

(* ---- {for $x in e}...{ifempty}...{/for} ---- *)
Lemma Tag_for k d i l c var lst rd l1 x u l2 n rest :
  t_typ k = pit_For -> t_typ d = pit_DollarIdent -> t_val d = c :: var ->
  t_typ i = pit_Ident -> t_val i = k_in ->
  Parses 0 l lst (rd :: l1) -> t_typ rd = pit_RightDelim ->
  Body u_for l1 x u l2 ->
  ((t_typ u = pit_Ifempty /\ exists rd2 l3 y u2 rd3, t_typ rd2 = pit_RightDelim /\ l2 = rd2 :: l3 /\
        Body u_ifempty l3 y u2 (rd3 :: rest) /\ t_typ rd3 = pit_RightDelim /\ n = NFor (t_pos k) var lst x (Some y)) \/
   (t_typ u <> pit_Ifempty /\ exists rd2, t_typ rd2 = pit_RightDelim /\ l2 = rd2 :: rest /\ n = NFor (t_pos k) var lst x None)) ->
  Tag (k :: d :: i :: l) n rest.
Proof.
  intros Hk Hd Hv Hi_ Hiv HP Hrd HB HC s Hs Hi Hm.
  cnext0 s Hs Hi p1 Hn1 Hs1 Hi1 Hsb1 Hib1.
  cexpectp inlen pit_DollarIdent x_for s p1 Hs1 Hi1 Hd p2 He2 Hs2 Hi2.
  cexpectp inlen pit_Ident x_for s p2 Hs2 Hi2 Hi_ p3 He3 Hs3 Hi3.
  cexprp inlen s p3 HP Hs3 Hi3 p4 Hs4 Hi4 f1 HF1.
  cexpectp inlen pit_RightDelim x_for s p4 Hs4 Hi4 Hrd p5 He5 Hs5 Hi5.
  destruct (HB (set_p s p5) Hs5 Hi5 Hm) as (p6 & Hs6 & Hi6 & Hsb6 & Hib6 & f2 & HF2).
  change (set_p (set_p s p5) p6) with (set_p s p6) in HF2.
  cnextp s (p_backup p6) Hsb6 Hib6 p7 Hn7 Hs7 Hi7 Hsb7 Hib7.
  assert (Hpre : forall g, (max f1 f2 <= g)%nat ->
    BT g s = cbind (c_next (c_backup (set_p s p6))) (fun nx s6 =>
      cbind (cbind (if tis nx pit_Ifempty then
               cbind (c_expect inlen pit_RightDelim x_ifempty s6) (fun _ s8 =>
               cbind (IL g u_ifempty s8) (fun b2 s9 => COk (Some b2) s9))
             else COk None s6) (fun ie s7 =>
      cbind (c_expect inlen pit_RightDelim x_for s7) (fun _ s8 =>
      cbind (tail1 (t_val d) s8) (fun nm s9 => COk (NFor (t_pos k) nm lst x ie) s9))))
      (fun n0 s' => COk (Some n0) s'))).
  { intros g Hg. unfold begin_tag. rewrite Hn1. cbn [cbind]. rewrite !(tis_typ k _ _ Hk). dec_closed.
    unfold notmsg. change (c_inmsg (set_p s p1)) with (c_inmsg s). rewrite Hm.
    unfold parse_for. rewrite He2. cbn [cbind]. rewrite He3. cbn [cbind].
    rewrite Hiv. change (bstr_eqb k_in k_in) with true. cbn [negb].
    rewrite (HF1 g) by lia. cbn [cbind]. rewrite He5. cbn [cbind]. rewrite (HF2 g g) by lia. cbn [cbind].
    rewrite cbind_assoc_l. reflexivity. }
  change (c_backup (set_p s p6)) with (set_p s (p_backup p6)) in Hpre.
  destruct HC as [(Hu & rd2 & l3 & y & u2 & rd3 & Hrd2 & -> & HB2 & Hrd3 & ->)|(Hu & rd2 & Hrd2 & -> & ->)].
  - cexpectp inlen pit_RightDelim x_ifempty s p7 Hs7 Hi7 Hrd2 p8 He8 Hs8 Hi8.
    destruct (HB2 (set_p s p8) Hs8 Hi8 Hm) as (p9 & Hs9 & Hi9 & _ & _ & f3 & HF3).
    change (set_p (set_p s p8) p9) with (set_p s p9) in HF3.
    cexpectp inlen pit_RightDelim x_for s p9 Hs9 Hi9 Hrd3 p10 He10 Hs10 Hi10.
    exists p10. repeat (split; [assumption|]). exists (max (max f1 f2) f3). intros g lf Hg _.
    rewrite Hpre by lia. rewrite Hn7. cbn [cbind]. rewrite (tis_eq u pit_Ifempty Hu).
    rewrite He8. cbn [cbind]. rewrite (HF3 g g) by lia. cbn [cbind]. rewrite He10. cbn [cbind].
    unfold tail1. rewrite Hv. cbn [cbind]. reflexivity.
  - cexpectp inlen pit_RightDelim x_for s p7 Hs7 Hi7 Hrd2 p8 He8 Hs8 Hi8.
    exists p8. repeat (split; [assumption|]). exists (max f1 f2). intros g lf Hg _.
    rewrite Hpre by lia. rewrite Hn7. cbn [cbind]. rewrite (tis_ne u pit_Ifempty Hu). cbn [cbind].
    rewrite He8. cbn [cbind]. unfold tail1. rewrite Hv. cbn [cbind]. reflexivity.
Qed.
End Rules.
