(* "Lexes exactly this token", string literals: a quote, a body of valid UTF-8 runes in which the quote
   occurs only after a backslash (a backslash skips the following rune), and the closing quote. *)
From Soy Require Import Model.Bytes Model.Utf8 Model.Outcome Model.Token Generated.Tables Model.Lexer
  Proofs.Utf8Proofs Proofs.LexerPrim Proofs.LexerStates Proofs.LexTokens.
From Coq Require Import ZifyBool ZifyNat ZifyN Lia.
Open Scope Z_scope.

(* the body of a string literal, rune by rune: no unescaped quote, no backslash at the very end *)
Fixpoint str_body_ok (q : N) (rs : list N) : bool :=
  match rs with
  | [] => true
  | r :: rest =>
      if (r =? 92)%N then match rest with [] => false | _ :: rest' => str_body_ok q rest' end
      else if (r =? q)%N then false else str_body_ok q rest
  end.

Definition string_of_runes (l : list N) : bstr := concat_b (map encode_rune l).

Section Strings.
Variable uni_letter uni_digit : Z -> bool.
Variable inp : bstr.
Variable base : Z.
Notation ilen := (Z.of_nat (length inp)).
Notation steps := (steps uni_letter uni_digit inp base).
Notation span := (span inp).

(* the lexer after reading one more rune of n bytes *)
Definition advn (l : lx) (n : nat) : lx :=
  {| l_pos := l_pos l + Z.of_nat n; l_start := l_start l; l_width := Z.of_nat n; l_dd := l_dd l; l_last := l_last l;
     l_out := l_out l; l_ticks := l_ticks l + 1 |}.

Lemma next_rune l w r s : span l w (encode_rune r ++ s) -> valid_scalar r ->
  next inp ilen l = Ok (Z.of_N r, advn l (length (encode_rune r))) /\ span (advn l (length (encode_rune r))) (w ++ encode_rune r) s.
Proof.
  intros Hs Hv. pose proof (span_cur inp _ _ _ Hs) as (Hp & Hd). pose proof (span_bounds inp _ _ _ Hs) as (Hb & Hl).
  destruct (encode_rune_shape r Hv) as (c0 & tl & He & _). rewrite app_length in Hl.
  assert (Hpos : (0 < length (encode_rune r))%nat) by (rewrite He; cbn; lia).
  split.
  - unfold next. destruct (ilen <=? l_pos l) eqn:E; [lia|]. destruct (l_pos l <? 0) eqn:E2; [lia|].
    rewrite Hd, (decode_encode r s Hv). reflexivity.
  - destruct Hs as (H0 & Hds & Hps). unfold LexTokens.span, advn. cbn [l_start l_pos]. split; [exact H0|]. split.
    + rewrite Hds, <- app_assoc. reflexivity.
    + rewrite app_length. lia.
Qed.

Lemma string_of_runes_cons r rs : string_of_runes (r :: rs) = encode_rune r ++ string_of_runes rs.
Proof. reflexivity. Qed.

Lemma encode_len_pos r : valid_scalar r -> (0 < length (encode_rune r))%nat.
Proof. intros Hv. destruct (encode_rune_shape r Hv) as (c0 & tl & He & _). rewrite He. cbn. lia. Qed.

(* the loop of stringLexer over a well-formed body and the closing quote *)
Lemma string_loop_body q n : forall rs l w s fuel, (length rs <= n)%nat -> (q < 128)%N -> q <> 92%N ->
  span l w (string_of_runes rs ++ q :: s) -> Forall valid_scalar rs -> str_body_ok q rs = true ->
  (length (string_of_runes rs) < fuel)%nat ->
  exists l1, string_loop inp ilen base fuel (Z.of_N q) l = emit_to inp ilen base itemString LInsideTag l1 /\
             span l1 (w ++ string_of_runes rs ++ [q]) s /\
             l_out l1 = l_out l /\ l_last l1 = l_last l /\ l_dd l1 = l_dd l.
Proof.
  induction n as [|n IH]; intros rs l w s fuel Hlen Hq Hq92 Hs Hv Hok Hf; (destruct fuel as [|f]; [lia|]); cbn [string_loop].
  - destruct rs as [|r rs]; [|cbn in Hlen; lia].
    cbn [string_of_runes map concat_b app] in *.
    destruct (next_ascii inp l w q s Hs Hq) as (Hn & Hs1). rewrite Hn. cbn [bind].
    replace (Z.of_N q =? eof) with false by (unfold eof; lia). replace (Z.of_N q =? 92) with false by lia.
    rewrite Z.eqb_refl. exists (adv l). split; [reflexivity|]. split; [exact Hs1|repeat split].
  - destruct rs as [|r rs].
    + cbn [string_of_runes map concat_b app] in *.
      destruct (next_ascii inp l w q s Hs Hq) as (Hn & Hs1). rewrite Hn. cbn [bind].
      replace (Z.of_N q =? eof) with false by (unfold eof; lia). replace (Z.of_N q =? 92) with false by lia.
      rewrite Z.eqb_refl. exists (adv l). split; [reflexivity|]. split; [exact Hs1|repeat split].
    + inversion Hv as [|? ? Hr Hv']; subst. rewrite string_of_runes_cons in *. rewrite <- app_assoc in Hs.
      destruct (next_rune l w r _ Hs Hr) as (Hn & Hs1). rewrite Hn. cbn [bind].
      pose proof (encode_len_pos r Hr) as Hlr. rewrite app_length in Hf.
      replace (Z.of_N r =? eof) with false by (unfold eof; lia).
      cbn [str_body_ok] in Hok. destruct (N.eqb_spec r 92) as [E92|E92].
      * (* an escape: the next rune is skipped *)
        subst r. change (Z.of_N 92 =? 92) with true. cbv iota.
        destruct rs as [|r2 rs]; [discriminate|]. inversion Hv' as [|? ? Hr2 Hv'']; subst.
        rewrite string_of_runes_cons in *. rewrite <- app_assoc in Hs1.
        destruct (next_rune _ _ r2 _ Hs1 Hr2) as (Hn2 & Hs2). rewrite Hn2. cbn [bind].
        pose proof (encode_len_pos r2 Hr2) as Hlr2. rewrite app_length in Hf.
        destruct (IH rs _ _ s f ltac:(cbn in Hlen; lia) Hq Hq92 Hs2 Hv'' Hok ltac:(lia)) as (l1 & H1 & H2 & H3 & H4 & H5).
        exists l1. split; [exact H1|]. split; [|auto].
        repeat rewrite <- app_assoc in H2. repeat rewrite <- app_assoc. exact H2.
      * replace (Z.of_N r =? 92) with false by lia.
        destruct (N.eqb_spec r q) as [Eq|Eq]; [discriminate|]. replace (Z.of_N r =? Z.of_N q) with false by lia.
        destruct (IH rs _ _ s f ltac:(cbn in Hlen; lia) Hq Hq92 Hs1 Hv' Hok ltac:(lia)) as (l1 & H1 & H2 & H3 & H4 & H5).
        exists l1. split; [exact H1|]. split; [|auto].
        repeat rewrite <- app_assoc in H2. repeat rewrite <- app_assoc. exact H2.
Qed.

(* a quoted string *)
Lemma lex_string_tok l q rs s : (q = 39 \/ q = 34)%N ->
  span l [] (q :: string_of_runes rs ++ q :: s) -> Forall valid_scalar rs -> str_body_ok q rs = true ->
  exists l', steps 2 LInsideTag l = Ok (LInsideTag, l') /\ span l' [] s /\ sent itemString (q :: string_of_runes rs ++ [q]) l l'.
Proof.
  intros Hq Hs Hv Hok.
  assert (Hq128 : (q < 128)%N) by lia. assert (Hq92 : q <> 92%N) by lia.
  destruct (next_ascii inp l [] q _ Hs Hq128) as (Hn & Hs1).
  assert (H1 : step uni_letter uni_digit inp ilen base LInsideTag l = Ok (LString (Z.of_N q), adv l)).
  { cbn [step]. unfold lex_inside_tag. rewrite Hn. cbn [bind]. destruct Hq as [-> | ->]; eval_tests; reflexivity. }
  destruct (string_loop_body q (length rs) rs (adv l) _ s (loop_fuel ilen (adv l)) (le_n _) Hq128 Hq92 Hs1 Hv Hok) as (l1 & Hl & Hs2 & Ho & Hla & Hd).
  { pose proof (span_bounds inp _ _ _ Hs1) as (Hb & Hlen). rewrite app_length in Hlen. unfold loop_fuel. lia. }
  destruct (emit_span inp base itemString l1 _ s Hs2) as (Hem & Hs3).
  eexists. split; [|split; [exact Hs3|apply sent_emitted; [rewrite Ho|rewrite Hla|rewrite Hd]; reflexivity]].
  change 2%nat with (1 + 1)%nat. rewrite (steps_app _ _ _ _ 1 1 _ _ _ _ (steps_one _ _ _ _ _ _ _ _ H1)).
  apply steps_one. cbn [step]. unfold lex_string. rewrite Hl. unfold emit_to. rewrite Hem. reflexivity.
Qed.

End Strings.
