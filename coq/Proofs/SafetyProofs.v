(* C06, part 2: the walker never crashes and never diverges (for every
   configuration, node, state and fuel); at depth 0 the position register stays
   inside the entry template's source, so the code that runs inside errRecover
   cannot panic either; hence [render_no_escape], [eval_expr_no_escape],
   [parse_globals_no_escape]; [range_terminates]. *)
From Coq Require Import Lia ZifyN ZifyBool ZifyNat.
From Soy Require Import Model.Bytes Model.Num Model.Values Model.Outcome Model.Ast
  Model.Escape Model.Directives Model.Print Generated.Tables Model.Interp Model.InterpSafety Model.Globals
  Spec.Safety Proofs.ValueProofs Proofs.InterpLogic Proofs.InterpSub Proofs.SafetyPure.
Open Scope N_scope.

(* ================================================================== *)
(* A. no crash, no divergence: a uniform invariant of the walker       *)
(* ================================================================== *)

Definition allowed_nc (e : fault) : Prop :=
  match e with FCrash _ | FDiverge => False | _ => True end.

Lemma nf_pure_nc {A} (o : outcome A) : nf o -> inv_pure_ok allowed_nc o.
Proof. unfold inv_pure_ok. destruct o; cbn; tauto. Qed.

Lemma nc_pure_sites : pure_sites (@inv_pure_ok allowed_nc).
Proof.
  constructor.
  - exact I.
  - intros. apply nf_pure_nc, nf_arith.
  - intros. apply nf_pure_nc, nf_compare.
  - intros. apply nf_pure_nc, nf_value_string.
  - intros. apply nf_pure_nc, nf_print_writes.
  - intros name ar vs H. apply nf_pure_nc. eapply nf_apply_func_table; eauto.
Qed.

Lemma nc_conditions : inv_conditions (fun _ => True) (fun _ _ => True) (fun _ _ => True) allowed_nc.
Proof. constructor; intros; try exact I; try (split; exact I). Qed.

(* the walker on ANY node, in ANY state, under ANY configuration and fuel *)
Theorem walk_no_escape cf fuel n st : no_escape (fst (walk cf fuel n st)).
Proof.
  destruct (walk cf fuel n st) as [r st'] eqn:H.
  pose proof (inv_walk _ _ _ _ nc_conditions cf nc_pure_sites fuel n st r st' I H) as H1.
  cbn [fst]. destruct r; cbn in H1 |- *; try exact I; destruct H1 as [_ []].
Qed.

(* ================================================================== *)
(* B. below the entry template the position register is not touched    *)
(* ================================================================== *)

Definition Rdeep (a b : mstate) : Prop :=
  depth_ b = depth_ a /\ (depth_ a <> 0%nat -> cur b = cur a).

Lemma Rdeep_frame a b : depth_ b = depth_ a -> cur b = cur a -> Rdeep a b.
Proof. intros H1 H2. split; [exact H1 | intros _; exact H2]. Qed.
Lemma Rdeep_trans a b c : Rdeep a b -> Rdeep b c -> Rdeep a c.
Proof. intros [H1 H2] [H3 H4]. split; [congruence|]. intros Hd. rewrite H4 by congruence. apply H2. exact Hd. Qed.

Lemma deep_conditions : inv_conditions (fun _ => True) Rdeep Rdeep (fun _ => True).
Proof.
  constructor; intros; try exact I; try (split; [exact I|]);
    try (apply Rdeep_frame; reflexivity).
  - eapply Rdeep_trans; eauto.
  - eapply Rdeep_trans; eauto.
  - (* set_cur *)
    split; [reflexivity|]. intros Hd. cbn. destruct (Nat.eqb_spec (depth_ st) 0); [contradiction | reflexivity].
  - (* write ok *)
    match goal with H : write _ _ = _ |- _ => apply write_inv in H; inversion H; subst end;
      apply Rdeep_frame; reflexivity.
  - (* write err *)
    match goal with H : write _ _ = _ |- _ => apply write_inv in H; inversion H; subst end;
      apply Rdeep_frame; reflexivity.
  - (* m_set *)
    match goal with H : m_set _ _ _ = _ |- _ => rewrite m_set_eq in H end.
    destruct (ctx st) as [|f r]; [discriminate|].
    match goal with H : (_, _) = (_, _) |- _ => inversion H; subst end.
    apply Rdeep_frame; destruct (f_origin f); reflexivity.
  - (* pop *) match goal with H : Rdeep (pushed _) _ |- _ => destruct H as [Hd1 Hd2] end.
    split; [exact Hd1 | exact Hd2].
  - match goal with H : Rdeep (pushed _) _ |- _ => exact H end.
  - (* buf pop *) match goal with H : Rdeep (buf_pushed _) _ |- _ => destruct H as [Hd1 Hd2] end.
    split; [exact Hd1 | exact Hd2].
  - match goal with H : Rdeep (buf_pushed _) _ |- _ => destruct H as [Hd1 Hd2] end.
    split; [exact Hd1 | exact Hd2].
  - match goal with H : Rdeep (buf_pushed _) _ |- _ => exact H end.
  - (* leave *)
    match goal with H : Rdeep (entered _ _ _) _ |- _ => destruct H as [Hd1 Hd2] end.
    apply Rdeep_frame; [reflexivity|]. cbn. rewrite Hd2 by (cbn; discriminate). reflexivity.
  - match goal with H : Rdeep (entered _ _ _) _ |- _ => destruct H as [Hd1 Hd2] end.
    apply Rdeep_frame; [reflexivity|]. cbn. rewrite Hd2 by (cbn; discriminate). reflexivity.
Qed.

Theorem walk_deep cf fuel n st r st' : walk cf fuel n st = (r, st') -> Rdeep st st'.
Proof.
  intros H.
  pose proof (inv_walk _ _ _ _ deep_conditions cf pure_sites_any fuel n st r st' I H) as H1.
  destruct (classify r); destruct H1; assumption.
Qed.

(* ================================================================== *)
(* C. at depth 0 the position register stays inside the source         *)
(* ================================================================== *)

Require Import Soy.Proofs.SafetyNodes.

Lemma pure_sites_sub_any (allowed : fault -> Prop) :
  (forall e, allowed e) -> pure_sites_sub (@rel_pure_ok allowed).
Proof.
  intros Ha. constructor; intros; unfold rel_pure_ok;
    match goal with |- match classify ?o with _ => _ end => destruct (classify o); [exact I | apply Ha] end.
Qed.

Section Pos.
Variable B : N.

Definition Rpos (a b : mstate) : Prop :=
  depth_ b = depth_ a /\ (cur a <= B -> cur b <= B).

Lemma Rpos_frame a b : depth_ b = depth_ a -> cur b = cur a -> Rpos a b.
Proof. intros H1 H2. split; [exact H1 | rewrite H2; tauto]. Qed.

Lemma pos_rel_conditions : rel_conditions Rpos (fun _ => True).
Proof.
  constructor; intros; try exact I; try (apply Rpos_frame; reflexivity).
  - (* trans *) destruct H as [H1 H2], H0 as [H3 H4]. split; [congruence | tauto].
  - (* restore *) destruct H as [H1 H2]. split; [exact H1|]. intros Hc. cbn.
    destruct (Nat.eqb (depth_ st2) 0); [exact Hc | apply H2; exact Hc].
Qed.

Lemma pos_le_syn p i m d b b' : pos_le B (NMsg p i m d b) = true -> pos_le B (NMsg p 0 [] [] b') = true.
Proof. exact (fun H => H). Qed.

Theorem walk_pos cf : forall fuel n, node_all (pos_le B) n = true ->
  rel_spec Rpos (fun _ => True) (walk cf fuel n).
Proof.
  induction fuel as [|fuel IH]; intros n Hn.
  - rewrite walk_O. apply (rel_lift _ _ pos_rel_conditions). exact I.
  - rewrite walk_S.
    apply (phi_walk_body_sub cf _ _ (rel_logic_sub _ _ pos_rel_conditions) (pure_sites_sub_any _ (fun _ => I))).
    + apply rel_modify. intros st. split; [reflexivity|]. intros Hc. cbn.
      destruct (Nat.eqb (depth_ st) 0); [|exact Hc].
      apply node_all_head in Hn. unfold pos_le in Hn. lia.
    + intros n' Hin. apply IH. exact (node_all_sub (pos_le B) pos_le_syn n n' Hn Hin).
    + intros callee cd _ st r st' H. rewrite call_enter_eq in H. cbn zeta in H.
      destruct (walk cf fuel (t_node callee) (entered st callee cd)) as [r1 st2] eqn:Hrun.
      cbn [fst snd] in H. inversion H; subst.
      split; [|match goal with |- match classify ?o with _ => _ end => destruct (classify o); exact I end].
      apply walk_deep in Hrun. destruct Hrun as [_ Hcur].
      apply Rpos_frame; [reflexivity|]. cbn. rewrite Hcur by (cbn; discriminate). reflexivity.
Qed.
End Pos.

(* ================================================================== *)
(* D. Renderer.Execute                                                 *)
(* ================================================================== *)

Lemma find_template_some ts name t : find_template ts name = Some t -> In t ts /\ t_name t = name.
Proof.
  induction ts as [|x r IH]; cbn [find_template]; [discriminate|].
  destruct (bstr_eqb_spec (t_name x) name) as [He|Hne].
  - intros H. injection H as <-. split; [left; reflexivity | exact He].
  - intros H. destruct (IH H). split; [right; assumption | assumption].
Qed.

(* the hypothesis actually used: the positions of every template lie inside the source recorded under
   its name ([reg_ok] adds unique names and recorded files, which is what makes this hold for the
   registries the compiler builds) *)
Theorem render_no_escape_pos cf fuel name data_id data cl bl first_id :
  reg_pos_ok (c_reg cf) = true ->
  no_escape (rr_outcome (render cf fuel name data_id data cl bl first_id)).
Proof.
  intros Hreg. unfold render.
  destruct (find_template (r_templates (c_reg cf)) name) as [t|] eqn:Hf; [|exact I].
  apply find_template_some in Hf as [Hin Hname].
  set (st0 := init_state _ _ _ _ _ _).
  destruct (walk cf fuel (t_node t) st0) as [r st] eqn:Hrun.
  pose proof (walk_no_escape cf fuel (t_node t) st0) as Hnc. rewrite Hrun in Hnc. cbn [fst] in Hnc.
  destruct r; cbn [rr_outcome]; try exact I; try exact Hnc.
  (* Err: the recover handler computes file and line *)
  destruct (assoc_s name (r_sources (c_reg cf))) as [src|] eqn:Hsrc; [|exact I].
  destruct (assoc_s name (r_files (c_reg cf))) as [file|]; [|exact I].
  assert (Hcur : cur st <= N.of_nat (length src)).
  { unfold reg_pos_ok in Hreg. pose proof (forallb_In _ _ _ Hreg Hin) as Ht.
    unfold template_pos_ok in Ht. rewrite Hname, Hsrc in Ht.
    destruct (walk_pos (N.of_nat (length src)) cf fuel (t_node t) Ht _ _ _ Hrun) as [[_ Hc] _].
    apply Hc. cbn. lia. }
  unfold line_number. destruct (N.leb_spec (cur st) (N.of_nat (length src))); [exact I | lia].
Qed.

Lemma reg_ok_pos reg : reg_ok reg = true -> reg_pos_ok reg = true.
Proof. unfold reg_ok. intros H. apply andb_prop in H as [_ H]. exact H. Qed.

Theorem render_no_escape_lemma cf fuel name data_id data cl bl first_id :
  reg_ok (c_reg cf) = true ->
  no_escape (rr_outcome (render cf fuel name data_id data cl bl first_id)).
Proof. intros H. apply render_no_escape_pos. apply reg_ok_pos. exact H. Qed.
