(* C11, call slots on the Go side: the walker with a message bundle (Model/MsgParts.v walk_b) IS the walker of
   Model/Interp.v on code without {msg} THAT MAY CALL templates, as long as no template of the registry contains a
   {msg} either -- same result, same state, for every fuel, state, bundle and plural selector.  (Proofs/MsgWalkEq.v
   has the call-free case, whose proof needs no hypothesis on the registry.)  Consequence: a translated message
   whose slots resolve to such code -- prints, html tags and {call}s of message-free templates -- is rendered, in the
   translation's order, by the plain walker on the resolved items. *)
From Coq Require Import List Lia Bool.
From Soy Require Import Model.Bytes Model.Num Model.Values Model.Outcome Model.Ast
  Model.Escape Model.Directives Model.Print Generated.Tables Model.Interp Model.MsgParts Spec.MsgCat
  Proofs.InterpLogic Proofs.InterpGuard Proofs.InterpRel Proofs.InterpExtProofs Proofs.MsgWalkEq Proofs.MsgPartsProofs Proofs.MsgCatProofs.
Import ListNotations.
Open Scope N_scope.

(* no {msg} other than the walker's own synthetic message node for the body of a plural case; calls allowed *)
Definition msgfree_c_g (n : node) : bool :=
  match n with
  | NMsg _ id m d _ => (id =? 0) && match m, d with [], [] => true | _, _ => false end
  | _ => true
  end.
Definition msgfree_c (n : node) : bool := deep msgfree_c_g n.

(* no template of the registry contains a {msg} *)
Definition reg_msgfree (cf : cfg) : Prop :=
  forall callee, In callee (r_templates (c_reg cf)) -> msgfree_c (t_node callee) = true.

Section WalkEqCalls.
Variable cf : cfg.
Hypothesis Hreg : reg_msgfree cf.

Lemma deep_c_g n : msgfree_c n = true -> msgfree_c_g n = true.
Proof. unfold msgfree_c. destruct n; cbn [deep]; intro H; apply andb_true_iff in H; apply H. Qed.

Lemma walk_body_same_msgfree_c (w1 w2 : node -> M value) :
  (forall n, msgfree_c n = true -> same (w1 n) (w2 n)) ->
  forall n, msgfree_c n = true -> same (walk_body cf w1 n) (walk_body cf w2 n).
Proof.
  intros Hw n Hn.
  apply (rphi_walk_body cf msgfree_c_g (@same) (@same value) (fun _ _ => True)
           (same_logic_g msgfree_c_g) same_pure_sites (fun _ _ => eq_refl) w1 w2).
  - exact Hw.
  - intros callee Hin. apply Hw. apply Hreg. exact Hin.
  - exact Hn.
Qed.

Variable plural_index : Z -> nat.
Variable bd : bundle.

Lemma walk_body_b_msgfree_c w n : msgfree_c_g n = true -> forall st, walk_body_b cf plural_index bd w n st = walk_body cf w n st.
Proof.
  intros Hg st. destruct n; try reflexivity.
  cbn [msgfree_c_g] in Hg. apply andb_true_iff in Hg. destruct Hg as [Hid _]. apply N.eqb_eq in Hid. subst.
  reflexivity.
Qed.

(* on message-free code, calls included, over a message-free registry: the walker with a bundle is the walker *)
Theorem walk_b_is_walk_calls : forall fuel n, msgfree_c n = true ->
  forall st, walk_b cf plural_index bd fuel n st = walk cf fuel n st.
Proof.
  induction fuel as [|f IH]; intros n Hn st; [reflexivity|].
  cbn [walk_b walk]. rewrite walk_body_b_msgfree_c by (apply deep_c_g; exact Hn).
  apply (walk_body_same_msgfree_c (walk_b cf plural_index bd f) (walk cf f)); [|exact Hn].
  intros n' Hn' st'. apply IH. exact Hn'.
Qed.

(* the slots of an item list are message-free code *)
Definition slots_msgfree (tr : list titem) : Prop :=
  Forall (fun i => match i with TPh _ _ body => msgfree_c body = true | TText _ => True end) tr.

Lemma run_items_walk_b fuel : forall tr, slots_msgfree tr ->
  forall st, run_items (walk_b cf plural_index bd fuel) tr st = run_items (walk cf fuel) tr st.
Proof.
  induction tr as [|i tr IH]; intros H st; [reflexivity|].
  inversion H as [|? ? Hi Htr]; subst. destruct i as [t|p name body]; cbn [run_items].
  - apply mbind_ext. intros x s. apply IH. exact Htr.
  - unfold mbind. rewrite walk_b_is_walk_calls by exact Hi.
    destruct (walk cf fuel body st) as [[v|e|e| | | ] s]; try reflexivity. apply IH. exact Htr.
Qed.

(* A TRANSLATED MESSAGE WITH CALL SLOTS, Go side: soyhtml's evalMsg with the catalogue entry tr, under the walker with
   the bundle, is the PLAIN walker of Model/Interp.v run over the translation's items -- every text segment where the
   translation puts it, every slot filled by walking the first placeholder of the message that carries the slot's
   name, be it a print, an html tag or a {call} of a template (any depth of further calls) *)
Theorem translation_plain_walker fuel mp id body tr :
  forallb flat_node body = true -> items_named body tr -> parts_clean (map item_part tr) ->
  bundle_message bd id = Some (new_message [] [msgstr_of tr]) ->
  slots_msgfree (map (resolve body) tr) ->
  forall st, eval_msg plural_index bd (walk_b cf plural_index bd fuel) mp id body st
             = run_items (walk cf fuel) (map (resolve body) tr) st.
Proof.
  intros Hflat Hnamed Hclean Hb Hslots st.
  rewrite (translation_places_values plural_index bd (walk_b cf plural_index bd fuel) mp id body tr Hflat Hnamed Hclean Hb).
  apply run_items_walk_b. exact Hslots.
Qed.

End WalkEqCalls.
