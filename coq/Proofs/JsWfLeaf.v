(* C14, token grammar, bytes: the byte lexer on the rendering of ONE chunk -- a text, a name, a number, a string
   literal -- followed by anything the grammar accepts next. *)
From Soy Require Import Model.Bytes Model.Utf8 Model.JsEscape Model.JsGen Spec.JsSyntax Spec.JsShape.
From Soy Require Import Proofs.JsWfSplitBase Proofs.JsWfSplitNum Proofs.JsWfSplit Proofs.JsWfTail Proofs.JsWfStr.
From Coq Require Import ZifyBool ZifyNat ZifyN Lia.
Open Scope N_scope.

(* ---- classes of the last byte ---- *)
Lemma ident_not_open a : is_ident_part a = true -> open_punct a = false /\ (is_space a || (a =? 168) || (a =? 169)) = false.
Proof.
  unfold is_ident_part, is_ident_start, is_digit, is_space, open_punct. cbn [existsb]. intro H. split; lia.
Qed.
Lemma tail_okb_word a li m' : is_ident_part a = true -> word_free m' = true -> (li = true -> dot_free m' = true) -> tail_okb a li m' = true.
Proof.
  intros Ha W D. destruct (ident_not_open a Ha) as [O Sp]. unfold tail_okb. rewrite Ha, W, O, Sp. cbn [negb orb andb].
  destruct li; [rewrite D by reflexivity|]; reflexivity.
Qed.

(* ---- one text ---- *)
Lemma text_leaf md t ts m' rest : lex_text 0 LNormal t = Some (ts, LNormal) -> tail_ok t ts m' -> cont_ok md m' rest ->
  lex_text 0 LNormal (t ++ rest) = option_map (fun '(t0, m0) => (ts ++ t0, m0)) (lex_text 0 LNormal rest).
Proof.
  intros L T C. destruct rest as [|b r'].
  - rewrite app_nil_r, L. cbn. rewrite app_nil_r. reflexivity.
  - apply lex_split; [exact L|]. eapply sep_from_tail; eassumption.
Qed.

(* ---- identifiers and dotted names ---- *)
Lemma ident_bytes x : ident_ok x = true -> lex_text 0 LNormal x = Some ([tok_of_ident x], LNormal).
Proof.
  destruct x as [|c r]; [discriminate|]. cbn [ident_ok]. intro H. apply andb_prop in H. destruct H as [H1 H2].
  assert (Hp : is_ident_part c = true) by (unfold is_ident_part; rewrite H1; reflexivity).
  destruct (ident_not_space c Hp) as [E1 E2]. cbn [lex_text]. rewrite E1, E2, H1.
  rewrite (forallb_span_all _ _ H2), take_all, lex_skip_all. reflexivity.
Qed.
Lemma ident_ok_last x : ident_ok x = true -> x <> [] /\ is_ident_part (last x 0) = true.
Proof.
  destruct x as [|c r]; [discriminate|]. cbn [ident_ok]. intro H. apply andb_prop in H. destruct H as [H1 H2]. split; [discriminate|].
  apply last_forallb; [discriminate|]. cbn [forallb]. rewrite H2. unfold is_ident_part. rewrite H1. reflexivity.
Qed.

Lemma sepP_ident_dot p r' : p <> [] -> is_ident_part (last p 0) = true -> sepP p false (46 :: r').
Proof.
  intros Hp Ha. destruct p as [|c0 p0]; [congruence|]. unfold sepP. destruct (ident_not_open _ Ha) as [O Sp].
  split; [intros _; reflexivity|]. split; [discriminate|]. split; [intro E; rewrite E in Ha; discriminate Ha|]. split.
  - destruct (glue (last (c0 :: p0) 0) 46) eqn:G; [|reflexivity]. destruct (glue_cases _ _ G) as (Ho & _). congruence.
  - intros H. exfalso. apply orb_false_elim in Sp. destruct Sp as [Sp S3]. apply orb_false_elim in Sp. destruct Sp as [S1 S2].
    destruct H as [H|[H|H]]; [congruence|rewrite H in S2; discriminate|rewrite H in S3; discriminate].
Qed.
Lemma sepP_dot_ident c r' : is_ident_start c = true -> sepP [46] false (c :: r').
Proof.
  intro Hc. unfold sepP. cbn [last]. split; [discriminate|]. split; [discriminate|].
  split; [intros _; unfold is_ident_start, is_digit in *; lia|]. split.
  - destruct (glue 46 c) eqn:G; [|reflexivity]. destruct (glue_cases _ _ G) as (_ & G46 & _). rewrite (G46 eq_refl) in Hc. discriminate.
  - intros [H|[H|H]]; discriminate.
Qed.

Lemma split_dots_ne s : forall cur, split_dots cur s <> [].
Proof. induction s as [|c r IH]; intro cur; cbn [split_dots]; [discriminate|]. destruct (c =? 46); [discriminate|apply IH]. Qed.
Lemma join_split s : forall cur, join_dots (split_dots cur s) = rev cur ++ s.
Proof.
  induction s as [|c r IH]; intro cur; cbn [split_dots].
  - cbn. rewrite app_nil_r. reflexivity.
  - destruct (c =? 46) eqn:E.
    + apply N.eqb_eq in E. subst c. specialize (IH []). cbn [rev app] in IH.
      destruct (split_dots [] r) as [|q l] eqn:Es; [exfalso; exact (split_dots_ne r [] Es)|].
      change (join_dots (rev cur :: q :: l)) with (rev cur ++ [46] ++ join_dots (q :: l)). rewrite IH. reflexivity.
    + rewrite IH. cbn [rev]. rewrite <- app_assoc. reflexivity.
Qed.
Lemma last_app_cons (p : bstr) x l d : last (p ++ x :: l) d = last (x :: l) d.
Proof. induction p as [|c p IH]; [reflexivity|]. cbn [app]. rewrite last_cons_ne by (destruct p; discriminate). exact IH. Qed.

Lemma lastint_ident p : lastint [tok_of_ident p] = false.
Proof. unfold lastint. cbn [last]. unfold tok_of_ident. destruct (assoc_s p kw_table); reflexivity. Qed.
Lemma lex_join parts : parts <> [] -> forallb ident_ok parts = true ->
  lex_text 0 LNormal (join_dots parts) = Some (name_tokens parts, LNormal)
  /\ join_dots parts <> [] /\ is_ident_part (last (join_dots parts) 0) = true /\ lastint (name_tokens parts) = false
  /\ is_ident_start (hd 0 (join_dots parts)) = true.
Proof.
  induction parts as [|p l IH]; [congruence|]. intros _ H. cbn [forallb] in H. apply andb_prop in H. destruct H as [Hp Hl].
  destruct (ident_ok_last p Hp) as [Pn Pl].
  assert (Ph : is_ident_start (hd 0 p) = true) by (destruct p; [discriminate|]; cbn in Hp; apply andb_prop in Hp; apply Hp).
  destruct l as [|q r].
  - cbn [join_dots name_tokens]. split; [apply ident_bytes; exact Hp|]. split; [exact Pn|]. split; [exact Pl|]. split; [|exact Ph].
    apply lastint_ident.
  - destruct (IH ltac:(discriminate) Hl) as (L & Jn & Jl & Ji & Jh). set (J := join_dots (q :: r)) in *.
    change (join_dots (p :: q :: r)) with (p ++ [46] ++ J). change (name_tokens (p :: q :: r)) with (tok_of_ident p :: TP PDot :: name_tokens (q :: r)).
    destruct J as [|c J'] eqn:EJ; [congruence|]. cbn [hd] in Jh. cbn [app].
    split.
    + rewrite (lex_split 46 (c :: J') p 0 LNormal [tok_of_ident p]); [|apply ident_bytes; exact Hp|].
      2:{ rewrite lastint_ident. apply sepP_ident_dot; assumption. }
      change (46 :: c :: J') with ([46] ++ c :: J').
      rewrite (lex_split c J' [46] 0 LNormal [TP PDot]); [|vm_compute; reflexivity|].
      2:{ apply sepP_dot_ident. exact Jh. }
      rewrite L. reflexivity.
    + split; [destruct p; discriminate|]. split; [rewrite last_app_cons; rewrite last_cons_ne by discriminate; exact Jl|].
      split.
      * unfold lastint in *. rewrite !last_cons_ne; [exact Ji| |discriminate].
        destruct r; cbn [name_tokens]; discriminate.
      * destruct p; [congruence|exact Ph].
Qed.

Lemma name_bytes x ts : lex_name x = Some ts ->
  lex_text 0 LNormal x = Some (ts, LNormal) /\ x <> [] /\ is_ident_part (last x 0) = true /\ lastint ts = false.
Proof.
  unfold lex_name. destruct (forallb ident_ok (split_dots [] x)) eqn:E; [|discriminate]. intro H. injection H as <-.
  destruct (lex_join _ (split_dots_ne x []) E) as (L & Jn & Jl & Ji & _). rewrite join_split in *. cbn [rev app] in *. auto.
Qed.

(* ---- numbers ---- *)
Lemma unsigned_bytes x : unsigned_num_ok x = true -> lex_text 0 LNormal x = Some ([TNum x], LNormal).
Proof.
  destruct x as [|c r]; [discriminate|]. unfold unsigned_num_ok. intro H. apply andb_prop in H. destruct H as [Hd Hn].
  destruct (num_span (c :: r)) as [n|] eqn:En; [|discriminate]. apply Nat.eqb_eq in Hn. subst n.
  destruct (ident_not_space c (digit_ident _ Hd)) as [E1 E2].
  assert (E3 : is_ident_start c = false) by (unfold is_ident_start, is_digit in *; lia).
  cbn [lex_text]. rewrite E1, E2, E3, Hd, En. cbn [length]. rewrite lex_skip_all. cbn [option_map].
  change (take (S (length r)) (c :: r)) with (take (length (c :: r)) (c :: r)). rewrite take_all. reflexivity.
Qed.
Lemma glue_digit a c : is_digit c = true -> glue a c = false.
Proof.
  intro Hd. destruct (glue a c) eqn:G; [|reflexivity]. exfalso. apply glue_pairs in G. unfold all_pairs in G. cbn [In] in G.
  repeat (destruct G as [G|G]; [injection G as <- <-; discriminate Hd|]). contradiction.
Qed.
Lemma num_bytes x ts : lex_num x = Some ts -> lex_text 0 LNormal x = Some (ts, LNormal).
Proof.
  unfold lex_num. destruct x as [|c r]; [discriminate|]. destruct (c =? 45) eqn:E.
  - apply N.eqb_eq in E. subst c. destruct (unsigned_num_ok r) eqn:U; [|discriminate]. intro H. injection H as <-.
    destruct r as [|d r0]; [discriminate U|]. change (45 :: d :: r0) with ([45] ++ d :: r0).
    assert (Hd : is_digit d = true) by (unfold unsigned_num_ok in U; apply andb_prop in U; apply U).
    rewrite (lex_split d r0 [45] 0 LNormal [TP PMinus]); [|vm_compute; reflexivity|].
    + rewrite unsigned_bytes by exact U. reflexivity.
    + unfold sepP. cbn [last]. split; [discriminate|]. split; [discriminate|]. split; [discriminate|].
      split; [apply glue_digit; exact Hd|]. intros [H|[H|H]]; discriminate.
  - assert (Hm : match c :: r with 45 :: r1 => if unsigned_num_ok r1 then Some [TP PMinus; TNum r1] else None
                 | _ => if unsigned_num_ok (c :: r) then Some [TNum (c :: r)] else None end
                 = if unsigned_num_ok (c :: r) then Some [TNum (c :: r)] else None).
    { destruct c as [|p]; [reflexivity|]. repeat (destruct p as [p|p|]; try reflexivity). discriminate E. }
    rewrite Hm. destruct (unsigned_num_ok (c :: r)) eqn:U; [|discriminate]. intro H. injection H as <-. apply unsigned_bytes. exact U.
Qed.

(* ---- token equality ---- *)
Lemma bstr_eqb_eq x : forall y, bstr_eqb x y = true -> x = y.
Proof.
  induction x as [|a x IH]; destruct y as [|c y]; cbn; intro H; try discriminate; auto.
  apply andb_prop in H. destruct H as [H1 H2]. apply N.eqb_eq in H1. subst. f_equal. auto.
Qed.
Lemma tok_eqb_eq a : forall c, tok_eqb a c = true -> a = c.
Proof.
  induction a as [x|k x|x| |p|t IH]; destruct c as [y|k' y|y| |q|t']; cbn [tok_eqb]; intro H; try discriminate.
  - f_equal. apply bstr_eqb_eq. exact H.
  - apply andb_prop in H. destruct H as [H1 H2]. apply bstr_eqb_eq in H2. subst. destruct k, k'; try discriminate H1; reflexivity.
  - f_equal. apply bstr_eqb_eq. exact H.
  - reflexivity.
  - f_equal. destruct p, q; try discriminate H; try reflexivity. cbn in H. apply bstr_eqb_eq in H. subst. reflexivity.
  - f_equal. apply IH. exact H.
Qed.
Lemma toks_eqb_eq a : forall c, toks_eqb a c = true -> a = c.
Proof.
  induction a as [|x a IH]; destruct c as [|y c]; cbn; intro H; try discriminate; auto.
  apply andb_prop in H. destruct H as [H1 H2]. apply tok_eqb_eq in H1. subst. f_equal. auto.
Qed.
