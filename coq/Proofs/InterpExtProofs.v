(* The extended walker of Model/InterpExt.v (installed functions and print directives as arbitrary Gallina
   functions of their arguments):
   (A) the generic induction principle of Proofs/InterpLogic.v carries over: a predicate on computations closed
       under [walker_logic] holds of [walk_x], provided the results of the installed functions are acceptable to
       [lift] ([walk_logic_x]); so does the invariant principle ([inv_walk_x]);
   (B) without installed entries the extended walker IS the walker ([walk_x_no_ext], by the relational principle
       of Proofs/InterpRel.v with "the same run" as the relation);
   (C) C08 over configurations with installed functions and directives: no render writes through the caller's
       maps, a render leaves what renders share as it found it, the result of a render is independent of the history
       before it. *)
From Soy Require Import Model.Bytes Model.Num Model.Values Model.Outcome Model.Ast
  Model.Escape Model.Directives Model.Print Generated.Tables Model.Interp Model.InterpExt Model.History
  Proofs.InterpLogic Proofs.InterpGuard Proofs.InterpRel Proofs.PurityProofs.
Require Import Lia.
Open Scope N_scope.

(* ------------------------------------------------------------------ *)
(* (A) the generic principle *)

Section GenericX.
Variable cf : cfg.
Variable ux : user_ext.
Variable Phi : forall A : Type, M A -> Prop.
Arguments Phi {A} _.
Variable pure_ok : forall A : Type, outcome A -> Prop.
Arguments pure_ok {A} _.

Hypothesis L : walker_logic (@Phi) (@pure_ok).
Hypothesis PS : pure_sites (@pure_ok).
(* what an installed function returns, and what the installed directives make of a value, is acceptable *)
Hypothesis PU_func : forall name ar f vs, ux_func ux name = Some (ar, f) -> pure_ok (f vs).
Hypothesis PU_print : forall m ds v, pure_ok (print_writes_x ux m ds v).
Hypothesis PU_dirs : forall ds v esc, pure_ok (apply_directives_x ux ds v esc).

Ltac phi_bind := apply (wl_bind _ _ L); [ | intro ].
Ltac phi_leaf :=
  first [ apply (wl_ret _ _ L) | apply (wl_fail _ _ L) | apply (wl_write _ _ L) | apply (wl_set _ _ L)
        | apply (wl_lookup _ _ L) | apply (wl_fresh_list _ _ L) | apply (wl_fresh_list_or_nil _ _ L)
        | apply (wl_fresh_map _ _ L) | apply (wl_set_cur _ _ L) | apply (wl_template_mode _ _ L) ].

Section BodyX.
Variable w : node -> M value.
Hypothesis Hw : forall n, Phi (w n).

Lemma phi_print_dirs_x l : forall v, Phi (print_dirs_x cf ux w l v).
Proof.
  induction l as [|d r IH]; intros v; cbn [print_dirs_x]; [phi_leaf|].
  destruct d; try phi_leaf.
  destruct (dir_entry_x ux name) as [[arglens ?]|]; [|phi_leaf].
  destruct (negb _); [phi_leaf|].
  phi_bind; [apply (phi_eval_list _ _ L w Hw)|]. phi_bind; [apply (wl_lift _ _ L); apply PU_dirs|].
  phi_bind; [apply IH|]. phi_leaf.
Qed.

Lemma phi_print_x arg dirs : Phi (print_x cf ux w arg dirs).
Proof.
  unfold print_x. phi_bind; [apply Hw|].
  destruct x; try phi_leaf;
    (phi_bind; [apply phi_print_dirs_x|];
     phi_bind;
     [ match goal with
       | |- Phi (st <-- get ;;; lift (print_writes_x _ (mode st) ?ds ?v)) =>
           apply (wl_read_mode _ _ L _ (fun m => lift (print_writes_x ux m ds v)));
           intro; apply (wl_lift _ _ L); apply PU_print
       end
     | phi_bind; [apply (phi_write_all _ _ L) | phi_leaf] ]).
Qed.

Lemma phi_msg_part mb body : forall part, Phi (msg_part w mb body part).
Proof.
  fix IH 1. intros part. destruct part; cbn [msg_part]; try phi_leaf.
  - (* NMsgPlural *)
    destruct (find_plural_value _ _) as [pv|]; [|phi_leaf].
    phi_bind; [apply (phi_eval _ _ L w Hw)|].
    destruct x; try phi_leaf.
    match goal with
    | |- Phi (match nth_error ?rs ?k with _ => _ end) =>
        assert (Hruns : forall j m, nth_error rs j = Some (Some m) -> Phi m);
        [ | destruct (nth_error rs k) as [[m|]|] eqn:Hn; [eapply Hruns; exact Hn | phi_leaf | phi_leaf] ]
    end.
    induction cases as [|c r IHr]; intros j m Hj.
    + destruct j; discriminate.
    + destruct j as [|j]; cbn [map nth_error] in Hj.
      * destruct c; try discriminate. inversion Hj; subst m. clear Hj.
        match goal with
        | |- Phi ((fix go (l : list node) {struct l} : M unit := _) ?l) => induction l as [|x0 r0 IHr0]
        end; [phi_leaf|]. phi_bind; [apply IH | exact IHr0].
      * eapply IHr. exact Hj.
  - (* NIdent *)
    destruct (msg_placeholder _ _) as [ph|]; [|phi_leaf]. phi_bind; [apply Hw | phi_leaf].
Qed.

Lemma phi_msg_parts mb body parts : Phi (msg_parts w mb body parts).
Proof.
  induction parts as [|x r IH]; cbn [msg_parts]; [phi_leaf|].
  phi_bind; [apply phi_msg_part | exact IH].
Qed.

Lemma phi_call_func_x ar f args : (forall vs, pure_ok (f vs)) -> Phi (call_func_x w ar f args).
Proof.
  intros Hf. unfold call_func_x. destruct (negb _); [phi_leaf|].
  phi_bind; [apply (phi_eval_list _ _ L w Hw)|].
  phi_bind; [apply (wl_lift _ _ L); apply Hf|].
  destruct x0; phi_leaf.
Qed.

Lemma phi_walk_body_x n : Phi (walk_body_x cf ux w n).
Proof.
  destruct n; try apply (phi_walk_body cf _ _ L PS w Hw); cbn [walk_body_x].
  - (* NFunc *)
    destruct (_ || _ || _); [apply (phi_walk_body cf _ _ L PS w Hw)|].
    destruct (ux_func ux name) as [[ar f]|] eqn:Hu; [|apply (phi_walk_body cf _ _ L PS w Hw)].
    phi_bind; [phi_leaf|]. apply phi_call_func_x. intros vs. eapply PU_func. exact Hu.
  - (* NPrint *)
    destruct (print_uses_installed cf ux dirs); [|apply (phi_walk_body cf _ _ L PS w Hw)].
    phi_bind; [phi_leaf|]. apply phi_print_x.
  - (* NMsg *)
    destruct (msg_translation cf id) as [[mb parts]|]; [|apply (phi_walk_body cf _ _ L PS w Hw)].
    phi_bind; [phi_leaf|]. phi_bind; [apply phi_msg_parts | phi_leaf].
Qed.
End BodyX.

Theorem walk_logic_x : forall fuel n, Phi (walk_x cf ux fuel n).
Proof.
  induction fuel as [|f IH]; intros n; cbn [walk_x].
  - apply (wl_lift _ _ L). apply (ps_fuel _ PS).
  - apply phi_walk_body_x. exact IH.
Qed.
End GenericX.

(* the invariant form, with every fault allowed: nothing is asked of the installed entries *)
Theorem inv_walk_x I R E (C : inv_conditions I R E (fun _ => True)) cf ux :
  forall fuel n, inv_spec I R E (fun _ => True) (walk_x cf ux fuel n).
Proof.
  apply (walk_logic_x cf ux _ _ (inv_logic I R E (fun _ => True) C) pure_sites_any).
  - intros name ar f vs _. unfold inv_pure_ok. destruct (classify (f vs)); exact Logic.I.
  - intros m ds v. unfold inv_pure_ok. destruct (classify _); exact Logic.I.
  - intros ds v esc. unfold inv_pure_ok. destruct (classify _); exact Logic.I.
Qed.

(* ------------------------------------------------------------------ *)
(* (B) conservativity *)

Definition same {A} (m1 m2 : M A) : Prop := forall st, m1 st = m2 st.

Lemma same_refl {A} (m : M A) : same m m.
Proof. intros st. reflexivity. Qed.

Lemma same_bind {A B} (m1 m2 : M A) (f1 f2 : A -> M B) :
  same m1 m2 -> (forall x, same (f1 x) (f2 x)) -> same (mbind m1 f1) (mbind m2 f2).
Proof.
  intros Hm Hf st. unfold mbind. rewrite (Hm st).
  destruct (m2 st) as [[x|e|e| | | ] s]; try reflexivity. apply Hf.
Qed.

Lemma same_logic : walker_logic_r (fun _ => true) (@same) (@same value) (fun _ _ => True).
Proof.
  constructor; intros; try apply same_refl.
  - intros st. rewrite <- H, <- H0. apply H1.
  - apply same_bind; assumption.
  - intros st. apply (H (mode st) st).
  - intros st. apply (H (ctx st) st).
  - apply same_bind; [apply same_refl|]. intros _.
    apply same_bind; [assumption|]. intros _. apply same_refl.
  - intros st. rewrite !eval_eq, (H st). reflexivity.
  - intros st. rewrite !render_block_eq, (H (buf_pushed st)). reflexivity.
  - intros st. rewrite !call_enter_eq. cbn zeta. rewrite (H (entered st callee cd)). reflexivity.
Qed.

Lemma same_pure_sites : pure_sites (fun _ _ => True).
Proof. constructor; intros; exact Logic.I. Qed.

(* the guard "every node" *)
Lemma deep_all : forall n, deep (fun _ => true) n = true.
Proof.
  fix IH 1. intros n.
  destruct n; cbn [deep andb deep_opt]; try reflexivity;
    repeat match goal with
    | |- context [deep (fun _ => true) ?x] => rewrite (IH x)
    end; cbn [andb];
    repeat match goal with
    | |- context [deep_opt _ ?o] => destruct o; cbn [deep_opt]; [rewrite IH|]; cbn [andb]
    end;
    repeat (apply andb_true_intro; split);
    try reflexivity;
    try match goal with
    | |- forallb (deep _) ?l = true =>
        induction l as [|a r IHr]; [reflexivity | cbn [forallb]; rewrite (IH a), IHr; reflexivity]
    | |- forallb (fun kv => deep _ (snd kv)) ?l = true =>
        induction l as [|[k e] r IHr]; [reflexivity | cbn [forallb snd]; rewrite (IH e), IHr; reflexivity]
    end.
Qed.

(* [walk_body] depends on the recursive call only through its runs *)
Lemma walk_body_same cf (w1 w2 : node -> M value) :
  (forall n, same (w1 n) (w2 n)) -> forall n, same (walk_body cf w1 n) (walk_body cf w2 n).
Proof.
  intros Hw n.
  apply (rphi_walk_body cf (fun _ => true) (@same) (@same value) (fun _ _ => True)
           same_logic same_pure_sites (fun _ _ => eq_refl) w1 w2).
  - intros c _. apply Hw.
  - intros callee _. apply Hw.
  - apply deep_all.
Qed.

Lemma existsb_none {A} (l : list A) : existsb (fun _ => false) l = false.
Proof. induction l as [|a r IH]; [reflexivity | exact IH]. Qed.

Lemma walk_body_x_no_ext cf w n : c_msgs cf = None -> walk_body_x cf no_ext w n = walk_body cf w n.
Proof.
  intros Hm. destruct n; try reflexivity; cbn [walk_body_x].
  - destruct (_ || _ || _); reflexivity.
  - unfold print_uses_installed, is_installed_dir. cbn [no_ext ux_dir]. rewrite existsb_none. reflexivity.
  - unfold msg_translation. rewrite Hm. destruct (id =? 0); reflexivity.
Qed.

(* with nothing installed and no message bundle the extended walker is the walker of Model/Interp.v, on every node,
   fuel and state *)
Theorem walk_x_no_ext cf : c_msgs cf = None -> forall fuel n st, walk_x cf no_ext fuel n st = walk cf fuel n st.
Proof.
  intros Hm. induction fuel as [|f IH]; intros n st; [reflexivity|].
  cbn [walk_x walk]. rewrite (walk_body_x_no_ext cf _ n Hm).
  apply (walk_body_same cf (walk_x cf no_ext f) (walk cf f)). intros n' st'. apply IH.
Qed.

Theorem render_x_no_ext cf fuel name id data cl bl fid :
  c_msgs cf = None ->
  render_x cf no_ext fuel name id data cl bl fid = render cf fuel name id data cl bl fid.
Proof.
  intros Hm. unfold render_x, render. destruct (find_template _ name) as [t|]; [|reflexivity].
  rewrite (walk_x_no_ext cf Hm). reflexivity.
Qed.

(* ------------------------------------------------------------------ *)
(* (C) C08 with installed functions and directives *)

Theorem walk_x_no_shared_writes cf ux fuel n st r st' :
  pure_inv st -> walk_x cf ux fuel n st = (r, st') -> shared_writes st' = [].
Proof.
  intros Hi H.
  pose proof (inv_walk_x _ _ _ purity_conditions cf ux fuel n st r st' Hi H) as H1.
  destruct (classify r); [destruct H1 as [[Hs _] _]; exact Hs | destruct H1 as [Hs _]; exact Hs].
Qed.

Theorem render_x_no_shared_writes cf ux fuel name id data cl bl fid :
  rr_shared_writes (render_x cf ux fuel name id data cl bl fid) = [].
Proof.
  unfold render_x. destruct (find_template _ name) as [t|]; [|reflexivity].
  destruct (walk_x cf ux fuel (t_node t) _) as [r st] eqn:Hw.
  apply walk_x_no_shared_writes in Hw; [|split; reflexivity].
  destruct r; cbn [rr_shared_writes]; try exact Hw.
  destruct (assoc_s name (r_sources (c_reg cf))); [|exact Hw].
  destruct (assoc_s name (r_files (c_reg cf))); [|exact Hw].
  destruct (line_number _ _); exact Hw.
Qed.

(* the history machine of Model/History.v over the extended render *)
Section HistoryX.
Variable ux : user_ext.

Definition render_in_x (wd : world) (sh : shared) (rq : request) : render_result :=
  render_x (cfg_of wd sh rq) ux (rq_fuel rq) (rq_name rq) (rq_data rq) (heap_get (sh_heap sh) (rq_data rq))
           (rq_calls_left rq) (rq_bytes_left rq) (rq_first_id rq).

Definition step_x (wd : world) (sh : shared) (rq : request) : render_result * shared :=
  let r := render_in_x wd sh rq in (r, shared_after wd sh rq r).

Fixpoint run_history_x (wd : world) (sh : shared) (h : list request) : list render_result * shared :=
  match h with
  | [] => ([], sh)
  | rq :: rest =>
      let '(r, sh1) := step_x wd sh rq in
      let '(rs, sh2) := run_history_x wd sh1 rest in
      (r :: rs, sh2)
  end.

Theorem shared_preserved_x wd sh rq : repaired wd -> snd (step_x wd sh rq) = sh.
Proof.
  intros Hv. unfold step_x, shared_after. cbn [snd]. destruct sh as [reg heap]. cbn [sh_reg sh_heap]. f_equal.
  - apply map_registry_id. intros n. apply map_prints_fid. intros p d. rewrite Hv.
    change (dirs_after_print Repaired (w_oblig wd) p) with (fun d : list node => d). apply iter_id.
  - unfold render_in_x. rewrite render_x_no_shared_writes. apply map_id_in. intros e _. reflexivity.
Qed.

Lemma run_history_x_shared wd sh h : repaired wd -> snd (run_history_x wd sh h) = sh.
Proof.
  intros Hv. revert sh. induction h as [|rq rest IH]; intros sh; cbn [run_history_x]; [reflexivity|].
  pose proof (shared_preserved_x wd sh rq Hv) as H1. destruct (step_x wd sh rq) as [r sh1]. cbn [snd] in H1. subst sh1.
  specialize (IH sh). destruct (run_history_x wd sh rest) as [rs sh2]. exact IH.
Qed.

Lemma run_history_x_app wd sh h1 h2 :
  fst (run_history_x wd sh (h1 ++ h2)) =
  fst (run_history_x wd sh h1) ++ fst (run_history_x wd (snd (run_history_x wd sh h1)) h2).
Proof.
  revert sh. induction h1 as [|rq rest IH]; intros sh; cbn [run_history_x app]; [reflexivity|].
  destruct (step_x wd sh rq) as [r sh1]. specialize (IH sh1).
  destruct (run_history_x wd sh1 (rest ++ h2)) as [rs sh2]. destruct (run_history_x wd sh1 rest) as [rs' sh2'].
  cbn [fst snd] in *. rewrite IH. reflexivity.
Qed.

Theorem history_independent_x_l wd sh h rq :
  repaired wd ->
  fst (run_history_x wd sh (h ++ [rq])) = fst (run_history_x wd sh h) ++ [render_in_x wd sh rq].
Proof.
  intros Hv. rewrite run_history_x_app, (run_history_x_shared wd sh h Hv). cbn. reflexivity.
Qed.

Theorem history_pointwise_x wd sh h : repaired wd -> fst (run_history_x wd sh h) = map (render_in_x wd sh) h.
Proof.
  intros Hv. revert sh. induction h as [|rq rest IH]; intros sh; cbn [run_history_x map]; [reflexivity|].
  pose proof (shared_preserved_x wd sh rq Hv) as H1. unfold step_x in *. cbn [snd] in H1.
  cbn zeta. rewrite H1. specialize (IH sh). destruct (run_history_x wd sh rest) as [rs sh2]. cbn [fst] in *.
  rewrite IH. reflexivity.
Qed.
End HistoryX.

(* ------------------------------------------------------------------ *)
(* non-vacuity: an installed function and an installed (obligatory) directive at work *)
Definition ux_name_twice := Eval vm_compute in b "twice".
Definition ux_name_bang := Eval vm_compute in b "bang".
Definition ux_wit : user_ext :=
  {| ux_func := fun name => if bstr_eqb name ux_name_twice
                            then Some ([1], fun vs => match vs with [VStr s] => Ok (FVal (VStr (s ++ s))) | _ => Err e_type end)
                            else None;
     ux_dir := fun name => if bstr_eqb name ux_name_bang
                           then Some ([0], (false, fun v _ => match v with VStr s => Ok (VStr (s ++ [33])) | _ => Ok v end))
                           else None |}.
Definition ux_reg : registry :=
  {| r_templates := [{| t_name := wit_name;
                        t_node := NTemplate 0 wit_name (NList 0 [NPrint 4 (NFunc 5 ux_name_twice [NDataRef 6 wit_x []]) []]) 0 false;
                        t_ns_name := b "ns"; t_ns_autoescape := 0; t_params := [(wit_x, false)]; t_file := b "f.soy" |}];
     r_sources := [(wit_name, b "{namespace ns}{template .t}{twice($x)}{/template}")];
     r_files := [(wit_name, b "f.soy")] |}.
Definition ux_shared : shared := {| sh_reg := ux_reg; sh_heap := [(7, [(wit_x, VStr (b "a<"))])] |}.
Definition ux_world : world :=
  {| w_variant := Repaired; w_oblig := [ux_name_bang]; w_msgs := None; w_executions := fun _ _ => 1%nat; w_clobber := fun _ m => m |}.

Lemma ux_witness :
  map (fun r => (is_ok (rr_outcome r), concat_b (rr_writes r))) (fst (run_history_x ux_wit ux_world ux_shared [wit_rq; wit_rq]))
  = [(true, b "a&lt;a&lt;!"); (true, b "a&lt;a&lt;!")].
Proof. vm_compute. reflexivity. Qed.

(* without the installation the same template fails (unknown function): the extension is what makes it render *)
Lemma ux_witness_base :
  is_ok (rr_outcome (render_in ux_world ux_shared wit_rq)) = false.
Proof. vm_compute. reflexivity. Qed.

(* a translated plural message: {msg}{plural $x}{case 1}one{default}{$x} items{/plural}{/msg} through a bundle with two
   forms ("eins" / "{N_2} Stueck"), PluralCase(1) = 0, otherwise 1 *)
Definition tr_n1 := Eval vm_compute in b "N_1".
Definition tr_n2 := Eval vm_compute in b "N_2".
Definition tr_msg : node :=
  NMsg 4 77 [] [] [NMsgPlural 5 tr_n1 (NDataRef 6 wit_x [])
                     [NMsgPluralCase 7 1 [NRawText 8 (b "one")]]
                     [NMsgPlaceholder 9 tr_n2 (NPrint 10 (NDataRef 11 wit_x []) []); NRawText 12 (b " items")]].
Definition tr_bundle : msg_bundle :=
  {| mb_msgs := [(77, [NMsgPlural 0 tr_n1 (NNull 0)
                         [NMsgPluralCase 0 0 [NRawText 0 (b "eins")];
                          NMsgPluralCase 0 0 [NIdent 0 tr_n2; NRawText 0 (b " Stueck")]] []])];
     mb_plural := [(1%Z, 0)]; mb_plural_default := 1 |}.
Definition tr_cfg (msgs : option msg_bundle) : cfg :=
  {| c_reg := {| r_templates := [{| t_name := wit_name; t_node := NTemplate 0 wit_name (NList 0 [tr_msg]) 0 false;
                                    t_ns_name := b "ns"; t_ns_autoescape := 0; t_params := [(wit_x, false)]; t_file := b "f.soy" |}];
                 r_sources := [(wit_name, b "{namespace ns}{template .t}{msg desc=""}{plural $x}{case 1}one{default}{$x} items{/plural}{/msg}{/template}")];
                 r_files := [(wit_name, b "f.soy")] |};
     c_ij := None; c_oblig := []; c_msgs := msgs |}.
Definition tr_run msgs (x : Z) cl := render_x (tr_cfg msgs) no_ext 10 wit_name 7 [(wit_x, VInt x)] cl None 100.

Lemma tr_witness :
  (rr_outcome (tr_run (Some tr_bundle) 3 None), rr_writes (tr_run (Some tr_bundle) 3 None)) = (Ok tt, [b "3"; b " Stueck"]) /\
  (rr_outcome (tr_run (Some tr_bundle) 1 None), rr_writes (tr_run (Some tr_bundle) 1 None)) = (Ok tt, [b "eins"]) /\
  (rr_outcome (tr_run None 3 None), rr_writes (tr_run None 3 None)) = (Ok tt, [b "3"; b " items"]) /\
  (* the text after the last placeholder of the selected form, refused: the render returns the error *)
  (rr_outcome (tr_run (Some tr_bundle) 3 (Some 1%nat)), rr_writes (tr_run (Some tr_bundle) 3 (Some 1%nat))) = (Err e_write, [b "3"]).
Proof. vm_compute. repeat split; reflexivity. Qed.

(* ------------------------------------------------------------------ *)
(* (E) which runs of Renderer.Execute the walker of Model/Interp.v covers.

   [Interp.walk] never reads [c_msgs]: on a {msg} it always takes the source text (walkMsgBody).  So every theorem
   stated about [Interp.walk cf] / [Interp.render cf] (C02, C06, C19 ...) is, for EVERY [cf], a statement about the run
   without a bundle ([walk_ignores_bundle]); and that run is what exec.go does (a) without Renderer.WithMessages and
   (b) with a bundle that has no translation of any message met ([walk_x_untranslated]: evalMsg falls back to the
   source text).  A run that goes THROUGH a translation (evalMsgParts) is described by [walk_x] only: the properties
   proved over [walk_x] (C08, C12: [inv_walk_x], [walk_logic_x]) cover it, the others do not. *)
Definition cfg_no_msgs (cf : cfg) : cfg :=
  {| c_reg := c_reg cf; c_ij := c_ij cf; c_oblig := c_oblig cf; c_msgs := None |}.

Lemma walk_body_no_msgs cf w n : walk_body cf w n = walk_body (cfg_no_msgs cf) w n.
Proof. destruct cf. reflexivity. Qed.

Theorem walk_ignores_bundle cf : forall fuel n st, walk cf fuel n st = walk (cfg_no_msgs cf) fuel n st.
Proof.
  induction fuel as [|f IH]; intros n st; [reflexivity|].
  cbn [walk]. rewrite (walk_body_no_msgs cf).
  apply (walk_body_same (cfg_no_msgs cf) (walk cf f) (walk (cfg_no_msgs cf) f)). intros n' st'. apply IH.
Qed.

Theorem render_ignores_bundle cf fuel name id data cl bl fid :
  render cf fuel name id data cl bl fid = render (cfg_no_msgs cf) fuel name id data cl bl fid.
Proof.
  unfold render. cbn [cfg_no_msgs c_reg]. destruct (find_template _ name) as [t|]; [|reflexivity].
  rewrite (walk_ignores_bundle cf). reflexivity.
Qed.

(* a bundle without a translation of any message: evalMsg's fallback, the walker of Model/Interp.v *)
Definition untranslated (cf : cfg) : Prop := forall id, msg_translation cf id = None.

Lemma untranslated_none cf : c_msgs cf = None -> untranslated cf.
Proof. intros H id. unfold msg_translation. rewrite H. destruct (id =? 0); reflexivity. Qed.
Lemma untranslated_empty cf mb : c_msgs cf = Some mb -> mb_msgs mb = [] -> untranslated cf.
Proof. intros H He id. unfold msg_translation. rewrite H, He. destruct (id =? 0); reflexivity. Qed.

Lemma walk_body_x_untranslated cf w n : untranslated cf -> walk_body_x cf no_ext w n = walk_body cf w n.
Proof.
  intros Hm. destruct n; try reflexivity; cbn [walk_body_x].
  - destruct (_ || _ || _); reflexivity.
  - unfold print_uses_installed, is_installed_dir. cbn [no_ext ux_dir]. rewrite existsb_none. reflexivity.
  - rewrite (Hm id). reflexivity.
Qed.

Theorem walk_x_untranslated cf : untranslated cf -> forall fuel n st, walk_x cf no_ext fuel n st = walk cf fuel n st.
Proof.
  intros Hm. induction fuel as [|f IH]; intros n st; [reflexivity|].
  cbn [walk_x walk]. rewrite (walk_body_x_untranslated cf _ n Hm).
  apply (walk_body_same cf (walk_x cf no_ext f) (walk cf f)). intros n' st'. apply IH.
Qed.

Theorem render_x_untranslated cf fuel name id data cl bl fid :
  untranslated cf ->
  render_x cf no_ext fuel name id data cl bl fid = render cf fuel name id data cl bl fid.
Proof.
  intros Hm. unfold render_x, render. destruct (find_template _ name) as [t|]; [|reflexivity].
  rewrite (walk_x_untranslated cf Hm). reflexivity.
Qed.

(* and the walker of Model/Interp.v is NOT the run through a translation: a bundle whose translation of message 77
   is the text "v" -- [walk_x] writes it, [walk] writes the source text *)
Example translated_run_not_covered :
  let cf := {| c_reg := empty_registry; c_ij := None; c_oblig := [];
               c_msgs := Some {| mb_msgs := [(77, [NRawText 0 [118]])]; mb_plural := []; mb_plural_default := 0 |} |} in
  let n := NMsg 10 77 [] [] [NRawText 11 [120]] in
  let st := init_state [] 1 [] None None 2 in
  out (snd (walk_x cf no_ext 3 n st)) = [[118]] /\ out (snd (walk cf 3 n st)) = [[120]].
Proof. vm_compute. split; reflexivity. Qed.

(* the structural tie of the extended walker (probes of [walk_body_x] against the event lists of exec.go) is an
   obligation of every property that imports this file (required last, as in Proofs/InterpLogic.v) *)
From Soy Require Import Proofs.WalkTieProbesX.
