(* Source tie, family 79-gotrans-soyhtml-scope: soyhtml/scope.go (push, pop, set, lookup, alldata, enter)
   and the loop functions index / isFirst / isLast of soyhtml/funcs.go with the hidden loop names of exec.go, against
   Model/Interp.v's sc_ functions, s_index / s_lastindex and loop_func.

   Representation.  Go's scope is a slice of frames {vars data.Map; entered bool} that grows at the end; the model's is
   a list of frames that grows at the head, whose [f_vars] is an association list kept sorted by map_set, and whose
   [f_origin] is a ghost field (which Go map a frame's vars is).  [scope_rel gs s]: the Go stack is [rev gs], frame by
   frame the entered flags are equal and the maps agree on every key ([assoc_s]).  Every lemma starts from related
   scopes and ends in related scopes, so they compose along any sequence of operations.  The bound on the stack height
   keeps Go's int arithmetic from wrapping. *)
From Coq Require Import ZArith NArith Bool Lia ZifyBool ZifyN List.
From Soy Require Import Model.Bytes Model.Outcome Model.Values Model.Ast Generated.Tables Model.Interp Proofs.SourceTieBase Proofs.SourceTieValue.
From Soy Require Import Proofs.SourceTieState.
Import ListNotations.
Open Scope N_scope.

Notation gframe := (list (bstr * value) * bool)%type.

Definition frame_rel (g : gframe) (f : frame) : Prop :=
  snd g = f_entered f /\ forall k, assoc_s k (fst g) = assoc_s k (f_vars f).

Definition scope_rel (gs : list gframe) (s : scope) : Prop := Forall2 frame_rel gs s.

Lemma scope_rel_length gs s : scope_rel gs s -> length gs = length s.
Proof. induction 1; cbn [length]; congruence. Qed.

(* ---- maps: Go's assignment against the model's sorted insertion ---- *)
Lemma st_assoc_s_go_set_same {A} (m : list (bstr * A)) k v : assoc_s k (go_map_set_s k v m) = Some v.
Proof.
  induction m as [|[k1 v1] r IH]; cbn [go_map_set_s assoc_s]; [now rewrite st_bstr_eqb_refl|].
  destruct (bstr_eqb k k1) eqn:E; cbn [assoc_s]; [now rewrite st_bstr_eqb_refl|]. rewrite E. exact IH.
Qed.

Lemma st_assoc_s_go_set_other {A} (m : list (bstr * A)) k q v :
  bstr_eqb q k = false -> assoc_s q (go_map_set_s k v m) = assoc_s q m.
Proof.
  intros Hq. induction m as [|[k1 v1] r IH]; cbn [go_map_set_s assoc_s]; [now rewrite Hq|].
  destruct (bstr_eqb k k1) eqn:E; cbn [assoc_s].
  - apply st_bstr_eqb_true in E. subst k1. now rewrite Hq.
  - destruct (bstr_eqb q k1); [reflexivity|exact IH].
Qed.

Lemma st_assoc_s_map_set_same m k (v : value) : assoc_s k (map_set m k v) = Some v.
Proof.
  induction m as [|[k1 v1] r IH]; cbn [map_set assoc_s]; [now rewrite st_bstr_eqb_refl|].
  destruct (bstr_eqb k k1) eqn:E; cbn [assoc_s]; [now rewrite st_bstr_eqb_refl|].
  destruct (bstr_ltb k k1); cbn [assoc_s]; [now rewrite st_bstr_eqb_refl | rewrite E; exact IH].
Qed.

Lemma st_assoc_s_map_set_other m k q (v : value) : bstr_eqb q k = false -> assoc_s q (map_set m k v) = assoc_s q m.
Proof.
  intros Hq. induction m as [|[k1 v1] r IH]; cbn [map_set assoc_s]; [now rewrite Hq|].
  destruct (bstr_eqb k k1) eqn:E; cbn [assoc_s].
  - apply st_bstr_eqb_true in E. subst k1. now rewrite Hq.
  - destruct (bstr_ltb k k1); cbn [assoc_s]; [now rewrite Hq|]. destruct (bstr_eqb q k1); [reflexivity|exact IH].
Qed.

Lemma set_rel (g : gframe) (f : frame) k v :
  frame_rel g f ->
  frame_rel (go_map_set_s k v (fst g), snd g)
            {| f_vars := map_set (f_vars f) k v; f_entered := f_entered f; f_origin := f_origin f |}.
Proof.
  intros [He Hm]. split; [exact He|]. intros q. cbn [fst f_vars].
  destruct (bstr_eqb q k) eqn:E.
  - apply st_bstr_eqb_true in E. subst q. now rewrite st_assoc_s_go_set_same, st_assoc_s_map_set_same.
  - rewrite st_assoc_s_go_set_other, st_assoc_s_map_set_other by exact E. apply Hm.
Qed.

(* ---- push / pop / set / enter ---- *)
Theorem sc_push_matches_source gs s :
  scope_rel gs s -> exists gs', src_soyhtml_scope_push value (rev gs) = rev gs' /\ scope_rel gs' (sc_push s).
Proof.
  intros R. exists (([], false) :: gs). split; [reflexivity|].
  constructor; [|exact R]. split; reflexivity.
Qed.

(* pop, set and enter of an empty stack panic in Go; the model's m_set answers Err e_index there, and its sc_pop / sc_enter
   are never reached with an empty stack (a frame is pushed before every pop) *)
Theorem sc_pop_matches_source gs s :
  scope_rel gs s -> st_small (go_len gs) ->
  match s with
  | [] => src_soyhtml_scope_pop value (rev gs) = None
  | _ => exists gs', src_soyhtml_scope_pop value (rev gs) = Some (rev gs') /\ scope_rel gs' (sc_pop s)
  end.
Proof.
  intros R Hs. unfold src_soyhtml_scope_pop. rewrite st_go_len_rev. unfold st_small in Hs. rewrite st_wrap64 by lia.
  destruct R as [|g f gs s Rf R]; [reflexivity|].
  exists gs. rewrite go_slice_l_pop. split; [reflexivity|exact R].
Qed.

Theorem sc_set_matches_source gs s k v :
  scope_rel gs s -> st_small (go_len gs) ->
  match s with
  | [] => src_soyhtml_scope_set value (rev gs) k v = None
  | _ => exists gs', src_soyhtml_scope_set value (rev gs) k v = Some (rev gs') /\ scope_rel gs' (sc_set s k v)
  end.
Proof.
  intros R Hs. unfold src_soyhtml_scope_set. rewrite st_go_len_rev. unfold st_small in Hs. rewrite st_wrap64 by lia.
  destruct R as [|g f gs s Rf R]; [reflexivity|].
  rewrite go_index_top. cbn [go_bind]. rewrite go_set_nth_top. cbn [go_bind].
  destruct g as [m e]. eexists. split; [reflexivity|].
  constructor; [|exact R]. exact (set_rel (m, e) f k v Rf).
Qed.

Theorem sc_enter_matches_source gs s :
  scope_rel gs s -> st_small (go_len gs) ->
  match s with
  | [] => src_soyhtml_scope_enter value (rev gs) = None
  | _ => exists gs', src_soyhtml_scope_enter value (rev gs) = Some (rev gs') /\ scope_rel gs' (sc_enter s)
  end.
Proof.
  intros R Hs. unfold src_soyhtml_scope_enter. rewrite st_go_len_rev. unfold st_small in Hs. rewrite st_wrap64 by lia.
  destruct R as [|g f gs s Rf R]; [reflexivity|].
  rewrite go_index_top. cbn [go_bind]. rewrite go_set_nth_top. cbn [go_bind]. cbv zeta.
  destruct g as [m e]. eexists (([], false) :: (m, true) :: gs). split; [reflexivity|].
  constructor; [split; reflexivity|]. constructor; [|exact R].
  destruct Rf as [_ Hm]. split; [reflexivity|exact Hm].
Qed.

(* ---- lookup ---- *)
Lemma st_nth_error_skipn {A} (i : nat) (s : list A) (f : A) (rest : list A) : skipn i s = f :: rest -> nth_error s i = Some f.
Proof.
  revert s. induction i as [|i IH]; intros [|x s] E; cbn [skipn] in E; try discriminate.
  - now inversion E.
  - cbn [nth_error]. now apply IH.
Qed.

Lemma st_skipn_lt {A} (i : nat) (s : list A) (f : A) (rest : list A) : skipn i s = f :: rest -> (i < length s)%nat.
Proof.
  intros E. assert (length (skipn i s) = S (length rest)) as L by now rewrite E. rewrite skipn_length in L. lia.
Qed.

(* scope.lookup walks the stack from its end: gotrans translates every spelling of that walk as one list loop over
   `rev s` (gotrans_norm.go: revRange), so this is an induction on the model's stack *)
Lemma sc_lookup_loop_matches (k : bstr) (gs : list gframe) (s : scope) :
  scope_rel gs s ->
  src_soyhtml_scope_lookup_loop1 value gs k =
  Some (match sc_lookup s k with Some v => go_ret v | None => go_exit tt end).
Proof.
  intros R. induction R as [|g f gs s Rf R IH]; [reflexivity|].
  cbn [src_soyhtml_scope_lookup_loop1 sc_lookup]. cbv zeta. destruct g as [m e]. destruct Rf as [_ Hm]. cbn [fst] in Hm.
  rewrite Hm. destruct (assoc_s k (f_vars f)) as [v|]; [reflexivity|exact IH].
Qed.

Definition st_lookup_or_undef (s : scope) (k : bstr) : value :=
  match sc_lookup s k with Some v => v | None => VUndef end.

Theorem sc_lookup_matches_source gs s k :
  scope_rel gs s -> st_small (go_len gs) ->
  src_soyhtml_scope_lookup value VUndef (rev gs) k = Some (st_lookup_or_undef s k).
Proof.
  intros R _. unfold src_soyhtml_scope_lookup. cbv zeta. rewrite rev_involutive, (sc_lookup_loop_matches k gs s R).
  unfold st_lookup_or_undef. destruct (sc_lookup s k); reflexivity.
Qed.

(* m_lookup is that, plus the count of unbound names that the hook notifyUnbound feeds in the harness's build *)
Theorem m_lookup_matches_source gs k (st : mstate) :
  scope_rel gs (ctx st) -> st_small (go_len gs) ->
  match src_soyhtml_scope_lookup value VUndef (rev gs) k with
  | Some v => fst (m_lookup k st) = Ok v
  | None => False
  end.
Proof.
  intros R Hs. rewrite (sc_lookup_matches_source gs (ctx st) k R Hs). unfold m_lookup, st_lookup_or_undef.
  destruct (sc_lookup (ctx st) k); reflexivity.
Qed.

(* ---- alldata ---- *)
(* alldata walks the stack from its end and uses the position too (s[:i+1]): gotrans translates every spelling of such a
   walk as ONE list loop over `rev s` with a key that counts from the end (gotrans_norm.go: revRange), the position is
   computed from the key in the body.  The proof follows the MODEL's stack; the upper bound of the slice is whatever
   the source writes, as long as lia sees that it is length - key. *)
Lemma st_slice_rev_skipn {A} (gs : list A) (i : nat) :
  st_small (go_len gs) -> (i <= length gs)%nat ->
  go_slice_l (rev gs) 0%Z (Z.of_nat (length gs - i)) = Some (rev (skipn i gs)).
Proof.
  intros Hs Hi. unfold st_small in Hs. unfold go_slice_l. rewrite st_go_len_rev.
  replace (orb _ _) with false by (unfold go_len in *; lia).
  change (Z.to_nat 0) with O. cbn [skipn]. rewrite Z.sub_0_r, Nat2Z.id.
  rewrite firstn_rev. do 3 f_equal. lia.
Qed.

Ltac st_unwrap64 :=
  repeat match goal with
         | |- context [go_wrap_s 64%Z ?x] => rewrite (st_wrap64 x) by (unfold go_len in *; lia)
         end.

Lemma sc_alldata_loop_matches (gs : list gframe) :
  st_small (go_len gs) ->
  forall (rest : list gframe) (srest : scope) (i : nat),
    skipn i gs = rest -> (i <= length gs)%nat -> scope_rel rest srest ->
    match sc_alldata srest with
    | Some s' => src_soyhtml_scope_alldata_loop1 value rest (rev gs) (Z.of_nat i) =
                 Some (go_ret (rev (skipn (length gs - length s') gs))) /\ scope_rel (skipn (length gs - length s') gs) s'
    | None => src_soyhtml_scope_alldata_loop1 value rest (rev gs) (Z.of_nat i) = Some (go_exit tt)
    end.
Proof.
  intros Hs rest. induction rest as [|g rest IH]; intros srest i E Hi R.
  - inversion R; subst. reflexivity.
  - inversion R as [|g' f rest' srest' Rf R']; subst.
    pose proof (st_skipn_lt _ _ _ _ E) as Hlt.
    pose proof (scope_rel_length _ _ R') as HL.
    assert (length rest = length gs - S i)%nat as Hrest.
    { assert (length (skipn i gs) = S (length rest)) as L by now rewrite E. rewrite skipn_length in L. lia. }
    cbn [sc_alldata]. destruct g as [m e]. destruct Rf as [He Hm]. cbn [snd] in He.
    cbn [src_soyhtml_scope_alldata_loop1]. cbv beta iota zeta. rewrite <- He. rewrite ?st_go_len_rev.
    pose proof Hs as Hs'. unfold st_small in Hs'.
    destruct e.
    + st_unwrap64.
      match goal with |- context [go_slice_l _ 0%Z ?hi] =>
        replace hi with (Z.of_nat (length gs - i)) by (unfold go_len in *; lia) end.
      rewrite (st_slice_rev_skipn gs i Hs) by lia. cbn [go_bind length].
      replace (length gs - S (length srest'))%nat with i by lia.
      split; [reflexivity|]. rewrite E. constructor; [split; [exact He|exact Hm]|exact R'].
    + specialize (IH srest' (S i) (st_skipn_S _ _ _ _ E) ltac:(lia) R').
      replace (Z.of_nat i + 1)%Z with (Z.of_nat (S i)) by lia. exact IH.
Qed.

Theorem sc_alldata_matches_source gs s :
  scope_rel gs s -> st_small (go_len gs) ->
  match sc_alldata s with
  | Some s' => exists gs', src_soyhtml_scope_alldata value (rev gs) = Some (rev gs') /\ scope_rel gs' s'
  | None => src_soyhtml_scope_alldata value (rev gs) = None          (* panic("impossible") *)
  end.
Proof.
  intros R Hs. unfold src_soyhtml_scope_alldata. cbv zeta. rewrite rev_involutive.
  pose proof (sc_alldata_loop_matches gs Hs gs s 0%nat eq_refl ltac:(lia) R) as H.
  change (Z.of_nat 0) with 0%Z in H.
  destruct (sc_alldata s) as [s'|].
  - destruct H as [H R']. rewrite H. eexists. split; [reflexivity|exact R'].
  - rewrite H. reflexivity.
Qed.

(* ---- the hidden loop names, and the loop functions ---- *)
Theorem s_index_matches_source (v : bstr) : v ++ s_index = src_soyhtml_state_walk_keyInd v.
Proof. reflexivity. Qed.
Theorem s_lastindex_matches_source (v : bstr) : v ++ s_lastindex = src_soyhtml_state_walk_keyLast v.
Proof. reflexivity. Qed.

Definition st_as_int (v : value) : option Z := match v with VInt i => Some i | _ => None end.

(* funcIndex / funcIsFirst / funcIsLast on related scopes; [None] is the failed type assertion (a panic that
   evalFunc's recover turns into the error loop_func reports as e_type) *)
Theorem loop_func_matches_source gs (st : mstate) (p : N) (key : bstr) (x : list node) (rest : list node) :
  scope_rel gs (ctx st) -> st_small (go_len gs) ->
  fst (loop_func n_index (NDataRef p key x :: rest) st) =
    match src_soyhtml_funcIndex value VUndef (rev gs) key with Some v => Ok v | None => Err e_type end /\
  fst (loop_func n_isFirst (NDataRef p key x :: rest) st) =
    match src_soyhtml_funcIsFirst value VUndef VBool st_as_int (rev gs) key with Some v => Ok v | None => Err e_type end /\
  fst (loop_func n_isLast (NDataRef p key x :: rest) st) =
    match src_soyhtml_funcIsLast value VUndef VBool st_as_int (rev gs) key with Some v => Ok v | None => Err e_type end.
Proof.
  intros R Hs.
  unfold src_soyhtml_funcIndex, src_soyhtml_funcIsFirst, src_soyhtml_funcIsLast.
  fold (src_soyhtml_state_walk_keyInd key). fold (src_soyhtml_state_walk_keyLast key).
  rewrite <- s_index_matches_source, <- s_lastindex_matches_source.
  rewrite !(sc_lookup_matches_source gs (ctx st) _ R Hs). cbn [go_bind].
  unfold loop_func, mbind, m_lookup, st_lookup_or_undef.
  change (fn_is n_index n_index) with true. change (fn_is n_isFirst n_index) with false.
  change (fn_is n_isLast n_index) with false. change (fn_is n_isFirst n_isFirst) with true.
  change (fn_is n_isLast n_isFirst) with false. cbv iota.
  repeat split.
  - destruct (sc_lookup (ctx st) (key ++ s_index)); reflexivity.
  - destruct (sc_lookup (ctx st) (key ++ s_index)) as [[]|]; reflexivity.
  - destruct (sc_lookup (ctx st) (key ++ s_index)) as [[]|] eqn:E1; cbn [st_as_int go_bind fst]; try reflexivity.
    all: cbn [ctx]; destruct (sc_lookup (ctx st) (key ++ s_lastindex)) as [[]|] eqn:E2; cbn [st_as_int go_bind fst]; reflexivity.
Qed.

(* ---- the same on the interpreter's state: m_push / m_pop / m_set (Model/Interp.v) keep the scopes related ---- *)
Theorem m_push_matches_source gs (st : mstate) :
  scope_rel gs (ctx st) ->
  exists gs', src_soyhtml_scope_push value (rev gs) = rev gs' /\
              fst (m_push st) = Ok tt /\ scope_rel gs' (ctx (snd (m_push st))).
Proof.
  intros R. destruct (sc_push_matches_source gs (ctx st) R) as (gs' & E & R').
  exists gs'. split; [exact E|]. split; [reflexivity|exact R'].
Qed.

Theorem m_pop_matches_source gs (st : mstate) :
  scope_rel gs (ctx st) -> st_small (go_len gs) -> ctx st <> [] ->
  exists gs', src_soyhtml_scope_pop value (rev gs) = Some (rev gs') /\
              fst (m_pop st) = Ok tt /\ scope_rel gs' (ctx (snd (m_pop st))).
Proof.
  intros R Hs Hne. pose proof (sc_pop_matches_source gs (ctx st) R Hs) as H.
  destruct (ctx st) as [|f r] eqn:E; [congruence|]. destruct H as (gs' & E' & R').
  exists gs'. split; [exact E'|]. split; [reflexivity|]. unfold m_pop, modify. cbn [snd ctx set_ctx]. rewrite E. exact R'.
Qed.

(* set: the binding lands in the deepest frame; on an empty stack Go panics (index out of range) and the model reports
   e_index; the model's note of a write into a caller-owned map (f_origin) is a ghost of C08 and has no Go counterpart *)
Theorem m_set_matches_source gs (st : mstate) (k : bstr) (v : value) :
  scope_rel gs (ctx st) -> st_small (go_len gs) ->
  match src_soyhtml_scope_set value (rev gs) k v with
  | Some g' => fst (m_set k v st) = Ok tt /\ scope_rel (rev g') (ctx (snd (m_set k v st)))
  | None => fst (m_set k v st) = Err e_index
  end.
Proof.
  intros R Hs. pose proof (sc_set_matches_source gs (ctx st) k v R Hs) as H.
  unfold m_set. destruct (ctx st) as [|f r] eqn:E.
  - rewrite H. reflexivity.
  - destruct H as (gs' & E' & R'). rewrite E'. rewrite rev_involutive. split; [reflexivity|].
    cbn [snd]. destruct (sc_top_origin (f :: r)); cbn [ctx set_ctx]; exact R'.
Qed.
