(* C15, template level, bodies with print commands among the tags (Spec/TextTags.v): scanner model and parser
   model composed.  Scanner: Proofs/LexBodyTags.v.  Parser: the run on the items with the print commands'
   positions erased (Proofs/ParseBodyTags.v: out of budget, or the Spec's reading), the totality of the entry point
   (Proofs/ParserProofs.v: never out of budget), and the position independence of successful runs
   (Proofs/CmdParserStripMain.v) back to the scanner's own items. *)
From Soy Require Import Model.Bytes Model.Utf8 Model.Outcome Model.Num Model.Values Model.Ast Model.Token Model.RawText Model.AstPrint
  Model.ExprParser Model.Parser Model.Lexer Generated.Tables Spec.Text Spec.TextBody Spec.TextMix Spec.TextTags Spec.ExprSyntax
  Proofs.RawTextProofs Proofs.ExprParserRules Proofs.LexTokens Proofs.LexerProofs Proofs.LexParseBridge Proofs.ParserProofs Proofs.LexBodyText Proofs.LexBodyTop Proofs.LexBodyMain
  Proofs.LexBodyMixMain Proofs.ParseBodyText Proofs.ParseBodySeg Proofs.ParseBodyMix Proofs.BodyTextMain Proofs.LexPrintCmd
  Proofs.CmdParserStripDefs Proofs.CmdParserStripMain Proofs.BodyTagsShape Proofs.LexBodyTags Proofs.ParseBodyTags.
From Coq Require Import ZifyBool ZifyNat ZifyN Lia.
Open Scope N_scope.

(* the Spec's reading of the rest of a body, through the pieces of its stretches *)
Lemma c15_rest_out_pieces : forall rest o, c15_rest_out rest = Some o ->
  exists rp, c15_rest_pieces rest rp /\ gs_rest_out rp = o.
Proof.
  induction rest as [|[tg T] r IH]; intros o H.
  - cbn [c15_rest_out] in H. injection H as <-. exists []. split; [exact I|reflexivity].
  - cbn [c15_rest_out] in H. unfold body_text in H. destruct (pieces MText false [] T) as [pcs|] eqn:Hp; [|discriminate].
    destruct (c15_rest_out r) as [o'|] eqn:Hr; [|discriminate].
    destruct (IH o' eq_refl) as (rp & Hrp & Ho). exists ((tg, pcs) :: rp). split; [cbn [c15_rest_pieces]; auto|].
    cbn [gs_rest_out]. rewrite Ho. destruct tg as [[n tx]|n txt]; injection H as <-; reflexivity.
Qed.

Lemma c15_rest_tags_wf : forall rest rp, c15_rest_ok print_node rest -> c15_rest_pieces rest rp -> tags_wf rp.
Proof.
  induction rest as [|[tg T] r IH]; intros rp Hok Hrp; destruct rp as [|[tg' pcs] rp']; try contradiction; [constructor|].
  cbn [c15_rest_pieces] in Hrp. destruct Hrp as (-> & Hp & Hrp'). cbn [c15_rest_ok] in Hok. destruct Hok as (Htg & [Hpl _] & Hok').
  constructor; [|apply (IH rp' Hok' Hrp')]. cbn [snd fst]. split.
  - apply (pieces_bytes (fun c => c <> 0) T MText false [] pcs); [constructor| |exact Hp].
    eapply Forall_impl; [|exact Hpl]. intros a (Ha & _). exact Ha.
  - destruct tg as [c|n txt]; [exact I|]. exact (proj1 Htg).
Qed.

Section Main.
Variable inlen : N.
Variable lexq : bstr -> list tok.
Variable unq : bstr -> option bstr.
Hypothesis Hq : lexq_wf lexq.

(* parse.SoyFile on items of the shape the scanner sends *)
Lemma soy_file_tags_nodes pcs rp items : c15_gshape c15_X1 pcs rp items -> items_wf inlen items -> Forall no_nul pcs -> tags_wf rp ->
  exists pos nodes st, po_result (soy_file inlen lexq unq items) = POk (NList pos nodes) st /\
     c15_view0 (map cps_strip nodes) = gs_out false pcs rp.
Proof.
  intros Hsh Hw Hn0 Hnr.
  destruct (gshape_erase inlen pcs rp items Hsh Hw) as (items0 & Hsh0 & Hst & Hw0 & Hlen).
  destruct (stream_init items0) as [Hs Hi].
  pose proof (soy_file_total inlen lexq unq Hq items0 Hw0) as Ht.
  unfold soy_file, parse_file, file_fuel in *. rewrite <- Hlen.
  replace (length items0 + 8)%nat with (S (length items0 + 7)) in * by lia.
  destruct (gshape_run inlen lexq unq (length items0 + 7) pcs rp items0 Hsh0 Hn0 Hnr [] ltac:(constructor) (S (length items0 + 7)) [] None (cst_init items0)
              Hs Hi ltac:(cbn [app]; lia) ltac:(lia)) as [Hfu|(pos & nodes & s' & Hrun & Hv)].
  - exfalso. cbn [item_list] in Ht. rewrite Hfu in Ht. exact Ht.
  - destruct (cps_body inlen inlen lexq unq expr_fuel cps_expr_fuel (S (length items0 + 7)) u_eof items0 items (NList pos ([] ++ nodes)) s' Hst Hrun)
      as (x' & s2 & Hrun2 & Hx).
    rewrite Hrun2. cbn [po_result]. destruct x'; cbn [cps_strip app] in Hx; try discriminate Hx. injection Hx as Hx.
    eexists _, _, _. split; [reflexivity|]. rewrite <- Hx. exact Hv.
Qed.

End Main.

Section Top.
Variable uni_letter uni_digit : Z -> bool.
Hypothesis letter_ascii : forall c, (c < 128)%N -> uni_letter (Z.of_N c) = ((65 <=? c) && (c <=? 90) || (97 <=? c) && (c <=? 122))%N.
Hypothesis digit_ascii : forall c, (c < 128)%N -> uni_digit (Z.of_N c) = digit_b c.
Hypothesis letter_eof : uni_letter (-1)%Z = false.
Hypothesis digit_eof : uni_digit (-1)%Z = false.
Variable lexq : bstr -> list tok.
Variable unq : bstr -> option bstr.
Hypothesis Hq : lexq_wf lexq.

(* body_text_spec with print commands among the tags *)
Theorem body_tags_impl_spec T0 rest out : c15_body_ok print_node T0 rest -> c15_lex_oks rest -> c15_body_out T0 rest = Some out ->
  exists items pos nodes st,
    lex_items uni_letter uni_digit (lex_budget (c15_body_src T0 rest)) false (c15_body_src T0 rest) = Ok items /\
    po_result (soy_file (N.of_nat (length (c15_body_src T0 rest))) lexq unq items) = POk (NList pos nodes) st /\
    c15_view0 (map cps_strip nodes) = out.
Proof.
  intros Hok Hlx Hout. unfold c15_body_out, body_text in Hout.
  destruct (pieces MText true [] T0) as [pcs|] eqn:Hp; [|discriminate].
  destruct (c15_rest_out rest) as [o'|] eqn:Hr; [|discriminate]. injection Hout as <-.
  destruct (c15_rest_out_pieces rest o' Hr) as (rp & Hrp & Ho).
  destruct (lex_body_tags uni_letter uni_digit letter_ascii digit_ascii letter_eof digit_eof T0 rest pcs rp Hok Hlx Hp Hrp) as (items & Hlex & Hsh).
  destruct (lex_items_total _ _ letter_eof digit_eof false (c15_body_src T0 rest)) as (ts & Hl & Hsc). rewrite Hlex in Hl. injection Hl as <-.
  pose proof (scan_items_wf_all _ _ Hsc) as Hw.
  destruct Hok as [[Hpl0 _] Hrok].
  assert (Hn0 : Forall no_nul pcs).
  { apply (pieces_bytes (fun c => c <> 0) T0 MText true [] pcs); [constructor| |exact Hp].
    eapply Forall_impl; [|exact Hpl0]. intros a (Ha & _). exact Ha. }
  destruct (soy_file_tags_nodes _ lexq unq Hq pcs rp items Hsh Hw Hn0 (c15_rest_tags_wf rest rp Hrok Hrp)) as (pos & nodes & st & A & B).
  exists items, pos, nodes, st. split; [exact Hlex|]. split; [exact A|]. rewrite B. unfold gs_out. rewrite Ho. reflexivity.
Qed.

End Top.
