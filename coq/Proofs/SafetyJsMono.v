(* C06 for the JavaScript generator: the walker's budget is only an approximation index.  [jwalk o f] approximates
   [jwalk o (f + k)]: an answer other than OutOfFuel obtained with some budget is the answer -- same chunks, same
   error -- with every larger budget.  With Proofs/SafetyJsFuel.v: for every budget from the height of the tree on,
   [gen_file] gives one and the same answer.

   Carried through every visitor as a relation between two recursive calls:
   [japx m1 m2] = on every state, [m1] is OutOfFuel or the two agree. *)
From Coq Require Import Lia List.
Import ListNotations.
From Soy Require Import Model.Bytes Model.Num Model.Values Model.Outcome Model.Ast Model.Utf8 Model.JsEscape
  Generated.Tables Model.JsGen Spec.SafetyJs Proofs.SafetyJsFuel.
Open Scope N_scope.
#[local] Arguments assoc_s {A} k l : simpl never.

Definition japx {A} (m1 m2 : J A) : Prop := forall st, m1 st = OutOfFuel \/ m1 st = m2 st.

Lemma japx_refl {A} (m : J A) : japx m m.
Proof. intros st. right. reflexivity. Qed.

Lemma japx_bind {A B} (m1 m2 : J A) (f1 f2 : A -> J B) :
  japx m1 m2 -> (forall x, japx (f1 x) (f2 x)) -> japx (jbind m1 f1) (jbind m2 f2).
Proof.
  intros Hm Hf st. unfold jbind. destruct (Hm st) as [E|E].
  - left. rewrite E. reflexivity.
  - rewrite E. destruct (m2 st) as [[x st']| | | | |]; try (right; reflexivity). apply Hf.
Qed.

Section Body.
Variable o : jopts.
Variables w1 w2 : node -> J unit.
Hypothesis Hw : forall n, japx (w1 n) (w2 n).

Ltac astep :=
  first
    [ apply japx_refl
    | apply Hw
    | apply japx_bind; [| intros ?]
    | match goal with |- japx (match ?x with _ => _ end) _ => destruct x end ].
Ltac ago := repeat astep.

Lemma ap_walk_list ns : japx (jwalk_list w1 ns) (jwalk_list w2 ns).
Proof. induction ns as [|x r IH]; cbn [jwalk_list]; [apply japx_refl|]. apply japx_bind; [apply Hw | intros _; exact IH]. Qed.

Lemma ap_block n : japx (jblock w1 n) (jblock w2 n).
Proof.
  intros st. unfold jblock, jbind, jget. cbv beta iota zeta.
  match goal with |- context [w1 n ?sub] => destruct (Hw n sub) as [E|E]; rewrite E end.
  - left. reflexivity.
  - right. reflexivity.
Qed.

Lemma ap_list_items first l : japx (list_items w1 first l) (list_items w2 first l).
Proof.
  revert first. induction l as [|x r IH]; intros first; cbn [list_items]; [apply japx_refl|].
  apply japx_bind; [apply japx_refl | intros _]. apply japx_bind; [apply Hw | intros _; apply IH].
Qed.

Lemma ap_map_items first l : japx (map_items w1 first l) (map_items w2 first l).
Proof.
  revert first. induction l as [|[k x] r IH]; intros first; cbn [map_items]; [apply japx_refl|].
  apply japx_bind; [apply japx_refl | intros _]. apply japx_bind; [apply japx_refl | intros _].
  apply japx_bind; [apply Hw | intros _; apply IH].
Qed.

Lemma ap_jop sym a c : japx (jop w1 sym a c) (jop w2 sym a c).
Proof. unfold jop. ago. Qed.

Lemma ap_apply_pieces ps args : japx (apply_pieces w1 ps args) (apply_pieces w2 ps args).
Proof.
  induction ps as [|p ps IH]; cbn [apply_pieces]; [apply japx_refl|].
  destruct p as [t|i]; [apply japx_bind; [apply japx_refl | intros _; exact IH]|].
  destruct (nth_error args i); [|apply japx_refl]. apply japx_bind; [apply Hw | intros _; exact IH].
Qed.

Lemma ap_builtin_call name args : japx (builtin_call w1 name args) (builtin_call w2 name args).
Proof.
  unfold builtin_call. apply japx_bind; [apply japx_refl | intros _].
  apply japx_bind; [apply ap_list_items | intros _; apply japx_refl].
Qed.

Lemma ap_visit_function name args : japx (visit_function o w1 name args) (visit_function o w2 name args).
Proof.
  unfold visit_function. cbv zeta.
  destruct (assoc_s name js_builtin_funcs) as [jn|].
  - apply japx_bind; [apply ap_builtin_call | intros _; apply japx_refl].
  - destruct (assoc_s name js_funcs) as [[lens alts]|]; [|apply japx_refl].
    destruct (pick_alt alts (length args)) as [ps|]; [|apply japx_refl].
    apply japx_bind; [apply ap_apply_pieces | intros _; apply japx_refl].
Qed.

Lemma ap_dataref_access acc : forall expr closers,
  japx (jdataref_access w1 acc expr closers) (jdataref_access w2 acc expr closers).
Proof.
  induction acc as [|a rest IH]; intros expr closers; cbn [jdataref_access]; [apply japx_refl|].
  cbv zeta. destruct a; try apply IH.
  - apply japx_bind; [apply japx_refl | intros ?; apply IH].
  - apply japx_bind; [apply japx_refl | intros ?; apply IH].
  - apply japx_bind; [apply japx_refl | intros ?]. apply japx_bind; [apply ap_block | intros ?; apply IH].
Qed.

Lemma ap_visit_dataref key acc : japx (visit_dataref w1 key acc) (visit_dataref w2 key acc).
Proof.
  unfold visit_dataref. apply japx_bind; [apply japx_refl | intros ?].
  apply japx_bind; [apply ap_dataref_access | intros ?; apply japx_refl].
Qed.

Lemma ap_print_args args : japx (print_args w1 args) (print_args w2 args).
Proof.
  induction args as [|a r IH]; cbn [print_args]; [apply japx_refl|].
  apply japx_bind; [apply japx_refl | intros _]. apply japx_bind; [apply Hw | intros _; exact IH].
Qed.

Lemma ap_print_closes ds : japx (print_closes w1 ds) (print_closes w2 ds).
Proof.
  induction ds as [|[name args] r IH]; cbn [print_closes]; [apply japx_refl|].
  apply japx_bind; [apply ap_print_args | intros _]. apply japx_bind; [apply japx_refl | intros _].
  apply japx_bind; [apply japx_refl | intros _; exact IH].
Qed.

Lemma ap_visit_print arg dirs : japx (visit_print o w1 arg dirs) (visit_print o w2 arg dirs).
Proof.
  unfold visit_print. apply japx_bind; [apply japx_refl | intros st0].
  apply japx_bind; [apply japx_refl | intros [escape kept]]. cbv zeta.
  apply japx_bind; [apply japx_refl | intros _]. apply japx_bind; [apply japx_refl | intros bn].
  apply japx_bind; [apply japx_refl | intros _]. apply japx_bind; [apply japx_refl | intros _].
  apply japx_bind; [apply Hw | intros _]. apply japx_bind; [apply ap_print_closes | intros _; apply japx_refl].
Qed.

Lemma ap_call_params ps : forall first acc, japx (jcall_params w1 first ps acc) (jcall_params w2 first ps acc).
Proof.
  induction ps as [|p r IH]; intros first acc; cbn [jcall_params]; [apply japx_refl|].
  cbv zeta. destruct p; try apply IH.
  - apply japx_bind; [apply ap_block | intros ?; apply IH].
  - apply japx_bind; [apply japx_refl | intros ?]. apply japx_bind; [apply japx_refl | intros ?].
    apply japx_bind; [apply japx_refl | intros ?]. apply japx_bind; [apply japx_refl | intros ?].
    apply japx_bind; [apply Hw | intros ?]. apply japx_bind; [apply japx_refl | intros ?]. apply IH.
Qed.

Lemma ap_visit_call name alldata data params :
  japx (visit_call o w1 name alldata data params) (visit_call o w2 name alldata data params).
Proof.
  unfold visit_call. apply japx_bind.
  - destruct data as [d|]; [apply ap_block | apply japx_refl].
  - intros d0. apply japx_bind; [|intros ?; apply japx_refl].
    destruct params as [|p0 pr]; [apply japx_refl|].
    apply japx_bind; [apply ap_call_params | intros ?; apply japx_refl].
Qed.

Lemma ap_if_conds cs : forall first, japx (jif_conds w1 first cs) (jif_conds w2 first cs).
Proof.
  induction cs as [|c r IH]; intros first; cbn [jif_conds]; [apply japx_refl|].
  destruct c; try apply japx_refl.
  apply japx_bind; [apply japx_refl | intros _].
  apply japx_bind.
  - destruct cond as [c0|]; [|apply japx_refl].
    apply japx_bind; [apply japx_refl | intros _]. apply japx_bind; [apply Hw | intros _; apply japx_refl].
  - intros _. apply japx_bind; [apply japx_refl | intros _]. apply japx_bind; [apply japx_refl | intros _].
    apply japx_bind; [apply Hw | intros _]. apply japx_bind; [apply japx_refl | intros _].
    apply japx_bind; [apply japx_refl | intros _]. apply japx_bind; [apply japx_refl | intros _]. apply IH.
Qed.

Lemma ap_visit_loop body ie vd item vlen vidx :
  japx (visit_loop w1 body ie vd item vlen vidx) (visit_loop w2 body ie vd item vlen vidx).
Proof.
  unfold visit_loop.
  apply japx_bind; [apply japx_refl | intros _]. apply japx_bind; [apply japx_refl | intros _].
  apply japx_bind; [apply japx_refl | intros _]. apply japx_bind; [apply japx_refl | intros _].
  apply japx_bind; [apply Hw | intros _]. apply japx_bind; [apply japx_refl | intros _].
  apply japx_bind; [apply japx_refl | intros _]. apply japx_bind; [apply japx_refl | intros _].
  destruct ie as [e|]; [|apply japx_refl].
  apply japx_bind; [apply japx_refl | intros _]. apply japx_bind; [apply japx_refl | intros _].
  apply japx_bind; [apply japx_refl | intros _]. apply japx_bind; [apply Hw | intros _; apply japx_refl].
Qed.

Lemma ap_visit_for_range var args body ie :
  japx (visit_for_range w1 var args body ie) (visit_for_range w2 var args body ie).
Proof.
  unfold visit_for_range.
  destruct args as [|a1 [|a2 [|a3 [|a4 r]]]]; try apply japx_refl;
    (apply japx_bind; [apply ap_block | intros ?]; apply japx_bind; [apply ap_block | intros ?];
     apply japx_bind; [apply ap_block | intros ?];
     apply japx_bind; [apply japx_refl | intros [[[[vd vinit] vstep] vlen] vidx]];
     apply japx_bind; [apply japx_refl | intros _]; apply japx_bind; [apply japx_refl | intros _];
     apply japx_bind; [apply japx_refl | intros _]; apply ap_visit_loop).
Qed.

Lemma ap_visit_foreach var lst body ie :
  japx (visit_foreach w1 var lst body ie) (visit_foreach w2 var lst body ie).
Proof.
  unfold visit_foreach. apply japx_bind; [apply ap_block | intros ?].
  apply japx_bind; [apply japx_refl | intros [[[vd vlist] vlen] vidx]].
  apply japx_bind; [apply japx_refl | intros _]. apply japx_bind; [apply japx_refl | intros _]. apply ap_visit_loop.
Qed.

Lemma ap_case_values vs : japx (case_values w1 vs) (case_values w2 vs).
Proof.
  induction vs as [|v r IH]; cbn [case_values]; [apply japx_refl|].
  apply japx_bind; [apply japx_refl | intros _]. apply japx_bind; [apply japx_refl | intros _].
  apply japx_bind; [apply Hw | intros _]. apply japx_bind; [apply japx_refl | intros _; exact IH].
Qed.

Lemma ap_switch_cases cs : japx (jswitch_cases w1 cs) (jswitch_cases w2 cs).
Proof.
  induction cs as [|c r IH]; cbn [jswitch_cases]; [apply japx_refl|].
  destruct c; try apply japx_refl.
  apply japx_bind; [apply ap_case_values | intros _]. apply japx_bind; [apply japx_refl | intros _].
  apply japx_bind; [apply japx_refl | intros _]. apply japx_bind; [apply Hw | intros _].
  apply japx_bind; [apply japx_refl | intros _]. apply japx_bind; [apply japx_refl | intros _; exact IH].
Qed.

Lemma ap_msg_children : forall f l, japx (jmsg_children w1 f l) (jmsg_children w2 f l).
Proof.
  induction f as [|f IHf]; intros l; cbn [jmsg_children]; [apply japx_refl|].
  destruct l as [|x r]; [apply japx_refl|].
  apply japx_bind; [|intros _; apply IHf].
  destruct x; try apply japx_refl; try apply Hw.
  apply japx_bind; [apply japx_refl | intros _]. apply japx_bind; [apply japx_refl | intros _].
  apply japx_bind; [apply Hw | intros _]. apply japx_bind; [apply japx_refl | intros _].
  apply japx_bind; [apply japx_refl | intros _].
  apply japx_bind.
  - induction cases as [|c cr IHc]; [apply japx_refl|].
    apply japx_bind; [|intros _; exact IHc]. unfold plural_case_body. destruct c; try apply japx_refl.
    apply japx_bind; [apply japx_refl | intros _]. apply japx_bind; [apply japx_refl | intros _].
    apply japx_bind; [apply IHf | intros _; apply japx_refl].
  - intros _. apply japx_bind; [apply japx_refl | intros _]. apply japx_bind; [apply japx_refl | intros _].
    apply japx_bind; [apply IHf | intros _; apply japx_refl].
Qed.

Lemma ap_eval_part body p : japx (jeval_part w1 body p) (jeval_part w2 body p).
Proof.
  induction p as [t|name|var cases IH] using jw_jmpart_ind; cbn [jeval_part].
  - apply japx_refl.
  - apply japx_bind; [apply japx_refl | intros [ph|]; [apply Hw | apply japx_refl]].
  - destruct (jfind_plural body var) as [x|]; [|apply japx_refl].
    destruct x; try apply japx_refl.
    apply japx_bind; [apply japx_refl | intros _]. apply japx_bind; [apply japx_refl | intros _].
    apply japx_bind; [apply Hw | intros _]. apply japx_bind; [apply japx_refl | intros _].
    apply japx_bind; [apply japx_refl | intros _].
    apply japx_bind; [|intros _; apply japx_refl].
    generalize 0 as i. induction IH as [|c cr Hc Hcr IHc]; intro i; [apply japx_refl|].
    apply japx_bind; [apply japx_refl | intros _]. apply japx_bind; [apply japx_refl | intros _].
    apply japx_bind.
    + clear - Hc. induction Hc as [|q qr Hq Hqr IHq]; [apply japx_refl|].
      apply japx_bind; [exact Hq | intros _; exact IHq].
    + intros _. apply japx_bind; [apply japx_refl | intros _]. apply japx_bind; [apply japx_refl | intros _]. apply IHc.
Qed.

Lemma ap_eval_parts body ps : japx (jeval_parts w1 body ps) (jeval_parts w2 body ps).
Proof.
  induction ps as [|p r IH]; cbn [jeval_parts]; [apply japx_refl|].
  apply japx_bind; [apply ap_eval_part | intros _; exact IH].
Qed.

Lemma ap_visit_msg id body : japx (visit_msg o w1 id body) (visit_msg o w2 id body).
Proof.
  unfold visit_msg. destruct (o_msgs o) as [msgs|]; [|apply ap_msg_children].
  destruct (assoc_n id msgs); [apply ap_eval_parts | apply ap_msg_children].
Qed.

Lemma ap_template_rest old all_opt name body :
  japx (template_rest o w1 old all_opt name body) (template_rest o w2 old all_opt name body).
Proof.
  unfold template_rest.
  apply japx_bind; [apply japx_refl | intros _]. apply japx_bind; [apply japx_refl | intros _].
  apply japx_bind; [apply japx_refl | intros _]. apply japx_bind; [apply japx_refl | intros _].
  apply japx_bind; [apply japx_refl | intros _]. apply japx_bind; [apply japx_refl | intros _].
  apply japx_bind; [apply Hw | intros _; apply japx_refl].
Qed.

Lemma ap_visit_template prev name body ae :
  japx (visit_template o w1 prev name body ae) (visit_template o w2 prev name body ae).
Proof.
  unfold visit_template. apply japx_bind; [apply japx_refl | intros st0]. cbv zeta.
  apply japx_bind; [apply japx_refl | intros _]. apply japx_bind; [apply japx_refl | intros _]. apply ap_template_rest.
Qed.

Ltac aknown :=
  first
    [ apply ap_walk_list | apply ap_block | apply ap_list_items | apply ap_map_items | apply ap_jop
    | apply ap_visit_function | apply ap_visit_dataref | apply ap_visit_print | apply ap_visit_call
    | apply ap_if_conds | apply ap_visit_foreach | apply ap_visit_for_range | apply ap_switch_cases
    | apply ap_visit_msg | apply ap_visit_template ].
Ltac ago2 := repeat first [ apply japx_refl | apply Hw | aknown | apply japx_bind; [| intros ?] ].

Lemma ap_walk_node prev n : japx (jwalk_node o w1 prev n) (jwalk_node o w2 prev n).
Proof.
  destruct n; cbn [jwalk_node]; cbv zeta; try apply japx_refl; try (ago2; fail).
  - (* NGlobal *) destruct (node_of_value p v); ago2.
  - (* NBin *) destruct op; ago2.
  - (* NCss *) apply japx_bind; [|intros _; apply japx_refl]. destruct expr; ago2.
  - (* NFor *) destruct n1; try apply ap_visit_foreach. destruct (bstr_eqb name jn_range); ago2.
Qed.

Lemma ap_walk_body n : japx (jwalk_body o w1 n) (jwalk_body o w2 n).
Proof.
  unfold jwalk_body. apply japx_bind; [apply japx_refl | intros st0].
  apply japx_bind; [apply japx_refl | intros _]. apply ap_walk_node.
Qed.
End Body.

Theorem jwalk_approx o : forall f k n, japx (jwalk o f n) (jwalk o (f + k) n).
Proof.
  induction f as [|f IH]; intros k n; [intros st; left; reflexivity|].
  cbn [jwalk Nat.add]. apply ap_walk_body. intros n'. apply IH.
Qed.

Theorem gen_file_fuel_monotone o f k name body :
  gen_file o f name body <> OutOfFuel -> gen_file o (f + k) name body = gen_file o f name body.
Proof.
  unfold gen_file. intros H.
  assert (Ha : japx (visit_file o f name body) (visit_file o (f + k) name body)).
  { unfold visit_file. apply japx_bind; [apply japx_refl | intros _]. apply japx_bind; [apply japx_refl | intros _].
    apply japx_bind; [apply japx_refl | intros _]. apply ap_walk_list. intros n. apply jwalk_approx. }
  destruct (Ha jinit_state) as [E|E].
  - rewrite E in H. congruence.
  - rewrite <- E. reflexivity.
Qed.

(* from the height of the tree on, the answer does not depend on the budget *)
Theorem gen_file_fuel_independent o f1 f2 name body :
  (jw_hmax body <= f1)%nat -> (jw_hmax body <= f2)%nat -> gen_file o f1 name body = gen_file o f2 name body.
Proof.
  intros H1 H2.
  assert (G : forall f, (jw_hmax body <= f)%nat -> gen_file o f name body = gen_file o (jw_hmax body) name body).
  { intros f Hf. replace f with (jw_hmax body + (f - jw_hmax body))%nat by lia.
    apply gen_file_fuel_monotone. apply gen_file_fuel. lia. }
  rewrite (G f1 H1), (G f2 H2). reflexivity.
Qed.
