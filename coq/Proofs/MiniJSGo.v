(* C04, the statement stages, the Go side: the walker of Model/Interp.v writes the text of the subset semantics (interp_all) *)
From Soy Require Import Model.Bytes Model.Num Model.Values Model.Outcome Model.Ast Model.JsGen Model.MiniJS
  Model.Escape Model.Directives Model.Print Generated.Tables Model.Interp
  Proofs.EscapeProofs Proofs.MiniJSProofs Proofs.MiniJSPrint Proofs.MiniJSStmt Model.MsgId Proofs.MsgIdProofs Proofs.MiniJSCtl.
Open Scope N_scope.

(* ================================================================== *)
(* the Go side: the walker of Model/Interp.v *)

Lemma snode_raw t : snode (SRaw t) = NRawText 0 t. Proof. reflexivity. Qed.
Lemma snode_print e ds : snode (SPrint e ds) = NPrint 0 (cnode e) (map pdir_node ds). Proof. reflexivity. Qed.
Lemma snode_let name e : snode (SLet name e) = NLetValue 0 name (cnode e). Proof. reflexivity. Qed.
Lemma snode_if c th rest : snode (SIf c th rest) = NIf 0 (NIfCond 0 (Some (cnode c)) (NList 0 (bnodes th)) :: enodes rest). Proof. reflexivity. Qed.
Lemma snode_for x e body hasie ie : snode (SFor x e body hasie ie)
  = NFor 0 x (cnode e) (NList 0 (bnodes body)) (if hasie then Some (NList 0 (bnodes ie)) else None). Proof. reflexivity. Qed.
Lemma sdepth_for x e body hasie ie : sdepth (SFor x e body hasie ie) = S (S (Nat.max (cdepth e) (Nat.max (bdepth body) (bdepth ie)))). Proof. reflexivity. Qed.
Lemma snode_forrange x a1 rest body hasie ie : snode (SForRange x a1 rest body hasie ie)
  = NFor 0 x (NFunc 0 jn_range (cnode a1 :: map cnode rest)) (NList 0 (bnodes body)) (if hasie then Some (NList 0 (bnodes ie)) else None). Proof. reflexivity. Qed.
Lemma sdepth_forrange x a1 rest body hasie ie : sdepth (SForRange x a1 rest body hasie ie)
  = S (S (S (Nat.max (Nat.max (cdepth a1) (cdepths rest)) (Nat.max (bdepth body) (bdepth ie))))). Proof. reflexivity. Qed.
Lemma snode_css e sfx : snode (SCss e sfx) = NCss 0 (match e with Some x => Some (cnode x) | None => None end) sfx. Proof. reflexivity. Qed.
Lemma sdepth_css e sfx : sdepth (SCss e sfx) = S (S (match e with Some x => cdepth x | None => 0%nat end)). Proof. reflexivity. Qed.
Lemma snode_switch v cs : snode (SSwitch v cs) = NSwitch 0 (cnode v) (knodes cs). Proof. reflexivity. Qed.
Lemma bnodes_cons s r : bnodes (BCons s r) = snode s :: bnodes r. Proof. reflexivity. Qed.
Lemma enodes_else b : enodes (EElse b) = [NIfCond 0 None (NList 0 (bnodes b))]. Proof. reflexivity. Qed.
Lemma enodes_elif c th rest : enodes (EElif c th rest) = NIfCond 0 (Some (cnode c)) (NList 0 (bnodes th)) :: enodes rest. Proof. reflexivity. Qed.
Lemma knodes_default b : knodes (KDefault b) = [NSwitchCase 0 [] (NList 0 (bnodes b))]. Proof. reflexivity. Qed.
Lemma knodes_case v vs b rest : knodes (KCase v vs b rest) = NSwitchCase 0 (cnode v :: map cnode vs) (NList 0 (bnodes b)) :: knodes rest. Proof. reflexivity. Qed.

Lemma sdepth_if c th rest : sdepth (SIf c th rest) = S (S (Nat.max (cdepth c) (Nat.max (bdepth th) (edepth rest)))). Proof. reflexivity. Qed.
Lemma sdepth_switch v cs : sdepth (SSwitch v cs) = S (S (Nat.max (cdepth v) (kdepth cs))). Proof. reflexivity. Qed.
Lemma bdepth_cons s r : bdepth (BCons s r) = Nat.max (S (sdepth s)) (bdepth r). Proof. reflexivity. Qed.
Lemma edepth_else b : edepth (EElse b) = bdepth b. Proof. reflexivity. Qed.
Lemma edepth_elif c th rest : edepth (EElif c th rest) = Nat.max (cdepth c) (Nat.max (bdepth th) (edepth rest)). Proof. reflexivity. Qed.
Lemma kdepth_default b : kdepth (KDefault b) = bdepth b. Proof. reflexivity. Qed.
Lemma kdepth_case v vs b rest : kdepth (KCase v vs b rest) = Nat.max (Nat.max (cdepth v) (cdepths vs)) (Nat.max (bdepth b) (kdepth rest)). Proof. reflexivity. Qed.
Lemma cdepths_le x l : In x l -> (cdepth x <= cdepths l)%nat.
Proof. induction l as [|y r IH]; intro H; [contradiction|]. cbn [cdepths fold_right]. fold (cdepths r). destruct H as [->|H]; [lia|]. specialize (IH H). lia. Qed.

Lemma assoc_s_map_set m k q (v : value) : assoc_s q (map_set m k v) = if bstr_eqb q k then Some v else assoc_s q m.
Proof.
  induction m as [|[k1 v1] r IH]; cbn [map_set]; unfold assoc_s; fold (@assoc_s value).
  - reflexivity.
  - destruct (bstr_eqb k k1) eqn:E1.
    + apply bstr_eqb_true in E1. subst k1. unfold assoc_s; fold (@assoc_s value). destruct (bstr_eqb q k); reflexivity.
    + destruct (bstr_ltb k k1); unfold assoc_s; fold (@assoc_s value).
      * destruct (bstr_eqb q k); reflexivity.
      * rewrite IH. destruct (bstr_eqb q k1) eqn:E2; [|reflexivity].
        destruct (bstr_eqb q k) eqn:E3; [|reflexivity]. apply bstr_eqb_true in E2, E3. subst. rewrite bstr_eqb_refl' in E1. discriminate.
Qed.
Lemma sc_lookup_set s k v x : s <> [] -> sc_lookup (sc_set s k v) x = if bstr_eqb x k then Some v else sc_lookup s x.
Proof.
  destruct s as [|f r]; [congruence|]. intros _. cbn [sc_set sc_lookup f_vars]. rewrite assoc_s_map_set. destruct (bstr_eqb x k); reflexivity.
Qed.

Lemma concat_b_app ws1 ws2 : concat_b (ws1 ++ ws2) = concat_b ws1 ++ concat_b ws2.
Proof. induction ws1 as [|w r IH]; [reflexivity|]. cbn. rewrite IH, app_assoc. reflexivity. Qed.

Lemma snode_letc name body : snode (SLetC name body) = NLetContent 0 name (NList 0 (bnodes body)). Proof. reflexivity. Qed.
Lemma sdepth_letc name body : sdepth (SLetC name body) = S (S (bdepth body)). Proof. reflexivity. Qed.

Definition envok (env : bstr -> option value) : Prop := forall k x, env k = Some x -> core_value x = true.

Section GoStmts.
Variable cf : cfg.
Hypothesis Hob : c_oblig cf = [].
Hypothesis ij_core : forall x, c_ij cf = Some x -> core_value x = true.
(* the data of the template being rendered: what data="all" passes on *)
Variable denv : bstr -> option value.
Hypothesis Hdenv : envok denv.
(* the text a template writes for given data, and a fuel that suffices for every call *)
Variable callee : bstr -> (bstr -> option value) -> option bstr.
Variable cfuel : nat.

(* the scope stack inside a template body: the innermost frame is not the entered one, and the frames from the entered
   one downwards (what alldata() returns) hold the template's data *)
Definition dinv (c : scope) : Prop :=
  exists f r s, c = f :: r /\ f_entered f = false /\ sc_alldata r = Some s /\ forall k, sc_lookup s k = denv k.
Lemma dinv_push c : dinv c -> dinv (sc_push c).
Proof.
  intros (f & r & s & -> & He & Ha & Hl). exists fresh_frame, (f :: r), s. split; [reflexivity|]. split; [reflexivity|].
  cbn [sc_alldata]. rewrite He. auto.
Qed.
Lemma dinv_set c k v : dinv c -> dinv (sc_set c k v).
Proof. intros (f & r & s & -> & He & Ha & Hl). cbn [sc_set]. eexists _, r, s. split; [reflexivity|]. cbn [f_entered]. auto. Qed.
Lemma dinv_nonempty c : dinv c -> c <> [].
Proof. intros (f & r & s & -> & _). discriminate. Qed.

Definition lookups (st : mstate) (env : bstr -> option value) : Prop := forall k, sc_lookup (ctx st) k = env k.
Definition agrees (st : mstate) (env : bstr -> option value) : Prop := lookups st env /\ dinv (ctx st).
Lemma agrees_ctx st st' env : ctx st' = ctx st -> agrees st env -> agrees st' env.
Proof. intros C [H D]. split; [intro k; rewrite C; apply H|rewrite C; exact D]. Qed.
Lemma agrees_pres st st' env : pres st st' -> agrees st env -> agrees st' env.
Proof. intros P. apply agrees_ctx. exact (pres_ctx _ _ P). Qed.
Lemma agrees_push st env : agrees st env -> agrees (set_ctx st (sc_push (ctx st))) env.
Proof. intros [H D]. split; [intro k; cbn; apply H|cbn [ctx set_ctx]; apply dinv_push; exact D]. Qed.

(* what a statement does to the renderer's state: it writes text to the current writer (wrote, of
   Proofs/MiniJSStmt.v: the innermost capture buffer, or the output); the mode stays; the scope stack
   keeps its frames below the innermost one, and looking a variable up gives the environment after the statement *)
Definition sres (m : M value) (st : mstate) (text : bstr) (env' : bstr -> option value) : Prop :=
  exists st' ws rv, m st = (Ok rv, st') /\ wrote st st' ws /\ concat_b ws = text /\ mode st' = mode st
                    /\ ctx st' <> [] /\ tl (ctx st') = tl (ctx st) /\ agrees st' env'.
(* a command that restores the scope; [st0] is the state the writer and the scope are compared with *)
Definition bres0 {A} (st0 : mstate) (m : M A) (st : mstate) (text : bstr) : Prop :=
  exists st' ws rv, m st = (Ok rv, st') /\ wrote st0 st' ws /\ concat_b ws = text /\ mode st' = mode st0 /\ ctx st' = ctx st0.
Notation bres m st text := (bres0 st m st text).

Lemma bres0_pres {A} st0 (m : M A) st text : pres st0 st -> bres m st text -> bres0 st0 m st text.
Proof.
  intros P (st' & ws & rv & E & W & T & M' & X). pose proof P as (C & Mo & _). exists st', ws, rv.
  split; [exact E|]. split; [exact (wrote_l _ _ _ _ (pres_wsame _ _ P) W)|]. repeat split; congruence.
Qed.
Lemma bres0_ret {A} st0 (m : M A) st text : bres0 st0 m st text -> bres0 st0 (_ <-- m ;;; ret VUndef) st text.
Proof. intros (st' & ws & rv & E & R). exists st', ws, VUndef. unfold mbind. rewrite E. split; [reflexivity|exact R]. Qed.
Lemma bres_sres m st text env : bres m st text -> ctx st <> [] -> agrees st env -> sres m st text env.
Proof.
  intros (st' & ws & rv & E & W & T & M' & X) Hn Ha. exists st', ws, rv.
  split; [exact E|]. split; [exact W|]. split; [exact T|]. split; [exact M'|]. split; [congruence|]. split; [congruence|].
  exact (agrees_ctx _ _ _ X Ha).
Qed.

Lemma walk_unfold f n st : walk cf (S f) n st = walk_node cf (walk cf f) n (set_cur st (pos_of n)).
Proof. reflexivity. Qed.

Lemma go_eval f e st v env : agrees st env -> envok env -> (cdepth e < f)%nat -> ceval (c_ij cf) env e = Some v ->
  mok (eval (walk cf f) (cnode e)) st v.
Proof.
  intros Ha Hc Hf E. apply mok_eval. apply (interp_ceval cf st); auto.
  - intros k x Hk. rewrite (proj1 Ha) in Hk. eapply Hc; eauto.
  - rewrite (ceval_ext _ _ env (proj1 Ha)). exact E.
Qed.

Lemma go_case_hit F env sv vs : envok env -> (forall x, In x vs -> (cdepth x < F)%nat) -> forall st h, agrees st env ->
  khit (c_ij cf) env sv vs = Some h -> exists st', case_hit (walk cf F) sv (map cnode vs) st = (Ok h, st') /\ pres st st'.
Proof.
  intros Hc. induction vs as [|x r IH]; intros Hd st h Ha E; cbn [khit map case_hit] in *.
  - inversion E; subst. exists st. split; [reflexivity|apply pres_refl].
  - destruct (ceval (c_ij cf) env x) as [cv|] eqn:Ex; [|discriminate]. destruct (prim_value cv); [|discriminate].
    destruct (go_eval F x st cv env Ha Hc (Hd x (or_introl eq_refl)) Ex) as (st1 & E1 & P1).
    unfold mbind at 1. rewrite E1. destruct (equals sv cv).
    + inversion E; subst. exists st1. split; [reflexivity|exact P1].
    + destruct (IH (fun y Hy => Hd y (or_intror Hy)) st1 h (agrees_pres _ _ _ P1 Ha) E) as (st2 & E2 & P2).
      exists st2. split; [exact E2|eapply pres_trans; eauto].
Qed.

Definition GP_s (s : cstmt) : Prop := forall f st text env env',
  (cfuel + sdepth s < f)%nat -> wok st -> ctx st <> [] -> agrees st env -> envok env ->
  sout (c_ij cf) (mode st) go_print_text denv callee env s = Some (text, env') -> sres (walk cf f (snode s)) st text env'.
Definition GP_b (b : cblk) : Prop := forall f st text env,
  (cfuel + bdepth b <= f)%nat -> wok st -> ctx st <> [] -> agrees st env -> envok env ->
  bout (c_ij cf) (mode st) go_print_text denv callee env b = Some text ->
  exists st' ws, walk_list (walk cf f) (bnodes b) st = (Ok tt, st') /\ wrote st st' ws /\ concat_b ws = text
                 /\ mode st' = mode st /\ tl (ctx st') = tl (ctx st)
                 /\ (msg_ok b = true -> agrees st' env).      (* statements that bind nothing leave the scope as it is *)
Definition GP_e (e : celse) : Prop := forall F st text env,
  (cfuel + edepth e < F)%nat -> wok st -> agrees st env -> envok env ->
  eout (c_ij cf) (mode st) go_print_text denv callee env e = Some text -> bres (if_conds (walk cf F) (enodes e)) st text.
Definition GP_k (k : ccases) : Prop := forall F st text env sv,
  (cfuel + kdepth k < F)%nat -> wok st -> agrees st env -> envok env ->
  kout (c_ij cf) (mode st) go_print_text denv callee env sv k = Some text -> bres (switch_cases (walk cf F) sv (knodes k)) st text.
(* the parameters of a call: evaluated / rendered in the caller's scope in order, set in the innermost frame of the callee's data *)
Definition GP_p (ps : cparams) : Prop := forall F st cd base cenv env,
  (cfuel + pdepth ps < F)%nat -> agrees st env -> envok env ->
  pout (c_ij cf) (mode st) go_print_text denv callee env ps base = Some cenv -> cd <> [] -> (forall k, sc_lookup cd k = base k) -> envok base ->
  exists cd' st', call_params (walk cf F) (pnodes ps) cd st = (Ok cd', st') /\ pres st st'
                  /\ cd' <> [] /\ (forall k, sc_lookup cd' k = cenv k) /\ envok cenv.
(* the plural: walkPlural walks the selected body as a message of its own *)
Definition GP_q (q : cplur) : Prop := forall F st text env i,
  (cfuel + S (qdepth q) < F)%nat -> wok st -> ctx st <> [] -> agrees st env -> envok env ->
  qout (c_ij cf) (mode st) go_print_text denv callee env i q = Some text ->
  exists st' ws, plural_pick (walk cf F) 0 i (qdnodes q) (qcnodes q) st = (Ok tt, st') /\ wrote st st' ws /\ concat_b ws = text
                 /\ mode st' = mode st /\ ctx st' <> [] /\ tl (ctx st') = tl (ctx st) /\ agrees st' env.

Lemma envok_set env k v : envok env -> core_value v = true -> envok (env_set env k v).
Proof. intros H Hv q x. unfold env_set. destruct (bstr_eqb q k); [intro E; inversion E; subst; exact Hv|apply H]. Qed.

Lemma go_envok st mode env s text env' : agrees st env -> envok env ->
  sout (c_ij cf) mode go_print_text denv callee env s = Some (text, env') -> envok env'.
Proof.
  intros Ha Hc. destruct s.
  - rewrite sout_raw. intro E; inversion E; subst; exact Hc.
  - rewrite sout_print. destruct (ceval (c_ij cf) env e); [|discriminate]. destruct (scalar_string v); [|discriminate]. destruct (cleanb b); [|discriminate].
    intro E; inversion E; subst; exact Hc.
  - rewrite sout_let. destruct (bstr_eqb name n_ij); [discriminate|]. destruct (is_ident name); [|discriminate].
    destruct (ceval (c_ij cf) env e) as [v|] eqn:Ev; [|discriminate].
    intro E; inversion E; subst. apply envok_set; [exact Hc|].
    apply (ceval_core cf st) with (e := e); auto.
    + intros k x Hk. rewrite (proj1 Ha) in Hk. eapply Hc; eauto.
    + rewrite (ceval_ext _ _ env (proj1 Ha)). exact Ev.
  - rewrite sout_letc. destruct (bstr_eqb name n_ij); [discriminate|]. destruct (is_ident name); [|discriminate].
    destruct (bout (c_ij cf) mode go_print_text denv callee env body); [|discriminate].
    intro E; inversion E; subst. apply envok_set; [exact Hc|reflexivity].
  - rewrite sout_if. destruct (ceval (c_ij cf) env c); [|discriminate]. destruct (if truthy v then _ else _); [|discriminate]. intro E; inversion E; subst; exact Hc.
  - rewrite sout_switch. destruct (ceval (c_ij cf) env v); [|discriminate]. destruct (prim_value v0); [|discriminate].
    destruct (kout (c_ij cf) mode go_print_text denv callee env v0 cs); [|discriminate]. intro E; inversion E; subst; exact Hc.
  - rewrite sout_for. destruct (is_ident x && negb (bstr_eqb x n_ij)); [|discriminate].
    destruct (ceval (c_ij cf) env e) as [[| | | | | |lid l|]|]; try discriminate. destruct (small (Z.of_nat (length l))); [|discriminate].
    destruct l as [|v0 r0].
    + destruct hasie; [destruct (bout (c_ij cf) mode go_print_text denv callee env ie); [|discriminate]|]; intro E; inversion E; subst; exact Hc.
    + destruct (for_out _ _ _ _ _); [|discriminate]. intro E; inversion E; subst; exact Hc.
  - rewrite sout_forrange. destruct (is_ident x && negb (bstr_eqb x n_ij)); [|discriminate].
    destruct (cints (c_ij cf) env (a1 :: rest)) as [zs|]; [|discriminate]. destruct (range_args 0%Z 1%Z zs) as [[[a l] stp]|]; [|discriminate].
    destruct ((0 <? stp)%Z && small (l - a)); [|discriminate]. cbn zeta.
    destruct (range_items (Z.to_nat (Z.max 0 (l - a))) a l stp) as [|v0 r0].
    + destruct hasie; [destruct (bout (c_ij cf) mode go_print_text denv callee env ie); [|discriminate]|]; intro E; inversion E; subst; exact Hc.
    + destruct (for_out _ _ _ _ _); [|discriminate]. intro E; inversion E; subst; exact Hc.
  - rewrite sout_css. destruct e as [x|]; [destruct (ceval (c_ij cf) env x); [|discriminate]; destruct (scalar_string v); [|discriminate]|];
      intro E; inversion E; subst; exact Hc.
  - rewrite sout_call. destruct (cdata_env _ _ _ _); [|discriminate]. destruct (pout _ _ _ _ _ _ _ _); [|discriminate].
    destruct (callee _ _); [|discriminate]. intro E; inversion E; subst; exact Hc.
  - rewrite sout_msg. destruct (msg_ok body); [|discriminate]. destruct (bout _ _ _ _ _ _ _); [|discriminate]. intro E; inversion E; subst; exact Hc.
  - rewrite sout_msgpl. destruct (ceval (c_ij cf) env v) as [[| | |i| | | |]|]; try discriminate.
    destruct (qout _ _ _ _ _ _ _ _); [|discriminate]. intro E; inversion E; subst; exact Hc.
Qed.

(* ---- calls ---- *)
Lemma snode_call name d ps : snode (SCall name d ps) = NCall 0 name (cdata_all d) (cdata_node d) (pnodes ps). Proof. reflexivity. Qed.
Lemma sdepth_call name d ps : sdepth (SCall name d ps) = S (S (Nat.max (ddepth d) (pdepth ps))). Proof. reflexivity. Qed.
Lemma snode_msg body : snode (SMsg body) = NMsg 0 0 [] [] (mnodes body). Proof. reflexivity. Qed.
Lemma sdepth_msg body : sdepth (SMsg body) = S (bdepth body). Proof. reflexivity. Qed.
Lemma snode_msgpl pn v q : snode (SMsgPl pn v q) = NMsg 0 0 [] [] [NMsgPlural 0 pn (cnode v) (qcnodes q) (qdnodes q)]. Proof. reflexivity. Qed.
Lemma sdepth_msgpl pn v q : sdepth (SMsgPl pn v q) = S (S (S (S (Nat.max (cdepth v) (qdepth q))))). Proof. reflexivity. Qed.
Lemma qcnodes_dflt b : qcnodes (QDflt b) = []. Proof. reflexivity. Qed.
Lemma qcnodes_case z b r : qcnodes (QCase z b r) = NMsgPluralCase 0 z (mnodes b) :: qcnodes r. Proof. reflexivity. Qed.
Lemma qdnodes_dflt b : qdnodes (QDflt b) = mnodes b. Proof. reflexivity. Qed.
Lemma qdnodes_case z b r : qdnodes (QCase z b r) = qdnodes r. Proof. reflexivity. Qed.
Lemma qdepth_dflt b : qdepth (QDflt b) = bdepth b. Proof. reflexivity. Qed.
Lemma qdepth_case z b r : qdepth (QCase z b r) = Nat.max (bdepth b) (qdepth r). Proof. reflexivity. Qed.
Lemma pnodes_val k e r : pnodes (PVal k e r) = NParamValue 0 k (cnode e) :: pnodes r. Proof. reflexivity. Qed.
Lemma pnodes_cont k body r : pnodes (PCont k body r) = NParamContent 0 k (NList 0 (bnodes body)) :: pnodes r. Proof. reflexivity. Qed.
Lemma pdepth_val k e r : pdepth (PVal k e r) = Nat.max (cdepth e) (pdepth r). Proof. reflexivity. Qed.
Lemma pdepth_cont k body r : pdepth (PCont k body r) = Nat.max (bdepth body) (pdepth r). Proof. reflexivity. Qed.

Lemma go_core st env e v : agrees st env -> envok env -> ceval (c_ij cf) env e = Some v -> core_value v = true.
Proof.
  intros Ha Hc Ev. apply (ceval_core cf st) with (e := e); auto.
  - intros k x Hk. rewrite (proj1 Ha) in Hk. eapply Hc; eauto.
  - rewrite (ceval_ext _ _ env (proj1 Ha)). exact Ev.
Qed.

(* the template a call names exists, and entering it with a scope that holds the callee's data writes the callee's text
   and gives the caller's scope and mode back: for the entry template of the induction on the call depth this is the
   induction hypothesis *)
Hypothesis Hfind : forall name cenv text, callee name cenv = Some text ->
  exists t, find_template (r_templates (c_reg cf)) name = Some t /\
    forall f st cd, (cfuel <= f)%nat -> wok st -> cd <> [] -> (forall k, sc_lookup cd k = cenv k) -> envok cenv ->
      exists st' ws rv, call_enter (walk cf f) t cd st = (Ok rv, st') /\ wrote st st' ws /\ concat_b ws = text
                        /\ mode st' = mode st /\ ctx st' = ctx st.

(* evalCall's data: a fresh frame over nothing, over the frames alldata() returns, or over the map the expression gives *)
Lemma go_call_data F d st env base : agrees st env -> envok env -> (ddepth d < F)%nat ->
  cdata_env (c_ij cf) denv env d = Some base ->
  exists cd st', call_data (walk cf F) (cdata_all d) (cdata_node d) st = (Ok cd, st') /\ pres st st'
                 /\ cd <> [] /\ (forall k, sc_lookup cd k = base k) /\ envok base.
Proof.
  intros Ha Hc Hd E. unfold call_data. unfold mbind at 1. cbn [get]. destruct d as [| |e]; cbn [cdata_env cdata_all cdata_node ddepth] in *.
  - inversion E; subst. exists [fresh_frame], st. split; [reflexivity|]. split; [apply pres_refl|]. split; [discriminate|].
    split; [intro k; reflexivity|intros k x Hk; discriminate].
  - inversion E; subst. destruct (proj2 Ha) as (f & r & s & Ec & He & Hal & Hl). rewrite Ec. cbn [sc_alldata]. rewrite He, Hal.
    exists (sc_push s), st. split; [reflexivity|]. split; [apply pres_refl|]. split; [discriminate|].
    split; [intro k; cbn [sc_push sc_lookup fresh_frame f_vars]; apply Hl|exact Hdenv].
  - destruct (ceval (c_ij cf) env e) as [[| | | | | | |lid m]|] eqn:Ev; try discriminate.
    destruct (forallb (fun kv => is_ident (fst kv)) m); [|discriminate]. inversion E; subst. clear E.
    destruct (go_eval F e st (VMap lid m) env Ha Hc Hd Ev) as (st2 & E2 & P2).
    unfold mbind at 1. rewrite E2. exists (sc_push (new_scope lid m)), st2. split; [reflexivity|]. split; [exact P2|]. split; [discriminate|].
    pose proof (go_core st env e _ Ha Hc Ev) as Hcm. cbn [core_value] in Hcm.
    split.
    + intro k. cbn [sc_push new_scope sc_lookup fresh_frame f_vars]. unfold assoc_s at 1. destruct (assoc_s k m); reflexivity.
    + intros k x Hk. exact (core_assoc k m x Hcm Hk).
Qed.

(* a block: NList pushes an (empty) frame, walks its statements, pops *)
Lemma go_block b F st text env : GP_b b -> (cfuel + bdepth b < F)%nat -> wok st -> agrees st env -> envok env ->
  bout (c_ij cf) (mode st) go_print_text denv callee env b = Some text -> bres (walk cf F (NList 0 (bnodes b))) st text.
Proof.
  intros Hb Hd Hg Ha Hc E. destruct F as [|f]; [lia|]. unfold bres0. rewrite walk_unfold. cbn [walk_node].
  match goal with |- context [set_cur st ?p] => set (st1 := set_cur st p) end. unfold mbind at 1. unfold m_push. cbn [modify].
  set (st2 := set_ctx st1 (sc_push (ctx st1))).
  assert (S2 : wsame st st2) by (subst st2 st1; repeat split).
  assert (A2 : agrees st2 env) by (subst st2; apply agrees_push; subst st1; exact Ha).
  assert (M2 : mode st2 = mode st) by reflexivity.
  assert (N2 : ctx st2 <> []) by (subst st2; cbn; discriminate).
  destruct (Hb f st2 text env ltac:(lia) (wsame_wok _ _ S2 Hg) N2 A2 Hc) as (st3 & ws & E3 & W3 & C3 & M3 & X3 & _). { rewrite M2. exact E. }
  unfold mbind at 1. rewrite E3. unfold mbind at 1. unfold m_pop. cbn [modify ret].
  exists (set_ctx st3 (sc_pop (ctx st3))), ws, VUndef. split; [reflexivity|].
  split; [apply (wrote_r _ st3); [exact (wrote_l _ _ _ _ S2 W3)|repeat split]|].
  split; [exact C3|]. cbn [set_ctx ctx mode]. split; [congruence|]. unfold sc_pop. rewrite X3. reflexivity.
Qed.

(* renderBlock: a fresh capture buffer, the block, the buffer popped and returned as a string; any writer will do *)
Lemma go_render_block b F st text env : GP_b b -> (cfuel + bdepth b < F)%nat -> agrees st env -> envok env ->
  bout (c_ij cf) (mode st) go_print_text denv callee env b = Some text ->
  exists st', render_block (walk cf F) (NList 0 (bnodes b)) st = (Ok text, st') /\ wsame st st' /\ ctx st' = ctx st /\ mode st' = mode st.
Proof.
  intros Hb Hd Ha Hc E. unfold render_block. unfold mbind at 1. cbn [modify].
  remember (set_bufs st ([] :: bufs st)) as st2 eqn:Hst2.
  assert (B2 : bufs st2 = [] :: bufs st) by (subst st2; reflexivity).
  assert (R2 : ctx st2 = ctx st /\ mode st2 = mode st /\ out st2 = out st /\ calls_left st2 = calls_left st /\ bytes_left st2 = bytes_left st)
    by (subst st2; repeat split).
  destruct R2 as (C2 & M2 & O2 & L2 & Y2). clear Hst2.
  assert (W2 : wok st2) by (unfold wok; rewrite B2; exact I).
  assert (A2 : agrees st2 env) by (exact (agrees_ctx _ _ _ C2 Ha)).
  destruct (go_block b F st2 text env Hb Hd W2 A2 Hc) as (st3 & ws & rv & E3 & W3 & T3 & M3 & X3). { rewrite M2. exact E. }
  unfold mbind at 1. rewrite E3. unfold mbind at 1. cbn [get].
  destruct W3 as (L3 & Y3 & W3). rewrite B2 in W3. destruct W3 as [B3 O3].
  rewrite B3. unfold mbind at 1. cbn [modify ret].
  eexists. split; [rewrite app_nil_r, rev_involutive, T3; reflexivity|].
  unfold wsame. cbn [out bufs calls_left bytes_left ctx mode set_bufs]. repeat split; congruence.
Qed.

(* binding a name in the innermost frame (let) *)
Lemma go_set st name v env : ctx st <> [] -> agrees st env ->
  exists st', m_set name v st = (Ok tt, st') /\ wsame st st' /\ mode st' = mode st
              /\ ctx st' <> [] /\ tl (ctx st') = tl (ctx st) /\ agrees st' (env_set env name v).
Proof.
  intros Hn Ha. unfold m_set. destruct (ctx st) as [|fr rs] eqn:Ec; [congruence|].
  match goal with |- context [set_ctx ?a ?b] => set (st3 := set_ctx a b) end.
  exists st3. split; [reflexivity|].
  assert (H3 : out st3 = out st /\ mode st3 = mode st /\ bufs st3 = bufs st /\ calls_left st3 = calls_left st /\ bytes_left st3 = bytes_left st
               /\ ctx st3 = sc_set (fr :: rs) name v).
  { subst st3. destruct (sc_top_origin (fr :: rs)); cbn; auto 10. }
  destruct H3 as (O3 & M3 & B3 & L3 & Y3 & C3).
  split; [repeat split; assumption|]. split; [exact M3|]. split; [rewrite C3; cbn [sc_set]; discriminate|].
  split; [rewrite C3; reflexivity|].
  split.
  - intro k. rewrite C3, sc_lookup_set by discriminate. unfold env_set. rewrite <- Ec. rewrite (proj1 Ha). reflexivity.
  - rewrite C3, <- Ec. apply dinv_set. exact (proj2 Ha).
Qed.

(* the rounds of a loop: $x and the hidden $x.index are set in the loop's frame, the body is a block *)
Lemma go_rounds body (HB : GP_b body) F x m : (cfuel + bdepth body < F)%nat ->
  forall items i st envk text, mode st = m ->
    wok st -> ctx st <> [] -> agrees st envk -> envok envk ->
    (forall v, In v items -> core_value v = true) -> (0 <= i)%Z -> small (i + Z.of_nat (length items)) = true ->
    for_out (fun en => bout (c_ij cf) m go_print_text denv callee en body) x envk i items = Some text ->
    exists st' ws, for_items (walk cf F) x (NList 0 (bnodes body)) i items st = (Ok tt, st') /\ wrote st st' ws /\ concat_b ws = text
                   /\ mode st' = mode st /\ ctx st' <> [] /\ tl (ctx st') = tl (ctx st).
Proof.
  intro Hd. induction items as [|v r IH]; intros i st envk text Hm Hg Hn Ha Hc Hcore Hi Hsm Ef; cbn [for_out for_items] in *.
  - inversion Ef; subst. exists st, []. split; [reflexivity|]. split; [apply wsame_wrote, wsame_refl|auto].
  - change s_index with jk_index.
    set (env1 := env_set (env_set envk x v) (x ++ jk_index) (VInt i)) in *.
    destruct (bout (c_ij cf) m go_print_text denv callee env1 body) as [t|] eqn:Et; [|discriminate].
    destruct (for_out (fun en => bout (c_ij cf) m go_print_text denv callee en body) x env1 (i + 1)%Z r) as [t'|] eqn:Er; [|discriminate].
    inversion Ef; subst text. clear Ef.
    destruct (go_set st x v envk Hn Ha) as (st1 & E1 & S1 & M1 & N1 & T1 & A1).
    destruct (go_set st1 (x ++ jk_index) (VInt i) _ N1 A1) as (st2 & E2 & S2 & M2 & N2 & T2 & A2).
    unfold mbind at 1. rewrite E1. unfold mbind at 1. rewrite E2.
    pose proof (wsame_trans _ _ _ S1 S2) as S12.
    assert (Hc1 : envok env1).
    { apply envok_set; [apply envok_set; [exact Hc|apply Hcore; left; reflexivity]|].
      apply (small_between i (i + Z.of_nat (length (v :: r)))); [cbn [length]; lia|exact Hsm]. }
    destruct (go_block body F st2 t env1 HB Hd (wsame_wok _ _ S12 Hg) A2 Hc1) as (st3 & ws & rv & E3 & W3 & C3 & M3 & X3).
    { rewrite M2, M1, Hm. exact Et. }
    unfold mbind at 1. rewrite E3.
    destruct (IH (i + 1)%Z st3 env1 t') as (st4 & ws4 & E4 & W4 & C4 & M4 & N4 & T4).
    + congruence.
    + exact (wrote_wok _ _ _ W3 (wsame_wok _ _ S12 Hg)).
    + congruence.
    + exact (agrees_ctx _ _ _ X3 A2).
    + exact Hc1.
    + intros v' Hv'. apply Hcore. right. exact Hv'.
    + lia.
    + replace (i + 1 + Z.of_nat (length r))%Z with (i + Z.of_nat (length (v :: r)))%Z by (cbn [length]; lia). exact Hsm.
    + exact Er.
    + exists st4, (ws ++ ws4). split; [exact E4|]. split; [exact (wrote_trans _ _ _ _ _ (wrote_l _ _ _ _ S12 W3) W4)|].
      split; [rewrite concat_b_app; congruence|]. split; [congruence|]. split; [exact N4|congruence].
Qed.

(* the arguments of range(), evaluated in order *)
Lemma go_eval_list F env es : envok env -> (forall y, In y es -> (cdepth y < F)%nat) -> forall zs st1, agrees st1 env ->
  cints (c_ij cf) env es = Some zs ->
  exists st2, eval_list (walk cf F) (map cnode es) st1 = (Ok (map VInt zs), st2) /\ pres st1 st2.
Proof.
  intros Hc. induction es as [|e r IH]; intros Hd zs st1 Ha E; cbn [cints map eval_list] in *.
  - inversion E; subst. exists st1. split; [reflexivity|apply pres_refl].
  - destruct (ceval (c_ij cf) env e) as [[| | |z| | | |]|] eqn:Ee; try discriminate.
    destruct (cints (c_ij cf) env r) as [zr|] eqn:Er; [|discriminate]. inversion E; subst zs. clear E.
    destruct (go_eval F e st1 (VInt z) env Ha Hc (Hd e (or_introl eq_refl)) Ee) as (st2 & E2 & P2).
    unfold mbind at 1. rewrite E2.
    destruct (IH (fun y Hy => Hd y (or_intror Hy)) zr st2 (agrees_pres _ _ _ P2 Ha) eq_refl) as (st3 & E3 & P3).
    unfold mbind at 1. rewrite E3. cbn [ret map]. exists st3. split; [reflexivity|eapply pres_trans; eauto].
Qed.

Lemma range_list_items f i l s : range_list f i l s = range_items f i l s.
Proof. revert i. induction f as [|f IH]; intro i; cbn [range_list range_items]; [reflexivity|]. rewrite IH. reflexivity. Qed.

Lemma fresh_list_or_nil_pres l st1 : exists lid st2, fresh_list_or_nil l st1 = (Ok (VList lid l), st2) /\ pres st1 st2.
Proof.
  unfold fresh_list_or_nil. destruct l as [|v r]; eexists; eexists; (split; [reflexivity|]); [apply pres_refl|repeat split].
Qed.

(* range(..) as the renderer evaluates it: the list of the subset semantics, whatever identity it gets *)
Lemma go_range_eval st F env a1 rest zs a l stp : agrees st env -> envok env ->
  cints (c_ij cf) env (a1 :: rest) = Some zs -> range_args 0%Z 1%Z zs = Some (a, l, stp) -> (0 < stp)%Z ->
  (forall y, In y (a1 :: rest) -> (cdepth y < F)%nat) ->
  small a = true /\ small l = true /\
  forall st1, agrees st1 env ->
    exists lid, mok (eval (walk cf (S F)) (NFunc 0 jn_range (cnode a1 :: map cnode rest))) st1
                    (VList lid (range_items (Z.to_nat (Z.max 0 (l - a))) a l stp)).
Proof.
  intros Ha Hc Hci Hr Hst Hd.
  (* each argument is core data *)
  assert (Hcore : forall e z, ceval (c_ij cf) env e = Some (VInt z) -> small z = true).
  { intros e z He. apply (ceval_core cf st) with (e := e) (v := VInt z); auto.
    - intros k y Hk. rewrite (proj1 Ha) in Hk. eapply Hc; eauto.
    - rewrite (ceval_ext _ _ env (proj1 Ha)). exact He. }
  destruct (range_cnt_bound a l stp Hst) as (C0 & C1 & C2).
  (* the list with the renderer's fuel *)
  assert (Hgo : forall fuel, (range_cnt a l stp <= Z.of_nat fuel)%Z ->
            range_list fuel a l stp = range_items (Z.to_nat (Z.max 0 (l - a))) a l stp).
  { intros fuel Hfu. rewrite range_list_items, !(range_items_spec stp l Hst) by lia. reflexivity. }
  assert (Hmain : small a = true /\ small l = true /\
            apply_func jn_range (map VInt zs) = Ok (FNewList (range_items (Z.to_nat (Z.max 0 (l - a))) a l stp))
            /\ (length zs = length (a1 :: rest)) /\ (1 <= length zs <= 3)%nat).
  { cbn [cints] in Hci. destruct (ceval (c_ij cf) env a1) as [[| | |z1| | | |]|] eqn:E1; try discriminate. pose proof (Hcore a1 z1 E1) as S1.
    destruct rest as [|e2 rest].
    - cbn [cints] in Hci. inversion Hci; subst zs. cbn [range_args] in Hr. inversion Hr; subst. split; [reflexivity|]. split; [exact S1|].
      split; [|cbn; lia]. cbn [map]. change (apply_func jn_range [VInt l]) with (Ok (FNewList (range_list (Z.to_nat l) 0 l 1))).
      rewrite Hgo; [reflexivity|]. unfold range_cnt. rewrite Z.div_1_r. lia.
    - cbn [cints] in Hci. destruct (ceval (c_ij cf) env e2) as [[| | |z2| | | |]|] eqn:E2; try discriminate. pose proof (Hcore e2 z2 E2) as S2.
      destruct rest as [|e3 rest].
      + cbn [cints] in Hci. inversion Hci; subst zs. cbn [range_args] in Hr. inversion Hr; subst. split; [exact S1|]. split; [exact S2|].
        split; [|cbn; lia]. cbn [map]. change (apply_func jn_range [VInt a; VInt l]) with (Ok (FNewList (range_list (Z.to_nat (l - a)) a l 1))).
        rewrite Hgo; [reflexivity|]. unfold range_cnt. rewrite Z.div_1_r. lia.
      + cbn [cints] in Hci. destruct (ceval (c_ij cf) env e3) as [[| | |z3| | | |]|] eqn:E3; try discriminate.
        destruct rest as [|e4 rest].
        * cbn [cints] in Hci. inversion Hci; subst zs. cbn [range_args] in Hr. inversion Hr; subst. split; [exact S1|]. split; [exact S2|].
          split; [|cbn; lia]. cbn [map].
          change (apply_func jn_range [VInt a; VInt l; VInt stp])
            with (if (stp <=? 0)%Z then Err e_range else Ok (FNewList (range_list (Z.to_nat ((l - a) / stp + 1)) a l stp))).
          replace (stp <=? 0)%Z with false by (symmetry; apply Z.leb_gt; lia).
          rewrite Hgo; [reflexivity|]. unfold range_cnt.
          assert ((l - a + stp - 1) / stp <= (l - a) / stp + 1)%Z.
          { replace ((l - a) / stp + 1)%Z with ((l - a + 1 * stp) / stp)%Z by (rewrite Z.div_add by lia; reflexivity).
            apply Z.div_le_mono; lia. }
          lia.
        * cbn [cints] in Hci. destruct (ceval (c_ij cf) env e4) as [[| | |z4| | | |]|]; try discriminate.
          destruct (cints (c_ij cf) env rest) as [zr|]; try discriminate. inversion Hci; subst zs. cbn [range_args] in Hr. discriminate. }
  destruct Hmain as (Ssa & Ssl & Happ & Hlz & Hlz3). split; [exact Ssa|]. split; [exact Ssl|].
  intros st1 Ha1.
  destruct (go_eval_list F env (a1 :: rest) Hc Hd zs (set_cur st1 0) (agrees_pres _ _ _ (pres_set_cur _ _) Ha1) Hci)
    as (st2 & E2 & P2).
  destruct (fresh_list_or_nil_pres (range_items (Z.to_nat (Z.max 0 (l - a))) a l stp) st2) as (lid & st3 & E3 & P3).
  exists lid. apply mok_eval. apply walk_S. cbn [walk_node pos_of].
  replace (fn_is jn_range n_index || fn_is jn_range n_isFirst || fn_is jn_range n_isLast) with false by reflexivity.
  exists st3. split; [|eapply pres_trans; eauto].
  unfold call_func. replace (func_arities jn_range) with (Some [1; 2; 3]) by (vm_compute; reflexivity).
  change (cnode a1 :: map cnode rest) with (map cnode (a1 :: rest)). rewrite map_length, <- Hlz.
  replace (negb (mem (N.of_nat (length zs)) [1; 2; 3])) with false
    by (destruct zs as [|? [|? [|? [|? ?]]]]; cbn [length] in Hlz3; try lia; reflexivity).
  unfold mbind at 1. rewrite E2. unfold mbind at 1. rewrite Happ. cbn [lift]. exact E3.
Qed.

(* what a loop over the list l writes *)
Definition for_text (m : N) (x : bstr) (body : cblk) (hasie : bool) (ie : cblk) (env : bstr -> option value) (l : list value) (text : bstr) : Prop :=
  match l with
  | [] => if hasie then bout (c_ij cf) m go_print_text denv callee env ie = Some text else text = []
  | _ :: _ => for_out (fun en => bout (c_ij cf) m go_print_text denv callee en body) x (env_set env (x ++ c_lastindex) (VInt (Z.of_nat (length l) - 1))) 0%Z l = Some text
  end.

(* visitFor / evalFor once the list expression has its value: foreach and for-range share it *)
Lemma go_for_walk x lst body hasie ie (IHb : GP_b body) (IHi : GP_b ie) F st l text env :
  (cfuel + bdepth body < F)%nat -> (cfuel + bdepth ie < F)%nat -> wok st -> ctx st <> [] -> agrees st env -> envok env ->
  (forall st1, pres st st1 -> exists lid, mok (eval (walk cf F) lst) st1 (VList lid l)) ->
  small (Z.of_nat (length l)) = true -> forallb core_value l = true ->
  for_text (mode st) x body hasie ie env l text ->
  bres (walk cf (S F) (NFor 0 x lst (NList 0 (bnodes body)) (if hasie then Some (NList 0 (bnodes ie)) else None))) st text.
Proof.
  intros Hdb Hdi Hg Hn Ha Hc Hev Hsm Hcl Hout.
  unfold bres0. rewrite walk_unfold. cbn [walk_node].
  match goal with |- context [set_cur st ?p] => set (st1 := set_cur st p) end.
  assert (P1 : pres st st1) by apply pres_set_cur.
  destruct (Hev st1 P1) as (lid & st2 & E2 & P2).
  pose proof (pres_trans _ _ _ P1 P2) as P. assert (Mo : mode st2 = mode st) by apply P.
  pose proof (wsame_wok _ _ (pres_wsame _ _ P) Hg) as Hg2.
  pose proof (agrees_pres _ _ _ P Ha) as Ha2.
  unfold for_text in Hout. destruct l as [|v0 r0].
  - (* the empty list *)
    destruct hasie.
    + unfold mbind at 1. rewrite E2.
      apply (bres0_pres st _ st2 text P). apply bres0_ret. apply (go_block ie F st2 text env); auto. rewrite Mo. exact Hout.
    + subst text. unfold mbind at 1. rewrite E2. exists st2, [], VUndef. split; [reflexivity|].
      split; [apply wsame_wrote; exact (pres_wsame _ _ P)|]. split; [reflexivity|]. split; [exact Mo|apply P].
  - (* at least one element *)
    unfold mbind at 1. rewrite E2. cbn iota.
    set (l := v0 :: r0) in *. set (last := (Z.of_nat (length l) - 1)%Z) in *.
    unfold mbind at 1. unfold m_push. cbn [modify].
    set (stp := set_ctx st2 (sc_push (ctx st2))).
    assert (Sp : wsame st2 stp) by (subst stp; repeat split).
    assert (Ap : agrees stp env) by (subst stp; apply agrees_push; exact Ha2).
    assert (Np : ctx stp <> []) by (subst stp; cbn; discriminate).
    change s_lastindex with c_lastindex.
    destruct (go_set stp (x ++ c_lastindex) (VInt last) env Np Ap) as (st3 & E3 & S3 & M3 & N3 & T3 & A3).
    unfold mbind at 1. fold last. rewrite E3.
    assert (Hlast : small last = true) by (apply (small_between last (Z.of_nat (length l))); [subst last l; cbn [length]; lia|exact Hsm]).
    destruct (go_rounds body IHb F x (mode st) Hdb l 0%Z st3 (env_set env (x ++ c_lastindex) (VInt last)) text) as (st4 & ws & E4 & W4 & C4 & M4 & N4 & T4).
    + rewrite M3. subst stp. cbn. exact Mo.
    + exact (wsame_wok _ _ (wsame_trans _ _ _ Sp S3) Hg2).
    + exact N3.
    + exact A3.
    + apply envok_set; [exact Hc|exact Hlast].
    + intros v Hv. exact (proj1 (forallb_forall _ _) Hcl v Hv).
    + lia.
    + exact Hsm.
    + exact Hout.
    + unfold mbind at 1. rewrite E4. unfold mbind at 1. unfold m_pop. cbn [modify ret].
      exists (set_ctx st4 (sc_pop (ctx st4))), ws, VUndef. split; [reflexivity|].
      split; [apply (wrote_r _ st4); [|repeat split];
              exact (wrote_l _ _ _ _ (wsame_trans _ _ _ (pres_wsame _ _ P) (wsame_trans _ _ _ Sp S3)) W4)|].
      split; [exact C4|]. cbn [set_ctx ctx mode]. split; [rewrite M4, M3; subst stp; cbn; exact Mo|].
      unfold sc_pop. rewrite T4, T3. subst stp. cbn. apply P.
Qed.

(* walkMsgBody on the children of a message without plural: raw text is walked, a placeholder's body is walked *)
Lemma go_msg_body F body : msg_ok body = true -> forall st,
  msg_body (walk cf F) 0 (mnodes body) st = walk_list (walk cf F) (bnodes body) st.
Proof.
  induction body as [|s r IH]; intros Hm st; [reflexivity|]. cbn [msg_ok] in Hm. apply andb_prop in Hm. destruct Hm as [Hs Hr].
  cbn [mnodes bnodes]. fold bnodes.
  assert (Hstep : forall x, msg_body (walk cf F) 0 (x :: mnodes r) st = (_ <-- walk cf F (snode s) ;;; msg_body (walk cf F) 0 (mnodes r)) st ->
                  msg_body (walk cf F) 0 (x :: mnodes r) st = walk_list (walk cf F) (snode s :: bnodes r) st).
  { intros x Hx. rewrite Hx. cbn [walk_list]. unfold mbind. destruct (walk cf F (snode s) st) as [[v| | | | |] st1]; try reflexivity. apply IH; exact Hr. }
  destruct s; try discriminate Hs; apply Hstep; reflexivity.
Qed.

(* a message without plural, from its block *)
Lemma go_msg_stmt body : GP_b body -> GP_s (SMsg body).
Proof.
  intros IHb f st text env env' Hf Hg Hn Ha Hc E. rewrite sout_msg in E.
    destruct (msg_ok body) eqn:Hm; [|discriminate].
    destruct (bout (c_ij cf) (mode st) go_print_text denv callee env body) as [t|] eqn:Et; [|discriminate]. inversion E; subst. clear E.
    rewrite sdepth_msg in Hf. destruct f as [|F]; [lia|]. unfold sres. rewrite walk_unfold, snode_msg. cbn [walk_node].
    match goal with |- context [set_cur st ?p] => set (st1 := set_cur st p) end.
    assert (P1 : pres st st1) by apply pres_set_cur. pose proof P1 as (C1 & M1 & _).
    destruct (IHb F st1 text env' ltac:(lia) (wsame_wok _ _ (pres_wsame _ _ P1) Hg) ltac:(congruence) (agrees_pres _ _ _ P1 Ha) Hc)
      as (st2 & ws & E2 & W2 & T2 & M2 & X2 & A2). { rewrite M1. exact Et. }
    unfold mbind at 1. rewrite (go_msg_body F body Hm), E2. cbn [ret].
    exists st2, ws, VUndef. split; [reflexivity|]. split; [exact (wrote_l _ _ _ _ (pres_wsame _ _ P1) W2)|]. split; [exact T2|].
    split; [congruence|]. split; [exact (dinv_nonempty _ (proj2 (A2 Hm)))|]. split; [congruence|exact (A2 Hm)].
Qed.

Lemma go_mbind_ok {A B} (m : M A) (f : A -> M B) st x st' r : m st = (Ok x, st') -> f x st' = r -> mbind m f st = r.
Proof. intros H <-. unfold mbind. rewrite H. reflexivity. Qed.

(* walkPlural's choice walks the body as a message *)
Lemma go_plural_body b F st text env : GP_b b -> (cfuel + S (bdepth b) < F)%nat -> wok st -> ctx st <> [] -> agrees st env -> envok env ->
  (if msg_ok b then bout (c_ij cf) (mode st) go_print_text denv callee env b else None) = Some text ->
  exists st' ws, (_ <-- walk cf F (NMsg 0 0 [] [] (mnodes b)) ;;; ret tt) st = (Ok tt, st') /\ wrote st st' ws /\ concat_b ws = text
                 /\ mode st' = mode st /\ ctx st' <> [] /\ tl (ctx st') = tl (ctx st) /\ agrees st' env.
Proof.
  intros IHb Hf Hg Hn Ha Hc E.
  destruct (go_msg_stmt b IHb F st text env env ltac:(rewrite sdepth_msg; lia) Hg Hn Ha Hc) as (st' & ws & rv & E1 & W & T & Mo & N & Tl & A).
  { rewrite sout_msg. destruct (msg_ok b); [|discriminate]. rewrite E. reflexivity. }
  rewrite snode_msg in E1. exists st', ws. split; [exact (go_mbind_ok _ _ _ _ _ _ E1 eq_refl)|]. split; [exact W|]. split; [exact T|]. split; [exact Mo|]. split; [exact N|]. split; [exact Tl|exact A].
Qed.

Theorem interp_all : (forall s, GP_s s) /\ (forall b, GP_b b) /\ (forall e, GP_e e) /\ (forall k, GP_k k) /\ (forall ps, GP_p ps) /\ (forall q, GP_q q).
Proof.
  apply cstmt_mutind.
  - (* raw text *) intros t f st text env env' Hf Hg Hn Ha Hc E. rewrite sout_raw in E. inversion E; subst.
    apply bres_sres; auto. destruct f as [|f]; [cbn in Hf; lia|]. unfold bres0. rewrite walk_unfold, snode_raw. cbn [walk_node].
    match goal with |- context [set_cur st ?p] => set (st1 := set_cur st p) end.
    assert (P1 : pres st st1) by apply pres_set_cur.
    destruct (write_wok text st1 (wsame_wok _ _ (pres_wsame _ _ P1) Hg)) as (st2 & E2 & W2 & C2 & M2).
    unfold mbind at 1. rewrite E2. exists st2, [text], VUndef. split; [reflexivity|].
    split; [exact (wrote_l _ _ _ _ (pres_wsame _ _ P1) W2)|]. split; [cbn; apply app_nil_r|]. split; [exact M2|exact C2].
  - (* print *) intros e ds f st text env env' Hf Hg Hn Ha Hc E. rewrite sout_print in E.
    destruct (ceval (c_ij cf) env e) as [v|] eqn:Ev; [|discriminate]. destruct (scalar_string v) as [str|] eqn:Es; [|discriminate].
    destruct (cleanb str); [|discriminate]. inversion E; subst. clear E.
    apply bres_sres; auto. rewrite snode_print.
    destruct (scalar_string_ok v str Es) as (Hp & Hvs & _).
    assert (Ev' : ceval (c_ij cf) (sc_lookup (ctx st)) e = Some v) by (rewrite (ceval_ext _ _ env' (proj1 Ha)); exact Ev).
    destruct (interp_print_dirs_w cf e ds f st v str Hob Hg) as (st' & ws & E1 & W1 & C1 & X1 & M1); auto.
    + intros k x Hk. rewrite (proj1 Ha) in Hk. eapply Hc; eauto.
    + cbn [sdepth] in Hf. lia.
    + destruct v; try discriminate; discriminate.
    + exists st', ws, VUndef. split; [exact E1|]. split; [exact W1|]. split; [exact C1|]. split; [exact M1|exact X1].
  - (* let *) intros name e f st text env env' Hf Hg Hn Ha Hc E. rewrite sout_let in E.
    destruct (bstr_eqb name n_ij); [discriminate|]. destruct (is_ident name); [|discriminate].
    destruct (ceval (c_ij cf) env e) as [v|] eqn:Ev; [|discriminate]. inversion E; subst. clear E.
    cbn [sdepth] in Hf. destruct f as [|f]; [lia|]. unfold sres. rewrite walk_unfold, snode_let. cbn [walk_node].
    match goal with |- context [set_cur st ?p] => set (st1 := set_cur st p) end.
    assert (P1 : pres st st1) by apply pres_set_cur.
    destruct (go_eval f e st1 v env (agrees_pres _ _ _ P1 Ha) Hc ltac:(lia) Ev) as (st2 & E2 & P2).
    pose proof (pres_trans _ _ _ P1 P2) as P. pose proof P as (C & Mo & _).
    unfold mbind at 1. rewrite E2.
    destruct (go_set st2 name v env ltac:(congruence) (agrees_pres _ _ _ P Ha)) as (st3 & E3 & S3 & M3 & N3 & T3 & A3).
    unfold mbind at 1. rewrite E3. cbn [ret]. exists st3, [], VUndef. split; [reflexivity|].
    split; [apply wsame_wrote; exact (wsame_trans _ _ _ (pres_wsame _ _ P) S3)|]. split; [reflexivity|]. split; [congruence|].
    split; [exact N3|]. split; [congruence|exact A3].
  - (* let, content form *) intros name body IHb f st text env env' Hf Hg Hn Ha Hc E. rewrite sout_letc in E.
    destruct (bstr_eqb name n_ij); [discriminate|]. destruct (is_ident name); [|discriminate].
    destruct (bout (c_ij cf) (mode st) go_print_text denv callee env body) as [t|] eqn:Et; [|discriminate]. inversion E; subst. clear E.
    rewrite sdepth_letc in Hf. destruct f as [|F]; [lia|]. unfold sres. rewrite walk_unfold, snode_letc. cbn [walk_node].
    match goal with |- context [set_cur st ?p] => set (st1 := set_cur st p) end.
    assert (P1 : pres st st1) by apply pres_set_cur. pose proof P1 as (C1 & Mo1 & _).
    destruct (go_render_block body F st1 t env IHb ltac:(lia) (agrees_pres _ _ _ P1 Ha) Hc) as (st4 & E4 & S4 & C4 & M4).
    { rewrite Mo1. exact Et. }
    unfold mbind at 1. rewrite E4.
    destruct (go_set st4 name (VStr t) env ltac:(congruence) (agrees_ctx _ _ _ (eq_trans C4 C1) Ha)) as (st5 & E5 & S5 & M5 & N5 & T5 & A5).
    unfold mbind at 1. rewrite E5. cbn [ret]. exists st5, [], VUndef. split; [reflexivity|].
    split; [apply wsame_wrote; exact (wsame_trans _ _ _ (wsame_trans _ _ _ (pres_wsame _ _ P1) S4) S5)|]. split; [reflexivity|].
    split; [congruence|]. split; [exact N5|]. split; [congruence|exact A5].
  - (* if *) intros c th IHt rest IHr f st text env env' Hf Hg Hn Ha Hc E. rewrite sout_if in E.
    destruct (ceval (c_ij cf) env c) as [v|] eqn:Ev; [|discriminate].
    destruct (if truthy v then bout (c_ij cf) (mode st) go_print_text denv callee env th else eout (c_ij cf) (mode st) go_print_text denv callee env rest) as [t|] eqn:Et; [|discriminate].
    inversion E; subst. clear E. apply bres_sres; auto.
    rewrite sdepth_if in Hf. destruct f as [|F]; [lia|]. unfold bres0. rewrite walk_unfold, snode_if. cbn [walk_node if_conds].
    match goal with |- context [set_cur st ?p] => set (st1 := set_cur st p) end.
    assert (P1 : pres st st1) by apply pres_set_cur.
    destruct (go_eval F c st1 v env' (agrees_pres _ _ _ P1 Ha) Hc ltac:(lia) Ev) as (st2 & E2 & P2).
    pose proof (pres_trans _ _ _ P1 P2) as P. unfold mbind at 1. rewrite E2.
    assert (Mo : mode st2 = mode st) by apply P.
    pose proof (wsame_wok _ _ (pres_wsame _ _ P) Hg) as Hg2.
    destruct (truthy v).
    + apply (bres0_pres st _ st2 text P). apply bres0_ret. apply (go_block th F st2 text env'); auto.
      * lia. * eapply agrees_pres; eauto. * rewrite Mo. exact Et.
    + apply (bres0_pres st _ st2 text P). apply (IHr F st2 text env'); auto.
      * lia. * eapply agrees_pres; eauto. * rewrite Mo. exact Et.
  - (* switch *) intros v cs IHk f st text env env' Hf Hg Hn Ha Hc E. rewrite sout_switch in E.
    destruct (ceval (c_ij cf) env v) as [sv|] eqn:Ev; [|discriminate]. destruct (prim_value sv); [|discriminate].
    destruct (kout (c_ij cf) (mode st) go_print_text denv callee env sv cs) as [t|] eqn:Et; [|discriminate]. inversion E; subst. clear E.
    apply bres_sres; auto.
    rewrite sdepth_switch in Hf. destruct f as [|F]; [lia|]. unfold bres0. rewrite walk_unfold, snode_switch. cbn [walk_node].
    match goal with |- context [set_cur st ?p] => set (st1 := set_cur st p) end.
    assert (P1 : pres st st1) by apply pres_set_cur.
    destruct (go_eval F v st1 sv env' (agrees_pres _ _ _ P1 Ha) Hc ltac:(lia) Ev) as (st2 & E2 & P2).
    pose proof (pres_trans _ _ _ P1 P2) as P. unfold mbind at 1. rewrite E2.
    assert (Mo : mode st2 = mode st) by apply P.
    pose proof (wsame_wok _ _ (pres_wsame _ _ P) Hg) as Hg2.
    apply (bres0_pres st _ st2 text P). apply (IHk F st2 text env' sv); auto.
    * lia. * eapply agrees_pres; eauto. * rewrite Mo. exact Et.
  - (* foreach *) intros x e body IHb hasie ie IHi f st text env env' Hf Hg Hn Ha Hc E. rewrite sout_for in E.
    destruct (is_ident x && negb (bstr_eqb x n_ij)); [|discriminate].
    destruct (ceval (c_ij cf) env e) as [[| | | | | |lid l|]|] eqn:Ev; try discriminate.
    destruct (small (Z.of_nat (length l))) eqn:Hsm; [|discriminate].
    assert (Hcl : forallb core_value l = true).
    { apply (ceval_core cf st) with (e := e) (v := VList lid l); auto.
      - intros k y Hk. rewrite (proj1 Ha) in Hk. eapply Hc; eauto.
      - rewrite (ceval_ext _ _ env (proj1 Ha)). exact Ev. }
    rewrite sdepth_for in Hf. destruct f as [|F]; [lia|]. rewrite snode_for.
    assert (Hout : env' = env /\ for_text (mode st) x body hasie ie env l text).
    { unfold for_text. destruct l as [|v0 r0].
      - destruct hasie; [destruct (bout (c_ij cf) (mode st) go_print_text denv callee env ie); [|discriminate]|]; inversion E; auto.
      - destruct (for_out _ _ _ _ _); [|discriminate]. inversion E; auto. }
    destruct Hout as [-> Hout]. apply bres_sres; auto.
    apply (go_for_walk x (cnode e) body hasie ie IHb IHi F st l text env); auto; try lia.
    intros st1 P1. exists lid. apply (go_eval F e st1 (VList lid l) env (agrees_pres _ _ _ P1 Ha) Hc ltac:(lia) Ev).
  - (* for over range() *) intros x a1 rest body IHb hasie ie IHi f st text env env' Hf Hg Hn Ha Hc E. rewrite sout_forrange in E.
    destruct (is_ident x && negb (bstr_eqb x n_ij)); [|discriminate].
    destruct (cints (c_ij cf) env (a1 :: rest)) as [zs|] eqn:Hci; [|discriminate].
    destruct (range_args 0%Z 1%Z zs) as [[[a l] stp]|] eqn:Hr; [|discriminate].
    destruct (0 <? stp)%Z eqn:Hst; [|discriminate]. destruct (small (l - a)) eqn:Hsd; [|discriminate]. cbn [andb] in E. cbn zeta in E.
    apply Z.ltb_lt in Hst.
    rewrite sdepth_forrange in Hf. destruct f as [|F]; [lia|]. destruct F as [|F']; [lia|]. rewrite snode_forrange.
    set (items := range_items (Z.to_nat (Z.max 0 (l - a))) a l stp) in *.
    destruct (range_cnt_bound a l stp Hst) as (C0 & C1 & C2).
    assert (Hspec : items = lin_list (Z.to_nat (range_cnt a l stp)) a stp) by (apply range_items_spec; [exact Hst|lia]).
    assert (Hlen : Z.of_nat (length items) = range_cnt a l stp) by (rewrite Hspec, lin_list_length; lia).
    assert (Hdep : forall y, In y (a1 :: rest) -> (cdepth y < F')%nat).
    { intros y [<-|Hy]; [lia|]. pose proof (cdepths_le y rest Hy). lia. }
    destruct (go_range_eval st F' env a1 rest zs a l stp Ha Hc Hci Hr Hst Hdep) as (Ssa & Ssl & Hev). fold items in Hev.
    assert (Hsm : small (Z.of_nat (length items)) = true).
    { rewrite Hlen. unfold small in *. apply Z.leb_le in Hsd. apply Z.leb_le. lia. }
    assert (Hcl : forallb core_value items = true).
    { apply forallb_forall. intros v Hv. destruct (in_split v items Hv) as (pre & r & Hs). rewrite Hspec in Hs.
      rewrite (lin_list_mid stp pre _ a v r Hs). cbn [core_value]. apply (small_in a l); [exact Ssa|exact Ssl|].
      assert (Hl2 : length (lin_list (Z.to_nat (range_cnt a l stp)) a stp) = (length pre + S (length r))%nat) by (rewrite Hs, app_length; reflexivity).
      rewrite lin_list_length in Hl2. left. clear - Hl2 C0 C1 C2 Hst. nia. }
    assert (Hout : env' = env /\ for_text (mode st) x body hasie ie env items text).
    { unfold for_text. destruct items as [|v0 r0].
      - destruct hasie; [destruct (bout (c_ij cf) (mode st) go_print_text denv callee env ie); [|discriminate]|]; inversion E; auto.
      - destruct (for_out _ _ _ _ _); [|discriminate]. inversion E; auto. }
    destruct Hout as [-> Hout]. apply bres_sres; auto.
    apply (go_for_walk x _ body hasie ie IHb IHi (S F') st items text env); auto; try lia.
    intros st1 P1. apply Hev. exact (agrees_pres _ _ _ P1 Ha).
  - (* css *) intros e sfx f st text env env' Hf Hg Hn Ha Hc E. rewrite sout_css in E.
    rewrite sdepth_css in Hf. destruct f as [|F]; [lia|].
    assert (Hmain : env' = env /\ bres (walk cf (S F) (snode (SCss e sfx))) st text).
    { unfold bres0. rewrite walk_unfold, snode_css. cbn [walk_node].
      match goal with |- context [set_cur st ?p] => set (st1 := set_cur st p) end.
      assert (P1 : pres st st1) by apply pres_set_cur.
      destruct e as [x|].
      - destruct (ceval (c_ij cf) env x) as [v|] eqn:Ev; [|discriminate]. destruct (scalar_string v) as [str|] eqn:Es; [|discriminate].
        inversion E; subst. clear E. split; [reflexivity|].
        destruct (scalar_string_ok v str Es) as (_ & Hvs & _).
        destruct (go_eval F x st1 v env' (agrees_pres _ _ _ P1 Ha) Hc ltac:(lia) Ev) as (st2 & E2 & P2).
        pose proof (pres_trans _ _ _ P1 P2) as P.
        unfold mbind at 1. unfold mbind at 1. rewrite E2. unfold mbind at 1. rewrite Hvs. cbn [lift ret]. change s_dash with [45].
        destruct (write_wok ((str ++ [45]) ++ sfx) st2 (wsame_wok _ _ (pres_wsame _ _ P) Hg)) as (st3 & E3 & W3 & C3 & M3).
        unfold mbind at 1. rewrite E3. exists st3, [(str ++ [45]) ++ sfx], VUndef. split; [reflexivity|].
        split; [exact (wrote_l _ _ _ _ (pres_wsame _ _ P) W3)|]. split; [cbn; apply app_nil_r|].
        split; [rewrite M3; apply P|rewrite C3; apply P].
      - inversion E; subst. clear E. split; [reflexivity|].
        unfold mbind at 1. cbn [ret app].
        destruct (write_wok text st1 (wsame_wok _ _ (pres_wsame _ _ P1) Hg)) as (st3 & E3 & W3 & C3 & M3).
        unfold mbind at 1. rewrite E3. exists st3, [text], VUndef. split; [reflexivity|].
        split; [exact (wrote_l _ _ _ _ (pres_wsame _ _ P1) W3)|]. split; [cbn; apply app_nil_r|]. split; [exact M3|exact C3]. }
    destruct Hmain as (-> & Hbres). apply bres_sres; auto.
  - (* call *) intros name d ps IHp f st text env env' Hf Hg Hn Ha Hc E. rewrite sout_call in E.
    destruct (cdata_env (c_ij cf) denv env d) as [base|] eqn:Ed; [|discriminate].
    destruct (pout (c_ij cf) (mode st) go_print_text denv callee env ps base) as [cenv|] eqn:Ep; [|discriminate].
    destruct (callee name cenv) as [t|] eqn:Ec; [|discriminate]. inversion E; subst. clear E.
    destruct (Hfind name cenv text Ec) as (tm & Eft & Hrun).
    apply bres_sres; auto. rewrite sdepth_call in Hf. destruct f as [|F]; [lia|]. unfold bres0. rewrite walk_unfold, snode_call. cbn [walk_node]. rewrite Eft.
    match goal with |- context [set_cur st ?p] => set (st1 := set_cur st p) end.
    assert (P1 : pres st st1) by apply pres_set_cur.
    destruct (go_call_data F d st1 env' base (agrees_pres _ _ _ P1 Ha) Hc ltac:(lia) Ed) as (cd & st2 & E2 & P2 & Ncd & Lcd & Hbase).
    unfold mbind at 1. rewrite E2.
    pose proof (pres_trans _ _ _ P1 P2) as P12.
    destruct (IHp F st2 cd base cenv env' ltac:(lia) (agrees_pres _ _ _ P12 Ha) Hc) as (cd' & st3 & E3 & P3 & Ncd' & Lcd' & Hcenv); auto.
    { rewrite (proj1 (proj2 P12)). exact Ep. }
    unfold mbind at 1. rewrite E3. unfold mbind at 1. cbn [modify].
    pose proof (pres_trans _ _ _ P12 P3) as P13.
    set (st4 := set_cur st3 0).
    assert (P4 : pres st st4) by (eapply pres_trans; [exact P13|apply pres_set_cur]).
    destruct (Hrun F st4 cd' ltac:(lia) (wsame_wok _ _ (pres_wsame _ _ P4) Hg) Ncd' Lcd' Hcenv) as (st5 & ws & rv & E5 & W5 & C5 & M5 & X5).
    exists st5, ws, rv. split; [exact E5|]. split; [exact (wrote_l _ _ _ _ (pres_wsame _ _ P4) W5)|]. split; [exact C5|].
    pose proof P4 as (C4 & M4 & _). split; congruence.
  - (* msg *) exact go_msg_stmt.
  - (* msg with a plural *) intros pn v q IHq f st text env env' Hf Hg Hn Ha Hc E. rewrite sout_msgpl in E.
    destruct (ceval (c_ij cf) env v) as [sv|] eqn:Ev; [|discriminate]. destruct sv as [| | |i| | | |]; try discriminate E.
    destruct (qout (c_ij cf) (mode st) go_print_text denv callee env i q) as [t|] eqn:Et; [|discriminate]. inversion E; subst. clear E.
    rewrite sdepth_msgpl in Hf. destruct f as [|F]; [lia|]. unfold sres. rewrite walk_unfold, snode_msgpl. cbn [walk_node].
    match goal with |- context [set_cur st ?p] => set (st1 := set_cur st p) end.
    assert (P1 : pres st st1) by apply pres_set_cur.
    destruct (go_eval F v st1 (VInt i) env' (agrees_pres _ _ _ P1 Ha) Hc ltac:(lia) Ev) as (st2 & E2 & P2).
    pose proof (pres_trans _ _ _ P1 P2) as P12. pose proof P12 as (C12 & M12 & _).
    destruct (IHq F st2 text env' i ltac:(lia) (wsame_wok _ _ (pres_wsame _ _ P12) Hg) ltac:(congruence) (agrees_pres _ _ _ P12 Ha) Hc)
      as (st3 & ws & E3 & W3 & T3 & M3 & N3 & Tl3 & A3). { rewrite M12. exact Et. }
    exists st3, ws, VUndef.
    split. { eapply go_mbind_ok; [|reflexivity]. cbn [msg_body]. eapply go_mbind_ok; [exact E2|]. cbn iota. eapply go_mbind_ok; [exact E3|reflexivity]. }
    split; [exact (wrote_l _ _ _ _ (pres_wsame _ _ P12) W3)|]. split; [exact T3|].
    split; [congruence|]. split; [exact N3|]. split; [congruence|exact A3].
  - (* BNil *) intros f st text env Hf Hg Hn Ha Hc E. rewrite bout_nil in E. inversion E; subst. exists st, [].
    split; [reflexivity|]. split; [apply wsame_wrote, wsame_refl|auto].
  - (* BCons *) intros s IHs r IHr f st text env Hf Hg Hn Ha Hc E. rewrite bout_cons in E. rewrite bdepth_cons in Hf.
    destruct (sout (c_ij cf) (mode st) go_print_text denv callee env s) as [[a env1]|] eqn:Ea; [|discriminate].
    destruct (bout (c_ij cf) (mode st) go_print_text denv callee env1 r) as [c0|] eqn:Er; [|discriminate]. inversion E; subst. clear E.
    destruct (IHs f st a env env1 ltac:(lia) Hg Hn Ha Hc Ea) as (st1 & ws1 & rv & E1 & W1 & C1 & M1 & N1 & T1 & A1).
    rewrite bnodes_cons. cbn [walk_list]. unfold mbind at 1. rewrite E1.
    destruct (IHr f st1 c0 env1 ltac:(lia) (wrote_wok _ _ _ W1 Hg) N1 A1 (go_envok st _ env s a env1 Ha Hc Ea)) as (st2 & ws2 & E2 & W2 & C2 & M2 & T2 & Am2).
    { rewrite M1. exact Er. }
    exists st2, (ws1 ++ ws2). split; [exact E2|]. split; [exact (wrote_trans _ _ _ _ _ W1 W2)|].
    split; [rewrite concat_b_app; congruence|]. split; [congruence|]. split; [congruence|].
    intro Hm. cbn [msg_ok] in Hm. apply andb_prop in Hm. destruct Hm as [Hs Hr].
    replace env with env1; [exact (Am2 Hr)|].
    destruct s; try discriminate Hs.
    + rewrite sout_raw in Ea. inversion Ea; reflexivity.
    + rewrite sout_print in Ea. destruct (ceval (c_ij cf) env e); [|discriminate]. destruct (scalar_string v); [|discriminate].
      destruct (cleanb b); [|discriminate]. inversion Ea; reflexivity.
    + rewrite sout_call in Ea. destruct (cdata_env _ _ _ _); [|discriminate]. destruct (pout _ _ _ _ _ _ _ _); [|discriminate].
      destruct (callee _ _); [|discriminate]. inversion Ea; reflexivity.
  - (* ENone *) intros F st text env Hf Hg Ha Hc E. rewrite eout_none in E. inversion E; subst. exists st, [], VUndef.
    split; [reflexivity|]. split; [apply wsame_wrote, wsame_refl|auto].
  - (* EElse *) intros b IHb F st text env Hf Hg Ha Hc E. rewrite eout_else in E. rewrite edepth_else in Hf.
    rewrite enodes_else. cbn [if_conds]. apply bres0_ret. apply (go_block b F st text env); auto.
  - (* EElif *) intros c th IHt rest IHr F st text env Hf Hg Ha Hc E. rewrite eout_elif in E. rewrite edepth_elif in Hf.
    destruct (ceval (c_ij cf) env c) as [v|] eqn:Ev; [|discriminate].
    rewrite enodes_elif. cbn [if_conds].
    destruct (go_eval F c st v env Ha Hc ltac:(lia) Ev) as (st2 & E2 & P). unfold bres0. unfold mbind at 1. rewrite E2.
    assert (Mo : mode st2 = mode st) by apply P.
    pose proof (wsame_wok _ _ (pres_wsame _ _ P) Hg) as Hg2.
    destruct (truthy v).
    + apply (bres0_pres st _ st2 text P). apply bres0_ret. apply (go_block th F st2 text env); auto.
      * lia. * eapply agrees_pres; eauto. * rewrite Mo. exact E.
    + apply (bres0_pres st _ st2 text P). apply (IHr F st2 text env); auto.
      * lia. * eapply agrees_pres; eauto. * rewrite Mo. exact E.
  - (* KNone *) intros F st text env sv Hf Hg Ha Hc E. rewrite kout_none in E. inversion E; subst. exists st, [], VUndef.
    split; [reflexivity|]. split; [apply wsame_wrote, wsame_refl|auto].
  - (* KDefault *) intros b IHb F st text env sv Hf Hg Ha Hc E. rewrite kout_default in E. rewrite kdepth_default in Hf.
    rewrite knodes_default. cbn [switch_cases case_hit]. unfold mbind at 1. cbn [ret orb]. apply bres0_ret. apply (go_block b F st text env); auto.
  - (* KCase *) intros v vs b IHb rest IHr F st text env sv Hf Hg Ha Hc E. rewrite kout_case in E. rewrite kdepth_case in Hf.
    destruct (khit (c_ij cf) env sv (v :: vs)) as [h|] eqn:Eh; [|discriminate].
    rewrite knodes_case. cbn [switch_cases].
    change (cnode v :: map cnode vs) with (map cnode (v :: vs)).
    destruct (go_case_hit F env sv (v :: vs) Hc) with (st := st) (h := h) as (st2 & E2 & P); auto.
    { intros x [<-|Hx]; [lia|]. pose proof (cdepths_le x vs Hx). lia. }
    unfold bres0. unfold mbind at 1. rewrite E2. assert (Mo : mode st2 = mode st) by apply P.
    pose proof (wsame_wok _ _ (pres_wsame _ _ P) Hg) as Hg2.
    destruct h; cbn [orb map].
    + apply (bres0_pres st _ st2 text P). apply bres0_ret. apply (go_block b F st2 text env); auto.
      * lia. * eapply agrees_pres; eauto. * rewrite Mo. exact E.
    + apply (bres0_pres st _ st2 text P). apply (IHr F st2 text env sv); auto.
      * lia. * eapply agrees_pres; eauto. * rewrite Mo. exact E.
  - (* PNil *) intros F st cd base cenv env Hf Ha Hc E Hn Hl Hb. rewrite pout_nil in E. inversion E; subst.
    exists cd, st. split; [reflexivity|]. split; [apply pres_refl|auto].
  - (* PVal *) intros k e r IHr F st cd base cenv env Hf Ha Hc E Hn Hl Hb. rewrite pout_val in E. rewrite pdepth_val in Hf. rewrite pnodes_val. cbn [call_params].
    destruct (is_ident k); [|discriminate]. destruct (ceval (c_ij cf) env e) as [v|] eqn:Ev; [|discriminate].
    destruct (go_eval F e st v env Ha Hc ltac:(lia) Ev) as (st2 & E2 & P2).
    unfold mbind at 1. rewrite E2.
    destruct (IHr F st2 (sc_set cd k v) (env_set base k v) cenv env ltac:(lia) (agrees_pres _ _ _ P2 Ha) Hc) as (cd' & st3 & E3 & P3 & R).
    + rewrite (proj1 (proj2 P2)). exact E.
    + destruct cd; [congruence|discriminate].
    + intro q. rewrite sc_lookup_set by exact Hn. unfold env_set. rewrite Hl. reflexivity.
    + apply envok_set; [exact Hb|exact (go_core st env e v Ha Hc Ev)].
    + exists cd', st3. split; [exact E3|]. split; [eapply pres_trans; eauto|exact R].
  - (* PCont *) intros k body IHb r IHr F st cd base cenv env Hf Ha Hc E Hn Hl Hb. rewrite pout_cont in E. rewrite pdepth_cont in Hf. rewrite pnodes_cont. cbn [call_params].
    destruct (is_ident k); [|discriminate].
    destruct (bout (c_ij cf) (mode st) go_print_text denv callee env body) as [t|] eqn:Et; [|discriminate].
    destruct (go_render_block body F st t env IHb ltac:(lia) Ha Hc Et) as (st2 & E2 & S2 & C2 & M2).
    unfold mbind at 1. rewrite E2.
    assert (P2 : pres st st2) by (destruct S2 as (O2 & B2 & L2 & Y2); repeat split; assumption).
    destruct (IHr F st2 (sc_set cd k (VStr t)) (env_set base k (VStr t)) cenv env ltac:(lia) (agrees_ctx _ _ _ C2 Ha) Hc) as (cd' & st3 & E3 & P3 & R).
    + rewrite M2. exact E.
    + destruct cd; [congruence|discriminate].
    + intro q. rewrite sc_lookup_set by exact Hn. unfold env_set. rewrite Hl. reflexivity.
    + apply envok_set; [exact Hb|reflexivity].
    + exists cd', st3. split; [exact E3|]. split; [eapply pres_trans; eauto|exact R].
  - (* QDflt *) intros b IHb F st text env i Hf Hg Hn Ha Hc E. rewrite qout_dflt in E. rewrite qdepth_dflt in Hf.
    rewrite qcnodes_dflt, qdnodes_dflt. cbn [plural_pick].
    exact (go_plural_body b F st text env IHb Hf Hg Hn Ha Hc E).
  - (* QCase *) intros z b IHb r IHr F st text env i Hf Hg Hn Ha Hc E. rewrite qout_case in E. rewrite qdepth_case in Hf.
    rewrite qcnodes_case, qdnodes_case. cbn [plural_pick].
    destruct (i =? z)%Z.
    + exact (go_plural_body b F st text env IHb ltac:(lia) Hg Hn Ha Hc E).
    + exact (IHr F st text env i ltac:(lia) Hg Hn Ha Hc E).
Qed.
End GoStmts.
