(* C12 over the extended walker of Model/InterpExt.v: installed functions and print directives (arbitrary functions of
   their arguments) and rendering THROUGH a message bundle (evalMsg -> evalMsgParts: the checked writes of translated
   text, placeholders walked from inside a translation, the recursive call for the selected plural form).
   The two-run simulation of Proofs/WriterProofs.v holds of [walk_x] by the same generic principle ([walk_logic_x]);
   the render-level statements are those of WriterProofs.v, for [render_x] (the proofs are the same text). *)
From Soy Require Import Model.Bytes Model.Num Model.Values Model.Outcome Model.Ast
  Model.Escape Model.Directives Model.Print Generated.Tables Model.Interp Model.InterpExt Spec.Writer
  Proofs.InterpLogic Proofs.WriterProofs Proofs.InterpExtProofs.
Require Import Lia.
Open Scope N_scope.

Theorem walk_x_wsim cf ux fuel n : wsim (walk_x cf ux fuel n).
Proof.
  apply (walk_logic_x cf ux _ _ wsim_logic).
  - constructor; intros; exact Logic.I.
  - intros; exact Logic.I.
  - intros; exact Logic.I.
  - intros; exact Logic.I.
Qed.

Lemma render_notemplate_x cf ux fuel name id data cl bl fid :
  find_template (r_templates (c_reg cf)) name = None ->
  render_x cf ux fuel name id data cl bl fid =
  {| rr_outcome := Err e_notemplate; rr_writes := []; rr_file := []; rr_line := 0; rr_unbound := 0; rr_shared_writes := [] |}.
Proof. intros H. unfold render_x. rewrite H. reflexivity. Qed.

(* the two runs of one render: either identical, or the writer refused and the render says so *)
Theorem render_two_runs_x cf ux fuel name id data cl bl fid :
  let r := render_x cf ux fuel name id data cl bl fid in
  let r0 := render_x cf ux fuel name id data None None fid in
  (r = r0 /\ ~ refuses cl bl (rr_writes r0)) \/
  (refuses cl bl (rr_writes r0) /\ surfaced (rr_outcome r) /\ prefix_of (accepted r) (accepted r0) /\
   stopped_at cl bl (rr_writes r) (rr_writes r0)).
Proof.
  cbn zeta. destruct (find_template (r_templates (c_reg cf)) name) as [t|] eqn:Hf.
  2:{ rewrite !(render_notemplate_x _ _ _ _ _ _ _ _ _ Hf). left. split; [reflexivity|].
      intros [(k & _ & Hk) | (k & _ & Hk)]; cbn in Hk; lia. }
  unfold render_x. rewrite Hf.
  set (st0 := init_state (sc_enter (new_scope id data)) (entry_mode (t_ns_autoescape t)) name cl bl fid).
  change (init_state (sc_enter (new_scope id data)) (entry_mode (t_ns_autoescape t)) name None None fid)
    with (unfault st0).
  pose proof (walk_x_wsim cf ux fuel (t_node t) st0) as H.
  destruct (walk_x cf ux fuel (t_node t) st0) as [r st]. destruct (walk_x cf ux fuel (t_node t) (unfault st0)) as [r0 st0'].
  cbn [sim] in H. destruct H as (n0 & Hout & _ & H).
  change (out st0) with (@nil bstr) in Hout. rewrite app_nil_r in Hout.
  destruct H as [ (-> & -> & Hc & Hb) | (-> & Hst & new & Hnew & Hpre & Hstop) ].
  - left. split; [reflexivity|].
    assert (Hw : forall o f l, rr_writes
      ({| rr_outcome := o; rr_writes := rev (out (unfault st)); rr_file := f; rr_line := l;
          rr_unbound := unbound (unfault st); rr_shared_writes := shared_writes (unfault st) |}) = rev n0).
    { intros. cbn [rr_writes]. rewrite Hout. reflexivity. }
    assert (Hws : rr_writes
      (match r0 with
       | Ok _ => {| rr_outcome := Ok tt; rr_writes := rev (out (unfault st)); rr_file := []; rr_line := 0;
                    rr_unbound := unbound (unfault st); rr_shared_writes := shared_writes (unfault st) |}
       | Err m =>
           match assoc_s name (r_sources (c_reg cf)), assoc_s name (r_files (c_reg cf)) with
           | Some src, Some file =>
               match line_number src (cur (unfault st)) with
               | Some l => {| rr_outcome := Err m; rr_writes := rev (out (unfault st)); rr_file := file; rr_line := l;
                              rr_unbound := unbound (unfault st); rr_shared_writes := shared_writes (unfault st) |}
               | None => {| rr_outcome := Crash e_index; rr_writes := rev (out (unfault st)); rr_file := []; rr_line := 0;
                            rr_unbound := unbound (unfault st); rr_shared_writes := shared_writes (unfault st) |}
               end
           | _, _ => {| rr_outcome := Err m; rr_writes := rev (out (unfault st)); rr_file := []; rr_line := 0;
                        rr_unbound := unbound (unfault st); rr_shared_writes := shared_writes (unfault st) |}
           end
       | Crash m => {| rr_outcome := Crash m; rr_writes := rev (out (unfault st)); rr_file := []; rr_line := 0;
                       rr_unbound := unbound (unfault st); rr_shared_writes := shared_writes (unfault st) |}
       | Diverge => {| rr_outcome := Diverge; rr_writes := rev (out (unfault st)); rr_file := []; rr_line := 0;
                       rr_unbound := unbound (unfault st); rr_shared_writes := shared_writes (unfault st) |}
       | OutOfFuel => {| rr_outcome := OutOfFuel; rr_writes := rev (out (unfault st)); rr_file := []; rr_line := 0;
                         rr_unbound := unbound (unfault st); rr_shared_writes := shared_writes (unfault st) |}
       | OutOfModel => {| rr_outcome := OutOfModel; rr_writes := rev (out (unfault st)); rr_file := []; rr_line := 0;
                          rr_unbound := unbound (unfault st); rr_shared_writes := shared_writes (unfault st) |}
       end) = rev n0).
    { destruct r0; try apply Hw.
      destruct (assoc_s name (r_sources (c_reg cf))); [|apply Hw].
      destruct (assoc_s name (r_files (c_reg cf))); [|apply Hw].
      destruct (line_number _ _); apply Hw. }
    rewrite Hws. unfold refuses. rewrite rev_length.
    change (calls_left st0) with cl in Hc. change (bytes_left st0) with bl in Hb.
    intros [(k & -> & Hk) | (k & -> & Hk)].
    + cbn in Hc. destruct Hc as (k' & _ & ->). lia.
    + cbn in Hb. destruct Hb as (k' & _ & ->). unfold acc in Hk. lia.
  - right.
    change (out st0) with (@nil bstr) in Hnew. rewrite app_nil_r in Hnew.
    assert (Hw0 : forall o f l, rr_writes
      ({| rr_outcome := o; rr_writes := rev (out st0'); rr_file := f; rr_line := l;
          rr_unbound := unbound st0'; rr_shared_writes := shared_writes st0' |}) = rev n0).
    { intros. cbn [rr_writes]. rewrite Hout. reflexivity. }
    match goal with |- refuses _ _ (rr_writes ?X) /\ _ => assert (Hws : rr_writes X = rev n0) end.
    { destruct r0; try apply Hw0.
      destruct (assoc_s name (r_sources (c_reg cf))); [|apply Hw0].
      destruct (assoc_s name (r_files (c_reg cf))); [|apply Hw0].
      destruct (line_number _ _); apply Hw0. }
    unfold accepted. rewrite Hws. split; [|split; [|split]].
    + change (calls_left st0) with cl in Hst. change (bytes_left st0) with bl in Hst.
      destruct Hst as [(k & Hk1 & Hk2) | (k & Hk1 & Hk2)]; [left | right]; exists k; (split; [exact Hk1|]).
      * rewrite rev_length. exact Hk2.
      * exact Hk2.
    + destruct (assoc_s name (r_sources (c_reg cf))); [|left; reflexivity].
      destruct (assoc_s name (r_files (c_reg cf))); [|left; reflexivity].
      destruct (line_number _ (cur st)); [left | right]; reflexivity.
    + assert (Hwf : forall o f l, rr_writes
        ({| rr_outcome := o; rr_writes := rev (out st); rr_file := f; rr_line := l;
            rr_unbound := unbound st; rr_shared_writes := shared_writes st |}) = rev new).
      { intros. cbn [rr_writes]. rewrite Hnew. reflexivity. }
      match goal with |- prefix_of (concat_b (rr_writes ?X)) _ => assert (Hwsf : rr_writes X = rev new) end.
      { destruct (assoc_s name (r_sources (c_reg cf))); [|apply Hwf].
        destruct (assoc_s name (r_files (c_reg cf))); [|apply Hwf].
        destruct (line_number _ (cur st)); apply Hwf. }
      rewrite Hwsf. exact Hpre.
    + assert (Hwf : forall o f l, rr_writes
        ({| rr_outcome := o; rr_writes := rev (out st); rr_file := f; rr_line := l;
            rr_unbound := unbound st; rr_shared_writes := shared_writes st |}) = rev new).
      { intros. cbn [rr_writes]. rewrite Hnew. reflexivity. }
      match goal with |- stopped_at _ _ (rr_writes ?X) _ => assert (Hwsf : rr_writes X = rev new) end.
      { destruct (assoc_s name (r_sources (c_reg cf))); [|apply Hwf].
        destruct (assoc_s name (r_files (c_reg cf))); [|apply Hwf].
        destruct (line_number _ (cur st)); apply Hwf. }
      rewrite Hwsf. change (calls_left st0) with cl in Hstop. change (bytes_left st0) with bl in Hstop.
      destruct Hstop as [(Hk & later & ->) | Hk]; [left | right].
      * split; [rewrite rev_length; exact Hk | exists (rev later); apply rev_app_distr].
      * exact Hk.
Qed.

Section RenderCorollaries.
Variables (cf : cfg) (ux : user_ext) (fuel : nat) (name : bstr) (id : N) (data : list (bstr * value)) (fid : N).
Let faulty cl bl := render_x cf ux fuel name id data cl bl fid.
Let free := render_x cf ux fuel name id data None None fid.

Lemma write_fault_surfaces_l_x cl bl :
  refuses cl bl (rr_writes free) -> surfaced (rr_outcome (faulty cl bl)).
Proof.
  intros Hr. destruct (render_two_runs_x cf ux fuel name id data cl bl fid) as [[_ Hn] | (_ & Hs & _)];
    [contradiction | exact Hs].
Qed.

Lemma accepted_is_prefix_l_x cl bl : prefix_of (accepted (faulty cl bl)) (accepted free).
Proof.
  destruct (render_two_runs_x cf ux fuel name id data cl bl fid) as [[He _] | (_ & _ & Hp & _)].
  - unfold faulty, free. rewrite He. exists []. symmetry. apply app_nil_r.
  - exact Hp.
Qed.

Lemma nil_means_all_written_l_x cl bl :
  rr_outcome (faulty cl bl) = Ok tt ->
  rr_writes (faulty cl bl) = rr_writes free /\ accepted (faulty cl bl) = accepted free /\ rr_outcome free = Ok tt.
Proof.
  intros Hok. destruct (render_two_runs_x cf ux fuel name id data cl bl fid) as [[He _] | (_ & Hs & _)].
  - unfold faulty, free in *. rewrite <- He. auto.
  - unfold faulty in Hok. destruct Hs as [Hs | Hs]; rewrite Hs in Hok; discriminate.
Qed.

Lemma sufficient_budget_no_change_l_x cl bl :
  ~ refuses cl bl (rr_writes free) -> faulty cl bl = free.
Proof.
  intros Hn. destruct (render_two_runs_x cf ux fuel name id data cl bl fid) as [[He _] | (Hr & _)];
    [exact He | contradiction].
Qed.
(* exactly which bytes were accepted *)
Lemma firstn_app_exact_x {A} (l r : list A) : firstn (length l) (l ++ r) = l.
Proof. induction l as [|a l IH]; cbn; [destruct r; reflexivity | rewrite IH; reflexivity]. Qed.

Lemma prefix_take_x p s : prefix_of p s -> p = take (length p) s.
Proof.
  intros [r ->]. induction p as [|a p IH]; cbn; [reflexivity|]. f_equal. exact IH.
Qed.

Lemma accepted_exact_calls_l_x k :
  refuses (Some k) None (rr_writes free) ->
  rr_writes (faulty (Some k) None) = firstn k (rr_writes free).
Proof.
  intros Hr. destruct (render_two_runs_x cf ux fuel name id data (Some k) None fid) as [[_ Hn] | (_ & _ & _ & Hs)];
    [contradiction|].
  fold (faulty (Some k) None) in Hs. fold free in Hs.
  destruct Hs as [(Hk & later & Hl) | Hk]; [|discriminate].
  remember (rr_writes (faulty (Some k) None)) as W eqn:HW. clear HW.
  inversion Hk; subst k. rewrite Hl. symmetry. apply firstn_app_exact_x.
Qed.

Lemma accepted_exact_bytes_l_x b :
  refuses None (Some b) (rr_writes free) ->
  accepted (faulty None (Some b)) = take (N.to_nat b) (accepted free).
Proof.
  intros Hr. destruct (render_two_runs_x cf ux fuel name id data None (Some b) fid) as [[_ Hn] | (_ & _ & Hp & Hs)];
    [contradiction|].
  fold (faulty None (Some b)) in Hs, Hp. fold free in Hs, Hp.
  destruct Hs as [(Hk & _) | Hk]; [discriminate|].
  unfold accepted in *. remember (concat_b (rr_writes (faulty None (Some b)))) as W eqn:HW. clear HW.
  inversion Hk; subst b. rewrite Nnat.Nat2N.id. apply prefix_take_x. exact Hp.
Qed.
End RenderCorollaries.
