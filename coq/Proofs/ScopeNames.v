(* C02, call names, part 1 (parser): the name a {call} node carries is the
   written name resolved -- as Spec/CallNames.v defines -- against the namespace
   and the aliases in force at the call; {alias} binds the last segment; a
   {template} node carries namespace + .name. *)
From Coq Require Import Lia.
From Soy Require Import Model.Bytes Model.Values Model.Ast Model.Token Generated.Tables Model.Parser
  Spec.CallNames Proofs.CompilePermProofs.
Open Scope N_scope.

(* ------------------------------------------------------------------ *)
(* resolve_name computes the relation of the Spec, which is a function *)

Lemma index_of_split c s i : index_of c s = Some i ->
  ~ In c (take i s) /\ drop i s = c :: drop (S i) s /\ s = take i s ++ c :: drop (S i) s.
Proof.
  revert i. induction s as [|x r IH]; intros i H; cbn [index_of] in H; [discriminate|].
  destruct (x =? c) eqn:E.
  - injection H as <-. apply N.eqb_eq in E. subst x. cbn. repeat split; auto.
  - destruct (index_of c r) as [j|] eqn:Ej; [|discriminate]. injection H as <-.
    destruct (IH j eq_refl) as (H1 & H2 & H3). apply N.eqb_neq in E. cbn [take drop]. repeat split.
    + intros [Hx|Hx]; [congruence | exact (H1 Hx)].
    + exact H2.
    + cbn [app]. f_equal. exact H3.
Qed.

Lemma index_of_none c s : index_of c s = None -> ~ In c s.
Proof.
  induction s as [|x r IH]; cbn [index_of]; intros H; [intros []|].
  destruct (x =? c) eqn:E; [discriminate|]. destruct (index_of c r); [discriminate|].
  apply N.eqb_neq in E. intros [Hx|Hx]; [congruence | exact (IH eq_refl Hx)].
Qed.

Lemma resolve_name_nodot s x r : x <> 46 ->
  resolve_name s (x :: r) =
  match index_of 46 (x :: r) with
  | Some d => match assoc_s (take d (x :: r)) (c_al s) with
              | Some al => al ++ drop d (x :: r) | None => x :: r end
  | None => x :: r end.
Proof.
  intros Hx. unfold resolve_name. destruct x as [|p]; [reflexivity|].
  do 6 (destruct p as [p|p|]; try reflexivity). exfalso; apply Hx; reflexivity.
Qed.

Theorem resolve_name_spec s name : resolves (c_ns s) (c_al s) name (resolve_name s name).
Proof.
  destruct name as [|x r]; [apply RPlain; intros []|].
  destruct (N.eq_dec x 46) as [->|Hx].
  { apply RRelative. }
  rewrite (resolve_name_nodot s x r Hx).
  destruct (index_of 46 (x :: r)) as [d|] eqn:Ei.
  - destruct (index_of_split _ _ _ Ei) as (Hk & Hd & Hs).
    assert (Hne : take d (x :: r) <> []).
    { destruct d; [|cbn; discriminate]. cbn in Hd. congruence. }
    destruct (assoc_s (take d (x :: r)) (c_al s)) as [al|] eqn:Ea.
    + rewrite Hd. rewrite Hs at 1. apply RAliased; assumption.
    + rewrite Hs at 1 2. apply RQualified; assumption.
  - apply RPlain. exact (index_of_none _ _ Ei).
Qed.

Lemma split_at_dot k k' r r' : no_dot k -> no_dot k' -> k ++ dot :: r = k' ++ dot :: r' -> k = k' /\ r = r'.
Proof.
  revert k'. induction k as [|a k IH]; intros [|a' k'] Hk Hk' H; cbn [app] in H.
  - injection H as ->. split; reflexivity.
  - injection H as <- _. exfalso. apply Hk'. left. reflexivity.
  - injection H as -> _. exfalso. apply Hk. left. reflexivity.
  - injection H as -> H. destruct (IH k') as [-> ->]; auto.
    + intros Hi. apply Hk. right. exact Hi.
    + intros Hi. apply Hk'. right. exact Hi.
Qed.

Lemma resolves_inv ns al name r : resolves ns al name r ->
  (exists x, name = dot :: x /\ r = ns ++ name) \/
  (exists k rest, name = k ++ dot :: rest /\ k <> [] /\ no_dot k /\
                  r = match assoc_s k al with Some full => full ++ dot :: rest | None => name end) \/
  (no_dot name /\ r = name).
Proof.
  intros H. destruct H as [x|k rest full Hne Hk Ha|k rest Hne Hk Ha|nm Hn].
  - left. exists x. split; reflexivity.
  - right; left. exists k, rest. rewrite Ha. repeat split; assumption.
  - right; left. exists k, rest. rewrite Ha. repeat split; assumption.
  - right; right. split; [assumption | reflexivity].
Qed.

Theorem resolves_functional ns al name r1 r2 : resolves ns al name r1 -> resolves ns al name r2 -> r1 = r2.
Proof.
  assert (Hin : forall k rest, In dot (k ++ dot :: rest)) by (intros; apply in_or_app; right; left; reflexivity).
  assert (Hrel : forall x k rest, dot :: x = k ++ dot :: rest -> k <> [] -> no_dot k -> False).
  { intros x k rest He Hne Hk. destruct k as [|a k]; [contradiction|]. injection He as <- _. apply Hk. left. reflexivity. }
  intros H1 H2. apply resolves_inv in H1. apply resolves_inv in H2.
  destruct H1 as [(x & E1 & ->)|[(k & rest & E1 & Hne & Hk & ->)|(Hn & ->)]];
  destruct H2 as [(x' & E2 & ->)|[(k' & rest' & E2 & Hne' & Hk' & ->)|(Hn' & ->)]]; try reflexivity.
  - exfalso. rewrite E1 in E2. exact (Hrel _ _ _ E2 Hne' Hk').
  - exfalso. apply Hn'. rewrite E1. left. reflexivity.
  - exfalso. rewrite E2 in E1. exact (Hrel _ _ _ E1 Hne Hk).
  - rewrite E1 in E2. destruct (split_at_dot _ _ _ _ Hk Hk' E2) as [-> ->]. reflexivity.
  - exfalso. apply Hn'. rewrite E1. apply Hin.
  - exfalso. apply Hn. rewrite E2. left. reflexivity.
  - exfalso. apply Hn. rewrite E2. apply Hin.
Qed.

(* so: whatever the Spec says a written name denotes is what resolve_name returns *)
Corollary resolve_name_complete s name full : resolves (c_ns s) (c_al s) name full -> resolve_name s name = full.
Proof. intros H. exact (resolves_functional _ _ _ _ _ (resolve_name_spec s name) H). Qed.

(* ------------------------------------------------------------------ *)
(* the token-level procedures leave tree.namespace and tree.aliases alone *)

Definition same_names (s s' : cst) : Prop := c_ns s' = c_ns s /\ c_al s' = c_al s.
Definition keeps {A} (s : cst) (r : cres A) : Prop :=
  match r with COk _ s' => same_names s s' | _ => True end.

Lemma same_names_refl s : same_names s s. Proof. split; reflexivity. Qed.
Lemma same_names_trans a c d : same_names a c -> same_names c d -> same_names a d.
Proof. intros [H1 H2] [H3 H4]. split; congruence. Qed.

Lemma keeps_trans {A} s s1 (r : cres A) : same_names s s1 -> keeps s1 r -> keeps s r.
Proof. intros H. destruct r; cbn; auto. apply same_names_trans, H. Qed.

Lemma keeps_bind {A B} s (x : cres A) (f : A -> cst -> cres B) :
  keeps s x -> (forall a s1, keeps s1 (f a s1)) -> keeps s (cbind x f).
Proof. destruct x as [a s1| | |]; cbn [cbind keeps]; auto. intros H K. exact (keeps_trans s s1 _ H (K a s1)). Qed.

Lemma cbind_ok {A B} (x : cres A) (f : A -> cst -> cres B) b s' :
  cbind x f = COk b s' -> exists a s1, x = COk a s1 /\ f a s1 = COk b s'.
Proof. destruct x as [a s1| | |]; cbn [cbind]; try discriminate. intros H. exists a, s1. split; [reflexivity | exact H]. Qed.

Section Frames.
Variable inlen : N.
Variable unq : bstr -> option bstr.

Lemma keeps_error_at {A} t c s : keeps s (@c_error_at inlen A t c s).
Proof. unfold c_error_at. destruct (t_pos t <=? inlen); exact I. Qed.
Lemma keeps_errorf {A} c s : keeps s (@c_errorf inlen A c s).
Proof. unfold c_errorf. destruct (3 <=? p_peek (c_p s))%nat; [exact I | apply keeps_error_at]. Qed.
Lemma keeps_unexp {A} t c s : keeps s (@c_unexp inlen A t c s).
Proof. unfold c_unexp. destruct (tis t pit_Error); apply keeps_error_at. Qed.
Lemma error_at_not_ok {A} t c s (a : A) s' : @c_error_at inlen A t c s <> COk a s'.
Proof. unfold c_error_at. destruct (t_pos t <=? inlen); discriminate. Qed.
Lemma errorf_not_ok {A} c s (a : A) s' : @c_errorf inlen A c s <> COk a s'.
Proof. unfold c_errorf. destruct (3 <=? p_peek (c_p s))%nat; [discriminate | apply error_at_not_ok]. Qed.
Lemma unexp_not_ok {A} t c s (a : A) s' : @c_unexp inlen A t c s <> COk a s'.
Proof. unfold c_unexp. destruct (tis t pit_Error); apply error_at_not_ok. Qed.

Lemma keeps_next s : keeps s (c_next s).
Proof.
  unfold c_next. destruct (3 <=? p_peek (c_p s))%nat; [exact I|].
  destruct (p_next (c_p s)) as [t p']. (split; reflexivity).
Qed.
Lemma keeps_peek s : keeps s (c_peek s).
Proof.
  unfold c_peek. destruct (3 <=? p_peek (c_p s))%nat; [exact I|].
  destruct (p_peek_tok (c_p s)) as [t p']. (split; reflexivity).
Qed.
Lemma keeps_expect typ ctx s : keeps s (c_expect inlen typ ctx s).
Proof.
  unfold c_expect. apply keeps_bind; [apply keeps_next|]. intros t s1.
  destruct (tis t typ); [(split; reflexivity) | apply keeps_unexp].
Qed.
Lemma keeps_tail1 v s : keeps s (tail1 v s).
Proof. destruct v; [exact I | (split; reflexivity)]. Qed.

Lemma keeps_attrs f : forall allowed acc s, keeps s (attrs_loop inlen unq f allowed acc s).
Proof.
  induction f as [|f IH]; intros allowed acc s; [exact I|]. cbn [attrs_loop].
  apply keeps_bind; [apply keeps_next|]. intros t s1.
  destruct (tis t pit_Ident).
  - destruct (negb _); [apply keeps_unexp|].
    apply keeps_bind; [apply keeps_expect|]. intros _ s2.
    apply keeps_bind; [apply keeps_expect|]. intros av s3.
    destruct (unq (t_val av)); [apply IH | apply keeps_errorf].
  - destruct (_ || _); [(split; reflexivity) | apply keeps_unexp].
Qed.

Lemma keeps_call_name_loop f : forall name s, keeps s (call_name_loop f name s).
Proof.
  induction f as [|f IH]; intros name s; [exact I|]. cbn [call_name_loop].
  apply keeps_bind; [apply keeps_next|]. intros t s1.
  destruct (tis t pit_DotIdent); [apply IH | (split; reflexivity)].
Qed.
Lemma keeps_call_name lf s : keeps s (call_name lf s).
Proof.
  unfold call_name. apply keeps_bind; [apply keeps_next|]. intros t s1.
  destruct (tis t pit_DotIdent); [(split; reflexivity)|].
  destruct (tis t pit_Ident); [|(split; reflexivity)].
  apply keeps_bind; [apply keeps_next|]. intros t2 s2.
  destruct (tis t2 pit_DotIdent); [apply keeps_call_name_loop | (split; reflexivity)].
Qed.

(* ---- {call}: the node's name is the written name, resolved where the call stands ---- *)
Section Call.
Variable lexq : bstr -> list tok.
Variable pexpr : nat -> N -> pst -> presult node.
Variable efuel : list tok -> nat.
Variable pe : N -> cst -> cres node.
Variable w : list N -> cst -> cres node.
Variable lf : nat.

(* the name as written: before the attributes (.x, a.b.x) or in name="..." *)
Definition written_name (name0 : bstr) (attrs : list (bstr * bstr)) : bstr :=
  match name0 with [] => attr_or_empty k_name attrs | _ => name0 end.

Theorem parse_call_resolves token s n s' :
  parse_call inlen lexq unq pexpr efuel pe w lf token s = COk n s' ->
  exists name0 s1 attrs s2 full alldata dat params,
    call_name lf s = COk name0 s1 /\
    attrs_loop inlen unq lf [k_name; k_data] [] s1 = COk attrs s2 /\
    written_name name0 attrs <> [] /\
    resolves (c_ns s) (c_al s) (written_name name0 attrs) full /\
    n = NCall (t_pos token) full alldata dat params.
Proof.
  unfold parse_call. intros H.
  apply cbind_ok in H. destruct H as (name0 & s1 & E1 & H).
  apply cbind_ok in H. destruct H as (attrs & s2 & E2 & H).
  fold (written_name name0 attrs) in H.
  assert (Hs : same_names s s2).
  { pose proof (keeps_call_name lf s) as K1. rewrite E1 in K1.
    pose proof (keeps_attrs lf [k_name; k_data] [] s1) as K2. rewrite E2 in K2.
    exact (same_names_trans _ _ _ K1 K2). }
  destruct (written_name name0 attrs) as [|c0 cr] eqn:Ew.
  { exfalso. exact (errorf_not_ok _ _ _ _ H). }
  rewrite <- Ew in *.
  exists name0, s1, attrs, s2, (resolve_name s2 (written_name name0 attrs)).
  assert (Hres : resolves (c_ns s) (c_al s) (written_name name0 attrs) (resolve_name s2 (written_name name0 attrs))).
  { destruct Hs as [<- <-]. apply resolve_name_spec. }
  apply cbind_ok in H. destruct H as ([alldata dat] & s3 & _ & H).
  apply cbind_ok in H. destruct H as (tk & s4 & _ & H). cbn [fst snd] in H.
  destruct (tis tk pit_RightDelimEnd).
  - injection H as <- _. exists alldata, dat, []. repeat split; try assumption. rewrite Ew. discriminate.
  - destruct (tis tk pit_RightDelim).
    + apply cbind_ok in H. destruct H as (body & s5 & _ & H).
      apply cbind_ok in H. destruct H as (? & s6 & _ & H).
      apply cbind_ok in H. destruct H as (? & s7 & _ & H).
      apply cbind_ok in H. destruct H as (? & s8 & _ & H).
      injection H as <- _. exists alldata, dat, body. repeat split; try assumption. rewrite Ew. discriminate.
    + exfalso. exact (unexp_not_ok _ _ _ _ _ H).
Qed.
End Call.

(* ---- {alias a.b.c}: binds c to a.b.c, in front of the aliases so far ---- *)
Lemma alias_key_cons first v segs : alias_key first (v :: segs) = alias_key (tl v) segs.
Proof.
  unfold alias_key. cbn [rev]. destruct (rev segs) as [|a l]; reflexivity.
Qed.

Lemma alias_loop_binds f : forall name last s s',
  alias_loop inlen f name last s = COk tt s' ->
  exists segs, c_ns s' = c_ns s /\ c_al s' = (alias_key last segs, name ++ concat segs) :: c_al s.
Proof.
  induction f as [|f IH]; intros name last s s' H; [discriminate|]. cbn [alias_loop] in H.
  apply cbind_ok in H. destruct H as (nx & s1 & E1 & H).
  pose proof (keeps_next s) as K1. rewrite E1 in K1. destruct K1 as [Kn Ka].
  destruct (tis nx pit_DotIdent).
  - apply cbind_ok in H. destruct H as (seg & s2 & E2 & H).
    destruct (t_val nx) as [|c0 v] eqn:Ev; [discriminate E2|]. cbn [tail1] in E2. injection E2 as <- <-.
    destruct (IH _ _ _ _ H) as (segs & Hn & Ha).
    exists ((c0 :: v) :: segs). split; [congruence|].
    rewrite alias_key_cons. cbn [tl concat]. rewrite Ha, Ka, <- app_assoc. reflexivity.
  - destruct (tis nx pit_RightDelim).
    + injection H as <-. exists []. cbn [add_alias c_ns c_al alias_key rev concat]. rewrite app_nil_r, Kn, Ka. split; reflexivity.
    + exfalso. exact (unexp_not_ok _ _ _ _ _ H).
Qed.

Theorem parse_alias_binds f s s' :
  parse_alias inlen f s = COk tt s' ->
  exists first segs, c_ns s' = c_ns s /\ c_al s' = (alias_key first segs, alias_target first segs) :: c_al s.
Proof.
  unfold parse_alias. intros H. apply cbind_ok in H. destruct H as (id & s1 & E1 & H).
  pose proof (keeps_expect pit_Ident x_alias s) as K. rewrite E1 in K. destruct K as [Kn Ka].
  destruct (alias_loop_binds _ _ _ _ _ H) as (segs & Hn & Ha).
  exists (t_val id), segs. unfold alias_target. split; [rewrite Hn; exact Kn | rewrite Ha, Ka; reflexivity].
Qed.

(* ---- {template .x}: the node is named namespace + .x (the namespace in force at the end tag) ---- *)
Theorem parse_template_name w lf token s n s' :
  parse_template inlen unq w lf token s = COk n s' ->
  exists id body ae priv, n = NTemplate (t_pos token) (declared_name (c_ns s') (t_val id)) body ae priv.
Proof.
  unfold parse_template. intros H.
  apply cbind_ok in H. destruct H as (id & s1 & _ & H).
  apply cbind_ok in H. destruct H as (attrs & s2 & _ & H).
  apply cbind_ok in H. destruct H as (ae & s3 & _ & H).
  apply cbind_ok in H. destruct H as (priv & s4 & _ & H).
  apply cbind_ok in H. destruct H as (? & s5 & _ & H).
  apply cbind_ok in H. destruct H as (body & s6 & _ & H).
  apply cbind_ok in H. destruct H as (? & s7 & E7 & H).
  pose proof (keeps_expect pit_RightDelim x_template s6) as K. rewrite E7 in K. destruct K as [Kn _].
  injection H as <- <-. exists id, body, ae, priv. unfold declared_name. rewrite Kn. reflexivity.
Qed.
End Frames.
