(* C14, token grammar: the whole generated file of an accepted Soy file is a
   program of Spec/JsSyntax.v; its function definitions are the file's
   templates, in order, under their qualified names; and it is bracket
   balanced. *)
From Soy Require Import Model.Bytes Model.Num Model.Values Model.Outcome Model.Ast Model.JsGen Generated.Tables
  Spec.JsOut Spec.JsSyntax Spec.JsShape Proofs.JsGenProofs Proofs.JsGenInv Proofs.JsGenLit
  Proofs.JsWfSplitBase Proofs.JsWfSplitNum Proofs.JsWfSplit Proofs.JsWfTail Proofs.JsWfLeaf
  Proofs.JsWfBase Proofs.JsWfBalance Proofs.JsWfFrame Proofs.JsWfMonad Proofs.JsWfExpr Proofs.JsWfStmt.
From Coq Require Import ZifyBool ZifyNat ZifyN Lia.
Open Scope N_scope.
#[local] Arguments assoc_s {A} k l : simpl never.

(* ---- dotted names ---- *)
Lemma split_dots_nonempty s : forall cur, split_dots cur s <> [].
Proof. induction s as [|c s IH]; intro cur; cbn [split_dots]; [discriminate|]. destruct (c =? 46); [discriminate|apply IH]. Qed.

Lemma join_split s : forall cur, join_dots (split_dots cur s) = rev cur ++ s.
Proof.
  induction s as [|c s IH]; intro cur; cbn [split_dots].
  - cbn. rewrite app_nil_r. reflexivity.
  - destruct (c =? 46) eqn:E.
    + apply N.eqb_eq in E. subst c. pose proof (split_dots_nonempty s []) as Hne. specialize (IH []).
      destruct (split_dots [] s) as [|q r] eqn:Es; [congruence|].
      change (join_dots (rev cur :: q :: r)) with (rev cur ++ [46] ++ join_dots (q :: r)). rewrite IH. reflexivity.
    + rewrite IH. cbn [rev]. rewrite <- app_assoc. reflexivity.
Qed.

(* evaluate the lexing of the closed texts of the goal *)
Ltac lexc :=
  repeat match goal with
         | |- context [lex_chunk LNormal (CText ?t)] =>
             let r := eval vm_compute in (lex_chunk LNormal (CText t)) in
             replace (lex_chunk LNormal (CText t)) with r by (vm_compute; reflexivity)
         end.

Lemma lex_chunk_name s : lex_chunk LNormal (CName s) = option_map (fun ts => (ts, LNormal)) (lex_name s).
Proof. reflexivity. Qed.

Section File.
Variable o : jopts.
Notation fmt := (o_fmt o).
Notation md := (is_module (o_fmt o)).

(* the statement  NAME  at the start of a statement: the recogniser collects the parts *)
Lemma name_parts_run l : forall acc s, l <> [] ->
  js_run md (name_tokens l) (MNameDot acc) s = Some (MName (rev l ++ acc), s, []).
Proof.
  induction l as [|p l IH]; intros acc s Hne; [congruence|]. destruct l as [|q r].
  - cbn [name_tokens rev app]. destruct (tok_of_ident_cases p) as [(k & ->)| ->]; reflexivity.
  - change (name_tokens (p :: q :: r)) with (tok_of_ident p :: TP PDot :: name_tokens (q :: r)).
    specialize (IH (p :: acc) s ltac:(discriminate)).
    replace (rev (p :: q :: r) ++ acc) with (rev (q :: r) ++ p :: acc) by (cbn [rev]; rewrite <- !app_assoc; reflexivity).
    destruct (tok_of_ident_cases p) as [(k & ->)| ->]; cbn [js_run js_step cfg]; rewrite IH; reflexivity.
Qed.

Lemma dname_stmt_run nm e s : dname_okb nm = true ->
  exists ts, lex_name nm = Some ts /\ js_run md ts (MStmt e) s = Some (MName (rev (split_dots [] nm)), s, []).
Proof.
  unfold dname_okb. intro H. destruct (lex_name nm) as [ts|] eqn:El; [|discriminate]. destruct ts as [|t ts]; [discriminate|]. destruct t; try discriminate.
  exists (TId s0 :: ts). split; [reflexivity|].
  unfold lex_name in El. destruct (forallb ident_ok (split_dots [] nm)); [|discriminate]. inversion El as [E2]. clear El.
  destruct (split_dots [] nm) as [|p [|q r]]; [discriminate E2| |].
  - cbn [name_tokens] in E2. injection E2 as E3 E4. subst ts. assert (s0 = p) by (destruct (tok_of_ident_cases p) as [(k & Ek)|Ek]; rewrite Ek in E3; congruence). subst. cbn [name_tokens]. rewrite E3. reflexivity.
  - change (name_tokens (p :: q :: r)) with (tok_of_ident p :: TP PDot :: name_tokens (q :: r)) in *. injection E2 as E3 E4. subst ts.
    assert (s0 = p) by (destruct (tok_of_ident_cases p) as [(k & Ek)|Ek]; rewrite Ek in E3; congruence). subst.
    rewrite E3. cbn [js_run js_step step_stmt cfg]. rewrite (name_parts_run (q :: r) [p] s ltac:(discriminate)).
    cbn [rev]. rewrite <- !app_assoc. reflexivity.
Qed.

Lemma name_okb_ok nm : name_okb nm = true -> name_ok nm.
Proof.
  unfold name_okb, name_ok. destruct (lex_name nm) as [ts|] eqn:El; [|discriminate]. destruct ts as [|t [|t2 l]]; [discriminate| |intro X; destruct t; discriminate X]. destruct t; try discriminate.
  intros _. unfold lex_name in El. destruct (forallb ident_ok (split_dots [] nm)) eqn:Ef; [|discriminate]. inversion El as [E2].
  pose proof (join_split nm []) as J. cbn [rev app] in J.
  destruct (split_dots [] nm) as [|p [|q r]]; [discriminate E2| |].
  - cbn [name_tokens] in E2. cbn [join_dots] in J. subst p. injection E2 as E3. f_equal. f_equal. f_equal. destruct (tok_of_ident_cases nm) as [(k & Ek)|Ek]; rewrite Ek in E3; congruence.
  - change (name_tokens (p :: q :: r)) with (tok_of_ident p :: TP PDot :: name_tokens (q :: r)) in E2. discriminate E2.
Qed.

Lemma emits_cons_d md c b m s m1 s1 m2 s2 d :
  emits md [c] m s m1 s1 [] -> emits md b m1 s1 m2 s2 d -> emits md (c :: b) m s m2 s2 d.
Proof. intros A B. exact (emits_cons md c b _ _ _ _ [] _ _ d A B). Qed.
Lemma emits_app_d1 md a b m s m1 s1 m2 s2 d :
  emits md a m s m1 s1 d -> emits md b m1 s1 m2 s2 [] -> emits md (a ++ b) m s m2 s2 d.
Proof. intros A B. pose proof (emits_app md a b _ _ _ _ d _ _ [] A B) as H. rewrite app_nil_r in H. exact H. Qed.
Lemma emits_app_d0 md a b m s m1 s1 m2 s2 d :
  emits md a m s m1 s1 [] -> emits md b m1 s1 m2 s2 d -> emits md (a ++ b) m s m2 s2 d.
Proof. intros A B. exact (emits_app md a b _ _ _ _ [] _ _ d A B). Qed.

(* ---- templates ---- *)
Definition top_post0 (m : J unit) (ds : list jsdecl) : Prop :=
  forall st st', scope_ok (j_scope st) -> called_ok fmt st -> m st = Ok (tt, st') ->
    exists cs, ext st st' cs /\ (forall e, exists e', emits md cs (MStmt e) [] (MStmt e') [] ds) /\ scope_ok (j_scope st') /\ called_ok fmt st'.

Lemma text_chunk t ts : text_toks t = Some ts -> lex_chunk LNormal (CText t) = Some (ts, LNormal).
Proof.
  unfold text_toks. cbn [lex_chunk]. destruct (lex_text 0 LNormal t) as [[ts' m']|]; [|discriminate]. destruct m'; try discriminate. congruence.
Qed.

Lemma header_run name e : tname_okb fmt name = true ->
  emits md (template_header_line o name) (MStmt e) [] (MStmt false) [KBlock BFun] [DFun (fmt_bytes (fmt_template_name fmt) name)].
Proof.
  unfold tname_okb, template_header_line. destruct (o_fmt o) eqn:Ef; intro H.
  - (* ES5: NAME = function(...) { *)
    cbn [fmt_template_text fmt_template_name is_module]. unfold js_es5_template_text, js_es5_template_name. cbn [fmt_chunks fmt_bytes app]. rewrite app_nil_r.
    destruct (dname_stmt_run name e [] H) as (ts & L & R). rewrite Ef in R. cbn [is_module] in R.
    eapply emits_cons_d; [eapply emits_toks1; [rewrite lex_chunk_name, L; reflexivity|exact R|reflexivity]|].
    match goal with |- emits _ (?c2 :: ?r) _ _ _ _ _ => change (c2 :: r) with ([c2] ++ r) end.
    eapply emits_app_d1.
    + eapply emits_toks1; [vm_compute; reflexivity| |].
      * cbn [js_run js_step step_stmt step_want step_have cfg m_params seq1]. rewrite rev_involutive, join_split. reflexivity.
      * reflexivity.
    + echain.
  - (* ES6: export function NAME(...) { *)
    cbn [fmt_template_text fmt_template_name is_module]. unfold js_es6_template_text, js_es6_template_name. cbn [fmt_chunks fmt_bytes app]. rewrite app_nil_r.
    pose proof (name_okb_ok _ H) as Hn.
    eapply emits_cons_d; [eapply emits_toks1; [vm_compute; reflexivity|reflexivity|reflexivity]|].
    match goal with |- emits _ (?c2 :: ?r) _ _ _ _ _ => change (c2 :: r) with ([c2] ++ r) end.
    eapply emits_app_d1.
    + eapply emits_toks1; [rewrite lex_chunk_name, (Hn : lex_name _ = _); reflexivity|reflexivity|reflexivity].
    + echain.
Qed.

Lemma output_buf_ok : buf_ok t_output.
Proof. split; reflexivity. Qed.

Lemma post_template w prev name body ae : tname_okb fmt name = true -> stmt_post0 o (w body) ->
  top_post0 (visit_template o w prev name body ae) [DFun (fmt_bytes (fmt_template_name fmt) name)].
Proof.
  intros Hn Hbody st st' Hs Hk H. unfold visit_template, template_head, template_rest in H.
  apply bind_inv in H. destruct H as (st0 & st1 & H0 & H). apply get_inv in H0. destruct H0; subst. cbv beta zeta in H.
  apply bind_inv in H. destruct H as (u1 & st1 & H1 & H). apply bind_inv in H. destruct H as (u2 & st2 & H2 & H). jinv H2.
  apply bind_inv in H1. destruct H1 as (u1' & st1' & H1 & H1b). jinv H1b.
  assert (P1 : j_out st1' = j_out st /\ j_scope st1' = j_scope st /\ j_called st1' = j_called st).
  { destruct (ae =? 0); jinv H1; proj; auto. }
  destruct P1 as (O1 & S1 & K1).
  apply bind_inv in H. destruct H as (u3 & st3 & H3 & H). jinv H3. apply bind_inv in H. destruct H as (u4 & st4 & H4 & H). unfold indent_inc in H4. jinv H4.
  apply bind_inv in H. destruct H as (u5 & st5 & H5 & H). apply bind_inv in H. destruct H as (u6 & st6 & H6 & H). jinv H6.
  apply bind_inv in H. destruct H as (u7 & st7 & H7 & H). jinv H7. apply bind_inv in H. destruct H as (u8 & st8 & H8 & H). unfold jsc_push in H8. jinv H8.
  apply bind_inv in H. destruct H as (u9 & st9 & H9 & H). apply bind_inv in H. destruct H as (u10 & st10 & H10 & H). jinv H10.
  apply bind_inv in H. destruct H as (u11 & st11 & H11 & H). unfold indent_dec in H11. jinv H11.
  apply bind_inv in H. destruct H as (u12 & st12 & H12 & H). jinv H12. apply bind_inv in H. destruct H as (u13 & st13 & H13 & H14). jinv H13. unfold jsc_pop in H14. jinv H14. units.
  (* the optional "opt_data = opt_data || {};" *)
  set (all_opt := match prev with Some flags => negb (Nat.eqb (List.length flags) 0) && forallb (fun x : bool => x) flags | None => false end) in *.
  match type of H5 with _ ?sa = Ok (tt, st5) =>
    assert (P5 : exists c5, ext sa st5 c5 /\ j_scope st5 = j_scope sa /\ j_called st5 = j_called sa /\ forall s, emits md c5 (MStmt false) s (MStmt false) s [])
  end.
  { destruct all_opt; jinv H5.
    - eexists. split; [ext_build|]. proj. repeat (split; [reflexivity|]). intro s. norm_app2. schain.
    - exists []. split; [apply ext_refl; reflexivity|]. repeat (split; [reflexivity|]). intro s. apply emits_nil. }
  destruct P5 as (c5 & E5 & S5 & K5 & R5). proj.
  match type of H9 with _ ?sa = Ok (tt, ?sb) =>
    destruct (Hbody sa sb ltac:(proj; constructor; [apply frame_ok_nil|rewrite S5, S1; exact Hs]) ltac:(unfold called_ok in *; proj; congruence) ltac:(proj; apply output_buf_ok) H9)
      as (c9 & E9 & C9 & S9 & B9 & K9) end. proj.
  eexists. split.
  { eapply ext_w1; [reflexivity|]. eapply ext_w1; [reflexivity|]. eapply ext_upd. eapply ext_w1; [reflexivity|]. eapply ext_upd. eapply ext_trans; [|exact E9].
    eapply ext_w1; [reflexivity|]. eapply ext_w1; [reflexivity|]. eapply ext_upd. eapply ext_trans; [|exact E5].
    eapply ext_w1; [reflexivity|]. eapply ext_w1; [reflexivity|]. eapply ext_upd. eapply ext_upd. apply ext_refl. exact O1. }
  split; [|split; [apply scope_ok_tl; exact S9|unfold called_ok in *; proj; exact K9]].
  intro e. destruct (C9 false [KBlock BFun]) as (e9 & Q9). exists false.
  pose proof (header_run name e Hn) as Qh.
  norm_app2.
  eapply emits_cons_d; [ssingle|]. eapply emits_cons_d; [ssingle|]. eapply emits_cons_d; [ssingle|].
  eapply emits_app_d1; [exact Qh|]. eapply emits_cons0; [ssingle|]. eapply emits_app0; [apply R5|]. norm_app2.
  eapply emits_cons0; [ssingle|]. eapply emits_cons0; [ssingle|]. eapply emits_cons0; [ssingle|]. eapply emits_app0; [exact Q9|].
  eapply emits_cons0; [ssingle|]. eapply emits_cons0; [ssingle|]. eapply emits_cons0; [ssingle|]. schain.
Qed.

(* ---- namespaces ---- *)
Lemma find_dot_none s : forall i, find_dot s i = None -> forallb (fun c => negb (c =? 46)) s = true.
Proof.
  induction s as [|c s IH]; intros i H; [reflexivity|]. cbn [find_dot] in H. cbn [forallb]. destruct (c =? 46); [discriminate|]. cbn. eapply IH; eauto.
Qed.

Lemma nodot_name_ok pre : has_dot pre = false -> dname_okb pre = true -> name_ok pre.
Proof.
  unfold has_dot. intros Hd Hn. destruct (find_dot pre 0) eqn:Ef; [discriminate|]. apply find_dot_none in Ef.
  unfold dname_okb in Hn. unfold name_ok. unfold lex_name in *. rewrite (split_dots_nodot pre [] Ef) in *. cbn [rev app forallb name_tokens] in *.
  destruct (ident_ok pre && true); [|discriminate]. destruct (tok_of_ident_cases pre) as [(k & Ek)|Ek]; rewrite Ek in *; [discriminate|reflexivity].
Qed.

Lemma nsdecl_run pre rest e s m' s' : dname_okb pre = true -> emits md rest (MStmt true) s m' s' [] ->
  emits md (CText t_ns1 :: CName pre :: CText t_ns2 :: (if has_dot pre then [] else [CText t_var]) ++ CName pre :: CText t_ns3 :: rest) (MStmt e) s m' s' [].
Proof.
  intros Hn Hr. eapply emits_cons0; [esingle|]. eapply emits_cons0; [apply dname_run; exact Hn|]. eapply emits_cons0; [esingle|].
  destruct (has_dot pre) eqn:Hd; cbn [app].
  - destruct (dname_stmt_run pre false (KBlock BIf :: s) Hn) as (ts & L & R).
    eapply emits_cons0; [eapply emits_toks1; [rewrite lex_chunk_name, L; reflexivity|exact R|tail_solve]|]. eapply emits_cons0; [esingle|exact Hr].
  - pose proof (nodot_name_ok pre Hd Hn) as Hnm. eapply emits_cons0; [esingle|]. eapply emits_cons0; [esingle|]. eapply emits_cons0; [esingle|exact Hr].
Qed.

Lemma ns_post name fuel : forall i st st', forallb (nsdecl_okb) (ns_prefixes fuel name i) = true ->
  ns_decls fuel name i st = Ok (tt, st') ->
  exists cs, ext st st' cs /\ (forall e s, exists e', emits md cs (MStmt e) s (MStmt e') s []) /\ j_scope st' = j_scope st /\ j_called st' = j_called st.
Proof.
  induction fuel as [|f IH]; intros i st st' Hall H; cbn [ns_decls ns_prefixes] in *; [discriminate H|].
  destruct (Nat.ltb i (List.length name)).
  - cbn [forallb] in Hall. apply andb_prop in Hall. destruct Hall as [Hp Hl]. cbv zeta in H.
    apply bind_inv in H. destruct H as (u & st1 & H1 & H2). jinv H1. units.
    match type of H2 with _ _ _ _ ?sa = _ => destruct (IH _ sa st' Hl H2) as (c2 & E2 & R2 & S2 & K2) end. proj.
    eexists. split; [eapply ext_trans; [|exact E2]; ext_build|]. split; [|auto].
    intros e s. destruct (R2 true s) as (e' & Q2). exists e'. norm_app2. eapply emits_cons0; [ssingle|].
    apply nsdecl_run; [exact Hp|]. eapply emits_cons0; [esingle|exact Q2].
  - jinv H. exists []. split; [apply ext_refl; reflexivity|]. split; [|auto]. intros e s. exists e. apply emits_nil.
Qed.

(* ---- the top-level nodes ---- *)
Definition fname (name : bstr) : bstr := fmt_bytes (fmt_template_name fmt) name.
Definition decls_of (n : node) : list jsdecl := match n with NTemplate _ name _ _ _ => [DFun (fname name)] | _ => [] end.

Lemma top_walk fk n g : top_chk fmt fk n = true -> top_post0 (jwalk o g n) (decls_of n).
Proof.
  intros Hc. destruct g as [|g]; [intros st st' _ _ H; discriminate H|].
  change (jwalk o (S g)) with (jwalk_body o (jwalk o g)). intros st st' Hs Hk H. unfold jwalk_body in H.
  apply bind_inv in H. destruct H as (st0 & st1 & H0 & H). apply get_inv in H0. destruct H0; subst.
  apply bind_inv in H. destruct H as (u & st1 & H0 & H). apply mod_inv in H0. subst st1.
  destruct n; try discriminate Hc; cbn [jwalk_node top_chk decls_of] in *.
  - (* template *)
    apply andb_prop in Hc. destruct Hc as [Hn Hb].
    match type of H with _ ?sa = _ => destruct (post_template (jwalk o g) _ name _ _ Hn (stmt_walk o fk _ Hb g) sa st' ltac:(proj; exact Hs) ltac:(unfold called_ok in *; proj; exact Hk) H) as (cs & E & R & S & K) end.
    exists cs. split; [exact E|]. split; [exact R|]. split; [exact S|exact K].
  - (* namespace *)
    apply bind_inv in H. destruct H as (u2 & st2 & H1 & H2). jinv H1. units.
    match type of H2 with _ _ _ _ ?sa = _ => destruct (ns_post name _ 0%nat sa st' Hc H2) as (cs & E & R & S & K) end. proj.
    exists cs. split; [exact E|]. split; [intro e; apply R|]. split; [congruence|unfold called_ok in *; congruence].
  - (* soydoc *)
    jinv H. exists []. split; [apply ext_refl; reflexivity|]. split; [intro e; exists e; apply emits_nil|]. proj. auto.
Qed.

Lemma file_walk fk g body : forall st st', forallb (top_chk fmt fk) body = true -> scope_ok (j_scope st) -> called_ok fmt st ->
  jwalk_list (jwalk o g) body st = Ok (tt, st') ->
  exists cs, ext st st' cs /\ (forall e, exists e', emits md cs (MStmt e) [] (MStmt e') [] (flat_map decls_of body)) /\ called_ok fmt st'.
Proof.
  induction body as [|x body IH]; intros st st' Hall Hs Hk H; cbn [jwalk_list] in H.
  - jinv H. exists []. split; [apply ext_refl; reflexivity|]. split; [intro e; exists e; apply emits_nil|exact Hk].
  - cbn [forallb] in Hall. apply andb_prop in Hall. destruct Hall as [Hx Hl].
    apply bind_inv in H. destruct H as (u & st1 & H1 & H2). units.
    destruct (top_walk fk x g Hx st st1 Hs Hk H1) as (c1 & E1 & R1 & S1 & K1).
    destruct (IH st1 st' Hl S1 K1 H2) as (c2 & E2 & R2 & K2).
    exists (c1 ++ c2). split; [eapply ext_trans; eauto|]. split; [|exact K2].
    intro e. destruct (R1 e) as (e1 & Q1). destruct (R2 e1) as (e2 & Q2). exists e2. cbn [flat_map]. eapply emits_app; eauto.
Qed.

Lemma prog_funs_decls body : prog_funs (flat_map decls_of body) = map fname (template_names body).
Proof.
  induction body as [|x body IH]; [reflexivity|]. cbn [flat_map]. unfold prog_funs in *. rewrite flat_map_app, IH.
  destruct x; cbn [decls_of flat_map app template_names map]; reflexivity.
Qed.

(* ---- the header comment ---- *)
Lemma has_lt_eq s : has_lt' s = has_lt s.
Proof.
  induction s as [|c r IH]; [reflexivity|]. cbn [has_lt' has_lt]. rewrite IH. f_equal; unfold lt_at', lt_at, ls_at; destruct r as [|c1 [|c2 r2]]; rewrite ?orb_false_r; reflexivity.
Qed.

(* a comment body without a line terminator, continued by '.', is skipped *)
Lemma comment_safe s X : has_lt' s = false -> lex_text 0 LComment (s ++ 46 :: X) = lex_text 0 LComment (46 :: X).
Proof.
  induction s as [|c r IH]; intro H; [reflexivity|]. cbn [has_lt'] in H. apply orb_false_elim in H. destruct H as [H1 H2].
  cbn [lt_at'] in H1. apply orb_false_elim in H1. destruct H1 as [H1 H3]. cbn [app lex_text]. rewrite H1.
  assert (E : ls_at c (r ++ 46 :: X) = false).
  { destruct r as [|c1 [|c2 r2]]; [| |exact H3]; cbn [app]; unfold ls_at.
    - destruct X; [reflexivity|]. rewrite andb_false_r. reflexivity.
    - rewrite andb_false_r. reflexivity. }
  rewrite E. apply IH. exact H2.
Qed.
Lemma comment_plain s X : forallb (fun c => negb ((c =? 10) || (c =? 13)) && negb (c =? 226)) s = true ->
  lex_text 0 LComment (s ++ X) = lex_text 0 LComment X.
Proof.
  induction s as [|c r IH]; intro H; [reflexivity|]. cbn [forallb] in H. apply andb_prop in H. destruct H as [H1 H2].
  apply andb_prop in H1. destruct H1 as [Ha Hb]. apply negb_true_iff in Ha. apply negb_true_iff in Hb. cbn [app lex_text]. rewrite Ha.
  assert (E : ls_at c (r ++ X) = false) by (unfold ls_at; destruct (r ++ X) as [|c1 [|c2 l]]; try reflexivity; rewrite Hb; reflexivity).
  rewrite E. apply IH. exact H2.
Qed.
Lemma stmt_no_incr rest : cont_ok md (MStmt false) rest -> incr_next rest = false.
Proof.
  intros (ts_r & m_r & L & A). destruct (incr_next rest) eqn:Ei; [exfalso|reflexivity].
  destruct (incr_first _ _ _ Ei L) as (tl & [-> | ->]); destruct A as (s & r & St); cbn in St; discriminate.
Qed.

Lemma header_line name n : emits md (CText (indent_text n) :: [CText t_hdr1; CFile (line_comment_safe name); CText t_dot] ++ [CText t_nl]) (MStmt false) [] (MStmt false) [] [].
Proof.
  exists []. split; [|split; [reflexivity|]].
  - cbn [app lex_chunks_from lex_chunk]. rewrite lex_indent. cbn [option_map].
    replace (lex_text 0 LNormal t_hdr1) with (Some (@nil jstoken, LComment)) by (vm_compute; reflexivity).
    rewrite has_lt_eq, line_comment_safe_no_lt. cbn [option_map app].
    replace (lex_text 0 LComment t_dot) with (Some (@nil jstoken, LComment)) by (vm_compute; reflexivity).
    replace (lex_text 0 LComment t_nl) with (Some (@nil jstoken, LNormal)) by (vm_compute; reflexivity). reflexivity.
  - intros ip rest C. cbn [app render_chunks render_chunk]. rewrite <- !app_assoc. rewrite lex_indent_app.
    unfold t_dot, t_nl. cbn [app].
    match goal with |- context [lex_text 0 LNormal (t_hdr1 ++ ?X)] => change (lex_text 0 LNormal (t_hdr1 ++ X)) with (lex_text 0 LComment (drop 2 t_hdr1 ++ X)) end.
    rewrite comment_plain by (vm_compute; reflexivity).
    rewrite comment_safe by (rewrite has_lt_eq; apply line_comment_safe_no_lt).
    assert (E1 : lex_text 0 LComment (46 :: 10 :: rest) = if incr_next rest then cons_tok tok_incr_nl (lex_text (incr_skip rest) LNormal rest) else lex_text 0 LNormal rest).
    { cbn [lex_text]. change ((46 =? 10) || (46 =? 13)) with false. change ((10 =? 10) || (10 =? 13)) with true.
      replace (ls_at 46 (10 :: rest)) with false by (destruct rest; reflexivity). reflexivity. }
    rewrite E1. rewrite (stmt_no_incr rest C). rewrite prepend_nil. reflexivity.
Qed.

(* ---- imports ---- *)
Lemma render_nostr ip ip' cs : forallb (fun c => match c with CStrLit _ _ => false | _ => true end) cs = true ->
  render_chunks ip cs = render_chunks ip' cs.
Proof.
  induction cs as [|c cs IH]; [reflexivity|]. cbn [forallb render_chunks]. intro H. apply andb_prop in H. destruct H as [H1 H2].
  rewrite (IH H2). destruct c; try reflexivity. discriminate H1.
Qed.
Lemma imp_run imp : imp_ok fmt imp = true -> exists d, emits md imp (MStmt false) [] (MStmt false) [] d /\ prog_funs d = [].
Proof.
  unfold imp_ok. destruct imp as [|c imp]; [intros _; exists []; split; [apply emits_nil|reflexivity]|].
  destruct (lex_chunks_from LNormal (c :: imp)) as [[ts m]|] eqn:El; [|discriminate]. destruct m; try discriminate.
  destruct (js_run md ts (MStmt false) []) as [[[m1 s1] d1]|] eqn:Er; [|discriminate].
  destruct m1; try discriminate. destruct els; try discriminate. destruct s1; try discriminate. destruct d1 as [|[] [|]]; try discriminate.
  intro Hb. apply andb_prop in Hb. destruct Hb as [Hb Hlast]. apply andb_prop in Hb. destruct Hb as [Hns Hb].
  destruct (lex_text 0 LNormal (render_chunks (fun _ => true) (c :: imp))) as [[ts' m']|] eqn:Lb; [|discriminate Hb]. destruct m'; try discriminate Hb.
  apply toks_eqb_eq in Hb. subst ts'.
  eexists. split; [exists ts; split; [exact El|split; [exact Er|]]|reflexivity].
  intros ip rest C. rewrite (render_nostr ip (fun _ => true) _ Hns). eapply text_leaf; [exact Lb| |exact C].
  unfold tail_ok. destruct (render_chunks (fun _ : N => true) (c :: imp)) as [|b0 bs0] eqn:Er0; [exact I|].
  cbv zeta in Hlast. apply orb_prop in Hlast. destruct Hlast as [E|E]; apply N.eqb_eq in E; rewrite E; destruct (lastint ts); reflexivity.
Qed.

Lemma import_lines_run called keys : Forall (fun kv : bstr * list chunk => imp_ok fmt (snd kv) = true) called ->
  exists d, emits md (import_lines keys called) (MStmt false) [] (MStmt false) [] d /\ prog_funs d = [].
Proof.
  intro Hc. induction keys as [|k keys IH]; cbn [import_lines]; [exists []; split; [apply emits_nil|reflexivity]|].
  destruct IH as (d2 & R2 & P2).
  assert (H1 : exists d1, emits md (match assoc_s k called with Some imp => imp | None => [] end) (MStmt false) [] (MStmt false) [] d1 /\ prog_funs d1 = []).
  { destruct (assoc_s k called) as [imp|] eqn:Ea; [|exists []; split; [apply emits_nil|reflexivity]].
    apply imp_run. apply assoc_s_key in Ea. rewrite Forall_forall in Hc. exact (Hc _ Ea). }
  destruct H1 as (d1 & R1 & P1). exists (d1 ++ [] ++ d2). split.
  - eapply emits_app; [exact R1|]. eapply emits_app; [|exact R2]. esingle.
  - unfold prog_funs in *. rewrite !flat_map_app, P1, P2. reflexivity.
Qed.

(* ---- the file ---- *)
Theorem gen_file_parses fuel fk name body cs : file_chk fmt fk body = true -> gen_file o fuel name body = Ok cs ->
  exists ts prog, lex_chunks cs = Some ts /\ js_parse md ts = Some prog
    /\ prog_funs prog = map fname (template_names body) /\ bracket_balanced ts = true
    /\ forall is_print, lex_bytes (render_chunks is_print cs) = Some ts.
Proof.
  intros Hc H. unfold gen_file in H. destruct (visit_file o fuel name body jinit_state) as [[[] st]| | | | |] eqn:Ev; try discriminate. inversion H; subst cs. clear H.
  unfold visit_file in Ev. apply bind_inv in Ev. destruct Ev as (u1 & st1 & H1 & Ev). apply bind_inv in Ev. destruct Ev as (u2 & st2 & H2 & Ev).
  apply bind_inv in Ev. destruct Ev as (u3 & st3 & H3 & H4). jinv H1. jinv H2. jinv H3. units.
  match type of H4 with _ _ _ ?sa = _ =>
    destruct (file_walk fk fuel body sa st Hc ltac:(proj; repeat constructor; intros; discriminate) ltac:(unfold called_ok; proj; constructor) H4) as (c4 & E4 & R4 & K4) end.
  destruct (R4 false) as (e4 & Q4).
  (* the text of the walk *)
  assert (Eout : exists cw, rev (j_out st) = cw /\ exists e', emits md cw (MStmt false) [] (MStmt e') [] (flat_map decls_of body)).
  { unfold ext in E4. proj. rewrite E4. cbn [j_out jinit_state]. eexists. split; [reflexivity|]. exists e4.
    rewrite rev_app_distr, rev_involutive. cbn [j_out jinit_state j_indent rev_append rev app indent_text].
    change (emits md (([CText []; CText t_hdr1; CFile (line_comment_safe name); CText t_dot] ++ [CText t_nl]) ++ CText [] :: CText t_hdr2 :: CText t_nl :: CText [] :: CText t_nl :: c4)
              (MStmt false) [] (MStmt e4) [] (flat_map decls_of body)).
    eapply emits_app_d0; [apply (header_line name 0)|].
    change (CText [] :: CText t_hdr2 :: CText t_nl :: CText [] :: CText t_nl :: c4) with ([CText []; CText t_hdr2; CText t_nl; CText []; CText t_nl] ++ c4).
    eapply emits_app_d0; [|exact Q4].
    eapply emits_block; [intro ip; cbn [render_chunks render_chunk]; reflexivity|vm_compute; reflexivity|vm_compute; reflexivity|reflexivity|reflexivity]. }
  destruct Eout as (cw & -> & e' & Qw).
  (* the imports *)
  assert (Eimp : exists d, emits md (match j_called st with
                                     | [] => []
                                     | called =>
                                         let missing := filter (fun k => negb (existsb (bstr_eqb k) (j_infile st))) (map fst called) in
                                         import_lines (sort_strings (o_order o missing)) called ++ [CText t_nl]
                                     end) (MStmt false) [] (MStmt false) [] d /\ prog_funs d = []).
  { unfold called_ok in K4. destruct (j_called st) as [|kv called]; [exists []; split; [apply emits_nil|reflexivity]|]. cbv zeta.
    destruct (import_lines_run (kv :: called) (sort_strings (o_order o (filter (fun k => negb (existsb (bstr_eqb k) (j_infile st))) (map fst (kv :: called))))) K4) as (d & R & P).
    exists d. split; [|exact P]. eapply emits_app_d1; [exact R|esingle]. }
  destruct Eimp as (d1 & Qi & Pi).
  pose proof (emits_app md _ _ _ _ _ _ _ _ _ _ Qi Qw) as (ts & L & R & Bt).
  exists ts, (d1 ++ flat_map decls_of body). split; [unfold lex_chunks; match goal with |- context [lex_chunks_from LNormal ?l] => match type of L with lex_chunks_from LNormal ?l' = _ => change l with l' end end; rewrite L; reflexivity|].
  assert (Hp : js_parse md ts = Some (d1 ++ flat_map decls_of body)) by (unfold js_parse; rewrite R; reflexivity).
  split; [exact Hp|]. split; [|split; [eapply js_parse_balanced; exact Hp|]].
  - unfold prog_funs in *. rewrite flat_map_app, Pi. cbn [app]. apply prog_funs_decls.
  - intro ip. assert (C0 : cont_ok md (MStmt e') []) by (exists [], LNormal; split; [reflexivity|exact I]).
    pose proof (Bt ip [] C0) as Hb. rewrite app_nil_r in Hb. cbn in Hb. rewrite app_nil_r in Hb. unfold lex_bytes.
    match goal with |- context [lex_text 0 LNormal ?x] => match type of Hb with lex_text 0 LNormal ?y = _ => change x with y end end.
    rewrite Hb. reflexivity.
Qed.
End File.
