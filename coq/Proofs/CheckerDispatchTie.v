(* Source tie of the dispatch of the data-reference checker: templateChecker.checkTemplate of
   parsepasses/datarefcheck.go is a type switch over the node followed by "recurse if the node is a ParentNode".
   tablegen (go/cmd/tablegen/checkdispatch.go, generator 81-check-dispatch) translates it symbolically on every
   run: Generated.Tables.src_check_dispatch lists, per clause, the node types and the clause's steps (checker
   operations on fields of the node, in order; a clause that does not return continues with the steps after the
   switch), src_check_default the steps for every other type.

   [cd_run] interprets a step list over the state of Model/Compile.v's checker, with the model's own operations
   as the meaning of the Go methods (checkLet, recurse = check_block, checkCall, visitKey, checkLoopFunc, the
   pushes and the pop of tc.vars) and [w] as the recursive call of checkTemplate.  [check_body_matches_source]:
   for EVERY node, state and [w], one level of the model's checkTemplate (Compile.check_body) is the run of the steps
   of the clause of the node's Go type.  So which node types have a clause, which operations a clause performs on
   which fields, in which order, and that every other node is only recursed into are read from the source on
   every run: a new clause, a dropped or reordered step, a clause that starts or stops returning early breaks the
   lemma (or, for a statement of a shape the translator does not know, is reported as untranslatable).
   [cd_types_known]: every type named by a clause is a node type this file knows, so no clause is silently
   skipped.  Model/Checker.v (C07) is tied to Compile.check_body by Proofs/CheckerCompileTie.v.

   What stays modelled: the bodies of the methods the steps name (checkCall, visitKey, checkLoopFunc, recurse's
   pop logic), compared with the compiler on every run by the harnesses of C07 and C13. *)
From Coq Require Import String.
From Soy Require Import Model.Bytes Model.Num Model.Values Model.Outcome Model.Ast Model.MsgId Model.Compile.
From Soy Require Import Generated.Tables Proofs.SourceTieChildren.
Open Scope N_scope.

(* the Go type of a node, for the clause lookup: the ParentNodes of SourceTieChildren.go_type, and HeaderParamNode *)
Definition cd_type (n : node) : option bstr :=
  match n with
  | NHeaderParam _ _ _ _ _ => Some (b "HeaderParamNode")
  | _ => go_type n
  end.

(* every type name [cd_type] can return (the leaves it maps to None have no clause: see cd_types_known) *)
Definition cd_known_types : list bstr := Eval vm_compute in
  [ b "HeaderParamNode"; b "ListNode"; b "TemplateNode"; b "SoyDocNode"; b "PrintNode"; b "PrintDirectiveNode"; b "CssNode";
    b "LogNode"; b "LetValueNode"; b "LetContentNode"; b "MsgNode"; b "MsgPlaceholderNode"; b "MsgPluralNode";
    b "MsgPluralCaseNode"; b "CallNode"; b "CallParamValueNode"; b "CallParamContentNode"; b "IfNode"; b "IfCondNode";
    b "SwitchNode"; b "SwitchCaseNode"; b "ForNode"; b "FunctionNode"; b "ListLiteralNode"; b "MapLiteralNode";
    b "DataRefNode"; b "DataRefExprNode"; b "NotNode"; b "NegateNode"; b "BinaryOpNode"; b "TernNode" ].

(* the string fields the steps read *)
Definition cd_str_field (n : node) (f : bstr) : option bstr :=
  match n with
  | NLetValue _ name _ | NLetContent _ name _ => if bstr_eqb f (b "Name") then Some name else None
  | NFor _ var _ _ _ => if bstr_eqb f (b "Var") then Some var else None
  | NDataRef _ key _ => if bstr_eqb f (b "Key") then Some key else None
  | _ => None
  end.

Definition cd_header_msg : bstr := Eval vm_compute in b "unexpected {@param ...} tag found".

Fixpoint cd_clause (t : bstr) (l : list (list bstr * list (N * bstr))) : option (list (N * bstr)) :=
  match l with
  | [] => None
  | (ts, steps) :: r => if mem_s t ts then Some steps else cd_clause t r
  end.

Definition cd_steps_of (n : node) : list (N * bstr) :=
  match cd_type n with
  | Some t => match cd_clause t src_check_dispatch with Some s => s | None => src_check_default end
  | None => src_check_default
  end.

Section Run.
  Variable ko : korder.
  Variable lookup : bstr -> option template.
  Variable params : list bstr.
  Variable w : tcs -> node -> check_err + tcs.      (* tc.checkTemplate, the recursive call *)
  Variable n : node.                                (* the node being checked *)

  (* None: the steps do not fit the node (a field it does not have, an unknown step) *)
  Fixpoint cd_run (steps : list (N * bstr)) (st : tcs) : option (check_err + tcs) :=
    match steps with
    | [] => Some (inr st)
    | (tag, f) :: r =>
        let next (x : check_err + tcs) := match x with inr st' => cd_run r st' | inl e => Some (inl e) end in
        match tag with
        | 0 => match cd_str_field n f with                       (* tc.checkLet(node.F) *)
               | Some name => if bstr_eqb name k_ij then Some (inl CKLetIj) else cd_run r st
               | None => None
               end
        | 1 => next (check_block ko w st n)                      (* tc.recurse(node) *)
        | 2 => match cd_str_field n f with Some name => cd_run r (push_var st name true) | None => None end
        | 3 => match cd_str_field n f with Some name => cd_run r (push_var st name false) | None => None end
        | 4 => cd_run r {| tc_vars := tl (tc_vars st); tc_used := tc_used st |}        (* tc.vars[:len-1] *)
        | 5 => match field n f with Some [c] => next (w st c) | _ => None end          (* tc.checkTemplate(node.F) *)
        | 6 => match field n f with                                                    (* ... when node.F is not nil *)
               | Some [c] => next (w st c)
               | Some [] => cd_run r st
               | _ => None
               end
        | 7 => match n with                                      (* tc.checkCall(node) *)
               | NCall p name alldata data ps => next (check_call lookup params st p name alldata data ps)
               | _ => None
               end
        | 8 => match cd_str_field n f with Some key => next (visit_key params st key) | None => None end
        | 9 => match n with                                      (* tc.checkLoopFunc(node) *)
               | NFunc _ fname args =>
                   match check_loop_func st fname args with Some e => Some (inl e) | None => cd_run r st end
               | _ => None
               end
        | 10 => if bstr_eqb f cd_header_msg then Some (inl CKHeaderParam) else None    (* panic(...) *)
        | _ => None
        end
    end.
End Run.

(* recurse on a node that is not a ParentNode: Go does not call it, the model's check_block is the identity *)
Lemma check_block_leaf ko w st n : children ko n = [] -> check_block ko w st n = inr st.
Proof.
  intros H. unfold check_block. rewrite H. cbn [check_seq]. unfold pop_block.
  rewrite Nat.sub_diag. cbn [firstn rev filter map skipn]. destruct st; reflexivity.
Qed.

Lemma cd_types_known :
  forallb (fun c => forallb (fun t => mem_s t cd_known_types) (fst c)) src_check_dispatch = true.
Proof. vm_compute. reflexivity. Qed.

Lemma cd_type_known n t : cd_type n = Some t -> mem_s t cd_known_types = true.
Proof. destruct n; cbn [cd_type go_type]; intros [= <-]; vm_compute; reflexivity. Qed.

Ltac cd_eval_steps :=
  unfold cd_steps_of; cbn [cd_type go_type];
  match goal with |- context [cd_clause ?t src_check_dispatch] =>
    let v := eval vm_compute in (cd_clause t src_check_dispatch) in change (cd_clause t src_check_dispatch) with v
  | _ => idtac end;
  try (let v := eval vm_compute in src_check_default in change src_check_default with v);
  cbv iota beta.

Ltac cd_eval_eqb :=
  repeat match goal with |- context [bstr_eqb ?x ?y] =>
    match x with context [String] => idtac | _ => match y with context [String] => idtac end end;
    let v := eval vm_compute in (bstr_eqb x y) in change (bstr_eqb x y) with v end.

Theorem check_body_matches_source ko lookup params w st n :
  cd_run ko lookup params w n (cd_steps_of n) st = Some (check_body ko lookup params w st n).
Proof.
  destruct n; cd_eval_steps; cbn [cd_run check_body cd_str_field field];
    try (destruct (check_block ko w st _); reflexivity).
  all: cd_eval_eqb; cbv iota beta.
  - (* FunctionNode *) destruct (check_loop_func st name args); [reflexivity|]. destruct (check_block ko w st _); reflexivity.
  - (* DataRefNode *) destruct (visit_key params st key) as [e|st']; [reflexivity|]. destruct (check_block ko w st' _); reflexivity.
  - (* ForNode *)
    destruct (w st n1) as [e|st1]; [reflexivity|]. destruct (w (push_var st1 var false) n2) as [e|st2]; [reflexivity|].
    destruct ifempty as [ie|]; cbn [olist]; [|reflexivity]. destruct (w _ ie); reflexivity.
  - (* CallNode *)
    destruct (check_call lookup params st p name alldata data params0) as [e|st']; [reflexivity|].
    destruct (check_block ko w st' _); reflexivity.
  - (* LetValueNode *) destruct (bstr_eqb name k_ij); [reflexivity|]. destruct (check_block ko w st _); reflexivity.
  - (* LetContentNode *) destruct (bstr_eqb name k_ij); [reflexivity|]. destruct (check_block ko w st _); reflexivity.
  - (* HeaderParamNode *) vm_compute. reflexivity.
Qed.

(* hence the model's checker, at any fuel, runs the source's clauses at every level *)
Corollary check_node_matches_source ko lookup params fuel st n :
  Some (check_node ko lookup params (S fuel) st n)
  = cd_run ko lookup params (check_node ko lookup params fuel) n (cd_steps_of n) st.
Proof. symmetry. apply check_body_matches_source. Qed.
