(* The command-level parser model (Model/Parser.v) does not look at item positions on its successful
   runs.  Definitions, the relation on states, the primitives and the bind lemma. *)
From Soy Require Import Model.Bytes Model.Num Model.Values Model.Ast Model.Token Model.RawText Model.ExprParser Model.Parser
  Generated.Tables Spec.ExprSyntax Proofs.ExprParserStrip.
Require Import Lia List.
Import ListNotations.
Open Scope N_scope.

(* every position of a command-level tree set to 0; expression-valued fields by [strip_pos] *)
Fixpoint cps_strip (n : node) : node :=
  match n with
  | NList _ l => NList 0 (map cps_strip l)
  | NRawText _ t => NRawText 0 t
  | NCss _ e sfx => NCss 0 (option_map strip_pos e) sfx
  | NLog _ body => NLog 0 (cps_strip body)
  | NDebugger _ => NDebugger 0
  | NIf _ conds => NIf 0 (map cps_strip conds)
  | NIfCond _ c body => NIfCond 0 (option_map strip_pos c) (cps_strip body)
  | NFor _ v lst body ie => NFor 0 v (strip_pos lst) (cps_strip body) (option_map cps_strip ie)
  | NSwitch _ v cases => NSwitch 0 (strip_pos v) (map cps_strip cases)
  | NSwitchCase _ vals body => NSwitchCase 0 (map strip_pos vals) (cps_strip body)
  | NCall _ name all data params => NCall 0 name all (option_map strip_pos data) (map cps_strip params)
  | NParamValue _ k v => NParamValue 0 k (strip_pos v)
  | NParamContent _ k c => NParamContent 0 k (cps_strip c)
  | NLetValue _ nm e => NLetValue 0 nm (strip_pos e)
  | NLetContent _ nm body => NLetContent 0 nm (cps_strip body)
  | NMsg _ id meaning desc body => NMsg 0 id meaning desc (map cps_strip body)
  | NMsgPlaceholder _ nm body => NMsgPlaceholder 0 nm (cps_strip body)
  | NMsgHtmlTag _ t => NMsgHtmlTag 0 t
  | NMsgPlural _ vn v cases dflt => NMsgPlural 0 vn (strip_pos v) (map cps_strip cases) (map cps_strip dflt)
  | NMsgPluralCase _ v body => NMsgPluralCase 0 v (map cps_strip body)
  | NTemplate _ name body ae priv => NTemplate 0 name (cps_strip body) ae priv
  | NNamespace _ name ae => NNamespace 0 name ae
  | NSoyDoc _ params => NSoyDoc 0 (map cps_strip params)
  | NSoyDocParam _ name opt => NSoyDocParam 0 name opt
  | NHeaderParam _ opt name typ d => NHeaderParam 0 opt name typ (option_map strip_pos d)
  | NLiteral _ body => NLiteral 0 body
  | NIdent _ i => NIdent 0 i
  | NOther _ what => NOther 0 what
  | e => strip_pos e
  end.

Definition cps_R (s s' : cst) : Prop :=
  zs (c_p s) = zs (c_p s') /\ c_ns s = c_ns s' /\ c_al s = c_al s' /\ c_inmsg s = c_inmsg s' /\ c_scans s = c_scans s'.

Definition cps_ok {A} (eqv : A -> A -> Prop) (r r' : cres A) : Prop :=
  forall a s1, r = COk a s1 -> exists a' s1', r' = COk a' s1' /\ eqv a a' /\ cps_R s1 s1'.

(* the relations on values *)
Definition cps_teq (t t' : tok) : Prop := strip_tok t = strip_tok t'.
Definition cps_xeq (n n' : node) : Prop := strip_pos n = strip_pos n'.
Definition cps_neq (n n' : node) : Prop := cps_strip n = cps_strip n'.
Definition cps_leq (l l' : list node) : Prop := map cps_strip l = map cps_strip l'.
Definition cps_xleq (l l' : list node) : Prop := map strip_pos l = map strip_pos l'.

(* ---- cps_ok ---- *)
Lemma cps_ok_ret {A} (eqv : A -> A -> Prop) a a' s s' : eqv a a' -> cps_R s s' -> cps_ok eqv (COk a s) (COk a' s').
Proof. intros Ha Hs x s1 H. injection H as <- <-. eauto. Qed.
Lemma cps_ok_err {A} (eqv : A -> A -> Prop) t c s r' : cps_ok eqv (CErr t c s) r'.
Proof. intros x s1 H. discriminate H. Qed.
Lemma cps_ok_crash {A} (eqv : A -> A -> Prop) m r' : cps_ok eqv (CCrash m) r'.
Proof. intros x s1 H. discriminate H. Qed.
Lemma cps_ok_fuel {A} (eqv : A -> A -> Prop) r' : cps_ok eqv CFuel r'.
Proof. intros x s1 H. discriminate H. Qed.

Lemma cps_ok_bind {A B} (eqa : A -> A -> Prop) (eqb : B -> B -> Prop) x x' k k' :
  cps_ok eqa x x' ->
  (forall a a' s s', eqa a a' -> cps_R s s' -> cps_ok eqb (k a s) (k' a' s')) ->
  cps_ok eqb (cbind x k) (cbind x' k').
Proof.
  intros Hx Hk. destruct x as [a s|t c s|m|]; cbn [cbind]; try (intros y s1 H; discriminate H).
  destruct (Hx a s eq_refl) as (a' & s' & -> & Ha & Hs). cbn [cbind]. apply Hk; assumption.
Qed.

Lemma cps_ok_weaken {A} (eqa eqb : A -> A -> Prop) r r' :
  (forall a a', eqa a a' -> eqb a a') -> cps_ok eqa r r' -> cps_ok eqb r r'.
Proof. intros Himp H a s1 E. destruct (H a s1 E) as (a' & s1' & E' & Ha & Hs). eauto 6. Qed.

Lemma cps_error_at_l {A} (eqv : A -> A -> Prop) inlen t c s r' : cps_ok eqv (c_error_at inlen t c s) r'.
Proof. unfold c_error_at. destruct (t_pos t <=? inlen); intros x s1 H; discriminate H. Qed.
Lemma cps_errorf_l {A} (eqv : A -> A -> Prop) inlen c s r' : cps_ok eqv (c_errorf inlen c s) r'.
Proof. unfold c_errorf. destruct (3 <=? p_peek (c_p s))%nat; [apply cps_ok_crash | apply cps_error_at_l]. Qed.
Lemma cps_unexp_l {A} (eqv : A -> A -> Prop) inlen t c s r' : cps_ok eqv (c_unexp inlen t c s) r'.
Proof. unfold c_unexp. destruct (tis t pit_Error); apply cps_error_at_l. Qed.

Ltac cps_triv :=
  first [ apply cps_unexp_l | apply cps_errorf_l | apply cps_error_at_l | apply cps_ok_crash | apply cps_ok_fuel | apply cps_ok_err ].

(* ---- tokens ---- *)
Lemma cps_teq_typ t t' : cps_teq t t' -> t_typ t = t_typ t'.
Proof. intros H. apply (f_equal t_typ) in H. exact H. Qed.
Lemma cps_teq_val t t' : cps_teq t t' -> t_val t = t_val t'.
Proof. intros H. apply (f_equal t_val) in H. exact H. Qed.
Lemma cps_teq_tis t t' : cps_teq t t' -> forall c, tis t c = tis t' c.
Proof. intros H c. unfold tis. rewrite (cps_teq_typ _ _ H). reflexivity. Qed.
Lemma cps_teq_refl t : cps_teq t t. Proof. reflexivity. Qed.

(* rewrite the second run's token tests into the first run's *)
Ltac cps_tok H := rewrite <- ?(cps_teq_tis _ _ H), <- ?(cps_teq_val _ _ H), <- ?(cps_teq_typ _ _ H).

Lemma cps_strip_shift base l : map strip_tok (map (shift_tok base) l) = map strip_tok l.
Proof. rewrite map_map. apply map_ext. intros t. reflexivity. Qed.

(* ---- states ---- *)
Lemma cps_R_refl s : cps_R s s. Proof. repeat split. Qed.
Lemma cps_R_set_p s s' p p' : cps_R s s' -> zs p = zs p' -> cps_R (set_p s p) (set_p s' p').
Proof. intros (Hp & Hn & Ha & Hi & Hs) H. repeat split; assumption. Qed.
Lemma cps_R_backup s s' : cps_R s s' -> cps_R (c_backup s) (c_backup s').
Proof.
  intros H. apply cps_R_set_p; [exact H|]. destruct H as (Hp & _).
  rewrite <- !p_backup_zs. rewrite Hp. reflexivity.
Qed.
Lemma cps_zs_backup2 st t : zs (p_backup2 st t) = p_backup2 (zs st) (strip_tok t). Proof. reflexivity. Qed.
Lemma cps_R_backup2 s s' t t' : cps_R s s' -> cps_teq t t' -> cps_R (c_backup2 s t) (c_backup2 s' t').
Proof.
  intros H Ht. apply cps_R_set_p; [exact H|]. destruct H as (Hp & _).
  rewrite !cps_zs_backup2. rewrite Hp, Ht. reflexivity.
Qed.
Lemma cps_R_set_ns s s' ns : cps_R s s' -> cps_R (set_ns s ns) (set_ns s' ns).
Proof. intros (Hp & Hn & Ha & Hi & Hs). repeat split; assumption. Qed.
Lemma cps_R_add_alias s s' k v : cps_R s s' -> cps_R (add_alias s k v) (add_alias s' k v).
Proof. intros (Hp & Hn & Ha & Hi & Hs). repeat split; try assumption. cbn [add_alias c_al]. rewrite Ha. reflexivity. Qed.
Lemma cps_R_set_inmsg s s' x : cps_R s s' -> cps_R (set_inmsg s x) (set_inmsg s' x).
Proof. intros (Hp & Hn & Ha & Hi & Hs). repeat split; assumption. Qed.
Lemma cps_R_add_scan s s' r : cps_R s s' -> cps_R (add_scan s r) (add_scan s' r).
Proof. intros (Hp & Hn & Ha & Hi & Hs). repeat split; try assumption. cbn [add_scan c_scans]. rewrite Hs. reflexivity. Qed.
Lemma cps_R_peek s s' : cps_R s s' -> p_peek (c_p s) = p_peek (c_p s').
Proof. intros (Hp & _). apply (f_equal p_peek) in Hp. exact Hp. Qed.
Lemma cps_R_inmsg s s' : cps_R s s' -> c_inmsg s = c_inmsg s'.
Proof. intros (_ & _ & _ & Hi & _). exact Hi. Qed.
Lemma cps_R_ns s s' : cps_R s s' -> c_ns s = c_ns s'.
Proof. intros (_ & Hn & _). exact Hn. Qed.
Lemma cps_R_resolve s s' name : cps_R s s' -> resolve_name s name = resolve_name s' name.
Proof. intros (_ & Hn & Ha & _). unfold resolve_name. rewrite Hn, Ha. reflexivity. Qed.

(* ---- primitives ---- *)
Lemma cps_next s s' : cps_R s s' -> cps_ok cps_teq (c_next s) (c_next s').
Proof.
  intros H. unfold c_next. rewrite <- (cps_R_peek _ _ H).
  destruct (3 <=? p_peek (c_p s))%nat; [cps_triv|].
  pose proof (p_next_zs (c_p s)) as E1. pose proof (p_next_zs (c_p s')) as E2.
  destruct H as (Hp & Hrest). rewrite Hp in E1. rewrite E1 in E2.
  destruct (p_next (c_p s)) as [t p1]. destruct (p_next (c_p s')) as [t' p1']. cbn [fst snd] in E2.
  pose proof (f_equal fst E2) as Et. pose proof (f_equal snd E2) as Ep. cbn [fst snd] in Et, Ep.
  apply cps_ok_ret; [exact Et|]. apply cps_R_set_p; [|exact Ep]. split; assumption.
Qed.

Lemma cps_peek s s' : cps_R s s' -> cps_ok cps_teq (c_peek s) (c_peek s').
Proof.
  intros H. unfold c_peek. rewrite <- (cps_R_peek _ _ H).
  destruct (3 <=? p_peek (c_p s))%nat; [cps_triv|].
  pose proof (p_peek_zs (c_p s)) as E1. pose proof (p_peek_zs (c_p s')) as E2.
  destruct H as (Hp & Hrest). rewrite Hp in E1. rewrite E1 in E2.
  destruct (p_peek_tok (c_p s)) as [t p1]. destruct (p_peek_tok (c_p s')) as [t' p1']. cbn [fst snd] in E2.
  pose proof (f_equal fst E2) as Et. pose proof (f_equal snd E2) as Ep. cbn [fst snd] in Et, Ep.
  apply cps_ok_ret; [exact Et|]. apply cps_R_set_p; [|exact Ep]. split; assumption.
Qed.

Lemma cps_expect inlen inlen' typ ctx s s' :
  cps_R s s' -> cps_ok cps_teq (c_expect inlen typ ctx s) (c_expect inlen' typ ctx s').
Proof.
  intros H. unfold c_expect. eapply cps_ok_bind; [apply cps_next; exact H|].
  intros t t' s1 s1' Ht Hs. cbv beta. cps_tok Ht.
  destruct (tis t typ); [apply cps_ok_ret; assumption | cps_triv].
Qed.

Lemma cps_tail1 v s s' : cps_R s s' -> cps_ok eq (tail1 v s) (tail1 v s').
Proof. intros H. unfold tail1. destruct v; [cps_triv | apply cps_ok_ret; [reflexivity | exact H]]. Qed.

Lemma cps_expr_run f prec p p' n p1 :
  zs p = zs p' -> parse_expr f prec p = POk n p1 ->
  exists n' p1', parse_expr f prec p' = POk n' p1' /\ strip_pos n = strip_pos n' /\ zs p1 = zs p1'.
Proof.
  intros Hp E. destruct (parse_expr_sim f prec p) as [E1 _]. destruct (parse_expr_sim f prec p') as [E2 _].
  rewrite Hp in E1. rewrite <- E1 in E2. rewrite E in E2. cbn [zr] in E2.
  destruct (zr_ok_inv _ _ _ _ E2) as (n' & p1' & En & Hn & Hz). eauto 6.
Qed.

Lemma cps_lift_expr inlen inlen' f prec s s' :
  cps_R s s' -> cps_ok cps_xeq (lift_expr inlen parse_expr f prec s) (lift_expr inlen' parse_expr f prec s').
Proof.
  intros H a s1 E. unfold lift_expr in *. destruct (parse_expr f prec (c_p s)) as [n p1|t c p1|m|] eqn:Ep.
  - injection E as <- <-. destruct (cps_expr_run f prec _ (c_p s') _ _ (proj1 H) Ep) as (n' & p1' & -> & Hn & Hz).
    exists n', (set_p s' p1'). split; [reflexivity|]. split; [exact Hn|]. apply cps_R_set_p; assumption.
  - destruct (t_pos t <=? inlen); discriminate E.
  - discriminate E.
  - discriminate E.
Qed.

Section Quoted.
Variables (inlen inlen' : N) (lexq : bstr -> list tok) (efuel : list tok -> nat).
Hypothesis Hefuel : forall ts ts', map strip_tok ts = map strip_tok ts' -> efuel ts = efuel ts'.

Lemma cps_quoted str s s' :
  cps_R s s' ->
  cps_ok cps_xeq (parse_quoted_expr inlen lexq parse_expr efuel str s) (parse_quoted_expr inlen' lexq parse_expr efuel str s').
Proof.
  intros H. unfold parse_quoted_expr. rewrite <- (cps_R_peek _ _ H).
  destruct (3 <=? p_peek (c_p s))%nat; [cps_triv|]. cbv zeta.
  set (ts := map (shift_tok _) (lexq str)). set (ts' := map (shift_tok _) (lexq str)).
  assert (Hts : map strip_tok ts = map strip_tok ts') by (unfold ts, ts'; rewrite !cps_strip_shift; reflexivity).
  assert (Hlen : length ts = length ts') by (unfold ts, ts'; rewrite !map_length; reflexivity).
  rewrite <- (Hefuel _ _ Hts). rewrite <- Hlen.
  intros a s1 E.
  destruct (parse_expr (efuel ts) 0 (pst_init ts)) as [n p1|t c p1|m|] eqn:Ep.
  - injection E as <- <-.
    assert (Hz : zs (pst_init ts) = zs (pst_init ts')) by (rewrite !zs_init, Hts; reflexivity).
    destruct (cps_expr_run _ _ _ _ _ _ Hz Ep) as (n' & p1' & -> & Hn & Hz1).
    apply (f_equal p_recv) in Hz1. cbn [zs p_recv] in Hz1. rewrite <- Hz1.
    eexists _, _. split; [reflexivity|]. split; [exact Hn|]. apply cps_R_add_scan. exact H.
  - destruct (t_pos t <=? _); discriminate E.
  - discriminate E.
  - discriminate E.
Qed.
End Quoted.

Lemma cps_expr_fuel ts ts' : map strip_tok ts = map strip_tok ts' -> expr_fuel ts = expr_fuel ts'.
Proof.
  intros H. unfold expr_fuel. apply (f_equal (@length tok)) in H. rewrite !map_length in H. rewrite H. reflexivity.
Qed.

(* ---- lists ---- *)
Lemma cps_leq_app l l' x x' : cps_leq l l' -> cps_neq x x' -> cps_leq (l ++ [x]) (l' ++ [x']).
Proof. unfold cps_leq, cps_neq. intros Hl Hx. rewrite !map_app. cbn [map]. rewrite Hl, Hx. reflexivity. Qed.
Lemma cps_xleq_app l l' x x' : cps_xleq l l' -> cps_xeq x x' -> cps_xleq (l ++ [x]) (l' ++ [x']).
Proof. unfold cps_xleq, cps_xeq. intros Hl Hx. rewrite !map_app. cbn [map]. rewrite Hl, Hx. reflexivity. Qed.
Lemma cps_leq_length l l' : cps_leq l l' -> length l = length l'.
Proof. intros H. apply (f_equal (@length node)) in H. rewrite !map_length in H. exact H. Qed.
Lemma cps_leq_nil : cps_leq [] []. Proof. reflexivity. Qed.
Lemma cps_xleq_nil : cps_xleq [] []. Proof. reflexivity. Qed.
