(* C02, parser shape, part 4: the same conclusion for Model/Compile.v's [compile] (C13's model of
   Bundle.Compile: parse results -> Registry.Add per file -> CheckDataRefs with the Go map order of
   MapLiteralNode.Children as a parameter -> SetGlobals -> ProcessMessages), the model the registry
   theorems of this property (registry_lookup_exact ...) are about.

   The bridge of ScopeParseWf.v is restated over an abstract "accepted" predicate closed under the
   command children; its instance here is "check_node accepts the node in some state with some
   budget", for ANY children order [ko]. *)
From Coq Require Import Lia.
From Soy Require Import Model.Bytes Model.Values Model.Outcome Model.Ast Model.Token Generated.Tables
  Model.Parser Model.ExprParser Model.MsgId Model.Compile Spec.Cmd
  Proofs.CompilePermProofs Proofs.ScopeRegistry Proofs.ScopeExprWf Proofs.ScopeParseShape Proofs.ScopeParseWf.
Open Scope N_scope.

(* the children through which commands nest *)
Definition cmd_kids (n : node) : list node :=
  match n with
  | NList _ l => l
  | NLog _ b => [b]
  | NIf _ cs => cs
  | NIfCond _ _ b => [b]
  | NFor _ _ _ b ie => b :: olist ie
  | NSwitch _ _ cs => cs
  | NSwitchCase _ _ b => [b]
  | NCall _ _ _ _ ps => ps
  | NParamContent _ _ c => [c]
  | NLetContent _ _ b => [b]
  | NMsg _ _ _ _ body => body
  | NMsgPlaceholder _ _ x => [x]
  | NMsgPlural _ _ _ cases dflt => cases ++ dflt
  | NMsgPluralCase _ _ body => body
  | NTemplate _ _ b _ _ => [b]
  | _ => []
  end.

Section GBridge.
Variable B : node -> Prop.
Hypothesis HB1 : forall n x, B n -> In x (cmd_kids n) -> B x.
Hypothesis HB2 : forall p nm x, B (NMsgPlaceholder p nm x) -> sp_is_let x = false.

Theorem gbridge h : forall n, (csz n <= h)%nat -> no_stray n = true -> B n -> bridged n.
Proof.
  induction h as [|h IH]; intros n Hh Hs Hb; [destruct n; cbn [csz] in Hh; lia|].
  destruct n; cbn [csz] in Hh; cbn [no_stray] in Hs;
    try (shapes; try (intros _); try reflexivity; try exact Hp; fail).
  - (* NList *) shapes. cbn [wf]. revert Hp. apply fb_lift. intros x Hx Hpx.
    pose proof (fb_in _ _ _ Hs Hx) as Hsx. apply andb_true_iff in Hsx as [S1 S2]. apply negb_true_iff in S1.
    apply bridged_item; [|exact Hpx | exact S1].
    apply IH; [pose proof (lsz_in x nodes Hx); unfold lsz in *; lia | exact S2 | exact (HB1 _ x Hb Hx)].
  - (* NLog *) shapes. intros _.
    change (wf KCmd n = true). apply bridged_block; [|exact Hp]. apply IH; [lia | exact Hs | apply (HB1 _ n Hb); left; reflexivity].
  - (* NIf *) shapes. intros _. change (forallb (wf KIfCond) conds = true). revert Hp. apply fb_lift. intros x Hx Hpx.
    apply bridged_ifcond; [|exact Hpx].
    apply IH; [pose proof (lsz_in x conds Hx); unfold lsz in *; lia | exact (fb_in _ _ _ Hs Hx) | exact (HB1 _ x Hb Hx)].
  - (* NIfCond *) shapes. apply andb_true_iff in Hp as [P1 P2].
    cbn [wf]. change (oall (wf KExpr) cond && wf KCmd n = true). rewrite P1. cbn [andb].
    apply bridged_block; [|exact P2]. apply IH; [lia | exact Hs | apply (HB1 _ n Hb); left; reflexivity].
  - (* NFor *) shapes. intros _. apply andb_true_iff in Hp as [Hp P3]. apply andb_true_iff in Hp as [P1 P2].
    apply andb_true_iff in Hs as [S1 S2].
    change (wf KExpr n1 && wf KCmd n2 && match ifempty with Some ie => wf KCmd ie | None => true end = true).
    rewrite P1. rewrite (bridged_block n2); [|apply IH; [lia | exact S1 | apply (HB1 _ n2 Hb); left; reflexivity] | exact P2]. cbn [andb].
    destruct ifempty as [ie|]; [|reflexivity].
    apply bridged_block; [|exact P3]. apply IH; [lia | exact S2 | apply (HB1 _ ie Hb); right; left; reflexivity].
  - (* NSwitch *) shapes. intros _. apply andb_true_iff in Hp as [P1 P2].
    change (wf KExpr n && forallb (wf KCase) cases = true). rewrite P1. cbn [andb]. revert P2. apply fb_lift. intros x Hx Hpx.
    apply bridged_case; [|exact Hpx].
    apply IH; [pose proof (lsz_in x cases Hx); unfold lsz in *; lia | exact (fb_in _ _ _ Hs Hx) | exact (HB1 _ x Hb Hx)].
  - (* NSwitchCase *) shapes. apply andb_true_iff in Hp as [P1 P2].
    change (forallb (wf KExpr) values && wf KCmd n = true). rewrite P1. cbn [andb].
    apply bridged_block; [|exact P2]. apply IH; [lia | exact Hs | apply (HB1 _ n Hb); left; reflexivity].
  - (* NCall *) shapes. intros _. apply andb_true_iff in Hp as [P1 P2].
    change (oall (wf KExpr) data && forallb (wf KParam) params = true). rewrite P1. cbn [andb]. revert P2. apply fb_lift. intros x Hx Hpx.
    apply bridged_param; [|exact Hpx].
    apply IH; [pose proof (lsz_in x params Hx); unfold lsz in *; lia | exact (fb_in _ _ _ Hs Hx) | exact (HB1 _ x Hb Hx)].
  - (* NParamContent *) shapes.
    change (wf KCmd n = true). apply bridged_block; [|exact Hp]. apply IH; [lia | exact Hs | apply (HB1 _ n Hb); left; reflexivity].
  - (* NLetContent *) shapes. intros _.
    change (wf KCmd n = true). apply bridged_block; [|exact Hp]. apply IH; [lia | exact Hs | apply (HB1 _ n Hb); left; reflexivity].
  - (* NMsg *) shapes. intros _. change (forallb (wf KMsgItem) body = true). revert Hp. apply fb_lift. intros x Hx Hpx.
    apply bridged_msgitem; [|exact Hpx].
    apply IH; [pose proof (lsz_in x body Hx); unfold lsz in *; lia | exact (fb_in _ _ _ Hs Hx) | exact (HB1 _ x Hb Hx)].
  - (* NMsgPlaceholder *) shapes. apply andb_true_iff in Hs as [S1 S2]. apply negb_true_iff in S1.
    pose proof (HB2 _ _ _ Hb) as Hnl.
    change (wf KCmd n = true). rewrite <- (item_not_let n Hnl).
    apply bridged_item; [|exact Hp | exact S1]. apply IH; [lia | exact S2 | apply (HB1 _ n Hb); left; reflexivity].
  - (* NMsgPlural *) shapes.
    apply andb_true_iff in Hp as [Hp P3]. apply andb_true_iff in Hp as [P1 P2].
    apply andb_true_iff in Hs as [S1 S2].
    change (wf KExpr n && forallb (wf KPluralCase) cases && forallb (wf KMsgItem) default = true). rewrite P1. cbn [andb].
    apply andb_true_iff. split.
    + revert P2. apply fb_lift. intros x Hx Hpx. apply bridged_pcase; [|exact Hpx].
      apply IH; [pose proof (lsz_in x cases Hx); unfold lsz in *; lia | exact (fb_in _ _ _ S1 Hx) | apply (HB1 _ x Hb); cbn [cmd_kids]; apply in_or_app; left; exact Hx].
    + revert P3. apply fb_lift. intros x Hx Hpx. apply bridged_msgitem; [|exact Hpx].
      apply IH; [pose proof (lsz_in x default Hx); unfold lsz in *; lia | exact (fb_in _ _ _ S2 Hx) | apply (HB1 _ x Hb); cbn [cmd_kids]; apply in_or_app; right; exact Hx].
  - (* NMsgPluralCase *) shapes.
    change (forallb (wf KMsgItem) body = true). revert Hp. apply fb_lift. intros x Hx Hpx. apply bridged_msgitem; [|exact Hpx].
    apply IH; [pose proof (lsz_in x body Hx); unfold lsz in *; lia | exact (fb_in _ _ _ Hs Hx) | exact (HB1 _ x Hb Hx)].
Qed.
End GBridge.

(* ------------------------------------------------------------------ *)
(* Model/Compile.v's checker: what it accepts *)

Section CK.
Variable ko : korder.
Variable lookup : bstr -> option template.
Variable params : list bstr.
Notation cn := (check_node ko lookup params).
Notation walker := (tcs -> node -> check_err + tcs).

Definition w_grows (w : walker) : Prop :=
  forall st n st', w st n = inr st' -> (length (tc_vars st) <= length (tc_vars st'))%nat.

Lemma seq_grows (w : walker) : w_grows w -> forall l st st', check_seq w st l = inr st' ->
  (length (tc_vars st) <= length (tc_vars st'))%nat.
Proof.
  intros Hw. induction l as [|x r IH]; intros st st' H; cbn [check_seq] in H; [injection H as <-; lia|].
  destruct (w st x) as [e|st1] eqn:E; [discriminate|]. pose proof (Hw _ _ _ E). pose proof (IH _ _ H). lia.
Qed.
Lemma pop_len initial st st' : (initial <= length (tc_vars st))%nat -> pop_block initial st = inr st' ->
  length (tc_vars st') = initial.
Proof.
  unfold pop_block. intros Hl H. destruct (map _ _); [|discriminate]. injection H as <-. cbn [tc_vars]. rewrite skipn_length. lia.
Qed.
Lemma block_len (w : walker) : w_grows w -> forall st n st', check_block ko w st n = inr st' ->
  length (tc_vars st') = length (tc_vars st).
Proof.
  intros Hw st n st' H. unfold check_block in H. destruct (check_seq w st (children ko n)) as [e|st1] eqn:E; [discriminate|].
  apply (pop_len _ _ _ (seq_grows w Hw _ _ _ E) H).
Qed.
Lemma mark_used_len key : forall vs vs', mark_used key vs = Some vs' -> length vs' = length vs.
Proof.
  induction vs as [|v r IH]; intros vs' H; cbn [mark_used] in H; [discriminate|].
  destruct (bstr_eqb _ _); [injection H as <-; reflexivity|].
  destruct (mark_used key r) as [r'|] eqn:E; [|discriminate]. injection H as <-. cbn [length]. rewrite (IH r' eq_refl). reflexivity.
Qed.
Lemma visit_key_len' st key st' : Compile.visit_key params st key = inr st' -> length (tc_vars st') = length (tc_vars st).
Proof.
  unfold Compile.visit_key. destruct (bstr_eqb key k_ij); [intros [= <-]; reflexivity|].
  destruct (mark_used key (tc_vars st)) as [vs|] eqn:E; [intros [= <-]; cbn; apply (mark_used_len _ _ _ E)|].
  destruct (mem_s key params); [intros [= <-]; reflexivity | discriminate].
Qed.
Lemma check_call_vars' st p name ad dat ps st' : Compile.check_call lookup params st p name ad dat ps = inr st' -> tc_vars st' = tc_vars st.
Proof.
  unfold Compile.check_call. destruct (lookup name); [|discriminate]. destruct (call_param_keys ps); [|discriminate].
  destruct (filter _ _); [|discriminate]. destruct dat; [intros [= <-]; reflexivity|].
  destruct (filter _ _); [intros [= <-]; reflexivity | discriminate].
Qed.

Lemma body_grows' (w : walker) : w_grows w -> w_grows (check_body ko lookup params w).
Proof.
  intros Hw st n st' H.
  destruct n; cbn [check_body] in H; try (rewrite (block_len w Hw _ _ _ H); lia).
  - (* NFunc *) destruct (Compile.check_loop_func _ _ _); [discriminate|]. rewrite (block_len w Hw _ _ _ H); lia.
  - (* NDataRef *) destruct (Compile.visit_key _ _ _) as [e|st1] eqn:E; [discriminate|].
    rewrite (block_len w Hw _ _ _ H), (visit_key_len' _ _ _ E). lia.
  - (* NFor *) destruct (w st n1) as [e|st1] eqn:E1; [discriminate|].
    destruct (w _ n2) as [e|st2] eqn:E2; [discriminate|].
    pose proof (Hw _ _ _ E1). pose proof (Hw _ _ _ E2) as H2. cbn [tc_vars Compile.push_var length] in H2.
    destruct ifempty as [ie|].
    + pose proof (Hw _ _ _ H) as H3. cbn [tc_vars] in H3. destruct (tc_vars st2); cbn [length tl] in *; lia.
    + injection H as <-. cbn [tc_vars]. destruct (tc_vars st2); cbn [length tl] in *; lia.
  - (* NCall *) destruct (Compile.check_call _ _ _ _ _ _ _ _) as [e|st1] eqn:E; [discriminate|].
    rewrite (block_len w Hw _ _ _ H), (check_call_vars' _ _ _ _ _ _ _ E). lia.
  - (* NLetValue *) destruct (bstr_eqb _ _); [discriminate|]. destruct (check_block _ _ _ _) as [e|st1] eqn:E; [discriminate|].
    injection H as <-. cbn [tc_vars Compile.push_var length]. rewrite (block_len w Hw _ _ _ E). lia.
  - (* NLetContent *) destruct (bstr_eqb _ _); [discriminate|]. destruct (check_block _ _ _ _) as [e|st1] eqn:E; [discriminate|].
    injection H as <-. cbn [tc_vars Compile.push_var length]. rewrite (block_len w Hw _ _ _ E). lia.
  - (* NHeaderParam *) discriminate.
Qed.

Theorem cn_grows fuel : w_grows (cn fuel).
Proof. induction fuel as [|f IH]; [intros st n st' H; discriminate | cbn [check_node]; apply body_grows'; exact IH]. Qed.

(* accepted in some state with some budget *)
Definition acc (n : node) : Prop := exists fuel st st', cn fuel st n = inr st'.

Lemma seq_acc (w : walker) : forall l st st', check_seq w st l = inr st' ->
  forall x, In x l -> exists s1 s2, w s1 x = inr s2.
Proof.
  induction l as [|y r IH]; intros st st' H x Hx; [destruct Hx|]. cbn [check_seq] in H.
  destruct (w st y) as [e|st1] eqn:E; [discriminate|]. destruct Hx as [<-|Hx]; [exists st, st1; exact E | exact (IH _ _ H x Hx)].
Qed.
Lemma block_acc (w : walker) st n st' : check_block ko w st n = inr st' ->
  forall x, In x (children ko n) -> exists s1 s2, w s1 x = inr s2.
Proof. unfold check_block. destruct (check_seq w st (children ko n)) as [e|st1] eqn:E; [discriminate|]. intros _. exact (seq_acc w _ _ _ E). Qed.

Lemma body_acc (w : walker) st n st' : check_body ko lookup params w st n = inr st' ->
  forall x, In x (children ko n) -> exists s1 s2, w s1 x = inr s2.
Proof.
  intros H. destruct n; cbn [check_body] in H; try exact (block_acc w _ _ _ H); try (intros ? Hf; destruct Hf; fail).
  - destruct (Compile.check_loop_func _ _ _); [discriminate | exact (block_acc w _ _ _ H)].
  - destruct (Compile.visit_key _ _ _); [discriminate | exact (block_acc w _ _ _ H)].
  - destruct (w st n1) as [e|st1] eqn:E1; [discriminate|]. destruct (w _ n2) as [e|st2] eqn:E2; [discriminate|].
    intros y Hy. cbn [children] in Hy. destruct Hy as [<-|[<-|Hy]]; [eexists; eexists; exact E1 | eexists; eexists; exact E2|].
    destruct ifempty as [ie|]; [|destruct Hy]. destruct Hy as [<-|[]]. eexists; eexists; exact H.
  - destruct (Compile.check_call _ _ _ _ _ _ _ _); [discriminate | exact (block_acc w _ _ _ H)].
  - destruct (bstr_eqb _ _); [discriminate|]. destruct (check_block _ _ _ _) as [e|st1] eqn:E; [discriminate|]. exact (block_acc w _ _ _ E).
  - destruct (bstr_eqb _ _); [discriminate|]. destruct (check_block _ _ _ _) as [e|st1] eqn:E; [discriminate|]. exact (block_acc w _ _ _ E).
Qed.

Lemma acc_children n x : acc n -> In x (children ko n) -> acc x.
Proof.
  intros (fuel & st & st' & H) Hx. destruct fuel as [|f]; [discriminate|]. cbn [check_node] in H.
  destruct (body_acc (cn f) _ _ _ H x Hx) as (s1 & s2 & E). exists f, s1, s2. exact E.
Qed.

Lemma acc_kids n x : acc n -> In x (cmd_kids n) -> acc x.
Proof.
  intros Ha Hx. destruct n; cbn [cmd_kids] in Hx; try (destruct Hx; fail);
    try (apply (acc_children _ x Ha); cbn [children]; first [ exact Hx | right; exact Hx | apply in_or_app; right; exact Hx | apply in_or_app; left; exact Hx ]; fail).
  - (* NSwitchCase *) apply (acc_children _ x Ha). cbn [children]. destruct Hx as [<-|[]]. left. reflexivity.
  - (* NMsgPlural *) apply in_app_or in Hx. destruct Hx as [Hx|Hx].
    + apply (acc_children _ x Ha). cbn [children]. right. apply in_or_app. left. exact Hx.
    + apply (acc_children (NList p default) x); [|exact Hx].
      apply (acc_children _ _ Ha). cbn [children]. right. apply in_or_app. right. left. reflexivity.
  - (* NMsgPluralCase *) apply (acc_children (NList p body) x); [|exact Hx].
    apply (acc_children _ _ Ha). left. reflexivity.
Qed.

(* a let as the only child of a placeholder is never used: not accepted *)
Lemma acc_placeholder p nm x : acc (NMsgPlaceholder p nm x) -> sp_is_let x = false.
Proof.
  intros (fuel & st & st' & H). destruct (sp_is_let x) eqn:El; [|reflexivity]. exfalso.
  destruct fuel as [|f]; [discriminate|]. cbn [check_node check_body] in H. unfold check_block in H. cbn [children check_seq] in H.
  destruct (cn f st x) as [e|st1] eqn:E; [discriminate|].
  assert (Hv : exists b0 vs, tc_vars st1 = b0 :: vs /\ vb_let b0 = true /\ vb_used b0 = false /\ length vs = length (tc_vars st)).
  { destruct f as [|f']; [discriminate|]. cbn [check_node] in E.
    destruct x; try discriminate; cbn [check_body] in E;
      (destruct (bstr_eqb _ _); [discriminate|]; destruct (check_block _ _ _ _) as [e|st2] eqn:E2; [discriminate|];
       injection E as <-; eexists; eexists; cbn [tc_vars Compile.push_var]; split; [reflexivity|]; split; [reflexivity|]; split; [reflexivity|];
       exact (block_len _ (cn_grows f') _ _ _ E2)). }
  destruct Hv as (b0 & vs & Ev & Hl & Hu & Hlen). unfold pop_block in H. rewrite Ev in H. cbn [length] in H. rewrite Hlen in H.
  replace (S (length (tc_vars st)) - length (tc_vars st))%nat with 1%nat in H by lia.
  cbn [firstn rev app filter map] in H. rewrite Hl, Hu in H. cbn [andb negb map] in H. discriminate.
Qed.

Theorem accepted_bridged n : no_stray n = true -> acc n -> bridged n.
Proof. intros Hs Ha. exact (gbridge acc acc_kids acc_placeholder (csz n) n (le_n _) Hs Ha). Qed.
End CK.

(* ------------------------------------------------------------------ *)
(* Bundle.Compile *)

Definition parsed_sfile (f : sfile) : Prop :=
  exists inlen lexq unq ts p p', po_result (soy_file inlen lexq unq ts) = POk (NList p (sfile_body f)) p'.
Definition sfile_grammar (f : sfile) : bool :=
  forallb (fun x => match x with NTemplate _ _ b _ _ => no_stray b | _ => true end) (sfile_body f).

Lemma span_headers_suffix nodes : exists pre, nodes = pre ++ snd (span_headers nodes).
Proof.
  induction nodes as [|x r IH]; [exists []; reflexivity|]. cbn [span_headers].
  destruct (is_header_param x); [|exists []; reflexivity]. destruct IH as [pre E].
  destruct (span_headers r) as [hs rest]. cbn [snd] in *. exists (x :: pre). cbn [app]. rewrite <- E. reflexivity.
Qed.

Lemma first_failure_none {E} (f : template -> option E) ts : first_failure f ts = None -> forall t, In t ts -> f t = None.
Proof.
  induction ts as [|t0 r IH]; intros H t Ht; [destruct Ht|]. cbn [first_failure] in H.
  destruct (f t0) eqn:E0; [discriminate|]. destruct Ht as [<-|Ht]; [exact E0 | exact (IH H t Ht)].
Qed.

(* FULL statement (false of the faithful model: ScopeParseWf / Properties/C02.v compiled_registry_wf_refuted):
     compile ns o gl srcs = COk cp, every source a result of parse.SoyFile -> wf_registry (cp_reg cp) = true.
   Proved under [sfile_grammar]. *)
Theorem compile_registry_wf node_string o gl srcs cp :
  compile node_string o gl srcs = COk cp ->
  (forall f, In (SrcOk f) srcs -> parsed_sfile f) ->
  (forall f, In (SrcOk f) srcs -> sfile_grammar f = true) ->
  wf_registry (cp_reg cp) = true.
Proof.
  intros Hc Hp Hg. unfold compile, compile_gen in Hc.
  destruct (bg_err _) as [[? ?]|]; [discriminate|].
  destruct (add_all_files empty_creg srcs) as [r|e] eqn:Hadd; [|discriminate].
  destruct (first_failure (check_template _ _) _) as [[? ?]|] eqn:Hchk; [discriminate|].
  destruct (first_failure (set_globals_template _ _) _) as [[? ?]|]; [discriminate|].
  injection Hc as <-. cbn [cp_reg].
  unfold wf_registry. apply forallb_forall. intros t Ht.
  (* the registry's templates are those the files declare *)
  destruct (registry_lookup_exact srcs r Hadd) as (fs & Hs & Hnd & Hlook).
  assert (Hin : In t (all_ts fs)).
  { pose proof Hadd as Ha. rewrite Hs in Ha. apply CompilePermProofs.add_files_ok in Ha; [|apply reg_inv_empty].
    destruct Ha as (_ & ->). exact Ht. }
  pose proof (proj2 (Hlook (t_name t) t) (conj Hin eq_refl)) as Hfind.
  destruct (found_template_declared srcs r Hadd _ _ Hfind) as (f & l1 & p & lp & nodes & ae & priv & l2 & Hf & Hb & Hn & _).
  rewrite Hn.
  (* shape of the parsed body *)
  destruct (Hp f Hf) as (inlen & lexq & unq & toks & p0 & p' & Hparse).
  pose proof (proj1 (soy_file_shape _ _ _ _ _ _ Hparse)) as Hshape. cbn [pwf] in Hshape.
  rewrite Hb in Hshape. rewrite forallb_app in Hshape. apply andb_true_iff in Hshape as [_ Hshape].
  cbn [forallb pwf] in Hshape. apply andb_true_iff in Hshape as [Hshape _].
  pose proof (Hg f Hf) as Hgr. unfold sfile_grammar in Hgr. rewrite Hb, forallb_app in Hgr.
  apply andb_true_iff in Hgr as [_ Hgr]. cbn [forallb no_stray] in Hgr. apply andb_true_iff in Hgr as [Hgr _].
  destruct (span_headers_suffix nodes) as [pre E]. rewrite E in Hshape, Hgr.
  apply forallb_suffix in Hshape. apply forallb_suffix in Hgr.
  (* accepted by the checker *)
  pose proof (first_failure_none _ _ Hchk t Ht) as Hacc. unfold check_template in Hacc.
  destruct (check_node _ _ _ _ _ (t_node t)) as [e|st'] eqn:Ecn; [discriminate|].
  rewrite Hn in Ecn.
  assert (Ha : acc (o_children (repaired_orders o)) (find_template (r_templates (cr_reg r))) (map fst (t_params t))
                   (NList lp (snd (span_headers nodes)))).
  { eapply acc_kids; [eexists; eexists; eexists; exact Ecn | left; reflexivity]. }
  change (wf KCmd (NList lp (snd (span_headers nodes))) = true).
  apply (bridged_block _ (accepted_bridged _ _ _ (NList lp (snd (span_headers nodes))) Hgr Ha)). exact Hshape.
Qed.
