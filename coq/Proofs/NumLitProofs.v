(* NumLit.parse_float (the exact path) is a special case of NumLit.parse_float_round (correct rounding):
   a decimal literal whose value is exactly a float64 of Num.mk_fl's window is rounded to itself. *)
From Soy Require Import Model.Bytes Model.Num Model.NumLit.
From Coq Require Import ZifyBool ZifyNat ZifyN Lia.
Open Scope Z_scope.

Definition podd (q : positive) : Prop := match q with xO _ => False | _ => True end.

Fixpoint pw2 (t : nat) (q : positive) : positive := match t with O => q | S t' => xO (pw2 t' q) end.

Lemma strip2_pow (q : positive) (t : nat) (e : Z) : podd q -> strip2 (pw2 t q) e = (q, e + Z.of_nat t).
Proof.
  intros Hq. revert e. induction t as [|t IH]; intros e.
  - cbn [pw2]. destruct q; cbn [strip2]; try contradiction; f_equal; lia.
  - cbn [pw2 strip2]. rewrite IH. f_equal. lia.
Qed.

Lemma iter_xO_val (q : positive) (t : nat) : Zpos (pw2 t q) = Zpos q * 2 ^ Z.of_nat t.
Proof.
  induction t as [|t IH]; [cbn; lia|]. cbn [pw2]. rewrite Pos2Z.inj_xO, IH.
  replace (Z.of_nat (S t)) with (Z.of_nat t + 1) by lia. rewrite Z.pow_add_r by lia. lia.
Qed.

Lemma strip2_spec (p : positive) : forall e, exists q t, strip2 p e = (q, e + Z.of_nat t) /\ podd q /\ p = pw2 t q.
Proof.
  induction p as [p IH|p IH|]; intros e.
  - exists (xI p), 0%nat. cbn. repeat split. f_equal. lia.
  - destruct (IH (e + 1)) as (q & t & H1 & H2 & H3). exists q, (S t). cbn [strip2 pw2]. rewrite H1. repeat split; auto.
    + f_equal. lia.
    + rewrite <- H3. reflexivity.
  - exists xH, 0%nat. cbn. repeat split. f_equal. lia.
Qed.

Lemma pow2_pos e : 0 < 2 ^ e \/ e < 0.
Proof. destruct (Z.ltb_spec e 0); [right; lia|left; apply Z.pow_pos_nonneg; lia]. Qed.

Lemma pow2_lt_inv a c : 0 <= c -> 2 ^ a < 2 ^ c -> a < c.
Proof. intros Hc H. destruct (Z.ltb_spec a c); [assumption|]. exfalso. assert (2 ^ c <= 2 ^ a) by (apply Z.pow_le_mono_r; lia). lia. Qed.

Lemma scale_den_pos d ef : 0 < d -> 0 < scale_den d ef.
Proof. intros Hd. unfold scale_den. destruct (Z.leb_spec 0 ef); [|exact Hd]. apply Z.mul_pos_pos; [exact Hd|apply Z.pow_pos_nonneg; lia]. Qed.

Section Exact.
Variable q : positive.
Variables e n d : Z.
Hypothesis Hodd : podd q.
Hypothesis Hn : 0 < n.
Hypothesis Hd : 0 < d.
Hypothesis Hrel : n * 2 ^ (Z.max 0 (- e)) = Zpos q * 2 ^ (Z.max 0 e) * d.

Lemma scale_exact ef : ef <= e -> scale_num n ef = Zpos q * 2 ^ (e - ef) * scale_den d ef.
Proof.
  intros Hle. unfold scale_num, scale_den. destruct (Z.leb_spec 0 ef) as [H0|H0].
  - replace (Z.max 0 (- e)) with 0 in Hrel by lia. replace (Z.max 0 e) with e in Hrel by lia.
    rewrite Z.pow_0_r, Z.mul_1_r in Hrel. rewrite Hrel.
    replace e with ((e - ef) + ef) at 1 by lia. rewrite Z.pow_add_r by lia. ring.
  - destruct (Z.leb_spec 0 e) as [He|He].
    + replace (Z.max 0 (- e)) with 0 in Hrel by lia. replace (Z.max 0 e) with e in Hrel by lia.
      rewrite Z.pow_0_r, Z.mul_1_r in Hrel. rewrite Hrel.
      replace (e - ef) with (e + - ef) by lia. rewrite Z.pow_add_r by lia. ring.
    + replace (Z.max 0 (- e)) with (- e) in Hrel by lia. replace (Z.max 0 e) with 0 in Hrel by lia.
      rewrite Z.pow_0_r, Z.mul_1_r in Hrel.
      replace (- ef) with (- e + (e - ef)) by lia. rewrite Z.pow_add_r by lia.
      rewrite Z.mul_assoc, Hrel. ring.
Qed.

Lemma floor_exact ef : ef <= e -> floor_div_pow2 n d ef = Zpos q * 2 ^ (e - ef).
Proof.
  intros Hle. unfold floor_div_pow2. rewrite (scale_exact ef Hle). apply Z.div_mul.
  pose proof (scale_den_pos d ef Hd). lia.
Qed.

Lemma round_div_exact ef : ef <= e -> round_div_pow2 n d ef = Zpos q * 2 ^ (e - ef).
Proof.
  intros Hle. unfold round_div_pow2. cbv zeta. rewrite (scale_exact ef Hle).
  pose proof (scale_den_pos d ef Hd) as Hp.
  rewrite Z.mod_mul by lia. rewrite Z.div_mul by lia.
  replace (2 * 0 <? scale_den d ef) with true by lia. reflexivity.
Qed.

Lemma log_window : Z.log2 (Zpos q) + e <= Z.log2 n - Z.log2 d <= Z.log2 (Zpos q) + e + 1.
Proof.
  set (A := Z.max 0 (- e)) in *. set (B := Z.max 0 e) in *.
  assert (HA : 0 <= A) by (unfold A; lia). assert (HB : 0 <= B) by (unfold B; lia). assert (HBA : B - A = e) by (unfold A, B; lia).
  assert (E1 : Z.log2 (n * 2 ^ A) = A + Z.log2 n) by (apply Z.log2_mul_pow2; lia).
  assert (E2 : Z.log2 (Zpos q * 2 ^ B * d) = B + Z.log2 (Zpos q * d)).
  { replace (Zpos q * 2 ^ B * d) with (Zpos q * d * 2 ^ B) by ring. apply Z.log2_mul_pow2; [|lia]. apply Z.mul_pos_pos; lia. }
  pose proof (Z.log2_mul_below (Zpos q) d ltac:(lia) Hd) as L1.
  pose proof (Z.log2_mul_above (Zpos q) d ltac:(lia) ltac:(lia)) as L2.
  rewrite Hrel in E1. lia.
Qed.

Theorem round_exact neg :
  Zpos q < two53 -> -1074 <= e -> Z.log2 (Zpos q) + e < 1024 ->
  round_ratio neg n d = FRVal (FFin (if neg then Zneg q else Zpos q) e).
Proof.
  intros Hq He Hr. pose proof log_window as Hw.
  assert (HL : Z.log2 (Zpos q) < 53) by (apply Z.log2_lt_pow2; [lia|exact Hq]).
  assert (HL0 : 0 <= Z.log2 (Zpos q)) by apply Z.log2_nonneg.
  unfold round_ratio. cbv zeta.
  set (e2 := Z.max (Z.log2 n - Z.log2 d - 53) (-1074)).
  assert (He2 : e2 <= e) by (unfold e2; lia).
  rewrite (floor_exact e2 He2).
  set (ef := if two53 <=? Zpos q * 2 ^ (e - e2) then e2 + 1 else e2).
  assert (Hef : ef <= e).
  { unfold ef. destruct (Z.leb_spec two53 (Zpos q * 2 ^ (e - e2))) as [H|H]; [|exact He2].
    destruct (Z.eq_dec e e2) as [E|E]; [|lia]. rewrite E, Z.sub_diag, Z.pow_0_r in H. lia. }
  rewrite (round_div_exact ef Hef).
  set (t := Z.to_nat (e - ef)).
  assert (Ev : Zpos q * 2 ^ (e - ef) = Zpos (pw2 t q)).
  { rewrite iter_xO_val. unfold t. rewrite Z2Nat.id by lia. reflexivity. }
  rewrite Ev.
  assert (Elog : Z.log2 (Zpos (pw2 t q)) = Z.of_nat t + Z.log2 (Zpos q)).
  { rewrite iter_xO_val. apply Z.log2_mul_pow2; lia. }
  rewrite Elog. replace (1024 <=? Z.of_nat t + Z.log2 (Zpos q) + ef) with false by (unfold t; lia).
  rewrite (strip2_pow q t ef Hodd). replace (ef + Z.of_nat t) with e by (unfold t; lia). reflexivity.
Qed.
End Exact.

Lemma mk_fl_round (s : bool) (p : positive) (e0 n d : Z) f :
  mk_fl (if s then Zneg p else Zpos p) e0 = Some f -> 0 < n -> 0 < d ->
  n * 2 ^ (Z.max 0 (- e0)) = Zpos p * 2 ^ (Z.max 0 e0) * d ->
  round_ratio s n d = FRVal f.
Proof.
  intros Hm Hn Hd Hrel.
  destruct (strip2_spec p e0) as (q & t & Hs & Hq & Hp).
  assert (Hv : Zpos p = Zpos q * 2 ^ Z.of_nat t) by (rewrite Hp; apply iter_xO_val).
  assert (Hf : Zpos q < two53 /\ -1000 < e0 + Z.of_nat t < 900 /\ f = FFin (if s then Zneg q else Zpos q) (e0 + Z.of_nat t)).
  { destruct s; cbn [mk_fl] in Hm; rewrite Hs in Hm;
    destruct ((Zpos q <? two53) && (-1000 <? e0 + Z.of_nat t) && (e0 + Z.of_nat t <? 900)) eqn:C; try discriminate;
    injection Hm as <-; repeat split; lia. }
  destruct Hf as (Hq53 & He & ->).
  set (e' := e0 + Z.of_nat t) in *.
  assert (P2 : 0 < 2 ^ Z.of_nat t) by (apply Z.pow_pos_nonneg; lia).
  apply round_exact; auto; try lia.
  - rewrite Hv in Hrel. destruct (Z.leb_spec 0 e0) as [H0|H0].
    + replace (Z.max 0 (- e0)) with 0 in Hrel by lia. replace (Z.max 0 e0) with e0 in Hrel by lia.
      replace (Z.max 0 (- e')) with 0 by lia. replace (Z.max 0 e') with e' by lia.
      rewrite Hrel. unfold e'. rewrite (Z.add_comm e0), Z.pow_add_r by lia. ring.
    + replace (Z.max 0 (- e0)) with (- e0) in Hrel by lia. replace (Z.max 0 e0) with 0 in Hrel by lia.
      rewrite Z.pow_0_r, Z.mul_1_r in Hrel.
      destruct (Z.leb_spec 0 e') as [H1|H1].
      * replace (Z.max 0 (- e')) with 0 by lia. replace (Z.max 0 e') with e' by lia. rewrite Z.pow_0_r, Z.mul_1_r.
        assert (P3 : 0 < 2 ^ (- e0)) by (apply Z.pow_pos_nonneg; lia).
        apply (Z.mul_reg_r _ _ (2 ^ (- e0))); [lia|]. rewrite Hrel.
        replace (Z.of_nat t) with (e' + - e0) by (unfold e'; lia). rewrite Z.pow_add_r by lia. ring.
      * replace (Z.max 0 (- e')) with (- e') by lia. replace (Z.max 0 e') with 0 by lia. rewrite Z.pow_0_r, Z.mul_1_r.
        apply (Z.mul_reg_r _ _ (2 ^ Z.of_nat t)); [lia|].
        replace (n * 2 ^ (- e') * 2 ^ Z.of_nat t) with (n * 2 ^ (- e0)).
        { rewrite Hrel. ring. }
        replace (- e0) with (- e' + Z.of_nat t) by (unfold e'; lia). rewrite Z.pow_add_r by lia. ring.
  - pose proof (Z.log2_lt_pow2 (Zpos q) 53 ltac:(lia)) as HL. unfold two53 in Hq53.
    assert (Z.log2 (Zpos q) < 53) by (apply HL; exact Hq53). lia.
Qed.

(* the exact path of NumLit.parse_float is a special case of the correctly rounded conversion *)
Theorem parse_float_exact_is_rounded s f : parse_float s = Some f -> parse_float_round s = FRVal f.
Proof.
  unfold parse_float, parse_float_round, float_of_lit. destruct (split_float s) as [l|]; [|discriminate]. cbv zeta.
  set (ds := lit_int l ++ lit_frac l). set (dv := dec_val ds 0).
  destruct (N.eqb_spec dv 0) as [E0|E0]; [intros H; injection H as <-; reflexivity|].
  destruct (4 <? N.of_nat (length (lit_exp l)))%N; [discriminate|].
  set (ex := Z.of_N (dec_val (lit_exp l) 0)).
  set (k := (if lit_eneg l then - ex else ex) - Z.of_nat (length (lit_frac l))).
  destruct (Z.ltb_spec 400 (Z.abs k)) as [Hk|Hk]; [discriminate|].
  replace (400 <? k) with false by lia.
  replace (k + Z.of_nat (length ds) <? -400) with false by lia.
  assert (Hd : 0 < Z.of_N dv) by lia.
  destruct (Z.leb_spec 0 k) as [Hk0|Hk0].
  - (* integer value *)
    assert (P10 : 0 < 10 ^ k) by (apply Z.pow_pos_nonneg; lia).
    assert (Hpos : 0 < Z.of_N dv * 10 ^ k) by (apply Z.mul_pos_pos; lia).
    destruct (Z.of_N dv * 10 ^ k) as [|p|p] eqn:Ep; try lia.
    intros H. apply (mk_fl_round (lit_neg l) p 0); [ | lia | lia | cbn; lia].
    destruct (lit_neg l); [|rewrite Ep in H; exact H].
    replace (- Z.of_N dv * 10 ^ k) with (Zneg p) in H by (rewrite Z.mul_opp_l, Ep; reflexivity). exact H.
  - (* a fraction with a power of five dividing the digits *)
    set (j := - k) in *. assert (Hj : 0 < j) by (unfold j; lia).
    assert (P5 : 0 < 5 ^ j) by (apply Z.pow_pos_nonneg; lia).
    assert (P2 : 0 < 2 ^ j) by (apply Z.pow_pos_nonneg; lia).
    assert (P10 : 10 ^ j = 5 ^ j * 2 ^ j) by (rewrite <- Z.pow_mul_l; reflexivity).
    set (m := if lit_neg l then - Z.of_N dv else Z.of_N dv).
    destruct (Z.eqb_spec (m mod 5 ^ j) 0) as [Hm|Hm]; [|discriminate].
    assert (Hdm : Z.of_N dv mod 5 ^ j = 0).
    { unfold m in Hm. destruct (lit_neg l); [|exact Hm]. apply Z.mod_opp_l_z in Hm; [|lia]. rewrite Z.opp_involutive in Hm. exact Hm. }
    assert (Hdiv : Z.of_N dv = 5 ^ j * (Z.of_N dv / 5 ^ j)) by (apply Z.div_exact; lia).
    assert (Hqpos : 0 < Z.of_N dv / 5 ^ j) by nia.
    assert (Em : m / 5 ^ j = if lit_neg l then - (Z.of_N dv / 5 ^ j) else Z.of_N dv / 5 ^ j).
    { unfold m. destruct (lit_neg l); [|reflexivity]. apply Z.div_opp_l_z; lia. }
    rewrite Em. destruct (Z.of_N dv / 5 ^ j) as [|p|p] eqn:Ep; try lia.
    intros H. assert (Hdd : 0 < 10 ^ (- k)) by (apply Z.pow_pos_nonneg; lia).
    apply (mk_fl_round (lit_neg l) p k); [destruct (lit_neg l); exact H | lia | exact Hdd | ].
    replace (Z.max 0 (- k)) with j by (unfold j; lia). replace (Z.max 0 k) with 0 by lia. rewrite Z.pow_0_r, Z.mul_1_r.
    fold j. rewrite P10. rewrite Hdiv at 1. ring.
Qed.

(* so newValueNode's float case is the correctly rounded conversion and nothing else: the exact path that
   Model/ExprParser.v tries first (kept because C17's round-trip proofs compute with it) never disagrees *)
From Soy Require Import Model.Ast Model.Token Model.ExprParser Generated.Tables.
Lemma float_value_node (w : N -> pst -> presult node) (lf : nat) (t : tok) (st : pst) :
  t_typ t = pk_itemFloat ->
  new_value_node w lf t st =
  match parse_float_round (t_val t) with
  | FRVal f => POk (NFloat (t_pos t) f) st
  | FRRange | FRSyntax => p_errorf c_number st
  end.
Proof.
  intros Ht. unfold new_value_node. rewrite Ht.
  change (pk_itemFloat =? pk_itemNull)%N with false. change (pk_itemFloat =? pk_itemBool)%N with false.
  change (pk_itemFloat =? pk_itemInteger)%N with false. change (pk_itemFloat =? pk_itemFloat)%N with true. cbv iota.
  destruct (parse_float (t_val t)) as [f|] eqn:E; [|destruct (parse_float_round (t_val t)); reflexivity].
  rewrite (parse_float_exact_is_rounded _ _ E). reflexivity.
Qed.
