(* C15, scanner half for a minimal file: "{template .name}" body "{/template}" where the body is
   T0 {c1} T1 ... {cn} Tn with comments in the stretches (Spec/TextMix.v).  The template tag, the closing
   tag, and the body run of Proofs/LexBodyMixMain.v restated for a body that is followed by a tag. *)
From Soy Require Import Model.Bytes Model.Utf8 Model.Outcome Model.Token Generated.Tables Model.Lexer Spec.Text Spec.TextBody Spec.TextMix
  Proofs.LexerPrim Proofs.LexerStates Proofs.LexerProofs Proofs.LexTokens Proofs.LexPrintTop
  Proofs.LexBodyText Proofs.LexBodyTop Proofs.LexBodySeg Proofs.LexBodyCmd Proofs.LexBodyLit Proofs.LexBodyMain Proofs.LexBodyMix Proofs.LexBodyMixMain.
From Coq Require Import ZifyBool ZifyNat ZifyN Lia.
Open Scope Z_scope.

Definition w_template : bstr := Eval vm_compute in b "template".
Definition w_end_template : bstr := Eval vm_compute in b "/template".
(* the source of the two tags; [name] is the template's name without its dot *)
Definition tpl_open (name : bstr) : bstr := [123%N] ++ w_template ++ [32%N; 46%N] ++ name ++ [125%N].
Definition tpl_close : bstr := [123%N] ++ w_end_template ++ [125%N].
Definition tpl_name_ok (name : bstr) : Prop :=
  forallb (fun c => (c <? 128)%N && alnum_b c) name = true /\ head_digit name = false.

(* a body whose items end with the items [term] of what follows it *)
Inductive mshapeT (term : list tok) : list bstr -> list (bstr * list bstr) -> list tok -> Prop :=
| mt_end pcs its : pshape pcs its -> mshapeT term pcs [] (its ++ term)
| mt_tag pcs its o tg pcs' rest items :
    pshape pcs its -> tagitems o tg -> mshapeT term pcs' rest items -> mshapeT term pcs ((o, pcs') :: rest) (its ++ tg ++ items).

Section Tpl.
Variable uni_letter uni_digit : Z -> bool.
Hypothesis letter_ascii : forall c, (c < 128)%N -> uni_letter (Z.of_N c) = ((65 <=? c) && (c <=? 90) || (97 <=? c) && (c <=? 122))%N.
Hypothesis digit_ascii : forall c, (c < 128)%N -> uni_digit (Z.of_N c) = digit_b c.
Hypothesis letter_eof : uni_letter (-1) = false.
Hypothesis digit_eof : uni_digit (-1) = false.
Variable inp : bstr.
Notation steps := (steps uni_letter uni_digit inp 0).
Notation span := (span inp).
Notation ilen := (Z.of_nat (length inp)).

(* lexLeftDelim and lexBeginTag on "{/" *)
Lemma delim_begin_slash l s : span l [] (123%N :: 47%N :: s) ->
  exists l' p, steps 2 LLeftDelim l = Ok (LIdent, l') /\ span l' [] (47%N :: s) /\
    l_out l' = {| t_typ := itemLeftDelim; t_pos := p; t_val := [123%N] |} :: l_out l /\
    l_last l' = {| t_typ := itemLeftDelim; t_pos := p; t_val := [123%N] |} /\ l_dd l' = false.
Proof.
  intros Hs. set (c := 47%N) in *.
  destruct (next_ascii inp l [] 123%N (c :: s) Hs ltac:(lia)) as (Hn1 & Hs2).
  destruct (next_ascii inp (adv l) ([] ++ [123%N]) c s Hs2 ltac:(unfold c; lia)) as (Hn2 & Hs3).
  pose proof (span_backup inp (adv l) ([] ++ [123%N]) c s Hs2) as Hsb2.
  set (l3 := set_dd (backup (adv (adv l))) false).
  assert (Hs3' : span l3 [123%N] (c :: s)).
  { destruct Hsb2 as (A & B & C). unfold l3, LexTokens.span, set_dd. cbn [l_start l_pos]. auto. }
  destruct (emit_span inp 0 itemLeftDelim l3 [123%N] (c :: s) Hs3') as (He & Hs4).
  assert (Hst2 : step uni_letter uni_digit inp ilen 0 LLeftDelim l = Ok (LBeginTag, emitted 0 itemLeftDelim l3 [123%N])).
  { cbn [step]. unfold lex_left_delim. rewrite Hn1. cbn [bind]. rewrite Hn2. cbn [bind].
    change (Z.of_N c =? 123) with false. cbv iota. fold l3. rewrite He. reflexivity. }
  set (l4 := emitted 0 itemLeftDelim l3 [123%N]) in *.
  destruct (next_ascii inp l4 [] c s Hs4 ltac:(unfold c; lia)) as (Hn4 & Hs5).
  pose proof (span_backup inp l4 [] c s Hs4) as Hsb4.
  assert (Hst3 : step uni_letter uni_digit inp ilen 0 LBeginTag l4 = Ok (LIdent, backup (adv l4))).
  { cbn [step]. unfold lex_begin_tag, peek. rewrite Hn4. cbn [bind]. reflexivity. }
  exists (backup (adv l4)), (Z.to_N (0 + l_pos l3)). split; [|split; [exact Hsb4|]].
  - change 2%nat with (1 + 1)%nat. rewrite (steps_app _ _ _ _ 1 1 _ _ _ _ (steps_one _ _ _ _ _ _ _ _ Hst2)). apply steps_one. exact Hst3.
  - unfold backup, adv, set_pos, l4, emitted, mktok, l3, set_dd. cbn [l_out l_last l_dd]. auto.
Qed.

(* the name of a closing tag, in state lexIdent *)
Lemma ident_slash l cs s t : span l [] (47%N :: cs ++ s) -> forallb (fun c => (c <? 128)%N && alnum_b c) cs = true -> stops s ->
  assoc_s (47%N :: cs) builtin_idents = Some t -> t <> itemLiteral -> t <> itemCss ->
  exists l', steps 1 LIdent l = Ok (LInsideTag, l') /\ span l' [] s /\ sent t (47%N :: cs) l l'.
Proof.
  intros Hs Hcs Hst Ht Hnl Hnc.
  destruct (next_ascii inp l [] 47%N (cs ++ s) Hs ltac:(lia)) as (Hn & Hs1).
  destruct (alnum_loop_run uni_letter uni_digit letter_ascii digit_ascii letter_eof digit_eof inp cs (adv l) ([] ++ [47%N]) s
              (loop_fuel ilen (adv l)) Hs1 Hcs Hst) as (l3 & Hloop & Hs3 & Ho3 & Hla3 & Hd3).
  { pose proof (span_bounds inp _ _ _ Hs1) as (Hb0 & Hl0). rewrite app_length in Hl0. unfold loop_fuel. lia. }
  cbn [app] in Hs3.
  destruct (emit_span inp 0 t (backup l3) (47%N :: cs) s Hs3) as (He & Hs4).
  exists (emitted 0 t (backup l3) (47%N :: cs)). split; [|split; [exact Hs4|]].
  - apply steps_one. cbn [step]. unfold lex_ident. rewrite Hn. cbn [bind].
    change (Z.of_N 47 =? 46) with false. change (Z.of_N 47 =? 36) with false. change (Z.of_N 47 =? 47) with true.
    cbv iota. cbn [bind]. rewrite Hloop. cbn [bind].
    rewrite (slice_span inp (backup l3) (47%N :: cs) s Hs3). cbn [bind]. rewrite Ht, He. cbn [bind].
    destruct (N.eqb_spec t itemLiteral); [congruence|]. destruct (N.eqb_spec t itemCss); [congruence|]. reflexivity.
  - apply sent_emitted; unfold backup, set_pos; cbn [l_out l_last l_dd]; [rewrite Ho3|rewrite Hla3|rewrite Hd3]; reflexivity.
Qed.

(* "{template .name}" *)
Lemma lex_tpl_open l name s : tpl_name_ok name -> span l [] (tpl_open name ++ s) ->
  exists k l' ld kw di rd, steps k LLeftDelim l = Ok (LText, l') /\ span l' [] s /\ l_out l' = rd :: di :: kw :: ld :: l_out l /\
    t_typ ld = itemLeftDelim /\ t_typ kw = itemTemplate /\ t_typ di = itemDotIdent /\ t_val di = 46%N :: name /\ t_typ rd = itemRightDelim /\
    l_last l' = rd /\ t_val rd = [125%N] /\ l_dd l' = false.
Proof.
  intros [Hname Hhd] Hs. unfold tpl_open, w_template in Hs.
  set (c0 := 116%N) in *. set (cs := [101; 109; 112; 108; 97; 116; 101]%N) in *.
  assert (Hs' : span l [] (123%N :: c0 :: cs ++ 32%N :: 46%N :: name ++ 125%N :: s)).
  { cbn [app] in Hs. rewrite <- app_assoc in Hs. exact Hs. }
  destruct (delim_begin uni_letter uni_digit letter_ascii digit_ascii letter_eof digit_eof inp l c0 _ Hs' ltac:(unfold c0; lia) ltac:(unfold c0; lia) ltac:(unfold c0; lia))
    as (l1 & p1 & Hst1 & Hs1 & Ho1 & Hla1 & Hdd1).
  change (c0 =? 92)%N with false in Hst1. cbv iota in Hst1.
  destruct (lex_word uni_letter uni_digit letter_ascii digit_ascii letter_eof digit_eof inp 0 l1 c0 cs (32%N :: 46%N :: name ++ 125%N :: s) Hs1
              ltac:(unfold c0; lia) eq_refl eq_refl ltac:(cbn; split; [lia|reflexivity]) ltac:(vm_compute; discriminate) ltac:(vm_compute; discriminate))
    as (l2 & Hst2 & Hs2 & (p2 & Ho2 & Hla2 & Hdd2)).
  change (word_type (c0 :: cs)) with itemTemplate in Ho2, Hla2.
  destruct (lex_space uni_letter uni_digit inp 0 l2 32%N _ Hs2 eq_refl) as (l3 & Hst3 & Hs3 & (Ho3 & Hla3 & Hdd3)).
  assert (Hstop : stops (125%N :: s)) by (cbn; split; [lia|reflexivity]).
  destruct (lex_dot uni_letter uni_digit letter_ascii digit_ascii letter_eof digit_eof inp 0 l3 name (125%N :: s) Hs3 Hname Hstop)
    as (l4 & Hst4 & Hs4 & (p4 & Ho4 & Hla4 & Hdd4)).
  assert (Hhd' : head_digit (name ++ 125%N :: s) = false).
  { destruct name as [|a name']; [reflexivity|exact Hhd]. }
  rewrite Hhd' in Ho4, Hla4.
  destruct (close_brace uni_letter uni_digit letter_eof digit_eof inp l4 s Hs4 ltac:(congruence)) as (l5 & p5 & Hst5 & Hs5 & Ho5 & Hla5 & Hdd5).
  exists (2 + (2 + (1 + (2 + 2))))%nat, l5. do 4 eexists. split.
  { rewrite (steps_app _ _ _ _ 2 _ _ _ _ _ Hst1), (steps_app _ _ _ _ 2 _ _ _ _ _ Hst2), (steps_app _ _ _ _ 1 _ _ _ _ _ Hst3),
      (steps_app _ _ _ _ 2 _ _ _ _ _ Hst4). exact Hst5. }
  split; [exact Hs5|]. split; [rewrite Ho5, Ho4, Ho3, Ho2, Ho1; reflexivity|]. cbn [t_typ t_val]. repeat split; assumption.
Qed.

(* "{/template}" *)
Lemma lex_tpl_close l s : span l [] (tpl_close ++ s) ->
  exists k l' ld te rd, steps k LLeftDelim l = Ok (LText, l') /\ span l' [] s /\ l_out l' = rd :: te :: ld :: l_out l /\
    t_typ ld = itemLeftDelim /\ t_typ te = itemTemplateEnd /\ t_typ rd = itemRightDelim /\ l_dd l' = false.
Proof.
  intros Hs. unfold tpl_close, w_end_template in Hs.
  set (cs := [116; 101; 109; 112; 108; 97; 116; 101]%N) in *.
  assert (Hs' : span l [] (123%N :: 47%N :: cs ++ 125%N :: s)) by exact Hs.
  destruct (delim_begin_slash l _ Hs') as (l1 & p1 & Hst1 & Hs1 & Ho1 & Hla1 & Hdd1).
  destruct (ident_slash l1 cs (125%N :: s) itemTemplateEnd Hs1 eq_refl ltac:(cbn; split; [lia|reflexivity]) eq_refl
              ltac:(vm_compute; discriminate) ltac:(vm_compute; discriminate)) as (l2 & Hst2 & Hs2 & (p2 & Ho2 & Hla2 & Hdd2)).
  destruct (close_brace uni_letter uni_digit letter_eof digit_eof inp l2 s Hs2 ltac:(congruence)) as (l3 & p3 & Hst3 & Hs3 & Ho3 & Hla3 & Hdd3).
  exists (2 + (1 + 2))%nat, l3. do 3 eexists. split.
  { rewrite (steps_app _ _ _ _ 2 _ _ _ _ _ Hst1), (steps_app _ _ _ _ 1 _ _ _ _ _ Hst2). exact Hst3. }
  split; [exact Hs3|]. split; [rewrite Ho3, Ho2, Ho1; reflexivity|]. cbn [t_typ]. repeat split; assumption.
Qed.

Lemma rest_src_tl_tag r tl : tl <> [] -> tag_or_end tl -> tag_or_end (rest_src r ++ tl) /\ rest_src r ++ tl <> [].
Proof.
  intros Hne Htl. destruct r as [|[[n o] T] r'].
  - cbn [rest_src app]. auto.
  - split; [right; eexists; reflexivity|discriminate].
Qed.

(* the body, followed by a tag: the scanner stops in front of it *)
Lemma lex_mix_run_tl : forall rest rp T pcs l tl, tl <> [] -> tag_or_end tl ->
  span l [] (T ++ rest_src rest ++ tl) -> l_dd l = false ->
  mix_stretch_ok (pwof 0 l) false T -> pieces MText (pwof 0 l) [] T = Some pcs ->
  (forall sg, In sg rest -> cmd_ok (fst sg) /\ mix_stretch_ok false false (snd sg)) -> rest_pieces rest rp ->
  exists k l' items, steps k LText l = Ok (LLeftDelim, l') /\ span l' [] tl /\ l_out l' = rev items ++ l_out l /\
    forall term, mshapeT term pcs rp (items ++ term).
Proof.
  induction rest as [|[[n o] T'] r IH]; intros rp T pcs l tl Hne Htl Hs Hdd [Hpl Hop] Hpc Hrest Hrp.
  - destruct rp; [|contradiction]. cbn [rest_src app] in Hs.
    destruct (lex_stretch uni_letter uni_digit letter_ascii digit_ascii letter_eof digit_eof inp (length T) T (le_n _) l pcs tl Hs Hpl Htl Hpc ltac:(intros _; apply Hop; reflexivity))
      as (k & l' & its & st' & Hst & Hsh & _ & Hend).
    destruct Hend as [(A & _)|(_ & -> & Ho & Hs')]; [congruence|].
    exists k, l', its. split; [exact Hst|]. split; [exact Hs'|]. split; [exact Ho|]. intros term. apply mt_end. exact Hsh.
  - destruct rp as [|[o' pcs'] rp']; [contradiction|]. cbn [rest_pieces] in Hrp. destruct Hrp as (-> & Hpc' & Hrp').
    destruct (Hrest _ (or_introl eq_refl)) as (Hcmd & Hok'). cbn [fst snd] in Hcmd, Hok'.
    assert (Hrest' : forall sg, In sg r -> cmd_ok (fst sg) /\ mix_stretch_ok false false (snd sg)) by (intros sg Hin; apply Hrest; right; exact Hin).
    assert (Hs0 : span l [] (T ++ rest_src (((n, o), T') :: r) ++ tl)) by exact Hs.
    destruct (rest_src_tl_tag (((n, o), T') :: r) tl Hne Htl) as [Htl1 Hne1].
    destruct (lex_stretch uni_letter uni_digit letter_ascii digit_ascii letter_eof digit_eof inp (length T) T (le_n _) l pcs _ Hs0 Hpl Htl1 Hpc ltac:(intros _; apply Hop; reflexivity))
      as (k1 & l1 & its & st' & Hst1 & Hsh1 & Hdd1 & Hend).
    destruct Hend as [(A & _)|(_ & -> & Ho1 & Hs1)]; [congruence|].
    cbn [rest_src] in Hs1. rewrite <- !app_assoc in Hs1. cbn [app] in Hs1. rewrite <- ?app_assoc in Hs1.
    destruct Hcmd as [Hcmd|(sp & Hsp & Hname & Hcl)].
    + assert (Hs1' : span l1 [] ([123%N] ++ n ++ [125%N] ++ T' ++ rest_src r ++ tl)) by exact Hs1.
      destruct (lex_special_cmd uni_letter uni_digit letter_ascii digit_ascii letter_eof digit_eof inp l1 n o _ Hcmd Hs1')
        as (k2 & l2 & ld & c & rd & Hst2 & Hs2 & Ho2 & Hld & Hrd & Hc & Hla2 & Hv2 & Hdd2).
      assert (Hpw : pwof 0 l2 = false) by (unfold pwof; rewrite Hla2, Hv2; reflexivity).
      destruct (IH rp' T' pcs' l2 tl Hne Htl Hs2 Hdd2 ltac:(rewrite Hpw; exact Hok') ltac:(rewrite Hpw; exact Hpc') Hrest' Hrp')
        as (k3 & l3 & items & Hst3 & Hs3 & Ho3 & Hsh).
      exists (k1 + (k2 + k3))%nat, l3, (its ++ [ld; c; rd] ++ items). split.
      { rewrite (steps_app _ _ _ _ k1 _ _ _ _ _ Hst1), (steps_app _ _ _ _ k2 _ _ _ _ _ Hst2). exact Hst3. }
      split; [exact Hs3|]. split.
      { rewrite Ho3, Ho2, Ho1, !rev_app_distr. cbn [rev app]. rewrite <- !app_assoc. reflexivity. }
      intros term. rewrite <- !app_assoc. eapply mt_tag; [exact Hsh1|apply ti_cmd; assumption|apply Hsh].
    + cbn [fst snd] in Hname, Hcl. subst n.
      assert (Hs1' : span l1 [] ([123%N] ++ lit_name_sp sp o ++ [125%N] ++ T' ++ rest_src r ++ tl)) by exact Hs1.
      destruct (lex_literal_cmd uni_letter uni_digit letter_ascii digit_ascii letter_eof digit_eof inp l1 sp o _ Hsp Hs1' Hcl)
        as (k2 & l2 & ld & kw & rd & tx & ld2 & ke & rd2 & Hst2 & Hs2 & Ho2 & A1 & A2 & A3 & A4 & A5 & A6 & A7 & A8 & Hla2 & Hv2 & Hdd2).
      assert (Hpw : pwof 0 l2 = false) by (unfold pwof; rewrite Hla2, Hv2; reflexivity).
      destruct (IH rp' T' pcs' l2 tl Hne Htl Hs2 Hdd2 ltac:(rewrite Hpw; exact Hok') ltac:(rewrite Hpw; exact Hpc') Hrest' Hrp')
        as (k3 & l3 & items & Hst3 & Hs3 & Ho3 & Hsh).
      exists (k1 + (k2 + k3))%nat, l3, (its ++ [ld; kw; rd; tx; ld2; ke; rd2] ++ items). split.
      { rewrite (steps_app _ _ _ _ k1 _ _ _ _ _ Hst1), (steps_app _ _ _ _ k2 _ _ _ _ _ Hst2). exact Hst3. }
      split; [exact Hs3|]. split.
      { rewrite Ho3, Ho2, Ho1, !rev_app_distr. cbn [rev app]. rewrite <- !app_assoc. reflexivity. }
      intros term. rewrite <- !app_assoc. eapply mt_tag; [exact Hsh1|apply ti_lit; assumption|apply Hsh].
Qed.

End Tpl.
