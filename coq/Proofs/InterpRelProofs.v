(* A relational reading of Model/Interp.v, used by C11 (rendering with a
   catalogue against rendering without one).

   Two machine states are equivalent when they differ only in how the output
   written so far is cut into Write calls (top-level writer and capture
   buffers) and in the error-position register [cur]; both writers are
   fault-free.  [x ⊑ y] on results: x ran out of the model's fuel, or x and y
   have the same outcome and equivalent states.  [mrel m1 m2]: equivalent start
   states give ⊑-related results.  The main lemma is parametricity of one
   unfolding of the walker: if the recursive calls are related on the nodes of a
   tree, so is [walk_body] on the tree.  [okm] is a predicate on the {msg} nodes
   of the tree (C11: "the catalogue entry of this message is the identity"). *)
From Soy Require Import Model.Bytes Model.Outcome Model.Num Model.Values Model.Ast Model.Escape
  Model.Directives Model.Print Model.Interp Generated.Tables.
Open Scope N_scope.

Definition chunks (l : list bstr) : bstr := concat_b (rev l).

Definition st_equiv (s1 s2 : mstate) : Prop :=
  ctx s1 = ctx s2 /\ mode s1 = mode s2 /\ tmpl s1 = tmpl s2 /\ depth_ s1 = depth_ s2 /\
  chunks (out s1) = chunks (out s2) /\
  Forall2 (fun b1 b2 => chunks b1 = chunks b2) (bufs s1) (bufs s2) /\
  calls_left s1 = None /\ calls_left s2 = None /\ bytes_left s1 = None /\ bytes_left s2 = None /\
  next_id s1 = next_id s2 /\ unbound s1 = unbound s2 /\ shared_writes s1 = shared_writes s2.

Definition res_rel {A} (x y : outcome A * mstate) : Prop :=
  fst x = OutOfFuel \/ (fst x = fst y /\ st_equiv (snd x) (snd y)).

Definition mrel {A} (m1 m2 : M A) : Prop :=
  forall s1 s2, st_equiv s1 s2 -> res_rel (m1 s1) (m2 s2).

(* ---- the equivalence ---- *)

Lemma Forall2_chunks_refl l : Forall2 (fun b1 b2 : list bstr => chunks b1 = chunks b2) l l.
Proof. induction l; constructor; auto. Qed.

Lemma st_equiv_refl_l s1 s2 : st_equiv s1 s2 -> st_equiv s1 s1.
Proof.
  unfold st_equiv. intros H. decompose [and] H. repeat split; auto. apply Forall2_chunks_refl.
Qed.

Lemma Forall2_chunks_sym l1 l2 :
  Forall2 (fun b1 b2 : list bstr => chunks b1 = chunks b2) l1 l2 ->
  Forall2 (fun b1 b2 : list bstr => chunks b1 = chunks b2) l2 l1.
Proof. induction 1; constructor; auto. Qed.

Lemma Forall2_chunks_trans l1 l2 l3 :
  Forall2 (fun b1 b2 : list bstr => chunks b1 = chunks b2) l1 l2 ->
  Forall2 (fun b1 b2 : list bstr => chunks b1 = chunks b2) l2 l3 ->
  Forall2 (fun b1 b2 : list bstr => chunks b1 = chunks b2) l1 l3.
Proof.
  intros H; revert l3; induction H; intros l3 H3; inversion H3; subst; constructor; [congruence | auto].
Qed.

Lemma st_equiv_sym s1 s2 : st_equiv s1 s2 -> st_equiv s2 s1.
Proof.
  unfold st_equiv. intros H. decompose [and] H. repeat split; auto. apply Forall2_chunks_sym; assumption.
Qed.

Lemma st_equiv_trans s1 s2 s3 : st_equiv s1 s2 -> st_equiv s2 s3 -> st_equiv s1 s3.
Proof.
  unfold st_equiv. intros H1 H2. decompose [and] H1. decompose [and] H2.
  repeat split; try congruence. eapply Forall2_chunks_trans; eassumption.
Qed.

Lemma mrel_trans {A} (m1 m2 m3 : M A) : mrel m1 m2 -> mrel m2 m3 -> mrel m1 m3.
Proof.
  intros H12 H23 s1 s3 He.
  destruct (H12 s1 s1 (st_equiv_refl_l _ _ He)) as [Hf | [Ho Hs]]; [left; exact Hf|].
  destruct (H23 s1 s3 He) as [Hf | [Ho' Hs']].
  - left. congruence.
  - right. split; [congruence | eapply st_equiv_trans; eassumption].
Qed.

(* ---- the monad ---- *)

Lemma mrel_ret {A} (x : A) : mrel (ret x) (ret x).
Proof. intros s1 s2 H. right. split; [reflexivity | exact H]. Qed.
Lemma mrel_fail {A} m : mrel (@fail A m) (fail m).
Proof. intros s1 s2 H. right. split; [reflexivity | exact H]. Qed.
Lemma mrel_lift {A} (o : outcome A) : mrel (lift o) (lift o).
Proof. intros s1 s2 H. right. split; [reflexivity | exact H]. Qed.
Lemma mrel_fuel {A} (m : M A) : mrel (lift OutOfFuel) m.
Proof. intros s1 s2 H. left. reflexivity. Qed.

Lemma mrel_bind {A B} (m1 m2 : M A) (f1 f2 : A -> M B) :
  mrel m1 m2 -> (forall x, mrel (f1 x) (f2 x)) -> mrel (mbind m1 f1) (mbind m2 f2).
Proof.
  intros Hm Hf s1 s2 He. unfold mbind. specialize (Hm s1 s2 He). unfold res_rel in *.
  destruct (m1 s1) as [r1 t1], (m2 s2) as [r2 t2]. cbn [fst snd] in Hm.
  destruct Hm as [-> | [-> Ht]]; [left; reflexivity|].
  destruct r2; [apply Hf, Ht | right; split; [reflexivity | exact Ht] ..].
Qed.

Lemma mrel_get_bind {A} (k1 k2 : mstate -> M A) :
  (forall s1 s2, st_equiv s1 s2 -> mrel (k1 s1) (k2 s2)) -> mrel (mbind get k1) (mbind get k2).
Proof. intros H s1 s2 He. unfold mbind, get. apply (H s1 s2 He s1 s2 He). Qed.

Lemma mrel_modify (f1 f2 : mstate -> mstate) :
  (forall s1 s2, st_equiv s1 s2 -> st_equiv (f1 s1) (f2 s2)) -> mrel (modify f1) (modify f2).
Proof. intros H s1 s2 He. right. split; [reflexivity | apply H, He]. Qed.

(* ---- state updates ---- *)

Ltac eqv_tac := unfold st_equiv in *; cbn [ctx mode cur tmpl depth_ out bufs calls_left bytes_left next_id unbound shared_writes
                                             set_ctx set_mode set_cur set_depth set_out set_bufs bump_id bump_unbound note_shared] in *.

Lemma eqv_set_cur s1 s2 p1 p2 : st_equiv s1 s2 -> st_equiv (set_cur s1 p1) (set_cur s2 p2).
Proof. intros H. eqv_tac. tauto. Qed.
Lemma eqv_set_ctx s1 s2 c : st_equiv s1 s2 -> st_equiv (set_ctx s1 c) (set_ctx s2 c).
Proof. intros H. eqv_tac. tauto. Qed.
Lemma eqv_set_mode s1 s2 m : st_equiv s1 s2 -> st_equiv (set_mode s1 m) (set_mode s2 m).
Proof. intros H. eqv_tac. tauto. Qed.
Lemma eqv_set_depth s1 s2 d : st_equiv s1 s2 -> st_equiv (set_depth s1 d) (set_depth s2 d).
Proof. intros H. eqv_tac. tauto. Qed.
Lemma eqv_bump_id s1 s2 : st_equiv s1 s2 -> st_equiv (bump_id s1) (bump_id s2).
Proof. intros H. eqv_tac. decompose [and] H. repeat split; auto; congruence. Qed.
Lemma eqv_bump_unbound s1 s2 : st_equiv s1 s2 -> st_equiv (bump_unbound s1) (bump_unbound s2).
Proof. intros H. eqv_tac. decompose [and] H. repeat split; auto; congruence. Qed.
Lemma eqv_note_shared s1 s2 i : st_equiv s1 s2 -> st_equiv (note_shared s1 i) (note_shared s2 i).
Proof. intros H. eqv_tac. decompose [and] H. repeat split; auto; congruence. Qed.

Lemma eqv_ctx s1 s2 : st_equiv s1 s2 -> ctx s1 = ctx s2. Proof. unfold st_equiv; tauto. Qed.
Lemma eqv_mode s1 s2 : st_equiv s1 s2 -> mode s1 = mode s2. Proof. unfold st_equiv; tauto. Qed.
Lemma eqv_depth s1 s2 : st_equiv s1 s2 -> depth_ s1 = depth_ s2. Proof. unfold st_equiv; tauto. Qed.
Lemma eqv_next_id s1 s2 : st_equiv s1 s2 -> next_id s1 = next_id s2. Proof. unfold st_equiv; tauto. Qed.

(* ---- the writer ---- *)

Lemma chunks_cons w l : chunks (w :: l) = chunks l ++ w.
Proof.
  unfold chunks. cbn [rev]. induction (rev l) as [|x r IH]; cbn [app concat_b]; [rewrite app_nil_r; reflexivity|].
  rewrite IH, app_assoc. reflexivity.
Qed.

Lemma write_ok s w : calls_left s = None -> bytes_left s = None ->
  write w s = (Ok tt, match bufs s with
                      | buf :: rest => set_bufs s ((w :: buf) :: rest)
                      | [] => set_out s (w :: out s) None None
                      end).
Proof. intros Hc Hb. unfold write. destruct (bufs s); [|reflexivity]. rewrite Hc, Hb. reflexivity. Qed.

Lemma eqv_faultfree s1 s2 : st_equiv s1 s2 ->
  calls_left s1 = None /\ bytes_left s1 = None /\ calls_left s2 = None /\ bytes_left s2 = None.
Proof. unfold st_equiv. tauto. Qed.

(* the state after one accepted Write call *)
Definition wr (w : bstr) (s : mstate) : mstate :=
  match bufs s with
  | buf :: rest => set_bufs s ((w :: buf) :: rest)
  | [] => set_out s (w :: out s) None None
  end.

Lemma write_wr s w : calls_left s = None -> bytes_left s = None -> write w s = (Ok tt, wr w s).
Proof. intros Hc Hb. rewrite (write_ok s w Hc Hb). reflexivity. Qed.

Lemma wr_faultfree s w : calls_left s = None -> bytes_left s = None ->
  calls_left (wr w s) = None /\ bytes_left (wr w s) = None.
Proof. intros Hc Hb. unfold wr. destruct (bufs s); eqv_tac; auto. Qed.

Lemma eqv_wr s1 s2 w : st_equiv s1 s2 -> st_equiv (wr w s1) (wr w s2).
Proof.
  intros H. unfold wr. unfold st_equiv in H. decompose [and] H.
  destruct (bufs s1) as [|b1 r1] eqn:E1, (bufs s2) as [|b2 r2] eqn:E2;
    try (match goal with H : Forall2 _ _ _ |- _ => inversion H; fail end).
  - eqv_tac. rewrite E1, E2. repeat split; auto. rewrite !chunks_cons. congruence.
  - eqv_tac. match goal with H : Forall2 _ (_ :: _) (_ :: _) |- _ => inversion H; subst end.
    repeat split; auto. constructor; [rewrite !chunks_cons; congruence | assumption].
Qed.

(* two Write calls against one with the concatenation *)
Lemma wr_app s a c : calls_left s = None -> bytes_left s = None ->
  st_equiv (wr c (wr a s)) (wr (a ++ c) s).
Proof.
  intros Hc Hb. destruct s as [cx md cu tm dp ou bu cl bl ni ub sw]. cbn in Hc, Hb. subst cl bl.
  destruct bu as [|b r]; unfold wr, st_equiv; cbn -[chunks].
  - repeat split; auto. rewrite !chunks_cons, <- app_assoc. reflexivity.
  - repeat split; auto. constructor; [rewrite !chunks_cons, <- app_assoc; reflexivity | apply Forall2_chunks_refl].
Qed.

Lemma eqv_wr_app s1 s2 a c : st_equiv s1 s2 -> st_equiv (wr c (wr a s1)) (wr (a ++ c) s2).
Proof.
  intros H. destruct (eqv_faultfree _ _ H) as [_ [_ [H3 H4]]].
  eapply st_equiv_trans; [apply eqv_wr, eqv_wr, H | apply wr_app; assumption].
Qed.

Lemma eqv_wr_nil s1 s2 : st_equiv s1 s2 -> st_equiv (wr [] s1) s2.
Proof.
  intros H. unfold st_equiv in H. decompose [and] H. unfold wr.
  destruct (bufs s1) as [|b1 r1] eqn:E1, (bufs s2) as [|b2 r2] eqn:E2;
    try (match goal with H : Forall2 _ _ _ |- _ => inversion H; fail end).
  - eqv_tac. rewrite E1, E2. repeat split; auto. rewrite chunks_cons, app_nil_r. assumption.
  - eqv_tac. rewrite E2. match goal with H : Forall2 _ (_ :: _) (_ :: _) |- _ => inversion H; subst end.
    repeat split; auto. constructor; [rewrite chunks_cons, app_nil_r; assumption | assumption].
Qed.

Lemma mrel_write w : mrel (write w) (write w).
Proof.
  intros s1 s2 He. destruct (eqv_faultfree _ _ He) as [H1 [H2 [H3 H4]]].
  rewrite (write_wr s1 w H1 H2), (write_wr s2 w H3 H4). right. split; [reflexivity | apply eqv_wr, He].
Qed.

Lemma mrel_write_app a c : mrel (_ <-- write a ;;; write c) (write (a ++ c)).
Proof.
  intros s1 s2 He. destruct (eqv_faultfree _ _ He) as [H1 [H2 [H3 H4]]].
  unfold mbind. rewrite (write_wr s1 a H1 H2).
  destruct (wr_faultfree s1 a H1 H2) as [H1' H2'].
  rewrite (write_wr _ c H1' H2'), (write_wr s2 _ H3 H4).
  right. split; [reflexivity | apply eqv_wr_app, He].
Qed.

Lemma mrel_app_write a c : mrel (write (a ++ c)) (_ <-- write a ;;; write c).
Proof.
  intros s1 s2 He. destruct (eqv_faultfree _ _ He) as [H1 [H2 [H3 H4]]].
  unfold mbind. rewrite (write_wr s2 a H3 H4).
  destruct (wr_faultfree s2 a H3 H4) as [H3' H4'].
  rewrite (write_wr _ c H3' H4'), (write_wr s1 _ H1 H2).
  right. split; [reflexivity | apply st_equiv_sym, eqv_wr_app, st_equiv_sym, He].
Qed.

Lemma mrel_write_nil_l : mrel (write []) (ret tt).
Proof.
  intros s1 s2 He. destruct (eqv_faultfree _ _ He) as [H1 [H2 _]].
  rewrite (write_wr s1 [] H1 H2). right. split; [reflexivity | apply eqv_wr_nil, He].
Qed.
Lemma mrel_write_nil_r : mrel (ret tt) (write []).
Proof.
  intros s1 s2 He. destruct (eqv_faultfree _ _ He) as [_ [_ [H3 H4]]].
  rewrite (write_wr s2 [] H3 H4). right. split; [reflexivity | apply st_equiv_sym, eqv_wr_nil, st_equiv_sym, He].
Qed.

(* ---- scope and identity primitives ---- *)

Lemma mrel_m_set k v : mrel (m_set k v) (m_set k v).
Proof.
  intros s1 s2 He. unfold m_set. rewrite (eqv_ctx _ _ He). destruct (ctx s2) eqn:E.
  - right. split; [reflexivity | exact He].
  - right. split; [reflexivity|]. cbn [snd].
    destruct (sc_top_origin (f :: s)); [apply eqv_set_ctx, eqv_note_shared, He | apply eqv_set_ctx, He].
Qed.
Lemma mrel_m_lookup k : mrel (m_lookup k) (m_lookup k).
Proof.
  intros s1 s2 He. unfold m_lookup. rewrite (eqv_ctx _ _ He). destruct (sc_lookup (ctx s2) k).
  - right. split; [reflexivity | exact He].
  - right. split; [reflexivity | apply eqv_bump_unbound, He].
Qed.
Lemma mrel_m_push : mrel m_push m_push.
Proof. apply mrel_modify. intros s1 s2 He. rewrite (eqv_ctx _ _ He). apply eqv_set_ctx, He. Qed.
Lemma mrel_m_pop : mrel m_pop m_pop.
Proof. apply mrel_modify. intros s1 s2 He. rewrite (eqv_ctx _ _ He). apply eqv_set_ctx, He. Qed.
Lemma mrel_fresh_list l : mrel (fresh_list l) (fresh_list l).
Proof.
  intros s1 s2 He. unfold fresh_list. destruct l.
  - right. split; [reflexivity | exact He].
  - rewrite (eqv_next_id _ _ He). right. split; [reflexivity | apply eqv_bump_id, He].
Qed.
Lemma mrel_fresh_list_or_nil l : mrel (fresh_list_or_nil l) (fresh_list_or_nil l).
Proof.
  intros s1 s2 He. unfold fresh_list_or_nil. destruct l.
  - right. split; [reflexivity | exact He].
  - rewrite (eqv_next_id _ _ He). right. split; [reflexivity | apply eqv_bump_id, He].
Qed.
Lemma mrel_fresh_map m : mrel (fresh_map m) (fresh_map m).
Proof.
  intros s1 s2 He. unfold fresh_map. rewrite (eqv_next_id _ _ He). right. split; [reflexivity | apply eqv_bump_id, He].
Qed.
Lemma mrel_set_cur p1 p2 : mrel (modify (fun st => set_cur st p1)) (modify (fun st => set_cur st p2)).
Proof. apply mrel_modify. intros s1 s2 He. apply eqv_set_cur, He. Qed.

Lemma mrel_write_all ws : mrel (write_all ws) (write_all ws).
Proof. induction ws as [|w r IH]; cbn [write_all]; [apply mrel_ret | apply mrel_bind; [apply mrel_write | intros _; exact IH]]. Qed.

(* ------------------------------------------------------------------ *)
(* trees all of whose {msg} nodes satisfy [okm]                        *)
(* ------------------------------------------------------------------ *)

Section Param.
Variable cf : cfg.
Variable okm : N -> list node -> Prop.

Fixpoint okP (n : node) : Prop :=
  match n with
  | NFunc _ _ args => fold_right (fun x a => okP x /\ a) True args
  | NListLit _ items => fold_right (fun x a => okP x /\ a) True items
  | NMapLit _ items => fold_right (fun kv a => okP (snd kv) /\ a) True items
  | NDataRef _ _ access => fold_right (fun x a => okP x /\ a) True access
  | NAccExpr _ _ arg => okP arg
  | NNot _ a | NNeg _ a => okP a
  | NBin _ _ a1 a2 => okP a1 /\ okP a2
  | NTern _ a1 a2 a3 => okP a1 /\ okP a2 /\ okP a3
  | NList _ nodes => fold_right (fun x a => okP x /\ a) True nodes
  | NPrint _ arg dirs => okP arg /\ fold_right (fun x a => okP x /\ a) True dirs
  | NDirective _ _ args => fold_right (fun x a => okP x /\ a) True args
  | NCss _ e _ => match e with Some x => okP x | None => True end
  | NLog _ body => okP body
  | NIf _ conds => fold_right (fun x a => okP x /\ a) True conds
  | NIfCond _ cond body => match cond with Some c => okP c | None => True end /\ okP body
  | NFor _ _ lst body ifempty => okP lst /\ okP body /\ match ifempty with Some x => okP x | None => True end
  | NSwitch _ v cases => okP v /\ fold_right (fun x a => okP x /\ a) True cases
  | NSwitchCase _ values body => fold_right (fun x a => okP x /\ a) True values /\ okP body
  | NCall _ _ _ dat params => match dat with Some d => okP d | None => True end /\ fold_right (fun x a => okP x /\ a) True params
  | NParamValue _ _ v => okP v
  | NParamContent _ _ c => okP c
  | NLetValue _ _ e => okP e
  | NLetContent _ _ body => okP body
  | NMsg _ id _ _ body => okm id body /\ fold_right (fun x a => okP x /\ a) True body
  | NMsgPlaceholder _ _ body => okP body
  | NMsgPlural _ _ v cases dflt =>
      okP v /\ fold_right (fun x a => okP x /\ a) True cases /\ fold_right (fun x a => okP x /\ a) True dflt
  | NMsgPluralCase _ _ body => fold_right (fun x a => okP x /\ a) True body
  | NTemplate _ _ body _ _ => okP body
  | _ => True
  end.

Lemma okP_all l : fold_right (fun x a => okP x /\ a) True l <-> Forall okP l.
Proof.
  induction l as [|x r IH]; cbn [fold_right]; [split; auto|].
  rewrite IH. split; [intros [? ?]; constructor; auto | inversion 1; auto].
Qed.

Hypothesis Hokm0 : forall body, okm 0 body.
Hypothesis Hreg : Forall (fun t => okP (t_node t)) (r_templates (c_reg cf)).

Variables w1 w2 : node -> M value.
Hypothesis Hw : forall n, okP n -> mrel (w1 n) (w2 n).

Ltac mr := repeat first
  [ assumption | apply mrel_ret | apply mrel_fail | apply mrel_lift | apply mrel_write | apply mrel_write_all
  | apply mrel_m_set | apply mrel_m_lookup | apply mrel_m_push | apply mrel_m_pop
  | apply mrel_fresh_list | apply mrel_fresh_list_or_nil | apply mrel_fresh_map | apply mrel_set_cur
  | solve [eauto]
  | (apply mrel_bind; [ | intros ? ])
  | match goal with
    | |- mrel (match ?x with _ => _ end) (match ?x with _ => _ end) => destruct x
    | |- mrel (if ?c then _ else _) (if ?c then _ else _) => destruct c
    end ].

Lemma eval_rel e : okP e -> mrel (eval w1 e) (eval w2 e).
Proof.
  intros H. unfold eval. apply mrel_get_bind. intros s1 s2 He.
  apply mrel_bind; [apply Hw, H|]. intros v. mr.
Qed.

Lemma evaldef_rel e : okP e -> mrel (evaldef w1 e) (evaldef w2 e).
Proof. intros H. unfold evaldef. pose proof (eval_rel e H). mr. Qed.

Lemma eval_list_rel es : Forall okP es -> mrel (eval_list w1 es) (eval_list w2 es).
Proof.
  induction 1 as [|e r He _ IH]; cbn [eval_list]; [apply mrel_ret|].
  pose proof (eval_rel e He). mr.
Qed.

Lemma walk_list_rel ns : Forall okP ns -> mrel (walk_list w1 ns) (walk_list w2 ns).
Proof.
  induction 1 as [|e r He _ IH]; cbn [walk_list]; [apply mrel_ret|].
  pose proof (Hw e He). mr.
Qed.

Lemma Forall2_chunks_cons_inv b1 r1 l2 :
  Forall2 (fun b1 b2 : list bstr => chunks b1 = chunks b2) (b1 :: r1) l2 ->
  exists b2 r2, l2 = b2 :: r2 /\ chunks b1 = chunks b2 /\ Forall2 (fun b1 b2 : list bstr => chunks b1 = chunks b2) r1 r2.
Proof. inversion 1; subst. eauto. Qed.

Lemma render_block_rel body : okP body -> mrel (render_block w1 body) (render_block w2 body).
Proof.
  intros H. unfold render_block.
  apply mrel_bind.
  { apply mrel_modify. intros s1 s2 He. unfold st_equiv in *. decompose [and] He. eqv_tac.
    repeat split; auto. }
  intros _. apply mrel_bind; [apply Hw, H|]. intros _.
  apply mrel_get_bind. intros s1 s2 He.
  assert (Forall2 (fun b1 b2 : list bstr => chunks b1 = chunks b2) (bufs s1) (bufs s2)) as Hb by (unfold st_equiv in He; tauto).
  destruct (bufs s1) as [|b1 r1] eqn:E1.
  - inversion Hb. apply mrel_fail.
  - destruct (Forall2_chunks_cons_inv _ _ _ Hb) as [b2 [r2 [-> [Hc Hr]]]].
    replace (concat_b (rev b1)) with (concat_b (rev b2)) by (symmetry; exact Hc).
    apply mrel_bind; [|intros _; apply mrel_ret].
    apply mrel_modify. intros t1 t2 Ht. unfold st_equiv in *. decompose [and] Ht. eqv_tac. repeat split; auto.
Qed.

Lemma maplit_items_rel l : Forall (fun kv => okP (snd kv)) l -> mrel (maplit_items w1 l) (maplit_items w2 l).
Proof.
  induction 1 as [|[k e] r He _ IH]; cbn [maplit_items]; [apply mrel_ret|].
  cbn [snd] in He. pose proof (eval_rel e He). mr.
Qed.

Lemma loop_func_rel name args : mrel (loop_func name args) (loop_func name args).
Proof. unfold loop_func. mr. Qed.

Lemma call_func_rel name args : Forall okP args -> mrel (call_func w1 name args) (call_func w2 name args).
Proof. intros H. unfold call_func. pose proof (eval_list_rel args H). mr. Qed.

Lemma dataref_access_rel acc : Forall okP acc -> forall ref, mrel (dataref_access w1 acc ref) (dataref_access w2 acc ref).
Proof.
  induction 1 as [|a rest Ha _ IH]; intros ref; cbn [dataref_access]; [apply mrel_ret|].
  apply mrel_bind.
  - destruct a; try apply mrel_ret; try apply mrel_fail.
    cbn [okP] in Ha. pose proof (eval_rel _ Ha). mr.
  - intros [oi k]. mr.
Qed.

Lemma print_dirs_rel l : Forall okP l -> forall v, mrel (print_dirs cf w1 l v) (print_dirs cf w2 l v).
Proof.
  induction 1 as [|d r Hd _ IH]; intros v; cbn [print_dirs]; [apply mrel_ret|].
  destruct d; try apply mrel_fail.
  cbn [okP] in Hd. apply okP_all in Hd. pose proof (eval_list_rel _ Hd).
  destruct (lookup_directive name) as [[arglens x]|]; [|apply mrel_fail]. mr.
Qed.

Lemma if_conds_rel cs : Forall okP cs -> mrel (if_conds w1 cs) (if_conds w2 cs).
Proof.
  induction 1 as [|c r Hc _ IH]; cbn [if_conds]; [apply mrel_ret|].
  destruct c; try apply mrel_fail. cbn [okP] in Hc. destruct Hc as [Hcond Hbody].
  pose proof (Hw _ Hbody). destruct cond as [cnd|]; [pose proof (eval_rel _ Hcond)|]; mr.
Qed.

Lemma for_items_rel var body : okP body -> forall items i, mrel (for_items w1 var body i items) (for_items w2 var body i items).
Proof.
  intros Hb. pose proof (Hw _ Hb). induction items as [|x r IH]; intros i; cbn [for_items]; [apply mrel_ret|]. mr.
Qed.

Lemma case_hit_rel sv vs : Forall okP vs -> mrel (case_hit w1 sv vs) (case_hit w2 sv vs).
Proof.
  induction 1 as [|x r Hx _ IH]; cbn [case_hit]; [apply mrel_ret|]. pose proof (eval_rel _ Hx). mr.
Qed.

Lemma switch_cases_rel sv cs : Forall okP cs -> mrel (switch_cases w1 sv cs) (switch_cases w2 sv cs).
Proof.
  induction 1 as [|c r Hc _ IH]; cbn [switch_cases]; [apply mrel_ret|].
  destruct c; try apply mrel_fail. cbn [okP] in Hc. destruct Hc as [Hv Hbody]. apply okP_all in Hv.
  pose proof (Hw _ Hbody). pose proof (case_hit_rel sv _ Hv). mr.
Qed.

Lemma call_params_rel ps : Forall okP ps -> forall cd, mrel (call_params w1 ps cd) (call_params w2 ps cd).
Proof.
  induction 1 as [|p r Hp _ IH]; intros cd; cbn [call_params]; [apply mrel_ret|].
  destruct p; try apply mrel_fail; cbn [okP] in Hp.
  - pose proof (eval_rel _ Hp). mr.
  - pose proof (render_block_rel _ Hp). mr.
Qed.

Lemma call_data_rel alldata dat :
  match dat with Some d => okP d | None => True end -> mrel (call_data w1 alldata dat) (call_data w2 alldata dat).
Proof.
  intros Hd. unfold call_data. apply mrel_get_bind. intros s1 s2 He. rewrite (eqv_ctx _ _ He).
  destruct alldata; [mr|]. destruct dat as [d|]; [pose proof (eval_rel _ Hd)|]; mr.
Qed.

Lemma call_enter_rel callee cd : okP (t_node callee) -> mrel (call_enter w1 callee cd) (call_enter w2 callee cd).
Proof.
  intros Hc. unfold call_enter. apply mrel_get_bind. intros s1 s2 He.
  rewrite (eqv_ctx _ _ He), (eqv_mode _ _ He), (eqv_depth _ _ He).
  apply mrel_bind.
  { apply mrel_modify. intros t1 t2 Ht. apply eqv_set_depth, eqv_set_mode, eqv_set_ctx, Ht. }
  intros _ t1 t2 Ht. specialize (Hw _ Hc t1 t2 Ht). unfold res_rel in *.
  destruct (w1 (t_node callee) t1) as [r1 u1], (w2 (t_node callee) t2) as [r2 u2]. cbn [fst snd] in *.
  destruct Hw as [-> | [-> Hu]]; [left; reflexivity|].
  right. destruct r2; cbn [fst snd]; (split; [reflexivity | apply eqv_set_depth, eqv_set_mode, eqv_set_ctx, Hu]).
Qed.

Lemma plural_pick_rel mp i dflt cs :
  Forall okP dflt -> Forall okP cs -> mrel (plural_pick w1 mp i dflt cs) (plural_pick w2 mp i dflt cs).
Proof.
  intros Hd. assert (okP (NMsg mp 0 [] [] dflt)) as Hsyn by (cbn [okP]; split; [apply Hokm0 | apply okP_all, Hd]).
  pose proof (Hw _ Hsyn).
  induction 1 as [|c r Hc _ IH]; cbn [plural_pick]; [mr|].
  destruct c; try apply mrel_fail. cbn [okP] in Hc.
  assert (okP (NMsg mp 0 [] [] body)) as Hsyn' by (cbn [okP]; split; [apply Hokm0 | exact Hc]).
  pose proof (Hw _ Hsyn'). mr.
Qed.

Lemma msg_body_rel mp ns : Forall okP ns -> mrel (msg_body w1 mp ns) (msg_body w2 mp ns).
Proof.
  induction 1 as [|n r Hn _ IH]; cbn [msg_body]; [apply mrel_ret|].
  destruct n; try exact IH; cbn [okP] in Hn.
  - pose proof (Hw (NRawText p text) I). mr.
  - pose proof (Hw _ Hn). mr.
  - destruct Hn as [Hv [Hc Hd]]. apply okP_all in Hc. apply okP_all in Hd.
    pose proof (eval_rel _ Hv). pose proof (plural_pick_rel mp). mr.
Qed.

Lemma walk_node_rel n : okP n -> mrel (walk_node cf w1 n) (walk_node cf w2 n).
Proof.
  intros H. destruct n; cbn [walk_node]; try apply mrel_ret; try apply mrel_fail; cbn [okP] in H.
  - (* NFunc *) apply okP_all in H. pose proof (call_func_rel name _ H). pose proof (loop_func_rel name args). mr.
  - (* NListLit *) apply okP_all in H. pose proof (eval_list_rel _ H). mr.
  - (* NMapLit *)
    assert (Forall (fun kv => okP (snd kv)) items) as H'.
    { clear -H. induction items as [|x r IH]; cbn [fold_right] in H; [constructor|]. destruct H. constructor; auto. }
    pose proof (maplit_items_rel _ H'). mr.
  - (* NDataRef *) apply okP_all in H. pose proof (dataref_access_rel _ H). mr.
  - (* NNot *) pose proof (eval_rel _ H). mr.
  - (* NNeg *) pose proof (evaldef_rel _ H). mr.
  - (* NBin *) destruct H as [H1 H2]. pose proof (eval_rel _ H1). pose proof (eval_rel _ H2).
    pose proof (evaldef_rel _ H1). pose proof (evaldef_rel _ H2). destruct op; mr.
  - (* NTern *) destruct H as [H1 [H2 H3]]. pose proof (eval_rel _ H1). pose proof (eval_rel _ H2). pose proof (eval_rel _ H3). mr.
  - (* NList *) apply okP_all in H. pose proof (walk_list_rel _ H). mr.
  - (* NRawText *) mr.
  - (* NPrint *) destruct H as [Ha Hd]. apply okP_all in Hd. pose proof (Hw _ Ha). pose proof (print_dirs_rel _ Hd).
    apply mrel_bind; [assumption|]. intros v. destruct v; try apply mrel_fail.
    all: apply mrel_bind; [solve [auto]|]; intros ds; apply mrel_bind; [apply mrel_lift|]; intros str;
      apply mrel_get_bind; intros s1 s2 He; rewrite (eqv_mode _ _ He); mr.
  - (* NCss *) destruct expr as [x|]; [pose proof (eval_rel _ H)|]; mr.
  - (* NLog *) pose proof (render_block_rel _ H). mr.
  - (* NIf *) apply okP_all in H. apply if_conds_rel, H.
  - (* NFor *) destruct H as [Hl [Hb Hi]]. pose proof (eval_rel _ Hl). pose proof (for_items_rel var _ Hb).
    apply mrel_bind; [assumption|]. intros lv. destruct lv; try apply mrel_fail.
    destruct l as [|x l]; [destruct ifempty as [ie|]; [pose proof (Hw _ Hi)|]; mr | mr].
  - (* NSwitch *) destruct H as [Hv Hc]. apply okP_all in Hc. pose proof (eval_rel _ Hv). pose proof (switch_cases_rel). mr.
  - (* NCall *) destruct H as [Hd Hp]. apply okP_all in Hp.
    destruct (find_template (r_templates (c_reg cf)) name) as [callee|] eqn:E; [|apply mrel_fail].
    assert (okP (t_node callee)) as Hc.
    { clear -E Hreg. induction (r_templates (c_reg cf)) as [|t r IH]; cbn [find_template] in E; [discriminate|].
      inversion Hreg; subst. destruct (bstr_eqb (t_name t) name); [injection E as <-; assumption | auto]. }
    pose proof (call_data_rel alldata data Hd). pose proof (call_params_rel _ Hp). pose proof (call_enter_rel callee). mr.
  - (* NLetValue *) pose proof (eval_rel _ H). mr.
  - (* NLetContent *) pose proof (render_block_rel _ H). mr.
  - (* NMsg *) destruct H as [_ Hb]. apply okP_all in Hb. pose proof (msg_body_rel p _ Hb). mr.
  - (* NMsgHtmlTag *) mr.
  - (* NTemplate *) pose proof (Hw _ H).
    apply mrel_bind; [|intros _; mr].
    apply mrel_modify. intros s1 s2 He. rewrite (eqv_mode _ _ He). apply eqv_set_mode, He.
Qed.

Theorem walk_body_rel n : okP n -> mrel (walk_body cf w1 n) (walk_body cf w2 n).
Proof.
  intros H. unfold walk_body. apply mrel_bind; [apply mrel_set_cur | intros _; apply walk_node_rel, H].
Qed.
End Param.

(* ---- pointwise reasoning ---- *)

Lemma mrel_ext_l {A} (m1 m1' m2 : M A) : (forall s, m1 s = m1' s) -> mrel m1' m2 -> mrel m1 m2.
Proof. intros H Hm s1 s2 He. rewrite H. apply Hm, He. Qed.
Lemma mrel_ext_r {A} (m1 m2 m2' : M A) : (forall s, m2 s = m2' s) -> mrel m1 m2' -> mrel m1 m2.
Proof. intros H Hm s1 s2 He. rewrite H. apply Hm, He. Qed.

Lemma mbind_assoc_pt {A B C} (m : M A) (f : A -> M B) (g : B -> M C) s :
  mbind (mbind m f) g s = mbind m (fun x => mbind (f x) g) s.
Proof. unfold mbind. destruct (m s) as [[x| | | | |] s']; reflexivity. Qed.

Lemma mbind_ret_l_pt {A B} (x : A) (f : A -> M B) s : mbind (ret x) f s = f x s.
Proof. reflexivity. Qed.

Lemma mbind_ret_r_pt (m : M unit) s : mbind m (fun _ => ret tt) s = m s.
Proof. unfold mbind, ret. destruct (m s) as [[[]| | | | |] s']; reflexivity. Qed.

(* a left computation that only refines "nothing happens" can be dropped *)
Lemma mrel_bind_l_unit {A B} (m1 : M A) (k1 : A -> M B) (k2 : M B) :
  (forall s1 s2, st_equiv s1 s2 -> fst (m1 s1) = OutOfFuel \/ (exists x, fst (m1 s1) = Ok x) /\ st_equiv (snd (m1 s1)) s2) ->
  (forall x, mrel (k1 x) k2) -> mrel (mbind m1 k1) k2.
Proof.
  intros Hm Hk s1 s2 He. unfold mbind. specialize (Hm s1 s2 He).
  destruct (m1 s1) as [r1 t1]. cbn [fst snd] in Hm.
  destruct Hm as [-> | [[x ->] Ht]]; [left; reflexivity | apply Hk, Ht].
Qed.
Lemma mrel_bind_r_unit {A B} (m2 : M A) (k1 : M B) (k2 : A -> M B) :
  (forall s1 s2, st_equiv s1 s2 -> (exists x, fst (m2 s2) = Ok x) /\ st_equiv s1 (snd (m2 s2))) ->
  (forall x, mrel k1 (k2 x)) -> mrel k1 (mbind m2 k2).
Proof.
  intros Hm Hk s1 s2 He. unfold mbind. specialize (Hm s1 s2 He).
  destruct (m2 s2) as [r2 t2]. cbn [fst snd] in Hm.
  destruct Hm as [[x ->] Ht]. apply Hk, Ht.
Qed.

Lemma eqv_set_cur_l s1 s2 p : st_equiv s1 s2 -> st_equiv (set_cur s1 p) s2.
Proof. intros H. eqv_tac. tauto. Qed.
Lemma eqv_set_cur_r s1 s2 p : st_equiv s1 s2 -> st_equiv s1 (set_cur s2 p).
Proof. intros H. eqv_tac. tauto. Qed.

Lemma mrel_set_cur_l {A} p (m1 m2 : M A) : mrel m1 m2 -> mrel (_ <-- modify (fun st => set_cur st p) ;;; m1) m2.
Proof.
  intros H. apply mrel_bind_l_unit; [|intros _; exact H].
  intros s1 s2 He. right. split; [exists tt; reflexivity | apply eqv_set_cur_l, He].
Qed.
Lemma mrel_set_cur_r {A} p (m1 m2 : M A) : mrel m1 m2 -> mrel m1 (_ <-- modify (fun st => set_cur st p) ;;; m2).
Proof.
  intros H. apply mrel_bind_r_unit; [|intros _; exact H].
  intros s1 s2 He. split; [exists tt; reflexivity | apply eqv_set_cur_r, He].
Qed.
