(* C16: the Go directive and its JavaScript counterpart agree on their common domain.
   truncate counts bytes in Go and UTF-16 code units in JavaScript: on ASCII text (where a byte is a code
   unit is a character) and a non-negative limit the two compute the same string. *)
From Coq Require Import Lia ZifyN ZifyNat ZifyBool.
From Soy Require Import Model.Bytes Model.Utf8 Model.Outcome Model.Escape Model.Directives Model.JsEscape Model.JsDirectives
  Spec.Html Spec.Codec Proofs.Utf8Proofs Proofs.CodecProofs Proofs.CodecJsUnits.
Open Scope N_scope.

Lemma ascii_not_high s i : Forall (fun c => c < 128) s -> u_high_at s i = false.
Proof.
  intros H. unfold u_high_at, u_at. destruct (i <? 0)%Z; [reflexivity|].
  destruct (nth_error s (Z.to_nat i)) as [c|] eqn:E; [|reflexivity].
  apply nth_error_In in E. rewrite Forall_forall in H. specialize (H c E). unfold u_is_high, in_range. lia.
Qed.

Theorem truncate_agrees_ascii s n e : Forall (fun c => c < 128) s -> (0 <= n)%Z ->
  truncate s n e = Ok (u_truncate s n e).
Proof.
  intros Ha Hn. destruct (Z.leb_spec (Z.of_nat (length s)) n) as [Hfit|Hcut].
  - rewrite truncate_fits, u_truncate_fits by exact Hfit. reflexivity.
  - rewrite truncate_unfold by exact Hcut. unfold u_truncate.
    destruct (Z.of_nat (length s) <=? n)%Z eqn:E; [lia|].
    assert ((if e then if (n >? 3)%Z then ((n - 3)%Z, true) else (n, false) else (n, false)) = (trunc_cut n e, trunc_ell n e)) as ->.
    { unfold trunc_cut, trunc_ell. destruct e; cbn [andb]; [destruct (n >? 3)%Z|]; reflexivity. }
    rewrite ascii_not_high by exact Ha. cbn [andb].
    assert (0 <= trunc_cut n e <= n)%Z as Hc by (unfold trunc_cut; destruct (e && (n >? 3)%Z) eqn:Ee; lia).
    assert (back_to_rune_start (length s) s (trunc_cut n e) = Ok (trunc_cut n e)) as ->.
    { destruct (length s) as [|f] eqn:El; [lia|]. cbn [back_to_rune_start].
      destruct (trunc_cut n e <? 0)%Z eqn:En; [lia|].
      destruct (nth_error s (Z.to_nat (trunc_cut n e))) as [c|] eqn:Ec.
      - apply nth_error_In in Ec. rewrite Forall_forall in Ha. specialize (Ha c Ec).
        assert (rune_start c = true) as -> by (unfold rune_start, is_cont, in_range; lia). reflexivity.
      - apply nth_error_None in Ec. lia. }
    reflexivity.
Qed.

(* changeNewlineToBr: the line-break pass is the same function on bytes and on code units *)
Theorem newline_to_br_agrees s : u_newline_to_br s = nl2br s.
Proof. reflexivity. Qed.
