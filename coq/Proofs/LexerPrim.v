(* Specifications of the lexer's primitives (next, backup, emit, errorf, accept, acceptRun,
   maybeEmitText, skipSpace, the identifier loop), in the form
       precondition -> okp (operation l) (fun result => facts about pos/start/width/ticks).
   [okp x P] says that x returned normally (no Crash, Diverge, OutOfFuel, OutOfModel) with a
   value satisfying P.  All facts are linear arithmetic over the four numeric fields, so that
   the per-state lemmas of LexerStates.v are closed by lia. *)
From Soy Require Import Model.Bytes Model.Utf8 Model.Outcome Model.Token Generated.Tables Model.Lexer.
From Coq Require Import ZifyBool ZifyNat ZifyN Lia.
Open Scope Z_scope.

(* the head of the item list is an EOF or error item: the state of a finished scan *)
Definition done_ok (l : lx) : Prop :=
  exists it rest, l_out l = it :: rest /\ (t_typ it = itemEOF \/ t_typ it = itemError).

(* ---------- what is claimed of every item sent ---------- *)

(* least length of the text of an item: the parser takes val[1:] of $ident .ident .N items and val[2:] of
   ?.ident ?.N items *)
Definition val_min (t : N) : nat :=
  if ((t =? itemDollarIdent) || (t =? itemDotIdent) || (t =? itemDotIndex))%N then 1%nat
  else if ((t =? itemQuestionDotIdent) || (t =? itemQuestionDotIndex))%N then 2%nat else 0%nat.
(* EOF and error items end the scan *)
Definition is_final (t : N) : bool := ((t =? itemEOF) || (t =? itemError))%N.

(* an item lies inside the input (positions are base + an offset <= len) and is long enough for its type *)
Definition item_ok (lim : N) (it : tok) : Prop :=
  (t_pos it <= lim)%N /\ (val_min (t_typ it) <= length (t_val it))%nat.
Definition plain_ok (lim : N) (it : tok) : Prop := item_ok lim it /\ is_final (t_typ it) = false.
(* the items sent so far (most recent first): all well-formed; an EOF or error item only as the most
   recent one, and then the scan is over ([final] = true) *)
Definition items_ok (lim : N) (final : bool) (out : list tok) : Prop :=
  if final then
    match out with
    | it :: rest => item_ok lim it /\ is_final (t_typ it) = true /\ Forall (plain_ok lim) rest
    | [] => False
    end
  else Forall (plain_ok lim) out.

Lemma to_N_mono a c : a <= c -> (Z.to_N a <= Z.to_N c)%N.
Proof. intros H. destruct a, c; cbn; lia. Qed.

Lemma items_ok_push lim out it :
  items_ok lim false out -> item_ok lim it -> items_ok lim (is_final (t_typ it)) (it :: out).
Proof.
  unfold items_ok. intros Ho Hi. destruct (is_final (t_typ it)) eqn:E.
  - repeat split; try assumption; apply Hi.
  - constructor; [split; assumption|assumption].
Qed.

Lemma items_ok_done lim l : items_ok lim true (l_out l) -> done_ok l.
Proof.
  unfold items_ok, done_ok. destruct (l_out l) as [|it rest]; [contradiction|]. intros (_ & Hf & _).
  exists it, rest. split; [reflexivity|]. unfold is_final in Hf. apply Bool.orb_true_iff in Hf.
  destruct Hf as [Hf|Hf]; apply N.eqb_eq in Hf; auto.
Qed.

Definition okp {A} (x : outcome A) (P : A -> Prop) : Prop :=
  match x with Ok v => P v | _ => False end.

Lemma okp_bind {A B} (x : outcome A) (f : A -> outcome B) (P : A -> Prop) (Q : B -> Prop) :
  okp x P -> (forall v, P v -> okp (f v) Q) -> okp (bind x f) Q.
Proof. destruct x; cbn; intros H HF; try contradiction. now apply HF. Qed.

Lemma bind_assoc {A B C} (x : outcome A) (f : A -> outcome B) (g : B -> outcome C) :
  bind (bind x f) g = bind x (fun v => bind (f v) g).
Proof. destruct x; reflexivity. Qed.

Lemma okp_weaken {A} (x : outcome A) (P Q : A -> Prop) :
  okp x P -> (forall v, P v -> Q v) -> okp x Q.
Proof. destruct x; cbn; auto. Qed.

Lemma okp_ok {A} (v : A) (P : A -> Prop) : P v -> okp (Ok v) P.
Proof. exact (fun H => H). Qed.

(* ---------- lists ---------- *)

Lemma drop_length (n : nat) (s : bstr) : length (drop n s) = (length s - n)%nat.
Proof. revert s; induction n as [|n IH]; intros [|a s]; cbn; auto. Qed.

Lemma drop_nonempty (n : nat) (s : bstr) : (n < length s)%nat -> drop n s <> [].
Proof. intros H E. apply (f_equal (@length _)) in E. rewrite drop_length in E. cbn in E. lia. Qed.

Lemma take_length (k : nat) (s : bstr) : (k <= length s)%nat -> length (take k s) = k.
Proof. revert s; induction k as [|k IH]; intros [|a s] H; cbn in *; auto; try lia. rewrite IH; lia. Qed.

Lemma is_prefix_length (p s : bstr) : is_prefix p s = true -> (length p <= length s)%nat.
Proof.
  revert s; induction p as [|a p IH]; intros [|c s] H; cbn in *; try lia; try discriminate.
  apply Bool.andb_true_iff in H. destruct H as [_ H]. apply IH in H. lia.
Qed.

Lemma index_of_bound (sep : bstr) : forall s i j, index_of sep s i = Some j ->
  i <= j /\ j - i + Z.of_nat (length sep) <= Z.of_nat (length s).
Proof.
  induction s as [|c s IH]; intros i j H; cbn [index_of] in H.
  - destruct (is_prefix sep []) eqn:E; [|discriminate]. injection H as <-. apply is_prefix_length in E. cbn in *. lia.
  - destruct (is_prefix sep (c :: s)) eqn:E.
    + injection H as <-. apply is_prefix_length in E. cbn [length] in *. lia.
    + apply IH in H. cbn [length]. lia.
Qed.

(* ---------- utf8 ---------- *)

(* the width of a decoded rune: at least one byte, never more than there are; an ASCII rune is one byte *)
Lemma decode_rune_width (s : bstr) : s <> [] ->
  (1 <= snd (decode_rune s) <= length s)%nat /\ ((fst (decode_rune s) < 128)%N -> snd (decode_rune s) = 1%nat).
Proof.
  intros Hne. destruct s as [|b0 s]; [congruence|]. unfold decode_rune, is_cont, in_range, rune_error.
  destruct s as [|b1 [|b2 [|b3 s]]];
  repeat match goal with |- context [if ?c then _ else _] => destruct c eqn:? end;
  cbn [fst snd length]; (split; [lia|intros; try lia]);
  repeat match goal with H : context [if ?c then _ else _] |- _ => destruct c eqn:? end; lia.
Qed.

(* ---------- field simplification ---------- *)

Ltac lsimpl := cbn [l_pos l_start l_width l_dd l_last l_out l_ticks set_pos set_start set_dd tick backup ignore fst snd] in *.
Ltac dest_hyps := repeat match goal with
  | H : _ /\ _ |- _ => destruct H
  | H : exists _, _ |- _ => destruct H
  end.
Ltac fin := dest_hyps; lsimpl; unfold eof in *; repeat split; try assumption; try congruence; try lia.

(* the facts the proofs need about the helper predicates regenerated from the Go source: none of them holds of eof *)
Lemma isSpace_nonneg r : gen_isSpace r = true -> 0 <= r < 128.
Proof. unfold gen_isSpace. lia. Qed.
Lemma isEndOfLine_nonneg r : gen_isEndOfLine r = true -> 0 <= r < 128.
Proof. unfold gen_isEndOfLine. lia. Qed.
Lemma isSpaceEOL_nonneg r : gen_isSpaceEOL r = true -> 0 <= r < 128.
Proof. unfold gen_isSpaceEOL, gen_isSpace, gen_isEndOfLine. lia. Qed.
Lemma isLetterOrUnderscore_nonneg r : gen_isLetterOrUnderscore r = true -> 65 <= r < 128.
Proof. unfold gen_isLetterOrUnderscore. lia. Qed.
Lemma isDigit_nonneg r : gen_isDigit r = true -> 48 <= r < 58.
Proof. unfold gen_isDigit. lia. Qed.
Lemma in_set_nonneg v r : in_set v r = true -> 0 <= r < 128.
Proof. unfold in_set. lia. Qed.

Section Prim.
Variable inp : bstr.
Notation ilen := (Z.of_nat (length inp)).
Variable base : Z.
Hypothesis base_nonneg : 0 <= base.

(* ---------- next / peek ---------- *)

Definition next_post (l : lx) (p : Z * lx) : Prop :=
  let '(r, l') := p in
  l_start l' = l_start l /\ l_ticks l' = l_ticks l + 1 /\ l_pos l' = l_pos l + l_width l' /\
  l_dd l' = l_dd l /\ l_last l' = l_last l /\ l_out l' = l_out l /\
  ((r = eof /\ l_width l' = 0 /\ ilen <= l_pos l) \/
   (0 <= r /\ 1 <= l_width l' /\ l_pos l' <= ilen /\ (r < 128 -> l_width l' = 1))).

Lemma next_spec l : 0 <= l_pos l -> okp (next inp ilen l) (next_post l).
Proof.
  intros Hp. unfold next.
  destruct (ilen <=? l_pos l) eqn:E; [cbn; repeat split; lia|].
  destruct (l_pos l <? 0) eqn:E2; [lia|].
  assert (Hlt : (Z.to_nat (l_pos l) < length inp)%nat) by lia.
  pose proof (decode_rune_width _ (drop_nonempty _ _ Hlt)) as [Hw Hascii].
  rewrite drop_length in Hw.
  destruct (decode_rune (drop (Z.to_nat (l_pos l)) inp)) as [r w] eqn:Ed. cbn [fst snd] in *.
  cbn. repeat split; lia.
Qed.

Definition peek_post (l : lx) (p : Z * lx) : Prop :=
  let '(r, l') := p in
  l_start l' = l_start l /\ l_ticks l' = l_ticks l + 1 /\ l_pos l' = l_pos l /\
  l_dd l' = l_dd l /\ l_last l' = l_last l /\ l_out l' = l_out l /\
  ((r = eof /\ l_width l' = 0 /\ ilen <= l_pos l) \/
   (0 <= r /\ 1 <= l_width l' /\ l_pos l + l_width l' <= ilen /\ (r < 128 -> l_width l' = 1))).

Lemma peek_spec l : 0 <= l_pos l -> okp (peek inp ilen l) (peek_post l).
Proof.
  intros Hp. unfold peek. eapply okp_bind; [apply next_spec, Hp|].
  intros [r l1] H. cbn in H |- *. lsimpl. fin.
Qed.

(* ---------- slices, emit, errorf ---------- *)

Lemma slice_spec a e : 0 <= a <= e -> e <= ilen -> okp (slice inp ilen a e) (fun v => Z.of_nat (length v) = e - a).
Proof.
  intros H1 H2. unfold slice.
  destruct ((a <? 0) || (e <? a) || (ilen <? e)) eqn:E; [lia|]. cbn.
  rewrite take_length; [lia|]. rewrite drop_length. lia.
Qed.

Lemma byte_at_spec i : 0 <= i < ilen -> okp (byte_at inp ilen i) (fun _ => True).
Proof.
  intros H. unfold byte_at. destruct ((i <? 0) || (ilen <=? i)) eqn:E; [lia|].
  destruct (drop (Z.to_nat i) inp) eqn:Ed; [|exact I].
  exfalso. apply (drop_nonempty (Z.to_nat i) inp); [lia|exact Ed].
Qed.

Notation lim := (Z.to_N (base + ilen)).

Definition emit_post (t : N) (l l' : lx) : Prop :=
  l_pos l' = l_pos l /\ l_start l' = l_pos l /\ l_width l' = l_width l /\ l_ticks l' = l_ticks l /\ l_dd l' = l_dd l /\
  items_ok lim (is_final t) (l_out l') /\
  exists it, l_out l' = it :: l_out l /\ t_typ it = t /\ l_last l' = it /\ t_pos it = Z.to_N (base + l_pos l).

(* emit: the pending text input[start:pos] must be long enough for the item type *)
Lemma emit_spec t l : 0 <= l_start l <= l_pos l -> l_pos l <= ilen ->
  items_ok lim false (l_out l) -> Z.of_nat (val_min t) <= l_pos l - l_start l ->
  okp (emit inp ilen base t l) (emit_post t l).
Proof.
  intros H1 H2 Hit Hv. unfold emit.
  destruct (ilen <? l_pos l) eqn:E; [lia|].
  eapply okp_bind; [apply slice_spec; lia|]. intros v Hlen. cbn beta in Hlen. cbn.
  repeat split.
  - apply (items_ok_push lim (l_out l) {| t_typ := t; t_pos := Z.to_N (base + l_pos l); t_val := v |}); [exact Hit|].
    unfold item_ok. cbn [t_pos t_typ t_val]. split; [apply to_N_mono; lia|lia].
  - eexists; repeat split.
Qed.

Definition errorf_post (l : lx) (p : lstate * lx) : Prop :=
  let '(st, l') := p in
  st = LDone /\ l_pos l' = l_pos l /\ l_start l' = l_start l /\ l_width l' = l_width l /\ l_ticks l' = l_ticks l /\
  items_ok lim true (l_out l') /\
  exists it, l_out l' = it :: l_out l /\ t_typ it = itemError /\ t_pos it = Z.to_N (base + l_pos l).

Lemma errorf_spec c l : 0 <= l_pos l <= ilen -> items_ok lim false (l_out l) -> okp (errorf base c l) (errorf_post l).
Proof.
  intros H Hit. unfold errorf. destruct (base + l_pos l <? 0) eqn:E; [lia|]. cbn.
  repeat split.
  - cbn [t_pos]. apply to_N_mono. lia.
  - cbn [t_typ t_val]. change (val_min itemError) with 0%nat. lia.
  - exact Hit.
  - eexists; repeat split.
Qed.

(* ---------- accept, acceptRun ---------- *)

(* after a scanning loop: l' is l moved forward; the last rune read (width l') did not match *)
Definition scan_post (l l' : lx) : Prop :=
  l_start l' = l_start l /\ l_dd l' = l_dd l /\ l_last l' = l_last l /\ l_out l' = l_out l /\
  0 <= l_width l' /\ l_pos l <= l_pos l' - l_width l' /\ l_pos l' <= ilen /\
  l_ticks l <= l_ticks l' /\ l_ticks l' - l_ticks l <= l_pos l' - l_width l' - l_pos l + 1.

Definition accept_post (l : lx) (p : bool * lx) : Prop :=
  let '(b, l') := p in
  l_start l' = l_start l /\ l_ticks l' = l_ticks l + 1 /\ l_dd l' = l_dd l /\ l_last l' = l_last l /\ l_out l' = l_out l /\
  l_pos l' <= ilen /\
  (if b then l_pos l' = l_pos l + 1 /\ l_width l' = 1 else l_pos l' = l_pos l /\ 0 <= l_width l').

Lemma accept_spec v l : 0 <= l_pos l <= ilen -> okp (accept inp ilen v l) (accept_post l).
Proof.
  intros Hp. unfold accept. eapply okp_bind; [apply next_spec; lia|].
  intros [r l1] H. cbn in H. destruct (in_set v r) eqn:E; cbn; lsimpl.
  - apply in_set_nonneg in E. fin.
  - fin.
Qed.

Lemma accept_run_loop_spec v fuel : forall l, 0 <= l_pos l <= ilen -> (Z.to_nat (ilen - l_pos l) < fuel)%nat ->
  okp (accept_run_loop inp ilen fuel v l) (scan_post l).
Proof.
  induction fuel as [|f IH]; intros l Hp Hf; [lia|]. cbn [accept_run_loop].
  eapply okp_bind; [apply next_spec; lia|]. intros [r l1] H. cbn in H.
  destruct (in_set v r) eqn:E.
  - apply in_set_nonneg in E. eapply okp_weaken; [apply IH; fin|].
    intros l2 H2. unfold scan_post in *. fin.
  - cbn. unfold scan_post. fin.
Qed.

Definition accept_run_post (l : lx) (p : bool * lx) : Prop :=
  let '(b, l') := p in
  l_start l' = l_start l /\ l_dd l' = l_dd l /\ l_last l' = l_last l /\ l_out l' = l_out l /\
  l_pos l <= l_pos l' <= ilen /\ 0 <= l_width l' /\
  l_ticks l <= l_ticks l' /\ l_ticks l' - l_ticks l <= l_pos l' - l_pos l + 1 /\
  (if b then l_pos l < l_pos l' else l_pos l' = l_pos l).

Lemma accept_run_spec v l : 0 <= l_pos l <= ilen -> okp (accept_run inp ilen v l) (accept_run_post l).
Proof.
  intros Hp. unfold accept_run. eapply okp_bind; [apply accept_run_loop_spec; [lia|unfold loop_fuel; lia]|].
  intros l1 H. unfold scan_post in H. cbn. lsimpl.
  destruct (l_pos l <? l_pos l1 - l_width l1) eqn:E; fin.
Qed.

(* ---------- maybeEmitText ---------- *)

Definition met_post (bk : Z) (l l' : lx) : Prop :=
  l_pos l' = l_pos l /\ l_width l' = l_width l /\ l_ticks l' = l_ticks l /\ l_dd l' = l_dd l /\
  l_start l <= l_start l' /\ (l_start l' = l_start l \/ l_start l' = l_pos l - bk) /\
  items_ok lim false (l_out l').

Lemma maybe_emit_text_spec l bk : 0 <= bk -> 0 <= l_start l -> l_pos l <= ilen -> items_ok lim false (l_out l) ->
  okp (maybe_emit_text inp ilen base l bk) (met_post bk l).
Proof.
  intros Hb Hs Hp Hit. unfold maybe_emit_text.
  destruct (l_start l <? l_pos l - bk) eqn:E; [|cbn; unfold met_post; repeat split; try lia; exact Hit].
  lsimpl. eapply okp_bind; [apply slice_spec; lia|]. intros v _.
  destruct (all_space_with_newline v).
  - cbn. unfold met_post. lsimpl. repeat split; try lia; exact Hit.
  - eapply okp_bind; [apply emit_spec; lsimpl; [lia|lia|exact Hit|change (val_min itemText) with 0%nat; lia]|].
    intros l2 H2. unfold emit_post in H2. lsimpl.
    cbn. unfold met_post. lsimpl. dest_hyps. change (is_final itemText) with false in *. repeat split; try lia. assumption.
Qed.

(* ---------- skipSpace, the identifier loop ---------- *)

Lemma skip_space_loop_spec fuel : forall l, 0 <= l_pos l <= ilen -> (Z.to_nat (ilen - l_pos l) < fuel)%nat ->
  okp (skip_space_loop inp ilen fuel l) (scan_post l).
Proof.
  induction fuel as [|f IH]; intros l Hp Hf; [lia|]. cbn [skip_space_loop].
  eapply okp_bind; [apply next_spec; lia|]. intros [r l1] H. cbn in H.
  destruct (gen_isSpaceEOL r) eqn:E.
  - apply isSpaceEOL_nonneg in E. eapply okp_weaken; [apply IH; fin|].
    intros l2 H2. unfold scan_post in *. fin.
  - cbn. unfold scan_post. fin.
Qed.

(* after skipSpace: everything up to pos is ignored *)
Definition skip_post (l l' : lx) : Prop :=
  l_start l' = l_pos l' /\ l_dd l' = l_dd l /\ l_last l' = l_last l /\ l_out l' = l_out l /\
  l_pos l <= l_pos l' <= ilen /\ 0 <= l_width l' /\
  l_ticks l <= l_ticks l' /\ l_ticks l' - l_ticks l <= l_pos l' - l_pos l + 1.

Lemma skip_space_spec l : 0 <= l_pos l <= ilen -> okp (skip_space inp ilen l) (skip_post l).
Proof.
  intros Hp. unfold skip_space. eapply okp_bind; [apply skip_space_loop_spec; [lia|unfold loop_fuel; lia]|].
  intros l1 H. unfold scan_post in H. cbn. unfold skip_post. lsimpl. fin.
Qed.

Lemma emit_to_spec t st l : 0 <= l_start l <= l_pos l -> l_pos l <= ilen ->
  items_ok lim false (l_out l) -> Z.of_nat (val_min t) <= l_pos l - l_start l ->
  okp (emit_to inp ilen base t st l) (fun p => fst p = st /\ emit_post t l (snd p)).
Proof.
  intros H1 H2 H3 H4. unfold emit_to. eapply okp_bind; [apply emit_spec; assumption|]. intros l1 H. cbn. split; [reflexivity|exact H].
Qed.

Lemma loop_fuel_ok l : 0 <= l_pos l <= ilen -> (Z.to_nat (ilen - l_pos l) < loop_fuel ilen l)%nat.
Proof. unfold loop_fuel. lia. Qed.

End Prim.

Section PrimAlnum.
Variable uni_letter uni_digit : Z -> bool.
Hypothesis letter_eof : uni_letter (-1) = false.
Hypothesis digit_eof : uni_digit (-1) = false.
Variable inp : bstr.
Notation ilen := (Z.of_nat (length inp)).

Lemma is_alnum_nonneg r : r = eof \/ 0 <= r -> is_alnum uni_letter uni_digit r = true -> 0 <= r.
Proof.
  intros [->|H] Ha; [|exact H]. unfold is_alnum, gen_isAlphaNumeric, eof in Ha.
  rewrite letter_eof, digit_eof in Ha. cbn in Ha. discriminate.
Qed.

Lemma alnum_loop_spec fuel : forall l, 0 <= l_pos l <= ilen -> (Z.to_nat (ilen - l_pos l) < fuel)%nat ->
  okp (alnum_loop uni_letter uni_digit inp ilen fuel l) (scan_post inp l).
Proof.
  induction fuel as [|f IH]; intros l Hp Hf; [lia|]. cbn [alnum_loop].
  eapply okp_bind; [apply (next_spec inp); lia|]. intros [r l1] H. cbn in H.
  destruct (is_alnum uni_letter uni_digit r) eqn:E.
  - apply is_alnum_nonneg in E; [|fin]. eapply okp_weaken; [apply IH; fin|].
    intros l2 H2. unfold scan_post in *. fin.
  - cbn. unfold scan_post. fin.
Qed.

End PrimAlnum.
