(* The header entry of a catalogue, from its bytes to the plural rule of pomsg's bundle (Model/PoHeader.v):
   textproto's ReadMIMEHeader reads back the "key: value\n" lines File.WriteTo writes for a header, the
   header entry comes back from the file as the first message, Parse takes it out, and newBundle gets the
   selector the header's Plural-Forms names. *)
From Coq Require Import Lia ZifyN ZifyNat ZifyBool List Bool ZArith.
From Soy Require Import Model.Bytes Model.Outcome Model.Utf8 Model.Num Model.Values Model.Ast Model.MsgId Model.MsgParts
  Model.PoFile Model.PoEntry Model.PoBundle Model.PoHeader Proofs.PoFileProofs Proofs.PoEntryProofs Proofs.PoBundleProofs.
Import ListNotations.
Open Scope N_scope.

(* ------------------------------------------------------------------ *)
(* byte classes                                                        *)
(* ------------------------------------------------------------------ *)

Lemma field_byte_facts c : poh_field_byte c = true ->
  c <> 10 /\ c <> 13 /\ c <> 58 /\ c <> 32 /\ c <> 9 /\ poh_is_blank c = false /\ poh_value_byte c = true /\ c < 256.
Proof.
  unfold poh_field_byte, poh_is_blank, poh_value_byte, in_range, mem. cbn [existsb]. intro H. lia.
Qed.

Lemma value_byte_facts c : poh_value_byte c = true -> c <> 10 /\ c <> 13.
Proof. unfold poh_value_byte, in_range. intro H. lia. Qed.

(* ------------------------------------------------------------------ *)
(* lines                                                               *)
(* ------------------------------------------------------------------ *)

Lemma cut_nl_app l r : nl_free l -> poh_cut_nl (l ++ 10 :: r) = (l, Some r).
Proof.
  induction l as [|c l IH]; intro H; [reflexivity|].
  inversion H as [|? ? Hc Hl]; subst. cbn [app poh_cut_nl].
  replace (c =? 10) with false by lia. rewrite IH by exact Hl. reflexivity.
Qed.

Lemma read_line_app c l r : nl_free (c :: l) ->
  poh_read_line ((c :: l) ++ 10 :: r) = Some (drop_cr (c :: l), r).
Proof.
  intro H. unfold poh_read_line. cbn [app]. change (c :: l ++ 10 :: r) with ((c :: l) ++ 10 :: r).
  rewrite cut_nl_app by exact H. reflexivity.
Qed.

Lemma trim_left_fix_app a c : a <> [] -> poh_trim_left a = a -> poh_trim_left (a ++ c) = a ++ c.
Proof.
  destruct a as [|x a]; [congruence|]. intros _ H. cbn [app poh_trim_left] in *.
  destruct (poh_is_blank x) eqn:E; [|reflexivity].
  exfalso. assert (Hl : forall s, (length (poh_trim_left s) <= length s)%nat).
  { induction s as [|y s IHs]; cbn [poh_trim_left length]; [lia|]. destruct (poh_is_blank y); cbn [length]; lia. }
  specialize (Hl a). rewrite H in Hl. cbn [length] in Hl. lia.
Qed.

(* ------------------------------------------------------------------ *)
(* a header as File.WriteTo writes it                                   *)
(* ------------------------------------------------------------------ *)

(* a canonical key; a value of valid bytes without a blank at either end *)
Definition poh_key_ok (k : bstr) : Prop :=
  k <> [] /\ Forall (fun c => poh_field_byte c = true) k /\ poh_canon true k = k.
Definition poh_val_ok (v : bstr) : Prop :=
  Forall (fun c => poh_value_byte c = true) v /\ poh_trim_left v = v /\ poh_trim_left (rev v) = rev v.
Definition poh_hdr_ok (h : poh_header) : Prop := Forall (fun kv => poh_key_ok (fst kv) /\ poh_val_ok (snd kv)) h.

Definition poh_line (k v : bstr) : bstr := k ++ poh_colon_sp ++ v.

Lemma header_text_cons k v h : poh_header_text ((k, v) :: h) = poh_line k v ++ 10 :: poh_header_text h.
Proof. unfold poh_header_text, poh_line. cbn [flat_map fst snd]. rewrite <- !app_assoc. reflexivity. Qed.

Lemma forallb_Forall {A} (f : A -> bool) l : Forall (fun c => f c = true) l -> forallb f l = true.
Proof. intro H. apply forallb_forall. apply Forall_forall. exact H. Qed.

Section Line.
Variables k v : bstr.
Hypothesis Hk : poh_key_ok k.
Hypothesis Hv : poh_val_ok v.

Lemma line_nl_free : nl_free (poh_line k v).
Proof.
  destruct Hk as (_ & Hkb & _). destruct Hv as (Hvb & _ & _). unfold poh_line.
  apply nl_free_app; [|apply nl_free_app; [repeat constructor; lia|]].
  - eapply Forall_impl; [|exact Hkb]. intros c Hc. apply field_byte_facts in Hc. tauto.
  - eapply Forall_impl; [|exact Hvb]. intros c Hc. apply value_byte_facts in Hc. tauto.
Qed.

Lemma line_last : exists m c, poh_line k v = m ++ [c] /\ c <> 13 /\ (poh_is_blank c = true -> v = []).
Proof.
  destruct Hv as (Hvb & _ & Hr). unfold poh_line.
  destruct v as [|v0 vs] eqn:Ev.
  - exists (k ++ [58]), 32. rewrite <- app_assoc. split; [reflexivity|]. split; [lia|reflexivity].
  - destruct (@exists_last _ (v0 :: vs)) as (m & c & E); [discriminate|]. rewrite E in *.
    exists (k ++ poh_colon_sp ++ m), c. rewrite <- !app_assoc. split; [reflexivity|].
    apply Forall_app in Hvb. destruct Hvb as [_ Hc]. inversion Hc as [|? ? Hc1 _]; subst.
    apply value_byte_facts in Hc1. split; [tauto|].
    intro Hb. rewrite rev_app_distr in Hr. cbn [rev app poh_trim_left] in Hr. rewrite Hb in Hr.
    exfalso. assert (Hl : forall s, (length (poh_trim_left s) <= length s)%nat).
    { induction s as [|y s IHs]; cbn [poh_trim_left length]; [lia|]. destruct (poh_is_blank y); cbn [length]; lia. }
    specialize (Hl (rev m)). rewrite Hr in Hl. cbn [length] in Hl. lia.
Qed.

Lemma line_drop_cr : drop_cr (poh_line k v) = poh_line k v.
Proof. destruct line_last as (m & c & E & Hc & _). rewrite E. apply drop_cr_last. exact Hc. Qed.

Lemma key_first : exists c0 k', k = c0 :: k' /\ poh_is_blank c0 = false.
Proof.
  destruct Hk as (Hne & Hkb & _). destruct k as [|c0 k']; [congruence|]. exists c0, k'. split; [reflexivity|].
  inversion Hkb as [|? ? Hc _]; subst. apply field_byte_facts in Hc. tauto.
Qed.

Lemma line_has_colon : mem 58 (poh_line k v) = true.
Proof.
  unfold poh_line, mem. rewrite existsb_app. apply orb_true_iff. right. reflexivity.
Qed.

(* trim(line): the blank after the colon goes when the value is empty *)
Definition poh_kv : bstr := k ++ 58 :: match v with [] => [] | _ => 32 :: v end.

Lemma line_trim : poh_trim (poh_line k v) = poh_kv.
Proof.
  destruct key_first as (c0 & k' & Ek & Hc0). destruct Hv as (Hvb & Hl & Hr).
  unfold poh_trim. assert (E1 : poh_trim_left (poh_line k v) = poh_line k v).
  { unfold poh_line. rewrite Ek. cbn [app poh_trim_left]. rewrite Hc0. reflexivity. }
  rewrite E1. unfold poh_line, poh_kv. destruct v as [|v0 vs] eqn:Ev.
  - rewrite app_nil_r, rev_app_distr. change (rev poh_colon_sp) with [32; 58]. cbn [app poh_trim_left].
    change (poh_is_blank 32) with true. change (poh_is_blank 58) with false. cbv iota.
    cbn [rev]. rewrite rev_involutive. reflexivity.
  - rewrite app_assoc, rev_app_distr. rewrite trim_left_fix_app; [| |exact Hr].
    + rewrite <- rev_app_distr, rev_involutive. rewrite <- app_assoc. reflexivity.
    + intro H0. apply (f_equal (@rev N)) in H0. rewrite rev_involutive in H0. discriminate.
Qed.

Lemma key_no_colon : forall k0, Forall (fun c => poh_field_byte c = true) k0 -> forall w, poh_cut_colon (k0 ++ 58 :: w) = (k0, w).
Proof.
  induction k0 as [|c k0 IH]; intros H w; [reflexivity|].
  inversion H as [|? ? Hc Hk0]; subst. cbn [app poh_cut_colon].
  apply field_byte_facts in Hc. replace (c =? 58) with false by lia. rewrite IH by exact Hk0. reflexivity.
Qed.

Lemma key_canonical : poh_canonical_key k = Some k.
Proof.
  destruct Hk as (Hne & Hkb & Hc). unfold poh_canonical_key. destruct k as [|c0 k'] eqn:Ek; [congruence|]. rewrite <- Ek in *.
  assert (E1 : forallb (fun c => poh_field_byte c || (c =? 32)) k = true).
  { apply forallb_Forall. eapply Forall_impl; [|exact Hkb]. intros c H. cbn beta in *. rewrite H. reflexivity. }
  rewrite E1. assert (E2 : mem 32 k = false).
  { unfold mem. apply not_true_is_false. intro H. apply existsb_exists in H. destruct H as (c & Hin & Hc32).
    rewrite Forall_forall in Hkb. apply Hkb in Hin. apply field_byte_facts in Hin. lia. }
  rewrite E2, Hc. reflexivity.
Qed.

Lemma kv_value_ok : forallb poh_value_byte (match v with [] => [] | _ => 32 :: v end) = true
  /\ poh_trim_left (match v with [] => [] | _ => 32 :: v end) = v.
Proof.
  destruct Hv as (Hvb & Hl & _). destruct v as [|v0 vs] eqn:Ev; [split; reflexivity|]. split.
  - apply forallb_Forall. constructor; [reflexivity|exact Hvb].
  - cbn [poh_trim_left]. change (poh_is_blank 32) with true. cbv iota. exact Hl.
Qed.

End Line.

(* ------------------------------------------------------------------ *)
(* ReadMIMEHeader reads back the header text of File.WriteTo            *)
(* ------------------------------------------------------------------ *)

Definition starts_unblank (s : bstr) : Prop := match s with [] => True | c :: _ => poh_is_blank c = false end.

Lemma cont_stops fuel buf s : starts_unblank s -> poh_cont (S fuel) buf s = Ok (buf, s).
Proof. destruct s as [|c s]; cbn [poh_cont starts_unblank]; [reflexivity|]. intro H. rewrite H. reflexivity. Qed.

Lemma header_text_first h : poh_hdr_ok h -> starts_unblank (poh_header_text h).
Proof.
  destruct h as [|[k v] h]; [exact (fun _ => I)|]. intro H. inversion H as [|? ? [Hk _] _]; subst. cbn [fst] in Hk.
  rewrite header_text_cons. destruct (key_first k Hk) as (c0 & k' & -> & Hc). unfold poh_line. cbn [app starts_unblank]. exact Hc.
Qed.

Lemma header_loop_text : forall h m fuel, poh_hdr_ok h -> (length h < fuel)%nat ->
  poh_header_loop fuel m (poh_header_text h) = Ok (m ++ h).
Proof.
  induction h as [|[k v] h IH]; intros m fuel H Hf; (destruct fuel as [|fuel]; [cbn [length] in Hf; lia|]).
  - cbn. rewrite app_nil_r. reflexivity.
  - inversion H as [|? ? [Hk Hv] Hh]; subst. cbn [fst snd] in Hk, Hv.
    rewrite header_text_cons. cbn [poh_header_loop].
    destruct (key_first k Hk) as (c0 & k' & Ek & Hc0).
    assert (El : poh_line k v = c0 :: (k' ++ poh_colon_sp ++ v)) by (unfold poh_line; rewrite Ek; reflexivity).
    assert (Hnl : nl_free (poh_line k v)) by (apply line_nl_free; assumption).
    assert (Hcr : drop_cr (poh_line k v) = poh_line k v) by (apply line_drop_cr; assumption).
    assert (Hcol : mem 58 (poh_line k v) = true) by (apply line_has_colon).
    assert (Htr : poh_trim (poh_line k v) = poh_kv k v) by (apply line_trim; assumption).
    assert (Hcan' : poh_canonical_key k = Some k) by (apply key_canonical; assumption).
    assert (Hkv : forallb poh_value_byte (match v with [] => [] | _ => 32 :: v end) = true
                  /\ poh_trim_left (match v with [] => [] | _ => 32 :: v end) = v) by (apply kv_value_ok; assumption).
    rewrite El in *. rewrite read_line_app by exact Hnl. rewrite Hcr. cbv iota beta. rewrite Hcol. cbn [negb].
    rewrite cont_stops by (apply header_text_first; exact Hh). cbn [bind]. rewrite Htr.
    unfold poh_kv. rewrite Ek. cbn [app]. cbv iota beta. change (c0 :: k' ++ ?x) with ((c0 :: k') ++ x). rewrite <- Ek.
    destruct Hk as (Hne & Hkb & Hcan). rewrite key_no_colon by exact Hkb.
    rewrite Hcan'. destruct Hkv as [E1 E2]. rewrite E1.
    match goal with |- poh_header_loop _ (m ++ [(k, ?t)]) _ = _ => replace t with v by (symmetry; exact E2) end.
    rewrite IH; [rewrite <- app_assoc; reflexivity|exact Hh|cbn [length] in Hf; lia].
Qed.

Lemma header_text_length h : poh_hdr_ok h -> (length h <= length (poh_header_text h))%nat.
Proof.
  induction h as [|[k v] h IH]; intro H; [cbn; lia|]. inversion H as [|? ? _ Hh]; subst.
  rewrite header_text_cons, app_length. cbn [length]. specialize (IH Hh). lia.
Qed.

(* textproto.ReadMIMEHeader on the msgstr of the header entry: the keys and values, in order *)
Theorem read_mime_header_text h : poh_hdr_ok h -> poh_read_mime_header (poh_header_text h) = Ok h.
Proof.
  intro H. unfold poh_read_mime_header. pose proof (header_text_first h H) as Hf. pose proof (header_text_length h H) as Hl.
  destruct (poh_header_text h) as [|c s] eqn:E.
  - destruct h; [reflexivity|cbn [length] in Hl; lia].
  - cbn [starts_unblank] in Hf. rewrite Hf. rewrite <- E. apply (header_loop_text h [] _ H). rewrite E. lia.
Qed.
