(* The header entry of a catalogue, from its bytes to the plural rule of pomsg's bundle (Model/PoHeader.v):
   textproto's ReadMIMEHeader reads back the "key: value\n" lines File.WriteTo writes for a header, the
   header entry comes back from the file as the first message, Parse takes it out, and newBundle gets the
   selector the header's Plural-Forms names. *)
From Coq Require Import Lia ZifyN ZifyNat ZifyBool List Bool ZArith.
From Soy Require Import Model.Bytes Model.Outcome Model.Utf8 Model.Num Model.Values Model.Ast Model.MsgId Model.MsgParts
  Model.PoFile Model.PoEntry Model.PoBundle Model.PoHeader Proofs.PoFileProofs Proofs.PoEntryProofs Proofs.PoBundleProofs.
Import ListNotations.
Open Scope N_scope.

(* ------------------------------------------------------------------ *)
(* byte classes                                                        *)
(* ------------------------------------------------------------------ *)

Lemma field_byte_facts c : poh_field_byte c = true ->
  c <> 10 /\ c <> 13 /\ c <> 58 /\ c <> 32 /\ c <> 9 /\ poh_is_blank c = false /\ poh_value_byte c = true /\ c < 256.
Proof.
  unfold poh_field_byte, poh_is_blank, poh_value_byte, in_range, mem. cbn [existsb]. intro H. lia.
Qed.

Lemma value_byte_facts c : poh_value_byte c = true -> c <> 10 /\ c <> 13.
Proof. unfold poh_value_byte, in_range. intro H. lia. Qed.

(* ------------------------------------------------------------------ *)
(* lines                                                               *)
(* ------------------------------------------------------------------ *)

Lemma cut_nl_app l r : nl_free l -> poh_cut_nl (l ++ 10 :: r) = (l, Some r).
Proof.
  induction l as [|c l IH]; intro H; [reflexivity|].
  inversion H as [|? ? Hc Hl]; subst. cbn [app poh_cut_nl].
  replace (c =? 10) with false by lia. rewrite IH by exact Hl. reflexivity.
Qed.

Lemma read_line_app c l r : nl_free (c :: l) ->
  poh_read_line ((c :: l) ++ 10 :: r) = Some (drop_cr (c :: l), r).
Proof.
  intro H. unfold poh_read_line. cbn [app]. change (c :: l ++ 10 :: r) with ((c :: l) ++ 10 :: r).
  rewrite cut_nl_app by exact H. reflexivity.
Qed.

Lemma trim_left_fix_app a c : a <> [] -> poh_trim_left a = a -> poh_trim_left (a ++ c) = a ++ c.
Proof.
  destruct a as [|x a]; [congruence|]. intros _ H. cbn [app poh_trim_left] in *.
  destruct (poh_is_blank x) eqn:E; [|reflexivity].
  exfalso. assert (Hl : forall s, (length (poh_trim_left s) <= length s)%nat).
  { induction s as [|y s IHs]; cbn [poh_trim_left length]; [lia|]. destruct (poh_is_blank y); cbn [length]; lia. }
  specialize (Hl a). rewrite H in Hl. cbn [length] in Hl. lia.
Qed.

(* ------------------------------------------------------------------ *)
(* a header as File.WriteTo writes it                                   *)
(* ------------------------------------------------------------------ *)

(* a canonical key; a value of valid bytes without a blank at either end *)
Definition poh_key_ok (k : bstr) : Prop :=
  k <> [] /\ Forall (fun c => poh_field_byte c = true) k /\ poh_canon true k = k.
Definition poh_val_ok (v : bstr) : Prop :=
  (Forall (fun c => poh_value_byte c = true) v /\ poh_trim_left v = v /\ poh_trim_left (rev v) = rev v) /\ bytes v.
Definition poh_hdr_ok (h : poh_header) : Prop := Forall (fun kv => poh_key_ok (fst kv) /\ poh_val_ok (snd kv)) h.

Definition poh_line (k v : bstr) : bstr := k ++ poh_colon_sp ++ v.

Lemma header_text_cons k v h : poh_header_text ((k, v) :: h) = poh_line k v ++ 10 :: poh_header_text h.
Proof. unfold poh_header_text, poh_line. cbn [flat_map fst snd]. rewrite <- !app_assoc. reflexivity. Qed.

Lemma forallb_Forall {A} (f : A -> bool) l : Forall (fun c => f c = true) l -> forallb f l = true.
Proof. intro H. apply forallb_forall. apply Forall_forall. exact H. Qed.

Section Line.
Variables k v : bstr.
Hypothesis Hk : poh_key_ok k.
Hypothesis Hv : poh_val_ok v.

Lemma line_nl_free : nl_free (poh_line k v).
Proof.
  destruct Hk as (_ & Hkb & _). destruct Hv as ((Hvb & _ & _) & _). unfold poh_line.
  apply nl_free_app; [|apply nl_free_app; [repeat constructor; lia|]].
  - eapply Forall_impl; [|exact Hkb]. intros c Hc. apply field_byte_facts in Hc. tauto.
  - eapply Forall_impl; [|exact Hvb]. intros c Hc. apply value_byte_facts in Hc. tauto.
Qed.

Lemma line_last : exists m c, poh_line k v = m ++ [c] /\ c <> 13 /\ (poh_is_blank c = true -> v = []).
Proof.
  destruct Hv as ((Hvb & _ & Hr) & _). unfold poh_line.
  destruct v as [|v0 vs] eqn:Ev.
  - exists (k ++ [58]), 32. rewrite <- app_assoc. split; [reflexivity|]. split; [lia|reflexivity].
  - destruct (@exists_last _ (v0 :: vs)) as (m & c & E); [discriminate|]. rewrite E in *.
    exists (k ++ poh_colon_sp ++ m), c. rewrite <- !app_assoc. split; [reflexivity|].
    apply Forall_app in Hvb. destruct Hvb as [_ Hc]. inversion Hc as [|? ? Hc1 _]; subst.
    apply value_byte_facts in Hc1. split; [tauto|].
    intro Hb. rewrite rev_app_distr in Hr. cbn [rev app poh_trim_left] in Hr. rewrite Hb in Hr.
    exfalso. assert (Hl : forall s, (length (poh_trim_left s) <= length s)%nat).
    { induction s as [|y s IHs]; cbn [poh_trim_left length]; [lia|]. destruct (poh_is_blank y); cbn [length]; lia. }
    specialize (Hl (rev m)). rewrite Hr in Hl. cbn [length] in Hl. lia.
Qed.

Lemma line_drop_cr : drop_cr (poh_line k v) = poh_line k v.
Proof. destruct line_last as (m & c & E & Hc & _). rewrite E. apply drop_cr_last. exact Hc. Qed.

Lemma key_first : exists c0 k', k = c0 :: k' /\ poh_is_blank c0 = false.
Proof.
  destruct Hk as (Hne & Hkb & _). destruct k as [|c0 k']; [congruence|]. exists c0, k'. split; [reflexivity|].
  inversion Hkb as [|? ? Hc _]; subst. apply field_byte_facts in Hc. tauto.
Qed.

Lemma line_has_colon : mem 58 (poh_line k v) = true.
Proof.
  unfold poh_line, mem. rewrite existsb_app. apply orb_true_iff. right. reflexivity.
Qed.

(* trim(line): the blank after the colon goes when the value is empty *)
Definition poh_kv : bstr := k ++ 58 :: match v with [] => [] | _ => 32 :: v end.

Lemma line_trim : poh_trim (poh_line k v) = poh_kv.
Proof.
  destruct key_first as (c0 & k' & Ek & Hc0). destruct Hv as ((Hvb & Hl & Hr) & _).
  unfold poh_trim. assert (E1 : poh_trim_left (poh_line k v) = poh_line k v).
  { unfold poh_line. rewrite Ek. cbn [app poh_trim_left]. rewrite Hc0. reflexivity. }
  rewrite E1. unfold poh_line, poh_kv. destruct v as [|v0 vs] eqn:Ev.
  - rewrite app_nil_r, rev_app_distr. change (rev poh_colon_sp) with [32; 58]. cbn [app poh_trim_left].
    change (poh_is_blank 32) with true. change (poh_is_blank 58) with false. cbv iota.
    cbn [rev]. rewrite rev_involutive. reflexivity.
  - rewrite app_assoc, rev_app_distr. rewrite trim_left_fix_app; [| |exact Hr].
    + rewrite <- rev_app_distr, rev_involutive. rewrite <- app_assoc. reflexivity.
    + intro H0. apply (f_equal (@rev N)) in H0. rewrite rev_involutive in H0. discriminate.
Qed.

Lemma key_no_colon : forall k0, Forall (fun c => poh_field_byte c = true) k0 -> forall w, poh_cut_colon (k0 ++ 58 :: w) = (k0, w).
Proof.
  induction k0 as [|c k0 IH]; intros H w; [reflexivity|].
  inversion H as [|? ? Hc Hk0]; subst. cbn [app poh_cut_colon].
  apply field_byte_facts in Hc. replace (c =? 58) with false by lia. rewrite IH by exact Hk0. reflexivity.
Qed.

Lemma key_canonical : poh_canonical_key k = Some k.
Proof.
  destruct Hk as (Hne & Hkb & Hc). unfold poh_canonical_key. destruct k as [|c0 k'] eqn:Ek; [congruence|]. rewrite <- Ek in *.
  assert (E1 : forallb (fun c => poh_field_byte c || (c =? 32)) k = true).
  { apply forallb_Forall. eapply Forall_impl; [|exact Hkb]. intros c H. cbn beta in *. rewrite H. reflexivity. }
  rewrite E1. assert (E2 : mem 32 k = false).
  { unfold mem. apply not_true_is_false. intro H. apply existsb_exists in H. destruct H as (c & Hin & Hc32).
    rewrite Forall_forall in Hkb. apply Hkb in Hin. apply field_byte_facts in Hin. lia. }
  rewrite E2, Hc. reflexivity.
Qed.

Lemma kv_value_ok : forallb poh_value_byte (match v with [] => [] | _ => 32 :: v end) = true
  /\ poh_trim_left (match v with [] => [] | _ => 32 :: v end) = v.
Proof.
  destruct Hv as ((Hvb & Hl & _) & _). destruct v as [|v0 vs] eqn:Ev; [split; reflexivity|]. split.
  - apply forallb_Forall. constructor; [reflexivity|exact Hvb].
  - cbn [poh_trim_left]. change (poh_is_blank 32) with true. cbv iota. exact Hl.
Qed.

End Line.

(* ------------------------------------------------------------------ *)
(* ReadMIMEHeader reads back the header text of File.WriteTo            *)
(* ------------------------------------------------------------------ *)

Definition starts_unblank (s : bstr) : Prop := match s with [] => True | c :: _ => poh_is_blank c = false end.

Lemma cont_stops fuel buf s : starts_unblank s -> poh_cont (S fuel) buf s = Ok (buf, s).
Proof. destruct s as [|c s]; cbn [poh_cont starts_unblank]; [reflexivity|]. intro H. rewrite H. reflexivity. Qed.

Lemma header_text_first h : poh_hdr_ok h -> starts_unblank (poh_header_text h).
Proof.
  destruct h as [|[k v] h]; [exact (fun _ => I)|]. intro H. inversion H as [|? ? [Hk _] _]; subst. cbn [fst] in Hk.
  rewrite header_text_cons. destruct (key_first k Hk) as (c0 & k' & -> & Hc). unfold poh_line. cbn [app starts_unblank]. exact Hc.
Qed.

Lemma header_loop_text : forall h m fuel, poh_hdr_ok h -> (length h < fuel)%nat ->
  poh_header_loop fuel m (poh_header_text h) = Ok (m ++ h).
Proof.
  induction h as [|[k v] h IH]; intros m fuel H Hf; (destruct fuel as [|fuel]; [cbn [length] in Hf; lia|]).
  - cbn. rewrite app_nil_r. reflexivity.
  - inversion H as [|? ? [Hk Hv] Hh]; subst. cbn [fst snd] in Hk, Hv.
    rewrite header_text_cons. cbn [poh_header_loop].
    destruct (key_first k Hk) as (c0 & k' & Ek & Hc0).
    assert (El : poh_line k v = c0 :: (k' ++ poh_colon_sp ++ v)) by (unfold poh_line; rewrite Ek; reflexivity).
    assert (Hnl : nl_free (poh_line k v)) by (apply line_nl_free; assumption).
    assert (Hcr : drop_cr (poh_line k v) = poh_line k v) by (apply line_drop_cr; assumption).
    assert (Hcol : mem 58 (poh_line k v) = true) by (apply line_has_colon).
    assert (Htr : poh_trim (poh_line k v) = poh_kv k v) by (apply line_trim; assumption).
    assert (Hcan' : poh_canonical_key k = Some k) by (apply key_canonical; assumption).
    assert (Hkv : forallb poh_value_byte (match v with [] => [] | _ => 32 :: v end) = true
                  /\ poh_trim_left (match v with [] => [] | _ => 32 :: v end) = v) by (apply kv_value_ok; assumption).
    rewrite El in *. rewrite read_line_app by exact Hnl. rewrite Hcr. cbv iota beta. rewrite Hcol. cbn [negb].
    rewrite cont_stops by (apply header_text_first; exact Hh). cbn [bind]. rewrite Htr.
    unfold poh_kv. rewrite Ek. cbn [app]. cbv iota beta. change (c0 :: k' ++ ?x) with ((c0 :: k') ++ x). rewrite <- Ek.
    destruct Hk as (Hne & Hkb & Hcan). rewrite key_no_colon by exact Hkb.
    rewrite Hcan'. destruct Hkv as [E1 E2]. rewrite E1.
    match goal with |- poh_header_loop _ (m ++ [(k, ?t)]) _ = _ => replace t with v by (symmetry; exact E2) end.
    rewrite IH; [rewrite <- app_assoc; reflexivity|exact Hh|cbn [length] in Hf; lia].
Qed.

Lemma header_text_length h : poh_hdr_ok h -> (length h <= length (poh_header_text h))%nat.
Proof.
  induction h as [|[k v] h IH]; intro H; [cbn; lia|]. inversion H as [|? ? _ Hh]; subst.
  rewrite header_text_cons, app_length. cbn [length]. specialize (IH Hh). lia.
Qed.

(* textproto.ReadMIMEHeader on the msgstr of the header entry: the keys and values, in order *)
Theorem read_mime_header_text h : poh_hdr_ok h -> poh_read_mime_header (poh_header_text h) = Ok h.
Proof.
  intro H. unfold poh_read_mime_header. pose proof (header_text_first h H) as Hf. pose proof (header_text_length h H) as Hl.
  destruct (poh_header_text h) as [|c s] eqn:E.
  - destruct h; [reflexivity|cbn [length] in Hl; lia].
  - cbn [starts_unblank] in Hf. rewrite Hf. rewrite <- E. apply (header_loop_text h [] _ H). rewrite E. lia.
Qed.

(* ------------------------------------------------------------------ *)
(* the header entry in the file                                         *)
(* ------------------------------------------------------------------ *)

Lemma header_text_bytes h : poh_hdr_ok h -> bytes (poh_header_text h).
Proof.
  induction h as [|[k v] h IH]; intro H; [constructor|]. inversion H as [|? ? [Hk Hv] Hh]; subst. cbn [fst snd] in Hk, Hv.
  rewrite header_text_cons. unfold poh_line. destruct Hk as (_ & Hkb & _). destruct Hv as (_ & Hvb).
  unfold bytes in *. repeat (apply Forall_app_2).
  - eapply Forall_impl; [|exact Hkb]. intros c Hc. apply field_byte_facts in Hc. tauto.
  - repeat constructor; lia.
  - exact Hvb.
  - constructor; [lia|]. apply IH. exact Hh.
Qed.

Definition no_comment : pe_comment :=
  {| pc_translator := []; pc_extracted := []; pc_refs := []; pc_flags := [];
     pc_prev_ctxt := []; pc_prev_id := []; pc_prev_id_plural := [] |}.

(* the header entry as Parse's loop reads it *)
Definition poh_header_msg (h : poh_header) : pe_message :=
  {| pm_comment := no_comment; pm_fields := poh_header_fields h |}.

Section File.
Variable is_print : N -> bool.

(* Parse's message literal on an entry without comment lines *)
Lemma read_message_no_comment (f : po_fields) (tail : list bstr) (e : bool) :
  fields_bytes f -> blank_next tail ->
  pe_read_message (scan_of (po_write_fields is_print f ++ tail) e)
  = Ok ({| pm_comment := no_comment;
           pm_fields := {| pf_ctxt := pf_ctxt f; pf_id := pf_id f; pf_id_plural := pf_id_plural f; pf_str := norm_str f |} |},
        scan_of tail e).
Proof.
  intros Hf Ht. unfold pe_read_message.
  destruct (fields_first is_print f) as (x & more & Ef).
  assert (Hnp : forall P, (exists P', P = 35 :: P') -> sc_prefix P (scan_of (po_write_fields is_print f ++ tail) e) = false).
  { intros P (P' & ->). rewrite Ef. reflexivity. }
  cbn [pe_r_mul]. rewrite (Hnp pe_r_translator) by (eexists; reflexivity). cbn [bind].
  rewrite (Hnp pe_r_extracted) by (eexists; reflexivity). cbn [bind].
  unfold pe_r_spc, pe_r_one.
  rewrite (Hnp pe_r_reference) by (eexists; reflexivity).
  rewrite (Hnp pe_r_flag) by (eexists; reflexivity).
  rewrite (Hnp pe_r_prev_ctxt) by (eexists; reflexivity).
  rewrite (Hnp pe_r_prev_id) by (eexists; reflexivity).
  rewrite (Hnp pe_r_prev_id_plural) by (eexists; reflexivity).
  rewrite po_fields_roundtrip by assumption. reflexivity.
Qed.

Lemma write_header_fields h : h <> [] ->
  poh_write_header is_print h = po_write_fields is_print (poh_header_fields h) ++ [[]].
Proof. destruct h as [|kv h]; [congruence|]. intros _. reflexivity. Qed.

Definition poh_l_msgid_empty := Eval vm_compute in b "msgid """"".

Lemma header_fields_first h : exists more, po_write_fields is_print (poh_header_fields h) = poh_l_msgid_empty :: more.
Proof. unfold po_write_fields. cbn [poh_header_fields pf_ctxt pf_id pf_id_plural pf_str po_opt app]. eexists. reflexivity. Qed.

(* the lines of the file File.WriteTo writes for a header and the extractor's entries *)
Lemma header_file_lines h es : h <> [] -> Forall xentry_ok es ->
  scan_lines [] (poh_write_file is_print h (map xentry_msg es))
  = po_write_fields is_print (poh_header_fields h) ++ [] :: flat_map (fun t => xentry_lines is_print t ++ [[]]) es.
Proof.
  intros Hne Hes. unfold poh_write_file. rewrite write_header_fields by exact Hne.
  rewrite <- app_assoc, join_lines_app. cbn [app]. change (join_lines ([] :: ?x)) with (10 :: join_lines x).
  pose proof (fields_lines_ok is_print (poh_header_fields h)) as Hok.
  rewrite scan_lines_join_app by (eapply Forall_impl; [|exact Hok]; intros l [Hl _]; exact Hl).
  rewrite map_drop_cr_ok by exact Hok.
  change (10 :: join_lines ?x) with (join_lines [[]] ++ join_lines x).
  rewrite scan_lines_join_app by (repeat constructor).
  pose proof (file_lines is_print es Hes) as Hfl. unfold pe_write_file in Hfl. rewrite Hfl. reflexivity.
Qed.

(* po.Parse's loop on that file: the header entry first, then every entry *)
Theorem parse_header_file h es : h <> [] -> poh_hdr_ok h -> Forall xentry_ok es ->
  pe_parse (poh_write_file is_print h (map xentry_msg es)) = Ok (poh_header_msg h :: map xentry_read es).
Proof.
  intros Hne Hh Hes. unfold pe_parse. rewrite header_file_lines by assumption.
  set (R := flat_map (fun t => xentry_lines is_print t ++ [[]]) es).
  destruct (header_fields_first h) as (more & Ef).
  assert (Hfb : fields_bytes (poh_header_fields h)).
  { unfold fields_bytes. cbn [poh_header_fields pf_ctxt pf_id pf_id_plural pf_str]. repeat split; try constructor; [|constructor].
    apply header_text_bytes. exact Hh. }
  pose proof (read_message_no_comment (poh_header_fields h) ([] :: R) false Hfb eq_refl) as Hrd.
  remember (length (po_write_fields is_print (poh_header_fields h) ++ [] :: R)) as n eqn:En.
  cbn [pe_parse_loop sc_rest].
  remember (po_write_fields is_print (poh_header_fields h) ++ [] :: R) as L eqn:EL.
  assert (EL' : L = poh_l_msgid_empty :: more ++ [] :: R) by (rewrite EL, Ef; reflexivity).
  assert (Hnm : pe_nextmsg (S (S (length L))) {| sc_cur := []; sc_rest := L; sc_err := false |} = Ok (true, scan_of L false)).
  { rewrite EL'. reflexivity. }
  rewrite Hnm. cbn [bind negb]. rewrite Hrd. cbn [bind].
  change (scan_of ([] :: R) false) with {| sc_cur := []; sc_rest := R; sc_err := false |}.
  subst R. rewrite (parse_loop_entries is_print es _ [] n Hes).
  - reflexivity.
  - subst n L. rewrite app_length. cbn [length].
    clear. induction es as [|t es IH]; [cbn; lia|]. cbn [flat_map length]. rewrite !app_length.
    destruct (xentry_lines_first is_print t) as (d & more & El). rewrite El. cbn [length] in *. lia.
Qed.

End File.

(* ------------------------------------------------------------------ *)
(* Parse's tail and newBundle's head                                    *)
(* ------------------------------------------------------------------ *)

(* what newBundle does with a selector and the locale's name *)
Definition poh_choose (sel : option N) (locale : bstr) : option N :=
  match sel with Some c => Some c | None => poh_selector_for_language locale end.

Lemma finish_header h ms : poh_hdr_ok h ->
  poh_finish (poh_header_msg h :: ms)
  = (sel <- poh_pluralize h ;; Ok {| pohf_header := h; pohf_messages := ms; pohf_pluralize := sel |}).
Proof.
  intro H. unfold poh_finish, poh_header_msg, poh_header_fields. cbn [pm_fields pf_id pf_str].
  rewrite read_mime_header_text by exact H. reflexivity.
Qed.

(* THE CATALOGUE FILE WITH ITS HEADER -> THE BUNDLE AND ITS PLURAL RULE: File.WriteTo of a header (canonical keys,
   values of valid bytes) and of the extractor's entries with any msgstr filled in, read by po.Parse (its loop,
   textproto.ReadMIMEHeader on the header entry, the Plural-Forms / Language lookup) and loaded by
   pomsg.newBundle under a locale name *)
Theorem load_header_file is_print (h : poh_header) (es : list xentry) (locale : bstr) :
  h <> [] -> poh_hdr_ok h -> Forall xentry_ok es -> Forall xentry_id64 es ->
  poh_load locale (poh_write_file is_print h (map xentry_msg es))
  = (sel <- poh_pluralize h ;;
     match poh_choose sel locale with
     | None => Err poh_e_forms
     | Some c => bd <- new_bundle (map xentry_po es) ;; Ok (bd, c)
     end).
Proof.
  intros Hne Hh Hok H64. unfold poh_load, poh_parse. rewrite parse_header_file by assumption. cbn [bind].
  rewrite finish_header by exact Hh. destruct (poh_pluralize h) as [sel| | | | | ]; cbn [bind]; try reflexivity.
  unfold poh_new_bundle, poh_choose. cbn [pohf_pluralize pohf_messages].
  rewrite bundle_loop_entries by exact H64. reflexivity.
Qed.

(* the header names a known rule: that rule, whatever the locale's name *)
Corollary load_header_plural_forms is_print h es locale c :
  h <> [] -> poh_hdr_ok h -> Forall xentry_ok es -> Forall xentry_id64 es ->
  poh_lookup_selector (poh_get poh_k_plural_forms h) = Some c ->
  poh_load locale (poh_write_file is_print h (map xentry_msg es))
  = (bd <- new_bundle (map xentry_po es) ;; Ok (bd, c)).
Proof.
  intros Hne Hh Hok H64 Hc. rewrite load_header_file by assumption. unfold poh_pluralize.
  destruct (poh_get poh_k_plural_forms h) as [|x pf] eqn:E; [discriminate Hc|]. rewrite Hc. reflexivity.
Qed.

(* the header names an unknown rule: no bundle, whatever the locale's name (po.Parse fails) *)
Corollary load_header_unknown_forms is_print h es locale :
  h <> [] -> poh_hdr_ok h -> Forall xentry_ok es -> Forall xentry_id64 es ->
  poh_get poh_k_plural_forms h <> [] -> poh_lookup_selector (poh_get poh_k_plural_forms h) = None ->
  poh_load locale (poh_write_file is_print h (map xentry_msg es)) = Err poh_e_selector.
Proof.
  intros Hne Hh Hok H64 Hpf Hc. rewrite load_header_file by assumption. unfold poh_pluralize.
  destruct (poh_get poh_k_plural_forms h) as [|x pf] eqn:E; [congruence|]. rewrite Hc. reflexivity.
Qed.

(* no Plural-Forms in the header: the rule of the header's Language, else of the locale's name, else refused *)
Corollary load_header_no_forms is_print h es locale :
  h <> [] -> poh_hdr_ok h -> Forall xentry_ok es -> Forall xentry_id64 es ->
  poh_get poh_k_plural_forms h = [] ->
  poh_load locale (poh_write_file is_print h (map xentry_msg es))
  = match poh_choose (poh_selector_for_language (poh_get poh_k_language h)) locale with
    | None => Err poh_e_forms
    | Some c => bd <- new_bundle (map xentry_po es) ;; Ok (bd, c)
    end.
Proof.
  intros Hne Hh Hok H64 Hpf. rewrite load_header_file by assumption. unfold poh_pluralize. rewrite Hpf. reflexivity.
Qed.

(* a file without header entry whose first entry has a msgid: the messages as they are, the rule of the locale's name *)
Theorem load_no_header is_print (es : list xentry) (locale : bstr) :
  Forall xentry_ok es -> Forall xentry_id64 es ->
  match es with [] => True | (_, _, _, f) :: _ => pf_id f <> [] end ->
  poh_load locale (pe_write_file is_print (map xentry_msg es))
  = match poh_selector_for_language locale with
    | None => Err poh_e_forms
    | Some c => bd <- new_bundle (map xentry_po es) ;; Ok (bd, c)
    end.
Proof.
  intros Hok H64 Hfirst. unfold poh_load, poh_parse. rewrite parse_extracted_file by exact Hok. cbn [bind].
  destruct es as [|[[[desc id] pv] f] es'].
  - cbn [map poh_finish bind]. unfold poh_new_bundle. cbn [pohf_pluralize pohf_messages].
    destruct (poh_selector_for_language locale); reflexivity.
  - pose (t := ((desc, id, pv, f) : xentry)).
    assert (Hfin : poh_finish (map xentry_read (t :: es'))
                   = Ok {| pohf_header := []; pohf_messages := map xentry_read (t :: es'); pohf_pluralize := None |}).
    { subst t. cbn [map poh_finish xentry_read pm_fields pf_id pf_str].
      destruct (pf_id f) as [|c0 i0]; [congruence|]. reflexivity. }
    change ((desc, id, pv, f) :: es') with (t :: es') in *.
    rewrite Hfin. cbn [bind]. unfold poh_new_bundle. cbn [pohf_pluralize pohf_messages].
    rewrite bundle_loop_entries by exact H64. reflexivity.
Qed.

(* ------------------------------------------------------------------ *)
(* the selectors                                                        *)
(* ------------------------------------------------------------------ *)

(* every selector stays below the number of forms its Plural-Forms declares *)
Definition poh_nplurals (code : N) : Z :=
  if code =? 0 then 1%Z else if code <=? 2 then 2%Z else if code <=? 9 then 3%Z else if code =? 10 then 4%Z else 6%Z.

Theorem select_in_range code n : (0 <= poh_select code n < poh_nplurals code)%Z.
Proof.
  unfold poh_select, poh_nplurals. cbv zeta.
  destruct (code =? 0) eqn:E0; [lia|]. destruct (code =? 1) eqn:E1; [replace (code <=? 2) with true by lia; destruct (n =? 1)%Z; lia|].
  destruct (code =? 2) eqn:E2; [replace (code <=? 2) with true by lia; destruct (1 <? n)%Z; lia|].
  replace (code <=? 2) with false by lia.
  destruct (code =? 10) eqn:E10.
  { replace (code =? 3) with false by lia. replace (code =? 4) with false by lia. replace (code =? 5) with false by lia.
    replace (code =? 6) with false by lia. replace (code =? 7) with false by lia. replace (code =? 8) with false by lia.
    replace (code =? 9) with false by lia. replace (code <=? 9) with false by lia.
    repeat match goal with |- context [if ?c then _ else _] => destruct c end; lia. }
  destruct (code <=? 9) eqn:E9.
  - repeat match goal with |- context [if ?c then _ else _] => destruct c eqn:? end; lia.
  - replace (code =? 3) with false by lia. replace (code =? 4) with false by lia. replace (code =? 5) with false by lia.
    replace (code =? 6) with false by lia. replace (code =? 7) with false by lia. replace (code =? 8) with false by lia.
    replace (code =? 9) with false by lia.
    repeat match goal with |- context [if ?c then _ else _] => destruct c end; lia.
Qed.

(* the rules Model/MsgParts.v names are these selectors *)
Lemma select_neq1 n : poh_plural_index 1 n = plural_neq1 n.
Proof. unfold poh_plural_index, poh_select, plural_neq1. cbn [N.eqb Pos.eqb]. destruct (n =? 1)%Z; reflexivity. Qed.
Lemma select_gt1 n : poh_plural_index 2 n = plural_gt1 n.
Proof. unfold poh_plural_index, poh_select, plural_gt1. cbn [N.eqb Pos.eqb]. rewrite Z.gtb_ltb. destruct (1 <? n)%Z; reflexivity. Qed.

(* Plural-Forms values as translators' tools write them: spaces do not matter *)
Example ex_lookup_ru : poh_lookup_selector (b "nplurals=3; plural=(n%10==1 && n%100!=11 ? 0 : n%10>=2 && n%10<=4 && (n%100<10 || n%100>=20) ? 1 : 2);") = Some 7.
Proof. vm_compute. reflexivity. Qed.
Example ex_lookup_spaces : poh_lookup_selector (b "nplurals=2;plural=(n!=1);") = Some 1 /\ poh_lookup_selector (b "nplurals = 2 ; plural = ( n != 1 ) ;") = Some 1.
Proof. vm_compute. split; reflexivity. Qed.
Example ex_lookup_unknown : poh_lookup_selector (b "nplurals=2; plural=n != 1;") = None /\ poh_lookup_selector [] = None.
Proof. vm_compute. split; reflexivity. Qed.
Example ex_language : poh_selector_for_language (b "pt-BR") = Some 2 /\ poh_selector_for_language (b "pt_PT") = Some 1
  /\ poh_selector_for_language (b "en_GB") = Some 1 /\ poh_selector_for_language (b "xx") = None /\ poh_selector_for_language (b "eng") = None.
Proof. vm_compute. repeat split; reflexivity. Qed.
