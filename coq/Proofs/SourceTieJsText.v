(* Source tie, family 78-gotrans-soyjs-scope, the text part: the constant strings that the visit functions of
   soyjs/exec.go write through s.js / s.jsln, in source order (tablegen's gotrans reads them from today's source), against
   the t_ constants of Model/JsGen.v that the model's walker writes at the same places.  A change of one of these strings
   in the Go code breaks the corresponding lemma; what the lemmas do not say is where between the strings the variable
   parts go (that stays with the correspondence check). *)
From Coq Require Import NArith List.
From Soy Require Import Model.Bytes Generated.Tables Model.JsGen.
Import ListNotations.
Open Scope N_scope.

Theorem js_text_visitIf_matches_source :
  [t_else; t_if_open; t_op_mid1; t_brace_nl; t_rbrace; t_nl] = src_soyjs_state_visitIf_lits.
Proof. reflexivity. Qed.
Theorem js_text_visitForRange_matches_source :
  [t_var; t_eq; t_semi; t_var; t_eq; t_semi; t_var; t_count1; t_minus; t_count2; t_count3] = src_soyjs_state_visitForRange_lits.
Proof. reflexivity. Qed.
Theorem js_text_visitForeach_matches_source :
  [t_var; t_eq; t_semi; t_var; t_eq; t_length] = src_soyjs_state_visitForeach_lits.
Proof. reflexivity. Qed.
Theorem js_text_visitLoop_matches_source :
  [t_if_open; t_gt0; t_for_open; t_eq0_semi; t_lt; t_semi_sp; t_plusplus; t_var; t_eq; t_semi; t_rbrace; t_else_block; t_rbrace]
  = src_soyjs_state_visitLoop_lits.
Proof. reflexivity. Qed.
Theorem js_text_visitNamespace_matches_source : [t_ns1; t_ns2; t_ns3] = src_soyjs_state_visitNamespace_lits.
Proof. reflexivity. Qed.
Theorem js_text_visitTemplate_matches_source :
  [[]; t_fn_params; t_optdata_init; t_var_output; t_return_output; t_fn_end] = src_soyjs_state_visitTemplate_lits.
Proof. reflexivity. Qed.
Theorem js_text_visitPrint_matches_source :
  [t_pluseq; t_lpar; t_comma; t_truncate_true; t_rpar; t_semi_nl] = src_soyjs_state_visitPrint_lits.
Proof. reflexivity. Qed.
Theorem js_text_visitCall_matches_source :
  [t_var; t_eq_empty; t_pluseq; t_lpar; t_call_tail] = src_soyjs_state_visitCall_lits.
Proof. reflexivity. Qed.
Theorem js_text_visitSwitch_matches_source :
  [t_switch_open; t_for_close; t_case; t_colon; t_default; t_break; t_rbrace] = src_soyjs_state_visitSwitch_lits.
Proof. reflexivity. Qed.
Theorem js_text_visitDataRef_matches_source :
  [t_op_open; t_nullsafe; t_op_open; t_nullsafe; t_op_open; t_nullsafe] = src_soyjs_state_visitDataRef_lits.
Proof. reflexivity. Qed.
Theorem js_text_visitFunction_matches_source :
  [t_lpar; t_eq0; t_lpar; t_eqeq; t_minus1] = src_soyjs_state_visitFunction_lits.
Proof. reflexivity. Qed.
Theorem js_text_evalMsgParts_matches_source :
  [t_plural_open; t_plural_close; t_case; t_colon; t_break; t_rbrace] = src_soyjs_state_evalMsgParts_lits.
Proof. reflexivity. Qed.
Theorem js_text_walkPlural_matches_source :
  [t_switch_open; t_for_close; t_case; t_colon; t_break; t_default; t_rbrace] = src_soyjs_state_walkPlural_lits.
Proof. reflexivity. Qed.
Theorem js_text_op_matches_source : [t_op_open; t_op_mid1; t_op_mid2; t_op_close] = src_soyjs_state_op_lits.
Proof. reflexivity. Qed.
Theorem js_text_visitSoyFile_matches_source : [t_hdr1; t_dot; t_hdr2; []] = src_soyjs_state_visitSoyFile_lits.
Proof. reflexivity. Qed.
