(* The STRUCTURAL tie of Model/Interp.v to soyhtml/exec.go (part 1: the tables).

   Generated/Tables.v holds, for every clause of the type switch of
   state.walk and for the walker's helper functions, the ordered tree of
   events the Go code performs syntactically (go/cmd/tablegen/walkevents.go:
   which children are evaluated/walked/rendered in which order, push/pop/set of
   the scope, writes to s.wr, assignments to fields of the state, errorf, with
   the loops, ifs, short-circuit operands and switches they sit in).

   This file holds the SAME table written by hand, one definition per node type,
   from the model's side: [ev_X] is what [walk_node] does on the constructor that
   models X (Proofs/WalkTieProbes.v runs [walk_body] on probe nodes whose children
   are distinguishable markers and checks the trace against an interpreter of these
   event lists), and one lemma per node type states that the generated tree and the
   hand-written one have the SAME PATHS ([same_paths]): the set of event sequences
   (calls with their canonical arguments, stores, panics) along every way through
   the tree -- each if both ways, each switch clause, a short-circuit operand
   evaluated or not, each loop 0, 1 and 2 times with break / continue / return, an
   errorf or panic ending the path -- is the same.  Names of locals, helper methods
   split off or inlined, if/else against early return, an if-chain against a switch
   do not change the paths (the generator prints canonical names: see
   walkevents.go); reordering two evaluations, dropping a pop, adding a write, an
   errorf or a call of anything that is not a pure builtin does, and breaks [tie_X];
   so does a new clause in walk ([tie_names]).

   Known differences between what the hand table says and what [walk_node] does are
   listed at the entry (search DIFF). *)
From Coq Require Import List NArith String.
From Soy Require Import Model.Bytes Generated.Tables.
Import ListNotations.
Open Scope N_scope.

Fixpoint norm_key (k : wkey) : wkey :=
  match k with
  | EkOther _ => EkOther []
  | EkCat a c => EkCat (norm_key a) (norm_key c)
  | k => k
  end.

Fixpoint norm (e : wev) : wev :=
  match e with
  | EvCall f a => EvCall f (map norm_key a)
  | EvLoop v o body => EvLoop v (norm_key o) (map norm body)
  | EvIf c t e => EvIf (map norm c) (map norm t) (map norm e)
  | EvShort r => EvShort (map norm r)
  | EvCases t cl => EvCases (map norm t) (map (fun p : bstr * list wev => let (l, body) := p in (l, map norm body)) cl)
  | EvInline f body => EvInline f (map norm body)
  | EvDefer body => EvDefer (map norm body)
  | x => x
  end.

(* ------------------------------------------------------------------ *)
(* the paths of an event tree *)

Fixpoint wkey_eqb (x y : wkey) : bool :=
  match x, y with
  | EkRef a, EkRef c => bstr_eqb a c
  | EkLit a, EkLit c => bstr_eqb a c
  | EkCat a1 a2, EkCat c1 c2 => wkey_eqb a1 c1 && wkey_eqb a2 c2
  | EkOther a, EkOther c => bstr_eqb a c
  | _, _ => false
  end.
Fixpoint list_eqb {A} (eqb : A -> A -> bool) (x y : list A) : bool :=
  match x, y with
  | [], [] => true
  | a :: x', c :: y' => eqb a c && list_eqb eqb x' y'
  | _, _ => false
  end.

(* what happens at one point of a path *)
Inductive atom := ACall (f : bstr) (args : list wkey) | AStore (lhs : bstr) | APanic | ADefer.
Definition atom_eqb (x y : atom) : bool :=
  match x, y with
  | ACall f a, ACall g c => bstr_eqb f g && list_eqb wkey_eqb a c
  | AStore a, AStore c => bstr_eqb a c
  | APanic, APanic => true
  | ADefer, ADefer => true
  | _, _ => false
  end.

(* how a path ends: running on, break, continue, return, stopped (errorf / panic) *)
Inductive pend := PN | PB | PC | PR | PX.
Definition pend_eqb (x y : pend) : bool :=
  match x, y with PN, PN | PB, PB | PC, PC | PR, PR | PX, PX => true | _, _ => false end.
Definition path := (list atom * pend)%type.
Definition path_eqb (x y : path) : bool := list_eqb atom_eqb (fst x) (fst y) && pend_eqb (snd x) (snd y).

Fixpoint dedup_paths (l : list path) : list path :=
  match l with
  | [] => []
  | x :: r => if existsb (path_eqb x) r then dedup_paths r else x :: dedup_paths r
  end.

(* [ps] followed by [rest] *)
Definition seq_paths (ps rest : list path) : list path :=
  dedup_paths (flat_map (fun p : path => match snd p with
                                         | PN => map (fun q : path => (fst p ++ fst q, snd q)) rest
                                         | _ => [p]
                                         end) ps).

(* a loop whose body has the paths [bp], run at most [n] times *)
Fixpoint loop_paths (bp : list path) (n : nat) : list path :=
  match n with
  | O => [([], PN)]
  | S n' =>
      let more := loop_paths bp n' in
      dedup_paths (([], PN) :: flat_map (fun p : path => match snd p with
                                                         | PN | PC => map (fun q : path => (fst p ++ fst q, snd q)) more
                                                         | PB => [(fst p, PN)]
                                                         | _ => [p]
                                                         end) bp)
  end.

Definition s_errorf := Eval vm_compute in b "s.errorf".
Definition l_default := Eval vm_compute in b "default".

Definition fuel_marker := Eval vm_compute in b "OUT OF FUEL".
Fixpoint paths (fuel : nat) (evs : list wev) {struct fuel} : list path :=
  match fuel with
  | O => [([AStore fuel_marker], PX)]
  | S f =>
      match evs with
      | [] => [([], PN)]
      | e :: rest =>
          let here :=
            match e with
            | EvCall fn args => [([ACall fn (map norm_key args)], if bstr_eqb fn s_errorf then PX else PN)]
            | EvAssign lhs => [([AStore lhs], PN)]
            | EvLoop _ _ body => loop_paths (paths f body) 2
            | EvIf c t e2 => seq_paths (paths f c) (dedup_paths (paths f t ++ paths f e2))
            | EvShort r => dedup_paths (([], PN) :: paths f r)
            | EvCases tag cl =>
                seq_paths (paths f tag)
                  (dedup_paths ((if existsb (fun p : bstr * list wev => bstr_eqb (fst p) l_default) cl then [] else [([], PN)])
                                ++ flat_map (fun p : bstr * list wev => let (_, body) := p in paths f body) cl))
            | EvInline _ body => map (fun p : path => match snd p with PR => (fst p, PN) | _ => p end) (paths f body)
            | EvDefer body => map (fun p : path => (ADefer :: fst p, PN)) (paths f body)
            | EvBreak => [([], PB)]
            | EvContinue => [([], PC)]
            | EvReturn => [([], PR)]
            | EvPanic => [([APanic], PX)]
            end in
          seq_paths here (paths f rest)
      end
  end.

(* the paths of an entry: a return ends it like running off its end *)
Definition entry_paths (evs : list wev) : list path :=
  dedup_paths (map (fun p : path => match snd p with PR => (fst p, PN) | _ => p end) (paths 60 evs)).
Definition subset_paths (x y : list path) : bool := forallb (fun p => existsb (path_eqb p) y) x.
Definition out_of_fuel (p : path) : bool := existsb (atom_eqb (AStore fuel_marker)) (fst p).
Definition same_paths (x y : list wev) : bool :=
  let px := entry_paths x in let py := entry_paths y in
  negb (match px with [] => true | _ => false end) && negb (existsb out_of_fuel px) && negb (existsb out_of_fuel py)
  && subset_paths px py && subset_paths py px.

(* ---- vocabulary of the hand-written tables ---- *)
Definition R (s : string) : wkey := EkRef (b s).
Definition L (s : string) : wkey := EkLit (b s).
Definition OTH : wkey := EkOther [].
Definition C (f : string) (a : list wkey) : wev := EvCall (b f) a.
Definition A (f : string) : wev := EvAssign (b f).
Definition ERR : wev := C "s.errorf" [].
Definition IFERR : wev := EvIf [] [ERR] [].          (* if <pure condition> { s.errorf(..) } *)
Definition LOOP (over : string) (body : list wev) : wev := EvLoop [] (R over) body.
Definition INL (f : string) (body : list wev) : wev := EvInline (b f) body.
Definition CASE (l : string) (body : list wev) : bstr * list wev := (b l, body).
Definition VAL : wev := A "s.val".
Definition WRITE_ERR : wev := IFERR.                  (* if _, err := <write>; err != nil { s.errorf } *)

(* ---- the walker's own pieces ---- *)

(* walk: s.val = Undefined; s.at(node); then the clause.  Model: [walk_body] = set_cur (pos_of n), then walk_node;
   s.val is the value [walk_node] returns. *)
Definition ev_walk := Eval vm_compute in [VAL; C "s.at" [R "node"]].
Definition ev_at := Eval vm_compute in [A "s.node"].
(* eval: prev = s.node; s.walk(n); s.node = prev; return s.val.  Model: [eval] (get; w e; set_cur (cur st0)). *)
Definition ev_eval := Eval vm_compute in [C "s.walk" [R "$1"]; A "s.node"; EvReturn].
Definition ev_evaldef := Eval vm_compute in [C "s.eval" [R "$1"]; IFERR; EvReturn].
(* renderBlock: the writer is swapped for a fresh buffer around the walk.  Model: [render_block]. *)
Definition ev_renderBlock := Eval vm_compute in [A "s.wr"; C "s.walk" [R "$1"]; A "s.wr"; EvReturn].
(* htmlEscapeString: per special byte, the text before it and then the entity; the rest at the end; the first
   refused write ends it.  Model: Escape.esc_writes + [write_all]. *)
Definition ev_htmlEscapeString := Eval vm_compute in
  [EvLoop [] OTH
     [EvCases [] [CASE "'""'" []; CASE "'\''" []; CASE "'&'" []; CASE "'<'" []; CASE "'>'" []; CASE "default" [EvContinue]];
      C "io.WriteString" [R "$1"; OTH]; EvIf [] [EvReturn] [];
      C "$1.Write" [R "?"]; EvIf [] [EvReturn] []];
   C "io.WriteString" [R "$1"; OTH]; EvReturn].
Definition ev_default := Eval vm_compute in [ERR].

(* ---- the entry points and the scope stack ---- *)
(* Renderer.Execute: template looked up; the namespace's autoescape mode, On when unspecified; a scope on the caller's
   data map, ENTERED (marked, and a fresh frame pushed above it); the template's node walked by a fresh state.
   Model: [render] ([find_template], [entry_mode], [sc_enter (new_scope id data)], [walk (t_node t)]). *)
Definition ev_Execute := Eval vm_compute in
  [EvIf [] [EvReturn] []; EvIf [] [EvReturn] [];
   C "s.tofu.registry.Template" [R "s.name"]; EvIf [] [EvReturn] [];
   EvIf [] [] [];
   C "newScope" [R "$2"]; C "?.enter" [];
   EvDefer [C "?.errRecover" [OTH]];
   C "?.walk" [R "?.Node"]; EvReturn].
(* EvalExpr: a bare state.  Model: [eval_expr]. *)
Definition ev_EvalExpr := Eval vm_compute in
  [EvDefer [C "?.errRecover" [OTH]]; C "?.walk" [R "$1"]; EvReturn].
(* scope.go.  Model: [new_scope], [sc_push] (a frame with a fresh map), [sc_pop], [sc_set] (on the deepest frame),
   [sc_lookup] + [bump_unbound] (deepest frame first; a miss is notified), [sc_alldata] (the frames up to the deepest
   entered one; none: panic), [sc_enter] (mark the deepest frame, then push). *)
Definition ev_newScope := Eval vm_compute in [EvReturn].
Definition ev_scope_push := Eval vm_compute in [A "*"].
Definition ev_scope_pop := Eval vm_compute in [A "*"].
Definition ev_scope_set := Eval vm_compute in [A ".vars[]"].
Definition ev_scope_lookup := Eval vm_compute in
  [LOOP "s" [EvIf [] [EvReturn] []]; C "notifyUnbound" [R "$1"]; EvReturn].
Definition ev_scope_alldata := Eval vm_compute in [LOOP "s" [EvIf [] [EvReturn] []]; EvPanic].
Definition ev_scope_enter := Eval vm_compute in [A ".entered"; INL "push" [A "*"]].

(* ---- structure ---- *)
Definition ev_SoyFileNode := Eval vm_compute in [LOOP "node.Body" [C "s.walk" [R "node.Body[]"]]].
Definition ev_TemplateNode := Eval vm_compute in [EvIf [] [A "s.autoescape"] []; C "s.walk" [R "node.Body"]].
Definition ev_HeaderParamNode : list wev := [].
Definition ev_DebuggerNode : list wev := [].
Definition ev_ListNode := Eval vm_compute in
  [C "s.context.push" []; LOOP "node.Nodes" [C "s.walk" [R "node.Nodes[]"]]; C "s.context.pop" []].

(* ---- output ---- *)
Definition ev_RawTextNode := Eval vm_compute in [C "s.wr.Write" [R "node.Text"]; WRITE_ERR].
Definition ev_MsgHtmlTagNode := Eval vm_compute in [C "s.wr.Write" [R "node.Text"]; WRITE_ERR].
Definition ev_CssNode := Eval vm_compute in
  [EvIf [] [C "s.eval" [R "node.Expr"]] [];
   C "io.WriteString" [R "s.wr"; EkCat (R "?") (R "node.Suffix")]; WRITE_ERR].
Definition ev_LogNode := Eval vm_compute in
  [C "s.renderBlock" [R "node.Body"]; EvIf [] [C "Logger.Print" [OTH]] []].
(* evalPrint: the argument is WALKED (s.node stays inside it); per directive: name and arity checked, its arguments
   evaluated, the directive applied; then one escaped or one plain write.
   [print_dirs] follows that order (each directive applied right after its own arguments: when an Apply fails the
   arguments of the later directives have not been evaluated; probe_Print_apply_order in WalkTieProbes.v). *)
Definition ev_PrintNode := Eval vm_compute in
  [INL "evalPrint"
     [C "s.walk" [R "node.Arg"]; IFERR;
      LOOP "ObligatoryPrintDirectiveNames" [];
      LOOP "?"
        [IFERR; IFERR;
         LOOP "?[].Args" [C "s.eval" [R "?[].Args[]"]; A "[]"];
         INL "func" [EvDefer [EvIf [] [ERR] []]; C "?.Apply" [R "?"; R "?"]];
         EvIf [] [] []];
      EvIf []
        [C "htmlEscapeString" [R "s.wr"; R "?.String()"]; WRITE_ERR]
        [C "io.WriteString" [R "s.wr"; R "?.String()"]; WRITE_ERR]]].

(* ---- control flow ---- *)
Definition ev_IfNode := Eval vm_compute in
  [LOOP "node.Conds"
     [EvIf [EvShort [C "s.eval" [R "node.Conds[].Cond"]]] [C "s.walk" [R "node.Conds[].Body"]; EvBreak] []]].
Definition ev_ForNode := Eval vm_compute in
  [C "s.eval" [R "node.List"]; IFERR;
   EvIf [] [EvIf [] [C "s.walk" [R "node.IfEmpty"]] []; EvReturn] [];
   C "s.context.push" [];
   C "s.context.set" [EkCat (R "node.Var") (L ".lastIndex"); OTH];
   LOOP "?"
     [C "s.context.set" [R "node.Var"; R "?[]"];
      C "s.context.set" [EkCat (R "node.Var") (L ".index"); OTH];
      C "s.walk" [R "node.Body"]];
   C "s.context.pop" []].
Definition ev_SwitchNode := Eval vm_compute in
  [C "s.eval" [R "node.Value"];
   LOOP "node.Cases"
     [LOOP "node.Cases[].Values"
        [EvIf [C "s.eval" [R "node.Cases[].Values[]"]] [C "s.walk" [R "node.Cases[].Body"]; EvReturn] []];
      EvIf [] [C "s.walk" [R "node.Cases[].Body"]; EvReturn] []]].
Definition ev_LetValueNode := Eval vm_compute in
  [C "s.eval" [R "node.Expr"]; C "s.context.set" [R "node.Name"; OTH]].
Definition ev_LetContentNode := Eval vm_compute in
  [C "s.renderBlock" [R "node.Body"]; C "s.context.set" [R "node.Name"; OTH]].
(* evalCall: the callee is looked up first; the data scope is built (all data: the caller's frames from the
   entered one + a fresh frame; data=: a new scope on the map + a fresh frame; none: a new scope on a fresh map);
   the params are evaluated / rendered in the CALLER's state and set on the callee's scope in order; s.at(node);
   enter; the callee's node is walked by a NEW state.  Model: [call_data], [call_params], set_cur, [call_enter]. *)
Definition ev_CallNode := Eval vm_compute in
  [INL "evalCall"
     [C "s.registry.Template" [R "node.Name"]; IFERR;
      EvIf [] [C "s.context.alldata" []; C "?.push" []]
        [EvIf [] [C "s.eval" [R "node.Data"]; IFERR; C "newScope" [R "?"]; C "?.push" []]
           [C "newScope" [OTH]]];
      LOOP "node.Params"
        [EvCases []
           [CASE "*ast.CallParamValueNode" [C "s.eval" [R "node.Params[].Value"]; C "?.set" [R "node.Params[].Key"; OTH]];
            CASE "*ast.CallParamContentNode" [C "s.renderBlock" [R "node.Params[].Content"]; C "?.set" [R "node.Params[].Key"; OTH]];
            CASE "default" [ERR]]];
      C "s.at" [R "node"];
      C "?.enter" [];
      EvDefer [EvIf [] [EvPanic] []];
      C "?.walk" [R "?.Node"]]].

(* evalMsg.  Without a bundle, or when the bundle has no translation: walkMsgBody (raw text walked, a
   placeholder's body walked, a plural: its value evaluated, the first case with that value, else the default).
   With a translation: evalMsgParts.
   DIFF: the model renders WITHOUT a bundle ([walk_node] on NMsg is the first branch only; [c_msgs] is not read):
   the third branch has no counterpart in Model/Interp.v (C12/C08 cover it by the harness oracle only). *)
Definition ev_walkMsgBody := Eval vm_compute in
  INL "walkMsgBody"
    [LOOP "node.Body.Children()"
       [EvCases []
          [CASE "*ast.RawTextNode" [C "s.walk" [R "node.Body.Children()[]"]];
           CASE "*ast.MsgPlaceholderNode" [C "s.walk" [R "node.Body.Children()[].Body"]];
           CASE "*ast.MsgPluralNode"
             [INL "walkPlural"
                [C "s.eval" [R "node.Body.Children()[].Value"]; IFERR;
                 LOOP "node.Body.Children()[].Cases"
                   [EvIf [] [C "s.walkMsgBody" [R "node.Body.Children()[].Cases[].Body"]; EvReturn] []];
                 C "s.walkMsgBody" [R "node.Body.Children()[].Default"]]]]]].
Definition ev_MsgNode := Eval vm_compute in
  [INL "evalMsg"
     [EvIf [] [ev_walkMsgBody; EvReturn] [];
      C "s.msgs.Message" [R "node.ID"];
      EvIf [] [ev_walkMsgBody; EvReturn] [];
      INL "evalMsgParts"
        [LOOP "?.Parts"
           [EvCases []
              [CASE "soymsg.RawTextPart" [C "io.WriteString" [R "s.wr"; R "?.Parts[].Text"]; WRITE_ERR];
               CASE "soymsg.PlaceholderPart" [IFERR; C "s.walk" [R "?.Body"]];
               CASE "soymsg.PluralPart"
                 [INL "findPluralNode" [LOOP "node.Body.Children()" [EvIf [] [EvReturn] []]; ERR; EvPanic];
                  C "s.eval" [R "?.Value"]; IFERR;
                  C "s.msgs.PluralCase" [OTH]; IFERR;
                  C "s.evalMsgParts" [R "node"; R "?.Parts[].Cases[].Parts"]]]]]]].

(* ---- values and operators ---- *)
Definition ev_value := Eval vm_compute in [VAL].     (* Null String Int Float Bool Global *)
Definition ev_ListLiteralNode := Eval vm_compute in [LOOP "node.Items" [C "s.eval" [R "node.Items[]"]; A "[]"]; VAL].
Definition ev_MapLiteralNode := Eval vm_compute in [LOOP "node.Items" [C "s.eval" [R "node.Items[]"]; A "[]"]; VAL].
Definition ev_FunctionNode := Eval vm_compute in
  [INL "evalFunc"
     [EvIf [] [C "?" [R "s"; R "node.Args[].Key"]; EvReturn] [];
      EvIf []
        [IFERR;
         LOOP "node.Args" [C "s.eval" [R "node.Args[]"]; A "[]"];
         EvDefer [EvIf [] [ERR] []];
         C "?.Apply" [R "?"];
         EvIf [] [EvReturn] []; EvReturn] [];
      ERR; EvPanic];
   VAL].
Definition ev_DataRefNode := Eval vm_compute in
  [INL "evalDataRef"
     [EvIf [] [IFERR] [C "s.context.lookup" [R "node.Key"]];
      EvIf [] [EvReturn] [];
      LOOP "node.Access"
        [EvCases []
           [CASE "*ast.DataRefIndexNode" []; CASE "*ast.DataRefKeyNode" [];
            CASE "*ast.DataRefExprNode"
              [EvCases [C "s.eval" [R "node.Access[].Arg"]] [CASE "data.Int" []; CASE "default" []]];
            CASE "default" [ERR]];
         EvCases []
           [CASE "data.Undefined, data.Null" [EvIf [] [EvReturn] []; ERR];
            CASE "data.List" [IFERR]; CASE "data.Map" [IFERR]; CASE "default" [ERR]]];
      EvReturn];
   VAL].
Definition EVAL2DEF : wev := INL "eval2def" [C "s.evaldef" [R "node.Arg1"]; C "s.evaldef" [R "node.Arg2"]; EvReturn].
Definition FLOATS : list wev := [VAL].    (* toFloat of each operand: a pure function that may panic *)
Definition ev_NegateNode := Eval vm_compute in
  [EvCases [C "s.evaldef" [R "node.Arg"]] [CASE "data.Int" [VAL]; CASE "data.Float" [VAL]; CASE "default" [ERR]]].
Definition ev_AddNode := Eval vm_compute in
  [EVAL2DEF; EvCases [] [CASE "" [VAL]; CASE "" [VAL]; CASE "default" FLOATS]].
Definition ev_SubNode := Eval vm_compute in [EVAL2DEF; EvCases [] [CASE "" [VAL]; CASE "default" FLOATS]].
Definition ev_MulNode := Eval vm_compute in [EVAL2DEF; EvCases [] [CASE "" [VAL]; CASE "default" FLOATS]].
Definition ev_DivNode := Eval vm_compute in (EVAL2DEF :: FLOATS).
Definition ev_ModNode := Eval vm_compute in [EVAL2DEF; VAL].
Definition ev_eq := Eval vm_compute in [C "s.eval" [R "node.Arg1"]; C "s.eval" [R "node.Arg2"]; VAL].   (* Eq NotEq *)
Definition ev_cmp := Eval vm_compute in                                                              (* Lt Lte Gt Gte *)
  [C "s.evaldef" [R "node.Arg1"]; C "s.evaldef" [R "node.Arg2"]; VAL].
Definition ev_NotNode := Eval vm_compute in [C "s.eval" [R "node.Arg"]; VAL].
Definition ev_andor := Eval vm_compute in [C "s.eval" [R "node.Arg1"]; EvShort [C "s.eval" [R "node.Arg2"]]; VAL].
Definition ev_ElvisNode := Eval vm_compute in
  [C "s.eval" [R "node.Arg1"]; EvIf [] [VAL] [C "s.eval" [R "node.Arg2"]; VAL]].
Definition ev_TernNode := Eval vm_compute in
  [C "s.eval" [R "node.Arg1"]; EvIf [] [C "s.eval" [R "node.Arg2"]; VAL] [C "s.eval" [R "node.Arg3"]; VAL]].

(* ------------------------------------------------------------------ *)
(* the hand-written table as a whole *)
Definition model_walk_events : list (bstr * list wev) := Eval vm_compute in [
  (b "AddNode", ev_AddNode); (b "AndNode", ev_andor); (b "BoolNode", ev_value); (b "CallNode", ev_CallNode);
  (b "CssNode", ev_CssNode); (b "DataRefNode", ev_DataRefNode); (b "DebuggerNode", ev_DebuggerNode);
  (b "DivNode", ev_DivNode); (b "ElvisNode", ev_ElvisNode); (b "EqNode", ev_eq);
  (b "EvalExpr", ev_EvalExpr); (b "Execute", ev_Execute); (b "FloatNode", ev_value);
  (b "ForNode", ev_ForNode); (b "FunctionNode", ev_FunctionNode); (b "GlobalNode", ev_value); (b "GtNode", ev_cmp);
  (b "GteNode", ev_cmp); (b "HeaderParamNode", ev_HeaderParamNode); (b "IfNode", ev_IfNode); (b "IntNode", ev_value);
  (b "LetContentNode", ev_LetContentNode); (b "LetValueNode", ev_LetValueNode);
  (b "ListLiteralNode", ev_ListLiteralNode); (b "ListNode", ev_ListNode); (b "LogNode", ev_LogNode);
  (b "LtNode", ev_cmp); (b "LteNode", ev_cmp); (b "MapLiteralNode", ev_MapLiteralNode); (b "ModNode", ev_ModNode);
  (b "MsgHtmlTagNode", ev_MsgHtmlTagNode); (b "MsgNode", ev_MsgNode); (b "MulNode", ev_MulNode);
  (b "NegateNode", ev_NegateNode); (b "NotEqNode", ev_eq); (b "NotNode", ev_NotNode); (b "NullNode", ev_value);
  (b "OrNode", ev_andor); (b "PrintNode", ev_PrintNode); (b "RawTextNode", ev_RawTextNode);
  (b "SoyFileNode", ev_SoyFileNode); (b "StringNode", ev_value); (b "SubNode", ev_SubNode);
  (b "SwitchNode", ev_SwitchNode); (b "TemplateNode", ev_TemplateNode); (b "TernNode", ev_TernNode);
  (b "at", ev_at); (b "default", ev_default); (b "eval", ev_eval); (b "evaldef", ev_evaldef);
  (b "htmlEscapeString", ev_htmlEscapeString); (b "newScope", ev_newScope); (b "renderBlock", ev_renderBlock);
  (b "scope_alldata", ev_scope_alldata); (b "scope_enter", ev_scope_enter); (b "scope_lookup", ev_scope_lookup);
  (b "scope_pop", ev_scope_pop); (b "scope_push", ev_scope_push); (b "scope_set", ev_scope_set); (b "walk", ev_walk)].

(* ------------------------------------------------------------------ *)
(* one lemma per node type: the events of exec.go are the events of the model *)
Local Ltac tie := vm_compute; reflexivity.

(* the node types where order matters *)
Lemma tie_PrintNode : same_paths src_walk_PrintNode ev_PrintNode = true. Proof. tie. Qed.
Lemma tie_IfNode : same_paths src_walk_IfNode ev_IfNode = true. Proof. tie. Qed.
Lemma tie_SwitchNode : same_paths src_walk_SwitchNode ev_SwitchNode = true. Proof. tie. Qed.
Lemma tie_ForNode : same_paths src_walk_ForNode ev_ForNode = true. Proof. tie. Qed.
Lemma tie_LetValueNode : same_paths src_walk_LetValueNode ev_LetValueNode = true. Proof. tie. Qed.
Lemma tie_LetContentNode : same_paths src_walk_LetContentNode ev_LetContentNode = true. Proof. tie. Qed.
Lemma tie_CallNode : same_paths src_walk_CallNode ev_CallNode = true. Proof. tie. Qed.
Lemma tie_MsgNode : same_paths src_walk_MsgNode ev_MsgNode = true. Proof. tie. Qed.
(* the walker's own pieces *)
Lemma tie_walk : same_paths src_walk_walk ev_walk = true. Proof. tie. Qed.
Lemma tie_at : same_paths src_walk_at ev_at = true. Proof. tie. Qed.
Lemma tie_eval : same_paths src_walk_eval ev_eval = true. Proof. tie. Qed.
Lemma tie_evaldef : same_paths src_walk_evaldef ev_evaldef = true. Proof. tie. Qed.
Lemma tie_renderBlock : same_paths src_walk_renderBlock ev_renderBlock = true. Proof. tie. Qed.
Lemma tie_htmlEscapeString : same_paths src_walk_htmlEscapeString ev_htmlEscapeString = true. Proof. tie. Qed.
Lemma tie_default : same_paths src_walk_default ev_default = true. Proof. tie. Qed.
(* the entry points and the scope stack *)
Lemma tie_Execute : same_paths src_walk_Execute ev_Execute = true. Proof. tie. Qed.
Lemma tie_EvalExpr : same_paths src_walk_EvalExpr ev_EvalExpr = true. Proof. tie. Qed.
Lemma tie_newScope : same_paths src_walk_newScope ev_newScope = true. Proof. tie. Qed.
Lemma tie_scope_push : same_paths src_walk_scope_push ev_scope_push = true. Proof. tie. Qed.
Lemma tie_scope_pop : same_paths src_walk_scope_pop ev_scope_pop = true. Proof. tie. Qed.
Lemma tie_scope_set : same_paths src_walk_scope_set ev_scope_set = true. Proof. tie. Qed.
Lemma tie_scope_lookup : same_paths src_walk_scope_lookup ev_scope_lookup = true. Proof. tie. Qed.
Lemma tie_scope_alldata : same_paths src_walk_scope_alldata ev_scope_alldata = true. Proof. tie. Qed.
Lemma tie_scope_enter : same_paths src_walk_scope_enter ev_scope_enter = true. Proof. tie. Qed.
(* structure and output *)
Lemma tie_SoyFileNode : same_paths src_walk_SoyFileNode ev_SoyFileNode = true. Proof. tie. Qed.
Lemma tie_TemplateNode : same_paths src_walk_TemplateNode ev_TemplateNode = true. Proof. tie. Qed.
Lemma tie_HeaderParamNode : same_paths src_walk_HeaderParamNode ev_HeaderParamNode = true. Proof. tie. Qed.
Lemma tie_DebuggerNode : same_paths src_walk_DebuggerNode ev_DebuggerNode = true. Proof. tie. Qed.
Lemma tie_ListNode : same_paths src_walk_ListNode ev_ListNode = true. Proof. tie. Qed.
Lemma tie_RawTextNode : same_paths src_walk_RawTextNode ev_RawTextNode = true. Proof. tie. Qed.
Lemma tie_MsgHtmlTagNode : same_paths src_walk_MsgHtmlTagNode ev_MsgHtmlTagNode = true. Proof. tie. Qed.
Lemma tie_CssNode : same_paths src_walk_CssNode ev_CssNode = true. Proof. tie. Qed.
Lemma tie_LogNode : same_paths src_walk_LogNode ev_LogNode = true. Proof. tie. Qed.
(* values and operators *)
Lemma tie_NullNode : same_paths src_walk_NullNode ev_value = true. Proof. tie. Qed.
Lemma tie_StringNode : same_paths src_walk_StringNode ev_value = true. Proof. tie. Qed.
Lemma tie_IntNode : same_paths src_walk_IntNode ev_value = true. Proof. tie. Qed.
Lemma tie_FloatNode : same_paths src_walk_FloatNode ev_value = true. Proof. tie. Qed.
Lemma tie_BoolNode : same_paths src_walk_BoolNode ev_value = true. Proof. tie. Qed.
Lemma tie_GlobalNode : same_paths src_walk_GlobalNode ev_value = true. Proof. tie. Qed.
Lemma tie_ListLiteralNode : same_paths src_walk_ListLiteralNode ev_ListLiteralNode = true. Proof. tie. Qed.
Lemma tie_MapLiteralNode : same_paths src_walk_MapLiteralNode ev_MapLiteralNode = true. Proof. tie. Qed.
Lemma tie_FunctionNode : same_paths src_walk_FunctionNode ev_FunctionNode = true. Proof. tie. Qed.
Lemma tie_DataRefNode : same_paths src_walk_DataRefNode ev_DataRefNode = true. Proof. tie. Qed.
Lemma tie_NegateNode : same_paths src_walk_NegateNode ev_NegateNode = true. Proof. tie. Qed.
Lemma tie_AddNode : same_paths src_walk_AddNode ev_AddNode = true. Proof. tie. Qed.
Lemma tie_SubNode : same_paths src_walk_SubNode ev_SubNode = true. Proof. tie. Qed.
Lemma tie_MulNode : same_paths src_walk_MulNode ev_MulNode = true. Proof. tie. Qed.
Lemma tie_DivNode : same_paths src_walk_DivNode ev_DivNode = true. Proof. tie. Qed.
Lemma tie_ModNode : same_paths src_walk_ModNode ev_ModNode = true. Proof. tie. Qed.
Lemma tie_EqNode : same_paths src_walk_EqNode ev_eq = true. Proof. tie. Qed.
Lemma tie_NotEqNode : same_paths src_walk_NotEqNode ev_eq = true. Proof. tie. Qed.
Lemma tie_LtNode : same_paths src_walk_LtNode ev_cmp = true. Proof. tie. Qed.
Lemma tie_LteNode : same_paths src_walk_LteNode ev_cmp = true. Proof. tie. Qed.
Lemma tie_GtNode : same_paths src_walk_GtNode ev_cmp = true. Proof. tie. Qed.
Lemma tie_GteNode : same_paths src_walk_GteNode ev_cmp = true. Proof. tie. Qed.
Lemma tie_NotNode : same_paths src_walk_NotNode ev_NotNode = true. Proof. tie. Qed.
Lemma tie_AndNode : same_paths src_walk_AndNode ev_andor = true. Proof. tie. Qed.
Lemma tie_OrNode : same_paths src_walk_OrNode ev_andor = true. Proof. tie. Qed.
Lemma tie_ElvisNode : same_paths src_walk_ElvisNode ev_ElvisNode = true. Proof. tie. Qed.
Lemma tie_TernNode : same_paths src_walk_TernNode ev_TernNode = true. Proof. tie. Qed.

(* the entries: no clause of walk, and no piece of the walker, is outside the lemmas above *)
Lemma tie_names : map fst src_walk_events = map fst model_walk_events.
Proof. tie. Qed.
(* and the whole table at once *)
Theorem walk_events_match_source :
  forallb (fun p : bstr * list wev => match assoc_s (fst p) model_walk_events with
                                      | Some evs => same_paths (snd p) evs
                                      | None => false
                                      end) src_walk_events = true.
Proof. tie. Qed.

(* ------------------------------------------------------------------ *)
(* What the walker stores to, and what it asks of the message bundle -- read off the extracted events.
   Every assignment of exec.go's walker whose target is not a local variable is an [EvAssign]; every call that is
   not a pure builtin is an [EvCall].  So: the walker stores only to the fields of its own state, to the
   argument / item slices it has just made and (scope.go) to the scope stack, the map of its deepest frame and that
   frame's entered flag, and the only things it does with the message bundle it was given
   (s.msgs, an interface value supplied by the caller) are the two getters Message and PluralCase: the bundle, and
   the parts of the message it returns (ranged over, never assigned to), are READ-ONLY to a render.  (C08: "never
   modifies the ... message bundle it is given".) *)
Fixpoint evs_assigns (e : wev) : list bstr :=
  match e with
  | EvAssign lhs => [lhs]
  | EvLoop _ _ body => flat_map evs_assigns body
  | EvIf c t e2 => flat_map evs_assigns c ++ flat_map evs_assigns t ++ flat_map evs_assigns e2
  | EvShort r => flat_map evs_assigns r
  | EvCases t cl => flat_map evs_assigns t ++ flat_map (fun p : bstr * list wev => let (_, body) := p in flat_map evs_assigns body) cl
  | EvInline _ body => flat_map evs_assigns body
  | EvDefer body => flat_map evs_assigns body
  | _ => []
  end.
Fixpoint evs_calls (e : wev) : list bstr :=
  match e with
  | EvCall f _ => [f]
  | EvLoop _ _ body => flat_map evs_calls body
  | EvIf c t e2 => flat_map evs_calls c ++ flat_map evs_calls t ++ flat_map evs_calls e2
  | EvShort r => flat_map evs_calls r
  | EvCases t cl => flat_map evs_calls t ++ flat_map (fun p : bstr * list wev => let (_, body) := p in flat_map evs_calls body) cl
  | EvInline _ body => flat_map evs_calls body
  | EvDefer body => flat_map evs_calls body
  | _ => []
  end.
Definition all_events : list wev := flat_map (fun p : bstr * list wev => snd p) src_walk_events.
Definition among (allowed : list bstr) (l : list bstr) : bool := forallb (fun x => existsb (bstr_eqb x) allowed) l.

Definition store_targets : list bstr := Eval vm_compute in
  map b ["s.val"; "s.node"; "s.wr"; "s.autoescape"; "[]" (* an element of a local slice or map: args, items *);
         "*"; ".vars[]"; ".entered" (* scope.go: the scope stack itself, the deepest frame's map and flag *)]%string.
Lemma walker_store_targets : among store_targets (flat_map evs_assigns all_events) = true.
Proof. tie. Qed.

Definition is_bundle_call (f : bstr) : bool := is_prefix (b "s.msgs") f.
Definition bundle_getters : list bstr := Eval vm_compute in map b ["s.msgs.Message"; "s.msgs.PluralCase"]%string.
Lemma walker_bundle_calls : among bundle_getters (filter is_bundle_call (flat_map evs_calls all_events)) = true.
Proof. tie. Qed.
(* and they are there (the filter is not vacuous) *)
Lemma walker_bundle_calls_present : among (filter is_bundle_call (flat_map evs_calls all_events)) bundle_getters = true.
Proof. tie. Qed.
