(* One progress lemma per state function of the lexer (states without a loop of their own here;
   the scanning states are in LexerLoops.v):
       inv st l -> okp (step st l) (step_post st l)
   i.e. the state function returns normally, the next state's invariant holds, and the potential
       phi st l = ticks + 40 * (remaining input) + rank st
   drops by at least one (it bounds the number of remaining steps plus the remaining work).
   This is the measure of DESIGN.md Appendix C: remaining input at state entry, then the rank of
   the state for the transitions that do not consume input. *)
From Soy Require Import Model.Bytes Model.Utf8 Model.Outcome Model.Token Generated.Tables Model.Lexer Proofs.LexerPrim.
From Coq Require Import ZifyBool ZifyNat ZifyN Lia.
Open Scope Z_scope.

Definition rank (st : lstate) : Z :=
  match st with
  | LRightDelimEnd => 27
  | LRightDelim | LLineComment => 26
  | LText => 24
  | LLeftDelim => 21
  | LBeginTag => 18
  | LInsideTag => 16
  | LDone => 0
  | _ => 12
  end.

(* the symbol characters of lexInsideTag (regenerated lists) are ASCII *)
Lemma single_syms_nonneg r : existsb (Z.eqb r) inside_tag_single_syms = true -> 0 <= r < 128.
Proof.
  intros H. apply existsb_exists in H. destruct H as (x & Hin & Hx). apply Z.eqb_eq in Hx. subst x.
  assert (Hall : forallb (fun c => (0 <=? c) && (c <? 128)) inside_tag_single_syms = true) by (vm_compute; reflexivity).
  rewrite forallb_forall in Hall. specialize (Hall _ Hin). lia.
Qed.
Lemma cmp_syms_nonneg r : existsb (Z.eqb r) inside_tag_cmp_syms = true -> 0 <= r < 128.
Proof.
  intros H. apply existsb_exists in H. destruct H as (x & Hin & Hx). apply Z.eqb_eq in Hx. subst x.
  assert (Hall : forallb (fun c => (0 <=? c) && (c <? 128)) inside_tag_cmp_syms = true) by (vm_compute; reflexivity).
  rewrite forallb_forall in Hall. specialize (Hall _ Hin). lia.
Qed.

(* the item types the tables can yield are ordinary: no minimum text length, not EOF or error *)
Lemma assoc_s_in {A} (k : bstr) (l : list (bstr * A)) v : assoc_s k l = Some v -> exists k', In (k', v) l.
Proof.
  induction l as [|[k' v'] l IH]; cbn; [discriminate|]. destruct (bstr_eqb k k').
  - intros H. injection H as <-. exists k'. left. reflexivity.
  - intros H. destruct (IH H) as (k2 & Hin). exists k2. right. exact Hin.
Qed.
Definition plain_type (t : N) : bool := Nat.eqb (val_min t) 0 && negb (is_final t).
Lemma plain_type_facts t : plain_type t = true -> val_min t = 0%nat /\ is_final t = false.
Proof. unfold plain_type. intros H. apply Bool.andb_true_iff in H. destruct H as [H1 H2]. apply Nat.eqb_eq in H1. apply Bool.negb_true_iff in H2. auto. Qed.
Lemma builtin_plain w t : assoc_s w builtin_idents = Some t -> val_min t = 0%nat /\ is_final t = false.
Proof.
  intros H. apply assoc_s_in in H. destruct H as (k & Hin). apply plain_type_facts.
  assert (Hall : forallb (fun p => plain_type (snd p)) builtin_idents = true) by (vm_compute; reflexivity).
  rewrite forallb_forall in Hall. exact (Hall _ Hin).
Qed.
Lemma arith_plain w t : assoc_s w arith_items = Some t -> val_min t = 0%nat /\ is_final t = false.
Proof.
  intros H. apply assoc_s_in in H. destruct H as (k & Hin). apply plain_type_facts.
  assert (Hall : forallb (fun p => plain_type (snd p)) arith_items = true) by (vm_compute; reflexivity).
  rewrite forallb_forall in Hall. exact (Hall _ Hin).
Qed.
Lemma arith_item_plain sym : val_min (arith_item sym) = 0%nat /\ is_final (arith_item sym) = false.
Proof. unfold arith_item. destruct (assoc_s sym arith_items) eqn:E; [exact (arith_plain _ _ E)|vm_compute; auto]. Qed.

Definition is_done (st : lstate) : bool := match st with LDone => true | _ => false end.

Section States.
Variable inp : bstr.
Notation ilen := (Z.of_nat (length inp)).
Variable base : Z.
Notation lim := (Z.to_N (base + ilen)).

Definition phi (st : lstate) (l : lx) : Z :=
  match st with
  | LDone => l_ticks l
  | _ => l_ticks l + 40 * (ilen - l_pos l) + rank st
  end.

Definition wf (l : lx) : Prop := 0 <= l_start l <= l_pos l /\ l_pos l <= ilen.

(* ... together with the claim about the items sent so far: what the scanning loops maintain *)
Definition wfi (l : lx) : Prop := wf l /\ items_ok lim false (l_out l).

(* what holds whenever a state function is entered (in the nil state: the last item is EOF or an error) *)
Definition inv (st : lstate) (l : lx) : Prop :=
  wf l /\ items_ok lim (is_done st) (l_out l) /\ (st = LIdent -> l_pos l < ilen).

Definition step_post (st : lstate) (l : lx) (p : lstate * lx) : Prop :=
  let '(st', l') := p in
  inv st' l' /\ phi st' l' + 1 <= phi st l /\ l_ticks l <= l_ticks l'.

(* the same with an explicit budget B in place of the rank: the form the scanning loops are proved in *)
Definition loop_post (B : Z) (l : lx) (p : lstate * lx) : Prop :=
  let '(st', l') := p in
  inv st' l' /\ phi st' l' + 1 <= l_ticks l + 40 * (ilen - l_pos l) + B /\ l_ticks l <= l_ticks l'.

Lemma loop_post_mono B B2 l l2 p :
  l_ticks l <= l_ticks l2 -> l_ticks l2 + 40 * (ilen - l_pos l2) + B2 <= l_ticks l + 40 * (ilen - l_pos l) + B ->
  loop_post B2 l2 p -> loop_post B l p.
Proof. destruct p as [st' l']. unfold loop_post. intros H1 H2 (Hi & Hp & Ht). split; [exact Hi|]. lia. Qed.

Lemma loop_post_step st l p : st <> LDone -> loop_post (rank st) l p -> step_post st l p.
Proof. destruct p as [st' l']. unfold loop_post, step_post, phi. intros Hst H. destruct st; try congruence; exact H. Qed.

Lemma step_post_mono st l l2 p :
  st <> LDone -> l_ticks l <= l_ticks l2 -> l_ticks l2 + 40 * (ilen - l_pos l2) <= l_ticks l + 40 * (ilen - l_pos l) ->
  step_post st l2 p -> step_post st l p.
Proof.
  destruct p as [st' l']. unfold step_post, phi. intros Hst H1 H2 (Hi & Hp & Ht).
  split; [exact Hi|]. destruct st; try congruence; destruct st'; lia.
Qed.

End States.

(* boolean tests met on the way: positive ones become propositions (a predicate that holds gives a
   non-negative ASCII rune, i.e. not eof); negative ones are dropped, except "not eof" *)
Ltac norm_bools :=
  repeat match goal with
  | H : true = false |- _ => discriminate H
  | H : false = true |- _ => discriminate H
  | H : negb _ = true |- _ => apply Bool.negb_true_iff in H
  | H : negb _ = false |- _ => apply Bool.negb_false_iff in H
  | H : (_ && _) = true |- _ => apply Bool.andb_true_iff in H; destruct H
  | H : (_ || _) = true |- _ => rewrite ?Bool.orb_true_iff, ?Bool.andb_true_iff, ?Z.eqb_eq, ?Z.leb_le, ?Z.ltb_lt in H
  | H : (_ || _) = false |- _ => apply Bool.orb_false_iff in H; destruct H
  | H : (_ =? _) = true |- _ => apply Z.eqb_eq in H
  | H : (_ <=? _) = true |- _ => apply Z.leb_le in H
  | H : (_ <? _) = true |- _ => apply Z.ltb_lt in H
  | H : (_ =? -1) = false |- _ => apply Z.eqb_neq in H
  | H : (_ =? 0) = false |- _ => apply Z.eqb_neq in H
  | H : (_ =? eof) = false |- _ => apply Z.eqb_neq in H
  | H : gen_isSpaceEOL _ = true |- _ => apply isSpaceEOL_nonneg in H
  | H : gen_isSpace _ = true |- _ => apply isSpace_nonneg in H
  | H : gen_isEndOfLine _ = true |- _ => apply isEndOfLine_nonneg in H
  | H : gen_isLetterOrUnderscore _ = true |- _ => apply isLetterOrUnderscore_nonneg in H
  | H : gen_isDigit _ = true |- _ => apply isDigit_nonneg in H
  | H : in_set _ _ = true |- _ => apply in_set_nonneg in H
  | H : existsb (Z.eqb ?r) inside_tag_single_syms = true |- _ => apply single_syms_nonneg in H
  | H : existsb (Z.eqb ?r) inside_tag_cmp_syms = true |- _ => apply cmp_syms_nonneg in H
  | H : ?x = false |- _ => lazymatch x with (_ (-1)) => fail | is_final _ => fail | _ => clear H end
  end.

(* the items claim: states whose item list is unchanged are identified, boolean type tests on concrete
   item types are computed, the types that come out of a table are ordinary *)
Ltac table_facts :=
  repeat match goal with
  | Em : assoc_s _ builtin_idents = Some ?t |- _ =>
      let Hv := fresh "Hvm" in let Hf := fresh "Hfin" in pose proof (builtin_plain _ _ Em) as [Hv Hf]; clear Em
  | Em : assoc_s _ arith_items = Some ?t |- _ =>
      let Hv := fresh "Hvm" in let Hf := fresh "Hfin" in pose proof (arith_plain _ _ Em) as [Hv Hf]; clear Em
  end;
  repeat match goal with
  | H : context [is_final (arith_item ?s)] |- _ => rewrite (proj2 (arith_item_plain s)) in H
  | |- context [val_min (arith_item ?s)] => rewrite (proj1 (arith_item_plain s))
  | Hf : is_final ?t = false, H : context [is_final ?t] |- _ => lazymatch H with Hf => fail | _ => rewrite Hf in H end
  | Hv : val_min ?t = 0%nat |- context [val_min ?t] => rewrite Hv
  end.
Ltac norm_final :=
  repeat match goal with
  | H : items_ok _ (is_final ?t) _ |- _ =>
      let b := eval vm_compute in (is_final t) in
      lazymatch b with true => idtac | false => idtac end; change (is_final t) with b in H
  end;
  repeat match goal with
  | |- context [val_min ?t] =>
      let v := eval vm_compute in (val_min t) in
      lazymatch v with O => idtac | S _ => idtac end; change (val_min t) with v
  end.
Ltac rw_out := repeat match goal with H : l_out ?a = l_out ?b |- context [l_out ?a] => rewrite H end.
Ltac items := cbn [is_done]; rw_out; first [assumption | table_facts; norm_final; assumption].

(* boolean equations slow zify down a lot and are never needed once norm_bools has run *)
Ltac clear_bools := repeat match goal with H : @eq bool _ _ |- _ => clear H end.
Ltac afin := dest_hyps; lsimpl; unfold eof in *; clear_bools; repeat split; try assumption; try lia.

Ltac post :=
  cbn [okp step_post loop_post]; cbn beta iota; dest_hyps; subst; norm_bools; subst;
  repeat match goal with H : ?a = ?a -> _ |- _ => specialize (H eq_refl) end;
  change num_hex_prefix_len with 2 in *;
  unfold inv, wfi, wf, phi; cbn [rank is_done]; lsimpl; unfold eof in *;
  repeat split; intros;
  lazymatch goal with
  | |- items_ok _ _ _ => items
  | |- l_out _ = _ => rw_out; first [reflexivity | assumption | congruence]
  | |- @eq bool _ _ => first [assumption | congruence]
  | |- @eq tok _ _ => first [assumption | congruence]
  | |- _ \/ _ => try solve [auto | clear_bools; intuition (subst; auto)]
  | _ => first [discriminate | assumption | clear_bools; lia | idtac]
  end.

Ltac side :=
  solve [ lazymatch goal with
          | |- items_ok _ _ _ => dest_hyps; lsimpl; items
          | |- context [val_min _] => dest_hyps; lsimpl; table_facts; norm_final; norm_bools; afin
          | _ => norm_bools; change num_hex_prefix_len with 2 in *; afin
          end ].

Ltac the_inp k := match goal with H : l_pos _ <= Z.of_nat (length ?i) |- _ => k i end.

Ltac exec1 :=
  match goal with
  | H : negb true = true |- _ => discriminate H
  | H : negb false = false |- _ => discriminate H
  | H : true = false |- _ => discriminate H
  | H : false = true |- _ => discriminate H
  | |- okp (bind (bind _ _) _) _ => rewrite bind_assoc
  | |- okp (bind (next _ _ _) _) _ =>
      eapply okp_bind; [apply next_spec; side | let r := fresh "r" in let l := fresh "l" in let H := fresh "Hn" in
                                               intros [r l] H; unfold next_post in H; cbn beta iota]
  | |- okp (bind (peek _ _ _) _) _ =>
      eapply okp_bind; [apply peek_spec; side | let r := fresh "r" in let l := fresh "l" in let H := fresh "Hk" in
                                               intros [r l] H; unfold peek_post in H; cbn beta iota]
  | |- okp (bind (accept _ _ _ _) _) _ =>
      eapply okp_bind; [apply accept_spec; side | let r := fresh "b" in let l := fresh "l" in let H := fresh "Ha" in
                                               intros [r l] H; unfold accept_post in H; destruct r; cbn beta iota]
  | |- okp (bind (accept_run _ _ _ _) _) _ =>
      eapply okp_bind; [apply accept_run_spec; side | let r := fresh "b" in let l := fresh "l" in let H := fresh "Hr" in
                                               intros [r l] H; unfold accept_run_post in H; destruct r; cbn beta iota]
  | |- okp (bind (emit _ _ _ _ _) _) _ =>
      eapply okp_bind; [apply emit_spec; side | let l := fresh "l" in let H := fresh "He" in
                                               intros l H; unfold emit_post in H; cbn beta iota]
  | |- okp (bind (maybe_emit_text _ _ _ _ _) _) _ =>
      eapply okp_bind; [apply maybe_emit_text_spec; side | let l := fresh "l" in let H := fresh "Hm" in
                                               intros l H; unfold met_post in H; cbn beta iota]
  | |- okp (bind (skip_space _ _ _) _) _ =>
      eapply okp_bind; [apply skip_space_spec; side | let l := fresh "l" in let H := fresh "Hs" in
                                               intros l H; unfold skip_post in H; cbn beta iota]
  | Hl : ?ul (-1) = false, Hd : ?ud (-1) = false |- okp (bind (alnum_loop ?ul ?ud _ _ (loop_fuel _ _) _) _) _ =>
      eapply okp_bind; [apply (alnum_loop_spec ul ud Hl Hd); [side | apply loop_fuel_ok; side]
                       | let l := fresh "l" in let H := fresh "Hal" in intros l H; unfold scan_post in H; cbn beta iota]
  | |- okp (bind (slice _ _ _ _) _) _ =>
      eapply okp_bind; [apply slice_spec; side | let v := fresh "v" in let H := fresh "Hv" in intros v H; cbn beta in H; cbn beta iota]
  | |- okp (bind (byte_at _ _ _) _) _ =>
      eapply okp_bind; [apply byte_at_spec; side | let v := fresh "c" in intros v _; cbn beta iota]
  | |- okp (bind (errorf _ _ _) _) _ =>
      eapply okp_bind; [the_inp ltac:(fun i => apply (errorf_spec i)); side | let st := fresh "st" in let l := fresh "l" in let H := fresh "Hf" in
                                               intros [st l] H; unfold errorf_post in H; cbn beta iota]
  | |- okp (bind (Ok _) _) _ => cbn [bind]; cbn beta iota
  | |- okp (bind (if ?c then _ else _) _) _ => let E := fresh "E" in destruct c eqn:E
  | |- okp (bind (match ?x with _ => _ end) _) _ => let E := fresh "Em" in destruct x eqn:E
  | |- okp (if ?c then _ else _) _ => let E := fresh "E" in destruct c eqn:E
  | |- okp (match ?x with _ => _ end) _ => let E := fresh "Em" in destruct x eqn:E
  | |- okp (let _ := _ in _) _ => cbv zeta
  | |- okp (errorf _ _ _) _ =>
      eapply okp_weaken; [the_inp ltac:(fun i => apply (errorf_spec i)); side | let st := fresh "st" in let l := fresh "l" in let H := fresh "Hf" in
                                               intros [st l] H; unfold errorf_post in H; dest_hyps; subst st; post]
  | |- okp (emit_to _ _ _ _ _ _) _ => unfold emit_to
  | |- okp (Ok _) _ => post
  | |- okp (bind ?x _) _ =>
      match x with context [if ?c then _ else _] => let E := fresh "E" in destruct c eqn:E end
  end.
Ltac exec := repeat (dest_hyps; exec1).

Section Simple.
Variable inp : bstr.
Notation ilen := (Z.of_nat (length inp)).
Variable base : Z.
Hypothesis base_nonneg : 0 <= base.
Notation inv := (inv inp base).
Notation step_post := (step_post inp base).

Lemma lex_left_delim_ok l : inv LLeftDelim l -> okp (lex_left_delim inp ilen base l) (step_post LLeftDelim l).
Proof. intros (Hw & Hit & _). unfold wf in Hw. cbn [is_done] in Hit. unfold lex_left_delim. exec. Qed.

Lemma lex_right_delim_ok l : inv LRightDelim l -> okp (lex_right_delim inp ilen base l) (step_post LRightDelim l).
Proof. intros (Hw & Hit & _). unfold wf in Hw. cbn [is_done] in Hit. unfold lex_right_delim, double_close. exec. Qed.

Lemma lex_right_delim_end_ok l : inv LRightDelimEnd l -> okp (lex_right_delim_end inp ilen base l) (step_post LRightDelimEnd l).
Proof. intros (Hw & Hit & _). unfold wf in Hw. cbn [is_done] in Hit. unfold lex_right_delim_end, double_close. exec. Qed.

Lemma lex_begin_tag_ok l : inv LBeginTag l -> okp (lex_begin_tag inp ilen l) (step_post LBeginTag l).
Proof. intros (Hw & Hit & _). unfold wf in Hw. cbn [is_done] in Hit. unfold lex_begin_tag. exec. Qed.

Lemma lex_inside_tag_ok l : inv LInsideTag l -> okp (lex_inside_tag inp ilen base l) (step_post LInsideTag l).
Proof. intros (Hw & Hit & _). unfold wf in Hw. cbn [is_done] in Hit. unfold lex_inside_tag, lex_negative. exec. Qed.

End Simple.

Section Alnum.
Variable uni_letter uni_digit : Z -> bool.
Hypothesis letter_eof : uni_letter (-1) = false.
Hypothesis digit_eof : uni_digit (-1) = false.
Variable inp : bstr.
Notation ilen := (Z.of_nat (length inp)).
Variable base : Z.
Hypothesis base_nonneg : 0 <= base.
Notation inv := (inv inp base).
Notation step_post := (step_post inp base).

Lemma lex_ident_ok l : inv LIdent l -> okp (lex_ident uni_letter uni_digit inp ilen base l) (step_post LIdent l).
Proof. intros (Hw & Hit & Hi). specialize (Hi eq_refl). unfold wf in Hw. cbn [is_done] in Hit. unfold lex_ident. exec. Qed.

(* l' is l moved forward by d bytes with at most d + k units of work *)
Definition num_rel (k : Z) (l l' : lx) : Prop :=
  l_out l' = l_out l /\ l_start l' = l_start l /\ l_pos l <= l_pos l' <= ilen /\ l_ticks l <= l_ticks l' /\
  l_ticks l' - l_ticks l <= (l_pos l' - l_pos l) + k.
Definition num_post (k : Z) (l : lx) (r : N * lx + N * lx) : Prop :=
  match r with
  | inl (t, l') => num_rel k l l' /\ (t = itemInteger \/ t = itemFloat)
  | inr (t, l') => num_rel k l l' /\ l_pos l < l_pos l' /\ (t = itemInteger \/ t = itemFloat)
  end.

Lemma scan_hex_spec l : 0 <= l_start l <= l_pos l -> l_pos l + 2 <= ilen -> okp (scan_hex inp ilen l) (num_post 2 l).
Proof. intros H1 H2. unfold scan_hex, num_post, num_rel. exec. Qed.

Lemma scan_mantissa_spec (hs : bool) l l0 : 0 <= l_start l <= l_pos l0 -> l_pos l <= ilen -> l_start l = l_start l0 ->
  (if hs then l_pos l = l_pos l0 + 1 else l_pos l = l_pos l0) ->
  okp (scan_mantissa inp ilen hs l) (num_post 3 l).
Proof. intros H1 H2 H3 H4. unfold scan_mantissa, num_post, num_rel. destruct hs; exec. Qed.


Lemma scan_exponent_spec t l : 0 <= l_pos l <= ilen -> okp (scan_exponent inp ilen t l) (fun r => match r with inl (t', l') | inr (t', l') => num_rel 4 l l' /\ (t' = t \/ t' = itemFloat) end).
Proof. intros H1. unfold scan_exponent, num_rel. exec. Qed.

Definition sn_post (l : lx) (p : N * bool * lx) : Prop :=
  let '(t, ok, l') := p in
  l_out l' = l_out l /\ l_start l' = l_start l /\ l_pos l <= l_pos l' <= ilen /\ l_ticks l <= l_ticks l' /\
  l_ticks l' - l_ticks l <= (l_pos l' - l_pos l) + 10 /\ (ok = true -> l_pos l < l_pos l') /\
  (t = itemInteger \/ t = itemFloat).

Ltac num1 l :=
  match goal with
  | |- okp (bind (scan_hex _ _ _) _) _ =>
      eapply okp_bind; [apply scan_hex_spec; side | intros [[? ?]|[? ?]] ?; unfold num_post, num_rel in *; cbn beta iota]
  | |- okp (bind (scan_mantissa _ _ ?hs ?l1) _) _ =>
      eapply okp_bind; [apply (scan_mantissa_spec hs l1 l); side | intros [[? ?]|[? ?]] ?; unfold num_post, num_rel in *; cbn beta iota]
  | |- okp (bind (scan_exponent _ _ _ _) _) _ =>
      eapply okp_bind; [apply scan_exponent_spec; side | intros [[? ?]|[? ?]] ?; unfold num_rel in *; cbn beta iota]
  | |- okp (scan_exponent _ _ _ _) _ =>
      eapply okp_weaken; [apply scan_exponent_spec; side | intros [[? ?]|[? ?]] ?; unfold num_rel in *; cbn beta iota]
  | _ => exec1
  end.

Lemma scan_number_spec l : wf inp l -> okp (scan_number uni_letter uni_digit inp ilen l) (sn_post l).
Proof.
  intros Hw. unfold wf in Hw. unfold scan_number, sn_post.
  repeat (dest_hyps; num1 l).
Qed.

Lemma lex_number_ok l : inv LNumber l -> okp (lex_number uni_letter uni_digit inp ilen base l) (step_post LNumber l).
Proof.
  intros (Hw & Hit & _). cbn [is_done] in Hit. unfold lex_number.
  eapply okp_bind; [apply scan_number_spec; exact Hw|]. intros [[t ok] l1] H. unfold sn_post in H. unfold wf in Hw.
  dest_hyps. match goal with Ht : t = itemInteger \/ t = itemFloat |- _ => destruct Ht; subst t end; exec.
Qed.

End Alnum.
