(* One progress lemma per state function of the lexer (states without a loop of their own here;
   the scanning states are in LexerLoops.v):
       inv st l -> okp (step st l) (step_post st l)
   i.e. the state function returns normally, the next state's invariant holds, and the potential
       phi st l = ticks + 40 * (remaining input) + rank st
   drops by at least one (it bounds the number of remaining steps plus the remaining work).
   This is the measure of DESIGN.md Appendix C: remaining input at state entry, then the rank of
   the state for the transitions that do not consume input. *)
From Soy Require Import Model.Bytes Model.Utf8 Model.Outcome Model.Token Generated.Tables Model.Lexer Proofs.LexerPrim.
From Coq Require Import ZifyBool ZifyNat ZifyN Lia.
Open Scope Z_scope.

Definition rank (st : lstate) : Z :=
  match st with
  | LRightDelimEnd => 23
  | LRightDelim | LLineComment => 22
  | LText => 20
  | LLeftDelim => 17
  | LBeginTag => 14
  | LInsideTag => 12
  | LDone => 0
  | _ => 8
  end.

Section States.
Variable inp : bstr.
Notation ilen := (Z.of_nat (length inp)).

Definition phi (st : lstate) (l : lx) : Z :=
  match st with
  | LDone => l_ticks l
  | _ => l_ticks l + 40 * (ilen - l_pos l) + rank st
  end.

Definition wf (l : lx) : Prop := 0 <= l_start l <= l_pos l /\ l_pos l <= ilen.

(* what holds whenever a state function is entered *)
Definition inv (st : lstate) (l : lx) : Prop :=
  wf l /\ (st = LIdent -> l_pos l < ilen) /\ (st = LDone -> done_ok l).

Definition step_post (st : lstate) (l : lx) (p : lstate * lx) : Prop :=
  let '(st', l') := p in
  inv st' l' /\ phi st' l' + 1 <= phi st l /\ l_ticks l <= l_ticks l'.

Lemma step_post_mono st l l2 p :
  st <> LDone -> l_ticks l <= l_ticks l2 -> l_ticks l2 + 40 * (ilen - l_pos l2) <= l_ticks l + 40 * (ilen - l_pos l) ->
  step_post st l2 p -> step_post st l p.
Proof.
  destruct p as [st' l']. unfold step_post, phi. intros Hst H1 H2 (Hi & Hp & Ht).
  split; [exact Hi|]. destruct st; try congruence; destruct st'; lia.
Qed.

End States.

Ltac post :=
  cbn [okp step_post]; dest_hyps; subst; unfold inv, wf, phi; cbn [rank]; lsimpl; unfold eof in *;
  repeat split; intros; try discriminate; try assumption; try lia.

Ltac side := solve [fin].

Ltac exec1 :=
  match goal with
  | |- okp (bind (bind _ _) _) _ => rewrite bind_assoc
  | |- okp (bind (next _ _ _) _) _ =>
      eapply okp_bind; [apply next_spec; side | let r := fresh "r" in let l := fresh "l" in let H := fresh "Hn" in
                                               intros [r l] H; unfold next_post in H; cbn beta iota]
  | |- okp (bind (peek _ _ _) _) _ =>
      eapply okp_bind; [apply peek_spec; side | let r := fresh "r" in let l := fresh "l" in let H := fresh "Hk" in
                                               intros [r l] H; unfold peek_post in H; cbn beta iota]
  | |- okp (bind (accept _ _ _ _) _) _ =>
      eapply okp_bind; [apply accept_spec; side | let r := fresh "b" in let l := fresh "l" in let H := fresh "Ha" in
                                               intros [r l] H; unfold accept_post in H; cbn beta iota]
  | |- okp (bind (accept_run _ _ _ _) _) _ =>
      eapply okp_bind; [apply accept_run_spec; side | let r := fresh "b" in let l := fresh "l" in let H := fresh "Hr" in
                                               intros [r l] H; unfold accept_run_post in H; cbn beta iota]
  | |- okp (bind (emit _ _ _ _) _) _ =>
      eapply okp_bind; [apply emit_spec; side | let l := fresh "l" in let H := fresh "He" in
                                               intros l H; unfold emit_post in H; cbn beta iota]
  | |- okp (bind (maybe_emit_text _ _ _ _) _) _ =>
      eapply okp_bind; [apply maybe_emit_text_spec; side | let l := fresh "l" in let H := fresh "Hm" in
                                               intros l H; unfold met_post in H; cbn beta iota]
  | |- okp (bind (skip_space _ _ _) _) _ =>
      eapply okp_bind; [apply skip_space_spec; side | let l := fresh "l" in let H := fresh "Hs" in
                                               intros l H; unfold skip_post in H; cbn beta iota]
  | |- okp (bind (slice _ _ _ _) _) _ =>
      eapply okp_bind; [apply slice_spec; side | let v := fresh "v" in intros v _; cbn beta iota]
  | |- okp (bind (byte_at _ _ _) _) _ =>
      eapply okp_bind; [apply byte_at_spec; side | let v := fresh "c" in intros v _; cbn beta iota]
  | |- okp (bind (errorf _ _) _) _ =>
      eapply okp_bind; [apply errorf_spec; side | let st := fresh "st" in let l := fresh "l" in let H := fresh "Hf" in
                                               intros [st l] H; unfold errorf_post in H; cbn beta iota]
  | |- okp (bind (Ok _) _) _ => cbn [bind]; cbn beta iota
  | |- okp (bind (if ?c then _ else _) _) _ => let E := fresh "E" in destruct c eqn:E
  | |- okp (bind (match ?x with _ => _ end) _) _ => destruct x
  | |- okp (if ?c then _ else _) _ => let E := fresh "E" in destruct c eqn:E
  | |- okp (match ?x with _ => _ end) _ => destruct x
  | |- okp (errorf _ _) _ =>
      eapply okp_weaken; [apply errorf_spec; side | let st := fresh "st" in let l := fresh "l" in let H := fresh "Hf" in
                                               intros [st l] H; unfold errorf_post in H; dest_hyps; subst st; post]
  | |- okp (emit_to _ _ _ _ _) _ => unfold emit_to
  | |- okp (Ok _) _ => post
  | |- okp (bind ?x _) _ =>
      match x with context [if ?c then _ else _] => let E := fresh "E" in destruct c eqn:E end
  end.
Ltac exec := repeat (dest_hyps; exec1).
