(* Facts about the UTF-8 model (Model/Utf8.v): encode/decode inverses, the shape
   of an encoding, and rune-by-rune induction over valid strings. *)
From Coq Require Import Lia ZifyN ZifyNat ZifyBool.
From Soy Require Import Model.Bytes Model.Utf8.
Open Scope N_scope.
Ltac Zify.zify_post_hook ::= Z.div_mod_to_equations.

Ltac brk1 := match goal with
  | |- context[if ?c then _ else _] =>
      lazymatch c with context[if _ then _ else _] => fail | _ => let E := fresh "E" in destruct c eqn:E end
  end.
Ltac brk := repeat brk1.
(* resolve every conditional whose test is decided by linear arithmetic *)
Ltac decide_ifs := repeat (brk1; try lia).

Definition valid_scalar (r : N) : Prop := r < 55296 \/ (57343 < r /\ r <= 1114111).

Lemma decode_encode r X : valid_scalar r ->
  decode_rune (encode_rune r ++ X) = (r, length (encode_rune r)).
Proof.
  intros Hv. unfold valid_scalar in Hv. unfold encode_rune, in_range.
  brk1; [|brk1; [|brk1; [lia|brk1]]]; cbn [app decode_rune length].
  - replace (r <? 128) with true by lia. reflexivity.
  - unfold is_cont, in_range. decide_ifs; f_equal; lia.
  - unfold is_cont, in_range. decide_ifs; f_equal; lia.
  - unfold is_cont, in_range. decide_ifs; f_equal; lia.
Qed.

(* shape of an encoding: a rune-start byte followed by continuation bytes *)
Lemma encode_rune_shape r : valid_scalar r ->
  exists c0 tl, encode_rune r = c0 :: tl /\ rune_start c0 = true /\ Forall (fun c => is_cont c = true) tl
                /\ (length tl <= 3)%nat /\ (c0 < 128 <-> r < 128) /\ (r < 128 -> c0 = r /\ tl = []) /\ c0 < 256 /\ Forall (fun c => c < 256) tl.
Proof.
  intros Hv. unfold valid_scalar in Hv. unfold encode_rune, in_range.
  brk1; [|brk1; [|brk1; [lia|brk1]]]; eexists; eexists; (split; [reflexivity|]);
    unfold rune_start, is_cont, in_range; cbn [length];
    repeat split; repeat constructor; try lia.
Qed.

(* decode -> encode: a successful decode has read exactly the encoding of its rune *)
Lemma decode_rune_inv s r w : s <> [] -> decode_rune s = (r, w) -> ~ (r = rune_error /\ w = 1%nat) ->
  valid_scalar r /\ length (encode_rune r) = w /\ s = encode_rune r ++ drop w s.
Proof.
  intros Hne Hd Hbad. unfold valid_scalar.
  destruct s as [|b0 s]; [congruence|]. clear Hne.
  unfold decode_rune in Hd. unfold rune_error in *.
  destruct (b0 <? 128) eqn:E0.
  { inversion Hd; subst. unfold encode_rune. rewrite E0. cbn. repeat split; lia. }
  destruct (in_range 194 223 b0) eqn:E1.
  { destruct s as [|b1 s]; [inversion Hd; subst; exfalso; apply Hbad; split; reflexivity|].
    destruct (is_cont b1) eqn:E2; [|inversion Hd; subst; exfalso; apply Hbad; split; reflexivity].
    inversion Hd; subst. unfold is_cont, in_range in *. unfold encode_rune, in_range.
    decide_ifs; cbn [length drop app]; (split; [lia|split; [reflexivity|]]); repeat f_equal; lia. }
  destruct (in_range 224 239 b0) eqn:E2.
  { destruct s as [|b1 [|b2 s]]; try (inversion Hd; subst; exfalso; apply Hbad; split; reflexivity).
    unfold is_cont, in_range in *.
    revert Hd. brk; intros Hd; inversion Hd; subst; try (exfalso; apply Hbad; split; reflexivity);
    unfold encode_rune, in_range; decide_ifs; cbn [length drop app]; (split; [lia|split; [reflexivity|]]); repeat f_equal; lia. }
  destruct (in_range 240 244 b0) eqn:E3.
  { destruct s as [|b1 [|b2 [|b3 s]]]; try (inversion Hd; subst; exfalso; apply Hbad; split; reflexivity).
    unfold is_cont, in_range in *.
    revert Hd. brk; intros Hd; inversion Hd; subst; try (exfalso; apply Hbad; split; reflexivity);
    unfold encode_rune, in_range; decide_ifs; cbn [length drop app]; (split; [lia|split; [reflexivity|]]); repeat f_equal; lia. }
  inversion Hd; subst. exfalso; apply Hbad; split; reflexivity.
Qed.

(* ---- list helpers ---- *)
Lemma drop_app_length (pre rest : list N) : drop (length pre) (pre ++ rest) = rest.
Proof. induction pre; cbn; auto. Qed.
Lemma take_app_length (pre rest : list N) : take (length pre) (pre ++ rest) = pre.
Proof. induction pre; cbn; [destruct rest|]; congruence. Qed.
Lemma take_drop (k : nat) (s : bstr) : take k s ++ drop k s = s.
Proof. revert s; induction k; intros [|c s]; cbn; auto. f_equal. auto. Qed.
Lemma take_app_ge (pre rest : bstr) k : (length pre <= k)%nat -> take k (pre ++ rest) = pre ++ take (k - length pre) rest.
Proof.
  revert k; induction pre as [|c pre IH]; intros k Hk; cbn [length app].
  - rewrite Nat.sub_0_r. reflexivity.
  - destruct k; [cbn in Hk; lia|]. cbn [take length Nat.sub]. f_equal. apply IH. cbn in Hk. lia.
Qed.
Lemma take_length_le (k : nat) (s : bstr) : (length (take k s) <= k)%nat.
Proof. revert s; induction k; intros [|c s]; cbn; try lia. specialize (IHk s). lia. Qed.
Lemma take_length (k : nat) (s : bstr) : (k <= length s)%nat -> length (take k s) = k.
Proof. revert s; induction k; intros [|c s]; cbn; try lia. intros. f_equal. apply IHk. lia. Qed.
Lemma take_all (k : nat) (s : bstr) : (length s <= k)%nat -> take k s = s.
Proof. revert s; induction k; intros [|c s]; cbn; try lia; auto. intros. f_equal. apply IHk. lia. Qed.

(* ---- utf8_valid: skipping, one rune at a time ---- *)
Lemma valid_aux_skip k pre rest : length pre = k -> utf8_valid_aux k (pre ++ rest) = utf8_valid_aux 0 rest.
Proof.
  revert pre; induction k; intros [|c pre] H; cbn in H; try discriminate; [reflexivity|].
  cbn [app utf8_valid_aux]. apply IHk. lia.
Qed.

Lemma encode_rune_len_pos r : valid_scalar r -> exists tl c0, encode_rune r = c0 :: tl.
Proof. intros H. destruct (encode_rune_shape r H) as (c0 & tl & E & _). eauto. Qed.

Lemma encode_not_bad r : valid_scalar r -> ~ (r = rune_error /\ length (encode_rune r) = 1%nat).
Proof.
  intros _ [-> H]. vm_compute in H. discriminate.
Qed.

Lemma utf8_valid_rune r X : valid_scalar r -> utf8_valid (encode_rune r ++ X) = utf8_valid X.
Proof.
  intros Hv. pose proof (decode_encode r X Hv) as Hd.
  destruct (encode_rune_shape r Hv) as (c0 & tl & E & _).
  unfold utf8_valid. rewrite E in *. cbn [app utf8_valid_aux]. cbn [app] in Hd. rewrite Hd.
  cbn [length Nat.pred].
  destruct ((r =? rune_error) && Nat.eqb (S (length tl)) 1) eqn:Eb.
  - exfalso. apply andb_true_iff in Eb. destruct Eb as [E1 E2]. apply N.eqb_eq in E1. apply Nat.eqb_eq in E2.
    apply (encode_not_bad r Hv). rewrite E. cbn [length]. auto.
  - apply valid_aux_skip. reflexivity.
Qed.

Lemma utf8_valid_step s : s <> [] -> utf8_valid s = true ->
  exists r X, valid_scalar r /\ s = encode_rune r ++ X /\ utf8_valid X = true.
Proof.
  intros Hne Hv. destruct s as [|c s0]; [congruence|].
  destruct (decode_rune (c :: s0)) as [r w] eqn:Hd.
  unfold utf8_valid in Hv. cbn [utf8_valid_aux] in Hv. rewrite Hd in Hv.
  destruct ((r =? rune_error) && Nat.eqb w 1) eqn:Eb; [discriminate|].
  assert (~ (r = rune_error /\ w = 1%nat)) as Hnb.
  { intros [-> ->]. cbn in Eb. discriminate. }
  destruct (decode_rune_inv (c :: s0) r w Hne Hd Hnb) as (Hvs & Hlen & Hs).
  exists r, (drop w (c :: s0)). split; [exact Hvs|]. split; [exact Hs|].
  destruct (encode_rune_shape r Hvs) as (c0 & tl & E & _).
  rewrite E in Hs, Hlen. cbn [app length] in Hs, Hlen. subst w.
  injection Hs as Hc Hs0. cbn [Nat.pred] in Hv. unfold utf8_valid.
  rewrite Hs0 in Hv. rewrite valid_aux_skip in Hv by reflexivity. exact Hv.
Qed.

Lemma utf8_valid_ind (P : bstr -> Prop) :
  P [] ->
  (forall r X, valid_scalar r -> utf8_valid X = true -> P X -> P (encode_rune r ++ X)) ->
  forall s, utf8_valid s = true -> P s.
Proof.
  intros Hnil Hstep s. remember (length s) as n eqn:Hn. revert s Hn.
  induction n as [n IH] using lt_wf_ind. intros s Hn Hv.
  destruct s as [|c s0] eqn:Es; [exact Hnil|]. rewrite <- Es in *.
  destruct (utf8_valid_step s) as (r & X & Hr & Hs & HX); [subst s; discriminate|exact Hv|].
  rewrite Hs. apply Hstep; auto. apply (IH (length X)); auto.
  destruct (encode_rune_shape r Hr) as (c0 & tl & E & _).
  rewrite Hn, Hs, E. cbn [app length]. rewrite app_length. lia.
Qed.

Lemma utf8_valid_app a c : utf8_valid a = true -> utf8_valid c = true -> utf8_valid (a ++ c) = true.
Proof.
  intros Ha Hc. revert a Ha. apply (utf8_valid_ind (fun a => utf8_valid (a ++ c) = true)); [exact Hc|].
  intros r X Hr HX IH. rewrite <- app_assoc. rewrite utf8_valid_rune by exact Hr. exact IH.
Qed.

(* a prefix that ends where a rune starts is valid *)
Lemma utf8_valid_take s : utf8_valid s = true ->
  forall k c, nth_error s k = Some c -> rune_start c = true -> utf8_valid (take k s) = true.
Proof.
  revert s. apply (utf8_valid_ind (fun s => forall k c, nth_error s k = Some c -> rune_start c = true -> utf8_valid (take k s) = true)).
  - intros k c H. destruct k; discriminate.
  - intros r X Hr HX IH k c Hn Hc.
    destruct (encode_rune_shape r Hr) as (c0 & tl & E & Hs0 & Htl & _).
    destruct (Nat.lt_ge_cases k (length (encode_rune r))) as [Hlt|Hge].
    + destruct k as [|k]; [reflexivity|]. exfalso.
      rewrite E in Hn, Hlt. cbn [app nth_error length] in Hn, Hlt.
      rewrite nth_error_app1 in Hn by lia.
      apply nth_error_In in Hn. rewrite Forall_forall in Htl. specialize (Htl c Hn).
      unfold rune_start in Hc. rewrite Htl in Hc. discriminate.
    + rewrite take_app_ge by exact Hge. rewrite utf8_valid_rune by exact Hr.
      rewrite nth_error_app2 in Hn by exact Hge. eapply IH; eauto.
Qed.
