(* Literal conversion facts used by the round-trip theorems: an int64 printed by
   strconv.FormatInt reads back through strconv.ParseInt (base 10) as itself. *)
From Soy Require Import Model.Bytes Model.Num Model.Utf8 Model.NumLit Model.Quote Model.ExprParser Proofs.MsgIdProofs.
Require Import Lia ZifyBool ZifyNat ZifyN.
Open Scope N_scope.

Lemma digits_val_app base s1 s2 acc :
  digits_val base (s1 ++ s2) acc =
  match digits_val base s1 acc with Some a => digits_val base s2 a | None => None end.
Proof.
  revert acc; induction s1 as [|c s1 IH]; intros acc; cbn [app digits_val]; [reflexivity|].
  destruct (digit_val c) as [d|]; [|reflexivity]. destruct (d <? base); [apply IH | reflexivity].
Qed.

Lemma digit_val_digit c : is_digit_byte c -> digit_val c = Some (c - 48).
Proof. unfold is_digit_byte, digit_val, in_range. intros [H1 H2]. replace ((48 <=? c) && (c <=? 57)) with true by lia. reflexivity. Qed.

Lemma digits_val_rev l : Forall is_digit_byte l -> digits_val 10 (rev l) 0 = Some (lval l).
Proof.
  induction l as [|c r IH]; intros Hd; [reflexivity|].
  inversion Hd as [|? ? Hc Hr]; subst. cbn [rev lval]. rewrite digits_val_app, (IH Hr).
  cbn [digits_val]. rewrite (digit_val_digit c Hc). unfold is_digit_byte in Hc.
  replace (c - 48 <? 10) with true by lia. f_equal. lia.
Qed.

Lemma digits_val_dec n : digits_val 10 (dec_of_N n) 0 = Some n.
Proof.
  rewrite dec_of_N_lsd, digits_val_rev by apply lsd_digits.
  rewrite lval_lsd by apply lt_pow2_log2. reflexivity.
Qed.

Lemma dec_of_N_head n : exists c r, dec_of_N n = c :: r /\ is_digit_byte c.
Proof.
  pose proof (dec_of_N_digits n) as Hd. pose proof (dec_of_N_nonempty n) as Hne.
  destruct (dec_of_N n) as [|c r]; [congruence|]. inversion Hd; subst. eauto.
Qed.

Lemma parse_int_dec_N n : in_int64 (Z.of_N n) = true -> parse_int 10 (dec_of_N n) = Some (Z.of_N n).
Proof.
  intros Hi. unfold parse_int. destruct (dec_of_N_head n) as (c & r & E & Hc).
  pose proof (digits_val_dec n) as Hv. rewrite E in *. unfold is_digit_byte in Hc.
  replace (c =? 43) with false by lia. replace (c =? 45) with false by lia.
  rewrite Hv, Hi. reflexivity.
Qed.

Lemma parse_int_dec z : in_int64 z = true -> parse_int 10 (dec_of_Z z) = Some z.
Proof.
  intros Hi. destruct z as [|p|p]; cbn [dec_of_Z].
  - reflexivity.
  - apply (parse_int_dec_N (Npos p)). exact Hi.
  - unfold parse_int. change (45 =? 43) with false. change (45 =? 45) with true. cbv iota.
    destruct (dec_of_N_head (Npos p)) as (c & r & E & Hc). pose proof (digits_val_dec (Npos p)) as Hv.
    rewrite E in *. rewrite Hv. change (- Z.of_N (Npos p))%Z with (Zneg p). rewrite Hi. reflexivity.
Qed.

Lemma dec_of_Z_no_0x z : is_prefix s_0x (dec_of_Z z) = false.
Proof.
  pose proof (dec_of_Z_chars z) as Hc.
  destruct (dec_of_Z z) as [|c1 [|c2 r]]; [reflexivity | |].
  - unfold s_0x. cbn [is_prefix]. destruct (48 =? c1); reflexivity.
  - inversion Hc as [|? ? _ Hc2]; subst. inversion Hc2 as [|? ? H2 _]; subst.
    unfold s_0x. cbn [is_prefix]. unfold is_digit_byte in H2.
    replace (120 =? c2) with false by lia. cbn [andb]. apply andb_false_r.
Qed.

(* the index of a data reference: ".N" with N >= 0 *)
Lemma slice_from_app (pre s : bstr) : slice_from (length pre) (pre ++ s) = Some s.
Proof.
  unfold slice_from. rewrite app_length. replace (length pre + length s <? length pre)%nat with false by lia.
  f_equal. induction pre as [|c pre IH]; [reflexivity|]. exact IH.
Qed.

(* ================= map keys: quote then unquote ================= *)
From Soy Require Import Model.AstPrint Generated.Tables Proofs.Utf8Proofs Proofs.CodecProofs.

Lemma escape_table_facts :
  forallb (fun e => match snd e with
                    | [bs; x] => (bs =? 92) && negb (x =? 117) && (x <? 128) && (fst e <? 128) &&
                                 match unescape_of x with Some c => c =? fst e | None => false end
                    | _ => false
                    end) ast_string_escapes = true
  /\ (exists r, assoc 92 ast_string_escapes = Some r).
Proof. split; [reflexivity | eexists; reflexivity]. Qed.

Lemma assoc_In {A} c (l : list (N * A)) r : assoc c l = Some r -> In (c, r) l.
Proof.
  induction l as [|[c' r'] l IH]; cbn [assoc]; [discriminate|].
  destruct (N.eqb_spec c c') as [->|_]; [intros [= ->]; left; reflexivity | intros H; right; apply IH, H].
Qed.

Lemma escape_entry c r : assoc c ast_string_escapes = Some r ->
  exists x, r = [92; x] /\ x <> 117 /\ x < 128 /\ c < 128 /\ unescape_of x = Some c.
Proof.
  intros H. apply assoc_In in H. destruct escape_table_facts as [Hall _].
  rewrite forallb_forall in Hall. specialize (Hall _ H). cbn [fst snd] in Hall.
  destruct r as [|bs [|x [|? ?]]]; try discriminate. exists x.
  destruct (unescape_of x) as [c'|]; [|rewrite andb_false_r in Hall; discriminate].
  repeat (apply andb_true_iff in Hall; destruct Hall as [Hall ?]).
  repeat split; try lia; f_equal; lia.
Qed.

Definition esc1 (c : N) : bstr := match assoc c ast_string_escapes with Some r => r | None => [c] end.

Lemma escape_key_cons c k : escape_key (c :: k) = esc1 c ++ escape_key k.
Proof. reflexivity. Qed.

Lemma escape_key_app a k : escape_key (a ++ k) = escape_key a ++ escape_key k.
Proof. induction a as [|c a IH]; [reflexivity|]. cbn [app]. rewrite !escape_key_cons, IH, app_assoc. reflexivity. Qed.

Lemma escape_key_high a : Forall (fun c => 128 <= c) a -> escape_key a = a.
Proof.
  induction 1 as [|c a Hc _ IH]; [reflexivity|]. rewrite escape_key_cons, IH. unfold esc1.
  destruct (assoc c ast_string_escapes) as [r|] eqn:E; [|reflexivity].
  destruct (escape_entry c r E) as (x & _ & _ & _ & Hlt & _). lia.
Qed.

Lemma escape_key_no_backslash k : mem 92 (escape_key k) = false -> escape_key k = k.
Proof.
  induction k as [|c k IH]; [reflexivity|]. rewrite escape_key_cons. unfold esc1.
  destruct (assoc c ast_string_escapes) as [r|] eqn:E.
  - destruct (escape_entry c r E) as (x & -> & _). cbn. discriminate.
  - cbn [app]. unfold mem. cbn [existsb]. intros H. apply orb_false_iff in H. destruct H as [_ H]. f_equal. apply IH, H.
Qed.

Lemma string_of_runes_cons r l : string_of_runes (r :: l) = encode_rune r ++ string_of_runes l.
Proof. reflexivity. Qed.

Lemma string_of_runes_valid k : utf8_valid k = true -> string_of_runes (runes k) = k.
Proof.
  revert k. apply utf8_valid_ind; [reflexivity|]. intros r X Hr HX IH.
  rewrite runes_rune by exact Hr. rewrite string_of_runes_cons, IH. reflexivity.
Qed.

Lemma decode_ascii c X : c < 128 -> decode_rune (c :: X) = (c, 1%nat).
Proof. intros H. cbn [decode_rune]. replace (c <? 128) with true by lia. reflexivity. Qed.

Lemma encode_high_bytes r : valid_scalar r -> 128 <= r -> Forall (fun c => 128 <= c) (encode_rune r).
Proof.
  intros Hv Hr. unfold valid_scalar in Hv. unfold encode_rune, in_range.
  brk1; [lia|]. brk1; [|brk1; [lia|brk1]]; repeat constructor; lia.
Qed.

Lemma unquote_loop_escaped : forall k, utf8_valid k = true ->
  forall f acc, (length (escape_key k) < f)%nat ->
  unquote_loop f (escape_key k) false acc = Some (rev acc ++ runes k).
Proof.
  apply (utf8_valid_ind (fun k => forall f acc, (length (escape_key k) < f)%nat ->
                                   unquote_loop f (escape_key k) false acc = Some (rev acc ++ runes k))).
  - intros f acc Hf. destruct f as [|f]; [cbn in Hf; lia|]. cbn. rewrite app_nil_r. reflexivity.
  - intros r X Hr HX IH f acc Hf. rewrite escape_key_app in *. rewrite runes_rune by exact Hr.
    destruct (encode_rune_shape r Hr) as (c0 & tl & E & _ & _ & _ & Hlow & Hone & _).
    destruct (N.ltb_spec r 128) as [Hlt|Hge].
    + (* an ASCII rune *)
      destruct (Hone Hlt) as [-> ->]. rewrite E in *. change (escape_key [r]) with (esc1 r ++ []) in *.
      rewrite app_nil_r in *. unfold esc1 in *.
      destruct (assoc r ast_string_escapes) as [rr|] eqn:Er.
      * destruct (escape_entry r rr Er) as (x & -> & Hx117 & Hx128 & _ & Hux).
        cbn [app length] in *. destruct f as [|[|f]]; [lia|lia|].
        cbn [unquote_loop]. rewrite (decode_ascii 92) by lia. cbn [drop negb andb].
        change (92 =? q_backslash) with true. cbn [andb negb].
        cbn [unquote_loop]. rewrite (decode_ascii x) by lia. cbn [drop].
        replace (x =? 117) with false by lia. rewrite Hux.
        rewrite andb_false_r. rewrite IH by lia. cbn [rev]. rewrite <- app_assoc. reflexivity.
      * assert (r <> 92). { intros ->. destruct escape_table_facts as [_ [r0 H0]]. congruence. }
        cbn [app length] in *. destruct f as [|f]; [lia|].
        cbn [unquote_loop]. rewrite (decode_ascii r) by lia. cbn [drop].
        unfold q_backslash. replace (r =? 92) with false by lia. cbn [andb].
        rewrite IH by lia. cbn [rev]. rewrite <- app_assoc. reflexivity.
    + (* a multi-byte rune: its bytes are not in the table *)
      rewrite (escape_key_high (encode_rune r)) in * by (apply encode_high_bytes; assumption).
      assert (r <> 92) by lia.
      destruct f as [|f]; [lia|]. rewrite E in *. cbn [app]. cbn [unquote_loop].
      change (c0 :: tl ++ escape_key X) with ((c0 :: tl) ++ escape_key X). rewrite <- E.
      rewrite (decode_encode r (escape_key X) Hr). rewrite drop_app_length.
      unfold q_backslash. replace (r =? 92) with false by lia. cbn [andb].
      rewrite IH. { cbn [rev]. rewrite <- app_assoc. reflexivity. }
      cbn [app length] in Hf. rewrite app_length in Hf. lia.
Qed.

Lemma last_byte_snoc (l : bstr) x : Quote.last_byte (l ++ [x]) = Some x.
Proof. induction l as [|c l IH]; [reflexivity|]. cbn [app Quote.last_byte]. destruct (l ++ [x]) eqn:E; [destruct l; discriminate | exact IH]. Qed.

(* every valid UTF-8 key written by the printer reads back as itself *)
Theorem key_roundtrip k : utf8_valid k = true -> unquote_string (quote_key k) = Some k.
Proof.
  intros Hv. unfold quote_key, unquote_string. cbn [app].
  destruct (escape_key k ++ [39]) as [|a l] eqn:E; [destruct (escape_key k); discriminate|].
  rewrite <- E. rewrite last_byte_snoc, removelast_last.
  change (39 =? q_quote) with true. cbn [andb].
  destruct (negb (mem q_backslash (escape_key k)) && negb (mem q_quote (escape_key k))) eqn:Efast.
  - apply andb_true_iff in Efast. destruct Efast as [H1 _]. apply negb_true_iff in H1.
    f_equal. apply escape_key_no_backslash, H1.
  - rewrite unquote_loop_escaped by (exact Hv || lia). cbn [rev app]. f_equal. apply string_of_runes_valid, Hv.
Qed.
