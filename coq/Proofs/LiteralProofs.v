(* Literal conversion facts used by the round-trip theorems: an int64 printed by
   strconv.FormatInt reads back through strconv.ParseInt (base 10) as itself. *)
From Soy Require Import Model.Bytes Model.Num Model.Utf8 Model.NumLit Model.Quote Model.ExprParser Proofs.MsgIdProofs.
Require Import Lia ZifyBool ZifyNat ZifyN.
Open Scope N_scope.

Lemma digits_val_app base s1 s2 acc :
  digits_val base (s1 ++ s2) acc =
  match digits_val base s1 acc with Some a => digits_val base s2 a | None => None end.
Proof.
  revert acc; induction s1 as [|c s1 IH]; intros acc; cbn [app digits_val]; [reflexivity|].
  destruct (digit_val c) as [d|]; [|reflexivity]. destruct (d <? base); [apply IH | reflexivity].
Qed.

Lemma digit_val_digit c : is_digit_byte c -> digit_val c = Some (c - 48).
Proof. unfold is_digit_byte, digit_val, in_range. intros [H1 H2]. replace ((48 <=? c) && (c <=? 57)) with true by lia. reflexivity. Qed.

Lemma digits_val_rev l : Forall is_digit_byte l -> digits_val 10 (rev l) 0 = Some (lval l).
Proof.
  induction l as [|c r IH]; intros Hd; [reflexivity|].
  inversion Hd as [|? ? Hc Hr]; subst. cbn [rev lval]. rewrite digits_val_app, (IH Hr).
  cbn [digits_val]. rewrite (digit_val_digit c Hc). unfold is_digit_byte in Hc.
  replace (c - 48 <? 10) with true by lia. f_equal. lia.
Qed.

Lemma digits_val_dec n : digits_val 10 (dec_of_N n) 0 = Some n.
Proof.
  rewrite dec_of_N_lsd, digits_val_rev by apply lsd_digits.
  rewrite lval_lsd by apply lt_pow2_log2. reflexivity.
Qed.

Lemma dec_of_N_head n : exists c r, dec_of_N n = c :: r /\ is_digit_byte c.
Proof.
  pose proof (dec_of_N_digits n) as Hd. pose proof (dec_of_N_nonempty n) as Hne.
  destruct (dec_of_N n) as [|c r]; [congruence|]. inversion Hd; subst. eauto.
Qed.

Lemma parse_int_dec_N n : in_int64 (Z.of_N n) = true -> parse_int 10 (dec_of_N n) = Some (Z.of_N n).
Proof.
  intros Hi. unfold parse_int. destruct (dec_of_N_head n) as (c & r & E & Hc).
  pose proof (digits_val_dec n) as Hv. rewrite E in *. unfold is_digit_byte in Hc.
  replace (c =? 43) with false by lia. replace (c =? 45) with false by lia.
  rewrite Hv, Hi. reflexivity.
Qed.

Lemma parse_int_dec z : in_int64 z = true -> parse_int 10 (dec_of_Z z) = Some z.
Proof.
  intros Hi. destruct z as [|p|p]; cbn [dec_of_Z].
  - reflexivity.
  - apply (parse_int_dec_N (Npos p)). exact Hi.
  - unfold parse_int. change (45 =? 43) with false. change (45 =? 45) with true. cbv iota.
    destruct (dec_of_N_head (Npos p)) as (c & r & E & Hc). pose proof (digits_val_dec (Npos p)) as Hv.
    rewrite E in *. rewrite Hv. change (- Z.of_N (Npos p))%Z with (Zneg p). rewrite Hi. reflexivity.
Qed.

Lemma dec_of_Z_no_0x z : is_prefix s_0x (dec_of_Z z) = false.
Proof.
  pose proof (dec_of_Z_chars z) as Hc.
  destruct (dec_of_Z z) as [|c1 [|c2 r]]; [reflexivity | |].
  - unfold s_0x. cbn [is_prefix]. destruct (48 =? c1); reflexivity.
  - inversion Hc as [|? ? _ Hc2]; subst. inversion Hc2 as [|? ? H2 _]; subst.
    unfold s_0x. cbn [is_prefix]. unfold is_digit_byte in H2.
    replace (120 =? c2) with false by lia. cbn [andb]. apply andb_false_r.
Qed.

(* the index of a data reference: ".N" with N >= 0 *)
Lemma slice_from_app (pre s : bstr) : slice_from (length pre) (pre ++ s) = Some s.
Proof.
  unfold slice_from. rewrite app_length. replace (length pre + length s <? length pre)%nat with false by lia.
  f_equal. induction pre as [|c pre IH]; [reflexivity|]. exact IH.
Qed.
