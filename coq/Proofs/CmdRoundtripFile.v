(* C17 through the file entry point: parse.SoyFile(String(file)) for a file whose String() is source syntax.
   SoyFileNode.String() is the concatenation of the String()s of the file's nodes, and parse.SoyFile is itemList
   with the until set {EOF} over the items of the whole text under the budget file_fuel.  The nodes whose String()
   is source syntax are the commands of a body (notes/astprint-reparse.md: TemplateNode prints the qualified name
   and drops attributes, NamespaceNode drops autoescape, SoyDocNode the description -- W3), so the files covered
   are the lists of body-level commands: exactly what parse.SoyFile accepts in front of the first template.
   Composition: bytes -> items (Proofs/LexBodyC17Body.v, class lb17_okb) -> itemList up to EOF reads the Spec's
   items as the body (Proofs/CmdRoundtripEof.v) -> any items with the same types and texts give the same tree up to
   positions (Proofs/CmdParserStripMain.v) -> the budget of the entry point is enough (Proofs/PrintCmdFile.v
   soy_file_of_big_fuel). *)
From Soy Require Import Model.Bytes Model.Outcome Model.Num Model.Ast Model.Token Model.RawText Model.Lexer Model.ExprParser Model.Parser Generated.Tables
  Model.AstPrint Model.AstPrintCmd Spec.ExprSyntax Spec.CmdSyntax Proofs.ExprParserRules Proofs.ExprParserStrip Proofs.ExprParserMono
  Proofs.ParserProofs Proofs.LexParseBridge Proofs.LexerProofs
  Proofs.CmdRoundtripBase Proofs.CmdRoundtripRules Proofs.CmdRoundtrip Proofs.CmdRoundtripEof
  Proofs.CmdParserStripDefs Proofs.CmdParserStripMain Proofs.CmdRoundtripStrip Proofs.PrintCmdFile
  Proofs.LexPrintMain Proofs.LexBodyC17 Proofs.LexBodyC17Cmds Proofs.LexBodyC17Body.
From Coq Require Import Lia.
Open Scope N_scope.

(* token level, from the initial state: ANY items with the types and texts of body_toks x followed by an EOF item *)
Theorem file_roundtrip_any_positions (inlen inlen' : N) (lexq : bstr -> list tok) (unq : bstr -> option bstr) :
  (forall s q, go_quote s = Some q -> unq q = Some s) ->
  forall q nodes e its,
  wf_body lexq (nameok [] []) false (NList q nodes) -> t_typ e = pit_EOF ->
  map strip_tok its = map strip_tok (body_toks (NList q nodes) ++ [e]) ->
  exists f0, forall f, (f0 <= f)%nat ->
    exists x' s', item_list inlen' lexq unq parse_expr expr_fuel f u_eof (cst_init its) = COk x' s' /\
                  cps_strip x' = cps_strip (NList q nodes).
Proof.
  intros Hunq q nodes e its Hwf He Hits.
  set (ts := body_toks (NList q nodes) ++ [e]) in *.
  destruct (stream_init ts) as [Hs Hi].
  destruct (parse_body_roundtrip_eof [] [] inlen lexq unq expr_fuel expr_fuel_ok Hunq false q nodes e [] Hwf He) as (pos' & HB).
  destruct (HB (cst_init ts) (pst_init ts) [] Hs Hi (conj eq_refl (conj eq_refl eq_refl))) as (p' & sc' & f0 & HF).
  exists f0. intros f Hf. specialize (HF f f Hf Hf).
  change (set_ps (cst_init ts) (pst_init ts) []) with (cst_init ts) in HF.
  destruct (cps_body_expr_fuel inlen inlen' lexq unq f u_eof ts its _ _ (eq_sym Hits) HF) as (x' & s' & E & Hx).
  exists x', s'. split; [exact E|]. rewrite <- Hx. reflexivity.
Qed.

(* bytes -> tree through parse.SoyFile *)
Theorem soy_file_text_roundtrip (lexq : bstr -> list tok) (unq : bstr -> option bstr) :
  lexq_wf lexq -> (forall s q, go_quote s = Some q -> unq q = Some s) ->
  forall q ns txt,
  wf_body lexq (nameok [] []) false (NList q ns) -> lb17_okb ns -> print_tree (NList q ns) = Some txt ->
  exists its x' p',
    lex_items is_letter_tbl is_digit_tbl (lex_budget txt) false txt = Ok its /\
    po_result (soy_file (N.of_nat (length txt)) lexq unq its) = POk x' p' /\
    cps_strip x' = cps_strip (NList q ns).
Proof.
  intros Hq Hunq q ns txt Hwf Hok Hpr.
  destruct (lb17_lex_body_tbl q ns txt Hok Hpr) as (its & e & Hlex & He & Htv).
  destruct tables_eof as [El Ed].
  destruct (lex_items_total _ _ El Ed false txt) as (ts & Hl & Hsc). rewrite Hlex in Hl. injection Hl as <-.
  pose proof (scan_items_wf_all _ _ Hsc) as Hw. set (inlen := N.of_nat (length txt)) in *.
  assert (Hits : map strip_tok (its ++ [e]) = map strip_tok (body_toks (NList q ns) ++ [e])).
  { rewrite !map_app. f_equal. apply strip_tok_of_tv. exact Htv. }
  destruct (file_roundtrip_any_positions inlen inlen lexq unq Hunq q ns e (its ++ [e]) Hwf He Hits) as (f0 & HF).
  destruct (HF f0 (le_n _)) as (x' & s' & E & Hx).
  exists (its ++ [e]), x', (c_p s'). split; [exact Hlex|]. split; [|exact Hx].
  exact (soy_file_of_big_fuel inlen lexq unq (its ++ [e]) f0 x' s' Hq Hw E).
Qed.
