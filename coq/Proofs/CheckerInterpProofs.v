(* C07, last clause: static scoping (the Spec of Spec/Wf.v, hence the checker) is
   sound for the renderer's scope stack (Model/Interp.v): rendering a template of
   a well-formed bundle with all its declared params supplied never misses a
   scope lookup -- provided every call passes every param its callee declares
   ([calls_total]; an omitted optional param or the map behind data="$e" cannot
   be known statically) and {let}s occur where the parser puts them ([shaped]).

   Method.  [keeps P m Q]: started in a state whose scope satisfies [P], the
   computation [m] never bumps the unbound-lookup counter, whatever its outcome,
   and when it returns normally its scope is a frame-wise extension ([sc_ext]:
   same frames, same entered flags, more keys) of the initial one and
   satisfies [Q].  [good ps G L s]: the scope binds the params ps, the
   variables G, the loop counters of the loops L, and its data="all" part
   binds ps.  The walker is treated in open-recursion style: [walk_body_ok]
   proves the specification of [walk_body cf w] from that of [w]; induction on
   the fuel closes. *)
From Coq Require Import Lia.
From Soy Require Import Model.Bytes Model.Num Model.Values Model.Outcome Model.Ast Model.Escape Model.Directives
  Model.Print Generated.Tables Model.Interp Model.RefView Model.Checker Spec.Wf
  Proofs.ValueProofs Proofs.ConvertProofs Proofs.InterpLogic Proofs.CheckerProofs.
Open Scope N_scope.

(* ================================================================== *)
(* scopes *)

Definition bound (s : scope) (k : bstr) : Prop := sc_lookup s k <> None.
Definition fdom (f : frame) (k : bstr) : Prop := assoc_s k (f_vars f) <> None.

Lemma bound_cons f s k : bound (f :: s) k <-> fdom f k \/ bound s k.
Proof.
  unfold bound, fdom. cbn [sc_lookup]. destruct (assoc_s k (f_vars f)); split; intros H.
  - left. discriminate.
  - discriminate.
  - right. exact H.
  - destruct H as [H|H]; [congruence | exact H].
Qed.

(* frame-wise extension: same frames, same entered flags, more keys *)
Inductive sc_ext : scope -> scope -> Prop :=
| ext_nil : sc_ext [] []
| ext_cons f f' s s' :
    (forall k, fdom f k -> fdom f' k) -> f_entered f = f_entered f' -> sc_ext s s' -> sc_ext (f :: s) (f' :: s').

Lemma sc_ext_refl s : sc_ext s s.
Proof. induction s; constructor; auto. Qed.

Lemma sc_ext_trans a c d : sc_ext a c -> sc_ext c d -> sc_ext a d.
Proof.
  intros H. revert d. induction H as [|f f' s s' Hd1 He1 Hs IH]; intros d Hd; inversion Hd; subst; constructor.
  - intros k Hk. auto.
  - congruence.
  - apply IH. assumption.
Qed.

Lemma sc_ext_bound s s' k : sc_ext s s' -> bound s k -> bound s' k.
Proof.
  induction 1 as [|f f' s s' Hd He Hs IH]; intros Hb; [exact Hb|].
  apply bound_cons in Hb. apply bound_cons. destruct Hb; [left; auto | right; auto].
Qed.

Lemma sc_ext_alldata s s' sA : sc_ext s s' -> sc_alldata s = Some sA ->
  exists sA', sc_alldata s' = Some sA' /\ sc_ext sA sA'.
Proof.
  induction 1 as [|f f' s s' Hd He Hs IH]; intros Ha; [discriminate|].
  cbn [sc_alldata] in *. rewrite <- He. destruct (f_entered f) eqn:Hf.
  - injection Ha as <-. eexists. split; [reflexivity|]. constructor; [assumption | congruence | assumption].
  - apply IH. exact Ha.
Qed.

Lemma sc_ext_nonempty s s' : sc_ext s s' -> s <> [] -> s' <> [].
Proof. destruct 1; congruence. Qed.

Lemma fdom_set f k v k' :
  fdom {| f_vars := map_set (f_vars f) k v; f_entered := f_entered f; f_origin := f_origin f |} k'
  <-> k' = k \/ fdom f k'.
Proof.
  unfold fdom. cbn [f_vars]. destruct (bstr_eqb_spec k' k) as [->|Hne].
  - rewrite assoc_s_map_set_same. split; [auto | discriminate].
  - rewrite assoc_s_map_set_other by (destruct (bstr_eqb_spec k' k); congruence). tauto.
Qed.

Lemma sc_set_ext s k v : sc_ext s (sc_set s k v).
Proof.
  destruct s as [|f r]; [constructor|]. cbn [sc_set]. constructor; [|reflexivity|apply sc_ext_refl].
  intros k' H. apply fdom_set. right. exact H.
Qed.

Lemma sc_set_bound s k v : s <> [] -> bound (sc_set s k v) k.
Proof.
  destruct s as [|f r]; [congruence|]. intros _. cbn [sc_set]. apply bound_cons. left. apply fdom_set. left. reflexivity.
Qed.

Lemma sc_set_nonempty s k v : s <> [] -> sc_set s k v <> [].
Proof. destruct s; [congruence|]. cbn. discriminate. Qed.

Lemma bound_push s k : bound (sc_push s) k <-> bound s k.
Proof. unfold sc_push. rewrite bound_cons. unfold fdom. cbn. intuition congruence. Qed.

(* ================================================================== *)
(* the invariant *)

Definition idx_names (L : list bstr) : list bstr := flat_map (fun x => [x ++ s_index; x ++ s_lastindex]) L.

Definition good (ps G L : list bstr) (s : scope) : Prop :=
  (forall k, In k ps \/ In k G \/ In k (idx_names L) -> bound s k)
  /\ exists sA, sc_alldata s = Some sA /\ forall k, In k ps -> bound sA k.

Lemma good_ext ps G L s s' : good ps G L s -> sc_ext s s' -> good ps G L s'.
Proof.
  intros [Hb (sA & Ha & HA)] He. split.
  - intros k Hk. eapply sc_ext_bound; eauto.
  - destruct (sc_ext_alldata _ _ _ He Ha) as (sA' & Ha' & He'). exists sA'. split; [exact Ha'|].
    intros k Hk. eapply sc_ext_bound; eauto.
Qed.

Lemma good_push ps G L s : good ps G L s -> good ps G L (sc_push s).
Proof.
  intros [Hb (sA & Ha & HA)]. split.
  - intros k Hk. apply bound_push. auto.
  - exists sA. split; [exact Ha | exact HA].
Qed.

Lemma good_more ps G L G' L' s :
  good ps G L s -> (forall k, In k G' \/ In k (idx_names L') -> bound s k) -> good ps G' L' s.
Proof.
  intros [Hb HA] H. split; [|exact HA]. intros k [Hk|Hk]; [apply Hb; auto | apply H; exact Hk].
Qed.

Lemma good_let ps G L s x : good ps G L s -> bound s x -> good ps (x :: G) L s.
Proof.
  intros Hg Hx. eapply good_more; [exact Hg|]. intros k [[<-|Hk]|Hk]; [exact Hx | |]; apply (proj1 Hg); auto.
Qed.

(* ================================================================== *)
(* the specification of computations *)

Definition keeps {A} (P : scope -> Prop) (m : M A) (Q : A -> scope -> Prop) : Prop :=
  forall st r st', P (ctx st) -> m st = (r, st') ->
    unbound st' = unbound st /\ (forall v, r = Ok v -> sc_ext (ctx st) (ctx st') /\ Q v (ctx st')).

Definition ext_closed (P : scope -> Prop) : Prop := forall s s', P s -> sc_ext s s' -> P s'.
Definition anyQ {A} : A -> scope -> Prop := fun _ _ => True.

Lemma good_closed ps G L : ext_closed (good ps G L).
Proof. intros s s' H He. eapply good_ext; eauto. Qed.

Lemma and_closed (P Q : scope -> Prop) : ext_closed P -> ext_closed Q -> ext_closed (fun s => P s /\ Q s).
Proof. intros HP HQ s s' [H1 H2] He. split; eauto. Qed.

Lemma bound_closed k : ext_closed (fun s => bound s k).
Proof. intros s s' H He. eapply sc_ext_bound; eauto. Qed.

Lemma nonempty_closed : ext_closed (fun s => s <> []).
Proof. intros s s' H He. eapply sc_ext_nonempty; eauto. Qed.

Lemma keeps_weaken {A} (P P' : scope -> Prop) (m : M A) (Q Q' : A -> scope -> Prop) :
  keeps P m Q -> (forall s, P' s -> P s) -> (forall v s, Q v s -> Q' v s) -> keeps P' m Q'.
Proof.
  intros H HP HQ st r st' Hp Hr. destruct (H st r st' (HP _ Hp) Hr) as [Hu Hok]. split; [exact Hu|].
  intros v Hv. destruct (Hok v Hv). split; auto.
Qed.

Lemma keeps_pre {A} (P P' : scope -> Prop) (m : M A) Q : keeps P m Q -> (forall s, P' s -> P s) -> keeps P' m Q.
Proof. intros H HP. eapply keeps_weaken; eauto. Qed.

Lemma keeps_any {A} (P : scope -> Prop) (m : M A) Q : keeps P m Q -> keeps P m anyQ.
Proof. intros H. eapply keeps_weaken; eauto. intros; exact I. Qed.

Lemma keeps_ext {A} (P : scope -> Prop) (m m' : M A) Q : (forall st, m st = m' st) -> keeps P m Q -> keeps P m' Q.
Proof. intros He H st r st' Hp Hr. rewrite <- He in Hr. eapply H; eauto. Qed.

Lemma keeps_ret {A} (P : scope -> Prop) (x : A) (Q : A -> scope -> Prop) : (forall s, P s -> Q x s) -> keeps P (ret x) Q.
Proof.
  intros HQ st r st' Hp Hr. inversion Hr; subst. split; [reflexivity|]. intros v Hv. inversion Hv; subst.
  split; [apply sc_ext_refl | auto].
Qed.

Lemma keeps_ret_any {A} (P : scope -> Prop) (x : A) : keeps P (ret x) anyQ.
Proof. apply keeps_ret. intros; exact I. Qed.

Lemma keeps_fail {A} (P : scope -> Prop) e (Q : A -> scope -> Prop) : keeps P (@fail A e) Q.
Proof. intros st r st' Hp Hr. inversion Hr; subst. split; [reflexivity|]. intros v Hv. discriminate. Qed.

Lemma keeps_lift {A} (P : scope -> Prop) (o : outcome A) : keeps P (lift o) anyQ.
Proof.
  intros st r st' Hp Hr. inversion Hr; subst. split; [reflexivity|]. intros v Hv. split; [apply sc_ext_refl | exact I].
Qed.

Lemma keeps_get_ctx (P : scope -> Prop) : keeps P get (fun st0 s => ctx st0 = s).
Proof.
  intros st r st' Hp Hr. inversion Hr; subst. split; [reflexivity|]. intros v Hv. inversion Hv; subst.
  split; [apply sc_ext_refl | reflexivity].
Qed.
Lemma keeps_get (P : scope -> Prop) : keeps P get anyQ.
Proof. eapply keeps_any. apply keeps_get_ctx. Qed.

Lemma keeps_modify (P : scope -> Prop) f : (forall st, ctx (f st) = ctx st /\ unbound (f st) = unbound st) -> keeps P (modify f) anyQ.
Proof.
  intros Hf st r st' Hp Hr. inversion Hr; subst. destruct (Hf st) as [Hc Hu]. split; [exact Hu|].
  intros v Hv. rewrite Hc. split; [apply sc_ext_refl | exact I].
Qed.

Lemma keeps_bind {A B} (P : scope -> Prop) (m : M A) (f : A -> M B) Q1 Q2 :
  ext_closed P -> keeps P m Q1 -> (forall x, keeps (fun s => P s /\ Q1 x s) (f x) Q2) -> keeps P (mbind m f) Q2.
Proof.
  intros Hcl Hm Hf st r st2 Hp Hr.
  destruct (mbind_inv _ _ _ _ _ Hr) as [(x & st1 & H1 & H2) | (e & H1 & ->)].
  - destruct (Hm _ _ _ Hp H1) as [Hu1 Hok1]. destruct (Hok1 x eq_refl) as [He1 Hq1].
    destruct (Hf x st1 r st2 (conj (Hcl _ _ Hp He1) Hq1) H2) as [Hu2 Hok2]. split; [congruence|].
    intros v Hv. destruct (Hok2 v Hv) as [He2 Hq2]. split; [eapply sc_ext_trans; eauto | exact Hq2].
  - destruct (Hm _ _ _ Hp H1) as [Hu1 _]. split; [exact Hu1|]. intros v Hv. exfalso. eapply of_fault_not_ok; eauto.
Qed.

(* the common case: the intermediate postcondition is not needed *)
Lemma keeps_bind0 {A B} (P : scope -> Prop) (m : M A) (f : A -> M B) Q1 Q2 :
  ext_closed P -> keeps P m Q1 -> (forall x, keeps P (f x) Q2) -> keeps P (mbind m f) Q2.
Proof.
  intros Hcl Hm Hf. eapply keeps_bind; [exact Hcl | exact Hm |]. intros x. eapply keeps_pre; [apply Hf|]. tauto.
Qed.

(* primitives *)
Lemma write_frame wd st r st' : write wd st = (r, st') -> ctx st' = ctx st /\ unbound st' = unbound st.
Proof.
  unfold write. destruct (bufs st) as [|buf rest].
  - destruct (calls_left st) as [[|n]|]; destruct (bytes_left st) as [k|];
      try (destruct (N.of_nat (length wd) <=? k)); intros H; inversion H; subst; split; reflexivity.
  - intros H; inversion H; subst; split; reflexivity.
Qed.

Lemma keeps_write (P : scope -> Prop) wd : keeps P (write wd) anyQ.
Proof.
  intros st r st' Hp Hr. destruct (write_frame _ _ _ _ Hr) as [Hc Hu]. split; [exact Hu|].
  intros v Hv. rewrite Hc. split; [apply sc_ext_refl | exact I].
Qed.

Lemma keeps_write_all (P : scope -> Prop) ws : ext_closed P -> keeps P (write_all ws) anyQ.
Proof.
  intros Hcl. induction ws as [|x r IH]; cbn [write_all]; [apply keeps_ret_any|].
  eapply keeps_bind0; [exact Hcl | apply keeps_write | intros _; exact IH].
Qed.

Lemma keeps_set (P : scope -> Prop) k v : keeps P (m_set k v) (fun _ s => bound s k /\ s <> []).
Proof.
  intros st r st' Hp Hr. rewrite m_set_eq in Hr. destruct (ctx st) as [|f rest] eqn:Hc.
  - inversion Hr; subst. split; [reflexivity|]. intros v0 Hv. discriminate.
  - inversion Hr; subst. split; [destruct (f_origin f); reflexivity|]. intros v0 _.
    rewrite ctx_set_ctx. split; [apply (sc_set_ext (f :: rest) k v)|].
    split; [apply (sc_set_bound (f :: rest) k v) | apply (sc_set_nonempty (f :: rest) k v)]; discriminate.
Qed.

Lemma keeps_lookup (P : scope -> Prop) k : (forall s, P s -> bound s k) -> keeps P (m_lookup k) anyQ.
Proof.
  intros Hb st r st' Hp Hr. rewrite m_lookup_eq in Hr. specialize (Hb _ Hp). unfold bound in Hb.
  destruct (sc_lookup (ctx st) k); [|congruence]. inversion Hr; subst. split; [reflexivity|].
  intros v0 _. split; [apply sc_ext_refl | exact I].
Qed.

Lemma keeps_fresh_list (P : scope -> Prop) l : keeps P (fresh_list l) anyQ.
Proof.
  intros st r st' Hp Hr. rewrite fresh_list_eq in Hr. destruct l; inversion Hr; subst; (split; [reflexivity|]);
    intros v0 _; (split; [apply sc_ext_refl | exact I]).
Qed.
Lemma keeps_fresh_list_or_nil (P : scope -> Prop) l : keeps P (fresh_list_or_nil l) anyQ.
Proof.
  intros st r st' Hp Hr. rewrite fresh_list_or_nil_eq in Hr. destruct l; inversion Hr; subst; (split; [reflexivity|]);
    intros v0 _; (split; [apply sc_ext_refl | exact I]).
Qed.
Lemma keeps_fresh_map (P : scope -> Prop) m : keeps P (fresh_map m) anyQ.
Proof.
  intros st r st' Hp Hr. inversion Hr; subst. split; [reflexivity|]. intros v0 _. split; [apply sc_ext_refl | exact I].
Qed.

(* scope push .. pop *)
Lemma keeps_scoped (P P' : scope -> Prop) (m : M unit) Q :
  (forall s, P s -> P' (sc_push s)) -> keeps P' m Q ->
  keeps P (_ <-- m_push ;;; _ <-- m ;;; _ <-- m_pop ;;; ret VUndef) anyQ.
Proof.
  intros Hpush Hm st r st' Hp Hr. rewrite scoped_eq in Hr.
  destruct (m (pushed st)) as [r1 st2] eqn:Hrun. cbn [fst snd] in Hr.
  destruct (Hm (pushed st) r1 st2 (Hpush _ Hp) Hrun) as [Hu Hok]. cbn in Hu.
  destruct (classify r1) as [x|e] eqn:Hcl; inversion Hr; subst.
  - split; [exact Hu|]. intros v _. apply classify_ok in Hcl. destruct (Hok x Hcl) as [He _].
    unfold pushed in He. rewrite ctx_set_ctx in He. unfold sc_push in He. inversion He; subst.
    unfold popped. rewrite ctx_set_ctx. match goal with H : _ = ctx st2 |- _ => rewrite <- H end. cbn [sc_pop tl].
    split; [assumption | exact I].
  - split; [exact Hu|]. intros v Hv. exfalso. eapply of_fault_not_ok; eauto.
Qed.

(* a call: the caller's scope is back afterwards, on every outcome *)
Lemma keeps_enter (P Pc : scope -> Prop) (w : node -> M value) callee cd Q :
  Pc (sc_enter cd) -> keeps Pc (w (t_node callee)) Q -> keeps P (call_enter w callee cd) anyQ.
Proof.
  intros Hpc Hw st r st' Hp Hr. rewrite call_enter_eq in Hr. cbn zeta in Hr.
  destruct (w (t_node callee) (entered st callee cd)) as [r1 st2] eqn:Hrun. cbn [fst snd] in Hr.
  destruct (Hw (entered st callee cd) r1 st2 Hpc Hrun) as [Hu _]. cbn in Hu.
  inversion Hr; subst. split; [exact Hu|]. intros v _. rewrite ctx_left. split; [apply sc_ext_refl | exact I].
Qed.

(* ================================================================== *)
(* the static side: what well-formedness gives for the children of a node *)

Section Link.
Variable cf : cfg.
Let T := r_templates (c_reg cf).

Definition rt_ok (ps G L : list bstr) (t : rt) : Prop :=
  wf T ps t G L = true /\ shaped t = true /\ calls_total_rt T ps t = true.

Fixpoint seq_ok (ps G L : list bstr) (ks : list rt) : Prop :=
  match ks with
  | [] => True
  | c :: r => rt_ok ps G L c /\ seq_ok ps (match rt_kind c with KLet x => x :: G | _ => G end) L r
  end.

Lemma wf_seq_no_lets ps ks G L : no_lets ks = true ->
  wf_seq ks (map (wf T ps) ks) G L = forallb (fun c => wf T ps c G L) ks.
Proof.
  induction ks as [|c r IH]; intros H; [reflexivity|]. apply no_lets_cons in H as [Hc Hr].
  cbn [wf_seq map forallb]. rewrite <- (IH Hr). destruct (rt_kind c); cbn in Hc; try discriminate; reflexivity.
Qed.

Lemma rt_ok_parts ps G L k kids :
  rt_ok ps G L (RT k kids) ->
  wf_body T ps k kids (map (wf T ps) kids) G L = true
  /\ (is_block_kind k = true \/ no_lets kids = true)
  /\ Forall (fun c => shaped c = true /\ calls_total_rt T ps c = true) kids.
Proof.
  intros (Hw & Hs & Hc). split; [exact Hw|].
  cbn [shaped] in Hs. apply andb_true_iff in Hs as [Hs Hsk]. apply andb_true_iff in Hs as [Hs _].
  cbn [calls_total_rt] in Hc. apply andb_true_iff in Hc as [_ Hck].
  split.
  - apply orb_true_iff in Hs. exact Hs.
  - apply Forall_forall. intros c Hin. rewrite forallb_forall in Hsk, Hck. split; auto.
Qed.

Lemma forall_ok ps G L kids :
  forallb (fun c => wf T ps c G L) kids = true ->
  Forall (fun c => shaped c = true /\ calls_total_rt T ps c = true) kids ->
  Forall (rt_ok ps G L) kids.
Proof.
  intros Hw Hf. apply Forall_forall. intros c Hin. rewrite forallb_forall in Hw. rewrite Forall_forall in Hf.
  destruct (Hf c Hin). split; [auto | split; assumption].
Qed.

(* a parent that is neither a block nor a loop: its children are judged in the parent's environment *)
Lemma rt_ok_kids ps G L k kids :
  rt_ok ps G L (RT k kids) -> is_block_kind k = false -> (forall x, k <> KFor x) ->
  Forall (rt_ok ps G L) kids.
Proof.
  intros H Hb Hf. destruct (rt_ok_parts _ _ _ _ _ H) as (Hw & [Hbl|Hnl] & Hk); [congruence|].
  apply forall_ok; [|exact Hk]. rewrite <- (wf_seq_no_lets ps kids G L Hnl).
  destruct k; cbn [wf_body] in Hw; try discriminate; try (apply andb_true_iff in Hw as [_ Hw]); try exact Hw.
  exfalso. eapply Hf. reflexivity.
Qed.

Lemma rt_ok_block ps G L kids : rt_ok ps G L (RT KBlock kids) -> seq_ok ps G L kids.
Proof.
  intros H. destruct (rt_ok_parts _ _ _ _ _ H) as (Hw & _ & Hk). cbn [wf_body] in Hw. clear H.
  revert G Hw. induction kids as [|c r IH]; intros G Hw; [exact I|].
  inversion Hk as [|? ? [Hs Hc] Hr]; subst. cbn [wf_seq map] in Hw. apply andb_true_iff in Hw as [Hwc Hw].
  cbn [seq_ok]. split; [split; [exact Hwc | split; assumption]|].
  destruct (rt_kind c); try (apply IH; assumption).
  apply andb_true_iff in Hw as [_ Hw]. apply IH; assumption.
Qed.

Lemma rt_ok_for ps G L x kids :
  rt_ok ps G L (RT (KFor x) kids) ->
  exists l body ie, kids = l :: body :: ie /\ rt_ok ps G L l /\ rt_ok ps (x :: G) (x :: L) body /\ Forall (rt_ok ps G L) ie.
Proof.
  intros H. destruct (rt_ok_parts _ _ _ _ _ H) as (Hw & _ & Hk). cbn [wf_body] in Hw.
  destruct kids as [|l [|body ie]]; cbn [map] in Hw; try discriminate.
  exists l, body, ie. split; [reflexivity|].
  apply andb_true_iff in Hw as [Hw Hie]. apply andb_true_iff in Hw as [Hl Hb].
  inversion Hk as [|? ? [Hsl Hcl] Hk1]; subst. inversion Hk1 as [|? ? [Hsb Hcb] Hk2]; subst.
  split; [split; [exact Hl | split; assumption]|]. split; [split; [exact Hb | split; assumption]|].
  apply forall_ok; [|exact Hk2]. clear -Hie. induction ie as [|c r IH]; [reflexivity|].
  cbn [map forallb] in *. apply andb_true_iff in Hie as [H1 H2]. rewrite H1, (IH H2). reflexivity.
Qed.

Lemma Forall_map_view (P : rt -> Prop) ns : Forall P (map view ns) <-> Forall (fun n => P (view n)) ns.
Proof. apply Forall_map. Qed.

(* ================================================================== *)
(* one unfolding of the walker *)

Definition post (n : node) : value -> scope -> Prop :=
  fun _ s => match rt_kind (view n) with KLet x => bound s x | _ => True end.

Definition w_ok (w : node -> M value) : Prop :=
  forall ps G L n, rt_ok ps G L (view n) -> keeps (good ps G L) (w n) (post n).

(* the registry: every template body is well-formed under its own params *)
Hypothesis Hreg : forall t, In t T -> rt_ok (map fst (t_params t)) [] [] (view (t_node t)).

Section Body.
Variable w : node -> M value.
Hypothesis Hw : w_ok w.

Ltac kb x := eapply keeps_bind0; [apply good_closed | | intros x].
Ltac kmod := apply keeps_modify; intros; split; reflexivity.

Lemma w_any ps G L n : rt_ok ps G L (view n) -> keeps (good ps G L) (w n) anyQ.
Proof. intros H. eapply keeps_any. apply Hw. exact H. Qed.

Lemma eval_ok ps G L e : rt_ok ps G L (view e) -> keeps (good ps G L) (eval w e) anyQ.
Proof.
  intros H. unfold eval. kb st0; [apply keeps_get|]. kb v; [apply w_any; exact H|]. kb u; [kmod|]. apply keeps_ret_any.
Qed.

Lemma evaldef_ok ps G L e : rt_ok ps G L (view e) -> keeps (good ps G L) (evaldef w e) anyQ.
Proof. intros H. unfold evaldef. kb v; [apply eval_ok; exact H|]. destruct v; first [apply keeps_fail | apply keeps_ret_any]. Qed.

Lemma eval_list_ok ps G L es : Forall (fun e => rt_ok ps G L (view e)) es -> keeps (good ps G L) (eval_list w es) anyQ.
Proof.
  induction 1 as [|e r He Hr IH]; cbn [eval_list]; [apply keeps_ret_any|].
  kb v; [apply eval_ok; exact He|]. kb vs; [exact IH|]. apply keeps_ret_any.
Qed.

Lemma walk_list_ok ps L ns : forall G, seq_ok ps G L (map view ns) -> keeps (good ps G L) (walk_list w ns) anyQ.
Proof.
  induction ns as [|x r IH]; intros G H; cbn [walk_list]; [apply keeps_ret_any|].
  cbn [map seq_ok] in H. destruct H as [Hx Hr].
  eapply keeps_bind; [apply good_closed | apply Hw; exact Hx |]. intros v0.
  eapply keeps_pre; [apply IH; exact Hr|]. intros s [Hg Hp]. unfold post in Hp.
  destruct (rt_kind (view x)); try exact Hg. apply good_let; assumption.
Qed.

Lemma render_block_ok ps G L body : rt_ok ps G L (view body) -> keeps (good ps G L) (render_block w body) anyQ.
Proof.
  intros H. unfold render_block. kb u; [kmod|]. kb v; [apply w_any; exact H|]. kb st1; [apply keeps_get|].
  destruct (bufs st1); [apply keeps_fail|]. kb u2; [kmod|]. apply keeps_ret_any.
Qed.

Lemma maplit_items_ok ps G L l :
  Forall (fun kv => rt_ok ps G L (view (snd kv))) l -> keeps (good ps G L) (maplit_items w l) anyQ.
Proof.
  induction 1 as [|[k e] r He Hr IH]; cbn [maplit_items]; [apply keeps_ret_any|].
  kb v; [apply eval_ok; exact He|]. kb m; [exact IH|]. apply keeps_ret_any.
Qed.

(* leaves and case splits *)
Ltac kauto tac :=
  repeat first
    [ apply keeps_ret_any | apply keeps_fail | apply keeps_lift | tac
    | match goal with
      | |- keeps _ (if ?c then _ else _) _ => destruct c
      | |- keeps _ (match ?x with _ => _ end) _ => destruct x
      | |- keeps _ (let '(_, _) := ?p in _) _ => destruct p
      end ].

Lemma idx_in x L : In x L -> In (x ++ s_index) (idx_names L) /\ In (x ++ s_lastindex) (idx_names L).
Proof. intros H. unfold idx_names. split; apply in_flat_map; exists x; (split; [exact H|]); cbn; auto. Qed.

Lemma loop_func_ok ps G L name args :
  (forall p key acc rest, args = NDataRef p key acc :: rest -> In key L) ->
  keeps (good ps G L) (loop_func name args) anyQ.
Proof.
  intros H. unfold loop_func. destruct args as [|a rest]; [apply keeps_fail|].
  destruct a; try apply keeps_fail. destruct (idx_in _ _ (H _ _ _ _ eq_refl)) as [Hi Hl].
  kb ix; [apply keeps_lookup; intros s Hs; apply (proj1 Hs); auto|].
  destruct (fn_is name n_index); [apply keeps_ret_any|]. destruct ix; try apply keeps_fail.
  destruct (fn_is name n_isFirst); [apply keeps_ret_any|].
  kb li; [apply keeps_lookup; intros s Hs; apply (proj1 Hs); auto|].
  destruct li; first [apply keeps_fail | apply keeps_ret_any].
Qed.

Lemma call_func_ok ps G L name args :
  Forall (fun e => rt_ok ps G L (view e)) args -> keeps (good ps G L) (call_func w name args) anyQ.
Proof.
  intros H. unfold call_func. destruct (func_arities name); [|apply keeps_fail].
  destruct (negb (mem (N.of_nat (length args)) l)); [apply keeps_fail|].
  kb vs; [apply eval_list_ok; exact H|]. kb r; [apply keeps_lift|].
  destruct r; [apply keeps_ret_any | apply keeps_fresh_list_or_nil | apply keeps_fresh_map].
Qed.

Lemma acc_expr_ok ps G L p ns e : rt_ok ps G L (view (NAccExpr p ns e)) -> rt_ok ps G L (view e).
Proof.
  intros H. cbn [view] in H. apply rt_ok_kids in H; [|reflexivity|discriminate]. inversion H; assumption.
Qed.

Lemma dataref_access_ok ps G L acc :
  Forall (fun a => rt_ok ps G L (view a)) acc -> forall ref, keeps (good ps G L) (dataref_access w acc ref) anyQ.
Proof.
  induction 1 as [|a r Ha Hr IH]; intros ref; cbn [dataref_access]; [apply keeps_ret_any|].
  kb ik.
  - destruct a; try apply keeps_fail; try apply keeps_ret_any.
    kb kv; [apply eval_ok; eapply acc_expr_ok; exact Ha|].
    destruct kv; try apply keeps_ret_any; (kb s0; [apply keeps_lift | apply keeps_ret_any]).
  - kauto ltac:(apply IH).
Qed.

Lemma print_dirs_ok ps G L l :
  Forall (fun d => rt_ok ps G L (view d)) l -> forall v, keeps (good ps G L) (print_dirs cf w l v) anyQ.
Proof.
  induction 1 as [|d r Hd Hr IH]; intros v; cbn [print_dirs]; [apply keeps_ret_any|].
  destruct d; try apply keeps_fail.
  destruct (lookup_directive name) as [[arglens ?]|]; [|apply keeps_fail].
  destruct (negb (check_num_args arglens (length args))); [apply keeps_fail|].
  cbn [view] in Hd. apply rt_ok_kids in Hd; [|reflexivity|discriminate]. apply Forall_map_view in Hd.
  kb vs; [apply eval_list_ok; exact Hd|]. kb s; [apply keeps_lift|]. kb ws; [apply keeps_lift|].
  kb rest; [apply IH|]. apply keeps_ret_any.
Qed.

Lemma if_conds_ok ps G L cs :
  Forall (fun c => rt_ok ps G L (view c)) cs -> keeps (good ps G L) (if_conds w cs) anyQ.
Proof.
  induction 1 as [|c r Hc Hr IH]; cbn [if_conds]; [apply keeps_ret_any|].
  destruct c; try apply keeps_fail.
  cbn [view] in Hc. apply rt_ok_kids in Hc; [|reflexivity|discriminate].
  destruct cond as [c0|]; cbn [app] in Hc.
  - inversion Hc as [|? ? H1 H2]; subst. inversion H2 as [|? ? H3 _]; subst.
    kb v; [apply eval_ok; exact H1|]. destruct (truthy v); [|exact IH].
    kb u; [apply w_any; exact H3|]. apply keeps_ret_any.
  - inversion Hc as [|? ? H1 _]; subst. kb u; [apply w_any; exact H1|]. apply keeps_ret_any.
Qed.

Lemma bound_ne_closed k : ext_closed (fun s => bound s k /\ s <> []).
Proof. apply and_closed; [apply bound_closed | apply nonempty_closed]. Qed.

Lemma for_items_ok ps G L var body :
  rt_ok ps (var :: G) (var :: L) (view body) ->
  forall items i, keeps (fun s => good ps G L s /\ bound s (var ++ s_lastindex)) (for_items w var body i items) anyQ.
Proof.
  intros Hb. induction items as [|x r IH]; intros i; cbn [for_items]; [apply keeps_ret_any|].
  assert (Hcl : ext_closed (fun s => good ps G L s /\ bound s (var ++ s_lastindex)))
    by (apply and_closed; [apply good_closed | apply bound_closed]).
  eapply keeps_bind; [exact Hcl | apply keeps_set |]. intros u1.
  eapply keeps_bind; [apply and_closed; [exact Hcl | apply bound_ne_closed] | apply keeps_set |]. intros u2.
  eapply keeps_bind; [apply and_closed; [apply and_closed; [exact Hcl | apply bound_ne_closed] | apply bound_ne_closed] | |].
  - eapply keeps_pre; [apply Hw; exact Hb|]. intros s [[[Hg Hl] [Hv _]] [Hi _]].
    eapply good_more; [exact Hg|]. intros k [[<-|Hk]|Hk]; [exact Hv | apply (proj1 Hg); auto |].
    cbn [idx_names flat_map app In] in Hk. destruct Hk as [<-|[<-|Hk]]; [exact Hi | exact Hl | apply (proj1 Hg); auto].
  - intros v. eapply keeps_pre; [apply IH|]. tauto.
Qed.

Lemma case_hit_ok ps G L sv vs :
  Forall (fun e => rt_ok ps G L (view e)) vs -> keeps (good ps G L) (case_hit w sv vs) anyQ.
Proof.
  induction 1 as [|x r Hx Hr IH]; cbn [case_hit]; [apply keeps_ret_any|].
  kb cv; [apply eval_ok; exact Hx|]. destruct (equals sv cv); [apply keeps_ret_any | exact IH].
Qed.

Lemma switch_cases_ok ps G L sv cs :
  Forall (fun c => rt_ok ps G L (view c)) cs -> keeps (good ps G L) (switch_cases w sv cs) anyQ.
Proof.
  induction 1 as [|c r Hc Hr IH]; cbn [switch_cases]; [apply keeps_ret_any|].
  destruct c; try apply keeps_fail.
  cbn [view] in Hc. apply rt_ok_kids in Hc; [|reflexivity|discriminate].
  inversion Hc as [|? ? Hbody Hvals]; subst. apply Forall_map_view in Hvals.
  kb hit; [apply case_hit_ok; exact Hvals|].
  destruct (hit || _); [|exact IH]. kb u; [apply w_any; exact Hbody|]. apply keeps_ret_any.
Qed.

(* call params: evaluated in the caller's scope, set on the callee's *)
Definition params_post (cd : scope) (ps : list node) : scope -> scope -> Prop :=
  fun cd' _ => cd <> [] ->
    cd' <> [] /\ (forall k, bound cd k -> bound cd' k)
    /\ (forall k, In (Some k) (map param_key ps) -> bound cd' k).

Lemma param_value_ok ps G L p k v : rt_ok ps G L (view (NParamValue p k v)) -> rt_ok ps G L (view v).
Proof. intros H. cbn [view] in H. apply rt_ok_kids in H; [|reflexivity|discriminate]. inversion H; assumption. Qed.
Lemma param_content_ok ps G L p k c : rt_ok ps G L (view (NParamContent p k c)) -> rt_ok ps G L (view c).
Proof. intros H. cbn [view] in H. apply rt_ok_kids in H; [|reflexivity|discriminate]. inversion H; assumption. Qed.

Lemma params_step cd k x r cd' (n : node) :
  params_post (sc_set cd k x) r cd' [] -> param_key n = Some k ->
  params_post cd (n :: r) cd' [].
Proof.
  intros H Hn Hne. destruct (H (sc_set_nonempty _ k x Hne)) as (H1 & H2 & H3).
  split; [exact H1|]. split.
  - intros k0 Hb. apply H2. eapply sc_ext_bound; [apply sc_set_ext | exact Hb].
  - intros k0 [Hk|Hk]; [|apply H3; exact Hk]. rewrite Hn in Hk. injection Hk as <-.
    apply H2. apply sc_set_bound. exact Hne.
Qed.

Lemma call_params_ok ps G L params :
  Forall (fun p => rt_ok ps G L (view p)) params ->
  forall cd, keeps (good ps G L) (call_params w params cd) (fun cd' s => params_post cd params cd' []).
Proof.
  induction 1 as [|p r Hp Hr IH]; intros cd; cbn [call_params].
  - apply keeps_ret. intros s _ Hne. split; [exact Hne|]. split; [auto | intros k []].
  - destruct p; try apply keeps_fail.
    + kb x; [apply eval_ok; eapply param_value_ok; exact Hp|].
      eapply keeps_weaken; [apply IH | auto |]. intros cd' s H. eapply params_step; [exact H | reflexivity].
    + kb x; [apply render_block_ok; eapply param_content_ok; exact Hp|].
      eapply keeps_weaken; [apply IH | auto |]. intros cd' s H. eapply params_step; [exact H | reflexivity].
Qed.

Lemma call_data_ok ps G L alldata dat :
  (forall e, dat = Some e -> rt_ok ps G L (view e)) ->
  keeps (good ps G L) (call_data w alldata dat)
        (fun cd _ => cd <> [] /\ (alldata = true -> forall k, In k ps -> bound cd k)).
Proof.
  intros Hd. unfold call_data. destruct alldata.
  - eapply keeps_bind; [apply good_closed | apply keeps_get_ctx |]. intros caller. cbv iota.
    destruct (sc_alldata (ctx caller)) as [sA|] eqn:Ha; [|apply keeps_fail].
    apply keeps_ret. intros s [[_ (sA' & Ha' & Hb)] <-]. rewrite Ha in Ha'. injection Ha' as <-.
    split; [discriminate|]. intros _ k Hk. apply bound_push. auto.
  - kb caller; [apply keeps_get|]. cbv iota. destruct dat as [e|].
    + kb dv; [apply eval_ok; apply Hd; reflexivity|].
      destruct dv; try apply keeps_fail. apply keeps_ret. intros s _. split; discriminate.
    + apply keeps_ret. intros s _. split; discriminate.
Qed.

(* messages *)
Lemma plural_pick_ok ps G L mp i dflt cs :
  rt_ok ps G L (RT KOther (map view dflt)) ->
  Forall (fun c => rt_ok ps G L (view c)) cs ->
  keeps (good ps G L) (plural_pick w mp i dflt cs) anyQ.
Proof.
  intros Hd. induction 1 as [|c r Hc Hr IH]; cbn [plural_pick].
  - kb u; [apply w_any; exact Hd|]. apply keeps_ret_any.
  - destruct c; try apply keeps_fail. destruct (i =? v)%Z; [|exact IH].
    cbn [view] in Hc. apply rt_ok_kids in Hc; [|reflexivity|discriminate]. inversion Hc as [|? ? H1 _]; subst.
    kb u; [apply w_any; exact H1|]. apply keeps_ret_any.
Qed.

Lemma msg_body_ok ps G L mp ns :
  Forall (fun n => rt_ok ps G L (view n)) ns -> keeps (good ps G L) (msg_body w mp ns) anyQ.
Proof.
  induction 1 as [|x r Hx Hr IH]; cbn [msg_body]; [apply keeps_ret_any|].
  destruct x; try exact IH.
  - (* raw text *) kb u; [apply w_any; exact Hx | exact IH].
  - (* placeholder *)
    cbn [view] in Hx. apply rt_ok_kids in Hx; [|reflexivity|discriminate]. inversion Hx as [|? ? H1 _]; subst.
    kb u; [apply w_any; exact H1 | exact IH].
  - (* plural *)
    cbn [view] in Hx. apply rt_ok_kids in Hx; [|reflexivity|discriminate].
    inversion Hx as [|? ? Hv Hrest]; subst. apply Forall_app in Hrest as [Hcases Hdflt].
    apply Forall_map_view in Hcases. inversion Hdflt as [|? ? Hd _]; subst.
    kb pv; [apply eval_ok; exact Hv|]. destruct pv; try apply keeps_fail.
    kb u; [apply plural_pick_ok; assumption | exact IH].
Qed.

Lemma keeps_pure {A} (P : scope -> Prop) (C : Prop) (m : M A) Q :
  (C -> keeps P m Q) -> keeps (fun s => P s /\ C) m Q.
Proof. intros H st r st' [Hp Hc] Hr. eapply H; eauto. Qed.

Lemma keeps_pure' {A} (P P' : scope -> Prop) (C : Prop) (m : M A) Q :
  (forall s, P' s -> P s /\ C) -> (C -> keeps P m Q) -> keeps P' m Q.
Proof. intros HP H st r st' Hp Hr. destruct (HP _ Hp) as [Hp' Hc]. eapply H; eauto. Qed.

Lemma find_template_In ts name t : find_template ts name = Some t -> In t ts.
Proof.
  induction ts as [|x r IH]; cbn [find_template]; [discriminate|].
  destruct (bstr_eqb (t_name x) name); intros H; [injection H as <-; left; reflexivity | right; auto].
Qed.

Lemma good_enter ps cd : cd <> [] -> (forall k, In k ps -> bound cd k) -> good ps [] [] (sc_enter cd).
Proof.
  destruct cd as [|f r]; [congruence|]. intros _ Hb. cbn [sc_enter].
  assert (Hsame : forall k, bound (f :: r) k -> bound ({| f_vars := f_vars f; f_entered := true; f_origin := f_origin f |} :: r) k).
  { intros k Hk. apply bound_cons in Hk. apply bound_cons. exact Hk. }
  split.
  - intros k [Hk|[[]|[]]]. apply bound_push. auto.
  - eexists. split; [reflexivity|]. intros k Hk. auto.
Qed.

Lemma loop_names_fn name :
  fn_is name n_index || fn_is name n_isFirst || fn_is name n_isLast = contains loop_func_names name.
Proof.
  unfold fn_is, loop_func_names. cbn [contains]. rewrite orb_false_r, orb_assoc.
  rewrite (bstr_eqb_sym name n_index), (bstr_eqb_sym name n_isFirst), (bstr_eqb_sym name n_isLast). reflexivity.
Qed.

Lemma maplit_forall (P : rt -> Prop) (items : list (bstr * node)) :
  Forall P (map (fun kv => match kv with (_, e) => view e end) items) -> Forall (fun kv => P (view (snd kv))) items.
Proof.
  induction items as [|[k e] r IH]; intros H; [constructor|]. cbn [map] in H. inversion H; subst.
  constructor; [assumption | apply IH; assumption].
Qed.

Ltac to_any := unfold post; cbn [view rt_kind]; change (fun (_ : value) (_ : scope) => True) with (@anyQ value).
Ltac kids H := cbn [view] in H; apply rt_ok_kids in H; [|reflexivity|discriminate].

Lemma walk_node_ok ps G L n : rt_ok ps G L (view n) -> keeps (good ps G L) (walk_node cf w n) (post n).
Proof.
  intros H. destruct n; cbn [walk_node]; try (to_any; first [apply keeps_ret_any | apply keeps_fail]).
  - (* function *)
    to_any. rewrite loop_names_fn. destruct (contains loop_func_names name) eqn:Hlf.
    + apply loop_func_ok. intros p0 key acc rest ->.
      destruct H as (Hwf & _ & _). cbn [view Wf.wf wf_body map] in Hwf. apply andb_true_iff in Hwf as [Hlo _].
      unfold loopfunc_ok in Hlo. rewrite Hlf in Hlo. cbn [negb orb] in Hlo. unfold loop_arg in Hlo.
      destruct rest; [|destruct acc; discriminate Hlo]. destruct acc; [|discriminate Hlo]. apply contains_In. exact Hlo.
    + kids H. apply Forall_map_view in H. apply call_func_ok. exact H.
  - (* list literal *)
    to_any. kids H. apply Forall_map_view in H. kb vs; [apply eval_list_ok; exact H | apply keeps_fresh_list].
  - (* map literal *)
    to_any. kids H. apply maplit_forall in H. kb kvs; [apply maplit_items_ok; exact H | apply keeps_fresh_map].
  - (* data reference *)
    to_any. pose proof H as (Hwf & _ & _). cbn [view Wf.wf wf_body] in Hwf. apply andb_true_iff in Hwf as [Hkey _].
    kids H. apply Forall_map_view in H.
    kb ref0; [|apply dataref_access_ok; exact H].
    change Interp.s_ij with RefView.s_ij. destruct (bstr_eqb key RefView.s_ij); cbn [orb] in Hkey.
    + destruct (c_ij cf); [apply keeps_ret_any | apply keeps_fail].
    + apply keeps_lookup. intros s Hs. apply (proj1 Hs). apply orb_true_iff in Hkey as [Hk|Hk]; apply contains_In in Hk; auto.
  - (* not *) to_any. kids H. inversion H; subst. kb v; [apply eval_ok; assumption | apply keeps_ret_any].
  - (* negate *) to_any. kids H. inversion H; subst. kb v; [apply evaldef_ok; assumption|]. kauto ltac:(fail).
  - (* binary *)
    to_any. kids H. inversion H as [|? ? H1 H2]; subst. inversion H2 as [|? ? H3 _]; subst.
    destruct op;
      (kb x; [first [apply evaldef_ok; exact H1 | apply eval_ok; exact H1]|]);
      try (kb y; [first [apply evaldef_ok; exact H3 | apply eval_ok; exact H3]|]; kauto ltac:(fail));
      kauto ltac:(first [apply eval_ok; exact H3 | (kb y; [apply eval_ok; exact H3|])]).
  - (* ternary *)
    to_any. kids H. inversion H as [|? ? H1 H2]; subst. inversion H2 as [|? ? H3 H4]; subst. inversion H4 as [|? ? H5 _]; subst.
    kb c; [apply eval_ok; exact H1|]. destruct (truthy c); apply eval_ok; assumption.
  - (* list: a block *)
    to_any. cbn [view] in H. apply rt_ok_block in H.
    eapply keeps_scoped; [intros s Hs; apply good_push; exact Hs | apply walk_list_ok; exact H].
  - (* raw text *) to_any. kb u; [apply keeps_write | apply keeps_ret_any].
  - (* print *)
    to_any. kids H. inversion H as [|? ? Harg Hdirs]; subst. apply Forall_map_view in Hdirs.
    kb v; [apply w_any; exact Harg|].
    assert (Hk : keeps (good ps G L)
                   (ds <-- print_dirs cf w dirs v ;;; s <-- lift (value_string v) ;;; st <-- get ;;;
                    ws <-- lift (print_writes (mode st) ds s) ;;; _ <-- write_all ws ;;; ret VUndef) anyQ).
    { kb ds; [apply print_dirs_ok; exact Hdirs|]. kb s; [apply keeps_lift|]. kb st; [apply keeps_get|].
      kb ws; [apply keeps_lift|]. kb u; [apply keeps_write_all; apply good_closed | apply keeps_ret_any]. }
    destruct v; first [apply keeps_fail | exact Hk].
  - (* css *)
    to_any. kids H. kb pre; [|kb u; [apply keeps_write | apply keeps_ret_any]].
    destruct expr as [x|]; [|apply keeps_ret_any]. cbn in H. inversion H; subst.
    kb v; [apply eval_ok; assumption|]. kb s; [apply keeps_lift | apply keeps_ret_any].
  - (* log *) to_any. kids H. inversion H; subst. kb u; [apply render_block_ok; assumption | apply keeps_ret_any].
  - (* if *) to_any. kids H. apply Forall_map_view in H. apply if_conds_ok. exact H.
  - (* for *)
    to_any. cbn [view] in H. apply rt_ok_for in H as (l & bd & ie & Hk & Hl & Hb & Hie). injection Hk as <- <- <-.
    kb lv; [apply eval_ok; exact Hl|]. destruct lv; try apply keeps_fail. destruct l as [|x0 l0].
    + destruct ifempty as [ie|]; [|apply keeps_ret_any]. cbn in Hie. inversion Hie; subst.
      kb u; [apply w_any; assumption | apply keeps_ret_any].
    + eapply keeps_ext;
        [|eapply (keeps_scoped (good ps G L) (good ps G L)
                    (_ <-- m_set (var ++ s_lastindex) (VInt (Z.of_nat (length (x0 :: l0)) - 1)) ;;; for_items w var n2 0%Z (x0 :: l0)));
          [intros s Hs; apply good_push; exact Hs|]].
      * intros st. apply mbind_ext. intros u s. rewrite mbind_assoc. reflexivity.
      * eapply keeps_bind; [apply good_closed | apply keeps_set |]. intros u.
        eapply keeps_pre; [apply for_items_ok; exact Hb|]. tauto.
  - (* switch *)
    to_any. kids H. inversion H as [|? ? Hv Hcases]; subst. apply Forall_map_view in Hcases.
    kb sv; [apply eval_ok; exact Hv | apply switch_cases_ok; exact Hcases].
  - (* call *)
    to_any. pose proof H as (Hwf & _ & Htot). cbn [view Wf.wf wf_body calls_total_rt] in Hwf, Htot.
    fold T. destruct (find_template T name) as [callee|] eqn:Hfind; [|apply keeps_fail].
    apply andb_true_iff in Htot as [Htot _]. apply andb_true_iff in Htot as [_ Htot].
    kids H. apply Forall_app in H as [Hdat Hparams]. apply Forall_map_view in Hparams.
    eapply keeps_bind; [apply good_closed | apply (call_data_ok ps G L alldata data) |].
    { intros e ->. cbn in Hdat. inversion Hdat; assumption. }
    intros cd. apply (keeps_pure' (good ps G L) _ (cd <> [] /\ (alldata = true -> forall k, In k ps -> bound cd k)));
      [intros s Hs; exact Hs|]. intros [Hne Hall].
    eapply keeps_bind; [apply good_closed | apply call_params_ok; exact Hparams |].
    intros cd'. apply (keeps_pure' (good ps G L) _ (params_post cd params cd' [])); [intros s Hs; exact Hs|].
    intros Hpost. destruct (Hpost Hne) as (Hne' & Hkeep & Hkeys).
    kb u0; [kmod|].   (* evalCall marks the call node again before the callee runs (repair 58a9bd4) *)
    eapply keeps_enter; [|apply Hw; apply Hreg; eapply find_template_In; exact Hfind].
    apply good_enter; [exact Hne'|]. intros k Hk. rewrite forallb_forall in Htot. specialize (Htot k Hk).
    apply orb_true_iff in Htot as [Hex|Hall'].
    + apply Hkeys. apply existsb_exists in Hex as ([k'|] & Hin & Heq); [|discriminate].
      destruct (bstr_eqb_spec k' k) as [->|]; [exact Hin | discriminate].
    + apply andb_true_iff in Hall' as [Had Hc]. apply Hkeep. apply Hall; [exact Had | apply contains_In; exact Hc].
  - (* let value *)
    kids H. inversion H; subst. unfold post. cbn [view rt_kind].
    kb v; [apply eval_ok; assumption|].
    eapply keeps_bind; [apply good_closed | apply keeps_set |]. intros u.
    apply keeps_ret. intros s [_ [Hb _]]. exact Hb.
  - (* let content *)
    kids H. inversion H; subst. unfold post. cbn [view rt_kind].
    kb v; [apply render_block_ok; assumption|].
    eapply keeps_bind; [apply good_closed | apply keeps_set |]. intros u.
    apply keeps_ret. intros s [_ [Hb _]]. exact Hb.
  - (* msg *)
    to_any. kids H. apply Forall_map_view in H. kb u; [apply msg_body_ok; exact H | apply keeps_ret_any].
  - (* html tag in a message *) to_any. kb u; [apply keeps_write | apply keeps_ret_any].
  - (* template *)
    to_any. kids H. inversion H; subst. kb u; [kmod|]. kb u2; [apply w_any; assumption | apply keeps_ret_any].
Qed.

Lemma walk_body_ok : w_ok (walk_body cf w).
Proof.
  intros ps G L n H. unfold walk_body.
  eapply keeps_bind0; [apply good_closed | kmod | intros u; apply walk_node_ok; exact H].
Qed.
End Body.

Theorem walk_ok fuel : w_ok (walk cf fuel).
Proof.
  induction fuel as [|f IH].
  - intros ps G L n H st r st' Hp Hr. cbn in Hr. inversion Hr; subst. split; [reflexivity|]. intros v Hv. discriminate.
  - intros ps G L n H. rewrite walk_S. apply walk_body_ok; assumption.
Qed.
End Link.

(* ================================================================== *)
(* the theorem *)

Lemma shaped_loops_ok : forall t, shaped t = true -> loops_ok t = true.
Proof.
  refine (rt_induction (fun t => shaped t = true -> loops_ok t = true) _). intros k kids IH H. cbn [shaped] in H. apply andb_true_iff in H as [H Hk]. apply andb_true_iff in H as [Hb Hf].
  cbn [loops_ok]. apply andb_true_iff. split.
  - destruct k; try reflexivity. cbn [is_block_kind orb] in Hb. rewrite Hf, Hb. reflexivity.
  - apply forallb_forall. intros c Hc. rewrite Forall_forall in IH. rewrite forallb_forall in Hk. auto.
Qed.

Lemma registry_shaped_loops_ok reg : registry_shaped reg = true -> registry_loops_ok reg = true.
Proof.
  unfold registry_shaped, registry_loops_ok. rewrite !forallb_forall. intros H t Ht. apply shaped_loops_ok. auto.
Qed.

Theorem accepted_no_unbound_lookup cf fuel name t data_id data cl bl first_id :
  check_registry (c_reg cf) = Accept ->
  registry_shaped (c_reg cf) = true ->
  calls_total (c_reg cf) = true ->
  find_template (r_templates (c_reg cf)) name = Some t ->
  (forall p, In p (map fst (t_params t)) -> assoc_s p data <> None) ->
  rr_unbound (render cf fuel name data_id data cl bl first_id) = 0%nat.
Proof.
  intros Hchk Hsh Htot Hfind Hdata.
  apply check_registry_iff in Hchk; [|apply registry_shaped_loops_ok; exact Hsh].
  assert (Hreg : forall t0, In t0 (r_templates (c_reg cf)) ->
                 rt_ok cf (map fst (t_params t0)) [] [] (view (t_node t0))).
  { intros t0 Ht0. unfold wf_registry, wf_templates in Hchk. unfold registry_shaped in Hsh. unfold calls_total in Htot.
    rewrite forallb_forall in Hchk, Hsh, Htot. specialize (Hchk t0 Ht0). unfold wf_template, wf_template_node in Hchk.
    apply andb_true_iff in Hchk as [Hwf _]. split; [exact Hwf|]. split; auto. }
  unfold render. rewrite Hfind.
  set (st0 := init_state (sc_enter (new_scope data_id data)) (entry_mode (t_ns_autoescape t)) name cl bl first_id).
  destruct (walk cf fuel (t_node t) st0) as [r st] eqn:Hrun.
  assert (Hu : unbound st = 0%nat).
  { pose proof (walk_ok cf Hreg fuel (map fst (t_params t)) [] [] (t_node t)
                  (Hreg t (find_template_In _ _ _ Hfind)) st0 r st) as H.
    destruct H as [H _]; [|exact Hrun | exact H].
    subst st0. cbn [init_state ctx]. apply good_enter; [discriminate|].
    intros k Hk. unfold new_scope. apply bound_cons. left. unfold fdom. cbn [f_vars]. apply Hdata. exact Hk. }
  destruct r; cbn [rr_unbound]; try exact Hu.
  destruct (assoc_s name (r_sources (c_reg cf))) as [src|], (assoc_s name (r_files (c_reg cf))) as [file|];
    cbn [rr_unbound]; try exact Hu.
  destruct (line_number src (cur st)); cbn [rr_unbound]; exact Hu.
Qed.

(* from a bundle: what Bundle.Compile accepted is a registry CheckDataRefs accepted *)
Lemma compile_check_registry fs : compile_check fs = Accept ->
  exists ts, add_files [] fs = AddOk ts /\ check_registry (registry_of ts fs) = Accept.
Proof.
  unfold compile_check. destruct (add_files [] fs) as [ts|r]; [|discriminate]. intros H. exists ts. split; [reflexivity | exact H].
Qed.

Theorem accepted_bundle_no_unbound_lookup fs cf fuel name t data_id data cl bl first_id :
  compile_check fs = Accept ->
  (forall ts, add_files [] fs = AddOk ts -> c_reg cf = registry_of ts fs) ->
  registry_shaped (c_reg cf) = true ->
  calls_total (c_reg cf) = true ->
  find_template (r_templates (c_reg cf)) name = Some t ->
  (forall p, In p (map fst (t_params t)) -> assoc_s p data <> None) ->
  rr_unbound (render cf fuel name data_id data cl bl first_id) = 0%nat.
Proof.
  intros Hc Hreg. destruct (compile_check_registry fs Hc) as (ts & Hadd & Hchk). rewrite <- (Hreg ts Hadd) in Hchk.
  apply accepted_no_unbound_lookup. exact Hchk.
Qed.
