(* "Lexes exactly this token", number literals: the decimal integer and float texts that scanNumber
   accepts ( -? D+ ( . D+ )? ( e [+-]? D+ )? , an integer not starting with a superfluous 0), reached
   either from a digit or from a "-" in operand position (lexNegative sends both to lexNumber). *)
From Soy Require Import Model.Bytes Model.Utf8 Model.Outcome Model.Token Generated.Tables Model.Lexer
  Proofs.LexerPrim Proofs.LexerStates Proofs.LexTokens.
From Coq Require Import ZifyBool ZifyNat ZifyN Lia.
Open Scope Z_scope.

Definition all_digits (ds : bstr) : Prop := Forall (fun c => digit_b c = true) ds.

Section Numbers.
Variable uni_letter uni_digit : Z -> bool.
Hypothesis letter_ascii : forall c, (c < 128)%N -> uni_letter (Z.of_N c) = ((65 <=? c) && (c <=? 90) || (97 <=? c) && (c <=? 122))%N.
Hypothesis digit_ascii : forall c, (c < 128)%N -> uni_digit (Z.of_N c) = digit_b c.
Hypothesis letter_eof : uni_letter (-1) = false.
Hypothesis digit_eof : uni_digit (-1) = false.
Variable inp : bstr.
Variable base : Z.
Notation ilen := (Z.of_nat (length inp)).
Notation steps := (steps uni_letter uni_digit inp base).
Notation span := (span inp).

Lemma digit_lt c : digit_b c = true -> (c < 128)%N.
Proof. unfold digit_b. lia. Qed.

Lemma in_set_dec c : (c < 128)%N -> in_set dec_digits_set (Z.of_N c) = digit_b c.
Proof.
  intros Hc. unfold in_set, digit_b. rewrite N2Z.id. replace (0 <=? Z.of_N c) with true by lia. replace (Z.of_N c <? 128) with true by lia.
  cbn [andb]. unfold dec_digits_set, mem. cbn [existsb].
  destruct (N.leb_spec 48 c); destruct (N.leb_spec c 57); cbn [andb];
    repeat (match goal with |- context [(c =? ?k)%N] => destruct (N.eqb_spec c k); [try reflexivity; lia|] end); try reflexivity; lia.
Qed.

(* nothing but the cursor moved *)
Definition same (l l1 : lx) : Prop :=
  l_out l1 = l_out l /\ l_last l1 = l_last l /\ l_dd l1 = l_dd l /\ l_start l1 = l_start l.
Lemma same_refl l : same l l. Proof. repeat split. Qed.
Lemma same_trans l l1 l2 : same l l1 -> same l1 l2 -> same l l2.
Proof. unfold same. intros (A & B & C & D) (A' & B' & C' & D'). repeat split; congruence. Qed.

Lemma next_back_same l w s : span l w s -> head_ascii s ->
  exists l1, next inp ilen l = Ok (head_rune s, l1) /\ span (backup l1) w s /\ same l (backup l1).
Proof.
  intros Hs Ha. destruct s as [|c s].
  - exists (ateof l). rewrite (next_eof inp l w Hs). split; [reflexivity|]. split; [|repeat split].
    unfold LexTokens.span, backup, ateof, set_pos. cbn [l_pos l_start l_width]. destruct Hs as (H0 & Hd & Hp). repeat split; try assumption; lia.
  - cbn in Ha. destruct (next_ascii inp l w c s Hs Ha) as (Hn & Hs'). exists (adv l). split; [exact Hn|].
    split; [apply span_backup; exact Hs|repeat split].
Qed.

Lemma peek_same l w s : span l w s -> head_ascii s ->
  exists l1, peek inp ilen l = Ok (head_rune s, l1) /\ span l1 w s /\ same l l1.
Proof.
  intros Hs Ha. destruct (next_back_same l w s Hs Ha) as (l1 & Hn & Hs1 & Ho).
  exists (backup l1). unfold peek. rewrite Hn. cbn [bind]. split; [reflexivity|]. split; assumption.
Qed.

(* the loop of acceptRun(decDigits) over a run of digits *)
Lemma accept_run_loop_digits ds : forall l w s fuel, span l w (ds ++ s) -> all_digits ds -> head_ascii s -> head_digit s = false ->
  (length ds < fuel)%nat ->
  exists l1, accept_run_loop inp ilen fuel dec_digits_set l = Ok l1 /\ span (backup l1) (w ++ ds) s /\ same l (backup l1).
Proof.
  induction ds as [|c ds IH]; intros l w s fuel Hs Hall Ha Hd Hf; (destruct fuel as [|f]; [cbn in Hf; lia|]); cbn [accept_run_loop].
  - cbn [app] in Hs. rewrite app_nil_r. destruct (next_back_same l w s Hs Ha) as (l1 & Hn & Hs1 & Ho).
    rewrite Hn. cbn [bind].
    assert (E : in_set dec_digits_set (head_rune s) = false).
    { destruct s as [|c s]; [reflexivity|]. cbn in Ha, Hd |- *. rewrite (in_set_dec c Ha). exact Hd. }
    rewrite E. exists l1. split; [reflexivity|]. split; [exact Hs1|exact Ho].
  - inversion Hall as [|? ? Hc Hall']; subst. pose proof (digit_lt c Hc) as Hlt. cbn [app] in Hs.
    destruct (next_ascii inp l w c (ds ++ s) Hs Hlt) as (Hn & Hs'). rewrite Hn. cbn [bind]. rewrite (in_set_dec c Hlt), Hc.
    destruct (IH (adv l) (w ++ [c]) s f Hs' Hall' Ha Hd ltac:(cbn in Hf; lia)) as (l1 & H1 & H2 & H3).
    exists l1. split; [exact H1|]. rewrite <- app_assoc in H2. split; [exact H2|exact H3].
Qed.

Lemma accept_run_digits l w ds s : span l w (ds ++ s) -> all_digits ds -> head_ascii s -> head_digit s = false ->
  exists l1, accept_run inp ilen dec_digits_set l = Ok (match ds with [] => false | _ => true end, l1) /\ span l1 (w ++ ds) s /\ same l l1.
Proof.
  intros Hs Hall Ha Hd.
  destruct (accept_run_loop_digits ds l w s (loop_fuel ilen l) Hs Hall Ha Hd) as (l1 & Hl & Hs1 & Ho).
  { pose proof (span_bounds inp _ _ _ Hs) as (Hb & Hlen). rewrite app_length in Hlen. unfold loop_fuel. lia. }
  exists (backup l1). unfold accept_run. rewrite Hl. cbn [bind]. cbv zeta.
  assert (Hpos : l_pos (backup l1) = l_pos l + Z.of_nat (length ds)).
  { destruct Hs as (_ & _ & Hp). destruct Hs1 as (_ & _ & Hp1). rewrite app_length in Hp1. destruct Ho as (_ & _ & _ & Hst). lia. }
  split; [|split; [exact Hs1|exact Ho]]. f_equal. f_equal. rewrite Hpos. destruct ds; cbn [length]; lia.
Qed.

(* accept(set): one ASCII byte of the set / anything else *)
Lemma accept_yes set l w c s : span l w (c :: s) -> (c < 128)%N -> in_set set (Z.of_N c) = true ->
  accept inp ilen set l = Ok (true, adv l) /\ span (adv l) (w ++ [c]) s /\ same l (adv l).
Proof.
  intros Hs Hc Hin. destruct (next_ascii inp l w c s Hs Hc) as (Hn & Hs'). unfold accept. rewrite Hn. cbn [bind]. rewrite Hin.
  split; [reflexivity|]. split; [exact Hs'|repeat split].
Qed.

Lemma accept_no set l w s : span l w s -> head_ascii s -> in_set set (head_rune s) = false ->
  exists l1, accept inp ilen set l = Ok (false, l1) /\ span l1 w s /\ same l l1.
Proof.
  intros Hs Ha Hin. destruct (next_back_same l w s Hs Ha) as (l1 & Hn & Hs1 & Ho). unfold accept. rewrite Hn. cbn [bind]. rewrite Hin.
  exists (backup l1). split; [reflexivity|]. split; [exact Hs1|exact Ho].
Qed.

(* l.input[l.start + k] on a span *)
Lemma byte_at_span l w s k c : span l w s -> nth_error (w ++ s) k = Some c ->
  byte_at inp ilen (l_start l + Z.of_nat k) = Ok (Z.of_N c).
Proof.
  intros (H0 & Hd & Hp) Hn.
  assert (Hlen : (k < length (w ++ s))%nat) by (apply nth_error_Some; congruence).
  pose proof (f_equal (@length _) Hd) as HL. rewrite drop_length in HL.
  unfold byte_at. destruct ((l_start l + Z.of_nat k <? 0) || (ilen <=? l_start l + Z.of_nat k)) eqn:E; [lia|].
  replace (Z.to_nat (l_start l + Z.of_nat k)) with (Z.to_nat (l_start l) + k)%nat by lia.
  rewrite drop_add, Hd.
  assert (Hk : forall (x : bstr) j c', nth_error x j = Some c' -> exists r, drop j x = c' :: r).
  { induction x as [|a x IH]; intros j c' Hj; destruct j; cbn in *; try discriminate.
    - injection Hj as <-. eauto.
    - apply IH. exact Hj. }
  destruct (Hk _ _ _ Hn) as (r & Hr). rewrite Hr. reflexivity.
Qed.

Definition frac_text (frac : option bstr) : bstr := match frac with Some f => 46%N :: f | None => [] end.
Definition exp_text (ex : option (bstr * bstr)) : bstr := match ex with Some (sg, e) => 101%N :: sg ++ e | None => [] end.
Definition sign_text (hs : bool) : bstr := if hs then [45%N] else [].

(* an integer text does not start with a superfluous zero *)
Definition no_lead_zero (ip : bstr) : Prop := match ip with 48%N :: _ :: _ => False | _ => True end.

Lemma in_set_dot c : (c < 128)%N -> in_set num_dot_set (Z.of_N c) = (c =? 46)%N.
Proof.
  intros Hc. unfold in_set, num_dot_set, mem. cbn [existsb]. rewrite N2Z.id.
  replace (0 <=? Z.of_N c) with true by lia. replace (Z.of_N c <? 128) with true by lia. cbn [andb]. apply Bool.orb_false_r.
Qed.
Lemma in_set_exp c : (c < 128)%N -> in_set num_exp_set (Z.of_N c) = (c =? 101)%N.
Proof.
  intros Hc. unfold in_set, num_exp_set, mem. cbn [existsb]. rewrite N2Z.id.
  replace (0 <=? Z.of_N c) with true by lia. replace (Z.of_N c <? 128) with true by lia. cbn [andb]. apply Bool.orb_false_r.
Qed.
Lemma in_set_sign c : (c < 128)%N -> in_set num_sign_set (Z.of_N c) = ((c =? 43) || (c =? 45))%N.
Proof.
  intros Hc. unfold in_set, num_sign_set, mem. cbn [existsb]. rewrite N2Z.id.
  replace (0 <=? Z.of_N c) with true by lia. replace (Z.of_N c <? 128) with true by lia. cbn [andb]. rewrite Bool.orb_false_r. reflexivity.
Qed.

(* what may follow a number: end of input or an ASCII byte that is not alphanumeric (so neither a digit nor "e") *)
Lemma stops_facts s : stops s -> head_ascii s /\ head_digit s = false /\ in_set num_exp_set (head_rune s) = false /\
  in_set num_sign_set (head_rune s) = in_set num_sign_set (head_rune s).
Proof.
  destruct s as [|c s]; cbn; [auto|]. intros [Hc Ha]. split; [exact Hc|]. unfold alnum_b, letter_b in Ha.
  split; [lia|]. split; [|reflexivity]. rewrite (in_set_exp c Hc). unfold digit_b in Ha. lia.
Qed.

(* the mantissa: digits, then either "." digits (a float) or nothing (an integer without a superfluous zero) *)
Lemma scan_mantissa_span hs l1 ip frac rest :
  span l1 (sign_text hs) (ip ++ frac_text frac ++ rest) ->
  all_digits ip -> ip <> [] -> match frac with Some f => all_digits f /\ f <> [] | None => no_lead_zero ip end ->
  head_ascii rest -> head_digit rest = false -> (frac = None -> in_set num_dot_set (head_rune rest) = false) ->
  exists l4, scan_mantissa inp ilen hs l1 = Ok (inr (match frac with Some _ => itemFloat | None => itemInteger end, l4)) /\
             span l4 (sign_text hs ++ ip ++ frac_text frac) rest /\ same l1 l4.
Proof.
  intros Hs Hip Hne Hfr Ha Hd Hdot. unfold scan_mantissa.
  destruct frac as [f|]; cbn [frac_text] in *.
  - destruct Hfr as [Hf Hfne].
    destruct (accept_run_digits l1 _ ip _ Hs Hip ltac:(cbn; lia) ltac:(reflexivity)) as (l2 & Hr & Hs2 & Hsm2).
    rewrite Hr. cbn [bind]. destruct ip as [|d ip]; [congruence|]. cbn [negb].
    destruct (accept_yes num_dot_set l2 _ 46%N (f ++ rest) Hs2 ltac:(lia) ltac:(reflexivity)) as (Hacc & Hs3 & Hsm3).
    rewrite Hacc. cbn [bind].
    destruct (accept_run_digits (adv l2) _ f rest Hs3 Hf Ha Hd) as (l4 & Hr4 & Hs4 & Hsm4).
    rewrite Hr4. cbn [bind]. destruct f as [|e f]; [congruence|]. cbn [negb].
    exists l4. split; [reflexivity|]. split.
    + repeat rewrite <- app_assoc in Hs4. cbn [app] in Hs4 |- *. repeat rewrite <- app_assoc. exact Hs4.
    + eapply same_trans; [exact Hsm2|]. eapply same_trans; [exact Hsm3|exact Hsm4].
  - cbn [app] in Hs. rewrite app_nil_r.
    destruct (accept_run_digits l1 _ ip _ Hs Hip Ha Hd) as (l2 & Hr & Hs2 & Hsm2).
    rewrite Hr. cbn [bind]. destruct ip as [|d ip]; [congruence|]. cbn [negb].
    destruct (accept_no num_dot_set l2 _ rest Hs2 Ha (Hdot eq_refl)) as (l3 & Hacc & Hs3 & Hsm3).
    rewrite Hacc. cbn [bind].
    assert (Hst3 : l_start l3 = l_start l1) by (destruct Hsm2 as (_ & _ & _ & A); destruct Hsm3 as (_ & _ & _ & B); congruence).
    assert (Hpos3 : l_pos l3 = l_start l3 + Z.of_nat (length (sign_text hs ++ d :: ip))) by (apply Hs3).
    inversion Hip as [|? ? Hd0 Hip']; subst.
    destruct hs; cbn [negb sign_text app length] in *.
    + pose proof (byte_at_span l3 _ _ 1 d Hs3 ltac:(reflexivity)) as Hb. change (Z.of_nat 1) with 1 in Hb. rewrite Hb. cbn [bind andb orb].
      assert (E : (Z.of_N d =? 48) && (l_start l3 + 2 <? l_pos l3) = false).
      { destruct ip as [|d2 ip]; cbn [length] in Hpos3; [lia|]. cbn in Hfr. destruct (N.eqb_spec d 48); [subst; contradiction|lia]. }
      rewrite E. exists l3. split; [reflexivity|]. split; [exact Hs3|eapply same_trans; eassumption].
    + pose proof (byte_at_span l3 _ _ 0 d Hs3 ltac:(reflexivity)) as Hb. replace (l_start l3 + Z.of_nat 0) with (l_start l3) in Hb by lia.
      rewrite Hb. cbn [bind andb orb].
      assert (E : (Z.of_N d =? 48) && (l_start l3 + 1 <? l_pos l3) = false).
      { destruct ip as [|d2 ip]; cbn [length] in Hpos3; [lia|]. cbn in Hfr. destruct (N.eqb_spec d 48); [subst; contradiction|lia]. }
      rewrite E. rewrite ?Bool.orb_false_r.
      exists l3. split; [reflexivity|]. split; [exact Hs3|eapply same_trans; eassumption].
Qed.

Definition sign_ok (sg : bstr) : Prop := sg = [] \/ sg = [43%N] \/ sg = [45%N].

Lemma scan_exponent_span t l4 w ex s :
  span l4 w (exp_text ex ++ s) ->
  match ex with Some (sg, e) => sign_ok sg /\ all_digits e /\ e <> [] | None => True end -> stops s ->
  exists l7, scan_exponent inp ilen t l4 = Ok (inr (match ex with Some _ => itemFloat | None => t end, l7)) /\
             span l7 (w ++ exp_text ex) s /\ same l4 l7.
Proof.
  intros Hs Hex Hst. destruct (stops_facts s Hst) as (Ha & Hd & Hne & _). unfold scan_exponent.
  destruct ex as [[sg e]|]; cbn [exp_text] in *.
  - destruct Hex as (Hsg & He & Hene). cbn [app] in Hs.
    destruct (accept_yes num_exp_set l4 w 101%N ((sg ++ e) ++ s) Hs ltac:(lia) ltac:(reflexivity)) as (Hacc & Hs5 & Hsm5).
    rewrite Hacc. cbn [bind].
    assert (Hsgn : exists l6, (exists bsg, accept inp ilen num_sign_set (adv l4) = Ok (bsg, l6)) /\ span l6 ((w ++ [101%N]) ++ sg) (e ++ s) /\ same (adv l4) l6).
    { destruct Hsg as [ -> | [ -> | -> ] ].
      - cbn [app] in Hs5. rewrite app_nil_r.
        destruct e as [|d e]; [congruence|]. inversion He as [|? ? Hd0 _]; subst. pose proof (digit_lt d Hd0) as Hlt.
        destruct (accept_no num_sign_set (adv l4) _ (d :: e ++ s) Hs5 Hlt) as (l6 & A & B & C).
        { cbn [head_rune]. rewrite (in_set_sign d Hlt). unfold digit_b in Hd0. lia. }
        exists l6. split; [eauto|]. split; assumption.
      - cbn [app] in Hs5. destruct (accept_yes num_sign_set (adv l4) _ 43%N (e ++ s) Hs5 ltac:(lia) ltac:(reflexivity)) as (A & B & C).
        exists (adv (adv l4)). split; [eauto|]. split; assumption.
      - cbn [app] in Hs5. destruct (accept_yes num_sign_set (adv l4) _ 45%N (e ++ s) Hs5 ltac:(lia) ltac:(reflexivity)) as (A & B & C).
        exists (adv (adv l4)). split; [eauto|]. split; assumption. }
    destruct Hsgn as (l6 & (bsg & Hacc2) & Hs6 & Hsm6). rewrite Hacc2. cbn [bind].
    destruct (accept_run_digits l6 _ e s Hs6 He Ha Hd) as (l7 & Hr & Hs7 & Hsm7). rewrite Hr. cbn [bind].
    destruct e as [|d e]; [congruence|]. cbn [negb]. exists l7. split; [reflexivity|]. split.
    + repeat rewrite <- app_assoc in Hs7. cbn [app] in Hs7 |- *. exact Hs7.
    + eapply same_trans; [exact Hsm5|]. eapply same_trans; [exact Hsm6|exact Hsm7].
  - cbn [app] in Hs. rewrite app_nil_r.
    destruct (accept_no num_exp_set l4 w s Hs Ha Hne) as (l5 & Hacc & Hs5 & Hsm5). rewrite Hacc. cbn [bind].
    exists l5. split; [reflexivity|]. split; assumption.
Qed.

(* the hexadecimal test `len(input) >= pos+2 && input[pos:pos+2] == "0x"` fails on a decimal text *)
Lemma hex_check_false l1 w d R : span l1 w (d :: R) -> digit_b d = true ->
  match R with c2 :: _ => c2 <> 120%N | [] => True end ->
  (if l_pos l1 + 2 <=? ilen then pre <- slice inp ilen (l_pos l1) (l_pos l1 + 2) ;; Ok (bstr_eqb pre num_hex_prefix) else Ok false) = Ok false.
Proof.
  intros Hs Hd Hc. pose proof (span_bounds inp _ _ _ Hs) as (Hb & Hlen). pose proof (span_cur inp _ _ _ Hs) as (Hp & Hdr).
  destruct R as [|c2 R]; cbn [length] in Hlen.
  - destruct (l_pos l1 + 2 <=? ilen) eqn:E; [lia|reflexivity].
  - destruct (l_pos l1 + 2 <=? ilen) eqn:E; [|reflexivity].
    unfold slice. destruct ((l_pos l1 <? 0) || (l_pos l1 + 2 <? l_pos l1) || (ilen <? l_pos l1 + 2)) eqn:E2; [lia|].
    rewrite Hdr. replace (Z.to_nat (l_pos l1 + 2 - l_pos l1)) with 2%nat by lia. cbn [take bind].
    unfold num_hex_prefix. cbn [bstr_eqb]. destruct (N.eqb_spec c2 120); [congruence|]. rewrite Bool.andb_false_r. reflexivity.
Qed.

Definition num_type (frac : option bstr) (ex : option (bstr * bstr)) : N :=
  match frac, ex with None, None => itemInteger | _, _ => itemFloat end.

Lemma scan_number_span hs l ip frac ex s :
  span l [] (sign_text hs ++ ip ++ frac_text frac ++ exp_text ex ++ s) ->
  all_digits ip -> ip <> [] -> match frac with Some f => all_digits f /\ f <> [] | None => no_lead_zero ip end ->
  match ex with Some (sg, e) => sign_ok sg /\ all_digits e /\ e <> [] | None => True end ->
  stops s -> (frac = None -> ex = None -> in_set num_dot_set (head_rune s) = false) ->
  exists l', scan_number uni_letter uni_digit inp ilen l = Ok (num_type frac ex, true, l') /\
             span l' (sign_text hs ++ ip ++ frac_text frac ++ exp_text ex) s /\ same l l'.
Proof.
  intros Hs Hip Hne Hfr Hex Hst Hdot. destruct (stops_facts s Hst) as (Ha & Hd & Hnexp & _).
  destruct ip as [|d ip]; [congruence|]. inversion Hip as [|? ? Hd0 Hip']; subst. pose proof (digit_lt d Hd0) as Hlt.
  (* the optional sign *)
  assert (Hsign : exists l1, accept inp ilen num_sign_set l = Ok (hs, l1) /\ span l1 (sign_text hs) ((d :: ip) ++ frac_text frac ++ exp_text ex ++ s) /\ same l l1).
  { destruct hs; cbn [sign_text app] in Hs |- *.
    - destruct (accept_yes num_sign_set l [] 45%N _ Hs ltac:(lia) ltac:(reflexivity)) as (A & B & C). exists (adv l). split; [exact A|]. split; assumption.
    - destruct (accept_no num_sign_set l [] _ Hs Hlt) as (l1 & A & B & C).
      { cbn [head_rune]. rewrite (in_set_sign d Hlt). unfold digit_b in Hd0. lia. }
      exists l1. split; [exact A|]. split; assumption. }
  destruct Hsign as (l1 & Hacc & Hs1 & Hsm1).
  unfold scan_number. rewrite Hacc. cbn [bind].
  (* not hexadecimal *)
  assert (Hx : match ip ++ frac_text frac ++ exp_text ex ++ s with c2 :: _ => c2 <> 120%N | [] => True end).
  { destruct ip as [|d2 ip]; cbn [app].
    - destruct frac as [f|]; cbn [frac_text app]; [lia|]. destruct ex as [[sg e]|]; cbn [exp_text app]; [lia|].
      destruct s as [|c s]; [exact I|]. cbn in Hst. destruct Hst as [_ Hna]. unfold alnum_b, letter_b in Hna. lia.
    - inversion Hip' as [|? ? Hd2 _]; subst. unfold digit_b in Hd2. lia. }
  cbn [app] in Hs1. rewrite (hex_check_false l1 _ d _ Hs1 Hd0 Hx). cbn [bind].
  (* mantissa, exponent *)
  assert (Hrest : head_ascii (exp_text ex ++ s) /\ head_digit (exp_text ex ++ s) = false /\
                  (frac = None -> in_set num_dot_set (head_rune (exp_text ex ++ s)) = false)).
  { destruct ex as [[sg e]|]; cbn [exp_text app]; [cbn; repeat split; try lia; reflexivity|]. repeat split; try assumption. intros Hf. apply Hdot; [exact Hf|reflexivity]. }
  destruct Hrest as (Har & Hdr & Hdotr).
  change (d :: ip ++ frac_text frac ++ exp_text ex ++ s) with ((d :: ip) ++ frac_text frac ++ exp_text ex ++ s) in Hs1.
  destruct (scan_mantissa_span hs l1 (d :: ip) frac (exp_text ex ++ s) Hs1 Hip ltac:(discriminate) Hfr Har Hdr Hdotr) as (l4 & Hm & Hs4 & Hsm4).
  rewrite Hm. cbn [bind].
  destruct (scan_exponent_span (match frac with Some _ => itemFloat | None => itemInteger end) l4 _ ex s Hs4 Hex Hst) as (l7 & He & Hs7 & Hsm7).
  rewrite He. cbn [bind].
  (* the next thing must not be alphanumeric *)
  destruct (peek_same l7 _ s Hs7 Ha) as (l8 & Hp & Hs8 & Hsm8).
  rewrite Hp. cbn [bind].
  assert (Hal : is_alnum uni_letter uni_digit (head_rune s) = false).
  { destruct s as [|c s]; cbn [head_rune]; [apply is_alnum_eof; assumption|].
    cbn in Hst. destruct Hst as [Hc Hna]. erewrite is_alnum_ascii; eauto. }
  rewrite Hal. exists l8. split.
  - f_equal. f_equal. f_equal. unfold num_type. destruct frac, ex as [[? ?]|]; reflexivity.
  - split; [repeat rewrite <- app_assoc in Hs8; repeat rewrite <- app_assoc; exact Hs8|].
    eapply same_trans; [exact Hsm1|]. eapply same_trans; [exact Hsm4|]. eapply same_trans; [exact Hsm7|exact Hsm8].
Qed.

Definition num_text (hs : bool) (ip : bstr) (frac : option bstr) (ex : option (bstr * bstr)) : bstr :=
  sign_text hs ++ ip ++ frac_text frac ++ exp_text ex.

Definition num_ok (ip : bstr) (frac : option bstr) (ex : option (bstr * bstr)) : Prop :=
  all_digits ip /\ ip <> [] /\ match frac with Some f => all_digits f /\ f <> [] | None => no_lead_zero ip end /\
  match ex with Some (sg, e) => sign_ok sg /\ all_digits e /\ e <> [] | None => True end.

(* what may follow a number: not alphanumeric, and no "." after an integer *)
Definition num_follow (frac : option bstr) (ex : option (bstr * bstr)) (s : bstr) : Prop :=
  stops s /\ (frac = None -> ex = None -> match s with c :: _ => c <> 46%N | [] => True end).

Lemma num_follow_dot frac ex s : num_follow frac ex s -> frac = None -> ex = None -> in_set num_dot_set (head_rune s) = false.
Proof.
  intros [Hst Hd] Hf He. specialize (Hd Hf He). destruct s as [|c s]; [reflexivity|]. cbn in Hst |- *. destruct Hst as [Hc _].
  rewrite (in_set_dot c Hc). destruct (N.eqb_spec c 46); congruence.
Qed.

(* lexNumber on the text of a number *)
Lemma lex_number_span hs lb l0 ip frac ex s :
  span lb [] (num_text hs ip frac ex ++ s) -> num_ok ip frac ex -> num_follow frac ex s ->
  l_out lb = l_out l0 -> l_last lb = l_last l0 -> l_dd lb = l_dd l0 ->
  exists l', step uni_letter uni_digit inp ilen base LNumber lb = Ok (LInsideTag, l') /\ span l' [] s /\
             sent (num_type frac ex) (num_text hs ip frac ex) l0 l'.
Proof.
  intros Hs (Hip & Hne & Hfr & Hex) Hfo Ho Hla Hd. unfold num_text in *. repeat rewrite <- app_assoc in Hs.
  destruct (scan_number_span hs lb ip frac ex s Hs Hip Hne Hfr Hex (proj1 Hfo) (num_follow_dot _ _ _ Hfo)) as (l1 & Hsn & Hs1 & Hsm).
  destruct (emit_span inp base (num_type frac ex) l1 _ s Hs1) as (Hem & Hs2).
  eexists. split; [|split; [exact Hs2|]].
  - cbn [step]. unfold lex_number. rewrite Hsn. cbn [bind negb]. unfold emit_to. rewrite Hem. reflexivity.
  - destruct Hsm as (A & B & C & _). apply sent_emitted; congruence.
Qed.

(* a number that starts with a digit *)
Lemma lex_number_pos l ip frac ex s :
  span l [] (num_text false ip frac ex ++ s) -> num_ok ip frac ex -> num_follow frac ex s ->
  exists l', steps 2 LInsideTag l = Ok (LInsideTag, l') /\ span l' [] s /\ sent (num_type frac ex) (num_text false ip frac ex) l l'.
Proof.
  intros Hs Hok Hfo. pose proof Hok as (Hip & Hne & _).
  destruct ip as [|d ip]; [congruence|]. inversion Hip as [|? ? Hd0 _]; subst. pose proof (digit_lt d Hd0) as Hlt.
  unfold num_text, sign_text in Hs. cbn [app] in Hs.
  destruct (next_ascii inp l [] d _ Hs Hlt) as (Hn & Hs1).
  pose proof (span_backup inp l [] d _ Hs) as Hsb. set (lb := backup (adv l)) in *.
  assert (H1 : step uni_letter uni_digit inp ilen base LInsideTag l = Ok (LNumber, lb)).
  { cbn [step]. unfold lex_inside_tag. rewrite Hn. cbn [bind]. kill_tests. reflexivity. }
  destruct (lex_number_span false lb l (d :: ip) frac ex s) as (l' & H2 & Hs' & Hsent); try assumption; try reflexivity.
  exists l'. split; [|split; assumption].
  change 2%nat with (1 + 1)%nat. rewrite (steps_app _ _ _ _ 1 1 _ _ _ _ (steps_one _ _ _ _ _ _ _ _ H1)).
  apply steps_one. exact H2.
Qed.

Lemma peek_ascii l w c s : span l w (c :: s) -> (c < 128)%N ->
  peek inp ilen l = Ok (Z.of_N c, backup (adv l)) /\ span (backup (adv l)) w (c :: s).
Proof.
  intros Hs Hc. destruct (next_ascii inp l w c s Hs Hc) as (Hn & _). unfold peek. rewrite Hn. cbn [bind].
  split; [reflexivity|apply span_backup; exact Hs].
Qed.

(* a number that starts with "-", where an operand is expected *)
Lemma lex_number_neg l ip frac ex s :
  span l [] (num_text true ip frac ex ++ s) -> ends_term (t_typ (l_last l)) = false -> num_ok ip frac ex -> num_follow frac ex s ->
  exists l', steps 2 LInsideTag l = Ok (LInsideTag, l') /\ span l' [] s /\ sent (num_type frac ex) (num_text true ip frac ex) l l'.
Proof.
  intros Hs Het Hok Hfo. pose proof Hok as (Hip & Hne & _).
  destruct ip as [|d ip]; [congruence|]. inversion Hip as [|? ? Hd0 _]; subst. pose proof (digit_lt d Hd0) as Hlt.
  pose proof Hs as Hs0. unfold num_text, sign_text in Hs. cbn [app] in Hs.
  destruct (next_ascii inp l [] 45%N _ Hs ltac:(lia)) as (Hn & Hs1).
  destruct (peek_ascii (adv l) _ d _ Hs1 Hlt) as (Hp1 & Hsp1).
  destruct (peek_ascii (backup (adv (adv l))) _ d _ Hsp1 Hlt) as (Hp2 & Hsp2).
  set (lb := backup (backup (adv (backup (adv (adv l)))))).
  assert (Hsb : span lb [] (num_text true (d :: ip) frac ex ++ s)).
  { destruct Hs0 as (H0 & Hdr & Hp). unfold LexTokens.span, lb, backup, adv, set_pos. cbn [l_start l_pos l_width length] in *.
    repeat split; try assumption; lia. }
  assert (H1 : step uni_letter uni_digit inp ilen base LInsideTag l = Ok (LNumber, lb)).
  { cbn [step]. unfold lex_inside_tag. rewrite Hn. cbn [bind]. eval_tests.
    unfold lex_negative. change (l_last (adv l)) with (l_last l). rewrite Het. cbn [negb]. rewrite Hp1. cbn [bind].
    unfold digit_b in Hd0. replace (48 <=? Z.of_N d) with true by lia. rewrite Hp2. cbn [bind]. replace (Z.of_N d <=? 57) with true by lia.
    reflexivity. }
  destruct (lex_number_span true lb l (d :: ip) frac ex s) as (l' & H2 & Hs' & Hsent); try assumption; try reflexivity.
  exists l'. split; [|split; assumption].
  change 2%nat with (1 + 1)%nat. rewrite (steps_app _ _ _ _ 1 1 _ _ _ _ (steps_one _ _ _ _ _ _ _ _ H1)).
  apply steps_one. exact H2.
Qed.

End Numbers.
