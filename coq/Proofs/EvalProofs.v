(* C01: the tree walker of Model/Interp.v evaluates the translation of every Spec expression
   exactly as Spec/Expr.v says (eval_impl_spec).  Part 1: the simulation framework, the
   value-level lemmas (operators, accesses), literals / operators / data references.
   The built-in functions are in Proofs/EvalFuncProofs.v. *)
From Coq Require Import Lia ZifyN ZifyBool ZifyNat.
From Soy Require Import Model.Bytes Model.Num Model.Values Model.Outcome Model.Ast Model.Interp
  Model.ExprTrans Spec.Expr Generated.Tables Proofs.ValueProofs.
Open Scope N_scope.

(* ================= states: everything but cur / next_id / unbound is preserved ================= *)

Definition frame_eq (s s' : mstate) : Prop :=
  ctx s' = ctx s /\ mode s' = mode s /\ tmpl s' = tmpl s /\ depth_ s' = depth_ s /\ out s' = out s /\
  bufs s' = bufs s /\ calls_left s' = calls_left s /\ bytes_left s' = bytes_left s /\
  shared_writes s' = shared_writes s.

Lemma frame_eq_refl s : frame_eq s s.
Proof. unfold frame_eq; repeat split. Qed.

Lemma frame_eq_trans s1 s2 s3 : frame_eq s1 s2 -> frame_eq s2 s3 -> frame_eq s1 s3.
Proof.
  unfold frame_eq. intros (a1&a2&a3&a4&a5&a6&a7&a8&a9) (b1&b2&b3&b4&b5&b6&b7&b8&b9).
  repeat split; congruence.
Qed.

Lemma frame_eq_set_cur s p : frame_eq s (set_cur s p).
Proof. unfold frame_eq, set_cur; cbn; repeat split. Qed.
Lemma frame_eq_bump_id s : frame_eq s (bump_id s).
Proof. unfold frame_eq, bump_id; cbn; repeat split. Qed.
Lemma frame_eq_bump_unbound s : frame_eq s (bump_unbound s).
Proof. unfold frame_eq, bump_unbound; cbn; repeat split. Qed.

(* ================= agreement of a Spec result with a run of the walker ================= *)

(* [Rel] relates the Spec's intermediate result with the walker's (equality except inside data references) *)
Definition agree_r {A A'} (Rel : A -> A' -> Prop) (spec : outcome (A * N)) (m : M A') (st : mstate) : Prop :=
  match spec with
  | Ok (a, n') => exists a' st', m st = (Ok a', st') /\ Rel a a' /\ frame_eq st st' /\ next_id st' = n'
  | Err _ => exists msg st', m st = (Err msg, st') /\ frame_eq st st'
  | _ => True
  end.

Definition agree {A} (spec : outcome (A * N)) (m : M A) (st : mstate) : Prop :=
  match spec with
  | Ok (a, n') => exists st', m st = (Ok a, st') /\ frame_eq st st' /\ next_id st' = n'
  | Err _ => exists msg st', m st = (Err msg, st') /\ frame_eq st st'
  | _ => True
  end.

Lemma agree_r_eq {A} (spec : outcome (A * N)) (m : M A) st : agree_r eq spec m st <-> agree spec m st.
Proof.
  unfold agree_r, agree. destruct spec as [[a n']| | | | |]; try tauto.
  split.
  - intros (a'&st'&Hm&<-&Hf&Hn). eauto.
  - intros (st'&Hm&Hf&Hn). exists a, st'. auto.
Qed.

(* value-level: a Spec outcome against a model outcome *)
Definition orel {A} (so io : outcome A) : Prop :=
  match so with
  | Ok a => io = Ok a
  | Err _ => exists m, io = Err m
  | _ => True
  end.

Lemma orel_refl {A} (o : outcome A) : orel o o.
Proof. destruct o; cbn; eauto. Qed.

Lemma orel_bind {A B} (so io : outcome A) (sf jf : A -> outcome B) :
  orel so io -> (forall a, orel (sf a) (jf a)) -> orel (bind so sf) (bind io jf).
Proof.
  intros H Hf. destruct so as [a|em|em| | |]; cbn in *; try exact I.
  - subst io. cbn. apply Hf.
  - destruct H as [m' ->]. cbn. eauto.
Qed.

Section Sim.
Variable G : list (bstr * value).
Variable env : list (bstr * value).
Variable cf : cfg.

Definition env_ok (st : mstate) : Prop := forall k, sc_lookup (ctx st) k = assoc_s k env.

Lemma env_ok_frame s s' : frame_eq s s' -> env_ok s -> env_ok s'.
Proof. intros (Hc&_) H k. rewrite Hc. apply H. Qed.

Definition sim_r {A A'} (Rel : A -> A' -> Prop) (r : R A) (m : M A') : Prop :=
  forall st, env_ok st -> agree_r Rel (r (next_id st)) m st.
Definition sim {A} (r : R A) (m : M A) : Prop :=
  forall st, env_ok st -> agree (r (next_id st)) m st.

Lemma sim_r_eq {A} (r : R A) (m : M A) : sim_r eq r m <-> sim r m.
Proof. unfold sim_r, sim. split; intros H st Hst; apply agree_r_eq; auto. Qed.

Lemma sim_r_ret {A A'} (Rel : A -> A' -> Prop) x x' : Rel x x' -> sim_r Rel (rret x) (ret x').
Proof. intros HR st _. cbn. exists x', st. split; [reflexivity | split; [exact HR | split; [apply frame_eq_refl | reflexivity]]]. Qed.

Lemma sim_ret {A} (x : A) : sim (rret x) (ret x).
Proof. apply sim_r_eq. apply sim_r_ret. reflexivity. Qed.

Lemma sim_r_err {A A'} (Rel : A -> A' -> Prop) m : sim_r Rel (@rerr A) (@fail A' m).
Proof. intros st _. cbn. exists m, st. split; [reflexivity | apply frame_eq_refl]. Qed.

Lemma sim_err {A} m : sim (@rerr A) (@fail A m).
Proof. apply sim_r_eq. apply sim_r_err. Qed.

Lemma sim_r_bind {A A' B B'} (RA : A -> A' -> Prop) (RB : B -> B' -> Prop)
      (r : R A) (m : M A') (f : A -> R B) (g : A' -> M B') :
  sim_r RA r m -> (forall a a', RA a a' -> sim_r RB (f a) (g a')) -> sim_r RB (rbind r f) (mbind m g).
Proof.
  intros Hr Hf st Hst. specialize (Hr st Hst). unfold rbind, mbind, agree_r in *.
  destruct (r (next_id st)) as [[a n']| | | | |]; try exact I.
  - destruct Hr as (a'&st'&Hm&HR&Hfr&Hn). rewrite Hm.
    specialize (Hf a a' HR st' (env_ok_frame _ _ Hfr Hst)). rewrite Hn in Hf. unfold agree_r in Hf.
    destruct (f a n') as [[b n2]| | | | |]; try exact I.
    + destruct Hf as (b'&st2&Hg&HRb&Hfr2&Hn2). exists b', st2.
      split; [assumption | split; [assumption | split; [apply (frame_eq_trans _ _ _ Hfr Hfr2) | assumption]]].
    + destruct Hf as (msg&st2&Hg&Hfr2). exists msg, st2. split; [assumption|].
      apply (frame_eq_trans _ _ _ Hfr Hfr2).
  - destruct Hr as (msg&st'&Hm&Hfr). rewrite Hm. exists msg, st'. split; [reflexivity | assumption].
Qed.

Lemma sim_bind {A B} (r : R A) (m : M A) (f : A -> R B) (g : A -> M B) :
  sim r m -> (forall a, sim (f a) (g a)) -> sim (rbind r f) (mbind m g).
Proof.
  intros Hr Hf. apply sim_r_eq. apply (sim_r_bind eq eq); [apply sim_r_eq; exact Hr|].
  intros a a' <-. apply sim_r_eq. apply Hf.
Qed.

Lemma sim_lift {A} (so io : outcome A) : orel so io -> sim (rlift so) (lift io).
Proof.
  intros H st _. unfold rlift, lift. destruct so as [a|em|em| | |]; cbn in *; try exact I.
  - subst io. exists st. split; [reflexivity | split; [apply frame_eq_refl | reflexivity]].
  - destruct H as [m' ->]. exists m', st. split; [reflexivity | apply frame_eq_refl].
Qed.

(* a prefix of the walker that only moves cur / next_id / unbound *)
Lemma sim_pre {A} (r : R A) (m : M A) (h : mstate -> mstate) :
  (forall s, frame_eq s (h s) /\ next_id (h s) = next_id s) ->
  sim r m -> sim r (mbind (modify h) (fun _ => m)).
Proof.
  intros Hh Hm st Hst. destruct (Hh st) as [Hfr Hn].
  specialize (Hm (h st) (env_ok_frame _ _ Hfr Hst)). rewrite Hn in Hm.
  unfold mbind, modify, agree in *.
  destruct (r (next_id st)) as [[a n']| | | | |]; try exact I.
  - destruct Hm as (st'&Hm&Hfr'&Hn'). exists st'.
    split; [assumption | split; [apply (frame_eq_trans _ _ _ Hfr Hfr') | assumption]].
  - destruct Hm as (msg&st'&Hm&Hfr'). exists msg, st'. split; [assumption|].
    apply (frame_eq_trans _ _ _ Hfr Hfr').
Qed.

(* state.eval: the node register is put back *)
Lemma sim_eval (w : node -> M value) (r : R value) (n : node) :
  sim r (w n) -> sim r (eval w n).
Proof.
  intros Hw st Hst. specialize (Hw st Hst). unfold eval, mbind, get, modify, ret, agree in *.
  destruct (r (next_id st)) as [[a n']| | | | |]; try exact I.
  - destruct Hw as (st'&Hm&Hfr&Hn). rewrite Hm. eexists. split; [reflexivity|]. split.
    + apply (frame_eq_trans _ _ _ Hfr (frame_eq_set_cur _ _)).
    + cbn. assumption.
  - destruct Hw as (msg&st'&Hm&Hfr). rewrite Hm. exists msg, st'. split; [reflexivity | assumption].
Qed.

Lemma sim_evaldef (w : node -> M value) (ev : expr -> R value) (e : expr) (n : node) :
  sim (ev e) (w n) -> sim (ev_defined ev e) (evaldef w n).
Proof.
  intros Hw. unfold ev_defined, evaldef. apply sim_bind; [apply sim_eval; exact Hw|].
  intros [] ; cbn [is_undef]; try apply sim_ret. apply sim_err.
Qed.

(* ================= allocation ================= *)

Lemma sim_new_list_literal l : sim (new_list_literal l) (fresh_list l).
Proof.
  intros st _. unfold new_list_literal, fresh_list. destruct l; cbn.
  - exists st. split; [reflexivity | split; [apply frame_eq_refl | reflexivity]].
  - exists (bump_id st). split; [reflexivity | split; [apply frame_eq_bump_id | reflexivity]].
Qed.

Lemma sim_new_list_result l : sim (new_list_result l) (fresh_list_or_nil l).
Proof.
  intros st _. unfold new_list_result, fresh_list_or_nil. destruct l; cbn.
  - exists st. split; [reflexivity | split; [apply frame_eq_refl | reflexivity]].
  - exists (bump_id st). split; [reflexivity | split; [apply frame_eq_bump_id | reflexivity]].
Qed.

Lemma sim_new_map m : sim (new_map m) (fresh_map m).
Proof.
  intros st _. unfold new_map, fresh_map. cbn.
  exists (bump_id st). split; [reflexivity | split; [apply frame_eq_bump_id | reflexivity]].
Qed.

Lemma sim_spec_ext {A} (r r' : R A) (m : M A) : (forall n, r n = r' n) -> sim r m -> sim r' m.
Proof. intros H Hs st Hst. rewrite <- H. apply Hs. exact Hst. Qed.

Lemma sim_lookup k : sim (rret (lookup env k)) (m_lookup k).
Proof.
  intros st Hst. unfold agree, m_lookup, lookup, rret. rewrite (Hst k).
  destruct (assoc_s k env).
  - exists st. split; [reflexivity | split; [apply frame_eq_refl | reflexivity]].
  - exists (bump_unbound st). split; [reflexivity | split; [apply frame_eq_bump_unbound | reflexivity]].
Qed.

End Sim.

(* ================= numbers ================= *)

Lemma wrap64_id z : in_int64 z = true -> wrap64 z = z.
Proof.
  unfold in_int64, wrap64, two63, two64. intros H.
  apply andb_true_iff in H. destruct H as [H1 H2].
  apply Z.leb_le in H1. apply Z.ltb_lt in H2.
  rewrite Z.mod_small; lia.
Qed.

Lemma int_result_wrap z : orel (int_result z) (Ok (VInt (wrap64 z))).
Proof.
  unfold int_result. destruct (in_int64 z) eqn:H; cbn; [|exact I].
  rewrite (wrap64_id _ H). reflexivity.
Qed.

Lemma number_of_to_float v : orel (number_of v) (to_float v).
Proof.
  destruct v; cbn; eauto.
  destruct (fl_of_int z); cbn; eauto.
Qed.

Lemma float_result_of_fl o : orel (float_result o) (of_fl o).
Proof. destruct o; cbn; eauto. Qed.

Lemma float_op_rel f a c :
  orel (x <- number_of a ;; y <- number_of c ;; float_result (f x y)) (float_op f a c).
Proof.
  unfold float_op. apply orel_bind; [apply number_of_to_float|]. intros x.
  apply orel_bind; [apply number_of_to_float|]. intros y. apply float_result_of_fl.
Qed.

(* ================= ordering ================= *)

Lemma Zcompare_flip x y : (y ?= x)%Z = CompOpp (x ?= y)%Z.
Proof. apply Z.compare_antisym. Qed.

Lemma fl_cmp_flip x y : fl_cmp y x = match fl_cmp x y with Some c => Some (CompOpp c) | None => None end.
Proof.
  destruct x as [| a | a | m1 e1], y as [| c | c | m2 e2]; cbn; try reflexivity.
  - destruct a, c; reflexivity.
  - destruct a; reflexivity.
  - destruct a; reflexivity.
  - destruct c; reflexivity.
  - destruct (m2 <? 0)%Z; reflexivity.
  - destruct c; reflexivity.
  - destruct (m1 <? 0)%Z; reflexivity.
  - rewrite (Z.min_comm e2 e1). rewrite Zcompare_flip. reflexivity.
Qed.

Lemma order_rel op a c : match op with BLt | BGt | BLe | BGe => True | _ => False end ->
  orel (sem_order op a c) (compare_op (binop_of op) a c).
Proof.
  intros Hop. unfold sem_order, compare_op.
  apply orel_bind; [apply number_of_to_float|]. intros x.
  apply orel_bind; [apply number_of_to_float|]. intros y.
  cbn. f_equal. f_equal.
  unfold fl_ltb, fl_leb. rewrite (fl_cmp_flip x y).
  destruct op; try contradiction; cbn [binop_of]; destruct (fl_cmp x y) as [[]|]; reflexivity.
Qed.

(* ================= the strict operators ================= *)

Lemma add_rel a c : orel (sem_add a c) (arith OAdd a c).
Proof.
  unfold sem_add, arith.
  destruct a, c; cbn [is_str orb]; try apply float_op_rel; try apply orel_refl.
  apply int_result_wrap.
Qed.

Lemma sub_rel a c : orel (sem_int_or_float Z.sub fl_sub_r a c) (arith OSub a c).
Proof.
  unfold sem_int_or_float, arith. destruct a, c; try apply float_op_rel. apply int_result_wrap.
Qed.

Lemma mul_rel a c : orel (sem_int_or_float Z.mul fl_mul_r a c) (arith OMul a c).
Proof.
  unfold sem_int_or_float, arith. destruct a, c; try apply float_op_rel. apply int_result_wrap.
Qed.

Lemma mod_rel a c : orel (sem_mod a c) (arith OMod a c).
Proof.
  unfold sem_mod, arith, no_value. destruct a, c; cbn; eauto.
  destruct (z0 =? 0)%Z; cbn; eauto. apply int_result_wrap.
Qed.

Lemma strict_rel op a c :
  match op with BEq | BNe | BAnd | BOr => False | _ => True end ->
  orel (sem_strict op a c)
       (match op with
        | BLt | BGt | BLe | BGe => compare_op (binop_of op) a c
        | _ => arith (binop_of op) a c
        end).
Proof.
  intros Hop. destruct op; try contradiction; cbn [sem_strict binop_of].
  - apply mul_rel.
  - unfold sem_div, arith. apply float_op_rel.
  - apply mod_rel.
  - apply add_rel.
  - apply sub_rel.
  - apply (order_rel BLt); exact I.
  - apply (order_rel BGt); exact I.
  - apply (order_rel BLe); exact I.
  - apply (order_rel BGe); exact I.
Qed.

Lemma neg_rel v : orel (sem_neg v)
  (match v with VInt z => Ok (VInt (wrap64 (- z))) | VFloat f => Ok (VFloat (fl_neg f)) | _ => Err e_notnumber end).
Proof. destruct v; cbn; eauto. apply int_result_wrap. Qed.

(* ================= data references ================= *)

Lemma element_list_index l i : element l i = list_index l i.
Proof.
  unfold element, list_index.
  destruct (i <? 0)%Z eqn:Hneg; destruct (0 <=? i)%Z eqn:Hpos; cbn [andb orb]; try lia; try reflexivity.
  destruct (Z.of_nat (length l) <=? i)%Z eqn:Hhi; destruct (i <? Z.of_nat (length l))%Z eqn:Hlo; try lia; try reflexivity.
  assert (Hlt : (Z.to_nat i < length l)%nat) by lia.
  destruct (nth_error l (Z.to_nat i)) eqn:Hn.
  - apply nth_error_nth. exact Hn.
  - apply nth_error_None in Hn. lia.
Qed.

Lemma entry_map_key m k : entry m k = map_key m k.
Proof. reflexivity. Qed.

