(* Text level of C17 / C01: scanner model and expression parser model composed on the text the printer
   model writes.

     print_node e = Some txt   ->   lexExpr(txt) = items   ->   parseExpr(items) = e'   with  e' = e up to positions.

   Pieces: lex_expr_print (Proofs/LexPrintTop.v: the scanner sends the items of tokens_of e, types and texts,
   then the error item at end of input), parse_print_roundtrip (Proofs/ExprParserProofs.v, token level, positions
   as tokens_of assigns them), parse_expr_sim (Proofs/ExprParserStrip.v: the parser does not look at positions),
   parse_expr_agree (Proofs/ExprParserFuel.v: results do not depend on the budget once it suffices) and
   parse_expr_entry_post (Proofs/ParserProofs.v: the entry point's budget suffices). *)
From Soy Require Import Model.Bytes Model.Num Model.Values Model.Outcome Model.Ast Model.Token Model.NumLit Model.Quote
  Model.ExprParser Model.Parser Model.AstPrint Generated.Tables Model.Lexer Spec.ExprSyntax
  Proofs.ExprParserRules Proofs.ExprParserProofs Proofs.ExprParserStrip Proofs.ExprParserFuel
  Proofs.ParserMeasure Proofs.ParserProofs Proofs.LexerPrim Proofs.LexerProofs Proofs.LexParseBridge
  Proofs.LexTokens Proofs.LexPrintMain Proofs.LexPrintTop.
From Coq Require Import ZifyBool ZifyNat ZifyN Lia.
Open Scope N_scope.

(* parse.Expr(str): lexExpr, then parseExpr(0) under the entry point's budget; what the caller gets *)
Definition parse_expr_string (uni_letter uni_digit : Z -> bool) (s : bstr) : outcome (presult node) :=
  match lex_items uni_letter uni_digit (lex_budget s) true s with
  | Ok ts => Ok (po_result (soy_expr (N.of_nat (length s)) ts))
  | Err m => Err m | Crash m => Crash m | Diverge => Diverge | OutOfFuel => OutOfFuel | OutOfModel => OutOfModel
  end.

(* ---------- items that agree in type and text agree after erasing positions ---------- *)
Lemma tv_strip ts1 ts2 : map tv ts1 = map tv ts2 -> map strip_tok ts1 = map strip_tok ts2.
Proof.
  intros H. assert (G : forall ts, map strip_tok ts = map (fun p => tk (fst p) 0 (snd p)) (map tv ts)).
  { intros ts. rewrite map_map. reflexivity. }
  rewrite (G ts1), (G ts2), H. reflexivity.
Qed.

Lemma closer_error t : t_typ t = itemError -> closer t = true.
Proof. intros H. unfold closer. rewrite H. vm_compute. reflexivity. Qed.

Section Text.
Variable uni_letter uni_digit : Z -> bool.
Hypothesis letter_ascii : forall c, (c < 128)%N -> uni_letter (Z.of_N c) = ((65 <=? c) && (c <=? 90) || (97 <=? c) && (c <=? 122))%N.
Hypothesis digit_ascii : forall c, (c < 128)%N -> uni_digit (Z.of_N c) = digit_b c.
Hypothesis letter_eof : uni_letter (-1)%Z = false.
Hypothesis digit_eof : uni_digit (-1)%Z = false.

(* the entry point's result on an item list on which SOME budget gives a tree *)
Lemma soy_expr_of_big_fuel inlen ts F e st :
  items_wf inlen ts -> parse_expr_top F ts = POk e st -> po_result (soy_expr inlen ts) = POk e st.
Proof.
  intros Hw HF.
  destruct (parse_expr_entry_post true inlen ts (expr_fuel ts) Hw ltac:(unfold expr_fuel; lia)) as (Hte & _).
  unfold soy_expr in *. unfold parse_expr_entry in *. unfold parse_expr_top in HF.
  destruct (parse_expr (expr_fuel ts) 0 (pst_init ts)) as [n p|t c p|m|] eqn:E.
  - assert (A : parse_expr (expr_fuel ts) 0 (pst_init ts) = parse_expr F 0 (pst_init ts)).
    { apply parse_expr_agree; [rewrite E; discriminate | rewrite HF; discriminate]. }
    rewrite E, HF in A. injection A as -> ->. reflexivity.
  - assert (A : parse_expr (expr_fuel ts) 0 (pst_init ts) = parse_expr F 0 (pst_init ts)).
    { apply parse_expr_agree; [rewrite E; discriminate | rewrite HF; discriminate]. }
    rewrite E, HF in A. discriminate.
  - assert (A : parse_expr (expr_fuel ts) 0 (pst_init ts) = parse_expr F 0 (pst_init ts)).
    { apply parse_expr_agree; [rewrite E; discriminate | rewrite HF; discriminate]. }
    rewrite E, HF in A. discriminate.
  - cbn [po_result is_tree_or_error] in Hte. contradiction.
Qed.

(* C17 at text level: the string the printer writes for a well-formed expression, put through the scanner
   model (lexExpr) and the parser model (parse.Expr's entry point, its own budget), gives back the
   expression, up to node positions *)
Theorem text_roundtrip e txt : wf_expr e -> lex_ok e -> print_node e = Some txt ->
  exists e' st', parse_expr_string uni_letter uni_digit txt = Ok (POk e' st') /\ strip_pos e' = strip_pos e.
Proof.
  intros Hwf Hlo Hp.
  destruct (lex_expr_print uni_letter uni_digit letter_ascii digit_ascii letter_eof digit_eof e txt Hwf Hlo Hp)
    as (ts & err & Hlex & Hm & Herr).
  set (all := ts ++ [err]) in *.
  (* items, positions erased = the items of the position-free tree followed by a closer *)
  assert (Hall : map strip_tok all = tokens_of (strip_pos e) ++ [strip_tok err]).
  { unfold all. rewrite map_app. cbn [map]. f_equal. unfold tokens_of. rewrite show_strip. apply tv_strip. exact Hm. }
  assert (Hc : closer (strip_tok err) = true) by (apply closer_error; exact Herr).
  destruct (parse_print_roundtrip (strip_pos e) (strip_tok err) [] (wf_strip e Hwf) Hc) as (st0 & f0 & _ & HF).
  specialize (HF f0 (le_n _)). rewrite <- Hall, <- parse_expr_top_strip in HF.
  destruct (zr_ok_inv _ _ _ _ HF) as (e' & st' & Hrun & He' & _).
  (* the scanner's items are well-formed for the parser *)
  destruct (lex_items_total _ _ letter_eof digit_eof true txt) as (ts0 & Hl0 & Hscan).
  rewrite Hlex in Hl0. injection Hl0 as <-.
  pose proof (scan_items_wf_all _ _ Hscan) as Hiw.
  exists e', st'. split; [|exact He'].
  unfold parse_expr_string. rewrite Hlex. f_equal.
  apply (soy_expr_of_big_fuel _ all f0 e' st' Hiw Hrun).
Qed.

(* string-level injectivity: two well-formed (and lexically well-formed) expressions that print the same
   string are the same expression up to positions *)
Theorem print_string_injective e1 e2 txt :
  wf_expr e1 -> lex_ok e1 -> wf_expr e2 -> lex_ok e2 ->
  print_node e1 = Some txt -> print_node e2 = Some txt -> strip_pos e1 = strip_pos e2.
Proof.
  intros W1 L1 W2 L2 P1 P2.
  destruct (text_roundtrip e1 txt W1 L1 P1) as (a & sa & Ra & Ea).
  destruct (text_roundtrip e2 txt W2 L2 P2) as (c & sc & Rc & Ec).
  rewrite Ra in Rc. injection Rc as -> _. congruence.
Qed.

End Text.

(* with the unicode tables regenerated from the toolchain: the functions the model runner executes *)
Theorem text_roundtrip_tbl e txt : wf_expr e -> lex_ok e -> print_node e = Some txt ->
  exists e' st', parse_expr_string is_letter_tbl is_digit_tbl txt = Ok (POk e' st') /\ strip_pos e' = strip_pos e.
Proof.
  destruct tables_ascii as [Hl Hd]. destruct tables_eof as [El Ed].
  apply (text_roundtrip is_letter_tbl is_digit_tbl Hl Hd El Ed).
Qed.

Theorem print_string_injective_tbl e1 e2 txt :
  wf_expr e1 -> lex_ok e1 -> wf_expr e2 -> lex_ok e2 ->
  print_node e1 = Some txt -> print_node e2 = Some txt -> strip_pos e1 = strip_pos e2.
Proof.
  destruct tables_ascii as [Hl Hd]. destruct tables_eof as [El Ed].
  apply (print_string_injective is_letter_tbl is_digit_tbl Hl Hd El Ed).
Qed.
