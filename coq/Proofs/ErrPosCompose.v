(* C19, parse half: the composed statement WITHOUT side hypotheses on the item list or on the nested
   scanner (wt-parser's Proofs/LexParseBridge.v: soy_file_total_all, and Proofs/LexShift.v:
   nested_scanner_at_base).

   For EVERY byte string s: the scanner model returns an item list; the model of parse.SoyFile run on
   it -- with the scanner model itself (lexExpr / lexExprAt) as the scanner of quoted attribute
   expressions -- returns a tree or an error, never the slice panic of lineNumber, never out of fuel;
   an error carries a token whose line, as lexer.lineNumber computes it, lies between 1 and lines s,
   and that token is
     - the item the parser received last from the file's scanner or the one just before it, with
       everything Proofs/ErrPosFinal.v knows of a scanned item (inside s; an error item is the last
       item of the scan, at the cursor where it stopped; an unterminated construct: at the end of the
       input, on the last line), or
     - (class quoted:...) the last or last-but-one item received from the scan that the scanner model,
       STARTED AT base (lexExprAt), makes of the attribute's expression: the items themselves, no
       longer "the expression-mode items shifted by base". *)
From Soy Require Import Model.Bytes Model.Utf8 Model.Outcome Model.Num Model.Values Model.Ast Model.Token Model.Lexer
  Model.RawText Model.ExprParser Model.Parser Model.ParseBytes Model.Interp Spec.ErrPos Generated.Tables
  Proofs.ErrTokProofs Proofs.ParseErrBound Proofs.LexerProofs Proofs.ParserProofs Proofs.LexParseBridge
  Proofs.ErrPosWindow Proofs.ErrPosWindowCmd Proofs.ErrPosFinal.
From Coq Require Import ZifyBool ZifyNat ZifyN Lia List.
Import ListNotations.
Open Scope N_scope.

Section All.
Variable ul ud : Z -> bool.
Hypothesis Hl : ul (-1)%Z = false.
Hypothesis Hd : ud (-1)%Z = false.
Variable unq : bstr -> option bstr.

(* the window of a quoted attribute expression, in terms of the scan started at base *)
Definition c19_quoted_at (inlen : N) (t : tok) (c : bstr) (scans : list scanrec) : Prop :=
  is_prefix e_quoted c = true /\
  exists str base sr qs, In sr scans /\
    lex_items_at ul ud (Z.of_N base) (lex_budget str) str = Ok qs /\
    (t = itm qs (sc_recv sr) \/ t = itm qs (sc_recv sr - 1)%nat) /\
    (t_pos t <= inlen \/ (base = 0 /\ t_pos t <= N.of_nat (length str))).

Lemma c19_quoted_window_at inlen t c scans :
  quoted_window inlen (lexq_model ul ud) t c scans -> c19_quoted_at inlen t c scans.
Proof.
  intros (Hq & str & base & sr & Hin & Ht & Hpos). split; [exact Hq|].
  exists str, base, sr, (map (shift_tok base) (lexq_model ul ud str)).
  split; [exact Hin|]. split; [apply (nested_scanner_at_base ul ud Hl Hd)|]. split; [exact Ht|exact Hpos].
Qed.

Theorem c19_parse_error_position_all (s : bstr) :
  exists ts, lex_items ul ud (lex_budget s) false s = Ok ts /\
    let out := soy_file (N.of_nat (length s)) (lexq_model ul ud) unq ts in
    match po_result out with
    | POk _ _ => True
    | PErr t c st =>
        (is_prefix e_quoted c = false -> t_pos t <= N.of_nat (length s)) /\
        1 <= line_at s (t_pos t) <= lines s /\
        ((werr ts t st /\ item_facts ul ud s ts t) \/ c19_quoted_at (N.of_nat (length s)) t c (po_scans out))
    | PCrash _ | PFuel => False
    end.
Proof.
  destruct (soy_file_total_all ul ud Hl Hd unq s) as (ts & Hlex & Hte & _).
  exists ts. split; [exact Hlex|]. cbv zeta.
  destruct (po_result (soy_file (N.of_nat (length s)) (lexq_model ul ud) unq ts)) as [n st|t c st|m|] eqn:E;
    cbn in Hte; try contradiction; [exact I|].
  split; [|split; [apply line_at_inside|]].
  - intros Hq. unfold soy_file in E. destruct (parse_file_error_inside _ _ _ _ _ _ _ _ _ _ E) as [H|H]; [exact H | congruence].
  - destruct (parse_error_position ul ud Hl Hd _ s ts (lexq_model ul ud) unq t c st Hlex E) as [H|H]; [left; exact H|right].
    apply c19_quoted_window_at. exact H.
Qed.
End All.
