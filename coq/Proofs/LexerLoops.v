(* Progress lemmas for the scanning states of the lexer: each inner loop is shown, by induction on
   its own fuel, to leave through one of its exits before the fuel (remaining input + 1) runs out:
   every iteration consumes at least one byte or exits, and at end of input it exits.  The loops
   are proved in the budget form [loop_post B l] (LexerStates.v) with l the state at the loop head,
   so that the induction hypothesis composes by [loop_post_mono]. *)
From Soy Require Import Model.Bytes Model.Utf8 Model.Outcome Model.Token Generated.Tables Model.Lexer Proofs.LexerPrim Proofs.LexerStates.
From Coq Require Import ZifyBool ZifyNat ZifyN Lia.
Open Scope Z_scope.

(* close a loop's recursive call: the induction hypothesis at the advanced state, weakened *)
Ltac recur IH B2 :=
  eapply okp_weaken; [apply IH; [post | side] | intros [? ?]; apply (loop_post_mono _ _ _ B2); lsimpl; side].

Section Loops.
Variable inp : bstr.
Notation ilen := (Z.of_nat (length inp)).
Variable base : Z.
Hypothesis base_nonneg : 0 <= base.
Notation inv := (inv inp base).
Notation wf := (wfi inp base).
Notation step_post := (step_post inp base).
Notation loop_post := (loop_post inp base).

(* ---------- lexLineComment ---------- *)

Lemma line_comment_loop_ok fuel : forall l, wf l -> (Z.to_nat (ilen - l_pos l) < fuel)%nat ->
  okp (line_comment_loop inp ilen base fuel l) (loop_post 26 l).
Proof.
  induction fuel as [|f IH]; intros l Hw Hf; [lia|]. unfold wfi, LexerStates.wf in Hw. cbn [line_comment_loop].
  exec1. dest_hyps. exec1; [exec|].
  recur IH 26.
Qed.

Lemma lex_line_comment_ok l : inv LLineComment l -> okp (lex_line_comment inp ilen base l) (step_post LLineComment l).
Proof.
  intros (Hw & Hit & _). cbn [is_done] in Hit. eapply okp_weaken; [apply line_comment_loop_ok; [split; [exact Hw|exact Hit]|apply loop_fuel_ok; unfold LexerStates.wf in Hw; lia]|].
  intros p. apply (loop_post_step inp base LLineComment). discriminate.
Qed.

(* ---------- lexBlockComment ---------- *)

Lemma block_comment_loop_ok fuel : forall star l, wf l -> (Z.to_nat (ilen - l_pos l) < fuel)%nat ->
  okp (block_comment_loop inp ilen base fuel star l) (loop_post 12 l).
Proof.
  induction fuel as [|f IH]; intros star l Hw Hf; [lia|]. unfold wfi, LexerStates.wf in Hw. cbn [block_comment_loop].
  exec1. dest_hyps. exec1; [exec|]. exec1; [recur IH 12|]. exec1; [exec|]. recur IH 12.
Qed.

Lemma lex_block_comment_ok l : inv LBlockComment l -> okp (lex_block_comment inp ilen base l) (step_post LBlockComment l).
Proof.
  intros (Hw & Hit & _). cbn [is_done] in Hit. eapply okp_weaken; [apply block_comment_loop_ok; [split; [exact Hw|exact Hit]|apply loop_fuel_ok; unfold LexerStates.wf in Hw; lia]|].
  intros p. apply (loop_post_step inp base LBlockComment). discriminate.
Qed.

(* ---------- stringLexer ---------- *)

Lemma string_loop_ok fuel : forall q l, wf l -> (Z.to_nat (ilen - l_pos l) < fuel)%nat ->
  okp (string_loop inp ilen base fuel q l) (loop_post 12 l).
Proof.
  induction fuel as [|f IH]; intros q l Hw Hf; [lia|]. unfold wfi, LexerStates.wf in Hw. cbn [string_loop].
  exec1. dest_hyps. exec1; [exec|]. exec1; [exec1; dest_hyps; recur IH 12|]. exec1; [exec|]. recur IH 12.
Qed.

Lemma lex_string_ok q l : inv (LString q) l -> okp (lex_string inp ilen base q l) (step_post (LString q) l).
Proof.
  intros (Hw & Hit & _). cbn [is_done] in Hit. eapply okp_weaken; [apply string_loop_ok; [split; [exact Hw|exact Hit]|apply loop_fuel_ok; unfold LexerStates.wf in Hw; lia]|].
  intros p. apply (loop_post_step inp base (LString q)). discriminate.
Qed.

(* ---------- lexCss ---------- *)

Definition css_post (l : lx) (r : lstate * lx + lx) : Prop :=
  match r with
  | inl p => loop_post 10 l p
  | inr l1 => l_out l1 = l_out l /\ l_start l1 = l_start l /\ l_pos l + 1 <= l_pos l1 <= ilen /\ l_width l1 = 1 /\ l_dd l1 = l_dd l /\
              l_ticks l <= l_ticks l1 /\ l_ticks l1 - l_ticks l <= l_pos l1 - l_pos l
  end.

Lemma css_loop_ok fuel : forall l, wf l -> (Z.to_nat (ilen - l_pos l) < fuel)%nat ->
  okp (css_loop inp ilen base fuel l) (css_post l).
Proof.
  induction fuel as [|f IH]; intros l Hw Hf; [lia|]. unfold wfi, LexerStates.wf in Hw. cbn [css_loop].
  exec1. dest_hyps. exec1.
  - exec1. dest_hyps. subst. cbn [bind okp css_post]. post.
  - exec1; [cbn [okp css_post]; norm_bools; fin|].
    eapply okp_weaken; [apply IH; [post|side]|]. intros [p|l2]; cbn [css_post].
    + apply (loop_post_mono _ _ _ 10); lsimpl; side.
    + intros Hr. norm_bools. fin.
Qed.

Lemma lex_css_ok l : inv LCss l -> okp (lex_css inp ilen base l) (step_post LCss l).
Proof.
  intros (Hw & Hit & _). unfold LexerStates.wf in Hw. cbn [is_done] in Hit. unfold lex_css, double_close. exec1. dest_hyps.
  eapply okp_bind; [apply css_loop_ok; [post|apply loop_fuel_ok; side]|].
  intros [p|l3] Hc; cbn [css_post] in Hc.
  - cbn [okp]. apply (loop_post_step inp base LCss); [discriminate|]. revert Hc. apply loop_post_mono; lsimpl; cbn [rank]; side.
  - lsimpl. exec.
Qed.

(* ---------- lexLiteral ---------- *)

Definition lit_space_post (ch0 : Z) (l : lx) (p : Z * lx) : Prop :=
  let '(ch, l1) := p in
  l_out l1 = l_out l /\ l_start l1 = l_start l /\ l_dd l1 = l_dd l /\ l_pos l <= l_pos l1 <= ilen /\
  l_ticks l <= l_ticks l1 /\ l_ticks l1 - l_ticks l <= l_pos l1 - l_pos l + 1 /\
  (ch0 < 0 -> l_ticks l1 = l_ticks l).

Lemma literal_space_loop_ok fuel : forall ch l, 0 <= l_pos l <= ilen ->
  (0 <= ch -> (Z.to_nat (ilen - l_pos l) + 1 < fuel)%nat) -> (0 < fuel)%nat ->
  okp (literal_space_loop inp ilen fuel ch l) (lit_space_post ch l).
Proof.
  induction fuel as [|f IH]; intros ch l Hp Hf H0; [lia|]. cbn [literal_space_loop].
  destruct (gen_isSpace ch) eqn:E; [|cbn; fin].
  apply isSpace_nonneg in E. exec1. dest_hyps.
  eapply okp_weaken; [apply IH; fin|]. intros [c l2] Hr. unfold lit_space_post in *. fin.
Qed.

Lemma literal_lens : Z.of_nat (length literal_close1) = 1 + Z.of_nat (length literal_end_kw) + 1 /\
                     Z.of_nat (length literal_close2) = 2 + Z.of_nat (length literal_end_kw) + 2.
Proof. vm_compute. split; reflexivity. Qed.

Ltac exec_idx :=
  match goal with
  | |- okp (match index_of (if ?c then _ else _) _ _ with _ => _ end) _ => let E := fresh "E" in destruct c eqn:E
  | |- okp (match index_of ?c ?v 0 with _ => _ end) _ =>
      let E := fresh "Ei" in destruct (index_of c v 0) eqn:E; [apply index_of_bound in E|]
  end.
Ltac exec' := repeat (dest_hyps; first [exec_idx | exec1]).

Lemma lex_literal_ok l : inv LLiteral l -> okp (lex_literal inp ilen base l) (step_post LLiteral l).
Proof.
  intros (Hw & Hit & _). unfold LexerStates.wf in Hw. cbn [is_done] in Hit. unfold lex_literal, double_close. exec1. dest_hyps.
  eapply okp_bind; [apply literal_space_loop_ok; [side| |lia]; unfold loop_fuel; intros; fin|].
  intros [ch l1] Hl. unfold lit_space_post in Hl. cbn beta iota. dest_hyps.
  pose proof literal_lens as (C1 & C2).
  assert (Hkw : 0 <= Z.of_nat (length literal_end_kw)) by lia.
  exec'.
Qed.

End Loops.
