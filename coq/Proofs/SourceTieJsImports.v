(* Source tie, family 76-gotrans-soyjs, the import-block part (soyjs/formatters.go):
   Model/Compile.v's es6_identifier and es6_import against ES6Identifier and the ES6 formatter's
   Call / Directive / Function as gotrans translates them from today's source. *)
From Coq Require Import ZArith NArith Bool Lia ZifyBool ZifyN List.
From Soy Require Import Model.Bytes Generated.Tables Model.Compile Proofs.SourceTieBase.
Import ListNotations.
Open Scope N_scope.

Theorem es6_identifier_matches_source (s : bstr) : es6_identifier s = src_soyjs_ES6Identifier s.
Proof.
  unfold es6_identifier, src_soyjs_ES6Identifier, go_replace_all. rewrite go_replace_byte by lia.
  cbv [c13_es6_ident_from c13_es6_ident_to].
  induction s as [|c r IH]; cbn [go_replace_char replace_byte]; [reflexivity|]. rewrite IH. destruct (c =? 46); reflexivity.
Qed.

(* the import line of Model/Compile.v's ES6 import block *)
Theorem es6_import_matches_source (name : bstr) :
  es6_import name = snd (src_soyjs_ES6Formatter_Call name) /\
  es6_import name = src_soyjs_ES6Formatter_Directive name /\
  es6_import name = src_soyjs_ES6Formatter_Function name.
Proof.
  unfold es6_import, src_soyjs_ES6Formatter_Call, src_soyjs_ES6Formatter_Directive, src_soyjs_ES6Formatter_Function.
  cbn [snd]. rewrite es6_identifier_matches_source.
  cbv [c13_es6_import_a c13_es6_import_b c13_es6_import_c].
  repeat split; rewrite <- ?app_assoc; reflexivity.
Qed.
