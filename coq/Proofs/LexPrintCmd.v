(* The scanner model on the text of a print command "{" expr |name:arg,arg ... "}" as printed by
   PrintNode.String(): in file mode it sends "{", the items of tokens_of_print (types and texts), EOF.
   Directive lists are composed with the combinators of Proofs/LexPrint.v; new here are the steps around the
   tag: lexText at "{", lexLeftDelim, lexBeginTag before, and "}" -> lexRightDelim -> lexText at end of input after. *)
From Soy Require Import Model.Bytes Model.Utf8 Model.Num Model.Values Model.Outcome Model.Ast Model.Token Model.NumLit Model.Quote
  Model.AstPrint Generated.Tables Model.Lexer Spec.ExprSyntax Spec.Text
  Proofs.Utf8Proofs Proofs.ExprParserProofs Proofs.LexerPrim Proofs.LexerStates Proofs.LexerProofs
  Proofs.LexTokens Proofs.LexNumbers Proofs.LexStrings Proofs.LexExpr Proofs.LexPrint Proofs.LexPrintMain Proofs.LexPrintTop
  Proofs.LexBodyText Proofs.LexBodyTop.
From Coq Require Import ZifyBool ZifyNat ZifyN Lia.
Open Scope Z_scope.

(* lexical well-formedness of a print command: the expression and every directive argument as for
   expressions; directive names are ASCII words that are not keywords *)
Definition lex_ok_directive (d : node) : Prop :=
  match d with NDirective _ name args => plain_word name /\ allP lex_ok args | _ => False end.
Definition lex_ok_print (n : node) : Prop :=
  match n with NPrint _ arg dirs => lex_ok arg /\ allP lex_ok_directive dirs | _ => False end.

Definition T_pipe : N * bstr := (itemPipe, [124%N]).
Definition dir_toks (name : bstr) (args : list node) : list (N * bstr) :=
  [T_pipe; (itemIdent, name)] ++ match args with [] => [] | _ => [T_col] ++ sepj [T_com] (map toks args) end.
Definition toks_directive (d : node) : list (N * bstr) :=
  match d with NDirective _ name args => dir_toks name args | _ => [] end.

(* ---------- the Spec's items of a directive / a print command, as (type, text) pairs ---------- *)
Lemma sepj_flat a0 rest : toks a0 ++ flat_map (fun c => T_com :: toks c) rest = sepj [T_com] (map toks (a0 :: rest)).
Proof.
  revert a0. induction rest as [|a1 r IH]; intros a0; [cbn; rewrite app_nil_r; reflexivity|].
  cbn [flat_map]. change (map toks (a0 :: a1 :: r)) with (toks a0 :: map toks (a1 :: r)).
  change (sepj [T_com] (toks a0 :: map toks (a1 :: r))) with (toks a0 ++ [T_com] ++ sepj [T_com] (map toks (a1 :: r))).
  rewrite <- IH. reflexivity.
Qed.

Lemma dargs_later path : forall args i,
  map tv (List.concat (mapi_from (fun (i : nat) (c : node) =>
     (if Nat.eqb i 0 then T_colon else T_comma) :: parens (sty_min (i :: path)) (show sty_min (i :: path) c)) (S i) args))
  = flat_map (fun c => T_com :: toks c) args.
Proof.
  induction args as [|a r IH]; intros i; [reflexivity|].
  cbn [mapi_from List.concat flat_map Nat.eqb]. rewrite map_app, IH. cbn [map tv t_typ t_val T_comma tk parens sty_min].
  rewrite toks_path. reflexivity.
Qed.

Lemma show_directive_toks path d : map tv (show_directive sty_min path d) = toks_directive d.
Proof.
  destruct d; try reflexivity. cbn [show_directive toks_directive map tv t_typ t_val tk]. unfold dir_toks. cbn [app]. do 2 f_equal.
  destruct args as [|a0 r]; [reflexivity|].
  cbn [mapi_from List.concat Nat.eqb]. rewrite map_app, dargs_later. cbn [map tv t_typ t_val T_colon tk parens sty_min].
  rewrite toks_path. cbn [app]. f_equal. apply sepj_flat.
Qed.

Lemma print_toks p arg dirs :
  map tv (tokens_of_print (NPrint p arg dirs)) = toks arg ++ flat_map toks_directive dirs ++ [(itemRightDelim, [125%N])].
Proof.
  unfold tokens_of_print. cbn [show_print parens sty_min]. rewrite !map_app, toks_path. f_equal. f_equal.
  generalize 0%nat as i. induction dirs as [|d r IH]; intros i; [reflexivity|].
  cbn [mapi_from List.concat flat_map]. rewrite map_app, show_directive_toks, IH. reflexivity.
Qed.

(* ---------- the first character of a printed expression: ASCII, and none of { / \ ---------- *)
Definition tag_head (s : bstr) : Prop :=
  exists c r, s = c :: r /\ (c < 128)%N /\ c <> 123%N /\ c <> 47%N /\ c <> 92%N.

Lemma tag_head_app s t : tag_head s -> tag_head (s ++ t).
Proof. intros (c & r & -> & H). exists c, (r ++ t). split; [reflexivity|exact H]. Qed.

Lemma tag_head_wrap lv q s : tag_head s -> tag_head (wrap_operand lv q s).
Proof.
  intros H. unfold wrap_operand. destruct (lv <? q)%N; [|exact H].
  eexists; eexists. split; [reflexivity|]. repeat split; lia.
Qed.

Lemma tag_head_letter c0 cs : (c0 < 128)%N -> letter_b c0 = true -> tag_head (c0 :: cs).
Proof. intros H0 H1. exists c0, cs. split; [reflexivity|]. unfold letter_b in H1. repeat split; lia. Qed.

Lemma print_tag_head : forall e s, wf_expr e -> lex_ok e -> print_node e = Some s -> tag_head s.
Proof.
  induction e as [e IH] using size_induction. intros s Hwf Hlo Hp.
  assert (Hlit : forall c r, (c < 128)%N -> c <> 123%N -> c <> 47%N -> c <> 92%N -> tag_head (c :: r)).
  { intros c r H0 H1 H2 H3. exists c, r. auto. }
  destruct e; cbn [wf_expr] in Hwf; try contradiction; cbn [lex_ok] in Hlo; try contradiction; cbn [print_node] in Hp.
  - injection Hp as <-. apply Hlit; lia.
  - injection Hp as <-. destruct x; apply Hlit; lia.
  - injection Hp as <-. destruct z as [|q|q]; cbn [dec_of_Z].
    + apply Hlit; lia.
    + destruct (dec_of_N_shape q) as (d & ds & E & Hd & _). rewrite E. inversion Hd as [|? ? Hd0 _]; subst.
      unfold digit_b in Hd0. apply Hlit; lia.
    + apply Hlit; lia.
  - rewrite Hp in Hlo. destruct Hlo as (hs & ip & frac & ex & -> & Hok & _).
    destruct Hok as (Hip & Hne & _). destruct ip as [|d ip]; [congruence|]. inversion Hip as [|? ? Hd _]; subst.
    unfold num_text, sign_text. unfold digit_b in Hd. destruct hs; cbn [app]; apply Hlit; lia.
  - injection Hp as <-. destruct Hlo as (rs & -> & _). unfold quoted. apply Hlit; lia.
  - injection Hp as <-. unfold dotted_ok in Hlo. pose proof (split_dots_concat name []) as Hc. cbn [app] in Hc.
    destruct (split_dots [] name) as [|first rest]; [contradiction|]. destruct Hlo as [(c0 & cs & -> & H0 & H1 & _) _].
    rewrite <- Hc. cbn [List.concat]. apply tag_head_app. apply tag_head_letter; assumption.
  - destruct Hlo as [(c0 & cs & -> & H0 & H1 & _) _]. destruct (opt_all (map print_node args)); cbn [obind] in Hp; [|discriminate].
    injection Hp as <-. change ((c0 :: cs) ++ [40%N] ++ join s_comma l ++ [41%N]) with (c0 :: (cs ++ [40%N] ++ join s_comma l ++ [41%N])).
    apply tag_head_letter; assumption.
  - destruct (opt_all (map print_node items)); cbn [obind] in Hp; [|discriminate]. injection Hp as <-. apply Hlit; lia.
  - destruct items as [|kv0 items0]; [injection Hp as <-; apply Hlit; lia|].
    destruct (opt_all_kv _); cbn [obind] in Hp; [|discriminate]. injection Hp as <-. apply Hlit; lia.
  - destruct (opt_all (map print_node access)); cbn [obind] in Hp; [|discriminate]. injection Hp as <-. apply Hlit; lia.
  - destruct (print_node e); cbn [obind] in Hp; [|discriminate]. injection Hp as <-. apply Hlit; lia.
  - destruct (print_node e); cbn [obind] in Hp; [|discriminate]. cbv zeta in Hp.
    destruct (wrap_operand (level_of e) ast_prec_unary b) as [|a0 r0]; [discriminate|].
    destruct (starts_with_digit (a0 :: r0)); injection Hp as <-; apply Hlit; lia.
  - destruct Hwf as [Hw1 Hw2]. destruct Hlo as [Hl1 Hl2].
    destruct (print_node e1) as [s1|] eqn:E1; cbn [obind] in Hp; [|discriminate].
    destruct (print_node e2) as [s2|] eqn:E2; cbn [obind] in Hp; [|discriminate]. cbv zeta in Hp. injection Hp as <-.
    apply tag_head_app, tag_head_wrap. apply (IH e1); [cbn [size]; lia|assumption|assumption|exact E1].
  - destruct Hwf as (_ & Hw1 & Hw2 & Hw3). destruct Hlo as (Hl1 & Hl2 & Hl3).
    destruct (print_node e1) as [s1|] eqn:E1; cbn [obind] in Hp; [|discriminate].
    destruct (print_node e2) as [s2|] eqn:E2; cbn [obind] in Hp; [|discriminate].
    destruct (print_node e3) as [s3|] eqn:E3; cbn [obind] in Hp; [|discriminate]. injection Hp as <-.
    apply tag_head_app, tag_head_wrap. apply (IH e1); [cbn [size]; lia|assumption|assumption|exact E1].
Qed.

Section Cmd.
Variable uni_letter uni_digit : Z -> bool.
Hypothesis letter_ascii : forall c, (c < 128)%N -> uni_letter (Z.of_N c) = ((65 <=? c) && (c <=? 90) || (97 <=? c) && (c <=? 122))%N.
Hypothesis digit_ascii : forall c, (c < 128)%N -> uni_digit (Z.of_N c) = digit_b c.
Hypothesis letter_eof : uni_letter (-1) = false.
Hypothesis digit_eof : uni_digit (-1) = false.
Variable inp : bstr.
Notation L := (lexes uni_letter uni_digit inp 0).
Notation W lem := (lem uni_letter uni_digit letter_ascii digit_ascii letter_eof digit_eof inp 0).
Notation steps := (steps uni_letter uni_digit inp 0).
Notation span := (span inp).
Notation ilen := (Z.of_nat (length inp)).

Lemma L_pipe : L anyty anys [124%N] [T_pipe] opnd.
Proof. apply (W L_eq_opnd _ _ _ _ _ (W lexes_punct 124%N itemPipe eq_refl) eq_refl). Qed.

Lemma L_colon : L term anys [58%N] [T_col] opnd.
Proof. apply (W L_anyP). apply (W L_eq_opnd _ _ _ _ _ (W lexes_punct 58%N itemColon eq_refl) eq_refl). Qed.

Lemma L_nil (P : N -> Prop) (F : bstr -> Prop) : L P F [] [] P.
Proof.
  intros l s Hs HP HF. exists 0%nat, l. split; [reflexivity|]. split; [exact Hs|]. split; [apply sends_nil, unsent_refl|exact HP].
Qed.

(* one directive *)
Lemma L_directive d txt : wf_directive d -> lex_ok_directive d -> print_node d = Some txt ->
  L term fexp txt (toks_directive d) term /\ exists r, txt = 124%N :: r.
Proof.
  destruct d; cbn [wf_directive lex_ok_directive]; try contradiction. intros Hwf [Hn Hlo] Hp. cbn [print_node] in Hp.
  cbn [toks_directive]. unfold dir_toks.
  assert (Hid : L opnd fexp name [(itemIdent, name)] term).
  { apply (W L_anyP). refine (W L_weaken _ _ _ _ _ _ _ _ (W L_ident name Hn) _ _ _); auto. apply fexp_stops. }
  assert (Hname : L term fexp ([124%N] ++ name) ([T_pipe] ++ [(itemIdent, name)]) term).
  { apply (W L_anyP). refine (W L_seq _ _ _ _ _ _ _ _ _ _ L_pipe Hid _ _); [intros; exact I|auto]. }
  destruct args as [|a0 args0] eqn:Eargs.
  - injection Hp as <-. split; [|eexists; reflexivity]. rewrite app_nil_r. exact Hname.
  - rewrite <- Eargs in *. destruct (opt_all (map print_node args)) as [l|] eqn:El; cbn [obind] in Hp; [|discriminate].
    injection Hp as <-. split; [|eexists; reflexivity].
    destruct (opt_all_items print_node toks args l El) as (A1 & A2 & A3).
    assert (Hall : forall it, In it (combine l (map toks args)) -> L opnd fexp (fst it) (snd it) term).
    { intros it Hin. destruct (A3 it Hin) as (x & Hx & Hpx & ->).
      apply (W lex_print); [eapply allP_In; eassumption|eapply allP_In; eassumption|exact Hpx]. }
    assert (Hne : combine l (map toks args) <> []).
    { intros E. apply (f_equal (@length _)) in E. rewrite combine_length, map_length in E.
      assert (Hl : length l = length args).
      { rewrite <- A1 at 1. rewrite map_length, combine_length, map_length. pose proof (f_equal (@length _) A2) as H2.
        rewrite !map_length, combine_length, map_length in H2. lia. }
      rewrite Eargs in *. cbn [length] in *. lia. }
    pose proof (W L_sepj [44%N] [T_com] (W L_comma) ltac:(intros s; cbn; lia) _ Hne Hall) as Hargs. rewrite A1, A2 in Hargs.
    replace ([124%N] ++ name ++ [58%N] ++ join s_comma l) with (([124%N] ++ name) ++ [58%N] ++ join [44%N] l)
      by (rewrite <- !app_assoc; reflexivity).
    replace (match args with [] => [] | _ :: _ => [T_col] ++ sepj [T_com] (map toks args) end)
      with ([T_col] ++ sepj [T_com] (map toks args)) by (rewrite Eargs; reflexivity).
    refine (W L_seq _ _ _ _ _ _ _ _ _ _ Hname (W L_seq _ _ _ _ _ _ _ _ _ _ L_colon Hargs _ _) _ _).
    + intros; exact I.
    + auto.
    + intros s _. cbn. lia.
    + auto.
Qed.

(* the directives of a print command, one after the other *)
Lemma L_dirs : forall dirs l, allP wf_directive dirs -> allP lex_ok_directive dirs -> opt_all (map print_node dirs) = Some l ->
  L term fexp (concat_b l) (flat_map toks_directive dirs) term /\ (l = [] \/ exists r, concat_b l = 124%N :: r).
Proof.
  induction dirs as [|d r IH]; intros l Hwf Hlo Hl; cbn [map opt_all] in Hl.
  - injection Hl as <-. split; [apply L_nil|left; reflexivity].
  - destruct (print_node d) as [s|] eqn:Ed; [|discriminate]. destruct (opt_all (map print_node r)) as [lr|] eqn:Er; [|discriminate].
    injection Hl as <-. destruct Hwf as [Hw1 Hw2]. destruct Hlo as [Hl1 Hl2].
    destruct (L_directive d s Hw1 Hl1 Ed) as (Hd & (r0 & Hr0)). destruct (IH lr Hw2 Hl2 eq_refl) as (Hr & Hhd).
    cbn [concat_b flat_map]. split; [|right; exists (r0 ++ concat_b lr); rewrite Hr0; reflexivity].
    refine (W L_seq _ _ _ _ _ _ _ _ _ _ Hd Hr _ _); [|auto].
    intros s0 Hs0. destruct Hhd as [->|(r1 & ->)]; [exact Hs0|cbn; lia].
Qed.

(* ---------- around the tag ---------- *)

(* lexText at "{" with nothing pending, lexLeftDelim, lexBeginTag: "{" is sent and the scanner is inside the tag *)
Lemma open_tag l c s : span l [] (123%N :: c :: s) -> (c < 128)%N -> c <> 123%N -> c <> 47%N -> c <> 92%N -> l_dd l = false ->
  exists l', steps 3 LText l = Ok (LInsideTag, l') /\ span l' [] (c :: s) /\ sent itemLeftDelim [123%N] l l'.
Proof.
  intros Hs Hc H1 H2 H3 Hdd.
  (* lexText *)
  destruct (next_ascii inp l [] 123%N (c :: s) Hs ltac:(lia)) as (Hn & Hs1).
  pose proof (span_backup inp l [] 123%N (c :: s) Hs) as Hsb.
  assert (Hst1 : step uni_letter uni_digit inp ilen 0 LText l = Ok (LLeftDelim, backup (adv l))).
  { cbn [step]. unfold lex_text. destruct (loop_fuel ilen l) as [|f] eqn:Ef; [unfold loop_fuel in Ef; lia|].
    rewrite (lex_text_loop_S inp f 0 l), Hn. cbn [bind]. change (Z.of_N 123 =? 47) with false. cbv iota. cbn [bind].
    change (Z.of_N 123 =? 123) with true. cbv iota.
    assert (Hsb' : span (backup (adv l)) ([] ++ []) (123%N :: c :: s)) by exact Hsb.
    destruct (met_span inp (backup (adv l)) [] [] _ Hsb') as (l3 & txt & Hm & Hs3 & Htx & Ho3 & Hdd3 & Hsame).
    change (Z.of_nat (length (@nil N))) with 0 in Hm.
    unfold maybe_emit_text in Hm |- *. destruct Hsb as (_ & _ & Hp). cbn [length] in Hp.
    destruct (l_start (backup (adv l)) <? l_pos (backup (adv l)) - 0) eqn:E; [exfalso; lia|]. reflexivity. }
  set (l1 := backup (adv l)) in *.
  (* lexLeftDelim *)
  destruct (next_ascii inp l1 [] 123%N (c :: s) Hsb ltac:(lia)) as (Hn1 & Hs2).
  destruct (next_ascii inp (adv l1) ([] ++ [123%N]) c s Hs2 Hc) as (Hn2 & Hs3).
  pose proof (span_backup inp (adv l1) ([] ++ [123%N]) c s Hs2) as Hsb2.
  set (l3 := set_dd (backup (adv (adv l1))) false).
  assert (Hs3' : span l3 [123%N] (c :: s)).
  { destruct Hsb2 as (A & B & C). unfold l3, LexTokens.span, set_dd. cbn [l_start l_pos]. auto. }
  destruct (emit_span inp 0 itemLeftDelim l3 [123%N] (c :: s) Hs3') as (He & Hs4).
  assert (Hst2 : step uni_letter uni_digit inp ilen 0 LLeftDelim l1 = Ok (LBeginTag, emitted 0 itemLeftDelim l3 [123%N])).
  { cbn [step]. unfold lex_left_delim. rewrite Hn1. cbn [bind]. rewrite Hn2. cbn [bind].
    assert (E : (Z.of_N c =? 123) = false) by lia. rewrite E. fold l3. rewrite He. reflexivity. }
  set (l4 := emitted 0 itemLeftDelim l3 [123%N]) in *.
  (* lexBeginTag *)
  destruct (next_ascii inp l4 [] c s Hs4 Hc) as (Hn4 & Hs5).
  pose proof (span_backup inp l4 [] c s Hs4) as Hsb4.
  assert (Hst3 : step uni_letter uni_digit inp ilen 0 LBeginTag l4 = Ok (LInsideTag, backup (adv l4))).
  { cbn [step]. unfold lex_begin_tag, peek. rewrite Hn4. cbn [bind].
    assert (E : ((Z.of_N c =? 47) || (Z.of_N c =? 92)) = false) by lia. rewrite E. reflexivity. }
  exists (backup (adv l4)). split; [|split; [exact Hsb4|]].
  - change 3%nat with (1 + (1 + 1))%nat.
    rewrite (steps_app _ _ _ _ 1 (1 + 1) _ _ _ _ (steps_one _ _ _ _ _ _ _ _ Hst1)).
    rewrite (steps_app _ _ _ _ 1 1 _ _ _ _ (steps_one _ _ _ _ _ _ _ _ Hst2)). apply steps_one. exact Hst3.
  - exists (Z.to_N (0 + l_pos l3)). unfold backup, adv, set_pos, l4, emitted, mktok, l3, set_dd, l1. cbn [l_out l_last l_dd]. auto.
Qed.

(* "}" at the end of the input: the closing item, then lexText sends EOF *)
Lemma close_tag l : span l [] [125%N] -> l_dd l = false ->
  exists l' p1 e, steps 3 LInsideTag l = Ok (LDone, l') /\ t_typ e = itemEOF /\
    l_out l' = e :: {| t_typ := itemRightDelim; t_pos := p1; t_val := [125%N] |} :: l_out l.
Proof.
  intros Hs Hdd.
  destruct (next_ascii inp l [] 125%N [] Hs ltac:(lia)) as (Hn & Hs1).
  assert (Hst1 : step uni_letter uni_digit inp ilen 0 LInsideTag l = Ok (LRightDelim, adv l)).
  { cbn [step]. unfold lex_inside_tag. rewrite Hn. cbn [bind]. eval_tests. reflexivity. }
  destruct (emit_span inp 0 itemRightDelim (adv l) [125%N] [] Hs1) as (He & Hs2).
  assert (Hst2 : step uni_letter uni_digit inp ilen 0 LRightDelim (adv l) = Ok (LText, emitted 0 itemRightDelim (adv l) [125%N])).
  { cbn [step]. unfold lex_right_delim, double_close. cbn [adv l_dd]. rewrite Hdd. cbn [bind]. rewrite He. reflexivity. }
  set (l2 := emitted 0 itemRightDelim (adv l) [125%N]) in *.
  destruct (loop_fuel ilen l2) as [|f] eqn:Ef; [unfold loop_fuel in Ef; lia|].
  destruct (text_eof inp l2 [] 0 f Hs2) as (l' & Hrun & (x & rest & txt & Hp & _ & Hres)).
  assert (Hst3 : step uni_letter uni_digit inp ilen 0 LText l2 = Ok (LDone, l')).
  { cbn [step]. unfold lex_text. rewrite Ef. exact Hrun. }
  destruct Hres as [(A & B & C & e & D & E)|[(x' & s2 & _ & _ & _ & _ & _ & (F & _) & _)|(s2 & _ & _ & _ & _ & (F & _) & _)]];
    [|cbn in F; lia|cbn in F; lia].
  injection Hp as <- _. unfold is_text_of in C. cbn [droppable] in C. subst txt. cbn [rev app] in E.
  exists l', (Z.to_N (0 + l_pos (adv l))), e. split; [|split; [exact D|rewrite E; reflexivity]].
  change 3%nat with (1 + (1 + 1))%nat.
  rewrite (steps_app _ _ _ _ 1 (1 + 1) _ _ _ _ (steps_one _ _ _ _ _ _ _ _ Hst1)).
  rewrite (steps_app _ _ _ _ 1 1 _ _ _ _ (steps_one _ _ _ _ _ _ _ _ Hst2)). apply steps_one. exact Hst3.
Qed.

End Cmd.

(* lex(name, String(n)) for a print command n: "{", the items of tokens_of_print n (types and texts), EOF *)
Theorem lex_print_command (uni_letter uni_digit : Z -> bool) :
  (forall c, (c < 128)%N -> uni_letter (Z.of_N c) = ((65 <=? c) && (c <=? 90) || (97 <=? c) && (c <=? 122))%N) ->
  (forall c, (c < 128)%N -> uni_digit (Z.of_N c) = digit_b c) ->
  uni_letter (-1) = false -> uni_digit (-1) = false ->
  forall p arg directives txt, wf_print (NPrint p arg directives) -> lex_ok_print (NPrint p arg directives) ->
  print_node (NPrint p arg directives) = Some txt ->
  exists ld mid e, lex_items uni_letter uni_digit (lex_budget txt) false txt = Ok (ld :: mid ++ [e]) /\
    t_typ ld = itemLeftDelim /\ t_val ld = [123%N] /\ map tv mid = map tv (tokens_of_print (NPrint p arg directives)) /\ t_typ e = itemEOF.
Proof.
  intros Hla Hda Hle Hde p arg directives txt Hwf Hlo Hp.
  cbn [wf_print lex_ok_print] in Hwf, Hlo. destruct Hwf as [Hwa Hwd]. destruct Hlo as [Hloa Hlod].
  cbn [print_node] in Hp. destruct (print_node arg) as [s|] eqn:Ea; cbn [obind] in Hp; [|discriminate].
  destruct (opt_all (map print_node directives)) as [l|] eqn:El; cbn [obind] in Hp; [|discriminate]. injection Hp as <-.
  destruct (print_tag_head arg s Hwa Hloa Ea) as (c & r & -> & Hc & H1 & H2 & H3).
  set (txt := [123%N] ++ (c :: r) ++ concat_b l ++ [125%N]).
  assert (Hs0 : span txt lex_init [] txt).
  { unfold span, lex_init. cbn [l_start l_pos length]. repeat split; try lia. }
  (* "{" *)
  destruct (open_tag uni_letter uni_digit Hla Hda Hle Hde txt lex_init c (r ++ concat_b l ++ [125%N]) Hs0 Hc H1 H2 H3 eq_refl) as (l1 & Hst1 & Hs1 & Hsent1).
  (* the expression *)
  destruct (L_dirs uni_letter uni_digit Hla Hda Hle Hde txt directives l Hwd Hlod El) as (HLd & Hhd).
  assert (Hf1 : fexp (concat_b l ++ [125%N])).
  { destruct Hhd as [->|(r1 & ->)]; cbn; lia. }
  assert (Hs1' : span txt l1 [] ((c :: r) ++ concat_b l ++ [125%N])) by exact Hs1.
  destruct (lex_print uni_letter uni_digit Hla Hda Hle Hde txt 0 arg Hwa Hloa (c :: r) Ea l1 _ Hs1'
              ltac:(unfold opnd; rewrite (sent_last _ _ _ _ Hsent1); reflexivity) Hf1) as (k2 & l2 & Hst2 & Hs2 & Hse2 & Hq2).
  (* the directives *)
  destruct (HLd l2 [125%N] Hs2 Hq2 ltac:(cbn; lia)) as (k3 & l3 & Hst3 & Hs3 & Hse3 & _).
  (* "}" and the end of the input *)
  destruct (sends_out _ _ _ Hse2) as (it2 & Ho2 & Hm2 & Hd2). destruct (sends_out _ _ _ Hse3) as (it3 & Ho3 & Hm3 & Hd3).
  destruct Hsent1 as (p1 & Ho1 & _ & Hd1).
  destruct (close_tag uni_letter uni_digit Hle Hde txt l3 Hs3 ltac:(cbn [lex_init l_dd] in Hd1; congruence)) as (l4 & p4 & e & Hst4 & He & Ho4).
  assert (Hall : steps uni_letter uni_digit txt 0 (3 + (k2 + (k3 + 3))) LText lex_init = Ok (LDone, l4)).
  { rewrite (steps_app _ _ _ _ 3 _ _ _ _ _ Hst1), (steps_app _ _ _ _ k2 _ _ _ _ _ Hst2), (steps_app _ _ _ _ k3 _ _ _ _ _ Hst3). exact Hst4. }
  destruct (lex_total_linear uni_letter uni_digit Hle Hde 0 ltac:(lia) false txt) as (lf & Hr & _).
  pose proof Hr as Hr'. rewrite lex_run_at_file in Hr'.
  pose proof (run_unique uni_letter uni_digit txt 0 (lex_budget txt) _ LText lex_init lf l4 Hr' Hall) as E.
  exists {| t_typ := itemLeftDelim; t_pos := p1; t_val := [123%N] |},
         (it2 ++ it3 ++ [{| t_typ := itemRightDelim; t_pos := p4; t_val := [125%N] |}]), e.
  split; [|split; [reflexivity|split; [reflexivity|split; [|exact He]]]].
  - match goal with |- _ = Ok ?X => change (lex_items uni_letter uni_digit (lex_budget txt) false txt = Ok X) end.
    unfold lex_items, lex_run. rewrite Hr. cbn [bind]. subst lf. f_equal. rewrite Ho4, Ho3, Ho2, Ho1. cbn [lex_init l_out].
    cbn [rev]. rewrite !rev_app_distr, !rev_involutive. cbn [rev app]. rewrite <- !app_assoc. reflexivity.
  - rewrite print_toks, !map_app. cbn [map tv t_typ t_val]. unfold tv in *. rewrite Hm2, Hm3. reflexivity.
Qed.
