(* C14, token grammar: every token list the recogniser accepts is bracket
   balanced.  The recogniser's stack, projected to the brackets its frames
   stand for, IS the stack of the bracket checker. *)
From Soy Require Import Model.Bytes Model.JsGen.
From Soy Require Import Spec.JsSyntax.
Open Scope N_scope.

Definition br_of_frame (f : frame) : list punct :=
  match f with
  | KParen | KCall | KIfCond | KSwCond | KFor1 | KFor2 | KFor3 | KParams => [PLPar]
  | KIdx | KArr => [PLBrk]
  | KObj | KImport | KBlock _ => [PLBrc]
  | KTern | KStmtE | KCase => []
  end.
Definition brs (s : list frame) : list punct := flat_map br_of_frame s.

Definition pat_plain (p : pat) : bool :=
  match p with
  | PT (TP PLPar) | PT (TP PRPar) | PT (TP PLBrk) | PT (TP PRBrk) | PT (TP PLBrc) | PT (TP PRBrc) => false
  | _ => true
  end.
Definition push_brs (push : option frame) : list punct := match push with Some f => br_of_frame f | None => [] end.

(* the fixed token sequences the recogniser expects: a single opening bracket that pushes its own frame, or
   bracket-free tokens that push a bracket-free frame *)
Fixpoint mode_wf (m : mode) : Prop :=
  match m with
  | MSeq ps push next =>
      ((exists p, ps = [PT (TP p)] /\ push_brs push = [p] /\ (p = PLPar \/ p = PLBrk \/ p = PLBrc))
       \/ (forallb pat_plain ps = true /\ push_brs push = []))
      /\ mode_wf next
  | _ => True
  end.

Lemma bal_plain t stk : (forall p, t = TP p -> p <> PLPar /\ p <> PRPar /\ p <> PLBrk /\ p <> PRBrk /\ p <> PLBrc /\ p <> PRBrc) ->
  bal_step stk t = Some stk.
Proof.
  intro H. destruct t as [x|k x|x| |p|nlt]; try reflexivity.
  destruct (H p eq_refl) as (H1 & H2 & H3 & H4 & H5 & H6). destruct p; try reflexivity; congruence.
Qed.

Lemma pat_plain_tok p t : pat_plain p = true -> pat_match p t = true ->
  forall q, t = TP q -> q <> PLPar /\ q <> PRPar /\ q <> PLBrk /\ q <> PRBrk /\ q <> PLBrc /\ q <> PRBrc.
Proof.
  intros Hp Hm q ->. destruct p as [t'| |]; cbn in Hm; try discriminate.
  destruct t' as [x|k x|x| |p'|nlt]; cbn in Hm; try discriminate.
  destruct p', q; cbn in Hp, Hm; try discriminate; repeat split; discriminate.
Qed.

Ltac wf_solve :=
  cbn;
  repeat match goal with
         | |- _ /\ _ => split
         | |- True => exact I
         | |- Some _ = Some _ => reflexivity
         | |- (exists p, _) \/ _ =>
             first [ right; split; reflexivity
                   | left; eexists; split; [reflexivity|]; cbn; split; [reflexivity|]; auto; fail ]
         end.
(* the step functions are finite case distinctions: open every match of the hypothesis *)
Ltac crack H :=
  repeat match type of H with
         | context [match ?x with _ => _ end] => destruct x; try discriminate H
         | context [if ?x then _ else _] => destruct x; try discriminate H
         end;
  inversion H; subst; clear H; wf_solve.

Lemma step_want_bal cl s t m' s' d : step_want cl s t = Some (m', s', d) -> mode_wf m' /\ bal_step (brs s) t = Some (brs s').
Proof. unfold step_want, cfg. intro H. crack H. Qed.

Lemma step_have_bal i s t m' s' d : step_have i s t = Some (m', s', d) -> mode_wf m' /\ bal_step (brs s) t = Some (brs s').
Proof. unfold step_have, cfg, seq1. intro H. crack H. Qed.

Lemma step_stmt_bal md els s t m' s' d : step_stmt md els s t = Some (m', s', d) -> mode_wf m' /\ bal_step (brs s) t = Some (brs s').
Proof. unfold step_stmt, cfg, seq1. intro H. crack H. Qed.

Lemma js_step_bal md m s t m' s' d : mode_wf m -> js_step md m s t = Some (m', s', d) -> mode_wf m' /\ bal_step (brs s) t = Some (brs s').
Proof.
  intros W. destruct m; cbn [js_step].
  - apply step_stmt_bal.
  - intro H. destruct t as [x|k x|x| |p|nlt]; try discriminate H; [destruct k|destruct p]; try discriminate H; apply step_stmt_bal in H; exact H.
  - unfold cfg, seq1. intro H. crack H.
  - apply step_want_bal.
  - apply step_have_bal.
  - unfold cfg. intro H. crack H.
  - unfold cfg, seq1. intro H. crack H.
  - intro H. destruct t as [x|k x|x| |p|nlt]; try (apply step_have_bal in H; exact H).
    destruct p; try (apply step_have_bal in H; exact H); unfold cfg in H; crack H.
  - unfold cfg. intro H. crack H.
  - intro H. destruct t as [x|k x|x| |p|nlt]; try (apply step_want_bal in H; exact H).
    destruct k; try (apply step_want_bal in H; exact H).
    destruct s; [|apply step_want_bal in H; exact H]. unfold cfg, m_params, seq1 in H. crack H.
  - unfold cfg, m_params, seq1. intro H. crack H.
  - unfold cfg. intro H. crack H.
  - unfold cfg. intro H. crack H.
  - unfold cfg, seq1. intro H. crack H.
  - unfold cfg, seq1. intro H. crack H.
  - (* MSeq *)
    cbn [mode_wf] in W. destruct W as [W Wn]. destruct ps as [|p ps]; [discriminate|].
    destruct (pat_match p t) eqn:Em; [|discriminate].
    destruct W as [(q & Eps & Epush & Hq)|(Hpl & Epush)].
    + inversion Eps; subst. unfold cfg. intro H; inversion H; subst. split; [exact Wn|].
      cbn in Em. destruct t as [x|k x|x| |p'|nlt]; try discriminate. cbn in Em.
      destruct push as [f|]; cbn in Epush; [|discriminate].
      unfold brs. cbn [flat_map]. rewrite Epush.
      destruct Hq as [->|[->| ->]]; destruct p'; try discriminate; reflexivity.
    + cbn [forallb] in Hpl. apply andb_prop in Hpl. destruct Hpl as [Hp Hps].
      assert (Eb : bal_step (brs s) t = Some (brs s)) by (apply bal_plain; eapply pat_plain_tok; eauto).
      unfold cfg. destruct ps as [|p2 ps2]; intro H; inversion H; subst.
      * split; [exact Wn|]. rewrite Eb. destruct push as [f|]; [|reflexivity]. cbn in Epush. unfold brs. cbn [flat_map]. rewrite Epush. reflexivity.
      * split; [|exact Eb]. cbn [mode_wf]. split; [|exact Wn]. right. split; [exact Hps|exact Epush].
Qed.

Lemma js_run_bal md ts : forall m s m' s' d, mode_wf m -> js_run md ts m s = Some (m', s', d) -> bal_run ts (brs s) = Some (brs s').
Proof.
  induction ts as [|t ts IH]; intros m s m' s' d W H; cbn [js_run bal_run] in *.
  - inversion H; subst. reflexivity.
  - destruct (js_step md m s t) as [[[m1 s1] d1]|] eqn:E; [|discriminate].
    destruct (js_step_bal _ _ _ _ _ _ _ W E) as [W1 B]. rewrite B.
    destruct (js_run md ts m1 s1) as [[[m2 s2] d2]|] eqn:E2; [|discriminate]. inversion H; subst.
    eapply IH; eauto.
Qed.

(* every token list the recogniser accepts is bracket balanced *)
Theorem js_parse_balanced md ts p : js_parse md ts = Some p -> bracket_balanced ts = true.
Proof.
  unfold js_parse, bracket_balanced. intro H.
  destruct (js_run md ts (MStmt false) []) as [[[m s] d]|] eqn:E; [|discriminate].
  destruct m; try discriminate. destruct s; [|discriminate].
  pose proof (js_run_bal md ts (MStmt false) [] _ _ _ I E) as B. cbn [brs flat_map] in B. rewrite B. reflexivity.
Qed.
