(* A relational, node-indexed induction principle for one unfolding of the tree
   walker (Model/Interp.v [walk_body]).

   [Phi m m'] relates two computations; the theorem [rel_walk_body] says: if
   [Phi] is closed under the monad's structure ([rel_logic]), relates every
   walker-independent computation that leaves call depth and position alone to
   itself, and relates the two recursive walkers [w], [w'] on every node
   satisfying [Q] (a predicate on nodes that is inherited by sub-nodes), then
   it relates [walk_body cf w n] and [walk_body cf w' n] for every [Q]-node n.

   Instances (Proofs/ErrPosProofs.v): the diagonal one (w' = w; containment of
   the reported position in the positions of the node being walked), and the
   pair (walk, walk with failures of entry-template sub-walks masked), which
   splits a failing run into "a sub-walk failed" / "this node's own code failed". *)
From Soy Require Import Model.Bytes Model.Num Model.Values Model.Outcome Model.Ast
  Model.Escape Model.Directives Model.Print Generated.Tables Model.Interp Spec.ErrPos Proofs.InterpLogic.
Require Import Lia.
Open Scope N_scope.

(* computations that leave the call depth and the position register alone *)
Definition neutral {A} (m : M A) : Prop :=
  forall st r st', m st = (r, st') -> depth_ st' = depth_ st /\ cur st' = cur st.

Lemma neutral_ret {A} (x : A) : neutral (ret x).
Proof. intros st r st' H. inversion H. split; reflexivity. Qed.
Lemma neutral_fail {A} e : neutral (@fail A e).
Proof. intros st r st' H. inversion H. split; reflexivity. Qed.
Lemma neutral_lift {A} (o : outcome A) : neutral (lift o).
Proof. intros st r st' H. inversion H. split; reflexivity. Qed.
Lemma neutral_get : neutral get.
Proof. intros st r st' H. inversion H. split; reflexivity. Qed.
Lemma neutral_modify f : (forall st, depth_ (f st) = depth_ st /\ cur (f st) = cur st) -> neutral (modify f).
Proof. intros Hf st r st' H. inversion H. apply Hf. Qed.
Lemma neutral_bind {A B} (m : M A) (f : A -> M B) : neutral m -> (forall x, neutral (f x)) -> neutral (mbind m f).
Proof.
  intros Hm Hf st r st2 Hb.
  destruct (mbind_inv _ _ _ _ _ Hb) as [(x & st1 & H1 & H2) | (e & H1 & ->)].
  - destruct (Hm _ _ _ H1) as [Hd Hc]. destruct (Hf x _ _ _ H2) as [Hd2 Hc2]. split; congruence.
  - eapply Hm; eauto.
Qed.
Lemma neutral_write w : neutral (write w).
Proof. intros st r st' H. apply write_inv in H. inversion H; subst; split; reflexivity. Qed.
Lemma neutral_write_all ws : neutral (write_all ws).
Proof.
  induction ws as [|x l IH]; cbn [write_all]; [apply neutral_ret|].
  apply neutral_bind; [apply neutral_write | intros _; exact IH].
Qed.
Lemma neutral_m_set k v : neutral (m_set k v).
Proof.
  intros st r st' H. rewrite m_set_eq in H. destruct (ctx st) as [|f l]; inversion H; subst; [split; reflexivity|].
  destruct (f_origin f); split; reflexivity.
Qed.
Lemma neutral_m_lookup k : neutral (m_lookup k).
Proof. intros st r st' H. rewrite m_lookup_eq in H. destruct (sc_lookup _ _); inversion H; subst; split; reflexivity. Qed.
Lemma neutral_m_push : neutral m_push.
Proof. apply neutral_modify. intros; split; reflexivity. Qed.
Lemma neutral_m_pop : neutral m_pop.
Proof. apply neutral_modify. intros; split; reflexivity. Qed.
Lemma neutral_fresh_list l : neutral (fresh_list l).
Proof. intros st r st' H. rewrite fresh_list_eq in H. destruct l; inversion H; subst; split; reflexivity. Qed.
Lemma neutral_fresh_list_or_nil l : neutral (fresh_list_or_nil l).
Proof. intros st r st' H. rewrite fresh_list_or_nil_eq in H. destruct l; inversion H; subst; split; reflexivity. Qed.
Lemma neutral_fresh_map m : neutral (fresh_map m).
Proof. intros st r st' H. inversion H; subst; split; reflexivity. Qed.

#[global] Hint Resolve neutral_ret neutral_fail neutral_lift neutral_get neutral_write neutral_write_all neutral_m_set
  neutral_m_lookup neutral_m_push neutral_m_pop neutral_fresh_list neutral_fresh_list_or_nil neutral_fresh_map : neutral.

Lemma neutral_loop_func name args : neutral (loop_func name args).
Proof.
  unfold loop_func. destruct args as [|a l]; [auto with neutral|].
  destruct a; auto with neutral.
  apply neutral_bind; [auto with neutral|]. intros ix.
  destruct (fn_is name n_index); [auto with neutral|].
  destruct ix; auto with neutral.
  destruct (fn_is name n_isFirst); [auto with neutral|].
  apply neutral_bind; [auto with neutral|]. intros li. destruct li; auto with neutral.
Qed.
#[global] Hint Resolve neutral_loop_func : neutral.

(* ------------------------------------------------------------------ *)
Section Rel.
Variable cf : cfg.
Variable Phi : forall A : Type, M A -> M A -> Prop.
Arguments Phi {A} _ _.
Variable Q : node -> Prop.

Record rel_logic : Prop := {
  rl_same : forall A (m : M A), neutral m -> Phi m m;
  rl_bind : forall A B (m m' : M A) (f f' : A -> M B),
      Phi m m' -> (forall x, Phi (f x) (f' x)) -> Phi (mbind m f) (mbind m' f');
  rl_get : forall B (f f' : mstate -> M B), (forall s, Phi (f s) (f' s)) -> Phi (mbind get f) (mbind get f');
  rl_set_cur : forall n, Q n ->
      Phi (modify (fun st => set_cur st (pos_of n))) (modify (fun st => set_cur st (pos_of n)));
  rl_eval : forall (w w' : node -> M value) e, Phi (w e) (w' e) -> Phi (eval w e) (eval w' e);
}.

Hypothesis L : rel_logic.
(* Q is inherited by sub-nodes and by the message nodes synthesised for a plural case *)
Hypothesis Qch : forall n, Q n -> Forall Q (children n).
Hypothesis Qsynth : forall mp id me de body l, Q (NMsg mp id me de body) -> Forall Q l -> Q (NMsg mp 0 [] [] l).

Ltac r_bind := apply (rl_bind L); [ | intro ].
Ltac neu := solve [ auto with neutral | apply neutral_bind; [ neu | intro; neu ] ].
Ltac r_same := apply (rl_same L); neu.

Section Body.
Variables w w' : node -> M value.
Hypothesis Hw : forall c, Q c -> Phi (w c) (w' c).
Hypothesis Hcall : forall callee cd, Phi (call_enter w callee cd) (call_enter w' callee cd).

Lemma rel_eval e : Q e -> Phi (eval w e) (eval w' e).
Proof. intros Hq. apply (rl_eval L). apply Hw. exact Hq. Qed.

Lemma rel_evaldef e : Q e -> Phi (evaldef w e) (evaldef w' e).
Proof. intros Hq. unfold evaldef. r_bind; [apply rel_eval; exact Hq|]. destruct x; r_same. Qed.

Lemma rel_eval_list es : Forall Q es -> Phi (eval_list w es) (eval_list w' es).
Proof.
  induction es as [|e l IH]; intros Hq; cbn [eval_list]; [r_same|].
  inversion Hq; subst. r_bind; [apply rel_eval; assumption|]. r_bind; [apply IH; assumption|]. r_same.
Qed.

Lemma rel_walk_list ns : Forall Q ns -> Phi (walk_list w ns) (walk_list w' ns).
Proof.
  induction ns as [|x l IH]; intros Hq; cbn [walk_list]; [r_same|].
  inversion Hq; subst. r_bind; [apply Hw; assumption | apply IH; assumption].
Qed.

Lemma rel_render_block body : Q body -> Phi (render_block w body) (render_block w' body).
Proof.
  intros Hq. unfold render_block.
  r_bind; [apply (rl_same L); apply neutral_modify; intros; split; reflexivity|].
  r_bind; [apply Hw; exact Hq|].
  apply (rl_get L). intros s. destruct (bufs s) as [|buf rest]; [r_same|].
  r_bind; [apply (rl_same L); apply neutral_modify; intros; split; reflexivity | r_same].
Qed.

Lemma rel_maplit_items l : Forall Q (map snd l) -> Phi (maplit_items w l) (maplit_items w' l).
Proof.
  induction l as [|[k e] r IH]; intros Hq; cbn [maplit_items]; [r_same|].
  cbn [map snd] in Hq. inversion Hq; subst.
  r_bind; [apply rel_eval; assumption|]. r_bind; [apply IH; assumption|]. r_same.
Qed.

Lemma rel_call_func name args : Forall Q args -> Phi (call_func w name args) (call_func w' name args).
Proof.
  intros Hq. unfold call_func. destruct (func_arities name) as [ar|]; [|r_same].
  destruct (negb _); [r_same|].
  r_bind; [apply rel_eval_list; exact Hq|].
  r_bind; [r_same|]. destruct x0; r_same.
Qed.

Lemma rel_dataref_access acc : Forall Q acc -> forall ref, Phi (dataref_access w acc ref) (dataref_access w' acc ref).
Proof.
  induction acc as [|a rest IH]; intros Hq ref; cbn [dataref_access]; [r_same|].
  inversion Hq as [|? ? Ha Hrest]; subst.
  r_bind.
  - destruct a; try r_same.
    pose proof (Qch _ Ha) as Hc. cbn [children] in Hc. inversion Hc; subst.
    r_bind; [apply rel_eval; assumption|].
    destruct x; try r_same; (r_bind; [r_same | r_same]).
  - destruct x as [oi k].
    destruct ref; try r_same.
    + destruct (is_nullsafe a); r_same.
    + destruct (is_nullsafe a); r_same.
    + destruct oi as [i|]; [apply IH; assumption | r_same].
    + destruct oi as [i|]; [r_same | apply IH; assumption].
Qed.

Lemma rel_print_dirs l : Forall Q l -> forall v, Phi (print_dirs cf w l v) (print_dirs cf w' l v).
Proof.
  induction l as [|d r IH]; intros Hq v; cbn [print_dirs]; [r_same|].
  inversion Hq as [|? ? Hd Hr]; subst.
  destruct d; try r_same.
  destruct (lookup_directive name) as [[arglens ?]|]; [|r_same].
  destruct (negb _); [r_same|].
  pose proof (Qch _ Hd) as Hc. cbn [children] in Hc.
  r_bind; [apply rel_eval_list; exact Hc|]. r_bind; [r_same|]. r_bind; [r_same|]. r_bind; [apply IH; exact Hr|]. r_same.
Qed.

Lemma rel_if_conds cs : Forall Q cs -> Phi (if_conds w cs) (if_conds w' cs).
Proof.
  induction cs as [|c0 r IH]; intros Hq; cbn [if_conds]; [r_same|].
  inversion Hq as [|? ? H0 Hr]; subst.
  destruct c0; try r_same.
  pose proof (Qch _ H0) as Hc. cbn [children] in Hc.
  destruct cond as [c|]; cbn [opt_list app] in Hc.
  - inversion Hc as [|? ? Hcq Hc2]; subst. inversion Hc2; subst.
    r_bind; [apply rel_eval; assumption|].
    destruct (truthy x); [|apply IH; exact Hr]. r_bind; [apply Hw; assumption | r_same].
  - inversion Hc; subst. r_bind; [apply Hw; assumption | r_same].
Qed.

Lemma rel_for_items var body items : Q body -> forall i, Phi (for_items w var body i items) (for_items w' var body i items).
Proof.
  intros Hq. induction items as [|x r IH]; intros i; cbn [for_items]; [r_same|].
  r_bind; [r_same|]. r_bind; [r_same|]. r_bind; [apply Hw; exact Hq|]. apply IH.
Qed.

Lemma rel_case_hit sv vs : Forall Q vs -> Phi (case_hit w sv vs) (case_hit w' sv vs).
Proof.
  induction vs as [|x r IH]; intros Hq; cbn [case_hit]; [r_same|].
  inversion Hq; subst.
  r_bind; [apply rel_eval; assumption|]. destruct (equals sv x0); [r_same | apply IH; assumption].
Qed.

Lemma rel_switch_cases sv cs : Forall Q cs -> Phi (switch_cases w sv cs) (switch_cases w' sv cs).
Proof.
  induction cs as [|c r IH]; intros Hq; cbn [switch_cases]; [r_same|].
  inversion Hq as [|? ? H0 Hr]; subst.
  destruct c; try r_same.
  pose proof (Qch _ H0) as Hc. cbn [children] in Hc. apply Forall_app in Hc. destruct Hc as [Hv Hb].
  inversion Hb; subst.
  r_bind; [apply rel_case_hit; exact Hv|].
  destruct (x || _); [|apply IH; exact Hr]. r_bind; [apply Hw; assumption | r_same].
Qed.

Lemma rel_call_params ps : Forall Q ps -> forall cd, Phi (call_params w ps cd) (call_params w' ps cd).
Proof.
  induction ps as [|p r IH]; intros Hq cd; cbn [call_params]; [r_same|].
  inversion Hq as [|? ? H0 Hr]; subst.
  destruct p; try r_same; pose proof (Qch _ H0) as Hc; cbn [children] in Hc; inversion Hc; subst.
  - r_bind; [apply rel_eval; assumption | apply IH; exact Hr].
  - r_bind; [apply rel_render_block; assumption | apply IH; exact Hr].
Qed.

Lemma rel_call_data alldata dat : Forall Q (opt_list dat) -> Phi (call_data w alldata dat) (call_data w' alldata dat).
Proof.
  intros Hq. unfold call_data. apply (rl_get L). intros c. destruct alldata.
  - destruct (sc_alldata (ctx c)); r_same.
  - destruct dat as [e|]; [|r_same]. cbn [opt_list] in Hq. inversion Hq; subst.
    r_bind; [apply rel_eval; assumption|]. destruct x; r_same.
Qed.

Lemma rel_plural_pick mp i dflt cs :
  (forall l, Forall Q l -> Q (NMsg mp 0 [] [] l)) -> Forall Q dflt -> Forall Q cs ->
  Phi (plural_pick w mp i dflt cs) (plural_pick w' mp i dflt cs).
Proof.
  intros Hs Hd. induction cs as [|c r IH]; intros Hq; cbn [plural_pick].
  - r_bind; [apply Hw; apply Hs; exact Hd | r_same].
  - inversion Hq as [|? ? H0 Hr]; subst. destruct c; try r_same.
    pose proof (Qch _ H0) as Hc. cbn [children] in Hc.
    destruct (i =? v)%Z; [|apply IH; exact Hr]. r_bind; [apply Hw; apply Hs; exact Hc | r_same].
Qed.

Lemma rel_msg_body mp ns :
  (forall l, Forall Q l -> Q (NMsg mp 0 [] [] l)) -> Forall Q ns -> Phi (msg_body w mp ns) (msg_body w' mp ns).
Proof.
  intros Hs. induction ns as [|x r IH]; intros Hq; cbn [msg_body]; [r_same|].
  inversion Hq as [|? ? H0 Hr]; subst.
  destruct x; try (apply IH; exact Hr).
  - r_bind; [apply Hw; exact H0 | apply IH; exact Hr].
  - pose proof (Qch _ H0) as Hc. cbn [children] in Hc. inversion Hc; subst.
    r_bind; [apply Hw; assumption | apply IH; exact Hr].
  - pose proof (Qch _ H0) as Hc. cbn [children] in Hc. inversion Hc as [|? ? Hv Hcd]; subst.
    apply Forall_app in Hcd. destruct Hcd as [Hcs Hdf].
    r_bind; [apply rel_eval; exact Hv|]. destruct x0; try r_same.
    r_bind; [apply rel_plural_pick; assumption | apply IH; exact Hr].
Qed.

Lemma rel_walk_node n : Q n -> Phi (walk_node cf w n) (walk_node cf w' n).
Proof.
  intros Hq. pose proof (Qch _ Hq) as Hc.
  destruct n; cbn [walk_node]; cbn [children opt_list] in Hc; try r_same.
  - (* NFunc *) destruct (_ || _); [r_same | apply rel_call_func; exact Hc].
  - (* NListLit *) r_bind; [apply rel_eval_list; exact Hc | r_same].
  - (* NMapLit *) r_bind; [apply rel_maplit_items; exact Hc | r_same].
  - (* NDataRef *)
    r_bind; [|apply rel_dataref_access; exact Hc].
    destruct (bstr_eqb key s_ij); [|r_same]. destruct (c_ij cf); r_same.
  - (* NNot *) inversion Hc; subst. r_bind; [apply rel_eval; assumption | r_same].
  - (* NNeg *) inversion Hc; subst. r_bind; [apply rel_evaldef; assumption|]. destruct x; r_same.
  - (* NBin *)
    inversion Hc as [|? ? H1 Hc2]; subst. inversion Hc2 as [|? ? H2 ?]; subst.
    destruct op.
    1-5: (r_bind; [apply rel_evaldef; assumption|]; r_bind; [apply rel_evaldef; assumption|]; r_same).
    1-2: (r_bind; [apply rel_eval; assumption|]; r_bind; [apply rel_eval; assumption|]; r_same).
    1-4: (r_bind; [apply rel_evaldef; assumption|]; r_bind; [apply rel_evaldef; assumption|]; r_same).
    + r_bind; [apply rel_eval; assumption|]. destruct (truthy x); [r_same|].
      r_bind; [apply rel_eval; assumption | r_same].
    + r_bind; [apply rel_eval; assumption|]. destruct (truthy x); [|r_same].
      r_bind; [apply rel_eval; assumption | r_same].
    + r_bind; [apply rel_eval; assumption|]. destruct (is_nullish x); [apply rel_eval; assumption | r_same].
  - (* NTern *)
    inversion Hc as [|? ? H1 Hc2]; subst. inversion Hc2 as [|? ? H2 Hc3]; subst. inversion Hc3; subst.
    r_bind; [apply rel_eval; assumption|]. destruct (truthy x); apply rel_eval; assumption.
  - (* NList *)
    r_bind; [r_same|]. r_bind; [apply rel_walk_list; exact Hc|]. r_bind; [r_same | r_same].
  - (* NPrint *)
    inversion Hc as [|? ? Harg Hdirs]; subst.
    r_bind; [apply Hw; exact Harg|].
    destruct x; try r_same;
      (r_bind; [apply rel_print_dirs; exact Hdirs|]; r_bind; [r_same|]; apply (rl_get L); intros s0;
       r_bind; [r_same|]; r_bind; [r_same | r_same]).
  - (* NCss *)
    r_bind; [|r_bind; r_same].
    destruct expr as [e|]; [|r_same]. cbn [opt_list] in Hc. inversion Hc; subst.
    r_bind; [apply rel_eval; assumption|]. r_bind; [r_same | r_same].
  - (* NLog *) inversion Hc; subst. r_bind; [apply rel_render_block; assumption | r_same].
  - (* NIf *) apply rel_if_conds; exact Hc.
  - (* NFor *)
    inversion Hc as [|? ? Hl Hc2]; subst. inversion Hc2 as [|? ? Hb Hie]; subst.
    r_bind; [apply rel_eval; exact Hl|].
    destruct x; try r_same.
    destruct l as [|y l'].
    + destruct ifempty as [ie|]; [|r_same]. cbn [opt_list] in Hie. inversion Hie; subst.
      r_bind; [apply Hw; assumption | r_same].
    + r_bind; [r_same|]. r_bind; [r_same|]. r_bind; [apply rel_for_items; exact Hb|]. r_bind; [r_same | r_same].
  - (* NSwitch *)
    inversion Hc as [|? ? Hv Hcs]; subst.
    r_bind; [apply rel_eval; exact Hv | apply rel_switch_cases; exact Hcs].
  - (* NCall *)
    destruct (find_template _ name) as [callee|]; [|r_same].
    apply Forall_app in Hc. destruct Hc as [Hd Hp].
    r_bind; [apply rel_call_data; exact Hd|]. r_bind; [apply rel_call_params; exact Hp|].
    r_bind; [apply (rl_set_cur L _ Hq) | apply Hcall].
  - (* NLetValue *) inversion Hc; subst. r_bind; [apply rel_eval; assumption|]. r_bind; r_same.
  - (* NLetContent *) inversion Hc; subst. r_bind; [apply rel_render_block; assumption|]. r_bind; r_same.
  - (* NMsg *)
    r_bind; [apply rel_msg_body; [|exact Hc] | r_same].
    intros l Hl. eapply Qsynth; eauto.
  - (* NTemplate *)
    inversion Hc; subst.
    r_bind; [apply (rl_same L); apply neutral_modify; intros; split; reflexivity|].
    r_bind; [apply Hw; assumption | r_same].
Qed.

Lemma rel_walk_body n : Q n -> Phi (walk_body cf w n) (walk_body cf w' n).
Proof. intros Hq. unfold walk_body. r_bind; [apply (rl_set_cur L _ Hq) | apply rel_walk_node; exact Hq]. Qed.
End Body.
End Rel.
