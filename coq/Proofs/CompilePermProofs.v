(* C13: the insertion order of the files.
   C. Registry.Add and the loop of Bundle.Compile: when they succeed and what they build
   D. accepted bundles: the same result under every permutation of the files
   E. rejected bundles: the reported error is one of the bundle's independent errors,
      and that set does not depend on the order *)
From Coq Require Import Permutation Lia.
From Soy Require Import Model.Bytes Model.Num Model.Values Model.Outcome Model.Ast Model.MsgId Model.Compile
  Generated.Tables Spec.Determinism Proofs.CompileProofs.
Open Scope N_scope.

(* ================================================================== *)
(* lists and association lists                                        *)
(* ================================================================== *)

Lemma beqb_eq x y : bstr_eqb x y = true <-> x = y.
Proof.
  revert y; induction x as [|a x IH]; intros [|c y]; cbn [bstr_eqb]; try (split; congruence).
  rewrite andb_true_iff, N.eqb_eq, IH. split; [intros [-> ->]; reflexivity | intros [= -> ->]; auto].
Qed.
Lemma beqb_refl x : bstr_eqb x x = true.
Proof. apply beqb_eq. reflexivity. Qed.
Lemma beqb_neq x y : bstr_eqb x y = false <-> x <> y.
Proof.
  split.
  - intros H E. apply beqb_eq in E. congruence.
  - intros H. destruct (bstr_eqb x y) eqn:E; [apply beqb_eq in E; contradiction | reflexivity].
Qed.
Lemma beqb_sym x y : bstr_eqb x y = bstr_eqb y x.
Proof.
  destruct (bstr_eqb x y) eqn:E.
  - apply beqb_eq in E. subst. symmetry. apply beqb_refl.
  - symmetry. apply beqb_neq. apply beqb_neq in E. congruence.
Qed.

Lemma NoDup_app_iff {A} (l1 l2 : list A) :
  NoDup (l1 ++ l2) <-> NoDup l1 /\ NoDup l2 /\ (forall x, In x l1 -> ~ In x l2).
Proof.
  induction l1 as [|a l1 IH]; cbn [app].
  - split; [intros H; repeat split; [constructor | exact H | intros x []] | intros (_ & H & _); exact H].
  - split.
    + intros H. inversion H as [|? ? Hn Hd]; subst. apply IH in Hd. destruct Hd as (H1 & H2 & H3).
      repeat split; [constructor; [intros Hi; apply Hn, in_or_app; left; exact Hi | exact H1] | exact H2 |].
      intros x [<-|Hx]; [intros Hi; apply Hn, in_or_app; right; exact Hi | apply H3, Hx].
    + intros (H1 & H2 & H3). inversion H1 as [|? ? Hn Hd]; subst. constructor.
      * intros Hi. apply in_app_or in Hi. destruct Hi as [Hi|Hi]; [contradiction | apply (H3 a (or_introl eq_refl) Hi)].
      * apply IH. repeat split; [exact Hd | exact H2 | intros x Hx; apply H3; right; exact Hx].
Qed.

Lemma assoc_s_app {A} k (l1 l2 : list (bstr * A)) :
  assoc_s k (l1 ++ l2) = match assoc_s k l1 with Some v => Some v | None => assoc_s k l2 end.
Proof.
  induction l1 as [|[k' v] r IH]; cbn [app assoc_s]; [reflexivity|]. destruct (bstr_eqb k k'); [reflexivity | exact IH].
Qed.

Lemma assoc_s_None {A} k (l : list (bstr * A)) : assoc_s k l = None <-> ~ In k (map fst l).
Proof.
  induction l as [|[k' v] r IH]; cbn [assoc_s map fst In]; [split; [intros _ [] | reflexivity]|].
  destruct (bstr_eqb k k') eqn:E.
  - apply beqb_eq in E. subst. split; [discriminate | intros H; exfalso; apply H; left; reflexivity].
  - apply beqb_neq in E. rewrite IH. split; [intros H [Hk|Hk]; [congruence | contradiction] | intros H Hk; apply H; right; exact Hk].
Qed.

Lemma assoc_s_Some_In {A} k (v : A) l : assoc_s k l = Some v -> In (k, v) l.
Proof.
  induction l as [|[k' v'] r IH]; cbn [assoc_s]; [discriminate|].
  destruct (bstr_eqb k k') eqn:E.
  - apply beqb_eq in E. intros [= ->]. left. congruence.
  - intros H. right. apply IH, H.
Qed.

Lemma assoc_s_In_NoDup {A} k (v : A) l : NoDup (map fst l) -> In (k, v) l -> assoc_s k l = Some v.
Proof.
  induction l as [|[k' v'] r IH]; cbn [map fst assoc_s]; intros Hnd Hin; [destruct Hin|].
  inversion Hnd as [|? ? Hn Hd]; subst. destruct Hin as [[= -> ->]|Hin].
  - rewrite beqb_refl. reflexivity.
  - destruct (bstr_eqb k k') eqn:E; [|apply IH; assumption].
    apply beqb_eq in E. subst. exfalso. apply Hn. apply (in_map fst) in Hin. exact Hin.
Qed.

Lemma assoc_s_perm {A} (l l' : list (bstr * A)) k : NoDup (map fst l) -> Permutation l l' -> assoc_s k l = assoc_s k l'.
Proof.
  intros Hnd Hp.
  assert (Hnd' : NoDup (map fst l')) by (eapply Permutation_NoDup; [apply Permutation_map, Hp | exact Hnd]).
  destruct (assoc_s k l) as [v|] eqn:E.
  - symmetry. apply assoc_s_In_NoDup; [exact Hnd'|]. eapply Permutation_in; [exact Hp | apply assoc_s_Some_In, E].
  - symmetry. apply assoc_s_None. apply assoc_s_None in E. intros Hi. apply E.
    eapply Permutation_in; [apply Permutation_sym, Permutation_map, Hp | exact Hi].
Qed.

Lemma put_fresh {A} (m : list (bstr * A)) k v : assoc_s k m = None -> put m k v = m ++ [(k, v)].
Proof.
  induction m as [|[k' v'] r IH]; cbn [put assoc_s app]; [reflexivity|].
  destruct (bstr_eqb k k'); [discriminate|]. intros H. rewrite IH; [reflexivity | exact H].
Qed.

Lemma put_keys {A B} (m : list (bstr * A)) (m' : list (bstr * B)) k v v' :
  map fst m = map fst m' -> map fst (put m k v) = map fst (put m' k v').
Proof.
  revert m'. induction m as [|[k1 v1] r IH]; intros [|[k2 v2] r'] H; cbn [map fst] in H; try discriminate; cbn [put map fst]; [reflexivity|].
  injection H as -> Hr. destruct (bstr_eqb k k2); cbn [map fst]; [congruence | f_equal; apply IH, Hr].
Qed.

Definition template_entry (t : template) : bstr * template := (t_name t, t).
Lemma find_template_assoc ts name : find_template ts name = assoc_s name (map template_entry ts).
Proof.
  induction ts as [|t r IH]; cbn [find_template map assoc_s template_entry]; [reflexivity|].
  rewrite beqb_sym. destruct (bstr_eqb name (t_name t)); [reflexivity | exact IH].
Qed.
Lemma map_fst_entries ts : map fst (map template_entry ts) = map t_name ts.
Proof. rewrite map_map. reflexivity. Qed.

(* Registry.Template does not depend on the order of Templates when the names are unique *)
Lemma find_template_perm ts ts' name :
  NoDup (map t_name ts) -> Permutation ts ts' -> find_template ts name = find_template ts' name.
Proof.
  intros Hnd Hp. rewrite !find_template_assoc. apply assoc_s_perm; [rewrite map_fst_entries; exact Hnd | apply Permutation_map, Hp].
Qed.

Lemma two_occurrences {X} (l l1 l2 l3 : list X) a c :
  l = l1 ++ a :: l2 ++ c :: l3 -> Permutation l (a :: c :: (l1 ++ l2) ++ l3).
Proof.
  intros ->. eapply Permutation_trans; [apply Permutation_sym, Permutation_middle|]. constructor.
  rewrite app_assoc. apply Permutation_sym, Permutation_middle.
Qed.

(* ================================================================== *)
(* C. Registry.Add                                                    *)
(* ================================================================== *)

Fixpoint units_ok (us : list (add_err + tmpl_unit)) : option (list tmpl_unit) :=
  match us with
  | [] => Some []
  | inr u :: r => match units_ok r with Some l => Some (u :: l) | None => None end
  | inl _ :: _ => None
  end.

Definition name_file (t : template) : bstr * bstr := (t_name t, t_file t).
Definition reg_extend (reg : registry) (text : bstr) (ts : list template) : registry :=
  {| r_templates := r_templates reg ++ ts;
     r_sources := r_sources reg ++ map (fun t => (t_name t, text)) ts;
     r_files := r_files reg ++ map name_file ts |}.

(* the two maps of the registry have the same keys *)
Definition reg_inv (reg : registry) : Prop := map fst (r_sources reg) = map fst (r_files reg).

Lemma reg_inv_empty : reg_inv (cr_reg empty_creg).
Proof. reflexivity. Qed.

Lemma reg_extend_nil reg text : reg_extend reg text [] = reg.
Proof. destruct reg. unfold reg_extend. cbn. rewrite !app_nil_r. reflexivity. Qed.

Lemma reg_inv_extend reg text ts : reg_inv reg -> reg_inv (reg_extend reg text ts).
Proof. unfold reg_inv, reg_extend. cbn. intros H. rewrite !map_app, H, !map_map. reflexivity. Qed.

Lemma reg_append_fresh reg t text : reg_inv reg -> assoc_s (t_name t) (r_files reg) = None ->
  reg_append reg t text = reg_extend reg text [t].
Proof.
  intros Hinv Hf. unfold reg_append, reg_extend. cbn [map]. f_equal.
  - apply put_fresh. apply assoc_s_None. rewrite Hinv. apply assoc_s_None, Hf.
  - apply put_fresh, Hf.
Qed.

Lemma reg_extend_extend reg text ts1 ts2 : reg_extend (reg_extend reg text ts1) text ts2 = reg_extend reg text (ts1 ++ ts2).
Proof. unfold reg_extend. cbn. rewrite !map_app, !app_assoc. reflexivity. Qed.

Definition unit_name (u : tmpl_unit) : bstr := t_name (tu_template u).

Lemma unit_names_ok us l : units_ok us = Some l -> unit_names us = map unit_name l.
Proof.
  revert l. induction us as [|[e|u] r IH]; cbn [units_ok unit_names flat_map]; intros l H; [injection H as <-; reflexivity | discriminate |].
  destruct (units_ok r) as [l'|]; [|discriminate]. injection H as <-. cbn [map app]. f_equal. apply IH. reflexivity.
Qed.

(* success of the loop over the templates of one file *)
Lemma add_units_ok fn tx us : forall reg reg', reg_inv reg ->
  (add_units fn tx us reg = inr reg' <->
   exists l, units_ok us = Some l /\ NoDup (map unit_name l) /\
             (forall n, In n (map unit_name l) -> assoc_s n (r_files reg) = None) /\
             reg' = reg_extend reg tx (map tu_template l)).
Proof.
  induction us as [|[e|u] r IH]; intros reg reg' Hinv; cbn [add_units units_ok].
  - split.
    + intros [= <-]. exists []. repeat split; [constructor | intros n [] | symmetry; apply reg_extend_nil].
    + intros (l & [= <-] & _ & _ & ->). rewrite reg_extend_nil. reflexivity.
  - split; [discriminate | intros (l & H & _); discriminate].
  - destruct (assoc_s (t_name (tu_template u)) (r_files reg)) as [other|] eqn:Ef.
    + split; [discriminate|]. intros (l & Hl & _ & Hfresh & _).
      destruct (units_ok r) as [l'|]; [|discriminate]. injection Hl as <-.
      cbn [map] in Hfresh. pose proof (Hfresh (unit_name u) (or_introl eq_refl)) as H0. unfold unit_name in H0. congruence.
    + rewrite (reg_append_fresh reg _ tx Hinv Ef).
      rewrite (IH _ reg' (reg_inv_extend reg tx _ Hinv)). split.
      * intros (l & Hl & Hnd & Hfresh & ->). exists (u :: l). rewrite Hl. split; [reflexivity|]. cbn [map]. repeat split.
        -- constructor; [|exact Hnd]. intros Hi. specialize (Hfresh _ Hi). unfold reg_extend, unit_name in Hfresh. cbn [r_files map] in Hfresh.
           rewrite assoc_s_app, Ef in Hfresh. cbn [assoc_s name_file] in Hfresh. rewrite beqb_refl in Hfresh. discriminate.
        -- intros n [<-|Hn]; [exact Ef|]. specialize (Hfresh _ Hn). unfold reg_extend in Hfresh. cbn [r_files map] in Hfresh.
           rewrite assoc_s_app in Hfresh. destruct (assoc_s n (r_files reg)); [discriminate | reflexivity].
        -- rewrite reg_extend_extend. reflexivity.
      * intros (l & Hl & Hnd & Hfresh & ->). destruct (units_ok r) as [l'|]; [|discriminate]. injection Hl as <-.
        cbn [map] in Hnd, Hfresh. inversion Hnd as [|? ? Hn Hd]; subst. exists l'. split; [reflexivity|]. repeat split.
        -- exact Hd.
        -- intros n Hi. unfold reg_extend. cbn [r_files map]. rewrite assoc_s_app, (Hfresh n (or_intror Hi)). cbn [assoc_s name_file].
           destruct (bstr_eqb n (t_name (tu_template u))) eqn:E; [|reflexivity].
           apply beqb_eq in E. subst. contradiction.
        -- rewrite reg_extend_extend. reflexivity.
Qed.

(* what a file contributes when its own processing succeeds *)
Definition file_result (f : sfile) : option (list template * sfile) :=
  match find_namespace (sfile_body f) with
  | inl _ => None
  | inr (ns, ae) =>
      match units_ok (file_units (sfile_name f) ns ae None (sfile_body f)) with
      | Some l => Some (map tu_template l,
                        {| sfile_name := sfile_name f; sfile_text := sfile_text f; sfile_body := processed_body (sfile_name f) ns ae None (sfile_body f) |})
      | None => None
      end
  end.
Definition file_ts (f : sfile) : list template := match file_result f with Some (ts, _) => ts | None => [] end.
Definition file_pf (f : sfile) : sfile := match file_result f with Some (_, pf) => pf | None => f end.

Lemma file_defines_ok f ts pf : file_result f = Some (ts, pf) -> file_defines f = map t_name ts.
Proof.
  unfold file_result, file_defines. destruct (find_namespace (sfile_body f)) as [e|[ns ae]]; [discriminate|].
  destruct (units_ok _) as [l|] eqn:E; [|discriminate]. intros [= <- _]. rewrite (unit_names_ok _ _ E), map_map. reflexivity.
Qed.

Lemma registry_add_ok r f r' : reg_inv (cr_reg r) ->
  (registry_add r f = inr r' <->
   exists ts pf, file_result f = Some (ts, pf) /\ NoDup (map t_name ts) /\
                 (forall n, In n (map t_name ts) -> assoc_s n (r_files (cr_reg r)) = None) /\
                 r' = {| cr_soyfiles := cr_soyfiles r ++ [pf]; cr_reg := reg_extend (cr_reg r) (sfile_text f) ts |}).
Proof.
  intros Hinv. unfold registry_add, file_result.
  destruct (find_namespace (sfile_body f)) as [e|[ns ae]]; [split; [discriminate | intros (ts & pf & H & _); discriminate]|].
  destruct (add_units _ _ _ _) as [e|reg'] eqn:Ea.
  - split; [discriminate|]. intros (ts & pf & Hr & Hnd & Hfresh & _).
    destruct (units_ok _) as [l|] eqn:El; [|discriminate]. injection Hr as <- _.
    assert (H : add_units (sfile_name f) (sfile_text f) (file_units (sfile_name f) ns ae None (sfile_body f)) (cr_reg r) = inr (reg_extend (cr_reg r) (sfile_text f) (map tu_template l))).
    { apply add_units_ok; [exact Hinv|]. exists l. rewrite map_map in Hnd, Hfresh. repeat split; assumption. }
    congruence.
  - apply add_units_ok in Ea; [|exact Hinv]. destruct Ea as (l & El & Hnd & Hfresh & ->). rewrite El. split.
    + intros [= <-]. eexists _, _. split; [reflexivity|]. rewrite map_map. repeat split; assumption.
    + intros (ts & pf & [= <- <-] & _ & _ & ->). reflexivity.
Qed.

(* ---- the loop of Bundle.Compile over the files ---- *)

Definition all_ts (fs : list sfile) : list template := flat_map file_ts fs.
Definition all_sources (fs : list sfile) : list (bstr * bstr) :=
  flat_map (fun f => map (fun t => (t_name t, sfile_text f)) (file_ts f)) fs.

Definition big_extend (r : creg) (fs : list sfile) : creg :=
  {| cr_soyfiles := cr_soyfiles r ++ map file_pf fs;
     cr_reg := {| r_templates := r_templates (cr_reg r) ++ all_ts fs;
                  r_sources := r_sources (cr_reg r) ++ all_sources fs;
                  r_files := r_files (cr_reg r) ++ map name_file (all_ts fs) |} |}.

Definition files_ok (r : creg) (fs : list sfile) : Prop :=
  Forall (fun f => file_result f <> None) fs /\ NoDup (map t_name (all_ts fs)) /\
  (forall n, In n (map t_name (all_ts fs)) -> assoc_s n (r_files (cr_reg r)) = None).

Lemma add_files_ok fs : forall r r', reg_inv (cr_reg r) ->
  (add_all_files r (map SrcOk fs) = COk r' <-> files_ok r fs /\ r' = big_extend r fs).
Proof.
  induction fs as [|f rest IH]; intros r r' Hinv; cbn [map add_all_files].
  - unfold files_ok, big_extend, all_ts, all_sources. cbn. split.
    + intros [= <-]. split; [repeat split; [constructor | constructor | intros n []]|]. destruct r as [sf [a c d]]. cbn. rewrite !app_nil_r. reflexivity.
    + intros (_ & ->). destruct r as [sf [a c d]]. cbn. rewrite !app_nil_r. reflexivity.
  - destruct (registry_add r f) as [e|r1] eqn:Ea.
    + split; [discriminate|]. intros ((Hall & Hnd & Hfresh) & _). exfalso.
      inversion Hall as [|? ? Hf Hrest]; subst. destruct (file_result f) as [[ts pf]|] eqn:Er; [|congruence].
      assert (H : registry_add r f = inr {| cr_soyfiles := cr_soyfiles r ++ [pf]; cr_reg := reg_extend (cr_reg r) (sfile_text f) ts |}).
      { apply registry_add_ok; [exact Hinv|]. exists ts, pf. split; [exact Er|].
        unfold all_ts in Hnd, Hfresh. cbn [flat_map] in Hnd, Hfresh. unfold file_ts at 1 in Hnd. unfold file_ts at 1 in Hfresh. rewrite Er in Hnd, Hfresh.
        rewrite map_app in Hnd, Hfresh. apply NoDup_app_iff in Hnd. destruct Hnd as (H1 & _ & _).
        repeat split; [exact H1 | intros n Hn; apply Hfresh, in_or_app; left; exact Hn]. }
      congruence.
    + apply registry_add_ok in Ea; [|exact Hinv]. destruct Ea as (ts & pf & Er & Hnd1 & Hfresh1 & ->).
      rewrite IH; [|apply reg_inv_extend, Hinv].
      assert (Hts : file_ts f = ts) by (unfold file_ts; rewrite Er; reflexivity).
      assert (Hpf : file_pf f = pf) by (unfold file_pf; rewrite Er; reflexivity).
      assert (Hbig : big_extend {| cr_soyfiles := cr_soyfiles r ++ [pf]; cr_reg := reg_extend (cr_reg r) (sfile_text f) ts |} rest = big_extend r (f :: rest)).
      { unfold big_extend, reg_extend, all_ts, all_sources. cbn [cr_soyfiles cr_reg r_templates r_sources r_files flat_map map].
        rewrite Hts, Hpf, !map_app, <- !app_assoc. reflexivity. }
      rewrite Hbig. unfold files_ok. cbn [cr_reg]. unfold all_ts. cbn [flat_map]. fold (all_ts rest). rewrite Hts, map_app. split.
      * intros ((Hall & Hnd & Hfresh) & ->). split; [|reflexivity]. repeat split.
        -- constructor; [congruence | exact Hall].
        -- apply NoDup_app_iff. repeat split; [exact Hnd1 | exact Hnd |].
           intros n Hn1 Hn2. specialize (Hfresh n Hn2). unfold reg_extend in Hfresh. cbn in Hfresh.
           rewrite assoc_s_app, (Hfresh1 n Hn1) in Hfresh. apply assoc_s_None in Hfresh. apply Hfresh.
           rewrite map_map. cbn. exact Hn1.
        -- intros n Hn. apply in_app_or in Hn. destruct Hn as [Hn|Hn]; [apply Hfresh1, Hn|].
           specialize (Hfresh n Hn). unfold reg_extend in Hfresh. cbn in Hfresh. rewrite assoc_s_app in Hfresh.
           destruct (assoc_s n (r_files (cr_reg r))); [discriminate | reflexivity].
      * intros ((Hall & Hnd & Hfresh) & ->). split; [|reflexivity]. inversion Hall as [|? ? _ Hrest]; subst.
        apply NoDup_app_iff in Hnd. destruct Hnd as (_ & Hnd2 & Hdisj). repeat split; [exact Hrest | exact Hnd2 |].
        intros n Hn. unfold reg_extend. cbn. rewrite assoc_s_app, (Hfresh n (in_or_app _ _ _ (or_intror Hn))).
        apply assoc_s_None. rewrite map_map. cbn. intros Hi. apply (Hdisj n Hi Hn).
Qed.

Lemma add_files_parsed srcs : forall r r', add_all_files r srcs = COk r' -> exists fs, srcs = map SrcOk fs.
Proof.
  induction srcs as [|[f|n m] rest IH]; intros r r' H; cbn [add_all_files] in H; [exists []; reflexivity | | discriminate].
  destruct (registry_add r f) as [e|r1]; [discriminate|]. destruct (IH _ _ H) as (fs & ->). exists (f :: fs). reflexivity.
Qed.

(* ================================================================== *)
(* D. accepted bundles                                                *)
(* ================================================================== *)

Lemma first_failure_None {E} (f : template -> option E) ts :
  first_failure f ts = None <-> Forall (fun t => f t = None) ts.
Proof.
  induction ts as [|t r IH]; cbn [first_failure]; [split; [constructor | reflexivity]|].
  destruct (f t) eqn:Ef.
  - split; [discriminate | intros H; inversion H; congruence].
  - rewrite IH. split; [intros H; constructor; assumption | intros H; inversion H; assumption].
Qed.

Lemma first_failure_Some {E} (f : template -> option E) ts name e :
  first_failure f ts = Some (name, e) -> exists t, In t ts /\ t_name t = name /\ f t = Some e.
Proof.
  induction ts as [|t r IH]; cbn [first_failure]; [discriminate|].
  destruct (f t) eqn:Ef.
  - intros [= <- <-]. exists t. repeat split; [left; reflexivity | exact Ef].
  - intros H. destruct (IH H) as (t' & Hi & Hn & He). exists t'. repeat split; [right; exact Hi | exact Hn | exact He].
Qed.

Lemma all_ts_perm fs fs' : Permutation fs fs' -> Permutation (all_ts fs) (all_ts fs').
Proof. intros H. unfold all_ts. apply Permutation_flat_map, H. Qed.
Lemma all_sources_perm fs fs' : Permutation fs fs' -> Permutation (all_sources fs) (all_sources fs').
Proof. intros H. unfold all_sources. apply Permutation_flat_map, H. Qed.

Lemma all_sources_keys fs : map fst (all_sources fs) = map t_name (all_ts fs).
Proof.
  unfold all_sources, all_ts. induction fs as [|f r IH]; cbn [flat_map map]; [reflexivity|].
  rewrite !map_app, IH, map_map. reflexivity.
Qed.
Lemma name_file_keys ts : map fst (map name_file ts) = map t_name ts.
Proof. rewrite map_map. reflexivity. Qed.

Lemma files_ok_perm fs fs' : Permutation fs fs' -> files_ok empty_creg fs -> files_ok empty_creg fs'.
Proof.
  intros Hp (Hall & Hnd & _). repeat split.
  - eapply Permutation_Forall; [exact Hp | exact Hall].
  - eapply Permutation_NoDup; [apply Permutation_map, all_ts_perm, Hp | exact Hnd].
Qed.

(* the loop over the files under a permutation of the files *)
Lemma add_files_perm srcs srcs' r : Permutation srcs srcs' -> add_all_files empty_creg srcs = COk r ->
  exists fs fs', srcs = map SrcOk fs /\ srcs' = map SrcOk fs' /\ Permutation fs fs' /\ files_ok empty_creg fs /\
                 r = big_extend empty_creg fs /\ add_all_files empty_creg srcs' = COk (big_extend empty_creg fs').
Proof.
  intros Hp Ha. destruct (add_files_parsed _ _ _ Ha) as (fs & ->).
  apply Permutation_sym in Hp. destruct (Permutation_map_inv _ _ Hp) as (fs' & -> & Hp').
  apply add_files_ok in Ha; [|apply reg_inv_empty]. destruct Ha as (Hok & ->).
  exists fs, fs'. split; [reflexivity|]. split; [reflexivity|]. split; [exact Hp'|]. split; [exact Hok|]. split; [reflexivity|].
  apply add_files_ok; [apply reg_inv_empty|]. split; [eapply files_ok_perm; eassumption | reflexivity].
Qed.

Lemma big_extend_templates fs : r_templates (cr_reg (big_extend empty_creg fs)) = all_ts fs.
Proof. reflexivity. Qed.

(* the checks under a permutation of the templates *)
Lemma check_phase_perm ko ts ts' :
  NoDup (map t_name ts) -> Permutation ts ts' ->
  forall t, check_template ko (find_template ts) t = check_template ko (find_template ts') t.
Proof.
  intros Hnd Hp t. apply check_template_ext; [intros l; reflexivity|]. intros n. apply find_template_perm; assumption.
Qed.

Theorem compile_gen_accept_perm ns o calls srcs srcs' c :
  Permutation srcs srcs' -> compile_gen ns o calls srcs = COk c ->
  exists c', compile_gen ns o calls srcs' = COk c' /\ same_result c c'.
Proof.
  intros Hp Hc. unfold compile_gen in *.
  destruct (bg_err (bundle_of_globals (o_globals o) calls)) as [[gn gv]|]; [discriminate|].
  destruct (add_all_files empty_creg srcs) as [r|e] eqn:Ea; [|discriminate].
  destruct (add_files_perm _ _ _ Hp Ea) as (fs & fs' & -> & -> & Hpf & (Hall & Hnd & _) & -> & Ea').
  rewrite Ea'. rewrite big_extend_templates in *.
  pose proof (all_ts_perm _ _ Hpf) as Hpt.
  destruct (first_failure (check_template (o_children o) (find_template (all_ts fs))) (all_ts fs)) as [[n1 e1]|] eqn:Ec; [discriminate|].
  destruct (first_failure (set_globals_template (o_children o) (bg_map (bundle_of_globals (o_globals o) calls))) (all_ts fs)) as [[n2 e2]|] eqn:Eg; [discriminate|].
  injection Hc as <-.
  assert (Ec' : first_failure (check_template (o_children o) (find_template (all_ts fs'))) (all_ts fs') = None).
  { apply first_failure_None. apply first_failure_None in Ec.
    eapply Permutation_Forall; [exact Hpt|]. eapply Forall_impl; [|exact Ec]. cbn. intros t Ht.
    rewrite <- (check_phase_perm _ _ _ Hnd Hpt). exact Ht. }
  assert (Eg' : first_failure (set_globals_template (o_children o) (bg_map (bundle_of_globals (o_globals o) calls))) (all_ts fs') = None).
  { apply first_failure_None. apply first_failure_None in Eg. eapply Permutation_Forall; [exact Hpt | exact Eg]. }
  rewrite Ec', Eg'. eexists. split; [reflexivity|].
  constructor; cbn [cp_reg cp_soyfiles cp_globals cp_msgs big_extend cr_reg cr_soyfiles r_templates r_files r_sources empty_creg app].
  - intros name. apply find_template_perm; assumption.
  - intros name. apply assoc_s_perm; [rewrite name_file_keys; exact Hnd | apply Permutation_map, Hpt].
  - intros name. apply assoc_s_perm; [rewrite all_sources_keys; exact Hnd | apply all_sources_perm, Hpf].
  - apply Permutation_map, Hpf.
  - reflexivity.
  - intros name. apply assoc_s_perm; [rewrite map_map; exact Hnd | apply Permutation_map, Hpt].
Qed.

(* an accepted bundle defines every template name once *)
Theorem compile_gen_accept_unique ns o calls srcs c :
  compile_gen ns o calls srcs = COk c -> NoDup (map t_name (r_templates (cp_reg c))).
Proof.
  intros Hc. unfold compile_gen in Hc.
  destruct (bg_err _) as [[gn gv]|]; [discriminate|].
  destruct (add_all_files empty_creg srcs) as [r|e] eqn:Ea; [|discriminate].
  destruct (add_files_perm _ _ _ (Permutation_refl _) Ea) as (fs & _ & _ & _ & _ & (_ & Hnd & _) & -> & _).
  destruct (first_failure _ _) as [[n1 e1]|]; [discriminate|]. destruct (first_failure _ _) as [[n2 e2]|]; [discriminate|].
  injection Hc as <-. exact Hnd.
Qed.

(* ================================================================== *)
(* E. rejected bundles                                                *)
(* ================================================================== *)

Lemma template_local_file fn ns ae prev tn u : template_local fn ns ae prev tn = inr u -> t_file (tu_template u) = fn.
Proof.
  unfold template_local. destruct tn; try discriminate. destruct tn; try discriminate.
  destruct prev as [pv|]; [|discriminate]. destruct (span_headers nodes) as [hs rest].
  destruct hs; [intros [= <-]; reflexivity|]. destruct (match pv with NSoyDoc _ ps => ps | _ => [] end); [intros [= <-]; reflexivity | discriminate].
Qed.

Lemma file_units_file fn ns ae body : forall prev u, In (inr u) (file_units fn ns ae prev body) -> t_file (tu_template u) = fn.
Proof.
  induction body as [|n r IH]; intros prev u; cbn [file_units]; [intros []|].
  intros H. apply in_app_or in H. destruct H as [H|H]; [|eapply IH; exact H].
  destruct (is_template n); [|destruct H]. destruct H as [H|[]]. eapply template_local_file; exact H.
Qed.

Lemma units_ok_In us l u : units_ok us = Some l -> In u l -> In (inr u) us.
Proof.
  revert l. induction us as [|[e|u'] r IH]; cbn [units_ok]; intros l H Hi; [injection H as <-; destruct Hi | discriminate |].
  destruct (units_ok r) as [l'|]; [|discriminate]. injection H as <-. destruct Hi as [<-|Hi]; [left; reflexivity | right; eapply IH; [reflexivity | exact Hi]].
Qed.

(* failure of the loop over the templates of one file: the first unit that is
   rejected on its own, or whose name is taken *)
Lemma add_units_err fn tx us : forall reg e, add_units fn tx us reg = inl e ->
  exists us1 l1 x us2, us = us1 ++ x :: us2 /\ units_ok us1 = Some l1 /\
    (x = inl e \/ exists u other, x = inr u /\ e = AEDuplicate (unit_name u) other fn /\
                  assoc_s (unit_name u) (r_files reg ++ map name_file (map tu_template l1)) = Some other).
Proof.
  induction us as [|[e'|u] r IH]; intros reg e H; cbn [add_units] in H; [discriminate | |].
  - injection H as <-. exists [], [], (inl e'), r. repeat split. left. reflexivity.
  - destruct (assoc_s (t_name (tu_template u)) (r_files reg)) as [other|] eqn:Ef.
    + injection H as <-. exists [], [], (inr u), r. repeat split. right. exists u, other. repeat split.
      cbn [map]. rewrite app_nil_r. exact Ef.
    + destruct (IH _ _ H) as (us1 & l1 & x & us2 & -> & Hok & Hx). exists (inr u :: us1), (u :: l1), x, us2.
      split; [reflexivity|]. split; [cbn [units_ok]; rewrite Hok; reflexivity|].
      destruct Hx as [Hx|(u' & other & -> & -> & Ha)]; [left; exact Hx|]. right. exists u', other. repeat split.
      unfold reg_append in Ha. cbn [r_files] in Ha. rewrite (put_fresh _ _ _ Ef), <- app_assoc in Ha. exact Ha.
Qed.

(* the registry built from the files added so far *)
Definition def_entry (d : sfile * bstr) : bstr * bstr := (snd d, sfile_name (fst d)).
Definition built_from (r : creg) (pre : list src) : Prop :=
  reg_inv (cr_reg r) /\ r_files (cr_reg r) = map def_entry (definitions pre).

Lemma definitions_app l1 l2 : definitions (l1 ++ l2) = definitions l1 ++ definitions l2.
Proof. unfold definitions. apply flat_map_app. Qed.

Lemma file_result_files f ts pf : file_result f = Some (ts, pf) -> map name_file ts = map def_entry (map (pair f) (map t_name ts)).
Proof.
  unfold file_result. destruct (find_namespace (sfile_body f)) as [e|[ns ae]]; [discriminate|].
  destruct (units_ok _) as [l|] eqn:E; [|discriminate]. intros [= <- _]. rewrite !map_map. apply map_ext_in. intros u Hu.
  unfold name_file, def_entry. cbn. f_equal. eapply file_units_file, units_ok_In; eassumption.
Qed.

Lemma built_from_add r pre f r' : built_from r pre -> registry_add r f = inr r' -> built_from r' (pre ++ [SrcOk f]).
Proof.
  intros (Hinv & Hf) Ha. apply registry_add_ok in Ha; [|exact Hinv]. destruct Ha as (ts & pf & Er & _ & _ & ->). split; cbn [cr_reg].
  - apply reg_inv_extend, Hinv.
  - unfold reg_extend. cbn [r_files]. rewrite definitions_app, map_app, Hf. f_equal.
    unfold definitions. cbn [flat_map]. rewrite app_nil_r, (file_defines_ok _ _ _ Er). apply file_result_files with (pf := pf), Er.
Qed.

Section ErrorsOfTheBundle.
  Variable ko : korder.
  Variable bg : bundle_globals.

  Lemma add_files_err srcs : forall pre r e, built_from r pre -> add_all_files r srcs = CErr e -> bundle_error ko bg (pre ++ srcs) e.
  Proof.
    induction srcs as [|[f|pn pm] rest IH]; intros pre r e Hb H; cbn [add_all_files] in H; [discriminate | |].
    - destruct (registry_add r f) as [e0|r1] eqn:Ea.
      + injection H as <-. unfold registry_add in Ea.
        assert (Hin : In (SrcOk f) (pre ++ SrcOk f :: rest)) by (apply in_or_app; right; left; reflexivity).
        destruct (find_namespace (sfile_body f)) as [en|[ns ae]] eqn:En.
        * injection Ea as <-. apply BE_namespace; assumption.
        * destruct (add_units _ _ _ _) as [eu|reg'] eqn:Eu; [|discriminate]. injection Ea as <-.
          destruct (add_units_err _ _ _ _ _ Eu) as (us1 & l1 & x & us2 & Hus & Hok & Hx).
          destruct Hx as [->|(u & other & -> & -> & Hassoc)].
          -- eapply BE_unit; [exact Hin | exact En |]. rewrite Hus. apply in_or_app. right. left. reflexivity.
          -- (* the name is taken: by a file added before, or by an earlier template of this file *)
             assert (Hdefs : definitions (pre ++ SrcOk f :: rest)
                             = definitions pre ++ map (pair f) (map unit_name l1) ++ (f, unit_name u) :: map (pair f) (unit_names us2) ++ definitions rest).
             { rewrite definitions_app. f_equal. unfold definitions at 1. cbn [flat_map]. fold (definitions rest).
               unfold file_defines. rewrite En, Hus. unfold unit_names. rewrite flat_map_app. cbn [flat_map].
               fold (unit_names us1). fold (unit_names us2). rewrite (unit_names_ok _ _ Hok).
               rewrite map_app. cbn [map app]. rewrite <- !app_assoc. reflexivity. }
             destruct Hb as (_ & Hf). rewrite Hf in Hassoc. apply assoc_s_Some_In in Hassoc. apply in_app_or in Hassoc.
             destruct Hassoc as [Hi|Hi].
             ++ apply in_map_iff in Hi. destruct Hi as ([f1 t1] & Hd & Hi). unfold def_entry in Hd. cbn in Hd. injection Hd as -> <-.
                destruct (in_split _ _ Hi) as (d1 & d2 & Hsplit).
                eapply BE_duplicate with (f1 := f1). rewrite Hdefs, Hsplit, <- app_assoc. cbn [app].
                apply two_occurrences with (l1 := d1) (l2 := d2 ++ map (pair f) (map unit_name l1)). rewrite <- !app_assoc. reflexivity.
             ++ rewrite map_map in Hi. apply in_map_iff in Hi. destruct Hi as (u1 & Hd & Hi). unfold name_file in Hd. injection Hd as Hn <-.
                rewrite (file_units_file _ _ _ _ None u1) by (rewrite Hus; apply in_or_app; left; eapply units_ok_In; eassumption).
                destruct (in_split _ _ Hi) as (a1 & a2 & ->).
                eapply BE_duplicate with (f1 := f). rewrite Hdefs, !map_app. cbn [map]. fold (unit_name u1). unfold unit_name at 2. rewrite Hn. fold (unit_name u).
                apply two_occurrences with (l1 := definitions pre ++ map (pair f) (map unit_name a1)) (l2 := map (pair f) (map unit_name a2)).
                rewrite <- !app_assoc. cbn [app]. reflexivity.
      + replace (pre ++ SrcOk f :: rest) with ((pre ++ [SrcOk f]) ++ rest) by (rewrite <- app_assoc; reflexivity).
        eapply IH; [eapply built_from_add; eassumption | exact H].
    - injection H as <-. apply BE_parse. apply in_or_app. right. left. reflexivity.
  Qed.
End ErrorsOfTheBundle.

Lemma built_from_empty : built_from empty_creg [].
Proof. split; reflexivity. Qed.

(* whatever error the compiler reports is one of the independent errors of the bundle *)
Theorem compile_gen_error_of_bundle ns o calls srcs e :
  compile_gen ns o calls srcs = CErr e ->
  bundle_error (o_children o) (bundle_of_globals (o_globals o) calls) srcs e.
Proof.
  intros H. unfold compile_gen in H.
  destruct (bg_err (bundle_of_globals (o_globals o) calls)) as [[gn gv]|] eqn:Eg.
  - injection H as <-. apply BE_globals, Eg.
  - destruct (add_all_files empty_creg srcs) as [r|e0] eqn:Ea.
    + destruct (first_failure (check_template _ _) _) as [[n1 e1]|] eqn:Ec.
      * injection H as <-. destruct (first_failure_Some _ _ _ _ Ec) as (t & Hi & <- & He). eapply BE_check; eassumption.
      * destruct (first_failure (set_globals_template _ _) _) as [[n2 e2]|] eqn:Es; [|discriminate].
        injection H as <-. destruct (first_failure_Some _ _ _ _ Es) as (t & Hi & <- & He). eapply BE_global; eassumption.
    + injection H as <-. apply (add_files_err _ _ srcs [] empty_creg e0 built_from_empty Ea).
Qed.

(* the set of independent errors does not depend on the order of the files *)
Theorem bundle_error_perm ko bg srcs srcs' e :
  Permutation srcs srcs' -> bundle_error ko bg srcs e -> bundle_error ko bg srcs' e.
Proof.
  intros Hp H. destruct H.
  - apply BE_globals; assumption.
  - apply BE_parse. eapply Permutation_in; eassumption.
  - apply BE_namespace; [eapply Permutation_in; eassumption | assumption].
  - eapply BE_unit; [eapply Permutation_in; eassumption | eassumption | assumption].
  - eapply BE_duplicate. eapply Permutation_trans; [|eassumption]. unfold definitions. apply Permutation_flat_map, Permutation_sym, Hp.
  - destruct (add_files_perm _ _ _ Hp H) as (fs & fs' & -> & -> & Hpf & (_ & Hnd & _) & -> & Ea').
    rewrite big_extend_templates in *. pose proof (all_ts_perm _ _ Hpf) as Hpt.
    eapply BE_check; [exact Ea' | rewrite big_extend_templates; eapply Permutation_in; eassumption |].
    rewrite big_extend_templates, <- (check_phase_perm _ _ _ Hnd Hpt). assumption.
  - destruct (add_files_perm _ _ _ Hp H) as (fs & fs' & -> & -> & Hpf & _ & -> & Ea').
    rewrite big_extend_templates in *. pose proof (all_ts_perm _ _ Hpf) as Hpt.
    eapply BE_global; [exact Ea' | rewrite big_extend_templates; eapply Permutation_in; eassumption | assumption].
Qed.

(* ================================================================== *)
(* the property: the same files in a different order                  *)
(* ================================================================== *)

Theorem compile_gen_file_perm ns o calls srcs srcs' :
  Permutation srcs srcs' ->
  (* accepted in one order: accepted in the other, with the same result *)
  (forall c, compile_gen ns o calls srcs = COk c ->
             exists c', compile_gen ns o calls srcs' = COk c' /\ same_result c c') /\
  (* rejected in one order: rejected in the other; both errors are independent errors of the one bundle *)
  (forall e, compile_gen ns o calls srcs = CErr e ->
             exists e', compile_gen ns o calls srcs' = CErr e' /\
                        bundle_error (o_children o) (bundle_of_globals (o_globals o) calls) srcs e /\
                        bundle_error (o_children o) (bundle_of_globals (o_globals o) calls) srcs e').
Proof.
  intros Hp. split.
  - intros c Hc. eapply compile_gen_accept_perm; eassumption.
  - intros e He. destruct (compile_gen ns o calls srcs') as [c'|e'] eqn:E'.
    + destruct (compile_gen_accept_perm ns o calls srcs' srcs c' (Permutation_sym Hp) E') as (c & Hc & _). congruence.
    + exists e'. split; [reflexivity|]. split; [apply (compile_gen_error_of_bundle ns _ _ _ _ He)|].
      eapply bundle_error_perm; [apply Permutation_sym, Hp | apply (compile_gen_error_of_bundle ns _ _ _ _ E')].
Qed.

(* Add never indexes before the first node of a file: the namespace test has
   already seen that the file does not begin with a template *)
Lemma file_units_no_crash fn ns ae body : forall prev, prev <> None \/ (match body with n :: _ => is_template n = false | [] => True end) ->
  ~ In (inl AEIndexCrash) (file_units fn ns ae prev body).
Proof.
  induction body as [|n r IH]; intros prev Hprev; cbn [file_units]; [intros []|].
  intros H. apply in_app_or in H. destruct H as [H|H].
  - destruct (is_template n) eqn:Et; [|destruct H]. destruct H as [H|[]].
    destruct Hprev as [Hprev|Hprev]; [|congruence].
    unfold template_local in H. destruct n; try discriminate. destruct n; try discriminate.
    destruct prev as [pv|]; [|congruence]. destruct (span_headers nodes) as [hs rest].
    destruct hs; [discriminate|]. destruct (match pv with NSoyDoc _ ps => ps | _ => [] end); discriminate.
  - eapply IH; [|exact H]. left. discriminate.
Qed.

Lemma find_namespace_no_crash body : find_namespace body <> inl AEIndexCrash.
Proof. induction body as [|n b IH]; cbn [find_namespace]; [discriminate|]. destruct n; try discriminate. exact IH. Qed.

Theorem registry_add_no_crash r f : registry_add r f <> inl AEIndexCrash.
Proof.
  unfold registry_add. destruct (find_namespace (sfile_body f)) as [e|[ns ae]] eqn:En.
  - intros [= ->]. apply (find_namespace_no_crash _ En).
  - destruct (add_units _ _ _ _) as [e|reg'] eqn:Eu; [|discriminate]. intros [= ->].
    destruct (add_units_err _ _ _ _ _ Eu) as (us1 & l1 & x & us2 & Hus & _ & Hx).
    destruct Hx as [->|(u & other & _ & Hd & _)]; [|discriminate].
    eapply (file_units_no_crash (sfile_name f) ns ae (sfile_body f) None).
    + right. destruct (sfile_body f) as [|n b]; [exact I|]. cbn [find_namespace] in En. destruct n; try discriminate; reflexivity.
    + rewrite Hus. apply in_or_app. right. left. reflexivity.
Qed.

(* ---- the statements for the repaired tree ([compile]) ---- *)
Theorem compile_file_perm ns o calls srcs srcs' :
  Permutation srcs srcs' ->
  (forall c, compile ns o calls srcs = COk c -> exists c', compile ns o calls srcs' = COk c' /\ same_result c c') /\
  (forall e, compile ns o calls srcs = CErr e ->
             exists e', compile ns o calls srcs' = CErr e' /\
                        bundle_error (sorted_after (o_children o)) (bundle_of_globals (sorted_after (o_globals o)) calls) srcs e /\
                        bundle_error (sorted_after (o_children o)) (bundle_of_globals (sorted_after (o_globals o)) calls) srcs e').
Proof. intros Hp. exact (compile_gen_file_perm ns (repaired_orders o) calls srcs srcs' Hp). Qed.

Theorem compile_error_of_bundle ns o calls srcs e :
  compile ns o calls srcs = CErr e ->
  bundle_error (sorted_after (o_children o)) (bundle_of_globals (sorted_after (o_globals o)) calls) srcs e.
Proof. exact (compile_gen_error_of_bundle ns (repaired_orders o) calls srcs e). Qed.

Theorem compile_accept_unique ns o calls srcs c :
  compile ns o calls srcs = COk c -> NoDup (map t_name (r_templates (cp_reg c))).
Proof. exact (compile_gen_accept_unique ns (repaired_orders o) calls srcs c). Qed.

(* the files handed to the JavaScript generator are the same, whatever the order *)
Corollary same_result_js_inputs c c' : same_result c c' -> forall f, In f (cp_soyfiles c) <-> In f (cp_soyfiles c').
Proof.
  intros H f. split; intros Hi; [eapply Permutation_in; [apply (sr_soyfiles _ _ H) | exact Hi]
                               | eapply Permutation_in; [apply Permutation_sym, (sr_soyfiles _ _ H) | exact Hi]].
Qed.
