(* Progress lemma for lexHeaderParam.  The type scan remembers lastNonSpace and rewinds to it, so
   the white space between the type and the closing `=` or `}` is read twice: once by the scan
   and once by the skipSpace that follows.  To bound the work by the input consumed one has to
   know that skipSpace really moves over that stretch again; [spaces_between] records what the
   scan saw there. *)
From Soy Require Import Model.Bytes Model.Utf8 Model.Outcome Model.Token Generated.Tables Model.Lexer Proofs.LexerPrim Proofs.LexerStates.
From Coq Require Import ZifyBool ZifyNat ZifyN Lia.
Open Scope Z_scope.

Section Header.
Variable uni_letter uni_digit : Z -> bool.
Hypothesis letter_eof : uni_letter (-1) = false.
Hypothesis digit_eof : uni_digit (-1) = false.
Variable inp : bstr.
Notation ilen := (Z.of_nat (length inp)).
Variable base : Z.
Hypothesis base_nonneg : 0 <= base.
Notation inv := (inv inp base).
Notation wf := (wfi inp base).
Notation step_post := (step_post inp base).
Notation loop_post := (loop_post inp base).
Notation lim := (Z.to_N (base + ilen)).

(* the rune next() reads at byte offset q *)
Definition rune_at (q : Z) : Z :=
  if ilen <=? q then eof else Z.of_N (fst (decode_rune (drop (Z.to_nat q) inp))).

Lemma next_rune_at l : 0 <= l_pos l ->
  okp (next inp ilen l) (fun p => next_post inp l p /\ fst p = rune_at (l_pos l)).
Proof.
  intros Hp. pose proof (next_spec inp l Hp) as H. unfold rune_at. unfold next in *.
  destruct (ilen <=? l_pos l); [cbn in *; split; [exact H|reflexivity]|].
  destruct (l_pos l <? 0); [exact H|].
  destruct (decode_rune (drop (Z.to_nat (l_pos l)) inp)) as [r w]. cbn in *. split; [exact H|reflexivity].
Qed.

Definition spaces_between (a b : Z) : Prop := forall q, a <= q < b -> gen_isSpace (rune_at q) = true.

Lemma isSpace_isSpaceEOL r : gen_isSpace r = true -> gen_isSpaceEOL r = true.
Proof. unfold gen_isSpaceEOL. intros ->. reflexivity. Qed.

(* skipSpace over a stretch known to be white space gets to its end *)
Lemma skip_space_loop_spaces fuel : forall l b, 0 <= l_pos l <= b -> b <= ilen -> spaces_between (l_pos l) b ->
  (Z.to_nat (ilen - l_pos l) < fuel)%nat ->
  okp (skip_space_loop inp ilen fuel l) (fun l' => scan_post inp l l' /\ b <= l_pos l' - l_width l').
Proof.
  induction fuel as [|f IH]; intros l b Hp Hb Hs Hf; [lia|].
  destruct (Z_lt_le_dec (l_pos l) b) as [Hlt|Hge].
  2:{ eapply okp_weaken; [apply skip_space_loop_spec; [lia|exact Hf]|]. intros l' H. split; [exact H|]. unfold scan_post in H. lia. }
  cbn [skip_space_loop].
  eapply okp_bind; [apply next_rune_at; lia|]. intros [r l1] [Hn Hr]. cbn [fst] in Hr. unfold next_post in Hn. cbn beta iota.
  pose proof (Hs (l_pos l) (conj (Z.le_refl _) Hlt)) as Hsp. rewrite <- Hr in Hsp.
  rewrite (isSpace_isSpaceEOL _ Hsp). apply isSpace_nonneg in Hsp.
  eapply okp_weaken; [apply (IH l1 b); [fin|lia| |fin]|].
  - intros q Hq. apply Hs. fin.
  - intros l2 [H2 Hb2]. unfold scan_post in *. fin.
Qed.

(* the type scan: inl = the error return; inr (lastNonSpace, state after reading `=` or `}`) *)
Definition header_post (lns : Z) (l : lx) (r : lstate * lx + Z * lx) : Prop :=
  match r with
  | inl p => loop_post 2 l p
  | inr (lns', l1) =>
      l_out l1 = l_out l /\ l_start l1 = l_start l /\ l_dd l1 = l_dd l /\ l_last l1 = l_last l /\
      lns <= lns' /\ lns' + 1 <= l_pos l1 /\ l_pos l + 1 <= l_pos l1 <= ilen /\
      spaces_between lns' (l_pos l1 - 1) /\
      l_ticks l <= l_ticks l1 /\ l_ticks l1 - l_ticks l <= l_pos l1 - l_pos l
  end.

Lemma header_type_loop_ok fuel : forall lns l, 0 <= l_start l <= lns -> lns <= l_pos l <= ilen ->
  items_ok lim false (l_out l) ->
  spaces_between lns (l_pos l) -> (Z.to_nat (ilen - l_pos l) < fuel)%nat ->
  okp (header_type_loop inp ilen base fuel lns l) (header_post lns l).
Proof.
  induction fuel as [|f IH]; intros lns l H1 H2 Hit Hs Hf; [lia|]. cbn [header_type_loop].
  eapply okp_bind; [apply next_rune_at; lia|]. intros [ch l1] [Hn Hr]. cbn [fst] in Hr. unfold next_post in Hn. cbn beta iota.
  dest_hyps.
  destruct ((ch =? 61) || (ch =? 125)) eqn:E1.
  - cbn [okp header_post]. assert (Hw1 : l_width l1 = 1) by (unfold eof in *; lia).
    repeat split; try congruence; try lia. unfold spaces_between in *; intros q Hq; apply Hs; lia.
  - destruct (ch =? eof) eqn:E2.
    + exec1. dest_hyps. subst. cbn [bind okp header_post]. post.
    + norm_bools.
      eapply okp_weaken; [apply IH|].
      * destruct (gen_isSpace ch); cbn [negb]; fin.
      * destruct (gen_isSpace ch); cbn [negb]; fin.
      * congruence.
      * destruct (gen_isSpace ch) eqn:E3; cbn [negb].
        -- unfold spaces_between in *; intros q Hq. destruct (Z.eq_dec q (l_pos l)) as [->|Hne]; [rewrite <- Hr; exact E3|].
           apply Hs. apply isSpace_nonneg in E3. fin.
        -- unfold spaces_between in *; intros q Hq. lia.
      * fin.
      * intros [p|[lns' l2]]; cbn [header_post].
        -- apply (loop_post_mono _ _ _ 2); lsimpl; fin.
        -- intros Hp. dest_hyps. repeat split; try congruence; try (destruct (gen_isSpace ch); cbn [negb] in *; fin).
Qed.

(* from the type scan to the end of lexHeaderParam *)
Lemma header_tail_ok l8 : 0 <= l_start l8 -> l_start l8 = l_pos l8 -> l_pos l8 <= ilen -> items_ok lim false (l_out l8) ->
  okp (r <- header_type_loop inp ilen base (loop_fuel ilen l8) (l_pos l8) l8 ;;
       match r with
       | inl e => Ok e
       | inr (lns, l9') =>
           l10 <- emit inp ilen base itemHeaderParamType (set_pos l9' lns) ;;
           l11 <- skip_space inp ilen l10 ;;
           Ok (LInsideTag, l11)
       end) (loop_post 30 l8).
Proof.
  intros H1 H2 H3 Hit.
  eapply okp_bind; [apply header_type_loop_ok; [lia|lia|exact Hit|unfold spaces_between; intros; lia|apply loop_fuel_ok; lia]|].
  intros [p|[lns l9']] Hh; cbn [header_post] in Hh; cbn beta iota.
  - cbn [okp]. revert Hh. apply loop_post_mono; lia.
  - dest_hyps. exec1. dest_hyps. unfold skip_space. rewrite bind_assoc.
    eapply okp_bind; [apply (skip_space_loop_spaces _ l (l_pos l9' - 1)); [lsimpl; lia|lia| |apply loop_fuel_ok; lsimpl; lia]|].
    + lsimpl. replace (l_pos l) with lns by (lsimpl; lia). assumption.
    + intros l11 [Hsc Hb]. unfold scan_post in Hsc. cbn [bind]. post.
Qed.

Lemma lex_header_param_ok l : inv LHeaderParam l ->
  okp (lex_header_param uni_letter uni_digit inp ilen base l) (step_post LHeaderParam l).
Proof.
  intros (Hw & Hit & _). unfold LexerStates.wf in Hw. cbn [is_done] in Hit. unfold lex_header_param.
  exec1. cbn beta in Hv. exec1; [exec|]. apply Bool.negb_false_iff in E. apply is_prefix_length in E.
  unfold header_kw_len. set (kw := Z.of_nat (length header_param_kw)) in *.
  assert (Hkw : 0 <= kw <= ilen - l_pos l) by (unfold kw; lia).
  exec.
  all: dest_hyps; eapply okp_weaken; [apply header_tail_ok; side|];
    intros p Hp; apply (loop_post_step inp base LHeaderParam); [discriminate|]; revert Hp; apply loop_post_mono; lsimpl; cbn [rank]; side.
Qed.

End Header.
