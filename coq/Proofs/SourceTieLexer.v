(* Source tie, family 70-gotrans-lexer-preds (parse/lexer.go): the predicates and tables
   the lexer model is written over, against the same functions as gotrans translates them
   from today's source (src_parse_* in Generated/Tables.v).  A semantic change of one of
   these Go functions breaks the lemma named after it. *)
From Coq Require Import ZArith NArith Bool Lia ZifyBool ZifyN List.
From Soy Require Import Model.Bytes Generated.Tables Model.RawText Model.Lexer Proofs.SourceTieBase.
Import ListNotations.
Open Scope N_scope.

(* ---- rune predicates: the expressions tablegen's older, special-purpose generator emits
   (gen_*, used by Model/Lexer.v directly) against the general translation ---- *)
Lemma gen_isSpace_matches_source (r : Z) : gen_isSpace r = src_parse_isSpace r.
Proof. unfold gen_isSpace, src_parse_isSpace. bool_lia. Qed.

Lemma gen_isEndOfLine_matches_source (r : Z) : gen_isEndOfLine r = src_parse_isEndOfLine r.
Proof. unfold gen_isEndOfLine, src_parse_isEndOfLine. bool_lia. Qed.

Lemma gen_isSpaceEOL_matches_source (r : Z) : gen_isSpaceEOL r = src_parse_isSpaceEOL r.
Proof.
  (* by value, not through the two lemmas above: the source may call isSpace / isEndOfLine or test the four
     characters itself (seeded/harmless2/1) *)
  unfold gen_isSpaceEOL, gen_isSpace, gen_isEndOfLine, src_parse_isSpaceEOL, src_parse_isSpace, src_parse_isEndOfLine.
  bool_lia.
Qed.

Lemma gen_isLetterOrUnderscore_matches_source (r : Z) :
  gen_isLetterOrUnderscore r = src_parse_isLetterOrUnderscore r.
Proof. unfold gen_isLetterOrUnderscore, src_parse_isLetterOrUnderscore. bool_lia. Qed.

Lemma gen_isDigit_matches_source (r : Z) : gen_isDigit r = src_parse_isDigit r.
Proof. unfold gen_isDigit, src_parse_isDigit. bool_lia. Qed.

(* unicode.IsLetter / unicode.IsDigit are parameters on both sides *)
Lemma gen_isAlphaNumeric_matches_source (ul ud : Z -> bool) (r : Z) :
  gen_isAlphaNumeric ul ud r = src_parse_isAlphaNumeric ul ud r.
Proof.
  unfold gen_isAlphaNumeric, src_parse_isAlphaNumeric.
  destruct (ul r), (ud r), (r =? 95)%Z eqn:E; rewrite ?E; reflexivity.
Qed.

Lemma is_alnum_matches_source (ul ud : Z -> bool) (r : Z) :
  is_alnum ul ud r = src_parse_isAlphaNumeric ul ud r.
Proof. unfold is_alnum. apply gen_isAlphaNumeric_matches_source. Qed.

(* ---- the hand-written copies in Model/RawText.v (runes as N) ---- *)
Lemma is_space_matches_source (r : N) : is_space r = src_parse_isSpace (Z.of_N r).
Proof. unfold is_space, src_parse_isSpace. bool_lia. Qed.

Lemma is_eol_matches_source (r : N) : is_eol r = src_parse_isEndOfLine (Z.of_N r).
Proof. unfold is_eol, src_parse_isEndOfLine. bool_lia. Qed.

(* ---- itemType predicates (item codes as N in the models) ---- *)
Lemma is_op_matches_source (t : N) : is_op t = src_parse_itemType_isOp (Z.of_N t).
Proof. unfold is_op, src_parse_itemType_isOp. cbv [itemNegate itemElvis]. bool_lia. Qed.

Lemma is_command_end_matches_source (t : N) : is_command_end t = src_parse_itemType_isCommandEnd (Z.of_N t).
Proof. unfold is_command_end, src_parse_itemType_isCommandEnd. cbv [itemCommandEnd]. bool_lia. Qed.

Lemma ends_term_matches_source (t : N) : ends_term t = src_parse_itemType_endsTerm (Z.of_N t).
Proof.
  unfold ends_term, src_parse_itemType_endsTerm.
  cbv [ends_term_set existsb itemNull itemBool itemInteger itemFloat itemString itemIdent itemDollarIdent itemDotIdent
       itemQuestionDotIdent itemDotIndex itemQuestionDotIndex itemRightBracket itemRightParen].
  bool_lia.
Qed.

(* ---- the two keyword tables (the generated tables are sorted by key, the source is not) ---- *)
Lemma builtin_idents_matches_source (s : bstr) :
  option_map Z.of_N (assoc_s s builtin_idents) = assoc_s s src_parse_builtinIdents.
Proof.
  apply (assoc_s_ext Z.of_N Z.eqb); [exact Z_eqb_true|]. vm_compute. reflexivity.
Qed.

Lemma arith_items_matches_source (s : bstr) :
  option_map Z.of_N (assoc_s s arith_items) = assoc_s s src_parse_arithmeticItemsBySymbol.
Proof.
  apply (assoc_s_ext Z.of_N Z.eqb); [exact Z_eqb_true|]. vm_compute. reflexivity.
Qed.

(* what the lexer model does with them: m[k] with the comma-ok form *)
Lemma builtin_lookup_matches_source (s : bstr) :
  match assoc_s s builtin_idents with Some t => (Z.of_N t, true) | None => (0%Z, false) end =
  (go_lookup_s s src_parse_builtinIdents 0%Z, go_has_s s src_parse_builtinIdents).
Proof.
  unfold go_lookup_s, go_has_s. rewrite <- builtin_idents_matches_source.
  destruct (assoc_s s builtin_idents); reflexivity.
Qed.

Lemma arith_lookup_matches_source (s : bstr) :
  match assoc_s s arith_items with Some t => (Z.of_N t, true) | None => (0%Z, false) end =
  (go_lookup_s s src_parse_arithmeticItemsBySymbol 0%Z, go_has_s s src_parse_arithmeticItemsBySymbol).
Proof.
  unfold go_lookup_s, go_has_s. rewrite <- arith_items_matches_source.
  destruct (assoc_s s arith_items); reflexivity.
Qed.
