(* C02, text-producing commands at the token level: a special-character command
   becomes a raw-text node holding the character the language defines, {literal}
   one holding exactly its body, a run of text tokens one holding the line-joined
   text (C15's normalize) -- and the walker writes a raw-text node's bytes as they
   are. *)
From Coq Require Import Lia.
From Soy Require Import Model.Bytes Model.Values Model.Outcome Model.Ast Model.Token Generated.Tables Model.RawText
  Model.Parser Model.Interp Spec.Text Spec.Cmd Spec.CmdText Proofs.RawTextProofs Proofs.InterpLogic Proofs.ScopeRel Proofs.ScopeNames.
Open Scope N_scope.

(* the parser is about to read [ts] (nothing backed up) *)
Definition reads (s : cst) (ts rest : list tok) : Prop :=
  p_peek (c_p s) = 0%nat /\ p_rest (c_p s) = ts ++ rest.

Definition tk (ty p : N) (v : bstr) : tok := {| t_typ := ty; t_pos := p; t_val := v |}.

(* the lexer's keyword table sends each special-character command of the language to an item type
   whose entry in the parser's table is the character the language defines; there are no others *)
Theorem special_char_tables :
  Forall (fun kc => exists ty, assoc_s (fst kc) builtin_idents = Some ty /\
                               assoc ty parser_special_chars = Some (snd kc)) special_char_commands /\
  length parser_special_chars = length special_char_commands.
Proof. split; [|reflexivity]. repeat constructor; eexists; split; vm_compute; reflexivity. Qed.

Section Tags.
Variable inlen : N.
Variable lexq : bstr -> list tok.
Variable unq : bstr -> option bstr.
Variable pexpr : nat -> N -> pst -> presult node.
Variable efuel : list tok -> nat.
Variable pe : N -> cst -> cres node.
Variable w : list N -> cst -> cres node.
Variable lf : nat.

Lemma special_types ty txt : assoc ty parser_special_chars = Some txt ->
  In (ty, txt) [(79, [32]); (80, []); (81, [9]); (82, [13]); (83, [10]); (84, [123]); (85, [125])].
Proof.
  unfold parser_special_chars. cbn [assoc].
  repeat (match goal with |- context [?a =? ?c] => destruct (N.eqb_spec a c) as [->|_] end;
          [intros [= <-]; cbn; tauto|]).
  discriminate.
Qed.

(* {sp} {nil} {\n} {\r} {\t} {lb} {rb}: after "{", the command token and "}" *)
Theorem special_char_tag s ty p v prd vrd rest txt :
  assoc ty parser_special_chars = Some txt ->
  reads s [tk ty p v; tk pit_RightDelim prd vrd] rest ->
  exists s', begin_tag inlen lexq unq pexpr efuel pe w lf s = COk (Some (NRawText p txt)) s' /\
             reads s' [] rest /\ same_names s s'.
Proof.
  intros Ha [Hp Hr]. destruct s as [[r t0 t1 pk rc] ns al im sc]. cbn in Hp, Hr. subst pk r.
  apply special_types in Ha. cbn [In] in Ha.
  repeat (destruct Ha as [Ha|Ha]; [injection Ha as <- <-; eexists; split; [reflexivity | split; split; reflexivity]|]).
  destruct Ha.
Qed.

(* {literal}body{/literal}: the tokens are "literal" "}" Text(body) "{" "/literal" "}" *)
Theorem literal_tag s p v p1 v1 pb body p2 v2 p3 v3 p4 v4 rest :
  reads s [tk pit_Literal p v; tk pit_RightDelim p1 v1; tk pit_Text pb body; tk pit_LeftDelim p2 v2;
           tk pit_LiteralEnd p3 v3; tk pit_RightDelim p4 v4] rest ->
  exists s', begin_tag inlen lexq unq pexpr efuel pe w lf s = COk (Some (NRawText pb (literal_text body))) s' /\
             reads s' [] rest /\ same_names s s'.
Proof.
  intros [Hp Hr]. destruct s as [[r t0 t1 pk rc] ns al im sc]. cbn in Hp, Hr. subst pk r.
  eexists. split; [lazy; reflexivity | split; split; reflexivity].
Qed.
End Tags.

(* ------------------------------------------------------------------ *)
(* a run of text tokens: one raw-text node holding the line-joined text *)

Definition text_toks (more : list (N * bstr)) : list tok := map (fun pv => tk pit_Text (fst pv) (snd pv)) more.

Lemma c_next_reads s t rest : reads s [t] rest ->
  exists s', c_next s = COk t s' /\ reads s' [] rest /\ p_tok0 (c_p s') = t /\ same_names s s'.
Proof.
  intros [Hp Hr]. destruct s as [[r t0 t1 pk rc] ns al im sc]. cbn in Hp, Hr. subst pk r.
  eexists. split; [reflexivity|]. repeat split.
Qed.

Lemma c_next_backup s : p_peek (c_p s) = 0%nat -> c_next (c_backup s) = COk (p_tok0 (c_p s)) s.
Proof. destruct s as [[r t0 t1 pk rc] ns al im sc]. cbn. intros ->. reflexivity. Qed.

Lemma text_run_reads : forall more f acc s nx rest,
  (length more < f)%nat -> reads s (text_toks more ++ [nx]) rest -> tis nx pit_Text = false ->
  exists s', text_run f acc s = COk (acc ++ concat (map snd more), nx) s' /\
             reads s' [] rest /\ p_tok0 (c_p s') = nx /\ same_names s s'.
Proof.
  induction more as [|[p1 v1] more IH]; intros f acc s nx rest Hf Hr Hnx; (destruct f as [|f]; [cbn in Hf; lia|]); cbn [text_run].
  - cbn [text_toks map app] in Hr. destruct (c_next_reads s nx rest Hr) as (s1 & -> & H1 & H2 & H3).
    cbn [cbind]. rewrite Hnx. exists s1. cbn [map concat]. rewrite app_nil_r.
    split; [reflexivity|]. split; [exact H1|]. split; [exact H2 | exact H3].
  - cbn [text_toks map app fst snd] in Hr. fold (text_toks more) in Hr.
    assert (Hr1 : reads s [tk pit_Text p1 v1] ((text_toks more ++ [nx]) ++ rest)).
    { destruct Hr as [Ha Hb]. split; [exact Ha|]. rewrite Hb. cbn [app]. rewrite <- app_assoc. reflexivity. }
    destruct (c_next_reads s _ _ Hr1) as (s1 & -> & H1 & H2 & H3).
    cbn [cbind]. change (tis (tk pit_Text p1 v1) pit_Text) with true. cbv iota. cbn [t_val tk].
    destruct (IH f (acc ++ v1) s1 nx rest ltac:(cbn in Hf; lia) H1 Hnx) as (s2 & -> & K1 & K2 & K3).
    exists s2. cbn [map concat snd]. rewrite <- app_assoc.
    split; [reflexivity|]. split; [exact K1|]. split; [exact K2 | exact (same_names_trans _ _ _ H3 K3)].
Qed.

Section TextRun.
Variable inlen : N.
Variable lexq : bstr -> list tok.
Variable unq : bstr -> option bstr.
Variable pexpr : nat -> N -> pst -> presult node.
Variable efuel : list tok -> nat.
Variable pe : N -> cst -> cres node.
Variable w : list N -> cst -> cres node.

(* the text token (p0, v0) has just been read; the text tokens [more] and then the other token [nx] follow *)
Theorem text_run_node lf until s p0 v0 more nx rest :
  (length more + 1 < lf)%nat -> one_of pit_Text until = false ->
  reads s (text_toks more ++ [nx]) rest -> tis nx pit_Text = false ->
  let joined := normalize_with is_tight_joiner false (tis nx pit_Comment) (v0 ++ concat (map snd more)) in
  exists s',
    text_or_tag inlen lexq unq pexpr efuel pe w lf (tk pit_Text p0 v0) until s =
      COk (match joined with [] => None | _ => Some (NRawText p0 joined) end, false) s' /\
    p_peek (c_p s') = 1%nat /\ p_tok0 (c_p s') = nx /\ p_rest (c_p s') = rest /\ same_names s s'.
Proof.
  intros Hlf Hu Hr Hnx joined. unfold text_or_tag.
  destruct lf as [|lf0]; [lia|]. cbn [skip_comments].
  change (tis (tk pit_Text p0 v0) pit_Comment) with false. cbv iota. cbn [cbind].
  change (t_typ (tk pit_Text p0 v0)) with pit_Text. rewrite Hu.
  change (tis (tk pit_Text p0 v0) pit_LeftDelim) with false. cbn [andb].
  change (tis (tk pit_Text p0 v0) pit_Text) with true. cbv iota.
  (* the token after the first text token, read and backed up; then the run *)
  assert (Hrun : exists s4, (do (token2, s2) <- c_next s;
                             text_run (S lf0) (t_val (tk pit_Text p0 v0)) (c_backup s2)) =
                            COk (v0 ++ concat (map snd more), nx) s4 /\
                            reads s4 [] rest /\ p_tok0 (c_p s4) = nx /\ same_names s s4).
  { destruct more as [|[p1 v1] more].
    - cbn [text_toks map app] in Hr. destruct (c_next_reads s nx rest Hr) as (s2 & -> & H1 & H2 & H3).
      cbn [cbind text_run]. rewrite (c_next_backup s2 (proj1 H1)). cbn [cbind]. rewrite H2, Hnx.
      exists s2. cbn [map concat t_val tk]. rewrite app_nil_r.
      split; [reflexivity|]. split; [exact H1|]. split; [exact H2 | exact H3].
    - cbn [text_toks map app fst snd] in Hr. fold (text_toks more) in Hr.
      assert (Hr1 : reads s [tk pit_Text p1 v1] ((text_toks more ++ [nx]) ++ rest)).
      { destruct Hr as [Ha Hb]. split; [exact Ha|]. rewrite Hb. cbn [app]. rewrite <- app_assoc. reflexivity. }
      destruct (c_next_reads s _ _ Hr1) as (s2 & -> & H1 & H2 & H3).
      cbn [cbind text_run]. rewrite (c_next_backup s2 (proj1 H1)). cbn [cbind]. rewrite H2.
      change (tis (tk pit_Text p1 v1) pit_Text) with true. cbv iota. cbn [t_val tk].
      destruct (text_run_reads more lf0 (v0 ++ v1) s2 nx rest ltac:(cbn [length] in Hlf; lia) H1 Hnx) as (s4 & E & K1 & K2 & K3).
      exists s4. rewrite E. cbn [map concat snd]. rewrite <- app_assoc.
      split; [reflexivity|]. split; [exact K1|]. split; [exact K2 | exact (same_names_trans _ _ _ H3 K3)]. }
  destruct Hrun as (s4 & E & K1 & K2 & K3).
  (* bring the goal into the shape of Hrun *)
  match goal with |- exists s', cbind (c_next s) ?k = _ /\ _ =>
    assert (Hk : cbind (c_next s) k =
                 cbind (do (token2, s2) <- c_next s; text_run (S lf0) (t_val (tk pit_Text p0 v0)) (c_backup s2))
                       (fun tn s4 => let s5 := c_backup s4 in
                                     match rawtext_run (fst tn) false (tis (snd tn) pit_Comment) with
                                     | Ok [] => COk (None, false) s5
                                     | Ok tv => COk (Some (NRawText (t_pos (tk pit_Text p0 v0)) tv), false) s5
                                     | _ => CCrash e_pindex
                                     end)) by (destruct (c_next s); reflexivity) end.
  rewrite Hk, E. cbn [cbind fst snd]. rewrite rawtext_run_general. fold joined.
  exists (c_backup s4). destruct K1 as [Kp Kr]. destruct K3 as [Ka Kb].
  split; [destruct joined; reflexivity|]. cbn. rewrite Kp, Kr. repeat split; assumption.
Qed.
End TextRun.

(* ------------------------------------------------------------------ *)
(* and the walker writes the bytes of a raw-text node as they are: one Write call with exactly them *)
Theorem rawtext_written_exactly cf f p t st :
  good st -> bufs st = [] ->
  exists st', walk cf (S f) (NRawText p t) st = (Ok VUndef, st') /\ out st' = t :: out st /\
              bufs st' = [] /\ ctx st' = ctx st /\ mode st' = mode st.
Proof.
  intros [Hc Hb] Hbuf. rewrite InterpLogic.walk_S. unfold walk_body. cbn [walk_node pos_of].
  unfold mbind at 1. unfold modify at 1. cbn [fst snd].
  unfold mbind, write. cbn [bufs set_cur calls_left bytes_left]. rewrite Hbuf, Hc, Hb.
  eexists. split; [reflexivity|]. cbn. rewrite Hbuf. repeat split; reflexivity.
Qed.
