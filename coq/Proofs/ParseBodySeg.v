(* C15, parser half for bodies with special-character commands: itemList / textOrTag / beginTag on the items
   described by [shape2] (Proofs/LexBodyMain.v). *)
From Soy Require Import Model.Bytes Model.Utf8 Model.Outcome Model.Num Model.Values Model.Ast Model.Token Model.RawText
  Model.ExprParser Model.Parser Model.Lexer Generated.Tables Spec.Text Spec.TextBody
  Proofs.RawTextProofs Proofs.ExprParserRules Proofs.BodyTextSpec Proofs.LexBodyText Proofs.LexBodyTop Proofs.LexTokens
  Proofs.LexBodyMain Proofs.ParseBodyText.
From Coq Require Import ZifyBool ZifyNat ZifyN Lia.
Open Scope N_scope.

Section P.
Variable inlen : N.
Variable lexq : bstr -> list tok.
Variable unq : bstr -> option bstr.
Variable pexpr : nat -> N -> pst -> presult node.
Variable efuel : list tok -> nat.
Variable pe : N -> cst -> cres node.
Variable w : list N -> cst -> cres node.
Variable lf : nat.
Notation loop := (item_list_loop inlen lexq unq pexpr efuel pe w lf).
Notation tot := (text_or_tag inlen lexq unq pexpr efuel pe w lf).
Notation btag := (begin_tag inlen lexq unq pexpr efuel pe w lf).

Lemma c_next_st s t l : stream (c_p s) = t :: l -> inv (c_p s) ->
  exists s1, c_next s = COk t s1 /\ stream (c_p s1) = l /\ inv (c_p s1) /\
             stream (c_p (c_backup s1)) = t :: l /\ inv (c_p (c_backup s1)).
Proof.
  intros Hs Hi. destruct (next_spec _ _ _ Hs Hi) as (st1 & Hn & Hs1 & Hi1 & Hsb & Hib).
  exists (set_p s st1). unfold c_next. assert (E : (3 <=? p_peek (c_p s))%nat = false) by (unfold inv in Hi; apply Nat.leb_gt; lia).
  rewrite E, Hn. split; [reflexivity|]. cbn [c_p set_p c_backup]. auto.
Qed.

Lemma special_types t o : assoc t parser_special_chars = Some o -> In t [79; 80; 81; 82; 83; 84; 85].
Proof.
  unfold parser_special_chars, assoc. intros H.
  repeat match type of H with (if (t =? ?k) then _ else _) = _ => destruct (N.eqb_spec t k) as [->|_]; [cbn; tauto|] end.
  discriminate.
Qed.

(* beginTag on a special-character command: "{" has been read *)
Lemma begin_tag_special c rd l o s : stream (c_p s) = c :: rd :: l -> inv (c_p s) ->
  assoc (t_typ c) parser_special_chars = Some o -> t_typ rd = pit_RightDelim ->
  exists s', btag s = COk (Some (NRawText (t_pos c) o)) s' /\ stream (c_p s') = l /\ inv (c_p s').
Proof.
  intros Hs Hi Ha Hrd.
  destruct (c_next_st s c _ Hs Hi) as (s1 & Hn1 & Hs1 & Hi1 & _).
  destruct (c_next_st s1 rd l Hs1 Hi1) as (s2 & Hn2 & Hs2 & Hi2 & _).
  exists s2. split; [|split; assumption].
  assert (He : c_expect inlen pit_RightDelim x_special s1 = COk rd s2).
  { unfold c_expect. rewrite Hn2. cbn [cbind]. unfold tis. rewrite Hrd, N.eqb_refl. reflexivity. }
  unfold begin_tag. rewrite Hn1. cbn [cbind]. rewrite Ha.
  pose proof (special_types _ _ Ha) as Hin. unfold tis.
  cbn [In] in Hin. destruct Hin as [E|[E|[E|[E|[E|[E|[E|[]]]]]]]]; rewrite <- E; eval_tests; rewrite He; reflexivity.
Qed.

(* one iteration of itemList on "{" command "}" *)
Lemma tag_iter ld c rd l o f pos acc s : t_typ ld = pit_LeftDelim -> assoc (t_typ c) parser_special_chars = Some o ->
  t_typ rd = pit_RightDelim -> stream (c_p s) = ld :: c :: rd :: l -> inv (c_p s) -> (1 <= lf)%nat ->
  exists pos1 s', stream (c_p s') = l /\ inv (c_p s') /\
    loop (S f) u_eof pos acc s = loop f u_eof (Some pos1) (acc ++ [NRawText (t_pos c) o]) s'.
Proof.
  intros Hld Ha Hrd Hs Hi Hlf.
  destruct (c_next_st s ld _ Hs Hi) as (s1 & Hn1 & Hs1 & Hi1 & _).
  destruct (c_next_st s1 c _ Hs1 Hi1) as (s2 & Hn2 & Hs2 & Hi2 & Hsb & Hib).
  destruct (begin_tag_special c rd l o (c_backup s2) Hsb Hib Ha Hrd) as (s' & Hb & Hs' & Hi').
  exists (match pos with Some p => p | None => t_pos ld end), s'. split; [exact Hs'|]. split; [exact Hi'|].
  assert (Hce : one_of (t_typ c) u_eof = false).
  { pose proof (special_types _ _ Ha) as Hin. cbn [In] in Hin. destruct Hin as [E|[E|[E|[E|[E|[E|[E|[]]]]]]]]; rewrite <- E; reflexivity. }
  assert (Hsk : skip_comments lf ld s1 = COk ld s1) by (destruct lf; [lia|apply skip_non; rewrite Hld; discriminate]).
  cbn [item_list_loop]. rewrite Hn1. cbn [cbind]. unfold text_or_tag. rewrite Hsk. cbn [cbind].
  assert (H1 : one_of (t_typ ld) u_eof = false) by (rewrite Hld; reflexivity). rewrite H1, Hn2. cbn [cbind]. rewrite Hce, Bool.andb_false_r.
  cbv zeta. assert (H2 : tis ld pit_Text = false) by (unfold tis; rewrite Hld; reflexivity).
  assert (H3 : tis ld pit_LeftDelim = true) by (unfold tis; rewrite Hld; reflexivity). rewrite H2, H3, Hb. cbn [cbind snd fst]. reflexivity.
Qed.

Lemma c_expect_ok typ ctx s t l : stream (c_p s) = t :: l -> inv (c_p s) -> t_typ t = typ ->
  exists s1, c_expect inlen typ ctx s = COk t s1 /\ stream (c_p s1) = l /\ inv (c_p s1).
Proof.
  intros Hs Hi Ht. destruct (c_next_st s t l Hs Hi) as (s1 & Hn & Hs1 & Hi1 & _). exists s1.
  unfold c_expect. rewrite Hn. cbn [cbind]. unfold tis. rewrite Ht, N.eqb_refl. auto.
Qed.

(* beginTag on a literal block: "{" has been read *)
Lemma begin_tag_literal kw rd tx ld2 ke rd2 l s : stream (c_p s) = kw :: rd :: tx :: ld2 :: ke :: rd2 :: l -> inv (c_p s) ->
  t_typ kw = pit_Literal -> t_typ rd = pit_RightDelim -> t_typ tx = pit_Text -> t_typ ld2 = pit_LeftDelim ->
  t_typ ke = pit_LiteralEnd -> t_typ rd2 = pit_RightDelim ->
  exists s', btag s = COk (Some (NRawText (t_pos tx) (t_val tx))) s' /\ stream (c_p s') = l /\ inv (c_p s').
Proof.
  intros Hs Hi Hkw Hrd Htx Hld2 Hke Hrd2.
  destruct (c_next_st s kw _ Hs Hi) as (s1 & Hn1 & Hs1 & Hi1 & _).
  destruct (c_expect_ok pit_RightDelim x_literal s1 rd _ Hs1 Hi1 Hrd) as (s2 & E2 & Hs2 & Hi2).
  destruct (c_expect_ok pit_Text x_literal s2 tx _ Hs2 Hi2 Htx) as (s3 & E3 & Hs3 & Hi3).
  destruct (c_expect_ok pit_LeftDelim x_literal s3 ld2 _ Hs3 Hi3 Hld2) as (s4 & E4 & Hs4 & Hi4).
  destruct (c_expect_ok pit_LiteralEnd x_literal s4 ke _ Hs4 Hi4 Hke) as (s5 & E5 & Hs5 & Hi5).
  destruct (c_expect_ok pit_RightDelim x_literal s5 rd2 _ Hs5 Hi5 Hrd2) as (s6 & E6 & Hs6 & Hi6).
  exists s6. split; [|split; assumption].
  unfold begin_tag. rewrite Hn1. cbn [cbind]. unfold tis. rewrite Hkw. eval_tests.
  rewrite E2. cbn [cbind]. rewrite E3. cbn [cbind]. rewrite E4. cbn [cbind]. rewrite E5. cbn [cbind]. rewrite E6. reflexivity.
Qed.

(* one iteration of itemList on a literal block *)
Lemma lit_iter ld kw rd tx ld2 ke rd2 l f pos acc s : t_typ ld = pit_LeftDelim ->
  t_typ kw = pit_Literal -> t_typ rd = pit_RightDelim -> t_typ tx = pit_Text -> t_typ ld2 = pit_LeftDelim ->
  t_typ ke = pit_LiteralEnd -> t_typ rd2 = pit_RightDelim ->
  stream (c_p s) = ld :: kw :: rd :: tx :: ld2 :: ke :: rd2 :: l -> inv (c_p s) -> (1 <= lf)%nat ->
  exists pos1 s', stream (c_p s') = l /\ inv (c_p s') /\
    loop (S f) u_eof pos acc s = loop f u_eof (Some pos1) (acc ++ [NRawText (t_pos tx) (t_val tx)]) s'.
Proof.
  intros Hld Hkw Hrd Htx Hld2 Hke Hrd2 Hs Hi Hlf.
  destruct (c_next_st s ld _ Hs Hi) as (s1 & Hn1 & Hs1 & Hi1 & _).
  destruct (c_next_st s1 kw _ Hs1 Hi1) as (s2 & Hn2 & Hs2 & Hi2 & Hsb & Hib).
  destruct (begin_tag_literal kw rd tx ld2 ke rd2 l (c_backup s2) Hsb Hib Hkw Hrd Htx Hld2 Hke Hrd2) as (s' & Hb & Hs' & Hi').
  exists (match pos with Some p => p | None => t_pos ld end), s'. split; [exact Hs'|]. split; [exact Hi'|].
  assert (Hce : one_of (t_typ kw) u_eof = false) by (rewrite Hkw; reflexivity).
  assert (Hsk : skip_comments lf ld s1 = COk ld s1) by (destruct lf; [lia|apply skip_non; rewrite Hld; discriminate]).
  cbn [item_list_loop]. rewrite Hn1. cbn [cbind]. unfold text_or_tag. rewrite Hsk. cbn [cbind].
  assert (H1 : one_of (t_typ ld) u_eof = false) by (rewrite Hld; reflexivity). rewrite H1, Hn2. cbn [cbind]. rewrite Hce, Bool.andb_false_r.
  cbv zeta. assert (H2 : tis ld pit_Text = false) by (unfold tis; rewrite Hld; reflexivity).
  assert (H3 : tis ld pit_LeftDelim = true) by (unfold tis; rewrite Hld; reflexivity). rewrite H2, H3, Hb. cbn [cbind snd fst]. reflexivity.
Qed.

(* itemList over the items of a body with special-character commands *)
Lemma seg_nodes : forall T rest items, shape2 T rest items -> no_nul T -> Forall (fun sg : seg => no_nul (snd sg)) rest ->
  forall f acc pos s, stream (c_p s) = items -> inv (c_p s) -> (2 <= lf)%nat -> (length items <= f)%nat ->
  exists pos' nodes s', loop f u_eof pos acc s = COk (NList pos' (acc ++ nodes)) s' /\ Forall is_raw nodes /\
     concat (map raw_text_of nodes) = body_out T rest.
Proof.
  intros T rest items Hsh.
  induction Hsh as [T txt e Htx He|T txt n o T' rest ld c rd items' Htx Hld Hc Hrd Hsh IH
                   |T txt n o T' rest ld kw rd tx ld2 ke rd2 items' Htx Hld Hkw Hrd Htxt Hval Hld2 Hke Hrd2 Hsh IH];
    intros HnT Hnr f acc pos s Hs Hi Hlf Hf.
  - (* the last stretch *)
    unfold body_out. cbn [rest_out]. rewrite app_nil_r.
    assert (He' : t_typ e = pit_EOF) by exact He.
    unfold is_text_of in Htx. destruct (droppable T) eqn:Ed.
    + subst txt. cbn [app] in *. destruct f as [|f']; [cbn in Hf; lia|].
      destruct (eof_iter inlen lexq unq pexpr efuel pe w lf [] e [] f' pos acc s ltac:(constructor) He' Hs Hi ltac:(cbn; lia)) as (pos1 & s' & Hrun).
      exists pos1, [], s'. rewrite app_nil_r. split; [exact Hrun|]. split; [constructor|]. cbn. symmetry. apply droppable_norm. exact Ed.
    + destruct Htx as (p & ->). set (t := {| t_typ := itemText; t_pos := p; t_val := T |}) in *. cbn [app] in *.
      destruct f as [|f']; [cbn in Hf; lia|].
      destruct (text_iter inlen lexq unq pexpr efuel pe w lf [] t e [] f' pos acc s ltac:(constructor) eq_refl ltac:(rewrite He'; discriminate) Hs Hi ltac:(cbn; lia))
        as (pos1 & s5 & Hs5 & Hi5 & Hrun).
      assert (Hce : tis e pit_Comment = false) by (unfold tis; rewrite He'; reflexivity).
      specialize (Hrun (normalize false false T)). rewrite Hce in Hrun. specialize (Hrun (rawtext_run_spec T false false HnT)).
      rewrite Hrun. destruct f' as [|f'']; [cbn in Hf; lia|].
      destruct (eof_iter inlen lexq unq pexpr efuel pe w lf [] e [] f'' (Some pos1)
                  (match normalize false false T with [] => acc | _ => acc ++ [NRawText (t_pos t) (normalize false false T)] end)
                  s5 ltac:(constructor) He' Hs5 Hi5 ltac:(cbn; lia)) as (pos2 & s' & Hrun2).
      rewrite Hrun2. destruct (normalize false false T) as [|a r] eqn:En.
      * exists pos2, [], s'. rewrite app_nil_r. split; [reflexivity|]. split; [constructor|reflexivity].
      * exists pos2, [NRawText (t_pos t) (a :: r)], s'. split; [reflexivity|]. split; [constructor; [exact I|constructor]|].
        cbn. rewrite app_nil_r. reflexivity.
  - (* a stretch, then a command *)
    inversion Hnr as [|? ? HnT' Hnr']; subst. cbn [snd] in HnT'.
    unfold body_out in *. cbn [rest_out].
    assert (Htag : forall f1 acc1 pos1 s1, stream (c_p s1) = ld :: c :: rd :: items' -> inv (c_p s1) -> (S (length items') <= f1)%nat ->
              exists pos' nodes s', loop f1 u_eof pos1 acc1 s1 = COk (NList pos' (acc1 ++ nodes)) s' /\ Forall is_raw nodes /\
                concat (map raw_text_of nodes) = o ++ normalize false false T' ++ rest_out rest).
    { intros f1 acc1 pos1 s1 Hs1 Hi1 Hf1. destruct f1 as [|f1']; [lia|].
      destruct (tag_iter ld c rd items' o f1' pos1 acc1 s1 Hld Hc Hrd Hs1 Hi1 ltac:(lia)) as (pos2 & s2 & Hs2 & Hi2 & Hrun).
      destruct (IH HnT' Hnr' f1' (acc1 ++ [NRawText (t_pos c) o]) (Some pos2) s2 Hs2 Hi2 Hlf ltac:(lia)) as (pos' & nodes & s' & Hrun2 & Hraw & Hcat).
      exists pos', (NRawText (t_pos c) o :: nodes), s'. split; [rewrite Hrun, Hrun2, <- app_assoc; reflexivity|].
      split; [constructor; [exact I|exact Hraw]|]. cbn [map raw_text_of concat]. rewrite Hcat. reflexivity. }
    unfold is_text_of in Htx. destruct (droppable T) eqn:Ed.
    + subst txt. cbn [app] in *. rewrite (droppable_norm _ _ _ Ed). cbn [app].
      apply Htag; [exact Hs|exact Hi|cbn [length] in Hf; lia].
    + destruct Htx as (p & ->). set (t := {| t_typ := itemText; t_pos := p; t_val := T |}) in *. cbn [app] in *.
      destruct f as [|f']; [cbn in Hf; lia|].
      destruct (text_iter inlen lexq unq pexpr efuel pe w lf [] t ld (c :: rd :: items') f' pos acc s ltac:(constructor) eq_refl
                  ltac:(rewrite Hld; discriminate) Hs Hi ltac:(cbn; lia)) as (pos1 & s5 & Hs5 & Hi5 & Hrun).
      assert (Hcl : tis ld pit_Comment = false) by (unfold tis; rewrite Hld; reflexivity).
      specialize (Hrun (normalize false false T)). rewrite Hcl in Hrun. specialize (Hrun (rawtext_run_spec T false false HnT)).
      rewrite Hrun.
      destruct (Htag f' (match normalize false false T with [] => acc | _ => acc ++ [NRawText (t_pos t) (normalize false false T)] end)
                  (Some pos1) s5 Hs5 Hi5 ltac:(cbn [length] in Hf; lia)) as (pos' & nodes & s' & Hrun2 & Hraw & Hcat).
      rewrite Hrun2. destruct (normalize false false T) as [|a r] eqn:En.
      * exists pos', nodes, s'. split; [reflexivity|]. split; [exact Hraw|exact Hcat].
      * exists pos', (NRawText (t_pos t) (a :: r) :: nodes), s'. split; [rewrite <- app_assoc; reflexivity|].
        split; [constructor; [exact I|exact Hraw]|]. cbn [map raw_text_of concat]. rewrite Hcat. reflexivity.
  - (* a stretch, then a literal block *)
    inversion Hnr as [|? ? HnT' Hnr']; subst. cbn [snd] in HnT'.
    unfold body_out in *. cbn [rest_out].
    assert (Htag : forall f1 acc1 pos1 s1, stream (c_p s1) = ld :: kw :: rd :: tx :: ld2 :: ke :: rd2 :: items' -> inv (c_p s1) -> (S (length items') <= f1)%nat ->
              exists pos' nodes s', loop f1 u_eof pos1 acc1 s1 = COk (NList pos' (acc1 ++ nodes)) s' /\ Forall is_raw nodes /\
                concat (map raw_text_of nodes) = t_val tx ++ normalize false false T' ++ rest_out rest).
    { intros f1 acc1 pos1 s1 Hs1 Hi1 Hf1. destruct f1 as [|f1']; [lia|].
      destruct (lit_iter ld kw rd tx ld2 ke rd2 items' f1' pos1 acc1 s1 Hld Hkw Hrd Htxt Hld2 Hke Hrd2 Hs1 Hi1 ltac:(lia)) as (pos2 & s2 & Hs2 & Hi2 & Hrun).
      destruct (IH HnT' Hnr' f1' (acc1 ++ [NRawText (t_pos tx) (t_val tx)]) (Some pos2) s2 Hs2 Hi2 Hlf ltac:(lia)) as (pos' & nodes & s' & Hrun2 & Hraw & Hcat).
      exists pos', (NRawText (t_pos tx) (t_val tx) :: nodes), s'. split; [rewrite Hrun, Hrun2, <- app_assoc; reflexivity|].
      split; [constructor; [exact I|exact Hraw]|]. cbn [map raw_text_of concat]. rewrite Hcat. reflexivity. }
    unfold is_text_of in Htx. destruct (droppable T) eqn:Ed.
    + subst txt. cbn [app] in *. rewrite (droppable_norm _ _ _ Ed). cbn [app].
      apply Htag; [exact Hs|exact Hi|cbn [length] in Hf; lia].
    + destruct Htx as (p & ->). set (t := {| t_typ := itemText; t_pos := p; t_val := T |}) in *. cbn [app] in *.
      destruct f as [|f']; [cbn in Hf; lia|].
      destruct (text_iter inlen lexq unq pexpr efuel pe w lf [] t ld (kw :: rd :: tx :: ld2 :: ke :: rd2 :: items') f' pos acc s ltac:(constructor) eq_refl
                  ltac:(rewrite Hld; discriminate) Hs Hi ltac:(cbn; lia)) as (pos1 & s5 & Hs5 & Hi5 & Hrun).
      assert (Hcl : tis ld pit_Comment = false) by (unfold tis; rewrite Hld; reflexivity).
      specialize (Hrun (normalize false false T)). rewrite Hcl in Hrun. specialize (Hrun (rawtext_run_spec T false false HnT)).
      rewrite Hrun.
      destruct (Htag f' (match normalize false false T with [] => acc | _ => acc ++ [NRawText (t_pos t) (normalize false false T)] end)
                  (Some pos1) s5 Hs5 Hi5 ltac:(cbn [length] in Hf; lia)) as (pos' & nodes & s' & Hrun2 & Hraw & Hcat).
      rewrite Hrun2. destruct (normalize false false T) as [|a r] eqn:En.
      * exists pos', nodes, s'. split; [reflexivity|]. split; [exact Hraw|exact Hcat].
      * exists pos', (NRawText (t_pos t) (a :: r) :: nodes), s'. split; [rewrite <- app_assoc; reflexivity|].
        split; [constructor; [exact I|exact Hraw]|]. cbn [map raw_text_of concat]. rewrite Hcat. reflexivity.
Qed.

End P.
