(* C02, parser shape, part 1: every tree the expression parser (Model/ExprParser.v,
   parse_expr = tree.parseExpr) returns is an expression in the sense of Spec/Cmd.v
   ([wf KExpr]): operands, arguments, list items and map values are expressions, the
   access chain of a data reference holds access nodes whose bracketed part is an
   expression.  For every token stream, precedence and budget. *)
From Coq Require Import Lia.
From Soy Require Import Model.Bytes Model.Num Model.Values Model.Outcome Model.Ast Model.Token Model.NumLit Model.Quote Generated.Tables
  Model.ExprParser Spec.Cmd.
Open Scope N_scope.

(* postcondition on the value of a successful parse *)
Definition epost {A} (Q : A -> Prop) (r : presult A) : Prop :=
  match r with POk a _ => Q a | _ => True end.

Lemma epost_bind {A B} (P : A -> Prop) (Q : B -> Prop) (x : presult A) (f : A -> pst -> presult B) :
  epost P x -> (forall a st, P a -> epost Q (f a st)) -> epost Q (pbind x f).
Proof. destruct x as [a st| | |]; cbn [pbind epost]; auto. Qed.

Lemma epost_any {A} (x : presult A) : epost (fun _ => True) x.
Proof. destruct x; exact I. Qed.

Lemma epost_errorf {A} (Q : A -> Prop) c st : epost Q (@p_errorf A c st).
Proof. exact I. Qed.
Lemma epost_unexpected {A} (Q : A -> Prop) t st : epost Q (@p_unexpected A t st).
Proof. unfold p_unexpected. destruct (_ =? _); exact I. Qed.

Notation ex n := (wf KExpr n = true).

Lemma forallb_snoc {A} (f : A -> bool) l x : forallb f l = true -> f x = true -> forallb f (l ++ [x]) = true.
Proof. intros H K. rewrite forallb_app, H. cbn. rewrite K. reflexivity. Qed.

Section Body.
Variable w : N -> pst -> presult node.
Hypothesis Hw : forall prec st, epost (fun n => ex n) (w prec st).

Ltac eb := eapply epost_bind; [ | intros ? ? ? ].
Ltac efin := first [ apply epost_errorf | apply epost_unexpected | exact I ].

Lemma wf_ternary cond st : ex cond -> epost (fun n => ex n) (parse_ternary w cond st).
Proof.
  intros Hc. unfold parse_ternary. eb; [apply Hw|]. eb; [apply epost_any|]. eb; [apply Hw|].
  cbn [epost wf]. cbn [wf] in *. rewrite Hc, H, H1. reflexivity.
Qed.

Lemma wf_new_binary t n1 n2 bn : new_binary_op t n1 n2 = Some bn -> ex n1 -> ex n2 -> ex bn.
Proof.
  unfold new_binary_op. destruct (assoc _ _) as [[i ?]|]; [|discriminate]. destruct (binop_of_index i); [|discriminate].
  intros [= <-] H1 H2. cbn [wf]. rewrite H1, H2. reflexivity.
Qed.
Lemma wf_new_unary t n1 u : new_unary_op t n1 = Some u -> ex n1 -> ex u.
Proof.
  unfold new_unary_op. destruct (assoc _ _) as [[|p]|]; try discriminate.
  - intros [= <-] H. exact H.
  - destruct p; try discriminate. intros [= <-] H. exact H.
Qed.

Lemma wf_expr_loop lf : forall prec n st, ex n -> epost (fun n => ex n) (expr_loop w lf prec n st).
Proof.
  induction lf as [|lf IH]; intros prec n st Hn; [exact I|]. cbn [expr_loop].
  destruct (p_next st) as [t st1]. destruct (_ || _).
  - destruct (_ && _); [apply wf_ternary; exact Hn | exact Hn].
  - eb; [apply Hw|]. destruct (new_binary_op t n a) eqn:E; [|efin].
    apply IH. eapply wf_new_binary; eassumption.
Qed.

Lemma wf_data_ref_loop lf : forall p key acc st, forallb (wf KAccess) acc = true ->
  epost (fun n => ex n) (data_ref_loop w lf p key acc st).
Proof.
  induction lf as [|lf IH]; intros p key acc st Ha; [exact I|]. cbn [data_ref_loop].
  destruct (p_next st) as [t st1]. cbv zeta.
  destruct (_ || _).
  { destruct (slice_from _ _); [|exact I]. apply IH. apply forallb_snoc; [exact Ha | reflexivity]. }
  destruct (_ || _).
  { destruct (slice_from _ _); [|exact I]. destruct (parse_int _ _); [|efin].
    apply IH. apply forallb_snoc; [exact Ha | reflexivity]. }
  destruct (_ || _); [|exact Ha].
  eb; [apply Hw|]. eb; [apply epost_any|]. apply IH. apply forallb_snoc; [exact Ha | exact H].
Qed.

Lemma wf_data_ref lf t st : epost (fun n => ex n) (parse_data_ref w lf t st).
Proof. unfold parse_data_ref. destruct (slice_from _ _); [|exact I]. apply wf_data_ref_loop. reflexivity. Qed.

Lemma wf_list_loop lf : forall p items st, forallb (wf KExpr) items = true ->
  epost (fun n => ex n) (list_loop w lf p items st).
Proof.
  induction lf as [|lf IH]; intros p items st Hi; [exact I|]. cbn [list_loop].
  eb; [apply Hw|]. cbv zeta. destruct (p_next st0) as [nx st2].
  assert (Hi' : forallb (wf KExpr) (items ++ [a]) = true) by (apply forallb_snoc; assumption).
  destruct (_ =? _); [exact Hi'|]. destruct (negb _); [efin | apply IH; exact Hi'].
Qed.

Lemma items_set_wf l : forall k v, forallb (fun kv : bstr * node => wf KExpr (snd kv)) l = true -> ex v ->
  forallb (fun kv : bstr * node => wf KExpr (snd kv)) (items_set l k v) = true.
Proof.
  induction l as [|[k' v'] r IH]; intros k v Hl Hv; cbn [items_set forallb snd]; [rewrite Hv; reflexivity|].
  cbn [forallb snd] in Hl. apply andb_true_iff in Hl as [H1 H2].
  destruct (bstr_eqb k k'); cbn [forallb snd]; [rewrite Hv, H2 | rewrite H1, IH by assumption]; reflexivity.
Qed.

Lemma wf_map_loop lf : forall p items key st, forallb (fun kv : bstr * node => wf KExpr (snd kv)) items = true ->
  epost (fun n => ex n) (map_loop w lf p items key st).
Proof.
  induction lf as [|lf IH]; intros p items key st Hi; [exact I|]. cbn [map_loop].
  eb; [apply Hw|]. cbv zeta. destruct (p_next st0) as [nx st2].
  assert (Hi' := items_set_wf items key a Hi H).
  destruct (_ =? _); [exact Hi'|]. destruct (negb _); [efin|].
  eb; [apply epost_any|]. destruct (unquote_string _); [|efin]. eb; [apply epost_any|]. apply IH. exact Hi'.
Qed.

Lemma wf_list_or_map lf t st : epost (fun n => ex n) (parse_list_or_map w lf t st).
Proof.
  unfold parse_list_or_map. destruct (p_next st) as [nx st1].
  destruct (_ =? _); [eb; [apply epost_any | reflexivity]|].
  destruct (_ =? _); [reflexivity|].
  eb; [apply Hw|]. destruct (p_next st0) as [d st3].
  destruct (_ =? _).
  { unfold parse_map_literal. destruct a; try efin. apply wf_map_loop. reflexivity. }
  destruct (_ =? _); [apply wf_list_loop; cbn; rewrite H; reflexivity|].
  destruct (_ =? _); [cbn [epost wf forallb]; rewrite H; reflexivity | efin].
Qed.

Lemma wf_global_loop lf : forall p name nx st, epost (fun n => ex n) (global_loop lf p name nx st).
Proof.
  induction lf as [|lf IH]; intros p name nx st; [exact I|]. cbn [global_loop].
  destruct (_ =? _); [|reflexivity]. destruct (p_next st) as [nx' st1]. apply IH.
Qed.

Lemma wf_func_loop lf : forall p name args st, forallb (wf KExpr) args = true ->
  epost (fun n => ex n) (func_loop w lf p name args st).
Proof.
  induction lf as [|lf IH]; intros p name args st Ha; [exact I|]. cbn [func_loop].
  eb; [apply Hw|]. cbv zeta. destruct (p_next st0) as [nx st2].
  assert (Ha' : forallb (wf KExpr) (args ++ [a]) = true) by (apply forallb_snoc; assumption).
  destruct (_ =? _); [apply IH; exact Ha'|]. destruct (_ =? _); [exact Ha' | efin].
Qed.

Lemma wf_function_node lf t st : epost (fun n => ex n) (new_function_node w lf t st).
Proof.
  unfold new_function_node. destruct (p_peek_tok st) as [pk st1]. destruct (_ =? _).
  - destruct (p_next st1). reflexivity.
  - apply wf_func_loop. reflexivity.
Qed.

Lemma wf_value_node lf t st : epost (fun n => ex n) (new_value_node w lf t st).
Proof.
  unfold new_value_node. cbv zeta.
  destruct (_ =? _); [reflexivity|]. destruct (_ =? _); [reflexivity|].
  destruct (_ =? _); [destruct (if is_prefix _ _ then _ else _); [reflexivity | efin]|].
  destruct (_ =? _); [destruct (parse_float _); [reflexivity|]; destruct (parse_float_round _); try efin; reflexivity|].
  destruct (_ =? _); [destruct (unquote_string _); [reflexivity | efin]|].
  destruct (_ =? _); [apply wf_list_or_map|].
  destruct (_ =? _); [apply wf_data_ref|].
  destruct (_ =? _); [|efin].
  destruct (p_next st) as [nx st1]. destruct (negb _); [apply wf_global_loop | apply wf_function_node].
Qed.

Lemma wf_first_term lf st : epost (fun n => ex n) (parse_first_term w lf st).
Proof.
  unfold parse_first_term. destruct (p_next st) as [t st1].
  destruct (is_unary_op _).
  { eb; [apply Hw|]. destruct (new_unary_op t a) eqn:E; [|efin]. eapply wf_new_unary; eassumption. }
  destruct (_ =? _); [eb; [apply Hw|]; eb; [apply epost_any | exact H]|].
  destruct (is_value _); [apply wf_value_node | efin].
Qed.

Lemma wf_expr_body lf prec st : epost (fun n => ex n) (parse_expr_body w lf prec st).
Proof. unfold parse_expr_body. eb; [apply wf_first_term | apply wf_expr_loop; assumption]. Qed.
End Body.

Theorem parse_expr_post fuel : forall prec st, epost (fun n => ex n) (parse_expr fuel prec st).
Proof.
  induction fuel as [|f IH]; intros prec st; [exact I|]. cbn [parse_expr]. apply wf_expr_body. exact IH.
Qed.

(* every tree parseExpr returns is an expression *)
Theorem parse_expr_wf fuel prec st n st' : parse_expr fuel prec st = POk n st' -> wf KExpr n = true.
Proof. intros H. pose proof (parse_expr_post fuel prec st) as P. rewrite H in P. exact P. Qed.
