(* Proofs about the JavaScript generator model (Model/JsGen.v).

   Part 1: a generic "writer" invariant.  For a predicate Q on chunks that the
   generator's own emissions satisfy, every action of the generator only
   APPENDS chunks satisfying Q to the output (and keeps the import table in
   Q).  Instantiated in JsGenInv.v. *)
From Soy Require Import Model.Bytes Model.Num Model.Values Model.Outcome Model.Ast Model.Utf8 Model.JsEscape
  Generated.Tables Model.JsGen.
Open Scope N_scope.

Lemma Forall_rev_append {A} (P : A -> Prop) (l acc : list A) : Forall P l -> Forall P acc -> Forall P (rev_append l acc).
Proof. revert acc. induction l as [|x l IH]; intros acc Hl Ha; cbn; auto. inversion Hl; subst. apply IH; auto. Qed.

Section Inv.
Variable Q : chunk -> Prop.

Definition called_ok (st : jstate) : Prop := Forall (fun kv : bstr * list chunk => Forall Q (snd kv)) (j_called st).

(* the action appends [cs] (all in Q), keeps the import table in Q, and its result satisfies R *)
Definition jspec {A} (R : A -> Prop) (m : J A) : Prop :=
  forall st x st', called_ok st -> m st = Ok (x, st') ->
    exists cs, j_out st' = rev cs ++ j_out st /\ Forall Q cs /\ called_ok st' /\ R x.

Definition T {A} : A -> Prop := fun _ => True.

Lemma jspec_weaken {A} (R R' : A -> Prop) m : (forall x, R x -> R' x) -> jspec R m -> jspec R' m.
Proof. intros HR H st x st' Hc E. destruct (H st x st' Hc E) as (cs & E1 & F & C & Rx). exists cs; auto. Qed.

Lemma jspec_ret {A} (R : A -> Prop) (x : A) : R x -> jspec R (jret x).
Proof. intros Rx st y st' Hc E. inversion E; subst. exists []. cbn. auto. Qed.

Lemma jspec_fail {A} (R : A -> Prop) m : jspec R (@jfail A m).
Proof. intros st x st' _ E. discriminate. Qed.

Lemma jspec_bind {A B} (R1 : A -> Prop) (R2 : B -> Prop) (m : J A) (f : A -> J B) :
  jspec R1 m -> (forall x, R1 x -> jspec R2 (f x)) -> jspec R2 (jbind m f).
Proof.
  intros H1 H2 st y st'' Hc E. unfold jbind in E. destruct (m st) as [[x st']| | | | |] eqn:Em; try discriminate.
  destruct (H1 st x st' Hc Em) as (cs1 & E1 & F1 & C1 & Rx).
  destruct (H2 x Rx st' y st'' C1 E) as (cs2 & E2 & F2 & C2 & Ry).
  exists (cs1 ++ cs2). rewrite E2, E1, rev_app_distr, app_assoc. repeat split; auto. apply Forall_app; auto.
Qed.

Lemma jspec_get : jspec (fun _ => True) jget.
Proof. intros st x st' Hc E. inversion E; subst. exists []. cbn; auto. Qed.

(* state changes that touch neither the output nor the import table *)
Lemma jspec_mod (f : jstate -> jstate) :
  (forall st, j_out (f st) = j_out st) -> (forall st, j_called (f st) = j_called st) -> jspec T (jmod f).
Proof.
  intros Ho Hcl st x st' Hc E. inversion E; subst. exists []. cbn. rewrite Ho. split; [reflexivity|]. split; [constructor|].
  split; [|exact I]. unfold called_ok. rewrite Hcl. exact Hc.
Qed.

Lemma jspec_emit cs : Forall Q cs -> jspec T (jemit cs).
Proof.
  intros F st x st' Hc E. inversion E; subst. exists cs. cbn. rewrite rev_append_rev. split; [reflexivity|]. split; [exact F|].
  split; [exact Hc|exact I].
Qed.

Lemma jspec_txt t : Q (CText t) -> jspec T (jtxt t).
Proof. intro H. apply jspec_emit. constructor; auto. Qed.

Lemma jspec_stuck {A} (R : A -> Prop) (o : outcome (A * jstate)) : (forall v, o <> Ok v) -> jspec R (fun _ => o).
Proof. intros H st x st' _ E. exfalso. exact (H _ E). Qed.

Lemma jspec_lift {A} (R : A -> Prop) (o : outcome A) : (forall v, o = Ok v -> R v) -> jspec R (jlift o).
Proof.
  intros H st x st' Hc E. unfold jlift in E. destruct o; try discriminate. inversion E; subst. exists []. cbn. auto.
Qed.

Lemma jspec_note_called key imp : Forall Q imp -> jspec T (note_called key imp).
Proof.
  intros F. unfold note_called. destruct imp as [|c imp']. apply jspec_ret; exact I.
  intros st x st' Hc E. inversion E; subst. exists []. cbn. split; [reflexivity|]. split; [constructor|]. split; [|exact I].
  unfold called_ok in *. cbn. clear E. induction (j_called st) as [|[k v] l IH]; cbn.
  - constructor; auto.
  - inversion Hc; subst. destruct (bstr_eqb key k); constructor; auto.
Qed.

End Inv.

Arguments T {A} _ /.
