(* C15, scanner half for bodies with tags: lexText on a stretch of text in which the Spec finds no comment,
   followed by a tag or by the end of the input; the special-character commands. *)
From Soy Require Import Model.Bytes Model.Utf8 Model.Outcome Model.Token Generated.Tables Model.Lexer Spec.Text
  Proofs.Utf8Proofs Proofs.RawTextProofs Proofs.LexerPrim Proofs.LexerStates Proofs.LexTokens Proofs.LexBodyText.
From Coq Require Import ZifyBool ZifyNat ZifyN Lia.
Open Scope Z_scope.

(* ---------- Spec side: a text that is one piece ---------- *)
Lemma cons_opt_some x o l : cons_opt x o = Some l -> exists r, o = Some r /\ l = x :: r.
Proof. destruct o as [r|]; cbn [cons_opt]; intros H; [injection H as <-; eauto|discriminate]. Qed.

Lemma pieces_nonempty : forall T m pw cur l, pieces m pw cur T = Some l -> l <> [].
Proof.
  induction T as [|c r IH]; intros m pw cur l Hp.
  - destruct m; cbn [pieces] in Hp; try discriminate; injection Hp as <-; discriminate.
  - assert (Hcons : forall m' l', cons_opt (rev cur) (pieces m' false [] r) = Some l' -> l' <> []).
    { intros m' l' H. destruct (cons_opt_some _ _ _ H) as (r0 & _ & ->). discriminate. }
    destruct m; cbn [pieces] in Hp.
    + destruct (c =? 47)%N; [|eapply IH; exact Hp].
      destruct r as [|d r2]; [eapply IH; exact Hp|].
      destruct (d =? 42)%N.
      * destruct r2 as [|e r3]; [discriminate|].
        destruct ((e =? 42)%N && negb (match r3 with f :: _ => (f =? 47)%N | [] => false end)); [discriminate|].
        eapply Hcons; exact Hp.
      * destruct ((d =? 47)%N && pw); [eapply Hcons; exact Hp|eapply IH; exact Hp].
    + eapply IH; exact Hp.
    + eapply IH; exact Hp.
    + destruct (line_break c); eapply IH; exact Hp.
    + destruct (c =? 42)%N; [eapply IH; exact Hp|]. destruct ((c =? 47)%N && star); eapply IH; exact Hp.
Qed.

(* one piece: at a '/', the Spec went on with the text *)
Lemma one_piece_slash pw cur T1 x : pieces MText pw cur (47%N :: T1) = Some [x] ->
  pieces MText false (47%N :: cur) T1 = Some [x] /\
  match T1 with [] => True | d :: _ => d <> 42%N /\ ((d =? 47)%N && pw = false) end.
Proof.
  intros Hp. destruct T1 as [|d T2]; [split; [exact Hp|exact I]|].
  rewrite pieces_slash in Hp. destruct (d =? 42)%N eqn:E42.
  { exfalso. destruct T2 as [|e r3]; [discriminate|].
    destruct ((e =? 42)%N && negb (match r3 with f :: _ => (f =? 47)%N | [] => false end)); [discriminate|].
    destruct (cons_opt_some _ _ _ Hp) as (r0 & Hr & E). injection E as _ <-. exact (pieces_nonempty _ _ _ _ _ Hr eq_refl). }
  destruct ((d =? 47)%N && pw) eqn:E47.
  { exfalso. destruct (cons_opt_some _ _ _ Hp) as (r0 & Hr & E). injection E as _ <-. exact (pieces_nonempty _ _ _ _ _ Hr eq_refl). }
  split; [exact Hp|]. split; [lia|reflexivity].
Qed.

Section Seg.
Variable inp : bstr.
Notation ilen := (Z.of_nat (length inp)).
Notation span := (span inp).
Notation next := (next inp ilen).

(* what follows a stretch of text: the end of the input, or a tag *)
Definition tag_or_end (tl : bstr) : Prop := tl = [] \/ exists tl', tl = 123%N :: tl'.

(* after a '/' that the Spec takes as text *)
Lemma slash_plain l l1 w T1 tl r0 :
  span l1 (w ++ [47%N]) (T1 ++ tl) -> l_out l1 = l_out l -> l_last l1 = l_last l -> l_dd l1 = l_dd l -> tag_or_end tl ->
  match T1 with [] => True | d :: _ => d <> 42%N /\ ((d =? 47)%N && pwof r0 l = false) end ->
  exists lb, slash_inner inp r0 l1 = Ok (inr lb) /\ span lb (w ++ [47%N]) (T1 ++ tl) /\
             l_out lb = l_out l /\ l_last lb = l_last l /\ l_dd lb = l_dd l.
Proof.
  intros Hs1 Ho1 Hla1 Hdd1 Htl Hc. unfold slash_inner.
  destruct (T1 ++ tl) as [|d s2] eqn:Es.
  { destruct (span_eof_next inp l1 _ Hs1) as (Hnx & Hsb). rewrite Hnx. cbn [bind].
    change (eof =? 47) with false. change (eof =? 42) with false. cbv iota.
    exists (backup (ateof l1)). split; [reflexivity|]. split; [exact Hsb|].
    unfold backup, ateof, set_pos. cbn [l_out l_last l_dd]. auto. }
  destruct (next_any inp l1 _ d s2 Hs1) as (r2 & bs2 & s2' & l2 & Hsplit & Hbl & Hnx & Hs2 & Ho2 & Hla2 & Hdd2 & Hst2 & Hwd2 & Hps2 & Hcls).
  rewrite Hnx. cbn [bind].
  assert (Hback : span (backup l2) (w ++ [47%N]) (d :: s2)) by (rewrite Hsplit; apply span_backup_any; assumption).
  assert (Hfld : l_out (backup l2) = l_out l /\ l_last (backup l2) = l_last l /\ l_dd (backup l2) = l_dd l).
  { unfold backup, set_pos. cbn [l_out l_last l_dd]. repeat split; congruence. }
  assert (Hd : (d = 123%N /\ T1 = []) \/ (exists T2, T1 = d :: T2)).
  { destruct T1 as [|d' T2]; [|right; cbn [app] in Es; injection Es as -> _; eauto].
    left. cbn [app] in Es. destruct Htl as [->|(tl' & ->)]; [discriminate|]. injection Es as <- _. auto. }
  assert (Hgo : (r2 =? 47) = false \/ pwof r0 l2 = false).
  { destruct Hcls as [(Hlt & -> & ->)|(Hge & _ & Hr2)]; [|left; lia].
    destruct Hd as [(-> & _)|(T2 & ->)]; [left; reflexivity|]. destruct Hc as [_ Hc].
    rewrite (pwof_last r0 l l2) by congruence. destruct (N.eqb_spec d 47) as [->|Hne]; [right; cbn [andb] in Hc; exact Hc|left; lia]. }
  assert (H42 : (r2 =? 42) = false).
  { destruct Hcls as [(Hlt & -> & ->)|(Hge & _ & Hr2)]; [|lia].
    destruct Hd as [(-> & _)|(T2 & ->)]; [reflexivity|]. destruct Hc as [Hc _]. lia. }
  exists (backup l2). split; [|split; [exact Hback|exact Hfld]].
  destruct (r2 =? 47) eqn:E47.
  - destruct Hgo as [Hgo|Hgo]; [discriminate|]. rewrite Hgo. reflexivity.
  - rewrite H42. reflexivity.
Qed.

Lemma prefix_in : forall (bs T tl s' : bstr), T ++ tl = bs ++ s' -> Forall (fun x => (128 <= x)%N) bs -> tag_or_end tl ->
  exists T', T = bs ++ T' /\ s' = T' ++ tl.
Proof.
  induction bs as [|b bs IHb]; intros T tl s' E Hall Htl; [exists T; auto|].
  inversion Hall as [|? ? Hb Hall']; subst. destruct T as [|t T0].
  - exfalso. cbn [app] in E. destruct Htl as [->|(tl' & ->)]; [discriminate|]. injection E as <- _. lia.
  - cbn [app] in E. injection E as -> E. destruct (IHb T0 tl s' E Hall' Htl) as (T' & -> & ->). exists T'. auto.
Qed.

(* the stretch is used up: the pending text is sent, then EOF or the tag's turn *)
Definition plain_result (l : lx) (x : bstr) (tl : bstr) (st' : lstate) (l' : lx) : Prop :=
  exists txt, is_text_of x txt /\ l_dd l' = l_dd l /\
    ((tl = [] /\ st' = LDone /\ exists e, t_typ e = itemEOF /\ l_out l' = e :: rev txt ++ l_out l) \/
     (tl <> [] /\ st' = LLeftDelim /\ l_out l' = rev txt ++ l_out l /\ span l' [] tl /\ (txt = [] -> l_last l' = l_last l))).

Lemma text_plain_end w l r0 f tl : span l w tl -> tag_or_end tl ->
  exists st' l', lex_text_loop inp ilen 0 (S f) r0 l = Ok (st', l') /\ plain_result l w tl st' l'.
Proof.
  intros Hs Htl. destruct Htl as [->|(tl' & ->)].
  - destruct (text_eof inp l w r0 f Hs) as (l' & Hrun & (x & rest & txt & Hp & Hdd & Hres)).
    destruct Hres as [(A & B & C & e & D & E)|[(x' & s2 & _ & _ & _ & _ & _ & (F & _) & _)|(s2 & _ & _ & _ & _ & (F & _) & _)]];
      [|cbn in F; lia|cbn in F; lia].
    injection Hp as <- _. exists LDone, l'. split; [exact Hrun|]. exists txt. split; [exact C|]. split; [exact Hdd|].
    left. split; [reflexivity|]. split; [reflexivity|]. eauto.
  - rewrite lex_text_loop_S.
    destruct (next_ascii inp l w 123%N tl' Hs ltac:(lia)) as (Hn & Hs1). rewrite Hn. cbn [bind].
    change (Z.of_N 123 =? 47) with false. cbv iota. cbn [bind]. change (Z.of_N 123 =? 123) with true. cbv iota.
    pose proof (span_backup inp l w 123%N tl' Hs) as Hsb.
    assert (Hsb' : span (backup (adv l)) (w ++ []) (123%N :: tl')) by (rewrite app_nil_r; exact Hsb).
    destruct (met_span inp (backup (adv l)) w [] _ Hsb') as (l3 & txt & Hm & Hs3 & Htx & Ho3 & Hdd3 & Hsame).
    change (Z.of_nat (length (@nil N))) with 0 in Hm. rewrite Hm. cbn [bind].
    exists LLeftDelim, l3. split; [reflexivity|]. exists txt. split; [exact Htx|]. split; [exact Hdd3|].
    right. split; [discriminate|]. split; [reflexivity|]. split; [exact Ho3|]. split; [exact Hs3|].
    intros Et. destruct w as [|a w'].
    + destruct (Hsame eq_refl) as [_ Hl]. exact Hl.
    + clear - Hm Et Ho3. unfold maybe_emit_text in Hm.
      destruct (l_start (backup (adv l)) <? l_pos (backup (adv l)) - 0); [|injection Hm as <-; reflexivity].
      destruct (slice inp ilen _ _) as [v| | | | |]; cbn [bind] in Hm; try discriminate.
      destruct (all_space_with_newline v); cbn [bind] in Hm.
      * injection Hm as <-. reflexivity.
      * exfalso. destruct (emit inp ilen 0 itemText _) as [l5| | | | |] eqn:Ee; cbn [bind] in Hm; try discriminate. injection Hm as <-.
        unfold emit in Ee. destruct (slice inp ilen _ _); cbn [bind] in Ee; try discriminate. injection Ee as <-.
        cbn [set_pos l_out] in Ho3. subst txt. cbn [rev app] in Ho3.
        apply (f_equal (@length _)) in Ho3. cbn [length] in Ho3. destruct (ilen <? _); cbn in Ho3; lia.
Qed.

Lemma plain_result_weaken l1 l x tl st' l' : l_out l1 = l_out l -> l_last l1 = l_last l -> l_dd l1 = l_dd l ->
  plain_result l1 x tl st' l' -> plain_result l x tl st' l'.
Proof.
  intros Ho Hla Hd (txt & Htx & Hdd & Hres). exists txt. split; [exact Htx|]. split; [congruence|].
  destruct Hres as [(A & B & e & C & D)|(A & B & C & D & E)]; [left|right].
  - split; [exact A|]. split; [exact B|]. exists e. split; [exact C|]. rewrite D, Ho. reflexivity.
  - split; [exact A|]. split; [exact B|]. split; [rewrite C, Ho; reflexivity|]. split; [exact D|]. intros Et. rewrite (E Et). exact Hla.
Qed.

(* lexText over a stretch that is one piece, up to the tag or the end of the input *)
Lemma text_plain_run : forall n T, (length T <= n)%nat -> forall w l r0 fuel x tl,
  span l w (T ++ tl) -> (length (T ++ tl) < fuel)%nat -> plain T -> tag_or_end tl ->
  (r0 = 0 -> w = []) -> (r0 <> 0 -> exists w' b, w = w' ++ [b] /\ (gen_isSpaceEOL r0 = true -> ws b = true)) ->
  pieces MText (pwof r0 l) (rev w) T = Some [x] ->
  exists st' l', lex_text_loop inp ilen 0 fuel r0 l = Ok (st', l') /\ x = w ++ T /\ plain_result l x tl st' l'.
Proof.
  induction n as [|n IH]; intros T Hn w l r0 fuel x tl Hs Hf Hpl Htl Hr0 Hr1 Hpc; (destruct fuel as [|f]; [lia|]).
  - destruct T; [|cbn in Hn; lia]. cbn [pieces] in Hpc. rewrite rev_involutive in Hpc. injection Hpc as <-. cbn [app] in *.
    rewrite app_nil_r. destruct (text_plain_end w l r0 f tl Hs Htl) as (st' & l' & H1 & H2). eauto.
  - destruct T as [|c T1].
    { cbn [pieces] in Hpc. rewrite rev_involutive in Hpc. injection Hpc as <-. cbn [app] in *.
      rewrite app_nil_r. destruct (text_plain_end w l r0 f tl Hs Htl) as (st' & l' & H1 & H2). eauto. }
    inversion Hpl as [|c' s' (Hc0 & Hc1 & Hc2) Hpl1]; subst. cbn [app] in Hs, Hf.
    rewrite lex_text_loop_S.
    destruct (next_any inp l w c (T1 ++ tl) Hs) as (r & bs & s' & l1 & Hsplit & Hbl & Hnx & Hs1 & Ho & Hla & Hdd & Hst & Hwd & Hps & Hcls).
    rewrite Hnx. cbn [bind].
    destruct Hcls as [(Hc & -> & ->)|(Hc & Hall & Hr)].
    + cbn [app] in Hsplit. injection Hsplit as <-.
      destruct (N.eqb_spec c 47) as [->|H47].
      * change (Z.of_N 47 =? 47) with true. cbv iota.
        destruct (one_piece_slash _ _ _ _ Hpc) as (Hpc' & Hcond).
        destruct (slash_plain l l1 w T1 tl r0 Hs1 Ho Hla Hdd Htl Hcond) as (lb & Hin & Hsb & Hob & Hlab & Hddb).
        rewrite Hin. cbn [bind]. change (Z.of_N 47 =? 123) with false. change (Z.of_N 47 =? 125) with false.
        change (Z.of_N 47 =? eof) with false. cbv iota.
        destruct (IH T1 ltac:(cbn [length] in Hn; lia) (w ++ [47%N]) lb (Z.of_N 47) f x tl Hsb ltac:(cbn [length] in Hf; lia) Hpl1 Htl)
          as (st' & l' & Hrun & Hx & Hres).
        { intros E. discriminate E. }
        { intros _. exists w, 47%N. split; [reflexivity|]. intros E. discriminate E. }
        { rewrite (pwof_nz _ lb) by discriminate. rewrite rev_unit. exact Hpc'. }
        exists st', l'. split; [exact Hrun|]. split; [rewrite Hx, <- app_assoc; reflexivity|].
        apply (plain_result_weaken lb l); assumption.
      * assert (E47 : (Z.of_N c =? 47) = false) by lia. rewrite E47. cbn [bind].
        assert (E1 : (Z.of_N c =? 123) = false) by lia. assert (E2 : (Z.of_N c =? 125) = false) by lia.
        assert (E3 : (Z.of_N c =? eof) = false) by (unfold eof; lia). rewrite E1, E2, E3.
        destruct (IH T1 ltac:(cbn [length] in Hn; lia) (w ++ [c]) l1 (Z.of_N c) f x tl Hs1 ltac:(cbn [length] in Hf; lia) Hpl1 Htl)
          as (st' & l' & Hrun & Hx & Hres).
        { intros E. lia. }
        { intros _. exists w, c. split; [reflexivity|]. rewrite spaceeol_byte. auto. }
        { rewrite (pwof_nz _ l1) by lia. rewrite spaceeol_byte, rev_unit.
          cbn [pieces] in Hpc. assert (E : (c =? 47)%N = false) by lia. rewrite E in Hpc. exact Hpc. }
        exists st', l'. split; [exact Hrun|]. split; [rewrite Hx, <- app_assoc; reflexivity|].
        apply (plain_result_weaken l1 l); assumption.
    + (* a multi-byte rune: its bytes are bytes of T *)
      assert (E47 : (r =? 47) = false) by lia. rewrite E47. cbn [bind].
      assert (E1 : (r =? 123) = false) by lia. assert (E2 : (r =? 125) = false) by lia.
      assert (E3 : (r =? eof) = false) by (unfold eof; lia). rewrite E1, E2, E3.
      assert (Hne : bs <> []) by (destruct bs; [cbn in Hbl; lia|discriminate]).
      destruct (prefix_in bs (c :: T1) tl s' Hsplit Hall Htl) as (T' & ET & ->).
      assert (Hlen : (length (c :: T1) = length bs + length T')%nat) by (rewrite ET, app_length; reflexivity).
      assert (Hpl' : plain T') by (unfold plain in *; rewrite ET in Hpl; apply Forall_app in Hpl; tauto).
      assert (Hf' : (length (T' ++ tl) < f)%nat).
      { cbn [length] in Hf, Hlen. rewrite app_length in Hf. rewrite app_length. lia. }
      destruct (IH T' ltac:(cbn [length] in Hn, Hlen; lia) (w ++ bs) l1 r f x tl Hs1 Hf' Hpl' Htl) as (st' & l' & Hrun & Hx & Hres).
      { intros E. lia. }
      { intros _. destruct (exists_last Hne) as (bs' & b & ->). exists (w ++ bs'), b. split; [rewrite app_assoc; reflexivity|].
        intros E. unfold gen_isSpaceEOL, gen_isSpace, gen_isEndOfLine in E. lia. }
      { rewrite (pwof_nz _ l1) by lia. assert (E : gen_isSpaceEOL r = false) by (unfold gen_isSpaceEOL, gen_isSpace, gen_isEndOfLine; lia).
        rewrite E, rev_app_distr. rewrite ET, (pieces_text_hi bs Hall Hne) in Hpc. exact Hpc. }
      exists st', l'. split; [exact Hrun|]. split; [rewrite Hx, ET, <- app_assoc; reflexivity|].
      apply (plain_result_weaken l1 l); assumption.
Qed.

End Seg.
