(* C06, part 7: the QUANTITATIVE fuel bound for recursive bundles.

   [walk_cap cf d] (Model/InterpSafety.v) is the walker that refuses to walk a
   node at call depth above [d] ([Err e_capped]).  Three facts:

   1. walk_cap_fuel:    started at call depth k <= d on a node n with
                          tree_height n + reg_height * (d - k) <= fuel
                        the capped walker never runs out of fuel (and never
                        crashes or diverges): the budget
                        (tallest template) x (d + 1) pays for every run that
                        stays within d nested calls, whatever the call graph.
   2. walk_cap_approx:  the capped walker reports the cap or IS the walker
                        (same outcome, same final state).
   3. walk_cap_fuel_monotone / walk_cap_depth_monotone: an answer of the capped
                        walker is stable under more fuel and under a higher cap,
                        so [run_depth_le] (Spec/Safety.v) does not depend on the
                        budget that witnesses it.

   Together (walk_fuel_depth, render_total_depth): a run whose call depth is
   bounded by d answers -- result, error value or value outside the float model
   -- with every fuel >= reg_height * (d + 1), and the answer is the same for all
   of them. *)
From Coq Require Import Lia ZifyN ZifyBool ZifyNat.
From Soy Require Import Model.Bytes Model.Num Model.Values Model.Outcome Model.Ast
  Model.Escape Model.Directives Model.Print Generated.Tables Model.Interp Model.InterpSafety
  Spec.Safety Proofs.ValueProofs Proofs.InterpLogic Proofs.InterpSub Proofs.InterpGuard Proofs.InterpRel
  Proofs.SafetyPure Proofs.SafetyNodes Proofs.SafetyProofs Proofs.SafetyFuel Proofs.SafetyMono.
Open Scope N_scope.

Lemma walk_cap_S cf d f n : walk_cap cf d (S f) n = walk_body cf (cap d (walk_cap cf d f)) n.
Proof. reflexivity. Qed.

(* ------------------------------------------------------------------ *)
(* 1. a unary walker logic with a precondition on the call depth *)

Definition Rdepth (a b : mstate) : Prop := depth_ a = depth_ b.

Lemma depth_rel_conditions : rel_conditions Rdepth allowed_nf.
Proof.
  constructor; unfold Rdepth; intros;
    first [ reflexivity | exact I | congruence | (cbn; assumption) ].
Qed.

Section Depth.
Variable k : nat.

(* started at call depth k: ends at call depth k, without crash, divergence or fuel exhaustion *)
Definition dspec {A} (m : M A) : Prop :=
  forall st r st', depth_ st = k -> m st = (r, st') ->
    depth_ st' = k /\ match classify r with inl _ => True | inr e => allowed_nf e end.

Lemma rel_dspec {A} (m : M A) : rel_spec Rdepth allowed_nf m -> dspec m.
Proof.
  intros H st r st' Hk Hrun. destruct (H _ _ _ Hrun) as [HR Ha].
  split; [unfold Rdepth in HR; congruence | exact Ha].
Qed.

Lemma dspec_bind {A B} (m : M A) (f : A -> M B) : dspec m -> (forall x, dspec (f x)) -> dspec (mbind m f).
Proof.
  intros Hm Hf st r st2 Hk Hb.
  destruct (mbind_inv _ _ _ _ _ Hb) as [(x & st1 & H1 & H2) | (e & H1 & ->)].
  - destruct (Hm _ _ _ Hk H1) as [Hk1 _]. exact (Hf x _ _ _ Hk1 H2).
  - destruct (Hm _ _ _ Hk H1) as [Hk1 Ha]. split; [exact Hk1|].
    rewrite classify_of_fault in Ha. rewrite classify_of_fault. exact Ha.
Qed.

Lemma dspec_eval (w : node -> M value) e : dspec (w e) -> dspec (eval w e).
Proof.
  intros Hw st r st' Hk H. rewrite eval_eq in H.
  destruct (w e st) as [r1 st2] eqn:Hrun. cbn [fst snd] in H.
  destruct (Hw _ _ _ Hk Hrun) as [Hk2 Ha].
  destruct (classify r1) as [x|f]; inversion H; subst.
  - split; [exact Hk2 | exact I].
  - split; [exact Hk2|]. rewrite classify_of_fault. exact Ha.
Qed.

Lemma dspec_block (w : node -> M value) body : dspec (w body) -> dspec (render_block w body).
Proof.
  intros Hw st r st' Hk H. rewrite render_block_eq in H.
  destruct (w body (buf_pushed st)) as [r1 st2] eqn:Hrun. cbn [fst snd] in H.
  assert (Hk0 : depth_ (buf_pushed st) = k) by exact Hk.
  destruct (Hw _ _ _ Hk0 Hrun) as [Hk2 Ha].
  destruct (classify r1) as [x|f].
  - cbn zeta in H. destruct (bufs st2) as [|buf rest]; inversion H; subst; cbn [classify].
    + split; [exact Hk2 | exact I].
    + split; [exact Hk2 | exact I].
  - inversion H; subst. split; [exact Hk2|]. rewrite classify_of_fault. exact Ha.
Qed.

Lemma dspec_modify f : (forall st, depth_ (f st) = depth_ st) -> dspec (modify f).
Proof. intros Hf. apply rel_dspec. apply rel_modify. intros st. unfold Rdepth. symmetry. apply Hf. Qed.

Lemma dspec_ret {A} (x : A) : dspec (ret x).
Proof. apply rel_dspec. apply (rel_ret _ _ depth_rel_conditions). Qed.

Theorem depth_logic_sub : walker_logic_sub (@dspec) (@rel_pure_ok allowed_nf).
Proof.
  pose proof depth_rel_conditions as C.
  constructor.
  - intros A m m' Heq Hm st r st' Hk H. rewrite <- Heq in H. eapply Hm; eauto.
  - intros. apply dspec_ret.
  - intros. apply rel_dspec. apply (rel_fail _ _ C).
  - intros. apply rel_dspec. apply (rel_lift _ _ C). assumption.
  - intros. apply dspec_bind; assumption.
  - intros ae. apply dspec_modify. intros st. reflexivity.
  - intros. apply rel_dspec. apply (rel_write _ _ C).
  - intros. apply rel_dspec. apply (rel_set _ _ C).
  - intros. apply rel_dspec. apply (rel_lookup _ _ C).
  - intros. apply rel_dspec. apply (rel_fresh_list _ _ C).
  - intros. apply rel_dspec. apply (rel_fresh_list_or_nil _ _ C).
  - intros. apply rel_dspec. apply (rel_fresh_map _ _ C).
  - intros B f Hf st r st' Hk H. change ((st <-- get ;;; f (mode st)) st) with (f (mode st) st) in H. eapply Hf; eauto.
  - intros B f Hf st r st' Hk H. change ((st <-- get ;;; f (ctx st)) st) with (f (ctx st) st) in H. eapply Hf; eauto.
  - intros m Hm. apply dspec_bind; [apply dspec_modify; intros st; reflexivity|]. intros _.
    apply dspec_bind; [exact Hm|]. intros _.
    apply dspec_bind; [apply dspec_modify; intros st; reflexivity|]. intros _. apply dspec_ret.
  - apply dspec_eval.
  - apply dspec_block.
Qed.
End Depth.

(* ------------------------------------------------------------------ *)
(* the budget *)

Lemma reg_template_height_le cf t :
  In t (r_templates (c_reg cf)) -> (tree_height (t_node t) <= reg_height (c_reg cf))%nat.
Proof. intros Hin. apply (fold_max_le (fun t => tree_height (t_node t)) t _ Hin). Qed.

Section Budget.
Variable cf : cfg.
Variable d : nat.
Let H := reg_height (c_reg cf).

Theorem walk_cap_fuel : forall fuel n k,
  (k <= d)%nat -> (tree_height n + H * (d - k) <= fuel)%nat -> dspec k (walk_cap cf d fuel n).
Proof.
  induction fuel as [|fuel IH]; intros n k Hk Hf.
  - pose proof (height_pos n). remember (H * (d - k))%nat as X. lia.
  - rewrite walk_cap_S.
    apply (phi_walk_body_sub cf _ _ (depth_logic_sub k) nf_pure_sites_sub).
    + apply dspec_modify. intros st. reflexivity.
    + intros n' Hin st r st' Hst Hrun. unfold cap in Hrun.
      assert (E : Nat.leb (depth_ st) d = true) by (apply Nat.leb_le; lia).
      rewrite E in Hrun. refine (IH n' k Hk _ st r st' Hst Hrun).
      pose proof (height_sub n n' Hin). remember (H * (d - k))%nat as X. lia.
    + intros callee cd Hc st r st' Hst Hrun.
      rewrite call_enter_eq in Hrun. cbn zeta in Hrun.
      assert (Hde : depth_ (entered st callee cd) = S k) by (cbn; congruence).
      assert (Hleft : forall s, depth_ (left st s) = k) by (intros s; cbn; exact Hst).
      unfold cap in Hrun. rewrite Hde in Hrun.
      destruct (Nat.leb (S k) d) eqn:E.
      * apply Nat.leb_le in E.
        destruct (walk_cap cf d fuel (t_node callee) (entered st callee cd)) as [r1 st2] eqn:Hin.
        cbn [fst snd] in Hrun.
        assert (Hb : (tree_height (t_node callee) + H * (d - S k) <= fuel)%nat).
        { destruct n; cbn [callee_of] in Hc; try discriminate.
          apply find_template_some in Hc as [Hmem _].
          pose proof (reg_template_height_le cf _ Hmem) as Hh. fold H in Hh.
          pose proof (height_pos (NCall p name alldata data params)).
          replace (d - k)%nat with (S (d - S k)) in Hf by lia. nia. }
        destruct (IH (t_node callee) (S k) E Hb _ _ _ Hde Hin) as [_ Ha].
        inversion Hrun; subst. split; [apply Hleft|].
        destruct (classify r1) as [x|e]; [exact I|]. rewrite classify_of_fault. exact Ha.
      * cbn [fst snd classify] in Hrun. inversion Hrun; subst. split; [apply Hleft | exact I].
Qed.

(* from call depth 0, on a tree no taller than the tallest template *)
Corollary walk_cap_fuel_top fuel n st :
  depth_ st = 0%nat -> (tree_height n <= H)%nat -> (H * S d <= fuel)%nat ->
  nf (fst (walk_cap cf d fuel n st)).
Proof.
  intros Hst Hn Hf.
  assert (Hb : (tree_height n + H * (d - 0) <= fuel)%nat) by nia.
  destruct (walk_cap cf d fuel n st) as [r st'] eqn:E.
  destruct (walk_cap_fuel fuel n 0%nat (Nat.le_0_l d) Hb st r st' Hst E) as [_ Ha].
  cbn [fst]. destruct r; cbn in Ha |- *; tauto.
Qed.
End Budget.

(* ------------------------------------------------------------------ *)
(* 2. the capped walker reports the cap or is the walker *)

Definition stops_at {A} (stop : outcome A) (m1 m2 : M A) : Prop :=
  forall st, fst (m1 st) = stop \/ m1 st = m2 st.

Definition capx {A} (m1 m2 : M A) : Prop := stops_at (Err e_capped) m1 m2.

Lemma capx_refl {A} (m : M A) : capx m m.
Proof. intros st. right. reflexivity. Qed.

Lemma capx_bind {A B} (m1 m2 : M A) (f1 f2 : A -> M B) :
  capx m1 m2 -> (forall x, capx (f1 x) (f2 x)) -> capx (mbind m1 f1) (mbind m2 f2).
Proof.
  intros Hm Hf st. unfold mbind. destruct (Hm st) as [Ho|He].
  - left. destruct (m1 st) as [r s]. cbn [fst] in Ho. subst r. reflexivity.
  - rewrite <- He. destruct (m1 st) as [[x|e|e| | | ] s]; try (right; reflexivity). apply Hf.
Qed.

Lemma capx_logic : walker_logic_r (fun _ => true) (@capx) (@capx value) (fun _ _ => True).
Proof.
  constructor; intros; try apply capx_refl.
  - intros st. rewrite <- H, <- H0. apply H1.
  - apply capx_bind; assumption.
  - intros st. apply (H (mode st) st).
  - intros st. apply (H (ctx st) st).
  - apply capx_bind; [apply capx_refl|]. intros _.
    apply capx_bind; [assumption|]. intros _. apply capx_refl.
  - intros st. rewrite !eval_eq. destruct (H st) as [Ho|He].
    + left. rewrite Ho. reflexivity.
    + right. rewrite He. reflexivity.
  - intros st. rewrite !render_block_eq. destruct (H (buf_pushed st)) as [Ho|He].
    + left. rewrite Ho. reflexivity.
    + right. rewrite He. reflexivity.
  - intros st. rewrite !call_enter_eq. cbn zeta. destruct (H (entered st callee cd)) as [Ho|He].
    + left. cbn [fst]. rewrite Ho. reflexivity.
    + right. rewrite He. reflexivity.
Qed.

Theorem walk_cap_approx cf d : forall f n, capx (walk_cap cf d f n) (walk cf f n).
Proof.
  induction f as [|f IH]; intros n.
  - apply capx_refl.
  - rewrite walk_cap_S, walk_S.
    apply (rphi_walk_body cf (fun _ => true) (@capx) (@capx value) (fun _ _ => True)
             capx_logic approx_pure_sites (fun _ _ => eq_refl) (cap d (walk_cap cf d f)) (walk cf f)).
    + intros c _ st. unfold cap. destruct (Nat.leb (depth_ st) d); [apply IH | left; reflexivity].
    + intros callee _ st. unfold cap. destruct (Nat.leb (depth_ st) d); [apply IH | left; reflexivity].
    + apply deep_true.
Qed.

(* a higher cap: the same, or the lower cap was hit *)
Theorem walk_cap_depth_S cf d : forall f n, capx (walk_cap cf d f n) (walk_cap cf (S d) f n).
Proof.
  induction f as [|f IH]; intros n.
  - apply capx_refl.
  - rewrite !walk_cap_S.
    apply (rphi_walk_body cf (fun _ => true) (@capx) (@capx value) (fun _ _ => True)
             capx_logic approx_pure_sites (fun _ _ => eq_refl) (cap d (walk_cap cf d f)) (cap (S d) (walk_cap cf (S d) f))).
    + intros c _ st. unfold cap. destruct (Nat.leb (depth_ st) d) eqn:E.
      * apply Nat.leb_le in E. assert (E' : Nat.leb (depth_ st) (S d) = true) by (apply Nat.leb_le; lia).
        rewrite E'. apply IH.
      * left. reflexivity.
    + intros callee _ st. unfold cap. destruct (Nat.leb (depth_ st) d) eqn:E.
      * apply Nat.leb_le in E. assert (E' : Nat.leb (depth_ st) (S d) = true) by (apply Nat.leb_le; lia).
        rewrite E'. apply IH.
      * left. reflexivity.
    + apply deep_true.
Qed.

(* 3. more fuel: the same, or the smaller budget was exhausted *)
Theorem walk_cap_approx_S cf d : forall f n, approx (walk_cap cf d f n) (walk_cap cf d (S f) n).
Proof.
  induction f as [|f IH]; intros n.
  - intros st. left. reflexivity.
  - rewrite (walk_cap_S cf d f n), (walk_cap_S cf d (S f) n).
    apply (rphi_walk_body cf (fun _ => true) (@approx) (@approx value) (fun _ _ => True)
             approx_logic approx_pure_sites (fun _ _ => eq_refl) (cap d (walk_cap cf d f)) (cap d (walk_cap cf d (S f)))).
    + intros c _ st. unfold cap. destruct (Nat.leb (depth_ st) d); [apply IH | right; reflexivity].
    + intros callee _ st. unfold cap. destruct (Nat.leb (depth_ st) d); [apply IH | right; reflexivity].
    + apply deep_true.
Qed.

Theorem walk_cap_fuel_approx cf d f j n : approx (walk_cap cf d f n) (walk_cap cf d (f + j) n).
Proof.
  induction j as [|j IH].
  - rewrite Nat.add_0_r. apply approx_refl.
  - rewrite Nat.add_succ_r. eapply approx_trans; [exact IH | apply walk_cap_approx_S].
Qed.

Theorem walk_cap_fuel_monotone cf d f f' n st :
  (f <= f')%nat -> fst (walk_cap cf d f n st) <> OutOfFuel -> walk_cap cf d f' n st = walk_cap cf d f n st.
Proof.
  intros Hle Hr. replace f' with (f + (f' - f))%nat by lia.
  destruct (walk_cap_fuel_approx cf d f (f' - f) n st) as [Ho|He]; [contradiction | symmetry; exact He].
Qed.

Lemma capx_trans {A} (m1 m2 m3 : M A) : capx m1 m2 -> capx m2 m3 -> capx m1 m3.
Proof.
  intros H1 H2 st. destruct (H1 st) as [Ho|He]; [left; exact Ho|]. rewrite He. apply H2.
Qed.

Theorem walk_cap_depth_monotone cf d d' f n st :
  (d <= d')%nat -> fst (walk_cap cf d f n st) <> Err e_capped -> walk_cap cf d' f n st = walk_cap cf d f n st.
Proof.
  intros Hle Hr. replace d' with (d + (d' - d))%nat by lia.
  assert (Hx : capx (walk_cap cf d f n) (walk_cap cf (d + (d' - d)) f n)).
  { induction (d' - d)%nat as [|j IH].
    - rewrite Nat.add_0_r. apply capx_refl.
    - rewrite Nat.add_succ_r. eapply capx_trans; [exact IH | apply walk_cap_depth_S]. }
  destruct (Hx st) as [Ho|He]; [contradiction | symmetry; exact He].
Qed.

(* the three facts in the form Properties/C06.v states them *)
Theorem walk_cap_fuel_nf cf d fuel n k st r st' :
  (k <= d)%nat -> (tree_height n + reg_height (c_reg cf) * (d - k) <= fuel)%nat ->
  depth_ st = k -> walk_cap cf d fuel n st = (r, st') ->
  depth_ st' = k /\ nf r.
Proof.
  intros Hk Hf Hst Hrun.
  destruct (walk_cap_fuel cf d fuel n k Hk Hf st r st' Hst Hrun) as [H1 H2].
  split; [exact H1|]. destruct r; cbn in H2 |- *; tauto.
Qed.

Theorem walk_cap_monotone cf d d' f f' n st :
  (d <= d')%nat -> (f <= f')%nat -> is_answer (fst (walk_cap cf d f n st)) ->
  walk_cap cf d' f' n st = walk_cap cf d f n st.
Proof.
  intros Hd Hf [Hoof Hcap].
  rewrite <- (walk_cap_fuel_monotone cf d f f' n st Hf Hoof) in Hcap |- *.
  apply walk_cap_depth_monotone; assumption.
Qed.

(* ------------------------------------------------------------------ *)
(* the quantitative statement *)

(* a run that stays within d nested calls answers with fuel >= reg_height * (d+1);
   the answer (outcome and final state) is the capped run's, hence one and the same for
   every such fuel *)
Theorem walk_fuel_depth cf d n st fuel :
  run_depth_le cf d n st ->
  depth_ st = 0%nat -> (tree_height n <= reg_height (c_reg cf))%nat ->
  (reg_height (c_reg cf) * S d <= fuel)%nat ->
  nf (fst (walk cf fuel n st)) /\
  forall fuel', (reg_height (c_reg cf) * S d <= fuel')%nat -> walk cf fuel' n st = walk cf fuel n st.
Proof.
  intros [f [Hoof Hcap]] Hst Hn Hfuel.
  assert (Hall : forall g, (reg_height (c_reg cf) * S d <= g)%nat ->
                   walk cf g n st = walk_cap cf d f n st /\ nf (fst (walk cf g n st))).
  { intros g Hg.
    pose proof (walk_cap_fuel_top cf d g n st Hst Hn Hg) as Hnf.
    assert (Hg_noof : fst (walk_cap cf d g n st) <> OutOfFuel).
    { intros E. rewrite E in Hnf. exact Hnf. }
    (* both budgets agree with the larger of the two *)
    pose proof (walk_cap_fuel_monotone cf d f (Nat.max f g) n st (Nat.le_max_l f g) Hoof) as E1.
    pose proof (walk_cap_fuel_monotone cf d g (Nat.max f g) n st (Nat.le_max_r f g) Hg_noof) as E2.
    assert (E : walk_cap cf d g n st = walk_cap cf d f n st) by congruence.
    destruct (walk_cap_approx cf d g n st) as [Ho|He].
    - rewrite E in Ho. contradiction.
    - split; [congruence|]. rewrite <- He. exact Hnf. }
  destruct (Hall fuel Hfuel) as [E Hnf]. split; [exact Hnf|].
  intros fuel' Hf'. destruct (Hall fuel' Hf') as [E' _]. congruence.
Qed.

(* what Renderer.Execute makes of a finished walk *)
Lemma render_of_nf_walk cf fuel name data_id data cl bl first_id t :
  find_template (r_templates (c_reg cf)) name = Some t ->
  nf (fst (walk cf fuel (t_node t)
             (init_state (sc_enter (new_scope data_id data)) (entry_mode (t_ns_autoescape t)) name cl bl first_id))) ->
  nf (rr_outcome (render cf fuel name data_id data cl bl first_id))
  \/ exists m, rr_outcome (render cf fuel name data_id data cl bl first_id) = Crash m.
Proof.
  intros Hfind Hnf. unfold render. rewrite Hfind.
  set (st0 := init_state _ _ _ _ _ _) in *.
  destruct (walk cf fuel (t_node t) st0) as [r st]. cbn [fst] in Hnf.
  destruct r; cbn [rr_outcome]; cbn in Hnf; try tauto; try (left; exact I).
  destruct (assoc_s name (r_sources (c_reg cf))); [|left; exact I].
  destruct (assoc_s name (r_files (c_reg cf))); [|left; exact I].
  destruct (line_number _ _); [left; exact I | right; eexists; reflexivity].
Qed.

(* Renderer.Execute on ANY bundle (recursive or not): if the run of the entry template stays within d
   nested calls, fuel >= (tallest template) x (d + 1) gives a result, an error value, or a value outside
   the float model -- and the whole render result is the same for every such fuel *)
Theorem render_total_depth cf d fuel name data_id data cl bl first_id t :
  reg_ok (c_reg cf) = true ->
  find_template (r_templates (c_reg cf)) name = Some t ->
  run_depth_le cf d (t_node t)
    (init_state (sc_enter (new_scope data_id data)) (entry_mode (t_ns_autoescape t)) name cl bl first_id) ->
  (reg_height (c_reg cf) * S d <= fuel)%nat ->
  match rr_outcome (render cf fuel name data_id data cl bl first_id) with
  | Ok _ | Err _ | OutOfModel => True
  | _ => False
  end
  /\ forall fuel', (reg_height (c_reg cf) * S d <= fuel')%nat ->
       render cf fuel' name data_id data cl bl first_id = render cf fuel name data_id data cl bl first_id.
Proof.
  intros Hok Hfind Hrun Hfuel.
  pose proof (find_template_some _ _ _ Hfind) as [Hin _].
  pose proof (reg_template_height_le cf t Hin) as Hh.
  destruct (walk_fuel_depth cf d (t_node t) _ fuel Hrun eq_refl Hh Hfuel) as [Hnf Hsame].
  split.
  - pose proof (render_no_escape_lemma cf fuel name data_id data cl bl first_id Hok) as Hne.
    destruct (render_of_nf_walk cf fuel name data_id data cl bl first_id t Hfind Hnf) as [Hr|[m Hm]].
    + destruct (rr_outcome _); cbn in *; tauto.
    + rewrite Hm in Hne. destruct Hne.
  - intros fuel' Hf'. unfold render. rewrite Hfind. rewrite (Hsame fuel' Hf'). reflexivity.
Qed.

(* ------------------------------------------------------------------ *)
(* every run that answers has a call depth: a run with fuel f cannot nest more than f calls, so the
   walker capped at d >= f - 1 is the walker (started at call depth 0) unless the fuel runs out *)

Definition drel (k : nat) {A} (m1 m2 : M A) : Prop :=
  forall st, depth_ st = k ->
    fst (m2 st) = OutOfFuel \/ (m1 st = m2 st /\ depth_ (snd (m2 st)) = k).

Lemma drel_same k {A} (m : M A) :
  (forall st r st', m st = (r, st') -> depth_ st' = depth_ st) -> drel k m m.
Proof.
  intros H st Hk. right. split; [reflexivity|].
  destruct (m st) as [r st'] eqn:E. cbn [snd]. rewrite (H _ _ _ E). exact Hk.
Qed.

Lemma drel_of_rel k {A} (m : M A) : rel_spec Rdepth allowed_nf m -> drel k m m.
Proof.
  intros H. apply drel_same. intros st r st' E. destruct (H _ _ _ E) as [HR _]. unfold Rdepth in HR. congruence.
Qed.

Lemma drel_bind k {A B} (m1 m2 : M A) (f1 f2 : A -> M B) :
  drel k m1 m2 -> (forall x, drel k (f1 x) (f2 x)) -> drel k (mbind m1 f1) (mbind m2 f2).
Proof.
  intros Hm Hf st Hk. unfold mbind. destruct (Hm st Hk) as [Ho|[He Hd]].
  - left. destruct (m2 st) as [r s]. cbn [fst] in Ho. subst r. reflexivity.
  - rewrite He. destruct (m2 st) as [[x|e|e| | | ] s]; cbn [snd] in Hd;
      try (right; split; [reflexivity | exact Hd]).
    apply Hf. exact Hd.
Qed.

Lemma drel_logic k : walker_logic_r (fun _ => true) (@drel k) (@drel (S k) value) (fun _ _ => True).
Proof.
  pose proof depth_rel_conditions as C.
  constructor; intros.
  - intros st Hk. rewrite <- H, <- H0. apply H1. exact Hk.
  - apply drel_of_rel. apply (rel_ret _ _ C).
  - apply drel_of_rel. apply (rel_fail _ _ C).
  - apply drel_same. intros st r st' E. inversion E. reflexivity.
  - apply drel_bind; assumption.
  - apply drel_same. intros st r st' E. inversion E. reflexivity.
  - apply drel_same. intros st r st' E. inversion E. reflexivity.
  - apply drel_of_rel. apply (rel_write _ _ C).
  - apply drel_of_rel. apply (rel_set _ _ C).
  - apply drel_of_rel. apply (rel_lookup _ _ C).
  - apply drel_of_rel. apply (rel_fresh_list _ _ C).
  - apply drel_of_rel. apply (rel_fresh_list_or_nil _ _ C).
  - apply drel_of_rel. apply (rel_fresh_map _ _ C).
  - intros st Hk. apply (H (mode st) st Hk).
  - intros st Hk. apply (H (ctx st) st Hk).
  - (* scoped *)
    apply drel_bind; [apply drel_same; intros st r st' E; inversion E; reflexivity|]. intros _.
    apply drel_bind; [assumption|]. intros _.
    apply drel_bind; [apply drel_same; intros st r st' E; inversion E; reflexivity|]. intros _.
    apply drel_of_rel. apply (rel_ret _ _ C).
  - (* eval *)
    intros st Hk. rewrite !eval_eq. destruct (H st Hk) as [Ho|[He Hd]].
    + left. rewrite Ho. reflexivity.
    + right. rewrite He. split; [reflexivity|].
      destruct (w2 e st) as [[x|e0|e0| | | ] s]; cbn [fst snd classify of_fault] in *; exact Hd.
  - (* block *)
    intros st Hk. rewrite !render_block_eq. destruct (H (buf_pushed st) Hk) as [Ho|[He Hd]].
    + left. rewrite Ho. reflexivity.
    + right. rewrite He. split; [reflexivity|].
      destruct (w2 body (buf_pushed st)) as [[x|e0|e0| | | ] s]; cbn [fst snd classify of_fault] in *; try exact Hd.
      destruct (bufs s); cbn [snd]; exact Hd.
  - (* enter: the callee runs one level deeper; the caller's depth is back afterwards *)
    intros st Hk. rewrite !call_enter_eq. cbn zeta.
    assert (Hke : depth_ (entered st callee cd) = S k) by (cbn; congruence).
    destruct (H (entered st callee cd) Hke) as [Ho|[He Hd]].
    + left. cbn [fst]. rewrite Ho. reflexivity.
    + right. rewrite He. split; [reflexivity|]. cbn. exact Hk.
Qed.

Theorem walk_cap_full cf d : forall f n k, (k + f <= S d)%nat -> drel k (walk_cap cf d f n) (walk cf f n).
Proof.
  induction f as [|f IH]; intros n k Hle.
  - intros st Hk. left. reflexivity.
  - rewrite walk_cap_S, walk_S.
    apply (rphi_walk_body cf (fun _ => true) (@drel k) (@drel (S k) value) (fun _ _ => True)
             (drel_logic k) approx_pure_sites (fun _ _ => eq_refl) (cap d (walk_cap cf d f)) (walk cf f)).
    + intros c _ st Hk. unfold cap. rewrite Hk.
      assert (E : Nat.leb k d = true) by (apply Nat.leb_le; lia). rewrite E.
      apply (IH c k ltac:(lia) st Hk).
    + intros callee _ st Hk. unfold cap. rewrite Hk.
      destruct (Nat.leb (S k) d) eqn:E.
      * apply (IH (t_node callee) (S k) ltac:(lia) st Hk).
      * apply Nat.leb_gt in E. destruct f as [|f']; [left; reflexivity | lia].
    + apply deep_true.
Qed.

(* an answer obtained with fuel f from call depth 0 is an answer of the walker capped at f: the run stays
   within f nested calls.  ([e_capped] is the instrument's own marker, not an error text of the walker.) *)
Theorem walk_answer_has_depth cf f n st :
  depth_ st = 0%nat -> is_answer (fst (walk cf f n st)) -> run_depth_le cf f n st.
Proof.
  intros Hst [Hoof Hcap]. exists f.
  destruct (walk_cap_full cf f f n 0%nat ltac:(lia) st Hst) as [Ho|[He _]]; [contradiction|].
  rewrite He. split; assumption.
Qed.
