(* C19, parse half: every error parse.SoyFile returns is positioned inside the input
   (Model/Parser.v).  [eok r]: an error result carries a token whose position is at most
   len(input) -- or it comes from a quoted attribute expression whose sub-scanner had no
   enclosing text to point into (class prefixed "quoted:"; the model takes the sub-scanner's
   items and strconv.Unquote as parameters, so that case cannot be excluded here; the harness
   never sees it).  The proof is one pass over every procedure of the parser model: errors are
   only ever created by errorAt (which slices input[:pos]: a position beyond the input is the
   run-time panic [CCrash], not an error) and passed on by [cbind]. *)
From Soy Require Import Model.Bytes Model.Utf8 Model.Outcome Model.Num Model.Values Model.Ast Model.Token
  Model.RawText Model.ExprParser Model.Parser Generated.Tables.
From Coq Require Import Lia.
Open Scope N_scope.

Section Bound.
Variable inlen : N.
Variable lexq : bstr -> list tok.
Variable unq : bstr -> option bstr.
Variable pexpr : nat -> N -> pst -> presult node.
Variable efuel : list tok -> nat.

Definition tok_inside (t : tok) (c : bstr) : Prop := t_pos t <= inlen \/ is_prefix e_quoted c = true.

Definition eok {A} (r : cres A) : Prop :=
  match r with CErr t c _ => tok_inside t c | _ => True end.

Lemma eok_bind {A B} (x : cres A) (f : A -> cst -> cres B) : eok x -> (forall a s, eok (f a s)) -> eok (cbind x f).
Proof. destruct x; cbn; auto. Qed.
Lemma eok_ok {A} (a : A) s : eok (COk a s). Proof. exact I. Qed.
Lemma eok_crash {A} m : eok (@CCrash A m). Proof. exact I. Qed.
Lemma eok_fuel {A} : eok (@CFuel A). Proof. exact I. Qed.
Lemma eok_error_at {A} t c s : eok (@c_error_at inlen A t c s).
Proof. unfold c_error_at. destruct (N.leb_spec (t_pos t) inlen); cbn; [left; assumption | exact I]. Qed.
Lemma eok_errorf {A} c s : eok (@c_errorf inlen A c s).
Proof. unfold c_errorf. destruct (3 <=? _)%nat; [exact I | apply eok_error_at]. Qed.
Lemma eok_unexp {A} t c s : eok (@c_unexp inlen A t c s).
Proof. unfold c_unexp. destruct (tis t pit_Error); apply eok_error_at. Qed.
Lemma eok_next s : eok (c_next s).
Proof. unfold c_next. destruct (3 <=? _)%nat; [exact I|]. destruct (p_next (c_p s)); exact I. Qed.
Lemma eok_peek s : eok (c_peek s).
Proof. unfold c_peek. destruct (3 <=? _)%nat; [exact I|]. destruct (p_peek_tok (c_p s)); exact I. Qed.
Lemma eok_expect ty c s : eok (c_expect inlen ty c s).
Proof. unfold c_expect. apply eok_bind; [apply eok_next|]. intros t s1. destruct (tis t ty); [exact I | apply eok_unexp]. Qed.
Lemma eok_tail1 v s : eok (tail1 v s).
Proof. destruct v; exact I. Qed.
Lemma eok_lift_expr f prec s : eok (lift_expr inlen pexpr f prec s).
Proof.
  unfold lift_expr. destruct (pexpr f prec (c_p s)); try exact I.
  destruct (N.leb_spec (t_pos at_) inlen); cbn; [left; assumption | exact I].
Qed.
Lemma is_prefix_app (p s : bstr) : is_prefix p (p ++ s) = true.
Proof. induction p as [|a p IH]; [destruct s; reflexivity|]. cbn. rewrite N.eqb_refl. exact IH. Qed.
Lemma eok_quoted str s : eok (parse_quoted_expr inlen lexq pexpr efuel str s).
Proof.
  unfold parse_quoted_expr. destruct (3 <=? _)%nat; [exact I|]. cbv zeta.
  destruct (pexpr _ 0 _); try exact I.
  destruct (t_pos at_ <=? _); [|exact I]. cbn [eok]. right. apply is_prefix_app.
Qed.

Hint Resolve eok_ok eok_crash eok_fuel eok_error_at eok_errorf eok_unexp eok_next eok_peek eok_expect eok_tail1
  eok_lift_expr eok_quoted : eok.

Ltac eok_step :=
  match goal with
  | |- eok (cbind _ _) => apply eok_bind; [ | intros ? ? ]
  | |- eok (if ?c then _ else _) => destruct c
  | |- eok (match ?x with _ => _ end) => destruct x
  | |- eok (let _ := _ in _) => cbv zeta
  | |- eok (let '(_, _) := ?x in _) => destruct x
  | |- eok _ => solve [ auto with eok ]
  end.
Ltac eok_go := repeat eok_step.

(* ---------- leaf loops ---------- *)
Lemma eok_attrs_loop f : forall allowed acc s, eok (attrs_loop inlen unq f allowed acc s).
Proof. induction f as [|f IH]; intros; cbn [attrs_loop]; eok_go; apply IH. Qed.
Lemma eok_parse_autoescape attrs s : eok (parse_autoescape inlen attrs s).
Proof. unfold parse_autoescape. eok_go. Qed.
Lemma eok_bool_attr attrs k d s : eok (bool_attr inlen attrs k d s).
Proof. unfold bool_attr. eok_go. Qed.
Lemma eok_next_non_comment f : forall s, eok (next_non_comment f s).
Proof. induction f as [|f IH]; intros; cbn [next_non_comment]; eok_go; apply IH. Qed.
Lemma eok_skip_comments f : forall t s, eok (skip_comments f t s).
Proof. induction f as [|f IH]; intros; cbn [skip_comments]; eok_go; apply IH. Qed.
Lemma eok_text_run f : forall t s, eok (text_run f t s).
Proof. induction f as [|f IH]; intros; cbn [text_run]; eok_go; apply IH. Qed.
Lemma eok_soydoc_loop f : forall p ps s, eok (soydoc_loop inlen f p ps s).
Proof. induction f as [|f IH]; intros; cbn [soydoc_loop]; eok_go; apply IH. Qed.
Lemma eok_alias_loop f : forall n l s, eok (alias_loop inlen f n l s).
Proof. induction f as [|f IH]; intros; cbn [alias_loop]; eok_go; apply IH. Qed.
Lemma eok_parse_alias f s : eok (parse_alias inlen f s).
Proof. unfold parse_alias. eok_go. apply eok_alias_loop. Qed.
Lemma eok_dotted_name f : forall n s, eok (dotted_name f n s).
Proof. induction f as [|f IH]; intros; cbn [dotted_name]; eok_go; apply IH. Qed.
Hint Resolve eok_attrs_loop eok_parse_autoescape eok_bool_attr eok_next_non_comment eok_skip_comments eok_text_run
  eok_soydoc_loop eok_alias_loop eok_parse_alias eok_dotted_name : eok.
Lemma eok_parse_namespace f t s : eok (parse_namespace inlen unq f t s).
Proof. unfold parse_namespace. eok_go. Qed.
Hint Resolve eok_parse_namespace : eok.

(* ---------- one level: parseExpr [pe] and itemList one level down [w] report inside ---------- *)
Section Level.
Variable pe : N -> cst -> cres node.
Variable w : list N -> cst -> cres node.
Variable lf : nat.
Hypothesis Hpe : forall prec s, eok (pe prec s).
Hypothesis Hw : forall u s, eok (w u s).
Hint Resolve Hpe Hw : eok.

Notation PQ := (parse_quoted_expr inlen lexq pexpr efuel).

Lemma eok_directive_args f : forall args s, eok (directive_args pe f args s).
Proof. induction f as [|f IH]; intros; cbn [directive_args]; eok_go; apply IH. Qed.
Hint Resolve eok_directive_args : eok.
Lemma eok_cmd_print_loop f : forall pos e dirs s, eok (cmd_print_loop inlen pe lf f pos e dirs s).
Proof. induction f as [|f IH]; intros; cbn [cmd_print_loop]; eok_go; apply IH. Qed.
Hint Resolve eok_cmd_print_loop : eok.
Lemma eok_cmd_print t s : eok (cmd_print inlen pe lf t s).
Proof. unfold cmd_print. eok_go. Qed.
Lemma eok_parse_let t s : eok (parse_let inlen unq pe w lf t s).
Proof. unfold parse_let. eok_go. Qed.
Lemma eok_parse_css t s : eok (parse_css inlen lexq pexpr efuel t s).
Proof. unfold parse_css. eok_go. Qed.
Lemma eok_call_name_loop f : forall n s, eok (call_name_loop f n s).
Proof. induction f as [|f IH]; intros; cbn [call_name_loop]; eok_go; apply IH. Qed.
Hint Resolve eok_call_name_loop : eok.
Lemma eok_call_name s : eok (call_name lf s).
Proof. unfold call_name. eok_go. Qed.
Lemma eok_orphan_text f : forall t s, eok (orphan_text inlen lf f t s).
Proof. induction f as [|f IH]; intros; cbn [orphan_text]; eok_go; apply IH. Qed.
Hint Resolve eok_cmd_print eok_parse_let eok_parse_css eok_call_name eok_orphan_text : eok.
Lemma eok_param_attr_form rec params initial key0 s :
  (forall ps s', eok (rec ps s')) -> eok (param_attr_form inlen lexq unq pexpr efuel w lf rec params initial key0 s).
Proof. intros Hrec. unfold param_attr_form. eok_go; apply Hrec. Qed.
Lemma eok_call_params_loop f : forall params s, eok (call_params_loop inlen lexq unq pexpr efuel pe w lf f params s).
Proof.
  induction f as [|f IH]; intros; cbn [call_params_loop]; eok_go; try apply IH;
    apply eok_param_attr_form; exact IH.
Qed.
Hint Resolve eok_call_params_loop : eok.
Lemma eok_parse_call t s : eok (parse_call inlen lexq unq pexpr efuel pe w lf t s).
Proof. unfold parse_call. eok_go. Qed.
Lemma eok_case_loop f : forall t vs s, eok (case_loop inlen pe w f t vs s).
Proof. induction f as [|f IH]; intros; cbn [case_loop]; eok_go; apply IH. Qed.
Hint Resolve eok_parse_call eok_case_loop : eok.
Lemma eok_switch_loop f : forall pos endt v cs s, eok (switch_loop inlen pe w lf f pos endt v cs s).
Proof. induction f as [|f IH]; intros; cbn [switch_loop]; eok_go; apply IH. Qed.
Hint Resolve eok_switch_loop : eok.
Lemma eok_parse_switch t endt s : eok (parse_switch inlen pe w lf t endt s).
Proof. unfold parse_switch. eok_go. Qed.
Lemma eok_plural_cases cs : forall cases d s, eok (plural_cases inlen cs cases d s).
Proof.
  induction cs as [|c r IH]; intros; cbn [plural_cases]; [exact I|].
  destruct c; try apply IH. destruct values as [|v vs]; [apply IH|].
  destruct v; try apply eok_errorf. destruct vs; [apply IH | apply eok_errorf].
Qed.
Hint Resolve eok_parse_switch eok_plural_cases : eok.
Lemma eok_parse_plural t s : eok (parse_plural inlen pe w lf t s).
Proof. unfold parse_plural. eok_go. Qed.
Lemma eok_parse_for t s : eok (parse_for inlen pe w t s).
Proof. unfold parse_for. eok_go. Qed.
Lemma eok_if_loop f : forall pos conds ie s, eok (if_loop inlen pe w f pos conds ie s).
Proof. induction f as [|f IH]; intros; cbn [if_loop]; eok_go; apply IH. Qed.
Lemma eok_parse_msg t s : eok (parse_msg inlen unq w lf t s).
Proof. unfold parse_msg. eok_go. Qed.
Lemma eok_parse_template t s : eok (parse_template inlen unq w lf t s).
Proof. unfold parse_template. eok_go. Qed.
Lemma eok_parse_header_param t s : eok (parse_header_param inlen pe t s).
Proof. unfold parse_header_param. eok_go. Qed.
Hint Resolve eok_parse_plural eok_parse_for eok_if_loop eok_parse_msg eok_parse_template eok_parse_header_param : eok.
Lemma eok_notmsg {A} t s (k : cres A) : eok k -> eok (notmsg inlen t s k).
Proof. intros H. unfold notmsg. destruct (c_inmsg s); [apply eok_unexp | exact H]. Qed.
Lemma eok_some (r : cres node) : eok r -> eok (do (n, s') <- r; COk (Some n) s').
Proof. intros H. apply eok_bind; [exact H | intros; exact I]. Qed.
Lemma eok_begin_tag s : eok (begin_tag inlen lexq unq pexpr efuel pe w lf s).
Proof.
  unfold begin_tag. apply eok_bind; [apply eok_next|]. intros token s1. cbv zeta.
  repeat match goal with
         | |- eok (if ?c then _ else _) => destruct c
         | |- eok (notmsg _ _ _ _) => apply eok_notmsg
         | |- eok (cbind ?r (fun n s' => COk (Some n) s')) => apply eok_some
         | |- eok (match assoc ?a ?b with _ => _ end) => destruct (assoc a b)
         end; eok_go.
Qed.
Hint Resolve eok_begin_tag : eok.
Lemma eok_text_or_tag t until s : eok (text_or_tag inlen lexq unq pexpr efuel pe w lf t until s).
Proof. unfold text_or_tag. eok_go. Qed.
Hint Resolve eok_text_or_tag : eok.
Lemma eok_item_list_loop f : forall until pos acc s, eok (item_list_loop inlen lexq unq pexpr efuel pe w lf f until pos acc s).
Proof. induction f as [|f IH]; intros; cbn [item_list_loop]; eok_go; apply IH. Qed.
End Level.

Theorem eok_item_list fuel : forall until s, eok (item_list inlen lexq unq pexpr efuel fuel until s).
Proof.
  induction fuel as [|f IH]; intros; cbn [item_list]; [exact I|].
  apply eok_item_list_loop; [intros; apply eok_lift_expr | exact IH].
Qed.

(* parse.SoyFile: an error it returns carries a token positioned inside the input *)
Theorem parse_file_error_inside fuel ts t c st :
  po_result (parse_file inlen lexq unq pexpr efuel fuel ts) = PErr t c st -> tok_inside t c.
Proof.
  unfold parse_file. pose proof (eok_item_list fuel u_eof (cst_init ts)) as H.
  destruct (item_list _ _ _ _ _ fuel u_eof (cst_init ts)); cbn; intros E; inversion E; subst. exact H.
Qed.
End Bound.
