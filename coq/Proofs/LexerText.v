(* Progress lemma for lexText: the loop scans to `{`, `}`, a comment opener or end of input. *)
From Soy Require Import Model.Bytes Model.Utf8 Model.Outcome Model.Token Generated.Tables Model.Lexer Proofs.LexerPrim Proofs.LexerStates.
From Coq Require Import ZifyBool ZifyNat ZifyN Lia.
Open Scope Z_scope.

Section Text.
Variable inp : bstr.
Notation ilen := (Z.of_nat (length inp)).
Variable base : Z.
Hypothesis base_nonneg : 0 <= base.
Notation inv := (inv inp base).
Notation wf := (wfi inp base).
Notation step_post := (step_post inp base).
Notation loop_post := (loop_post inp base).

(* loop invariant: besides wf, a previous rune read in this invocation (r0 <> 0) lies after start,
   so that `l.start++` ("ignore the preceding space") stays in front of pos *)
Lemma lex_text_loop_ok fuel : forall r0 l, wf l -> (r0 <> 0 -> l_start l + 1 <= l_pos l) ->
  (Z.to_nat (ilen - l_pos l) < fuel)%nat ->
  okp (lex_text_loop inp ilen base fuel r0 l) (loop_post 24 l).
Proof.
  induction fuel as [|f IH]; intros r0 l Hw Hr Hf; [lia|]. unfold wfi, LexerStates.wf in Hw. cbn [lex_text_loop]. cbv zeta.
  destruct (r0 =? 0) eqn:Er0; cbn [negb andb]; cbv iota.
  all:   repeat (dest_hyps; first
    [ exec1
    | match goal with
      | |- okp (lex_text_loop _ _ _ _ _ _) _ =>
          eapply okp_weaken; [apply IH; [post | norm_bools; lsimpl; intros; fin | side]
                             | intros [? ?]; apply (loop_post_mono _ _ _ 24); lsimpl; side]
      end ]).
Qed.

Lemma lex_text_ok l : inv LText l -> okp (lex_text inp ilen base l) (step_post LText l).
Proof.
  intros (Hw & Hit & _). cbn [is_done] in Hit. eapply okp_weaken; [apply lex_text_loop_ok; [split; [exact Hw|exact Hit]|congruence|apply loop_fuel_ok; unfold LexerStates.wf in Hw; lia]|].
  intros p. apply (loop_post_step inp base LText). discriminate.
Qed.

End Text.
