(* Source tie, family 80-gotrans-registry, template/registry.go: Registry.LineNumber / ColNumber / Filename as the
   render-time error path uses them (Model/InterpSafety.v reg_line, reg_file; Model/Interp.v line_number), against the
   methods as gotrans translates them from today's source.  node.Position() enters the translation as the parameter
   m_node_Position (the AST node is immutable).  The guard keeps Go's int addition from wrapping (a template source
   below 2^62 bytes). *)
From Coq Require Import ZArith NArith Bool Lia ZifyBool ZifyN List.
From Soy Require Import Model.Bytes Model.Outcome Model.Ast Generated.Tables Model.Interp Model.InterpSafety Spec.ErrPos
  Proofs.SourceTieBase Proofs.SourceTieErrPos.
Import ListNotations.
Open Scope N_scope.

Lemma st_assoc_has {A} (k : bstr) (l : list (bstr * A)) :
  go_has_s k l = match assoc_s k l with Some _ => true | None => false end.
Proof. reflexivity. Qed.

(* LineNumber: 0 for an unknown template (log and return), the line of the position otherwise; a position beyond the
   text panics (slice bounds out of range) *)
Theorem reg_line_matches_source (reg : registry) (name : bstr) (pos : N) :
  (forall src, assoc_s name (r_sources reg) = Some src -> (Z.of_nat (length src) < 2 ^ 62)%Z) ->
  reg_line reg name pos =
  match src_template_Registry_LineNumber (Z.of_N pos) (r_sources reg) name with
  | Some l => Ok (Z.to_N l)
  | None => Crash e_slice
  end.
Proof.
  intros Hlen. unfold reg_line, src_template_Registry_LineNumber. autounfold with src_helpers.
  (* (a helper that looks the source up and cuts it, if the method has one, is opened by the line above) *)
  unfold go_lookup_s, go_has_s. cbv zeta.
  destruct (assoc_s name (r_sources reg)) as [src|] eqn:E; [|reflexivity].
  specialize (Hlen src eq_refl). cbn [negb]. unfold line_number.
  destruct (N.leb_spec pos (N.of_nat (length src))) as [Hp|Hp].
  - rewrite (go_slice_prefix src pos Hp). cbn [go_bind negb]. rewrite go_count_byte_nl.
    pose proof (count_nl_le (take (N.to_nat pos) src)) as H1.
    pose proof (st_take_length_le (N.to_nat pos) src) as H2.
    rewrite go_wrap_s_id; [f_equal; lia|lia|].
    change (2 ^ (64 - 1))%Z with 9223372036854775808%Z.
    change (2 ^ 62)%Z with 4611686018427387904%Z in Hlen. lia.
  - rewrite (go_slice_prefix_out src pos Hp). reflexivity.
Qed.

(* Filename: "" for an unknown template *)
Theorem reg_file_matches_source (reg : registry) (name : bstr) :
  reg_file reg name = src_template_Registry_Filename (r_files reg) name.
Proof.
  unfold reg_file, src_template_Registry_Filename, go_lookup_s, go_has_s. cbv zeta.
  destruct (assoc_s name (r_files reg)); reflexivity.
Qed.

(* ColNumber takes the same slice as LineNumber: it panics exactly when LineNumber does (the model's err_from_node keeps
   only that: "same slice as LineNumber") and answers 0 for an unknown template *)
Theorem reg_col_panics_like_line_matches_source (reg : registry) (name : bstr) (pos : N) :
  match src_template_Registry_ColNumber (Z.of_N pos) (r_sources reg) name,
        src_template_Registry_LineNumber (Z.of_N pos) (r_sources reg) name with
  | Some _, Some _ => True
  | None, None => True
  | _, _ => False
  end.
Proof.
  unfold src_template_Registry_ColNumber, src_template_Registry_LineNumber. autounfold with src_helpers.
  unfold go_lookup_s, go_has_s. cbv zeta.
  destruct (assoc_s name (r_sources reg)); cbn [negb go_bind]; [|exact I].
  destruct (go_slice _ 0%Z (Z.of_N pos)); cbn [negb go_bind]; exact I.
Qed.

(* Model/Interp.v's [render] computes rr_line through line_number on the recorded source of the failing template: the
   same function, for a registry that records [src] under [name] *)
Theorem line_number_matches_source (name src : bstr) (more : list (bstr * bstr)) (pos : N) :
  (Z.of_nat (length src) < 2 ^ 62)%Z ->
  line_number src pos =
  match src_template_Registry_LineNumber (Z.of_N pos) ((name, src) :: more) name with
  | Some l => Some (Z.to_N l)
  | None => None
  end.
Proof.
  intros Hlen.
  pose proof (reg_line_matches_source {| r_templates := []; r_sources := (name, src) :: more; r_files := [] |} name pos) as H.
  cbn [r_sources] in H. unfold reg_line in H. cbn [r_sources assoc_s] in H. rewrite st_bstr_eqb_refl in H.
  assert (Hg : forall s0 : bstr, Some src = Some s0 -> (Z.of_nat (length s0) < 2 ^ 62)%Z) by (intros s0 E; injection E as <-; exact Hlen).
  specialize (H Hg).
  destruct (src_template_Registry_LineNumber (Z.of_N pos) ((name, src) :: more) name) as [l|];
    destruct (line_number src pos); try discriminate; try reflexivity.
  injection H as ->. reflexivity.
Qed.
