(* The scanner on the text of a printed expression: composition of the token lemmas.

   [lexes P F txt ts Q]: from lexInsideTag with the cursor at txt ++ s, where the type of the last item
   sent satisfies P and what follows satisfies F, the machine reaches lexInsideTag with the cursor at s
   having sent exactly the items ts (types and texts, in order), and the type of the last item sent then
   satisfies Q.  P and Q carry the unary/binary decision for "-": an operand must start where the last
   item does not end a term, and ends with one that does. *)
From Soy Require Import Model.Bytes Model.Utf8 Model.Outcome Model.Token Generated.Tables Model.Lexer
  Proofs.Utf8Proofs Proofs.LexerPrim Proofs.LexerStates Proofs.LexTokens Proofs.LexNumbers Proofs.LexStrings.
From Coq Require Import ZifyBool ZifyNat ZifyN Lia.
Open Scope Z_scope.

(* items sent between two lexer states, as (type, text) pairs in order *)
Inductive sends : list (N * bstr) -> lx -> lx -> Prop :=
| sends_nil l l' : unsent l l' -> sends [] l l'
| sends_cons t w ts l l1 l' : sent t w l l1 -> sends ts l1 l' -> sends ((t, w) :: ts) l l'.

Lemma unsent_refl l : unsent l l. Proof. repeat split. Qed.
Lemma unsent_trans l l1 l2 : unsent l l1 -> unsent l1 l2 -> unsent l l2.
Proof. unfold unsent. intros (A & B & C) (A' & B' & C'). repeat split; congruence. Qed.

Lemma sent_unsent_l t w l l0 l1 : unsent l l0 -> sent t w l0 l1 -> sent t w l l1.
Proof. intros (A & B & C) (p & H1 & H2 & H3). exists p. repeat split; congruence. Qed.
Lemma sent_unsent_r t w l l1 l2 : sent t w l l1 -> unsent l1 l2 -> sent t w l l2.
Proof. intros (p & H1 & H2 & H3) (A & B & C). exists p. repeat split; congruence. Qed.

Lemma sends_unsent_l ts l l0 l' : unsent l l0 -> sends ts l0 l' -> sends ts l l'.
Proof.
  intros Hu Hs. destruct Hs as [l0 l' Hu'|t w ts l0 l1 l' Hsent Hs].
  - constructor. eapply unsent_trans; eassumption.
  - econstructor; [eapply sent_unsent_l; eassumption|exact Hs].
Qed.

Lemma sends_unsent_r ts : forall l l1 l', sends ts l l1 -> unsent l1 l' -> sends ts l l'.
Proof.
  induction ts as [|[t w] ts IH]; intros l l1 l' Hs Hu; inversion Hs as [? ? Hu0|? ? ? ? l2 ? Hsent Hrest]; subst.
  - constructor. eapply unsent_trans; eassumption.
  - econstructor; [exact Hsent|]. eapply IH; eassumption.
Qed.

Lemma sends_app ts1 : forall ts2 l l1 l', sends ts1 l l1 -> sends ts2 l1 l' -> sends (ts1 ++ ts2) l l'.
Proof.
  induction ts1 as [|[t w] ts1 IH]; intros ts2 l l1 l' H1 H2; inversion H1 as [? ? Hu0|? ? ? ? l2 ? Hsent Hrest]; subst; cbn [app].
  - eapply sends_unsent_l; eassumption.
  - econstructor; [exact Hsent|]. eapply IH; eassumption.
Qed.

Lemma sends_one t w l l' : sent t w l l' -> sends [(t, w)] l l'.
Proof. intros H. econstructor; [exact H|]. constructor. apply unsent_refl. Qed.

(* what sends says about the item list: the items sent are the new head of l_out, in reverse *)
Lemma sends_out ts : forall l l', sends ts l l' ->
  exists items, l_out l' = rev items ++ l_out l /\ map (fun it => (t_typ it, t_val it)) items = ts /\ l_dd l' = l_dd l.
Proof.
  induction ts as [|[t w] ts IH]; intros l l' Hs; inversion Hs as [? ? Hu0|? ? ? ? l2 ? Hsent Hrest]; subst.
  - exists []. destruct Hu0 as (A & B & C). cbn. auto.
  - destruct Hsent as (p & A & B & C). destruct (IH _ _ Hrest) as (items & Ho & Hm & Hd).
    exists ({| t_typ := t; t_pos := p; t_val := w |} :: items). cbn [rev map]. rewrite Ho, A, <- app_assoc. cbn. rewrite Hm. split; [reflexivity|]. split; [reflexivity|congruence].
Qed.

Section Lexes.
Variable uni_letter uni_digit : Z -> bool.
Variable inp : bstr.
Variable base : Z.
Notation steps := (steps uni_letter uni_digit inp base).
Notation span := (span inp).

Definition last_typ (l : lx) : N := t_typ (l_last l).

Definition lexes (P : N -> Prop) (F : bstr -> Prop) (txt : bstr) (ts : list (N * bstr)) (Q : N -> Prop) : Prop :=
  forall l s, span l [] (txt ++ s) -> P (last_typ l) -> F s ->
  exists k l', steps k LInsideTag l = Ok (LInsideTag, l') /\ span l' [] s /\ sends ts l l' /\ Q (last_typ l').

Lemma lexes_seq P F1 t1 ts1 Q1 P2 F2 t2 ts2 Q2 :
  lexes P F1 t1 ts1 Q1 -> lexes P2 F2 t2 ts2 Q2 ->
  (forall s, F2 s -> F1 (t2 ++ s)) -> (forall ty, Q1 ty -> P2 ty) ->
  lexes P F2 (t1 ++ t2) (ts1 ++ ts2) Q2.
Proof.
  intros H1 H2 HF HQ l s Hs HP HF2. rewrite <- app_assoc in Hs.
  destruct (H1 l (t2 ++ s) Hs HP (HF s HF2)) as (k1 & l1 & Hst1 & Hs1 & Hse1 & HQ1).
  destruct (H2 l1 s Hs1 (HQ _ HQ1) HF2) as (k2 & l2 & Hst2 & Hs2 & Hse2 & HQ2).
  exists (k1 + k2)%nat, l2. split; [rewrite (steps_app _ _ _ _ k1 k2 _ _ _ _ Hst1); exact Hst2|].
  split; [exact Hs2|]. split; [eapply sends_app; eassumption|exact HQ2].
Qed.

Lemma lexes_weaken (P P' : N -> Prop) (F F' : bstr -> Prop) txt ts (Q Q' : N -> Prop) :
  lexes P F txt ts Q -> (forall ty, P' ty -> P ty) -> (forall s, F' s -> F s) -> (forall ty, Q ty -> Q' ty) ->
  lexes P' F' txt ts Q'.
Proof.
  intros H HP HF HQ l s Hs HP' HF'. destruct (H l s Hs (HP _ HP') (HF _ HF')) as (k & l' & A & B & C & D).
  exists k, l'. auto.
Qed.

End Lexes.

(* ---------- the token lemmas as [lexes] facts ---------- *)

Definition opnd (ty : N) : Prop := ends_term ty = false.     (* an operand may start here *)
Definition term (ty : N) : Prop := ends_term ty = true.      (* the last item ends a term *)
Definition anyty (ty : N) : Prop := True.
Definition anys (s : bstr) : Prop := True.

(* what follows a printed (sub)expression: end of input, a space, ) ] , : | } or the "/" of a self-closing tag's "/}" *)
Definition fexp (s : bstr) : Prop :=
  match s with [] => True | c :: _ => (c = 32 \/ c = 41 \/ c = 93 \/ c = 44 \/ c = 58 \/ c = 124 \/ c = 125 \/ c = 47)%N end.

Lemma fexp_stops s : fexp s -> stops s.
Proof. destruct s as [|c s]; cbn; [auto|]. intros H. unfold alnum_b, letter_b, digit_b. lia. Qed.

Section Wrap.
Variable uni_letter uni_digit : Z -> bool.
Hypothesis letter_ascii : forall c, (c < 128)%N -> uni_letter (Z.of_N c) = ((65 <=? c) && (c <=? 90) || (97 <=? c) && (c <=? 122))%N.
Hypothesis digit_ascii : forall c, (c < 128)%N -> uni_digit (Z.of_N c) = digit_b c.
Hypothesis letter_eof : uni_letter (-1) = false.
Hypothesis digit_eof : uni_digit (-1) = false.
Variable inp : bstr.
Variable base : Z.
Notation steps := (steps uni_letter uni_digit inp base).
Notation span := (span inp).
Notation lexes := (lexes uni_letter uni_digit inp base).

(* every lemma of this section takes the four hypotheses, whether its proof needs them or not *)
Definition HYPS := conj letter_ascii (conj digit_ascii (conj letter_eof digit_eof)).

Lemma sent_last t w l l' : sent t w l l' -> last_typ l' = t.
Proof. intros (p & _ & H & _). unfold last_typ. rewrite H. reflexivity. Qed.

(* adapter: a one-item lemma gives a [lexes] fact *)
Lemma lexes_tok (P : N -> Prop) (F : bstr -> Prop) w t :
  (forall l s, span l [] (w ++ s) -> P (last_typ l) -> F s ->
     exists k l', steps k LInsideTag l = Ok (LInsideTag, l') /\ span l' [] s /\ sent t w l l') ->
  lexes P F w [(t, w)] (eq t).
Proof.
  pose proof HYPS as Hyps.
  intros H l s Hs HP HF. destruct (H l s Hs HP HF) as (k & l' & A & B & C).
  exists k, l'. split; [exact A|]. split; [exact B|]. split; [apply sends_one; exact C|]. symmetry. eapply sent_last; exact C.
Qed.

Lemma lexes_space P : lexes P anys [32%N] [] P.
Proof.
  pose proof HYPS as Hyps.
  intros l s Hs HP _. cbn [app] in Hs. destruct (lex_space uni_letter uni_digit inp base l 32%N s Hs ltac:(reflexivity)) as (l' & A & B & C).
  exists 1%nat, l'. split; [exact A|]. split; [exact B|]. split; [constructor; exact C|].
  destruct C as (_ & C & _). unfold last_typ. rewrite C. exact HP.
Qed.

Lemma lexes_punct c t : assoc c punct_table = Some t -> lexes anyty anys [c] [(t, [c])] (eq t).
Proof.
  pose proof HYPS as Hyps.
  intros Ht. apply lexes_tok. intros l s Hs _ _. cbn [app] in Hs.
  destruct (lex_punct uni_letter uni_digit inp base l c t s Hs Ht) as (l' & A & B & C). exists 1%nat, l'. auto.
Qed.

Lemma lexes_word c0 cs : (c0 < 128)%N -> letter_b c0 = true -> forallb (fun c => (c <? 128)%N && alnum_b c) cs = true ->
  word_type (c0 :: cs) <> itemLiteral -> word_type (c0 :: cs) <> itemCss ->
  lexes anyty stops (c0 :: cs) [(word_type (c0 :: cs), c0 :: cs)] (eq (word_type (c0 :: cs))).
Proof.
  pose proof HYPS as Hyps.
  intros H0 H1 H2 H3 H4. apply lexes_tok. intros l s Hs _ Hst. cbn [app] in Hs.
  destruct (lex_word uni_letter uni_digit letter_ascii digit_ascii letter_eof digit_eof inp base l c0 cs s Hs H0 H1 H2 Hst H3 H4) as (l' & A & B & C).
  exists 2%nat, l'. auto.
Qed.

Definition alnums (cs : bstr) : Prop := forallb (fun c => (c <? 128)%N && alnum_b c) cs = true.

Lemma lexes_dollar cs : alnums cs -> lexes anyty stops (36%N :: cs) [(itemDollarIdent, 36%N :: cs)] (eq itemDollarIdent).
Proof.
  pose proof HYPS as Hyps.
  intros H. apply lexes_tok. intros l s Hs _ Hst. cbn [app] in Hs.
  destruct (lex_dollar uni_letter uni_digit letter_ascii digit_ascii letter_eof digit_eof inp base l cs s Hs H Hst) as (l' & A & B & C).
  exists 2%nat, l'. auto.
Qed.

Lemma lexes_dot cs (dig : bool) : alnums cs ->
  lexes anyty (fun s => stops s /\ head_digit (cs ++ s) = dig) (46%N :: cs)
        [(if dig then itemDotIndex else itemDotIdent, 46%N :: cs)] (eq (if dig then itemDotIndex else itemDotIdent)).
Proof.
  pose proof HYPS as Hyps.
  intros H. apply lexes_tok. intros l s Hs _ [Hst Hd]. cbn [app] in Hs.
  destruct (lex_dot uni_letter uni_digit letter_ascii digit_ascii letter_eof digit_eof inp base l cs s Hs H Hst) as (l' & A & B & C).
  rewrite Hd in C. exists 2%nat, l'. auto.
Qed.

Lemma lexes_qdot cs (dig : bool) : alnums cs ->
  lexes anyty (fun s => stops s /\ head_digit (cs ++ s) = dig) (63%N :: 46%N :: cs)
        [(if dig then itemQuestionDotIndex else itemQuestionDotIdent, 63%N :: 46%N :: cs)]
        (eq (if dig then itemQuestionDotIndex else itemQuestionDotIdent)).
Proof.
  pose proof HYPS as Hyps.
  intros H. apply lexes_tok. intros l s Hs _ [Hst Hd]. cbn [app] in Hs.
  destruct (lex_qdot uni_letter uni_digit letter_ascii digit_ascii letter_eof digit_eof inp base l cs s Hs H Hst) as (l' & A & B & C).
  rewrite Hd in C. exists 2%nat, l'. auto.
Qed.

Lemma lexes_qkey : lexes anyty anys [63; 91]%N [(itemQuestionKey, [63; 91]%N)] (eq itemQuestionKey).
Proof.
  pose proof HYPS as Hyps.
  apply lexes_tok. intros l s Hs _ _. cbn [app] in Hs.
  destruct (lex_q2 uni_letter uni_digit inp base l 91%N itemQuestionKey s Hs ltac:(left; split; reflexivity)) as (l' & A & B & C).
  exists 1%nat, l'. auto.
Qed.

Lemma lexes_elvis : lexes anyty anys [63; 58]%N [(itemElvis, [63; 58]%N)] (eq itemElvis).
Proof.
  pose proof HYPS as Hyps.
  apply lexes_tok. intros l s Hs _ _. cbn [app] in Hs.
  destruct (lex_q2 uni_letter uni_digit inp base l 58%N itemElvis s Hs ltac:(right; split; reflexivity)) as (l' & A & B & C).
  exists 1%nat, l'. auto.
Qed.

(* "?" before a space *)
Lemma lexes_ternif : lexes anyty (fun s => match s with 32%N :: _ => True | _ => False end) [63%N] [(itemTernIf, [63%N])] (eq itemTernIf).
Proof.
  pose proof HYPS as Hyps.
  apply lexes_tok. intros l s Hs _ HF. cbn [app] in Hs. destruct s as [|c s]; [contradiction|].
  destruct (N.eqb_spec c 32) as [->|]; [|destruct c as [|p]; try contradiction; do 6 (destruct p as [p|p|]; try contradiction)].
  destruct (lex_ternif uni_letter uni_digit inp base l (32%N :: s) Hs ltac:(cbn; lia) ltac:(repeat split; lia)) as (l' & A & B & C).
  exists 1%nat, l'. auto.
Qed.

Lemma lexes_sub : lexes term anys [45%N] [(itemSub, [45%N])] (eq itemSub).
Proof.
  pose proof HYPS as Hyps.
  apply lexes_tok. intros l s Hs HP _. cbn [app] in Hs.
  destruct (lex_sub uni_letter uni_digit inp base l s Hs HP) as (l' & A & B & C). exists 1%nat, l'. auto.
Qed.

Lemma lexes_negate : lexes opnd (fun s => head_ascii s /\ head_digit s = false) [45%N] [(itemNegate, [45%N])] (eq itemNegate).
Proof.
  pose proof HYPS as Hyps.
  apply lexes_tok. intros l s Hs HP [Ha Hd]. cbn [app] in Hs.
  destruct (lex_negate uni_letter uni_digit inp base l s Hs HP Ha Hd) as (l' & A & B & C). exists 1%nat, l'. auto.
Qed.

(* operators followed by a space *)
Definition sp_follows (s : bstr) : Prop := match s with 32%N :: _ => True | _ => False end.
Lemma sp_follows_inv s : sp_follows s -> exists s', s = 32%N :: s'.
Proof.
  pose proof HYPS as Hyps.
  destruct s as [|c s]; [contradiction|]. intros H. destruct (N.eqb_spec c 32) as [->|]; [eauto|].
  exfalso. destruct c as [|p]; try contradiction. do 6 (destruct p as [p|p|]; try contradiction).
Qed.

Lemma lexes_div : lexes anyty sp_follows [47%N] [(itemDiv, [47%N])] (eq itemDiv).
Proof.
  pose proof HYPS as Hyps.
  apply lexes_tok. intros l s Hs _ HF. destruct (sp_follows_inv s HF) as (s' & ->). cbn [app] in Hs.
  destruct (lex_div uni_letter uni_digit inp base l _ Hs ltac:(cbn; lia) ltac:(cbn; lia)) as (l' & A & B & C). exists 1%nat, l'. auto.
Qed.

Lemma lexes_cmp1 c t : (c = 60 /\ t = itemLt \/ c = 62 /\ t = itemGt)%N -> lexes anyty sp_follows [c] [(t, [c])] (eq t).
Proof.
  pose proof HYPS as Hyps.
  intros Hc. apply lexes_tok. intros l s Hs _ HF. destruct (sp_follows_inv s HF) as (s' & ->). cbn [app] in Hs.
  destruct (lex_cmp1 uni_letter uni_digit inp base l c t _ Hs Hc ltac:(cbn; lia) ltac:(cbn; lia)) as (l' & A & B & C). exists 1%nat, l'. auto.
Qed.

Lemma lexes_cmp2 c t : (c = 60 /\ t = itemLte \/ c = 62 /\ t = itemGte \/ c = 33 /\ t = itemNotEq)%N ->
  lexes anyty anys [c; 61%N] [(t, [c; 61%N])] (eq t).
Proof.
  pose proof HYPS as Hyps.
  intros Hc. apply lexes_tok. intros l s Hs _ _. cbn [app] in Hs.
  destruct (lex_cmp2 uni_letter uni_digit inp base l c t _ Hs Hc) as (l' & A & B & C). exists 1%nat, l'. auto.
Qed.

Lemma lexes_eqeq : lexes anyty anys [61; 61]%N [(itemEq, [61; 61]%N)] (eq itemEq).
Proof.
  pose proof HYPS as Hyps.
  apply lexes_tok. intros l s Hs _ _. cbn [app] in Hs.
  destruct (lex_eqeq uni_letter uni_digit inp base l _ Hs) as (l' & A & B & C). exists 1%nat, l'. auto.
Qed.

(* numbers and strings *)
Lemma lexes_number hs ip frac ex : num_ok ip frac ex ->
  lexes (fun ty => hs = true -> opnd ty) (num_follow frac ex) (num_text hs ip frac ex)
        [(num_type frac ex, num_text hs ip frac ex)] (eq (num_type frac ex)).
Proof.
  pose proof HYPS as Hyps.
  intros Hok. apply lexes_tok. intros l s Hs HP HF. destruct hs.
  - destruct (lex_number_neg uni_letter uni_digit letter_ascii digit_ascii letter_eof digit_eof inp base l ip frac ex s Hs (HP eq_refl) Hok HF) as (l' & A & B & C).
    exists 2%nat, l'. auto.
  - destruct (lex_number_pos uni_letter uni_digit letter_ascii digit_ascii letter_eof digit_eof inp base l ip frac ex s Hs Hok HF) as (l' & A & B & C).
    exists 2%nat, l'. auto.
Qed.

Lemma lexes_string rs : Forall valid_scalar rs -> str_body_ok 39 rs = true ->
  lexes anyty anys (39%N :: string_of_runes rs ++ [39%N]) [(itemString, 39%N :: string_of_runes rs ++ [39%N])] (eq itemString).
Proof.
  pose proof HYPS as Hyps.
  intros Hv Hok. apply lexes_tok. intros l s Hs _ _. cbn [app] in Hs. rewrite <- app_assoc in Hs. cbn [app] in Hs.
  destruct (lex_string_tok uni_letter uni_digit inp base l 39%N rs s ltac:(left; reflexivity) Hs Hv Hok) as (l' & A & B & C).
  exists 2%nat, l'. auto.
Qed.

End Wrap.
