(* C16, JavaScript counterparts: theorems about the models of the soyutils.js
   helpers (Model/JsDirectives.v, over UTF-16 code units), of the same shape as
   the theorems about the Go directives (Proofs/CodecProofs.v). *)
From Coq Require Import Lia ZifyN ZifyNat ZifyBool.
From Soy Require Import Model.Bytes Model.Utf8 Model.Outcome Model.Escape Model.Directives Model.JsEscape Model.JsDirectives
  Spec.Html Spec.Codec Spec.JsUnits Proofs.Utf8Proofs Proofs.CodecProofs.
Open Scope N_scope.

(* ================= soy.$$escapeJsString ================= *)

Definition u_piece (c : N) : ustr := match u_js_escape1 c with Some e => e | None => [c] end.

Lemma u_escape_js_cons c r : u_escape_js_string (c :: r) = u_piece c ++ u_escape_js_string r.
Proof. cbn [u_escape_js_string]. unfold u_piece. destruct (u_js_escape1 c); reflexivity. Qed.

Lemma jsu_piece_ok q c X : q = 39 \/ q = 34 ->
  jsu_read_aux q 0 (u_piece c ++ X) = option_map (cons c) (jsu_read_aux q 0 X).
Proof.
  intros Hq. unfold u_piece, u_js_escape1.
  repeat match goal with
         | |- context[N.eqb c ?k] =>
             destruct (N.eqb_spec c k) as [->|?];
             [destruct Hq as [-> | ->]; cbn; reflexivity|]
         end.
  cbn [orb app jsu_read_aux jsu_tok]. unfold jsu_line_terminator.
  repeat match goal with |- context[N.eqb c ?k] => destruct (N.eqb_spec c k); [destruct Hq; lia|] end.
  cbn [orb Nat.pred]. destruct X; reflexivity.
Qed.

(* the escaped text between single or double quotes denotes the value, for EVERY code-unit string *)
Theorem u_jsstr_roundtrip q s : q = 39 \/ q = 34 -> jsu_read q (u_escape_js_string s) = Some s.
Proof.
  intros Hq. unfold jsu_read. induction s as [|c r IH]; [reflexivity|].
  rewrite u_escape_js_cons, jsu_piece_ok by exact Hq. rewrite IH. reflexivity.
Qed.

(* no raw quote, backslash-free line terminator, < > & = in the escaped text *)
Definition u_js_inert (c : N) : Prop :=
  c <> 10 /\ c <> 13 /\ c <> 8232 /\ c <> 8233 /\ c <> 60 /\ c <> 62 /\ c <> 38 /\ c <> 61 /\ c <> 39 /\ c <> 34.

Lemma hexdigit_lc_u_inert n : n < 16 -> u_js_inert (hexdigit_lc n).
Proof. intros H. unfold u_js_inert, hexdigit_lc. brk; lia. Qed.

Theorem u_jsstr_inert s : Forall u_js_inert (u_escape_js_string s).
Proof.
  induction s as [|c r IH]; [constructor|]. rewrite u_escape_js_cons. apply Forall_app. split; [|exact IH].
  unfold u_piece, u_js_escape1, hex2_lc.
  repeat match goal with
         | |- context[N.eqb c ?k] =>
             destruct (N.eqb_spec c k) as [->|?];
             [match goal with |- Forall _ ?l => let v := eval vm_compute in l in change l with v end;
              repeat constructor; unfold u_js_inert; lia|]
         end.
  cbn [orb]. constructor; [|constructor]. unfold u_js_inert. lia.
Qed.

(* ================= soy.$$truncate ================= *)

Theorem u_truncate_fits s n e : (Z.of_nat (length s) <= n)%Z -> u_truncate s n e = s.
Proof. intros H. unfold u_truncate. destruct (Z.of_nat (length s) <=? n)%Z eqn:E; [reflexivity|lia]. Qed.

(* otherwise: a prefix (plus "..." exactly when the ellipsis applies), never longer than the limit
   (in code units), and never cut between the two halves of a surrogate pair *)
Theorem u_truncate_cut s n e : (n < Z.of_nat (length s))%Z ->
  exists k : nat,
    u_truncate s n e = take k s ++ (if trunc_ell n e then dots else [])
    /\ (k <= length s)%nat
    /\ (Z.of_nat k <= Z.max 0 (trunc_cut n e))%Z
    /\ (0 <= n -> Z.of_nat (length (u_truncate s n e)) <= n)%Z
    /\ (u_high_at s (Z.of_nat k - 1) && u_low_at s (Z.of_nat k) = false).
Proof.
  intros Hlen. unfold u_truncate. destruct (Z.of_nat (length s) <=? n)%Z eqn:E; [lia|].
  assert ((if e then if (n >? 3)%Z then ((n - 3)%Z, true) else (n, false) else (n, false)) = (trunc_cut n e, trunc_ell n e)) as ->.
  { unfold trunc_cut, trunc_ell. destruct e; cbn [andb]; [destruct (n >? 3)%Z|]; reflexivity. }
  set (c := trunc_cut n e). set (el := trunc_ell n e).
  assert (c <= n)%Z as Hcn by (subst c; unfold trunc_cut; destruct (e && (n >? 3)%Z); lia).
  assert (el = true -> c = n - 3 /\ 3 < n)%Z as Hel by (subst c el; unfold trunc_cut, trunc_ell; destruct (e && (n >? 3)%Z) eqn:Ee; [lia|discriminate]).
  destruct (u_high_at s (c - 1) && u_low_at s c) eqn:Eadj.
  - (* the cut moves back by one unit *)
    assert (0 < c)%Z as Hc0.
    { apply andb_true_iff in Eadj. destruct Eadj as [Eh _]. unfold u_high_at, u_at in Eh. destruct (c - 1 <? 0)%Z eqn:El; [discriminate|lia]. }
    exists (Z.to_nat (c - 1)). split; [reflexivity|]. split; [lia|]. split; [lia|]. split.
    + intros Hn. rewrite app_length, take_length by lia. destruct el; cbn [length dots]; [specialize (Hel eq_refl)|]; lia.
    + rewrite Z2Nat.id by lia. apply andb_true_iff in Eadj. destruct Eadj as [Eh _].
      (* the unit at c-1 is a high surrogate, hence not a low one *)
      unfold u_high_at, u_low_at in *. destruct (u_at s (c - 1)) as [x|]; [|discriminate].
      unfold u_is_high, u_is_low, in_range in *. rewrite andb_false_iff. right. lia.
  - destruct (Z.ltb_spec c 0) as [Hneg|Hpos].
    + exists 0%nat. replace (Z.to_nat c) with 0%nat by lia. split; [reflexivity|]. split; [lia|]. split; [lia|]. split.
      * intros Hn. cbn [take app]. destruct el; [specialize (Hel eq_refl); lia|cbn; lia].
      * reflexivity.
    + exists (Z.to_nat c). split; [reflexivity|]. split; [lia|]. split; [lia|]. split.
      * intros Hn. rewrite app_length, take_length by lia. destruct el; cbn [length dots]; [specialize (Hel eq_refl)|]; lia.
      * rewrite Z2Nat.id by lia. exact Eadj.
Qed.

(* ================= soy.$$escapeHtml, changeNewlineToBr, insertWordBreaks ================= *)

Lemma u_html_escape1_cases c :
  (u_html_escape1 c = None /\ c <> 60 /\ c <> 0 /\ c <> 34 /\ c <> 39 /\ c <> 38 /\ c <> 62) \/
  (exists e, u_html_escape1 c = Some e /\ Forall (fun d => d <> 60 /\ d <> 10 /\ d <> 13) e /\ c <> 10 /\ c <> 13).
Proof.
  unfold u_html_escape1.
  destruct (N.eqb_spec c 0); [right; eexists; split; [reflexivity|]; repeat constructor; lia|].
  destruct (N.eqb_spec c 34); [right; eexists; split; [reflexivity|]; repeat constructor; lia|].
  destruct (N.eqb_spec c 38); [right; eexists; split; [reflexivity|]; repeat constructor; lia|].
  destruct (N.eqb_spec c 39); [right; eexists; split; [reflexivity|]; repeat constructor; lia|].
  destruct (N.eqb_spec c 60); [right; eexists; split; [reflexivity|]; repeat constructor; lia|].
  destruct (N.eqb_spec c 62); [right; eexists; split; [reflexivity|]; repeat constructor; lia|].
  left. repeat split; assumption.
Qed.

Lemma u_esc1_no_lt c : Forall (fun d => d <> 60) (u_esc1 c).
Proof.
  unfold u_esc1. destruct (u_html_escape1_cases c) as [(E & H & _)|(e & E & H & _)]; rewrite E.
  - repeat constructor. exact H.
  - eapply Forall_impl; [|exact H]. cbn. tauto.
Qed.

Lemma u_escape_html_no_lt s : Forall (fun d => d <> 60) (u_escape_html s).
Proof. induction s as [|c r IH]; [constructor|]. cbn [u_escape_html]. apply Forall_app. split; [apply u_esc1_no_lt|exact IH]. Qed.

Lemma remove_newlines_u_escape s : remove_newlines (u_escape_html s) = u_escape_html (remove_newlines s).
Proof.
  induction s as [|c r IH]; [reflexivity|].
  cbn [remove_newlines]. destruct (N.eqb_spec c 10) as [->|H10].
  { cbn [orb]. rewrite <- IH. reflexivity. }
  destruct (N.eqb_spec c 13) as [->|H13].
  { cbn [orb]. rewrite <- IH. reflexivity. }
  cbn [orb u_escape_html]. rewrite <- IH. apply remove_newlines_app_nonl.
  unfold u_esc1. destruct (u_html_escape1_cases c) as [(E & _)|(e & E & H & _)]; rewrite E.
  - repeat constructor; assumption.
  - eapply Forall_impl; [|exact H]. cbn. tauto.
Qed.

(* nothing but line breaks changes in the escaped text *)
Theorem u_br_only s : remove_tok br (u_change_newline_to_br s) = u_escape_html (remove_newlines s).
Proof.
  unfold u_change_newline_to_br, u_newline_to_br.
  rewrite (nl2br_only_aux (length (u_escape_html s))); [|lia|apply u_escape_html_no_lt].
  apply remove_newlines_u_escape.
Qed.

(* the shim on ANY text without a tag open: nothing but <wbr> is added *)
Lemma u_iwb_only_aux maxc t : Forall (fun d => d <> 60) t ->
  forall intag inent n, remove_tok wbr (u_iwb_aux maxc intag inent n t) = t.
Proof.
  induction 1 as [|c r Hc Hr IH]; intros intag inent n; [reflexivity|].
  cbn [u_iwb_aux].
  set (brk := (n >=? maxc)%Z && negb (c =? 32) && negb (u_is_low c)).
  destruct (if intag then _ else _) as [[a1 a2] a3].
  destruct brk.
  - unfold wbr at 1 2. rewrite remove_tok_tok. rewrite remove_tok_other by exact Hc. fold wbr. rewrite IH. reflexivity.
  - cbn [app]. unfold wbr. rewrite remove_tok_other by exact Hc. fold wbr. rewrite IH. reflexivity.
Qed.

(* nothing but break opportunities changes in the escaped text *)
Theorem u_wbr_only s n : remove_tok wbr (u_insert_word_breaks s n) = u_escape_html s.
Proof. unfold u_insert_word_breaks, u_word_breaks. apply u_iwb_only_aux, u_escape_html_no_lt. Qed.

(* ================= soy.$$escapeUri ================= *)

Lemma pct_decode_bytes bs : forall rest, Forall (fun c => c < 256) bs ->
  pct_decode (pct_bytes bs ++ rest) = option_map (app bs) (pct_decode rest).
Proof.
  induction bs as [|c r IH]; intros rest H.
  - cbn [pct_bytes app]. destruct (pct_decode rest); reflexivity.
  - inversion H as [|? ? Hc Hr]; subst. cbn [pct_bytes]. unfold pct_byte. rewrite <- app_assoc. cbn [app pct_decode].
    change (37 =? 37) with true. cbv iota. rewrite hexval2_hexdigit by exact Hc. rewrite IH by exact Hr.
    destruct (pct_decode rest); reflexivity.
Qed.

Definition u_uri_byte (c : N) : Prop := uri_safe_byte c = true \/ c = 33 \/ c = 42.

Lemma pct_bytes_safe bs : Forall (fun c => c < 256) bs -> Forall u_uri_byte (pct_bytes bs).
Proof.
  induction 1 as [|c r Hc Hr IH]; [constructor|]. cbn [pct_bytes]. unfold pct_byte. cbn [app].
  constructor; [left; reflexivity|]. constructor; [left; apply hexdigit_safe; lia|]. constructor; [left; apply hexdigit_safe; lia|]. exact IH.
Qed.

Lemma encode_rune_bytes r : valid_scalar r -> Forall (fun c => c < 256) (encode_rune r).
Proof. intros Hv. destruct (encode_rune_shape r Hv) as (c0 & tl & -> & _ & _ & _ & _ & _ & H0 & Htl). constructor; assumption. Qed.

(* the output is made of A-Z a-z 0-9 - _ . ~ % (and ! * that encodeURIComponent leaves), and query-decodes to
   the UTF-8 form of the value; the helper throws exactly when a surrogate is unpaired *)
Theorem u_uri_roundtrip : forall n s, (length s <= n)%nat -> Forall (fun c => c < 65536) s ->
  match u_escape_uri s with
  | Ok out => exists bs, units_utf8 s = Some bs /\ pct_decode out = Some bs /\ Forall u_uri_byte out
  | Err _ => units_utf8 s = None
  | _ => False
  end.
Proof.
  induction n as [|n IH]; intros s Hlen Hu.
  - destruct s; [|cbn in Hlen; lia]. cbn. exists []. repeat split. constructor.
  - destruct s as [|c r]; [cbn; exists []; repeat split; constructor|].
    cbn [length] in Hlen. inversion Hu as [|? ? Hc Hr]; subst.
    cbn [u_escape_uri units_utf8].
    destruct (uri_unescaped c) eqn:Eun.
    + (* an unescaped ASCII character *)
      assert (c < 128 /\ u_is_low c = false /\ u_is_high c = false) as (Hc128 & -> & ->).
      { unfold uri_unescaped, in_range, mem in Eun. cbn [existsb] in Eun. unfold u_is_low, u_is_high, in_range. lia. }
      specialize (IH r ltac:(lia) Hr). destruct (u_escape_uri r) as [out| | | | |]; try contradiction.
      * destruct IH as (bs & -> & Hd & Hs). cbn [bind option_map]. rewrite encode_rune_ascii by exact Hc128.
        exists (c :: bs). split; [reflexivity|].
        destruct ((c =? 39) || (c =? 40) || (c =? 41)) eqn:Em.
        -- cbn [app pct_decode]. change (37 =? 37) with true. cbv iota. rewrite hexval2_hexdigit_lc by lia. rewrite Hd. split; [reflexivity|].
           constructor; [left; reflexivity|]. unfold u_uri_byte, uri_safe_byte, hexdigit_lc, in_range, mem. cbn [existsb].
           constructor; [left; brk; lia|]. constructor; [left; brk; lia|]. exact Hs.
        -- cbn [app pct_decode]. unfold uri_unescaped, in_range, mem in Eun. cbn [existsb] in Eun.
           destruct (N.eqb_spec c 37); [lia|]. destruct (N.eqb_spec c 43); [lia|]. rewrite Hd. split; [reflexivity|].
           constructor; [|exact Hs]. unfold u_uri_byte, uri_safe_byte, in_range, mem. cbn [existsb]. lia.
      * cbn [bind]. rewrite IH. reflexivity.
    + destruct (u_is_low c) eqn:Elo; [reflexivity|].
      destruct (u_is_high c) eqn:Ehi.
      * destruct r as [|l r2]; [reflexivity|]. destruct (u_is_low l) eqn:El; [|reflexivity].
        inversion Hr as [|? ? Hl Hr2]; subst. cbn [length] in Hlen.
        specialize (IH r2 ltac:(lia) Hr2).
        set (cp := 65536 + (c - 55296) * 1024 + (l - 56320)).
        assert (valid_scalar cp) as Hv by (unfold valid_scalar; subst cp; unfold u_is_high, u_is_low, in_range in *; lia).
        destruct (u_escape_uri r2) as [out| | | | |]; try contradiction.
        -- destruct IH as (bs & -> & Hd & Hs). cbn [bind option_map]. exists (encode_rune cp ++ bs). split; [reflexivity|].
           rewrite pct_decode_bytes by (apply encode_rune_bytes, Hv). rewrite Hd. split; [reflexivity|].
           apply Forall_app. split; [apply pct_bytes_safe, encode_rune_bytes, Hv|exact Hs].
        -- cbn [bind]. rewrite IH. reflexivity.
      * assert (valid_scalar c) as Hv by (unfold valid_scalar; unfold u_is_high, u_is_low, in_range in *; lia).
        specialize (IH r ltac:(lia) Hr). destruct (u_escape_uri r) as [out| | | | |]; try contradiction.
        -- destruct IH as (bs & -> & Hd & Hs). cbn [bind option_map]. exists (encode_rune c ++ bs). split; [reflexivity|].
           rewrite pct_decode_bytes by (apply encode_rune_bytes, Hv). rewrite Hd. split; [reflexivity|].
           apply Forall_app. split; [apply pct_bytes_safe, encode_rune_bytes, Hv|exact Hs].
        -- cbn [bind]. rewrite IH. reflexivity.
Qed.

(* ---- no <wbr> inside a character reference (limit >= 1): the output of the generated code's
   insertWordBreaks(escapeHtml(x), n) is a concatenation of units, each <wbr> or the whole escaped image of
   one code unit of x ---- *)
Definition u_iwb_unit (u : ustr) : Prop := u = wbr \/ exists c, u = u_esc1 c.

(* the body of a reference written by soy.$$escapeHtml: between & and ; *)
Definition ent_body_char (c : N) : Prop := c <> 59 /\ c <> 60 /\ c <> 32 /\ u_is_low c = false.

Lemma u_iwb_in_entity maxc n body : forall rest, (n < maxc)%Z -> Forall ent_body_char body ->
  u_iwb_aux maxc false true n (body ++ 59 :: rest) = body ++ 59 :: u_iwb_aux maxc false false (n + 1)%Z rest.
Proof.
  induction body as [|c r IH]; intros rest Hn Hb.
  - cbn [app u_iwb_aux]. replace (n >=? maxc)%Z with false by lia. cbn [andb app]. reflexivity.
  - inversion Hb as [|? ? (H59 & H60 & H32 & Hlow) Hr]; subst. cbn [app u_iwb_aux].
    replace (n >=? maxc)%Z with false by lia. cbn [andb app].
    destruct (N.eqb_spec c 59); [congruence|]. destruct (N.eqb_spec c 60); [congruence|]. destruct (N.eqb_spec c 32); [congruence|].
    rewrite IH by assumption. reflexivity.
Qed.

Lemma u_html_escape1_shape c e : u_html_escape1 c = Some e -> exists body, e = 38 :: body ++ [59] /\ Forall ent_body_char body.
Proof.
  unfold u_html_escape1.
  repeat match goal with |- (if N.eqb c ?k then _ else _) = _ -> _ =>
    destruct (N.eqb c k);
    [intros H; injection H as <-;
     match goal with |- exists body, 38 :: ?l = _ /\ _ => exists (removelast l) end;
     split; [reflexivity|repeat constructor; unfold u_is_low, in_range; lia]|] end.
  discriminate.
Qed.

Lemma u_iwb_step maxc n c rest : (1 <= maxc)%Z ->
  exists pre n', (pre = [] \/ pre = wbr) /\
    u_iwb_aux maxc false false n (u_esc1 c ++ rest) = pre ++ u_esc1 c ++ u_iwb_aux maxc false false n' rest.
Proof.
  intros Hm. unfold u_esc1. destruct (u_html_escape1 c) as [e|] eqn:Ee.
  - destruct (u_html_escape1_shape c e Ee) as (body & -> & Hb).
    cbn [app u_iwb_aux]. change (38 =? 32) with false. change (u_is_low 38) with false. rewrite !andb_true_r.
    change (38 =? 60) with false. change (38 =? 38) with true. cbv iota.
    rewrite <- app_assoc. cbn [app].
    destruct (n >=? maxc)%Z eqn:En.
    + rewrite u_iwb_in_entity by (try assumption; lia). exists wbr, (0 + 1)%Z. split; [auto|]. cbn [app]. rewrite <- !app_assoc. reflexivity.
    + rewrite u_iwb_in_entity by (try assumption; lia). exists [], (n + 1)%Z. split; [auto|]. cbn [app]. rewrite <- !app_assoc. reflexivity.
  - (* an ordinary unit: not & < (nor the other escaped ones) *)
    assert (c <> 60 /\ c <> 38) as (H60 & H38).
    { unfold u_html_escape1 in Ee. destruct (N.eqb_spec c 0); [discriminate|]. destruct (N.eqb_spec c 34); [discriminate|].
      destruct (N.eqb_spec c 38); [discriminate|]. destruct (N.eqb_spec c 39); [discriminate|]. destruct (N.eqb_spec c 60); [discriminate|]. auto. }
    cbn [app u_iwb_aux]. destruct (N.eqb_spec c 60); [congruence|]. destruct (N.eqb_spec c 38); [congruence|].
    destruct ((n >=? maxc)%Z && negb (c =? 32) && negb (u_is_low c)).
    + destruct (c =? 32); eexists wbr, _; (split; [auto|reflexivity]).
    + destruct (c =? 32); eexists [], _; (split; [auto|reflexivity]).
Qed.

Theorem u_wbr_units s maxc : (1 <= maxc)%Z ->
  exists us, Forall u_iwb_unit us /\ u_insert_word_breaks s maxc = concat_b us.
Proof.
  intros Hm. unfold u_insert_word_breaks, u_word_breaks. generalize 0%Z as n.
  induction s as [|c r IH]; intros n; [exists []; split; [constructor|reflexivity]|].
  cbn [u_escape_html]. destruct (u_iwb_step maxc n c (u_escape_html r) Hm) as (pre & n' & Hpre & ->).
  destruct (IH n') as (us & Hus & ->).
  destruct Hpre as [-> | ->].
  - exists (u_esc1 c :: us). split; [constructor; [right; eauto|exact Hus]|reflexivity].
  - exists (wbr :: u_esc1 c :: us). split; [constructor; [left; reflexivity|constructor; [right; eauto|exact Hus]]|reflexivity].
Qed.
