(* Prefix determinism of the scanner, part 3: the state functions, one step, k steps. *)
From Soy Require Import Model.Bytes Model.Utf8 Model.Outcome Model.Token Model.Lexer Generated.Tables Proofs.LexPrefix Proofs.LexPrefixStates.
From Coq Require Import ZifyBool ZifyNat ZifyN Lia List.
Import ListNotations.
Open Scope Z_scope.

Section Det.
Variable ul ud : Z -> bool.
Variable pre r1 r2 : bstr.
Variable base : Z.
Notation inp1 := (pre ++ r1).
Notation inp2 := (pre ++ r2).
Notation n1 := (Z.of_nat (length (pre ++ r1))).
Notation n2 := (Z.of_nat (length (pre ++ r2))).
Notation h := (Z.of_nat (length pre)).

Ltac replay := repeat (replay1 pre r1 r2 base).
Ltac start H := pose proof (h_le1 pre r1); pose proof (h_le2 pre r2); cbv zeta in H; crack; cbn [fst snd] in *;
  repeat match goal with Hx : context [if ?c then _ else _] |- _ =>
           match type of Hx with
           | _ <= _ => let C := fresh "C" in destruct c eqn:C
           | (_ < _)%nat => let C := fresh "C" in destruct c eqn:C
           end end; facts; monos.
Ltac moves :=
  repeat match goal with
  | E : next _ _ ?l = Ok (_, ?l1) |- _ =>
      lazymatch goal with _ : l_pos l < l_pos l1 |- _ => fail | _ => pose proof (next_moves _ _ _ _ E ltac:(side2)) end
  end.
Ltac replay2 :=
  repeat first
  [ replay1 pre r1 r2 base
  | match goal with
    | E : accept_run_loop _ _ _ ?v ?l = Ok _ |- context [accept_run_loop _ _ ?f2 ?v ?l] =>
        rewrite (accept_run_loop_det ul ud pre r1 r2 base _ _ _ _ E ltac:(side2) f2 ltac:(side2)); cbn [bind]
    | E : skip_space_loop _ _ _ ?l = Ok _ |- context [skip_space_loop _ _ ?f2 ?l] =>
        rewrite (skip_space_loop_det ul ud pre r1 r2 base _ _ _ E ltac:(side2) f2 ltac:(side2)); cbn [bind]
    | E : alnum_loop _ _ _ _ _ ?l = Ok _ |- context [alnum_loop _ _ _ _ ?f2 ?l] =>
        rewrite (alnum_loop_det ul ud pre r1 r2 base _ _ _ E ltac:(side2) f2 ltac:(side2)); cbn [bind]
    | E : soydoc_space_loop _ _ _ ?l = Ok _ |- context [soydoc_space_loop _ _ ?f2 ?l] =>
        rewrite (soydoc_space_loop_det ul ud pre r1 r2 base _ _ _ E ltac:(side2) f2 ltac:(side2)); cbn [bind]
    | E : literal_space_loop _ _ _ ?ch ?l = Ok _ |- context [literal_space_loop _ _ ?f2 ?ch ?l] =>
        rewrite (literal_space_loop_det ul ud pre r1 r2 base _ _ _ _ E ltac:(side2) f2 ltac:(side2)); cbn [bind]
    | E : soydoc_ident_loop _ _ _ _ ?l = Ok _ |- context [soydoc_ident_loop _ _ _ ?f2 ?l] =>
        rewrite (soydoc_ident_loop_det ul ud pre r1 r2 base _ _ _ E ltac:(side2) f2 ltac:(side2)); cbn [bind]
    | E : css_loop _ _ _ _ ?l = Ok _ |- context [css_loop _ _ _ ?f2 ?l] =>
        rewrite (css_loop_det ul ud pre r1 r2 base _ _ _ E ltac:(unfold spos; side2) f2 ltac:(unfold spos; side2)); cbn [bind]
    | E : header_type_loop _ _ _ _ ?lns ?l = Ok _ |- context [header_type_loop _ _ _ ?f2 ?lns ?l] =>
        rewrite (header_type_loop_det ul ud pre r1 r2 base _ lns l _ ltac:(side2) E ltac:(unfold hpos; side2) f2 ltac:(unfold hpos; side2)); cbn [bind]
    end ].

(* ---------- the state functions ---------- *)
Ltac fn H := start H; replay2.

Lemma lex_text_det l res : lex_text inp1 n1 base l = Ok res -> l_pos (snd res)+ m_text <= h -> lex_text inp2 n2 base l = Ok res.
Proof using All.
  intros H Hb. unfold lex_text in *. pose proof (h_le1 pre r1); pose proof (h_le2 pre r2).
  pose proof (lex_text_loop_mono _ _ _ _ _ _ H).
  apply (lex_text_loop_det ul ud pre r1 r2 base _ _ _ _ H ltac:(side2)). side2.
Qed.
Lemma lex_right_delim_det l res : lex_right_delim inp1 n1 base l = Ok res -> l_pos (snd res)+ m_rdelim <= h -> lex_right_delim inp2 n2 base l = Ok res.
Proof using All. intros H Hb. unfold lex_right_delim, double_close in *. fn H. Qed.
Lemma lex_right_delim_end_det l res : lex_right_delim_end inp1 n1 base l = Ok res -> l_pos (snd res)+ m_rdelim_end <= h -> lex_right_delim_end inp2 n2 base l = Ok res.
Proof using All. intros H Hb. unfold lex_right_delim_end, double_close in *. fn H. Qed.
Lemma lex_begin_tag_det l res : lex_begin_tag inp1 n1 l = Ok res -> l_pos (snd res)+ m_begin_tag <= h -> lex_begin_tag inp2 n2 l = Ok res.
Proof using All. intros H Hb. unfold lex_begin_tag in *. fn H. Qed.
Lemma lex_negative_det l res : lex_negative inp1 n1 base l = Ok res -> l_pos (snd res)+ m_inside <= h -> lex_negative inp2 n2 base l = Ok res.
Proof using All. intros H Hb. unfold lex_negative in *. fn H. Qed.
Lemma lex_inside_tag_det l res : lex_inside_tag inp1 n1 base l = Ok res -> l_pos (snd res)+ m_inside <= h -> lex_inside_tag inp2 n2 base l = Ok res.
Proof using All. intros H Hb. unfold lex_inside_tag, lex_negative, emit_to in *. fn H. Qed.
Lemma lex_line_comment_det l res : lex_line_comment inp1 n1 base l = Ok res -> l_pos (snd res)+ m_linec <= h -> lex_line_comment inp2 n2 base l = Ok res.
Proof using All.
  intros H Hb. unfold lex_line_comment in *. pose proof (h_le1 pre r1); pose proof (h_le2 pre r2).
  pose proof (line_comment_loop_mono _ _ _ _ _ H). apply (line_comment_loop_det ul ud pre r1 r2 base _ _ _ H ltac:(side2)). side2.
Qed.
Lemma lex_block_comment_det l res : lex_block_comment inp1 n1 base l = Ok res -> l_pos (snd res)+ m_blockc <= h -> lex_block_comment inp2 n2 base l = Ok res.
Proof using All.
  intros H Hb. unfold lex_block_comment in *. pose proof (h_le1 pre r1); pose proof (h_le2 pre r2).
  pose proof (block_comment_loop_mono _ _ _ _ _ _ H). apply (block_comment_loop_det ul ud pre r1 r2 base _ _ _ _ H ltac:(side2)). side2.
Qed.
Lemma lex_string_det q l res : lex_string inp1 n1 base q l = Ok res -> l_pos (snd res)+ m_string <= h -> lex_string inp2 n2 base q l = Ok res.
Proof using All.
  intros H Hb. unfold lex_string in *. pose proof (h_le1 pre r1); pose proof (h_le2 pre r2).
  pose proof (string_loop_mono _ _ _ _ _ _ H). apply (string_loop_det ul ud pre r1 r2 base _ _ _ _ H ltac:(side2)). side2.
Qed.
End Det.
