(* The run invariant of the scanner model that leads to number items: at the states from which
   lexNumber is reached (lexInsideTag, lexBeginTag, lexNumber) nothing is pending (start = pos), and
   lexNumber is entered at a digit or at a "-" (never at "+").  Together with the local lemma about
   lexNumber (Proofs/ScanFloatShape.v) this shows that every float item has a text of the syntax
   -?D+(.D+)?(e[+-]?D+)?.

   All lemmas here are of the partial-correctness form  f l = Ok x -> ...  and need no hypothesis on
   unicode.IsLetter / unicode.IsDigit nor on the bounds of the cursor. *)
From Soy Require Import Model.Bytes Model.Utf8 Model.Outcome Model.Token Generated.Tables Model.Lexer Model.NumLit.
From Coq Require Import ZifyBool ZifyNat ZifyN Lia.
Open Scope Z_scope.

(* ---------- shared definitions (used by ScanFloatShape.v) ---------- *)

(* a float item has a text that NumLit.split_float accepts *)
Definition float_ok (t : tok) : Prop := t_typ t = itemFloat -> exists fl, split_float (t_val t) = Some fl.
Definition fgood (l : lx) : Prop := Forall float_ok (l_out l).
(* the states on the way to lexNumber *)
Definition in_F (st : lstate) : Prop := st = LInsideTag \/ st = LBeginTag \/ st = LNumber.

Lemma bind_ok_inv {A B} (x : outcome A) (f : A -> outcome B) v : bind x f = Ok v -> exists a, x = Ok a /\ f a = Ok v.
Proof. destruct x; cbn; intros H; try discriminate. eauto. Qed.

Lemma nonfloat_ok t : t_typ t <> itemFloat -> float_ok t.
Proof. intros H E. contradiction. Qed.

(* an ASCII rune is decoded from exactly one byte, itself *)
Lemma decode_ascii_inv (s : bstr) r w : decode_rune s = (r, w) -> (r < 128)%N -> exists rest, s = r :: rest /\ w = 1%nat.
Proof.
  destruct s as [|b0 s]; unfold decode_rune, is_cont, in_range, rune_error.
  - intros H; injection H as <- <-. lia.
  - destruct s as [|b1 [|b2 [|b3 s]]];
    repeat match goal with |- context [if ?c then _ else _] => destruct c eqn:? end;
    intros H; injection H as <- <-; intros Hr; try lia;
    try (exfalso; repeat match goal with H : context [if ?c then _ else _] |- _ => destruct c eqn:? end; lia);
    eexists; split; reflexivity.
Qed.

Section Prims.
Variable inp : bstr.
Notation ilen := (Z.of_nat (length inp)).

(* next: nothing but the cursor moves, and backup undoes it *)
Lemma next_frame l r l1 : next inp ilen l = Ok (r, l1) ->
  l_out l1 = l_out l /\ l_start l1 = l_start l /\ l_last l1 = l_last l /\ l_dd l1 = l_dd l /\ l_pos l1 - l_width l1 = l_pos l.
Proof.
  unfold next. destruct (ilen <=? l_pos l); [intros H; injection H as <- <-; cbn; repeat split; lia|].
  destruct (l_pos l <? 0); [discriminate|]. destruct (decode_rune _) as [r' w]. intros H; injection H as <- <-. cbn. repeat split; lia.
Qed.

(* an ASCII rune read: one byte, at a position inside the input *)
Lemma next_ascii_inv l r l1 : next inp ilen l = Ok (r, l1) -> 0 <= r < 128 ->
  exists c rest, r = Z.of_N c /\ (c < 128)%N /\ 0 <= l_pos l /\ drop (Z.to_nat (l_pos l)) inp = c :: rest /\
                 l_pos l1 = l_pos l + 1 /\ l_width l1 = 1.
Proof.
  unfold next. destruct (ilen <=? l_pos l) eqn:E; [intros H; injection H as <- <-; unfold eof; lia|].
  destruct (l_pos l <? 0) eqn:E2; [discriminate|]. destruct (decode_rune _) as [r' w] eqn:Ed. intros H; injection H as <- <-. intros Hr.
  destruct (decode_ascii_inv _ _ _ Ed ltac:(lia)) as (rest & Hd & ->). exists r', rest. cbn. repeat split; try lia. exact Hd.
Qed.

(* the rune next returns depends on the position only *)
Lemma next_rune_det la lb ra rb la1 lb1 : l_pos la = l_pos lb ->
  next inp ilen la = Ok (ra, la1) -> next inp ilen lb = Ok (rb, lb1) -> ra = rb.
Proof.
  unfold next. intros ->. destruct (ilen <=? l_pos lb); [congruence|]. destruct (l_pos lb <? 0); [discriminate|].
  destruct (decode_rune _) as [r w]. congruence.
Qed.

(* lexNumber is not entered at a "+" *)
Definition numhead (l : lx) : Prop := forall r l1, next inp ilen l = Ok (r, l1) -> r <> 43.

End Prims.

(* the invariant of the run *)
Definition sinv (inp : bstr) (st : lstate) (l : lx) : Prop :=
  fgood l /\ (in_F st -> l_start l = l_pos l) /\ (st = LNumber -> numhead inp l).

(* ---------- the invariant is kept by every state function ---------- *)

Lemma assoc_s_forallb {A} (P : A -> bool) k (tbl : list (bstr * A)) v :
  assoc_s k tbl = Some v -> forallb (fun kv => P (snd kv)) tbl = true -> P v = true.
Proof.
  induction tbl as [|[k' v'] tbl IH]; cbn; [discriminate|].
  intros H Hall. apply Bool.andb_true_iff in Hall. destruct Hall as [H1 H2].
  destruct (bstr_eqb k k'); [injection H as <-; exact H1|auto].
Qed.

Lemma arith_items_nf sym t : assoc_s sym arith_items = Some t -> t <> itemFloat.
Proof.
  intros H. apply (assoc_s_forallb (fun t => negb (t =? itemFloat)%N)) in H; [|vm_compute; reflexivity].
  intros ->. discriminate H.
Qed.

Lemma builtin_idents_nf w t : assoc_s w builtin_idents = Some t -> t <> itemFloat.
Proof.
  intros H. apply (assoc_s_forallb (fun t => negb (t =? itemFloat)%N)) in H; [|vm_compute; reflexivity].
  intros ->. discriminate H.
Qed.

Lemma arith_item_nf sym : arith_item sym <> itemFloat.
Proof. unfold arith_item. destruct (assoc_s sym arith_items) eqn:E; [eapply arith_items_nf; eauto|discriminate]. Qed.

Section Run.
Variable uni_letter uni_digit : Z -> bool.
Variable inp : bstr.
Variable base : Z.
Notation ilen := (Z.of_nat (length inp)).
Notation step := (Lexer.step uni_letter uni_digit inp ilen base).

(* inversion of  <monadic body> = Ok v  along the one hypothesis H *)
Ltac inv H :=
  lazymatch type of H with
  | bind _ _ = Ok _ =>
      let a := fresh "a" in let E := fresh "E" in
      apply bind_ok_inv in H; destruct H as (a & E & H); cbn beta in H;
      repeat (lazymatch type of a with prod _ _ => destruct a as [a ?] end);
      cbn beta iota in H; inv E; cbn beta iota in H; inv H
  | (let x := _ in _) = Ok _ => cbv zeta in H; inv H
  | (if ?c then _ else _) = Ok _ => let C := fresh "C" in destruct c eqn:C; inv H
  | match ?x with _ => _ end = Ok _ => let C := fresh "C" in destruct x eqn:C; inv H
  | Ok _ = Ok _ => injection H as ?; subst
  | _ => try discriminate H
  end.

(* ----- primitives ----- *)

Lemma next_good l r l1 : next inp ilen l = Ok (r, l1) -> fgood l -> fgood l1.
Proof. intros H. apply next_frame in H. unfold fgood. destruct H as (-> & _). auto. Qed.

Lemma peek_ok l r l1 : peek inp ilen l = Ok (r, l1) ->
  (fgood l -> fgood l1) /\ l_start l1 = l_start l /\ l_pos l1 = l_pos l /\ l_last l1 = l_last l /\
  exists l0, next inp ilen l = Ok (r, l0) /\ l_width l1 = l_width l0.
Proof.
  unfold peek. intros H. inv H. pose proof (next_frame _ _ _ _ E) as (H1 & H2 & H3 & H4 & H5).
  unfold fgood. cbn [backup set_pos l_out l_start l_pos l_last l_width]. rewrite H1.
  repeat split; auto; try lia. eauto.
Qed.

Lemma emit_ok t l l' : emit inp ilen base t l = Ok l' -> l_start l' = l_pos l' /\ (t <> itemFloat -> fgood l -> fgood l').
Proof.
  unfold emit. intros H. inv H. cbn [l_start l_pos]. split; [reflexivity|]. intros Ht Hg. unfold fgood. cbn [l_out].
  constructor; [apply nonfloat_ok; exact Ht|]. destruct (ilen <? l_pos l); exact Hg.
Qed.

Lemma errorf_ok c l st l' : errorf base c l = Ok (st, l') -> st = LDone /\ (fgood l -> fgood l').
Proof.
  unfold errorf. intros H. inv H. split; [reflexivity|]. intros Hg. unfold fgood. cbn [l_out].
  constructor; [apply nonfloat_ok; cbn; discriminate|exact Hg].
Qed.

Lemma emit_to_ok t st l st' l' : emit_to inp ilen base t st l = Ok (st', l') ->
  st' = st /\ l_start l' = l_pos l' /\ (t <> itemFloat -> fgood l -> fgood l').
Proof. unfold emit_to. intros H. inv H. apply emit_ok in E. tauto. Qed.

Lemma accept_ok v l b l1 : accept inp ilen v l = Ok (b, l1) -> (fgood l -> fgood l1) /\ l_start l1 = l_start l.
Proof.
  unfold accept. intros H. inv H; pose proof (next_frame _ _ _ _ E) as (H1 & H2 & _); unfold fgood; cbn [backup set_pos l_out l_start]; rewrite H1; auto.
Qed.

Lemma skip_space_loop_ok fuel : forall l l1, skip_space_loop inp ilen fuel l = Ok l1 -> fgood l -> fgood l1.
Proof.
  induction fuel; intros l l1 H; cbn [skip_space_loop] in H; inv H; intros Hg; eauto using next_good.
Qed.

Lemma skip_space_ok l l1 : skip_space inp ilen l = Ok l1 -> (fgood l -> fgood l1) /\ l_start l1 = l_pos l1.
Proof.
  unfold skip_space. intros H. inv H. split; [|reflexivity]. intros Hg. eapply skip_space_loop_ok in E; eauto.
Qed.

Lemma alnum_loop_ok fuel : forall l l1, alnum_loop uni_letter uni_digit inp ilen fuel l = Ok l1 -> fgood l -> fgood l1.
Proof.
  induction fuel; intros l l1 H; cbn [alnum_loop] in H; inv H; intros Hg; eauto using next_good.
Qed.

(* turn every equation about a primitive into its facts *)
Ltac nf := first [assumption | apply arith_item_nf | (let X := fresh in intro X; vm_compute in X; discriminate X)].
Ltac use_nf H := try (lapply H; [clear H; intro H | solve [nf]]).
Ltac prim1 :=
  match goal with
  | E : next _ _ _ = Ok _ |- _ => pose proof (next_good _ _ _ E); revert E
  | E : peek _ _ _ = Ok _ |- _ => pose proof (peek_ok _ _ _ E) as (? & ? & ? & ? & _); revert E
  | E : emit _ _ _ _ _ = Ok _ |- _ => let H := fresh "Hg" in pose proof (emit_ok _ _ _ E) as (? & H); use_nf H; revert E
  | E : errorf _ _ _ = Ok _ |- _ => let H := fresh "Hg" in pose proof (errorf_ok _ _ _ _ E) as (? & H); revert E
  | E : emit_to _ _ _ _ _ _ = Ok _ |- _ => let H := fresh "Hg" in pose proof (emit_to_ok _ _ _ _ _ E) as (? & ? & H); use_nf H; revert E
  | E : accept _ _ _ _ = Ok _ |- _ => pose proof (accept_ok _ _ _ _ E) as (? & ?); revert E
  | E : skip_space _ _ _ = Ok _ |- _ => pose proof (skip_space_ok _ _ E) as (? & ?); revert E
  | E : alnum_loop _ _ _ _ _ _ = Ok _ |- _ => pose proof (alnum_loop_ok _ _ _ E); revert E
  end.
Ltac gnorm := unfold fgood in *; cbn [l_out l_start l_pos backup set_pos set_start set_dd ignore tick fst snd] in *.
Ltac prims := repeat prim1; intros; subst; gnorm.
Ltac fin := prims; auto 20.

Lemma maybe_emit_text_ok l bk l1 : maybe_emit_text inp ilen base l bk = Ok l1 -> fgood l -> fgood l1.
Proof. unfold maybe_emit_text. intros H Hg. inv H; fin. Qed.

Ltac prim2 :=
  match goal with
  | E : maybe_emit_text _ _ _ _ _ = Ok _ |- _ => pose proof (maybe_emit_text_ok _ _ _ E); revert E
  end.
Ltac prims ::= repeat (first [prim1 | prim2]); intros; subst; gnorm.

Lemma double_close_ok l c : double_close inp ilen base l = Ok c ->
  match c with inl (st, l1) => st = LDone /\ (fgood l -> fgood l1) | inr l1 => fgood l -> fgood l1 end.
Proof. unfold double_close. intros H. inv H; fin. Qed.

Ltac prim3 :=
  match goal with
  | E : double_close _ _ _ _ = Ok (inl (_, _)) |- _ => pose proof (double_close_ok _ _ E) as (? & ?); revert E
  | E : double_close _ _ _ _ = Ok (inr _) |- _ => let H := fresh "Hg" in pose proof (double_close_ok _ _ E) as H; cbn beta iota in H; revert E
  end.
Ltac prims ::= repeat (first [prim1 | prim2 | prim3]); intros; subst; gnorm.
Ltac sfin :=
  unfold sinv, in_F; prims;
  (split; [auto 20 | split; [(let X := fresh "X" in intros [X|[X|X]]; try discriminate X; try solve [auto | congruence | lia])
                            | (let X := fresh "X" in intros X; try discriminate X)]]).

(* ----- the simple states ----- *)

Ltac ifs := repeat match goal with H : context [if ?c then _ else _] |- _ => destruct c eqn:? | |- context [if ?c then _ else _] => destruct c eqn:? end.

Lemma lex_left_delim_sinv l st' l' : lex_left_delim inp ilen base l = Ok (st', l') -> sinv inp LLeftDelim l -> sinv inp st' l'.
Proof. unfold lex_left_delim. intros H (Hg & _). inv H. ifs; sfin. Qed.

Lemma lex_right_delim_sinv l st' l' : lex_right_delim inp ilen base l = Ok (st', l') -> sinv inp LRightDelim l -> sinv inp st' l'.
Proof. unfold lex_right_delim. intros H (Hg & _). inv H; sfin. Qed.

Lemma lex_right_delim_end_sinv l st' l' : lex_right_delim_end inp ilen base l = Ok (st', l') -> sinv inp LRightDelimEnd l -> sinv inp st' l'.
Proof. unfold lex_right_delim_end. intros H (Hg & _). inv H; sfin. Qed.

Lemma lex_begin_tag_sinv l st' l' : lex_begin_tag inp ilen l = Ok (st', l') -> sinv inp LBeginTag l -> sinv inp st' l'.
Proof. unfold lex_begin_tag. intros H (Hg & Hs & _). specialize (Hs (or_intror (or_introl eq_refl))). inv H; sfin. Qed.

Lemma line_comment_loop_fok fuel : forall l st' l', line_comment_loop inp ilen base fuel l = Ok (st', l') -> fgood l ->
  fgood l' /\ (st' = LText \/ st' = LDone).
Proof. induction fuel; intros l st' l' H Hg; cbn [line_comment_loop] in H; inv H; [fin|]. eapply IHfuel; [eassumption|fin]. Qed.

Lemma lex_line_comment_sinv l st' l' : lex_line_comment inp ilen base l = Ok (st', l') -> sinv inp LLineComment l -> sinv inp st' l'.
Proof. unfold lex_line_comment. intros H (Hg & _). destruct (line_comment_loop_fok _ _ _ _ H Hg) as (G & [-> | ->]); sfin. Qed.

Lemma block_comment_loop_fok fuel : forall star l st' l', block_comment_loop inp ilen base fuel star l = Ok (st', l') -> fgood l ->
  fgood l' /\ (st' = LText \/ st' = LDone).
Proof.
  induction fuel; intros star l st' l' H Hg; cbn [block_comment_loop] in H; inv H; try solve [fin]; (eapply IHfuel; [eassumption|fin]).
Qed.

Lemma lex_block_comment_sinv l st' l' : lex_block_comment inp ilen base l = Ok (st', l') -> sinv inp LBlockComment l -> sinv inp st' l'.
Proof. unfold lex_block_comment. intros H (Hg & _). destruct (block_comment_loop_fok _ _ _ _ _ H Hg) as (G & [-> | ->]); sfin. Qed.

Lemma string_loop_fok fuel : forall q l st' l', string_loop inp ilen base fuel q l = Ok (st', l') -> fgood l ->
  fgood l' /\ ((st' = LInsideTag /\ l_start l' = l_pos l') \/ st' = LDone).
Proof.
  induction fuel; intros q l st' l' H Hg; cbn [string_loop] in H; inv H; try solve [fin]; (eapply IHfuel; [eassumption|fin]).
Qed.

Lemma lex_string_sinv q l st' l' : lex_string inp ilen base q l = Ok (st', l') -> sinv inp (LString q) l -> sinv inp st' l'.
Proof. unfold lex_string. intros H (Hg & _). destruct (string_loop_fok _ _ _ _ _ H Hg) as (G & [(-> & ?) | ->]); sfin. Qed.

Lemma css_loop_fok fuel : forall l c, css_loop inp ilen base fuel l = Ok c -> fgood l ->
  match c with inl (st, l1) => st = LDone /\ fgood l1 | inr l1 => fgood l1 end.
Proof.
  induction fuel; intros l c H Hg; cbn [css_loop] in H; inv H; try solve [fin]; (eapply IHfuel; [eassumption|fin]).
Qed.

Lemma lex_css_sinv l st' l' : lex_css inp ilen base l = Ok (st', l') -> sinv inp LCss l -> sinv inp st' l'.
Proof.
  unfold lex_css. intros H (Hg & _). inv H;
  (match goal with E : css_loop _ _ _ _ _ = Ok _ |- _ => apply css_loop_fok in E; [cbn beta iota in E|fin] end); [destruct E0 as (-> & ?)|..]; sfin.
Qed.

Lemma literal_space_loop_fok fuel : forall ch l c l1, literal_space_loop inp ilen fuel ch l = Ok (c, l1) -> fgood l -> fgood l1.
Proof.
  induction fuel; intros ch l c l1 H Hg; cbn [literal_space_loop] in H; inv H; try solve [fin]; (eapply IHfuel; [eassumption|fin]).
Qed.

Lemma lex_literal_sinv l st' l' : lex_literal inp ilen base l = Ok (st', l') -> sinv inp LLiteral l -> sinv inp st' l'.
Proof.
  unfold lex_literal. intros H (Hg & _). inv H;
  (match goal with E : literal_space_loop _ _ _ _ _ = Ok _ |- _ => apply literal_space_loop_fok in E; [|fin] end); sfin.
Qed.

Lemma header_type_loop_fok fuel : forall lns l c, header_type_loop inp ilen base fuel lns l = Ok c -> fgood l ->
  match c with inl (st, l1) => st = LDone /\ fgood l1 | inr (_, l1) => fgood l1 end.
Proof.
  induction fuel; intros lns l c H Hg; cbn [header_type_loop] in H; inv H; try solve [fin]; (eapply IHfuel; [eassumption|fin]).
Qed.

Lemma lex_header_param_sinv l st' l' : lex_header_param uni_letter uni_digit inp ilen base l = Ok (st', l') -> sinv inp LHeaderParam l -> sinv inp st' l'.
Proof.
  unfold lex_header_param. intros H (Hg & _). inv H;
  try (match goal with E : header_type_loop _ _ _ _ _ _ = Ok _ |- _ => apply header_type_loop_fok in E; [cbn beta iota in E|ifs; fin] end);
  try (match goal with E : _ = LDone /\ _ |- _ => destruct E as (-> & ?) end); ifs; sfin.
Qed.

Lemma lex_ident_sinv l st' l' : lex_ident uni_letter uni_digit inp ilen base l = Ok (st', l') -> sinv inp LIdent l -> sinv inp st' l'.
Proof.
  unfold lex_ident. intros H (Hg & _). inv H;
  try (match goal with E : assoc_s _ builtin_idents = Some _ |- _ => apply builtin_idents_nf in E end);
  ifs; sfin.
Qed.

(* ----- lexInsideTag and lexNegative ----- *)

Lemma lex_negative_sinv l0 l st' l' : next inp ilen l0 = Ok (45, l) -> l_start l0 = l_pos l0 -> fgood l ->
  lex_negative inp ilen base l = Ok (st', l') -> sinv inp st' l'.
Proof.
  intros N0 Hs Hg H. unfold lex_negative in H. inv H; try solve [sfin].
  (* the exit to lexNumber *)
  destruct (peek_ok _ _ _ E) as (G1 & S1 & P1 & _ & (m1 & N1 & _)).
  destruct (peek_ok _ _ _ E1) as (G2 & S2 & P2 & _ & (m2 & N2 & W2)).
  assert (a = a1) by (eapply next_rune_det; [|exact N1|exact N2]; lia). subst a1.
  destruct (next_ascii_inv _ _ _ _ N2 ltac:(lia)) as (_ & _ & _ & _ & _ & _ & _ & W).
  destruct (next_ascii_inv _ _ _ _ N0 ltac:(lia)) as (_ & _ & _ & _ & _ & _ & P0 & _).
  pose proof (next_frame _ _ _ _ N0) as (_ & S0 & _).
  assert (Hp : l_pos (backup l2) = l_pos l0) by (cbn [backup set_pos l_pos]; lia).
  unfold sinv. split; [unfold fgood in *; cbn [backup set_pos l_out]; auto|]. split.
  - intros _. cbn [backup set_pos l_start l_pos]. lia.
  - intros _ r lr Hr. assert (r = 45) by (eapply next_rune_det; [exact Hp|exact Hr|exact N0]). lia.
Qed.

Lemma lex_inside_tag_sinv l st' l' : lex_inside_tag inp ilen base l = Ok (st', l') -> sinv inp LInsideTag l -> sinv inp st' l'.
Proof.
  unfold lex_inside_tag. intros H (Hg & Hs & _). specialize (Hs (or_introl eq_refl)). inv H;
  try (match goal with E : assoc_s _ arith_items = Some _ |- _ => apply arith_items_nf in E end);
  try solve [sfin].
  all: try (exfalso; lia).
  - (* "-" *) assert (a = 45) by lia. subst a. eapply lex_negative_sinv; [exact E|exact Hs| |exact H]. eapply next_good; eauto.
  - (* a digit *)
    pose proof (next_frame _ _ _ _ E) as (O1 & S1 & _ & _ & P1).
    assert (Hp : l_pos (backup l1) = l_pos l) by (cbn [backup set_pos l_pos]; lia).
    unfold sinv. split; [unfold fgood in *; cbn [backup set_pos l_out]; rewrite O1; auto|]. split.
    + intros _. cbn [backup set_pos l_start l_pos]. lia.
    + intros _ r lr Hr. assert (r = a) by (eapply next_rune_det; [exact Hp|exact Hr|exact E]). lia.
Qed.

(* ----- lexText ----- *)

Definition outF (st : lstate) : Prop := st <> LInsideTag /\ st <> LBeginTag /\ st <> LNumber.
Lemma outF_sinv st l : fgood l -> outF st -> sinv inp st l.
Proof. intros Hg (H1 & H2 & H3). unfold sinv, in_F. split; [exact Hg|]. split; [intros [X|[X|X]]; contradiction|intros X; contradiction]. Qed.
Ltac ofin := prims; unfold outF; (split; [auto 20 | repeat split; discriminate]).

Lemma lex_text_loop_fok fuel : forall r0 l st' l', lex_text_loop inp ilen base fuel r0 l = Ok (st', l') -> fgood l -> fgood l' /\ outF st'.
Proof.
  induction fuel; intros r0 l st' l' H Hg; cbn [lex_text_loop] in H; inv H; ifs; try solve [ofin];
  try (eapply IHfuel; [eassumption|fin]).
Qed.

Lemma lex_text_sinv l st' l' : lex_text inp ilen base l = Ok (st', l') -> sinv inp LText l -> sinv inp st' l'.
Proof. unfold lex_text. intros H (Hg & _). destruct (lex_text_loop_fok _ _ _ _ _ H Hg). apply outF_sinv; assumption. Qed.

Lemma outF_not_in_F st : outF st -> ~ in_F st.
Proof. intros (H1 & H2 & H3) [X|[X|X]]; contradiction. Qed.

(* ----- lexSoyDoc ----- *)

Lemma soydoc_ident_loop_fok fuel : forall l l1, soydoc_ident_loop inp ilen base fuel l = Ok l1 -> fgood l -> fgood l1.
Proof.
  induction fuel; intros l l1 H Hg; cbn [soydoc_ident_loop] in H; inv H; ifs; try solve [fin]; (eapply IHfuel; [eassumption|fin]).
Qed.

Lemma soydoc_space_loop_fok fuel : forall l l1, soydoc_space_loop inp ilen fuel l = Ok l1 -> fgood l -> fgood l1.
Proof.
  induction fuel; intros l l1 H Hg; cbn [soydoc_space_loop] in H; inv H; try solve [fin]; (eapply IHfuel; [eassumption|fin]).
Qed.

Lemma lex_soydoc_param_fok l l1 : lex_soydoc_param inp ilen base l = Ok l1 -> fgood l -> fgood l1.
Proof.
  unfold lex_soydoc_param. intros H Hg. inv H; try solve [fin];
  (eapply soydoc_ident_loop_fok; [eassumption|]);
  (match goal with E : soydoc_space_loop _ _ _ _ = Ok _ |- _ => apply soydoc_space_loop_fok in E; [|fin] end); fin.
Qed.

Lemma soydoc_loop_fok fuel : forall star sol l st' l', soydoc_loop inp ilen base fuel star sol l = Ok (st', l') -> fgood l -> fgood l' /\ outF st'.
Proof.
  induction fuel; intros star sol l st' l' H Hg; cbn [soydoc_loop] in H; inv H; try solve [ofin];
  try (match goal with E : lex_soydoc_param _ _ _ _ = Ok _ |- _ => apply lex_soydoc_param_fok in E; [|fin] end);
  (eapply IHfuel; [eassumption|fin]).
Qed.

(* the statement of the hypothesis lex_soydoc_ok below, proved *)
Lemma lex_soydoc_good l st' l' : lex_soydoc inp ilen base l = Ok (st', l') -> fgood l -> fgood l' /\ ~ in_F st'.
Proof.
  unfold lex_soydoc. intros H Hg. inv H. destruct (soydoc_loop_fok _ _ _ _ _ _ H) as (G & O); [fin|].
  split; [assumption|apply outF_not_in_F; assumption].
Qed.

(* ----- the machine ----- *)

Lemma not_in_F_sinv st l : fgood l -> ~ in_F st -> sinv inp st l.
Proof. intros Hg Hn. unfold sinv. split; [exact Hg|]. split; [intros X; contradiction|intros X; exfalso; apply Hn; right; right; exact X]. Qed.

(* the statement of the hypothesis lex_text_ok below, proved *)
Lemma lex_text_good l st' l' : lex_text inp ilen base l = Ok (st', l') -> fgood l -> fgood l' /\ ~ in_F st'.
Proof. unfold lex_text. intros H Hg. destruct (lex_text_loop_fok _ _ _ _ _ H Hg). split; [assumption|apply outF_not_in_F; assumption]. Qed.

Section Hyps.
Hypothesis lex_number_ok : forall l st' l',
  lex_number uni_letter uni_digit inp ilen base l = Ok (st', l') -> l_start l = l_pos l -> numhead inp l -> fgood l ->
  fgood l' /\ (st' = LInsideTag \/ st' = LDone) /\ (st' = LInsideTag -> l_start l' = l_pos l').
Hypothesis lex_text_ok : forall l st' l', lex_text inp ilen base l = Ok (st', l') -> fgood l -> fgood l' /\ ~ in_F st'.
Hypothesis lex_soydoc_ok : forall l st' l', lex_soydoc inp ilen base l = Ok (st', l') -> fgood l -> fgood l' /\ ~ in_F st'.

Theorem step_sinv st l st' l' : step st l = Ok (st', l') -> sinv inp st l -> sinv inp st' l'.
Proof.
  destruct st; cbn [Lexer.step]; intros H Hi.
  - destruct Hi as (Hg & _). destruct (lex_text_ok _ _ _ H Hg). apply not_in_F_sinv; assumption.
  - eapply lex_left_delim_sinv; eauto.
  - eapply lex_right_delim_sinv; eauto.
  - eapply lex_right_delim_end_sinv; eauto.
  - eapply lex_begin_tag_sinv; eauto.
  - eapply lex_inside_tag_sinv; eauto.
  - destruct Hi as (Hg & _). destruct (lex_soydoc_ok _ _ _ H Hg). apply not_in_F_sinv; assumption.
  - eapply lex_line_comment_sinv; eauto.
  - eapply lex_block_comment_sinv; eauto.
  - eapply lex_string_sinv; eauto.
  - eapply lex_ident_sinv; eauto.
  - eapply lex_header_param_sinv; eauto.
  - eapply lex_css_sinv; eauto.
  - eapply lex_literal_sinv; eauto.
  - destruct Hi as (Hg & Hs & Hn).
    destruct (lex_number_ok _ _ _ H (Hs (or_intror (or_intror eq_refl))) (Hn eq_refl) Hg) as (G & [-> | ->] & S).
    + unfold sinv, in_F. split; [exact G|]. split; [intros _; auto|intros X; discriminate X].
    + apply not_in_F_sinv; [exact G|]. intros [X|[X|X]]; discriminate X.
  - injection H as <- <-. exact Hi.
Qed.

Theorem run_sinv fuel : forall st l l', run uni_letter uni_digit inp ilen base fuel st l = Ok l' -> sinv inp st l -> fgood l'.
Proof.
  assert (D : forall l l', Ok l = Ok l' -> sinv inp LDone l -> fgood l') by (intros l l' H (Hg & _); injection H as <-; exact Hg).
  induction fuel; intros st l l' H Hi.
  - destruct st; cbn [run] in H; try discriminate H. eapply D; eauto.
  - destruct st; cbn [run] in H; try (eapply D; eauto; fail);
    apply bind_ok_inv in H; destruct H as ([st1 l1] & E & H); (eapply IHfuel; [exact H|]; eapply step_sinv; [exact E|exact Hi]).
Qed.
End Hyps.

(* the same with the hypotheses on lexText and lexSoyDoc discharged: only lexNumber is left *)
Section HypNumber.
Hypothesis lex_number_ok : forall l st' l',
  lex_number uni_letter uni_digit inp ilen base l = Ok (st', l') -> l_start l = l_pos l -> numhead inp l -> fgood l ->
  fgood l' /\ (st' = LInsideTag \/ st' = LDone) /\ (st' = LInsideTag -> l_start l' = l_pos l').
Theorem step_sinv_num st l st' l' : step st l = Ok (st', l') -> sinv inp st l -> sinv inp st' l'.
Proof. exact (step_sinv lex_number_ok lex_text_good lex_soydoc_good st l st' l'). Qed.
Theorem run_sinv_num fuel st l l' : run uni_letter uni_digit inp ilen base fuel st l = Ok l' -> sinv inp st l -> fgood l'.
Proof. exact (run_sinv lex_number_ok lex_text_good lex_soydoc_good fuel st l l'). Qed.
End HypNumber.

End Run.

Lemma sinv_init inp mode : sinv inp (entry_state mode) lex_init.
Proof.
  unfold sinv, fgood, in_F. cbn [lex_init l_out l_start l_pos]. split; [constructor|]. split; [reflexivity|].
  destruct mode; discriminate.
Qed.
