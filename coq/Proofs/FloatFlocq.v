(* Num.round53 is Flocq's rounding to nearest, ties to even, at 53 bits of precision:
     round radix2 (FLX_exp 53) ZnearestE (M * 2^E) = m * 2^e   for (m, e) = round53 M E,
   proved through Flocq's own bracketing calculus (Calc.Round.round_trunc_sign_NE_correct: truncate the
   mantissa to the canonical exponent, keep the location of the rest, decide by location and parity).
   With the exponent inside binary64's normal range this is also the rounding of FLT_exp (-1074) 53, the
   format of IEEE754.Binary's binary_float 53 1024 (Bplus_correct, Bmult_correct ... are stated with it).
   These theorems are about real numbers: Print Assumptions reports the axioms of Coq's Reals. *)
From Coq Require Import ZArith Reals Lia.
From Flocq Require Import Core.Core Core.Digits Core.Float_prop Calc.Bracket Calc.Round Calc.Operations.
From Soy Require Import Model.Bytes Model.Num.
Open Scope Z_scope.

#[local] Instance ff_prec_gt_0 : Prec_gt_0 53.
Proof. reflexivity. Qed.

Lemma ff_digits_log2 a : 0 < a -> Zdigits radix2 a = Z.log2 a + 1.
Proof.
  intros Ha. apply Zdigits_unique. rewrite Z.abs_eq by lia. replace (Z.log2 a + 1 - 1) with (Z.log2 a) by lia.
  change (Zpower radix2 (Z.log2 a)) with (2 ^ Z.log2 a). change (Zpower radix2 (Z.log2 a + 1)) with (2 ^ (Z.log2 a + 1)).
  pose proof (Z.log2_spec a Ha) as [L1 L2]. rewrite <- Z.add_1_r in L2. lia.
Qed.

Lemma ff_Rlt_bool_F2R M E : Rlt_bool (F2R (Float radix2 M E)) 0 = (M <? 0).
Proof.
  destruct (Z.ltb_spec M 0) as [H|H].
  - apply Rlt_bool_true. apply F2R_lt_0. exact H.
  - apply Rlt_bool_false. apply F2R_ge_0. exact H.
Qed.

Theorem round53_is_flocq_round (M E : Z) :
  let '(m, e) := round53 M E in
  round radix2 (FLX_exp 53) ZnearestE (F2R (Float radix2 M E)) = F2R (Float radix2 m e).
Proof.
  set (x := F2R (Float radix2 M E)).
  assert (Hin : inbetween_float radix2 (Z.abs M) E (Rabs x) loc_Exact).
  { unfold inbetween_float. constructor. unfold x. symmetry. apply F2R_Zabs. }
  pose proof (round_trunc_sign_NE_correct radix2 (FLX_exp 53) x (Z.abs M) E loc_Exact Hin (or_intror eq_refl)) as R.
  rewrite R. clear R. unfold x. rewrite ff_Rlt_bool_F2R. unfold truncate, round53. cbv zeta.
  set (a := Z.abs M).
  destruct (Z.eq_dec a 0) as [E0|N0].
  - (* zero *)
    rewrite E0. change (Zdigits radix2 0) with 0. unfold FLX_exp. replace (0 <? 0 + E - 53 - E) with false by lia.
    change (Z.log2 0 + 1 <=? 53) with true. cbv iota. cbn [round_N cond_incr].
    replace M with 0 by (unfold a in E0; lia). reflexivity.
  - assert (Ha : 0 < a) by (unfold a in *; lia).
    rewrite (ff_digits_log2 a Ha). unfold FLX_exp. set (n := Z.log2 a + 1).
    replace (n + E - 53 - E) with (n - 53) by lia.
    destruct (Z.leb_spec n 53) as [Hn|Hn].
    + replace (0 <? n - 53) with false by lia. cbn [round_N cond_incr]. unfold cond_Zopp.
      destruct (Z.ltb_spec M 0); f_equal; f_equal; unfold a; lia.
    + replace (0 <? n - 53) with true by lia. unfold truncate_aux. set (k := n - 53).
      change (Zpower radix2 k) with (2 ^ k).
      assert (Hk : 0 < k) by (unfold k; lia).
      assert (Ek : 2 ^ k = 2 * 2 ^ (k - 1)) by (replace k with (1 + (k - 1)) at 1 by lia; rewrite Z.pow_add_r by lia; reflexivity).
      assert (Pk : 0 < 2 ^ (k - 1)) by (apply Z.pow_pos_nonneg; lia).
      pose proof (Z.mod_pos_bound a (2 ^ k) ltac:(lia)) as Hlo.
      set (hi := a / 2 ^ k). set (lo := a mod 2 ^ k) in *.
      unfold new_location. replace (Z.even (2 ^ k)) with true by (rewrite Ek; symmetry; apply Z.even_mul).
      unfold new_location_even.
      replace (E + k) with (E + k) by reflexivity.
      assert (Hres : cond_incr (round_N (negb (Z.even hi))
                       (if Zeq_bool lo 0 then loc_Exact
                        else loc_Inexact match 2 * lo ?= 2 ^ k with Lt => Lt | Eq => Eq | Gt => Gt end)) hi
                     = match lo ?= 2 ^ (k - 1) with Gt => hi + 1 | Lt => hi | Eq => if Z.even hi then hi else hi + 1 end).
      { destruct (Zeq_bool_spec lo 0) as [L0|L0].
        - rewrite L0. replace (0 ?= 2 ^ (k - 1)) with Lt by (symmetry; apply Z.compare_lt_iff; lia). reflexivity.
        - replace (2 * lo ?= 2 ^ k) with (lo ?= 2 ^ (k - 1)).
          2:{ rewrite Ek. apply Zmult_compare_compat_l. lia. }
          destruct (lo ?= 2 ^ (k - 1)); cbn [round_N cond_incr]; [destruct (Z.even hi)|..]; reflexivity. }
      rewrite Hres. unfold cond_Zopp. destruct (M <? 0); reflexivity.
Qed.

(* ---- the operations of Num.v ---- *)
(* the value of a float of the model *)
Definition ff_R (x : fl) : R :=
  match x with
  | FFin m e => F2R (Float radix2 m e)
  | _ => 0%R
  end.

Lemma ff_strip2 p : forall e q e', strip2 p e = (q, e') ->
  forall s : bool, F2R (Float radix2 (if s then Zneg p else Zpos p) e) = F2R (Float radix2 (if s then Zneg q else Zpos q) e').
Proof.
  induction p as [p IH|p IH|]; intros e q e' H s; cbn [strip2] in H; try (injection H as <- <-; reflexivity).
  rewrite <- (IH (e + 1) q e' H s).
  rewrite (F2R_change_exp radix2 e (if s then Zneg p else Zpos p) (e + 1)) by lia.
  replace (e + 1 - e) with 1 by lia. change (Zpower radix2 1) with 2. f_equal. f_equal. destruct s; lia.
Qed.

(* mk_fl keeps the value *)
Lemma ff_mk_fl m e x : mk_fl m e = Some x -> ff_R x = F2R (Float radix2 m e).
Proof.
  unfold mk_fl. destruct m as [|p|p].
  - intros H. injection H as <-. cbn [ff_R]. symmetry. apply F2R_0.
  - destruct (strip2 p e) as [q e'] eqn:S. destruct ((Zpos q <? two53) && (-1000 <? e') && (e' <? 900))%bool; [|discriminate].
    intros H. injection H as <-. cbn [ff_R]. symmetry. exact (ff_strip2 p e q e' S false).
  - destruct (strip2 p e) as [q e'] eqn:S. destruct ((Zpos q <? two53) && (-1000 <? e') && (e' <? 900))%bool; [|discriminate].
    intros H. injection H as <-. cbn [ff_R]. symmetry. exact (ff_strip2 p e q e' S true).
Qed.

(* mk_fl_r is the correctly rounded value *)
Lemma ff_mk_fl_r M E x : mk_fl_r M E = Some x ->
  ff_R x = round radix2 (FLX_exp 53) ZnearestE (F2R (Float radix2 M E)).
Proof.
  unfold mk_fl_r. pose proof (round53_is_flocq_round M E) as R. destruct (round53 M E) as [m e].
  intros H. rewrite (ff_mk_fl m e x H). symmetry. exact R.
Qed.

Theorem fl_mul_r_flocq m1 e1 m2 e2 z : fl_mul_r (FFin m1 e1) (FFin m2 e2) = Some z ->
  ff_R z = round radix2 (FLX_exp 53) ZnearestE (ff_R (FFin m1 e1) * ff_R (FFin m2 e2)).
Proof.
  cbn [fl_mul_r ff_R]. intros H. rewrite (ff_mk_fl_r _ _ _ H).
  rewrite <- F2R_mult. reflexivity.
Qed.

Lemma ff_add_exact m1 e1 m2 e2 :
  F2R (Float radix2 (m1 * 2 ^ (e1 - Z.min e1 e2) + m2 * 2 ^ (e2 - Z.min e1 e2)) (Z.min e1 e2)) =
  (F2R (Float radix2 m1 e1) + F2R (Float radix2 m2 e2))%R.
Proof.
  rewrite <- F2R_plus. unfold Fplus, Falign. destruct (Zle_bool e1 e2) eqn:C.
  - apply Zle_bool_imp_le in C. replace (Z.min e1 e2) with e1 by lia. rewrite Z.sub_diag, Z.pow_0_r, Z.mul_1_r. reflexivity.
  - assert (e2 < e1) by (destruct (Z.le_gt_cases e1 e2) as [L|L]; [apply Zle_imp_le_bool in L; congruence|lia]).
    replace (Z.min e1 e2) with e2 by lia. rewrite Z.sub_diag, Z.pow_0_r, Z.mul_1_r. reflexivity.
Qed.

Theorem fl_add_r_flocq m1 e1 m2 e2 z : fl_add_r (FFin m1 e1) (FFin m2 e2) = Some z ->
  ff_R z = round radix2 (FLX_exp 53) ZnearestE (ff_R (FFin m1 e1) + ff_R (FFin m2 e2)).
Proof.
  cbn [fl_add_r ff_R]. cbv zeta. intros H. rewrite (ff_mk_fl_r _ _ _ H). rewrite ff_add_exact. reflexivity.
Qed.

Theorem fl_sub_r_flocq m1 e1 m2 e2 z : fl_sub_r (FFin m1 e1) (FFin m2 e2) = Some z ->
  ff_R z = round radix2 (FLX_exp 53) ZnearestE (ff_R (FFin m1 e1) - ff_R (FFin m2 e2)).
Proof.
  unfold fl_sub_r. cbn [fl_neg]. intros H. rewrite (fl_add_r_flocq _ _ _ _ _ H). cbn [ff_R].
  rewrite F2R_Zopp. reflexivity.
Qed.

Theorem fl_of_int_flocq z x : fl_of_int z = Some x ->
  ff_R x = round radix2 (FLX_exp 53) ZnearestE (IZR z).
Proof.
  unfold fl_of_int. intros H. rewrite (ff_mk_fl_r _ _ _ H). f_equal.
  unfold F2R. cbn [Fnum Fexp bpow]. apply Rmult_1_r.
Qed.

(* binary64 proper (IEEE754.Binary's format is FLT_exp (-1074) 53): the same rounding wherever the exact
   result is not below the least normal number 2^-1022 -- in particular for every result inside mk_fl's window *)
Corollary ff_round_binary64 v : (bpow radix2 (-1022) <= Rabs v)%R ->
  round radix2 (FLT_exp (-1074) 53) ZnearestE v = round radix2 (FLX_exp 53) ZnearestE v.
Proof. intros H. apply round_FLT_FLX. exact H. Qed.

(* the four statements together, for Properties/C01.v (which does not import Flocq's notations) *)
Definition ff_correctly_rounded : Prop :=
  (forall M E, let '(m, e) := round53 M E in
     round radix2 (FLX_exp 53) ZnearestE (F2R (Float radix2 M E)) = F2R (Float radix2 m e)) /\
  (forall m1 e1 m2 e2 z, fl_add_r (FFin m1 e1) (FFin m2 e2) = Some z ->
     ff_R z = round radix2 (FLX_exp 53) ZnearestE (ff_R (FFin m1 e1) + ff_R (FFin m2 e2))) /\
  (forall m1 e1 m2 e2 z, fl_sub_r (FFin m1 e1) (FFin m2 e2) = Some z ->
     ff_R z = round radix2 (FLX_exp 53) ZnearestE (ff_R (FFin m1 e1) - ff_R (FFin m2 e2))) /\
  (forall m1 e1 m2 e2 z, fl_mul_r (FFin m1 e1) (FFin m2 e2) = Some z ->
     ff_R z = round radix2 (FLX_exp 53) ZnearestE (ff_R (FFin m1 e1) * ff_R (FFin m2 e2))) /\
  (forall z x, fl_of_int z = Some x -> ff_R x = round radix2 (FLX_exp 53) ZnearestE (IZR z)).

Theorem ff_correctly_rounded_holds : ff_correctly_rounded.
Proof.
  split; [exact round53_is_flocq_round|]. split; [exact fl_add_r_flocq|]. split; [exact fl_sub_r_flocq|].
  split; [exact fl_mul_r_flocq|exact fl_of_int_flocq].
Qed.
