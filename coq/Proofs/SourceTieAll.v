(* Every source-tie file (the hand models against the Go functions as tablegen's gotrans
   translates them from today's source).  Property files import the individual files they
   need; this one exists so that `make` and a reader find them in one place. *)
From Soy Require Export Proofs.SourceTieBase Proofs.SourceTieValue Proofs.SourceTieLexer Proofs.SourceTieErrPos Proofs.SourceTieExpr Proofs.SourceTieParser
  Proofs.SourceTieText Proofs.SourceTieQuote Proofs.SourceTieData Proofs.SourceTieHtml Proofs.SourceTieMsg Proofs.SourceTiePo
  Proofs.SourceTieJs Proofs.SourceTieChecker Proofs.SourceTieAstPrint Proofs.SourceTieState Proofs.SourceTieJsScope Proofs.SourceTieJsText Proofs.SourceTieScope Proofs.SourceTieRegistry Proofs.SourceTieDirectives Proofs.SourceTieUnquote Proofs.SourceTieMsgLoops Proofs.SourceTieUtf8 Proofs.SourceTieQuoteString Proofs.SourceTieWordBreaks.
