(* Float round trip, part 5: the printer's float text (ast FloatNode.String: strconv 'g' -1, with ".0"
   appended when the text has neither '.' nor 'e') reads back as the float printed.  This is what used to
   be the hypothesis float_ok of the round-trip theorems of C17 and C01. *)
From Soy Require Import Model.Bytes Model.Num Model.NumLit Model.AstPrint Spec.ExprSyntax Proofs.FloatRtText Proofs.FloatRtMain.
Open Scope N_scope.

Theorem fl_print_parse (f : fl) (s : bstr) :
  fl_finite_norm f -> fl_print f = Some s -> parse_float_round s = FRVal f.
Proof.
  intros Hn Hs. unfold fl_print in Hs. destruct (fl_to_string f) as [t|] eqn:Et; [|discriminate].
  injection Hs as <-. destruct (fl_to_string_parse f t Hn Et) as [A B]. unfold has_dot_or_e.
  destruct B as [[B _]|(B & C & _)]; rewrite B; [exact A|exact C].
Qed.

(* and it is a float text: digits, then a fraction or an exponent *)
Theorem fl_print_shape (f : fl) (s : bstr) :
  fl_finite_norm f -> fl_print f = Some s -> rt_shape s.
Proof.
  intros Hn Hs. unfold fl_print in Hs. destruct (fl_to_string f) as [t|] eqn:Et; [|discriminate].
  injection Hs as <-. destruct (fl_to_string_parse f t Hn Et) as [A B]. unfold has_dot_or_e.
  destruct B as [[B C]|(B & _ & C)]; rewrite B; exact C.
Qed.

(* the printer model prints every float of the model, and no other finite float in normal form *)
Theorem fl_print_total (f : fl) : fl_in_window f -> exists s, fl_print f = Some s.
Proof. intros H. destruct (fl_to_string_total f H) as (t & Et). unfold fl_print. rewrite Et. eexists. reflexivity. Qed.

(* so the float clause of wf_expr / syntax_ok is a condition on the shape of the value alone *)
Theorem float_ok_iff_window (f : fl) : float_ok f <-> fl_in_window f.
Proof.
  unfold float_ok. split.
  - intros (Hn & s & Hs). unfold fl_print in Hs. destruct (fl_to_string f) as [t|] eqn:Et; [|discriminate].
    exact (fl_to_string_window f t Hn Et).
  - intros H. split; [apply rt_window_norm; exact H|apply fl_print_total; exact H].
Qed.

Corollary fl_print_roundtrip (f : fl) : fl_in_window f -> exists s, fl_print f = Some s /\ parse_float_round s = FRVal f.
Proof.
  intros H. destruct (fl_print_total f H) as (s & Hs). exists s. split; [exact Hs|].
  exact (fl_print_parse f s (rt_window_norm f H) Hs).
Qed.
