(* C01: the tree walker of Model/Interp.v evaluates the translation of every Spec expression
   exactly as Spec/Expr.v says.  Part 3: one unfolding of the walker under an induction
   hypothesis on the recursive call, then the induction on the fuel (eval_impl_spec), and the
   print corollaries. *)
From Coq Require Import Lia ZifyN ZifyBool ZifyNat.
From Soy Require Import Model.Bytes Model.Num Model.Values Model.Outcome Model.Ast Model.Interp
  Model.Escape Model.Directives Model.Print
  Model.ExprTrans Spec.Expr Generated.Tables Proofs.ValueProofs Proofs.EvalProofs Proofs.EvalFuncProofs.
Open Scope N_scope.

(* ================= one unfolding of the walker ================= *)

Definition ik_of (ix : index) : option Z * bstr :=
  match ix with IKey k => (None, k) | IPos i => (Some i, []) end.

Lemma max_list_le (l : list nat) x : In x l -> (x <= max_list l)%nat.
Proof.
  unfold max_list. induction l as [|y r IH]; cbn [In fold_right]; [tauto|].
  intros [->|H]; [apply Nat.le_max_l|]. specialize (IH H).
  etransitivity; [exact IH | apply Nat.le_max_r].
Qed.

Section Body.
Variable G : list (bstr * value).
Variable env : list (bstr * value).
Variable ij : option value.
Variable cf : cfg.
Hypothesis Hij : c_ij cf = ij.
Variable w : node -> M value.
Variable f : nat.
Hypothesis Hw : forall e, (height e <= f)%nat -> wf_expr G e = true ->
  sim env (eval_spec G env ij e) (w (to_node G e)).

Let ev := eval_spec G env ij.

Lemma items_sim es :
  (forall e, In e es -> (height e <= f)%nat) -> forallb (wf_expr G) es = true ->
  sim env (ev_items ev es) (eval_list w (map (to_node G) es)).
Proof.
  induction es as [|e r IH]; intros Hh Hwf; cbn [ev_items eval_list map].
  - apply sim_ret.
  - cbn [forallb] in Hwf. apply andb_true_iff in Hwf. destruct Hwf as [Hwe Hwr].
    apply sim_bind.
    + apply sim_eval. apply Hw; [apply Hh; left; reflexivity | exact Hwe].
    + intros v. apply sim_bind.
      * apply IH; [intros e' He'; apply Hh; right; exact He' | exact Hwr].
      * intros vs. apply sim_ret.
Qed.

Lemma entries_sim kvs :
  (forall kv, In kv kvs -> (height (snd kv) <= f)%nat) -> forallb (fun kv => wf_expr G (snd kv)) kvs = true ->
  sim env (ev_entries ev kvs) (maplit_items w (map (fun kv => (fst kv, to_node G (snd kv))) kvs)).
Proof.
  induction kvs as [|[k e] r IH]; intros Hh Hwf; cbn [ev_entries maplit_items map fst snd].
  - apply sim_ret.
  - cbn [forallb snd] in Hwf. apply andb_true_iff in Hwf. destruct Hwf as [Hwe Hwr].
    apply sim_bind.
    + apply sim_eval. apply Hw; [apply (Hh (k, e)); left; reflexivity | exact Hwe].
    + intros v. apply sim_bind.
      * apply IH; [intros kv Hkv; apply Hh; right; exact Hkv | exact Hwr].
      * intros m. apply sim_ret.
Qed.

Lemma index_of_sim v :
  sim_r env (fun ix ik => ik = ik_of ix) (rlift (index_of v))
    (match v with
     | VInt i => ret (Some i, @nil N)
     | _ => s <-- lift (value_string v) ;;; ret (@None Z, s)
     end).
Proof.
  assert (Hgen : forall o : outcome bstr,
            sim_r env (fun ix ik => ik = ik_of ix) (rlift (s <- o ;; Ok (IKey s)))
              (s <-- lift o ;;; ret (@None Z, s))).
  { intros o st _. unfold rlift, mbind, lift, ret, agree_r. destruct o as [s|em|em| | |]; cbn; try exact I.
    - exists (None, s), st. split; [reflexivity | split; [reflexivity | split; [apply frame_eq_refl | reflexivity]]].
    - exists em, st. split; [reflexivity | apply frame_eq_refl]. }
  destruct v; try apply Hgen.
  cbn [index_of]. intros st _. cbn.
  exists (Some z, []), st. split; [reflexivity | split; [reflexivity | split; [apply frame_eq_refl | reflexivity]]].
Qed.

Lemma nullsafe_acc_node a : is_nullsafe (acc_node G a) = acc_nullsafe a.
Proof. destruct a; reflexivity. Qed.

Lemma accesses_sim accs :
  (forall a, In a accs -> (acc_height a <= f)%nat) -> forallb (wf_access G) accs = true ->
  forall ref, sim env (ev_accesses ev accs ref) (dataref_access w (map (acc_node G) accs) ref).
Proof.
  induction accs as [|a rest IH]; intros Hh Hwf ref; cbn [ev_accesses dataref_access map].
  - apply sim_ret.
  - cbn [forallb] in Hwf. apply andb_true_iff in Hwf. destruct Hwf as [Hwa Hwr].
    assert (IH' : forall ref, sim env (ev_accesses ev rest ref) (dataref_access w (map (acc_node G) rest) ref)).
    { apply IH; [intros a' Ha'; apply Hh; right; exact Ha' | exact Hwr]. }
    apply sim_r_eq.
    apply (sim_r_bind env (fun ix ik => ik = ik_of ix) eq).
    + destruct a as [ns k | ns i | ns e]; cbn [acc_node].
      * apply sim_r_ret. reflexivity.
      * apply sim_r_ret. reflexivity.
      * apply (sim_r_bind env eq (fun ix ik => ik = ik_of ix)).
        -- apply sim_r_eq. apply sim_eval. apply Hw; [apply (Hh (AExpr ns e)); left; reflexivity | exact Hwa].
        -- intros v v' <-. apply index_of_sim.
    + intros ix ik ->. apply sim_r_eq. rewrite nullsafe_acc_node.
      destruct ref; destruct ix; cbn [ik_of access_step];
        try (destruct (acc_nullsafe a); [apply sim_ret | apply sim_err]);
        try apply sim_err.
      * rewrite element_list_index. apply IH'.
      * apply IH'.
Qed.
End Body.
