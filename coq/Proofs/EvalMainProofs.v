(* C01: the tree walker of Model/Interp.v evaluates the translation of every Spec expression
   exactly as Spec/Expr.v says.  Part 3: one unfolding of the walker under an induction
   hypothesis on the recursive call, then the induction on the fuel (eval_impl_spec), and the
   print corollaries. *)
From Coq Require Import Lia ZifyN ZifyBool ZifyNat.
From Soy Require Import Model.Bytes Model.Num Model.Values Model.Outcome Model.Ast Model.Interp
  Model.Escape Model.Directives Model.Print
  Model.ExprTrans Spec.Expr Generated.Tables Proofs.ValueProofs Proofs.EvalProofs Proofs.EvalFuncProofs.
Open Scope N_scope.

(* ================= one unfolding of the walker ================= *)

Definition ik_of (ix : index) : option Z * bstr :=
  match ix with IKey k => (None, k) | IPos i => (Some i, []) end.

Lemma max_list_le (l : list nat) x : In x l -> (x <= max_list l)%nat.
Proof.
  unfold max_list. induction l as [|y r IH]; cbn [In fold_right]; [tauto|].
  intros [->|H]; [apply Nat.le_max_l|]. specialize (IH H).
  etransitivity; [exact IH | apply Nat.le_max_r].
Qed.

Section Body.
Variable G : list (bstr * value).
Variable env : list (bstr * value).
Variable ij : option value.
Variable cf : cfg.
Hypothesis Hij : c_ij cf = ij.
Variable w : node -> M value.
Variable f : nat.
Hypothesis Hw : forall e, (height e <= f)%nat -> wf_expr G e = true ->
  sim env (eval_spec G env ij e) (w (to_node G e)).

Let ev := eval_spec G env ij.

Lemma items_sim es :
  (forall e, In e es -> (height e <= f)%nat) -> forallb (wf_expr G) es = true ->
  sim env (ev_items ev es) (eval_list w (map (to_node G) es)).
Proof.
  induction es as [|e r IH]; intros Hh Hwf; cbn [ev_items eval_list map].
  - apply sim_ret.
  - cbn [forallb] in Hwf. apply andb_true_iff in Hwf. destruct Hwf as [Hwe Hwr].
    apply sim_bind.
    + apply sim_eval. apply Hw; [apply Hh; left; reflexivity | exact Hwe].
    + intros v. apply sim_bind.
      * apply IH; [intros e' He'; apply Hh; right; exact He' | exact Hwr].
      * intros vs. apply sim_ret.
Qed.

Lemma entries_sim kvs :
  (forall kv, In kv kvs -> (height (snd kv) <= f)%nat) -> forallb (fun kv => wf_expr G (snd kv)) kvs = true ->
  sim env (ev_entries ev kvs) (maplit_items w (map (fun kv => (fst kv, to_node G (snd kv))) kvs)).
Proof.
  induction kvs as [|[k e] r IH]; intros Hh Hwf; cbn [ev_entries maplit_items map fst snd].
  - apply sim_ret.
  - cbn [forallb snd] in Hwf. apply andb_true_iff in Hwf. destruct Hwf as [Hwe Hwr].
    apply sim_bind.
    + apply sim_eval. apply Hw; [apply (Hh (k, e)); left; reflexivity | exact Hwe].
    + intros v. apply sim_bind.
      * apply IH; [intros kv Hkv; apply Hh; right; exact Hkv | exact Hwr].
      * intros m. apply sim_ret.
Qed.

Lemma index_of_sim v :
  sim_r env (fun ix ik => ik = ik_of ix) (rlift (index_of v))
    (match v with
     | VInt i => ret (Some i, @nil N)
     | _ => s <-- lift (value_string v) ;;; ret (@None Z, s)
     end).
Proof.
  assert (Hgen : forall o : outcome bstr,
            sim_r env (fun ix ik => ik = ik_of ix) (rlift (s <- o ;; Ok (IKey s)))
              (s <-- lift o ;;; ret (@None Z, s))).
  { intros o st _. unfold rlift, mbind, lift, ret, agree_r. destruct o as [s|em|em| | |]; cbn; try exact I.
    - exists (None, s), st. split; [reflexivity | split; [reflexivity | split; [apply frame_eq_refl | reflexivity]]].
    - exists em, st. split; [reflexivity | apply frame_eq_refl]. }
  destruct v; try apply Hgen.
  cbn [index_of]. intros st _. cbn.
  exists (Some z, []), st. split; [reflexivity | split; [reflexivity | split; [apply frame_eq_refl | reflexivity]]].
Qed.

Lemma nullsafe_acc_node a : is_nullsafe (acc_node G a) = acc_nullsafe a.
Proof. destruct a; reflexivity. Qed.

Lemma accesses_sim accs :
  (forall a, In a accs -> (acc_height a <= f)%nat) -> forallb (wf_access G) accs = true ->
  forall ref, sim env (ev_accesses ev accs ref) (dataref_access w (map (acc_node G) accs) ref).
Proof.
  induction accs as [|a rest IH]; intros Hh Hwf ref; cbn [ev_accesses dataref_access map].
  - apply sim_ret.
  - cbn [forallb] in Hwf. apply andb_true_iff in Hwf. destruct Hwf as [Hwa Hwr].
    assert (IH' : forall ref, sim env (ev_accesses ev rest ref) (dataref_access w (map (acc_node G) rest) ref)).
    { apply IH; [intros a' Ha'; apply Hh; right; exact Ha' | exact Hwr]. }
    apply sim_r_eq.
    apply (sim_r_bind env (fun ix ik => ik = ik_of ix) eq).
    + destruct a as [ns k | ns i | ns e]; cbn [acc_node].
      * apply sim_r_ret. reflexivity.
      * apply sim_r_ret. reflexivity.
      * apply (sim_r_bind env eq (fun ix ik => ik = ik_of ix)).
        -- apply sim_r_eq. apply sim_eval. apply Hw; [apply (Hh (AExpr ns e)); left; reflexivity | exact Hwa].
        -- intros v v' <-. apply index_of_sim.
    + intros ix ik ->. apply sim_r_eq. rewrite nullsafe_acc_node.
      destruct ref; destruct ix; cbn [ik_of access_step];
        try (destruct (acc_nullsafe a); [apply sim_ret | apply sim_err]);
        try apply sim_err.
      * rewrite element_list_index. apply IH'.
      * apply IH'.
Qed.

(* the call of a built-in function *)
Lemma call_sim fn args :
  (forall e, In e args -> (height e <= f)%nat) -> forallb (wf_expr G) args = true ->
  sim env (ev (ECall fn args)) (call_func w (fn_name fn) (map (to_node G) args)).
Proof.
  intros Hh Hwf. unfold ev. cbn [eval_spec]. unfold call_func.
  rewrite fn_arities_table, map_length, mem_of_nat.
  destruct (existsb (Nat.eqb (length args)) (fn_arities fn)) eqn:Har; cbn [negb]; [|apply sim_err].
  apply sim_bind; [apply items_sim; assumption|]. intros vs.
  intros st Hst. unfold rbind, mbind, rlift, lift, agree.
  pose proof (apply_rel fn vs) as Hrel.
  destruct (apply_fn_spec fn vs) as [r| | | | |]; cbn in Hrel; try exact I.
  - rewrite Hrel. destruct r as [v | l | m]; cbn [fres_of].
    + exists st. split; [reflexivity | split; [apply frame_eq_refl | reflexivity]].
    + exact (sim_new_list_result env l st Hst).
    + exact (sim_new_map env m st Hst).
  - destruct Hrel as [m' ->]. exists m', st. split; [reflexivity | apply frame_eq_refl].
Qed.

Lemma sim_walk_body (r : R value) (n : node) :
  sim env r (walk_node cf w n) -> sim env r (walk_body cf w n).
Proof.
  intros H. unfold walk_body. apply sim_pre; [|exact H].
  intros s. split; [apply frame_eq_set_cur | reflexivity].
Qed.

Lemma le_S_max a c : (S (Nat.max a c) <= S f)%nat -> (a <= f)%nat /\ (c <= f)%nat.
Proof. lia. Qed.

Lemma in_map_le {A} (h : A -> nat) (l : list A) x :
  (S (max_list (map h l)) <= S f)%nat -> In x l -> (h x <= f)%nat.
Proof.
  intros Hle Hin. pose proof (max_list_le (map h l) (h x) (in_map h l x Hin)). lia.
Qed.

(* one unfolding of state.walk on the translation of any expression of height <= S f *)
Theorem body_sim e : (height e <= S f)%nat -> wf_expr G e = true ->
  sim env (ev e) (walk_body cf w (to_node G e)).
Proof.
  intros Hh Hwf. apply sim_walk_body. unfold ev.
  destruct e as [ | x | z | x | s | es | kvs | name | key accs | accs | fn args | a | a | op a c | a c | c a d];
    cbn [to_node walk_node eval_spec].
  - apply sim_ret.
  - apply sim_ret.
  - apply sim_ret.
  - apply sim_ret.
  - apply sim_ret.
  - (* list literal *)
    cbn [height] in Hh. cbn [wf_expr] in Hwf.
    apply sim_bind; [|intros vs; apply sim_new_list_literal].
    apply items_sim; [intros e He; exact (in_map_le height es e Hh He) | exact Hwf].
  - (* map literal *)
    cbn [height] in Hh. cbn [wf_expr] in Hwf. apply andb_true_iff in Hwf. destruct Hwf as [_ Hwf].
    apply sim_bind; [|intros m; apply sim_new_map].
    apply entries_sim; [intros kv Hkv; exact (in_map_le (fun kv => height (snd kv)) kvs kv Hh Hkv) | exact Hwf].
  - (* global *)
    cbn [wf_expr] in Hwf. destruct (assoc_s name G); [apply sim_ret | discriminate].
  - (* data reference *)
    cbn [height] in Hh. cbn [wf_expr] in Hwf. apply andb_true_iff in Hwf. destruct Hwf as [Hk Hwf].
    apply negb_true_iff in Hk. rewrite Hk.
    apply (sim_spec_ext env (r <~ rret (lookup env key) ;; ev_accesses (eval_spec G env ij) accs r)); [reflexivity|].
    apply sim_bind; [apply sim_lookup|]. intros ref.
    apply accesses_sim; [intros a Ha; exact (in_map_le acc_height accs a Hh Ha) | exact Hwf].
  - (* $ij *)
    cbn [height] in Hh. cbn [wf_expr] in Hwf.
    change (bstr_eqb s_ij s_ij) with true. cbv iota. rewrite Hij.
    case_eq ij; [intros v Eij | intros Eij].
    + apply (sim_spec_ext env (r <~ rret v ;; ev_accesses (eval_spec G env (Some v)) accs r)); [reflexivity|].
      apply sim_bind; [apply sim_ret|]. intros ref. rewrite <- Eij.
      apply accesses_sim; [intros a Ha; exact (in_map_le acc_height accs a Hh Ha) | exact Hwf].
    + apply (sim_spec_ext env (r <~ rerr ;; ev_accesses (eval_spec G env ij) accs r)); [reflexivity|].
      apply sim_bind; [apply sim_err|]. intros ref.
      apply accesses_sim; [intros a Ha; exact (in_map_le acc_height accs a Hh Ha) | exact Hwf].
  - (* function *)
    cbn [height] in Hh. cbn [wf_expr] in Hwf.
    rewrite fn_not_loop.
    apply (call_sim fn args); [intros e He; exact (in_map_le height args e Hh He) | exact Hwf].
  - (* unary minus *)
    cbn [height] in Hh. cbn [wf_expr] in Hwf.
    apply sim_bind; [apply sim_evaldef; apply Hw; [lia | exact Hwf]|].
    intros v. destruct v; cbn [sem_neg]; try apply sim_err; [|apply sim_ret].
    apply (sim_lift env (int_result (- z)) (Ok (VInt (wrap64 (- z))))). apply int_result_wrap.
  - (* not *)
    cbn [height] in Hh. cbn [wf_expr] in Hwf.
    apply sim_bind; [apply sim_eval; apply Hw; [lia | exact Hwf]|]. intros v. apply sim_ret.
  - (* binary operators *)
    cbn [height] in Hh. cbn [wf_expr] in Hwf. apply andb_true_iff in Hwf. destruct Hwf as [Hwa Hwc].
    apply le_S_max in Hh. destruct Hh as [Hha Hhc].
    assert (Sa : sim env (eval_spec G env ij a) (eval w (to_node G a))) by (apply sim_eval; apply Hw; assumption).
    assert (Sc : sim env (eval_spec G env ij c) (eval w (to_node G c))) by (apply sim_eval; apply Hw; assumption).
    assert (Da : sim env (ev_defined (eval_spec G env ij) a) (evaldef w (to_node G a))) by (apply sim_evaldef; apply Hw; assumption).
    assert (Dc : sim env (ev_defined (eval_spec G env ij) c) (evaldef w (to_node G c))) by (apply sim_evaldef; apply Hw; assumption).
    destruct op; cbn [binop_of];
      try (apply sim_bind; [exact Da|]; intros x; apply sim_bind; [exact Dc|]; intros y; apply sim_lift).
    + exact (strict_rel BMul x y I).
    + exact (strict_rel BDiv x y I).
    + exact (strict_rel BMod x y I).
    + exact (strict_rel BAdd x y I).
    + exact (strict_rel BSub x y I).
    + exact (strict_rel BLt x y I).
    + exact (strict_rel BGt x y I).
    + exact (strict_rel BLe x y I).
    + exact (strict_rel BGe x y I).
    + apply sim_bind; [exact Sa|]; intros x; apply sim_bind; [exact Sc|]; intros y; apply sim_ret.
    + apply sim_bind; [exact Sa|]; intros x; apply sim_bind; [exact Sc|]; intros y; apply sim_ret.
    + apply sim_bind; [exact Sa|]; intros x. destruct (truthy x); [|apply sim_ret].
      apply sim_bind; [exact Sc|]; intros y; apply sim_ret.
    + apply sim_bind; [exact Sa|]; intros x. destruct (truthy x); [apply sim_ret|].
      apply sim_bind; [exact Sc|]; intros y; apply sim_ret.
  - (* elvis *)
    cbn [height] in Hh. cbn [wf_expr] in Hwf. apply andb_true_iff in Hwf. destruct Hwf as [Hwa Hwc].
    apply le_S_max in Hh. destruct Hh as [Hha Hhc].
    apply sim_bind; [apply sim_eval; apply Hw; assumption|]. intros x.
    replace (is_nullish x) with (null_or_undef x) by (destruct x; reflexivity).
    destruct (null_or_undef x); [apply sim_eval; apply Hw; assumption | apply sim_ret].
  - (* ternary *)
    cbn [height] in Hh. cbn [wf_expr] in Hwf.
    apply andb_true_iff in Hwf. destruct Hwf as [Hwf Hwd]. apply andb_true_iff in Hwf. destruct Hwf as [Hwc Hwa].
    assert (Hc : (height c <= f)%nat) by lia. assert (Ha : (height a <= f)%nat) by lia. assert (Hd : (height d <= f)%nat) by lia.
    apply sim_bind; [apply sim_eval; apply Hw; assumption|]. intros x.
    destruct (truthy x); apply sim_eval; apply Hw; assumption.
Qed.
End Body.

(* ================= induction on the fuel ================= *)

Lemma height_pos e : (1 <= height e)%nat.
Proof. destruct e; cbn [height]; lia. Qed.

Theorem eval_sim G env ij cf : c_ij cf = ij ->
  forall fuel e, (height e <= fuel)%nat -> wf_expr G e = true ->
  sim env (eval_spec G env ij e) (walk cf fuel (to_node G e)).
Proof.
  intros Hij. induction fuel as [|f IH]; intros e Hh Hwf.
  - pose proof (height_pos e). lia.
  - change (walk cf (S f) (to_node G e)) with (walk_body cf (walk cf f) (to_node G e)).
    apply (body_sim G env ij cf Hij (walk cf f) f IH e Hh Hwf).
Qed.

(* the scope stack, flattened *)
Lemma assoc_s_app {A} k (l1 l2 : list (bstr * A)) :
  assoc_s k (l1 ++ l2) = match assoc_s k l1 with Some v => Some v | None => assoc_s k l2 end.
Proof.
  induction l1 as [|[k' v] r IH]; cbn [app assoc_s]; [reflexivity|].
  destruct (bstr_eqb k k'); [reflexivity | exact IH].
Qed.

Lemma sc_lookup_flatten s k : sc_lookup s k = assoc_s k (flatten s).
Proof.
  unfold flatten. induction s as [|fr r IH]; cbn [sc_lookup map concat]; [reflexivity|].
  rewrite assoc_s_app, IH. reflexivity.
Qed.

(* eval_impl_spec: for EVERY expression tree, every state of the walker (its scope stack
   flattened is the environment), injected data and fuel >= the nesting depth:
   when the Spec gives a value the walker returns that very value (fresh identities counted
   from the walker's next_id) and the counter the Spec predicts; when the Spec gives no value
   the walker returns an error; in both cases nothing is written and the scope is unchanged
   (frame_eq).  The remaining Spec outcome, OutOfModel (inexact float, int64 overflow,
   randomInt), is outside the statement. *)
Theorem eval_impl_spec G ij cf fuel e st :
  c_ij cf = ij -> wf_expr G e = true -> (height e <= fuel)%nat ->
  (forall v n', eval_spec G (flatten (ctx st)) ij e (next_id st) = Ok (v, n') ->
     exists st', walk cf fuel (to_node G e) st = (Ok v, st') /\ frame_eq st st' /\ next_id st' = n') /\
  (forall m, eval_spec G (flatten (ctx st)) ij e (next_id st) = Err m ->
     exists msg st', walk cf fuel (to_node G e) st = (Err msg, st') /\ frame_eq st st').
Proof.
  intros Hij Hwf Hh.
  pose proof (eval_sim G (flatten (ctx st)) ij cf Hij fuel e Hh Hwf st (fun k => sc_lookup_flatten (ctx st) k)) as H.
  unfold agree in H. split.
  - intros v n' E. rewrite E in H. exact H.
  - intros m E. rewrite E in H. exact H.
Qed.

(* ================= printing ================= *)

Section Print.
Variable G : list (bstr * value).
Variable ij : option value.
Variable cf : cfg.
Hypothesis Hij : c_ij cf = ij.

Lemma walk_print_unfold fuel p arg dirs st :
  walk cf (S fuel) (NPrint p arg dirs) st =
  (v <-- walk cf fuel arg ;;;
   match v with
   | VUndef => fail e_undefined
   | _ =>
       ds <-- print_dirs cf (walk cf fuel) dirs v ;;;
       s <-- lift (value_string v) ;;;
       st1 <-- get ;;;
       ws <-- lift (print_writes (mode st1) ds s) ;;;
       _ <-- write_all ws ;;; ret VUndef
   end) (set_cur st p).
Proof. reflexivity. Qed.

(* a print of an expression that evaluates to undefined is an error and writes nothing *)
Theorem print_undefined_errors fuel e p dirs st n' :
  wf_expr G e = true -> (height e <= fuel)%nat ->
  eval_spec G (flatten (ctx st)) ij e (next_id st) = Ok (VUndef, n') ->
  exists msg st', walk cf (S fuel) (NPrint p (to_node G e) dirs) st = (Err msg, st') /\
                  out st' = out st /\ bufs st' = bufs st.
Proof.
  intros Hwf Hh E.
  destruct (eval_impl_spec G ij cf fuel e (set_cur st p) Hij Hwf Hh) as [Hok _].
  assert (Hctx : ctx (set_cur st p) = ctx st) by reflexivity.
  assert (Hid : next_id (set_cur st p) = next_id st) by reflexivity.
  rewrite Hctx, Hid in Hok. destruct (Hok _ _ E) as (st'&Hwalk&Hfr&_).
  exists e_undefined, st'. rewrite walk_print_unfold. unfold mbind. rewrite Hwalk.
  split; [reflexivity|]. destruct Hfr as (_&_&_&_&Ho&Hb&_). split; [exact Ho | exact Hb].
Qed.

(* an expression the language gives no value makes the print an error, and no text is written for it *)
Theorem no_text_on_error fuel e p dirs st m :
  wf_expr G e = true -> (height e <= fuel)%nat ->
  eval_spec G (flatten (ctx st)) ij e (next_id st) = Err m ->
  exists msg st', walk cf (S fuel) (NPrint p (to_node G e) dirs) st = (Err msg, st') /\
                  out st' = out st /\ bufs st' = bufs st.
Proof.
  intros Hwf Hh E.
  destruct (eval_impl_spec G ij cf fuel e (set_cur st p) Hij Hwf Hh) as [_ Herr].
  assert (Hctx : ctx (set_cur st p) = ctx st) by reflexivity.
  assert (Hid : next_id (set_cur st p) = next_id st) by reflexivity.
  rewrite Hctx, Hid in Herr. destruct (Herr _ E) as (msg&st'&Hwalk&Hfr).
  exists msg, st'. rewrite walk_print_unfold. unfold mbind. rewrite Hwalk.
  split; [reflexivity|]. destruct Hfr as (_&_&_&_&Ho&Hb&_). split; [exact Ho | exact Hb].
Qed.

(* writes to a top-level writer that never fails *)
Lemma write_all_nofault ws st :
  bufs st = [] -> calls_left st = None -> bytes_left st = None ->
  exists st', write_all ws st = (Ok tt, st') /\ out st' = rev ws ++ out st /\
              bufs st' = [] /\ calls_left st' = None /\ bytes_left st' = None /\ ctx st' = ctx st.
Proof.
  revert st. induction ws as [|x r IH]; intros st Hb Hc Hl; cbn [write_all].
  - exists st. repeat split; assumption.
  - unfold mbind, write. rewrite Hb, Hc, Hl.
    destruct (IH (set_out st (x :: out st) None None) Hb eq_refl eq_refl) as (st'&Hw&Ho&Hb'&Hc'&Hl'&Hx).
    exists st'. rewrite Hw. split; [reflexivity|]. split.
    + rewrite Ho. cbn [rev set_out out]. rewrite <- app_assoc. reflexivity.
    + repeat split; assumption.
Qed.

(* the print of an expression that has a printable value writes its string image, html-escaped
   unless autoescaping is off (no directives, no obligatory directives, a writer that accepts everything) *)
Theorem print_renders_spec fuel e p st v n' s :
  wf_expr G e = true -> (height e <= fuel)%nat -> c_oblig cf = [] ->
  bufs st = [] -> calls_left st = None -> bytes_left st = None ->
  eval_spec G (flatten (ctx st)) ij e (next_id st) = Ok (v, n') -> v <> VUndef ->
  value_string v = Ok s ->
  exists st', walk cf (S fuel) (NPrint p (to_node G e) []) st = (Ok VUndef, st') /\
              concat_b (rev (out st')) = concat_b (rev (out st)) ++ (if mode st =? 2 then s else html_escape s).
Proof.
  intros Hwf Hh Hob Hb Hc Hl E Hv Hs.
  destruct (eval_impl_spec G ij cf fuel e (set_cur st p) Hij Hwf Hh) as [Hok _].
  assert (Hctx : ctx (set_cur st p) = ctx st) by reflexivity.
  assert (Hid : next_id (set_cur st p) = next_id st) by reflexivity.
  rewrite Hctx, Hid in Hok. destruct (Hok _ _ E) as (st1&Hwalk&Hfr&_).
  destruct Hfr as (_&Hm&_&_&Ho&Hb1&Hc1&Hl1&_).
  cbn in Hm, Ho, Hb1, Hc1, Hl1.
  set (ws := if negb (mode st1 =? 2) then esc_writes [] s else [s]).
  destruct (write_all_nofault ws st1) as (st2&Hw&Ho2&_); try congruence.
  exists st2. rewrite walk_print_unfold. unfold mbind at 1. rewrite Hwalk.
  assert (Hgo : (ds <-- print_dirs cf (walk cf fuel) [] v ;;;
                 s0 <-- lift (value_string v) ;;;
                 st3 <-- get ;;;
                 ws0 <-- lift (print_writes (mode st3) ds s0) ;;;
                 _ <-- write_all ws0 ;;; ret VUndef) st1 = (Ok VUndef, st2)).
  { cbn [print_dirs]. rewrite Hob. cbn [map]. unfold mbind, ret, lift, get. rewrite Hs.
    unfold print_writes. cbn [apply_directives bind]. fold ws. rewrite Hw. reflexivity. }
  split.
  - destruct v; try exact Hgo. contradiction.
  - rewrite Ho2, Ho, rev_app_distr, rev_involutive.
    assert (Hcat : forall a c, concat_b (a ++ c) = concat_b a ++ concat_b c).
    { induction a as [|x r IH]; intros c; cbn [app concat_b]; [reflexivity|]. rewrite IH, app_assoc. reflexivity. }
    rewrite Hcat. f_equal.
    unfold ws. rewrite Hm. destruct (mode st =? 2); cbn [negb concat_b]; [apply app_nil_r | reflexivity].
Qed.
End Print.
