(* C16, JavaScript side: the helper models of Model/JsDirectives.v tied to soyjs/lib/soyutils.js BY
   TRANSLATION.  tablegen (go/cmd/tablegen/jsutils.go, generator 16-soyutils-js) reads, out of the text of
   soyutils.js, the escape maps and matcher classes of soy.$$escapeJsString and soy.$$escapeHtml, the class
   and the replacer of soy.$$escapeUri (and which function goog.string.urlEncode is bound to), the regex
   alternatives and the replacement of goog.string.newLineToBr, the bounds of the two surrogate predicates,
   goog.format.WORD_BREAK, and the code of soy.$$truncate and of the goog.format.insertWordBreaks shim as
   text; they arrive as Generated/Tables.v jsu_*.  The lemmas below equate them with the functions of
   Model/JsDirectives.v on EVERY UTF-16 code unit (all 65536, by computation) resp. on every code-unit
   string; a change of a table entry, of a class, of the regex or of the code of the two functions in
   soyutils.js is a broken proof obligation of C16.

   What the lemmas do NOT say: String.prototype.replace with a global regex and a function, charCodeAt,
   substring, encodeURIComponent are ECMAScript's; their meaning is the model's (replace = per-unit
   substitution of matched units, leftmost alternative first; encodeURIComponent = ECMA-262 Encode with
   uriUnescaped), tied by the node correspondence of go/cmd/soyverif/c16units.go.  soy.$$truncate and the
   insertWordBreaks loop are compared as TEXT (comments and white space removed) with the text the model
   was written against -- not translated. *)
From Coq Require Import Lia ZifyN ZifyNat ZifyBool List.
From Soy Require Import Model.Bytes Generated.Tables Model.Utf8 Model.Outcome Model.Directives Model.JsEscape Model.JsDirectives.
Import ListNotations.
Open Scope N_scope.

(* ---- all code units: a boolean check on the 65536 of them, by computation ---- *)
Definition jst_r256 : list N := map N.of_nat (seq 0 256).
Definition jst_all_units (P : N -> bool) : bool := forallb (fun h => forallb (fun l => P (h * 256 + l)) jst_r256) jst_r256.

Lemma jst_r256_in c : c < 256 -> In c jst_r256.
Proof. intro H. unfold jst_r256. rewrite <- (N2Nat.id c). apply in_map. apply in_seq. lia. Qed.

Lemma jst_all_units_ok P : jst_all_units P = true -> forall c, c < 65536 -> P c = true.
Proof.
  intros H c Hc. unfold jst_all_units in H. rewrite forallb_forall in H.
  assert (c / 256 < 256) as Hh by (apply N.div_lt_upper_bound; lia).
  specialize (H (c / 256) (jst_r256_in _ Hh)). rewrite forallb_forall in H.
  assert (c mod 256 < 256) as Hl by (apply N.mod_upper_bound; lia).
  specialize (H (c mod 256) (jst_r256_in _ Hl)).
  replace (c / 256 * 256 + c mod 256) with c in H by (rewrite N.mul_comm; apply N.div_mod; lia). exact H.
Qed.

Lemma jst_eqb_eq (x : list N) : forall y, bstr_eqb x y = true -> x = y.
Proof.
  induction x as [|a x IH]; intros [|c y] H; cbn [bstr_eqb] in H; try discriminate; [reflexivity|].
  apply andb_prop in H. destruct H as [H1 H2]. apply N.eqb_eq in H1. subst. f_equal. apply IH. exact H2.
Qed.

Definition jst_opt_eqb (a b : option (list N)) : bool :=
  match a, b with Some x, Some y => bstr_eqb x y | None, None => true | _, _ => false end.
Lemma jst_opt_eqb_eq a b : jst_opt_eqb a b = true -> a = b.
Proof. destruct a, b; cbn; intro H; try discriminate; [f_equal; apply jst_eqb_eq; exact H|reflexivity]. Qed.

Definition jst_oo_eqb (a b : option (option (list N))) : bool :=
  match a, b with Some x, Some y => jst_opt_eqb x y | None, None => true | _, _ => false end.
Lemma jst_oo_eqb_eq a b : jst_oo_eqb a b = true -> a = b.
Proof. destruct a, b; cbn; intro H; try discriminate; [f_equal; apply jst_opt_eqb_eq; exact H|reflexivity]. Qed.

(* ---- a regex character class and a replacement table ---- *)
Definition jst_in_class (cls : list (N * N)) (c : N) : bool := existsb (fun r => in_range (fst r) (snd r) c) cls.
Fixpoint jst_lookup (c : N) (tbl : list (N * list N)) : option (list N) :=
  match tbl with
  | [] => None
  | (k, v) :: r => if k =? c then Some v else jst_lookup c r
  end.

(* str.replace(MATCHER, function(ch) { return MAP[ch]; }) at one unit:
     None          the unit is not matched: copied
     Some (Some e) matched, replaced by e
     Some None     matched without an entry: JavaScript would write the text "undefined" (never the case:
                   the lemmas below give Some (Some _) or None for every unit) *)
Definition jst_replace1 (cls : list (N * N)) (tbl : list (N * list N)) (c : N) : option (option (list N)) :=
  if jst_in_class cls c then Some (jst_lookup c tbl) else None.

(* soy.$$escapeJsString: the model's per-unit function IS matcher + map of soyutils.js *)
Theorem u_js_escape1_matches_source c : c < 65536 ->
  jst_replace1 jsu_js_matcher jsu_js_escape_map c = option_map Some (u_js_escape1 c).
Proof.
  intro Hc. apply jst_oo_eqb_eq. revert c Hc.
  apply (jst_all_units_ok (fun c => jst_oo_eqb (jst_replace1 jsu_js_matcher jsu_js_escape_map c) (option_map Some (u_js_escape1 c)))).
  vm_compute. reflexivity.
Qed.

(* soy.$$escapeHtml *)
Theorem u_html_escape1_matches_source c : c < 65536 ->
  jst_replace1 jsu_html_matcher jsu_html_escape_map c = option_map Some (u_html_escape1 c).
Proof.
  intro Hc. apply jst_oo_eqb_eq. revert c Hc.
  apply (jst_all_units_ok (fun c => jst_oo_eqb (jst_replace1 jsu_html_matcher jsu_html_escape_map c) (option_map Some (u_html_escape1 c)))).
  vm_compute. reflexivity.
Qed.

(* hence the whole helpers, on every code-unit string *)
Fixpoint jst_replace (cls : list (N * N)) (tbl : list (N * list N)) (s : ustr) : option ustr :=
  match s with
  | [] => Some []
  | c :: r =>
      match jst_replace1 cls tbl c, jst_replace cls tbl r with
      | None, Some r' => Some (c :: r')
      | Some (Some e), Some r' => Some (e ++ r')
      | _, _ => None                      (* an "undefined" replacement *)
      end
  end.

Theorem u_escape_js_string_matches_source s : Forall (fun c => c < 65536) s ->
  jst_replace jsu_js_matcher jsu_js_escape_map s = Some (u_escape_js_string s).
Proof.
  induction 1 as [|c r Hc _ IH]; [reflexivity|]. cbn [jst_replace u_escape_js_string].
  rewrite IH, (u_js_escape1_matches_source c Hc). destruct (u_js_escape1 c); reflexivity.
Qed.

Theorem u_escape_html_matches_source s : Forall (fun c => c < 65536) s ->
  jst_replace jsu_html_matcher jsu_html_escape_map s = Some (u_escape_html s).
Proof.
  induction 1 as [|c r Hc _ IH]; [reflexivity|]. cbn [jst_replace u_escape_html].
  rewrite IH, (u_html_escape1_matches_source c Hc). unfold u_esc1. destruct (u_html_escape1 c); reflexivity.
Qed.

(* ---- soy.$$escapeUri ---- *)
Definition jst_encodeURIComponent : bstr := Eval vm_compute in b "encodeURIComponent".

(* goog.string.urlEncode is encodeURIComponent; soy.$$pctEncode_ is '%' + charCode.toString(16) *)
Theorem u_escape_uri_encoder_matches_source : jsu_uri_encoder = jst_encodeURIComponent /\ jsu_pct_lower_hex = true.
Proof. split; reflexivity. Qed.

(* the units encodeURIComponent leaves alone: a unit of soy.$$problematicUriMarks_ is then written as % and
   its (two-digit) lower-case hexadecimal code, every other one is copied *)
Definition jst_uri_mark_piece (c : N) : bstr :=
  if jst_in_class jsu_uri_marks c then [37; hexdigit_lc (c / 16); hexdigit_lc (c mod 16)] else [c].

Theorem u_escape_uri_marks_matches_source c : c < 65536 -> uri_unescaped c = true ->
  u_escape_uri [c] = Ok (jst_uri_mark_piece c)
  /\ (jst_in_class jsu_uri_marks c = true -> 16 <= c < 256).
Proof.
  intros Hc Hu.
  pose (P := fun c => negb (uri_unescaped c)
                      || (match u_escape_uri [c] with Ok r => bstr_eqb r (jst_uri_mark_piece c) | _ => false end
                          && (negb (jst_in_class jsu_uri_marks c) || ((16 <=? c) && (c <? 256))))).
  assert (P c = true) as H by (revert c Hc Hu; intros c Hc _; revert c Hc; apply jst_all_units_ok; vm_compute; reflexivity).
  unfold P in H. rewrite Hu in H. cbn [negb orb] in H. apply andb_prop in H. destruct H as [H1 H2]. split.
  - destruct (u_escape_uri [c]) as [r| | | | |]; try discriminate. f_equal. apply jst_eqb_eq. exact H1.
  - intro Hm. rewrite Hm in H2. cbn [negb orb] in H2. lia.
Qed.

(* every mark is a unit encodeURIComponent leaves alone (so the replace after it sees the unit itself) *)
Theorem u_escape_uri_marks_unescaped c : c < 65536 -> jst_in_class jsu_uri_marks c = true -> uri_unescaped c = true.
Proof.
  intros Hc Hm.
  assert ((negb (jst_in_class jsu_uri_marks c) || uri_unescaped c) = true) as H
    by (revert c Hc Hm; intros c Hc _; revert c Hc; apply jst_all_units_ok; vm_compute; reflexivity).
  rewrite Hm in H. exact H.
Qed.

(* ---- soy.$$changeNewlineToBr: str.replace(/(a1|a2|...)/g, repl) ---- *)
Fixpoint jst_is_prefix (p s : list N) : bool :=
  match p, s with
  | [], _ => true
  | a :: p', c :: s' => (a =? c) && jst_is_prefix p' s'
  | _ :: _, [] => false
  end.
(* the length of the first alternative that matches at the head of s (regex alternation is ordered) *)
Fixpoint jst_first_alt (alts : list (list N)) (s : list N) : option nat :=
  match alts with
  | [] => None
  | a :: r => if jst_is_prefix a s then Some (length a) else jst_first_alt r s
  end.
(* global replace, left to right, non-overlapping; [skip] = units of the current match still to drop *)
Fixpoint jst_replace_alts (alts : list (list N)) (repl : list N) (skip : nat) (s : list N) : list N :=
  match s with
  | [] => []
  | c :: r =>
      match skip with
      | S k => jst_replace_alts alts repl k r
      | O =>
          match jst_first_alt alts s with
          | Some n => repl ++ jst_replace_alts alts repl (pred n) r
          | None => c :: jst_replace_alts alts repl 0 r
          end
      end
  end.

Lemma jst_first_alt_br c r :
  jst_first_alt jsu_br_alternatives (c :: r)
  = if c =? 13 then Some (match r with c2 :: _ => if c2 =? 10 then 2%nat else 1%nat | [] => 1%nat end)
    else if c =? 10 then Some 1%nat else None.
Proof.
  cbn [jst_first_alt jsu_br_alternatives jst_is_prefix length].
  rewrite (N.eqb_sym 13 c), (N.eqb_sym 10 c).
  destruct (c =? 13); cbn [andb].
  - destruct r as [|c2 r2]; [reflexivity|]. rewrite (N.eqb_sym 10 c2). destruct (c2 =? 10); reflexivity.
  - destruct (c =? 10); reflexivity.
Qed.

Lemma jst_nl2br_len n : forall s, (length s <= n)%nat ->
  nl2br s = jst_replace_alts jsu_br_alternatives jsu_br_replacement 0 s.
Proof.
  induction n as [|n IH]; intros s Hl.
  - destruct s; [reflexivity|cbn in Hl; lia].
  - destruct s as [|c r]; [reflexivity|]. cbn [length] in Hl.
    cbn [nl2br jst_replace_alts]. rewrite jst_first_alt_br.
    destruct (c =? 13).
    + destruct r as [|c2 r2]; [reflexivity|]. cbn [length] in Hl. destruct (c2 =? 10).
      * cbn [Nat.pred jst_replace_alts]. rewrite <- IH by lia. reflexivity.
      * cbn [Nat.pred]. rewrite <- IH by (cbn [length]; lia). reflexivity.
    + destruct (c =? 10); cbn [Nat.pred]; rewrite <- IH by lia; reflexivity.
Qed.

(* goog.string.newLineToBr(str, false) is the model's nl2br, for every unit string *)
Theorem u_newline_to_br_matches_source s :
  u_newline_to_br s = jst_replace_alts jsu_br_alternatives jsu_br_replacement 0 s.
Proof. unfold u_newline_to_br. apply (jst_nl2br_len (length s)). lia. Qed.

(* ---- surrogates, word break ---- *)
Theorem u_surrogates_match_source c :
  u_is_high c = in_range (fst jsu_high_surrogate) (snd jsu_high_surrogate) c
  /\ u_is_low c = in_range (fst jsu_low_surrogate) (snd jsu_low_surrogate) c.
Proof. split; reflexivity. Qed.

(* the shim's test (charCode & 0xFC00) != 0xDC00 is the model's "not a low surrogate" *)
Theorem u_low_surrogate_mask c : c < 65536 -> (N.land c 64512 =? 56320) = u_is_low c.
Proof.
  intro Hc. apply Bool.eqb_prop. revert c Hc.
  apply (jst_all_units_ok (fun c => Bool.eqb (N.land c 64512 =? 56320) (u_is_low c))). vm_compute. reflexivity.
Qed.

Theorem u_word_break_matches_source : jsu_word_break = wbr /\ jsu_br_replacement = br.
Proof. split; reflexivity. Qed.

(* ---- soy.$$truncate and the insertWordBreaks loop: the code as text ----
   The text Model/JsDirectives.v u_truncate / u_iwb_aux were written against (comments and white space
   outside literals removed).  Any edit of the two functions other than comments and layout breaks these. *)
Definition jst_truncate_text : bstr := Eval vm_compute in b
  "function(str,maxLen,doAddEllipsis){str=String(str);if(str.length<=maxLen){return str;}if(doAddEllipsis){if(maxLen>3){maxLen-=3;}else{doAddEllipsis=false;}}if(soy.$$isHighSurrogate_(str.charCodeAt(maxLen-1))&&soy.$$isLowSurrogate_(str.charCodeAt(maxLen))){maxLen-=1;}str=str.substring(0,maxLen);if(doAddEllipsis){str+='...';}return str;}".

Definition jst_insert_word_breaks_text : bstr := Eval vm_compute in b
  "function(str,maxCharsBetweenWordBreaks){str=String(str);var resultArr=[];var resultArrLen=0;var isInTag=false;var isMaybeInEntity=false;var numCharsWithoutBreak=0;var flushIndex=0;for(var i=0,n=str.length;i<n;++i){var charCode=str.charCodeAt(i);if(numCharsWithoutBreak>=maxCharsBetweenWordBreaks&&charCode!=32&&(charCode&0xFC00)!=0xDC00){resultArr[resultArrLen++]=str.substring(flushIndex,i);flushIndex=i;resultArr[resultArrLen++]=goog.format.WORD_BREAK;numCharsWithoutBreak=0;}if(isInTag){if(charCode==62){isInTag=false;}}else if(isMaybeInEntity){switch(charCode){case 59:isMaybeInEntity=false;++numCharsWithoutBreak;break;case 60:isMaybeInEntity=false;isInTag=true;break;case 32:isMaybeInEntity=false;numCharsWithoutBreak=0;break;}}else{switch(charCode){case 60:isInTag=true;break;case 38:isMaybeInEntity=true;break;case 32:numCharsWithoutBreak=0;break;default:++numCharsWithoutBreak;break;}}}resultArr[resultArrLen++]=str.substring(flushIndex);return resultArr.join('');}".

Theorem u_truncate_source_text : jsu_truncate_src = jst_truncate_text.
Proof. vm_compute. reflexivity. Qed.

Theorem u_insert_word_breaks_source_text : jsu_insert_word_breaks_src = jst_insert_word_breaks_text.
Proof. vm_compute. reflexivity. Qed.
