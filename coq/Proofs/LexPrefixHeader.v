(* Prefix determinism of the scanner, part 6: lexHeaderParam (the scan of the type backs up over trailing white space: where skipSpace then stops). *)
From Soy Require Import Model.Bytes Model.Utf8 Model.Outcome Model.Token Model.Lexer Generated.Tables Proofs.LexPrefix Proofs.LexPrefixStates.
From Coq Require Import ZifyBool ZifyNat ZifyN Lia List.
Import ListNotations.
Open Scope Z_scope.

Section Skip.
Variable inp : bstr.
Notation n := (Z.of_nat (length inp)).
Variable base : Z.

(* the rune next() returns and the cursor it moves to depend on the cursor only *)
Lemma next_pos l r l1 q : next inp n l = Ok (r, l1) -> l_pos q = l_pos l -> exists q1, next inp n q = Ok (r, q1) /\ l_pos q1 = l_pos l1.
Proof.
  unfold next. intros H E. rewrite E. destruct (n <=? l_pos l); [inversion H; subst; eexists; split; [reflexivity|cbn [l_pos]; reflexivity]|].
  destruct (l_pos l <? 0); [discriminate|]. destruct (decode_rune _) as [rr w]. inversion H; subst. eexists; split; [reflexivity|cbn [l_pos]; lia].
Qed.

(* every run of skipSpace's loop started at cursor a ends at cursor e *)
Definition skip_to (a e : Z) : Prop := forall q fuel r, l_pos q = a -> skip_space_loop inp n fuel q = Ok r -> l_pos r = e.

Lemma isSpace_EOL ch : gen_isSpace ch = true -> gen_isSpaceEOL ch = true.
Proof. (* by value, whatever the spelling of the three predicates (harmless2/1 re-spells isSpaceEOL as one switch) *)
  unfold gen_isSpaceEOL, gen_isSpace, gen_isEndOfLine. lia. Qed.
Lemma isEndOfLine_EOL ch : gen_isEndOfLine ch = true -> gen_isSpaceEOL ch = true.
Proof. unfold gen_isSpaceEOL, gen_isSpace, gen_isEndOfLine. lia. Qed.

Lemma skip_step l ch l1 e : next inp n l = Ok (ch, l1) -> gen_isSpaceEOL ch = true -> skip_to (l_pos l1) e -> skip_to (l_pos l) e.
Proof.
  intros Hn Hs Hk q fuel r Eq H. destruct fuel as [|f]; [discriminate|]. cbn [skip_space_loop] in H.
  destruct (next_pos l ch l1 q Hn Eq) as (q1 & Hq & Ep). rewrite Hq in H. cbn [bind] in H. rewrite Hs in H.
  exact (Hk q1 f r Ep H).
Qed.
Lemma skip_stop l ch l1 : next inp n l = Ok (ch, l1) -> gen_isSpaceEOL ch = false -> skip_to (l_pos l) (l_pos l1).
Proof.
  intros Hn Hs q fuel r Eq H. destruct fuel as [|f]; [discriminate|]. cbn [skip_space_loop] in H.
  destruct (next_pos l ch l1 q Hn Eq) as (q1 & Hq & Ep). rewrite Hq in H. cbn [bind] in H. rewrite Hs in H. inversion H; subst. exact Ep.
Qed.

(* lexHeaderParam's type loop: skipSpace restarted at lastNonSpace stops where the loop stopped *)
Lemma header_type_loop_skip f : forall lns l lns' l',
  (forall e, skip_to (l_pos l) e -> skip_to lns e) ->
  header_type_loop inp n base f lns l = Ok (inr (lns', l')) -> skip_to lns' (l_pos l').
Proof.
  induction f as [|f IH]; intros lns l lns' l' Hsp H; [discriminate|]. cbn [header_type_loop] in H.
  destruct (next inp n l) as [[ch l1]| | | | |] eqn:En; cbn [bind] in H; try discriminate.
  destruct ((ch =? 61) || (ch =? 125)) eqn:C.
  - inversion H; subst. apply Hsp. apply (skip_stop l ch l' En).
    apply Bool.orb_true_iff in C. destruct C as [C|C]; apply Z.eqb_eq in C; subst ch; vm_compute; reflexivity.
  - destruct (ch =? eof); [destruct (errorf _ _ _); cbn [bind] in H; discriminate|].
    destruct (negb (gen_isSpace ch)) eqn:Cs.
    + apply (IH _ _ _ _ (fun e He => He) H).
    + apply Bool.negb_false_iff in Cs. apply (IH _ _ _ _ (fun e He => Hsp e (skip_step l ch l1 e En (isSpace_EOL ch Cs) He)) H).
Qed.
End Skip.

Section Det.
Variable ul ud : Z -> bool.
Variable pre r1 r2 : bstr.
Variable base : Z.
Notation inp1 := (pre ++ r1).
Notation inp2 := (pre ++ r2).
Notation n1 := (Z.of_nat (length (pre ++ r1))).
Notation n2 := (Z.of_nat (length (pre ++ r2))).
Notation h := (Z.of_nat (length pre)).

Ltac replay := repeat (replay1 pre r1 r2 base).
Ltac start H := pose proof (h_le1 pre r1); pose proof (h_le2 pre r2); cbv zeta in H; crack; cbn [fst snd] in *;
  repeat match goal with Hx : context [if ?c then _ else _] |- _ =>
           match type of Hx with
           | _ <= _ => let C := fresh "C" in destruct c eqn:C
           | (_ < _)%nat => let C := fresh "C" in destruct c eqn:C
           end end; facts; monos.
Ltac moves :=
  repeat match goal with
  | E : next _ _ ?l = Ok (_, ?l1) |- _ =>
      lazymatch goal with _ : l_pos l < l_pos l1 |- _ => fail | _ => pose proof (next_moves _ _ _ _ E ltac:(side2)) end
  end.
Ltac replay2 :=
  repeat first
  [ replay1 pre r1 r2 base
  | match goal with
    | E : accept_run_loop _ _ _ ?v ?l = Ok _ |- context [accept_run_loop _ _ ?f2 ?v ?l] =>
        rewrite (accept_run_loop_det ul ud pre r1 r2 base _ _ _ _ E ltac:(side2) f2 ltac:(side2)); cbn [bind]
    | E : skip_space_loop _ _ _ ?l = Ok _ |- context [skip_space_loop _ _ ?f2 ?l] =>
        rewrite (skip_space_loop_det ul ud pre r1 r2 base _ _ _ E ltac:(side2) f2 ltac:(side2)); cbn [bind]
    | E : alnum_loop _ _ _ _ _ ?l = Ok _ |- context [alnum_loop _ _ _ _ ?f2 ?l] =>
        rewrite (alnum_loop_det ul ud pre r1 r2 base _ _ _ E ltac:(side2) f2 ltac:(side2)); cbn [bind]
    | E : soydoc_space_loop _ _ _ ?l = Ok _ |- context [soydoc_space_loop _ _ ?f2 ?l] =>
        rewrite (soydoc_space_loop_det ul ud pre r1 r2 base _ _ _ E ltac:(side2) f2 ltac:(side2)); cbn [bind]
    | E : literal_space_loop _ _ _ ?ch ?l = Ok _ |- context [literal_space_loop _ _ ?f2 ?ch ?l] =>
        rewrite (literal_space_loop_det ul ud pre r1 r2 base _ _ _ _ E ltac:(side2) f2 ltac:(side2)); cbn [bind]
    | E : soydoc_ident_loop _ _ _ _ ?l = Ok _ |- context [soydoc_ident_loop _ _ _ ?f2 ?l] =>
        rewrite (soydoc_ident_loop_det ul ud pre r1 r2 base _ _ _ E ltac:(side2) f2 ltac:(side2)); cbn [bind]
    | E : css_loop _ _ _ _ ?l = Ok _ |- context [css_loop _ _ _ ?f2 ?l] =>
        rewrite (css_loop_det ul ud pre r1 r2 base _ _ _ E ltac:(unfold spos; side2) f2 ltac:(unfold spos; side2)); cbn [bind]
    | E : header_type_loop _ _ _ _ ?lns ?l = Ok _ |- context [header_type_loop _ _ _ ?f2 ?lns ?l] =>
        rewrite (header_type_loop_det ul ud pre r1 r2 base _ lns l _ ltac:(side2) E ltac:(unfold hpos; side2) f2 ltac:(unfold hpos; side2)); cbn [bind]
    end ].

Ltac dead := exfalso; unfold errorf_fact in *; cbn [fst snd] in *; intuition congruence.
Ltac lencond :=
  match goal with
  | |- context [if (?a <=? Z.of_nat (length (pre ++ r2))) then _ else _] =>
      let Cx := fresh "Cx" in destruct (a <=? Z.of_nat (length (pre ++ r2))) eqn:Cx; try solve [exfalso; side2]
  end.
Ltac fn H := pose proof kw_lens; start H; try solve [dead]; repeat (replay2; try lencond).

Ltac tailslice kw :=
  match goal with Et : slice _ _ ?p (Z.of_nat (length (pre ++ r1))) = Ok ?tl |- _ =>
    let tl2 := fresh "tl2" in let Et2 := fresh "Et2" in let Ep := fresh "Ep" in
    destruct (tail_slice_agree pre r1 r2 kw p tl ltac:(side2) ltac:(side2) Et) as (tl2 & Et2 & Ep);
    rewrite Et2; cbn [bind]; rewrite Ep
  end.

Lemma lex_header_param_det l res : lex_header_param ul ud inp1 n1 base l = Ok res -> l_pos (snd res)+ m_header <= h -> fst res <> LDone ->
  lex_header_param ul ud inp2 n2 base l = Ok res.
Proof using All.
  intros H Hb Hl. unfold lex_header_param, skip_space in *. pose proof kw_lens. start H; try solve [dead].
  all: repeat match goal with
       | E : header_type_loop _ _ _ _ ?lns ?l9 = Ok (inr (?z, ?l')), Es : skip_space_loop _ _ _ ?v = Ok ?r |- _ =>
           lazymatch goal with _ : l_pos r = l_pos l' |- _ => fail | _ =>
             pose proof (header_type_loop_skip _ _ _ _ _ _ _ (fun e He => He) E v _ r ltac:(side2) Es) end
       end.
  all: tailslice header_param_kw; replay2.
Qed.
End Det.
